package main

import (
	"bytes"
	"crypto"
	"crypto/ecdsa"
	"crypto/elliptic"
	"crypto/rand"
	stdx509 "crypto/x509"
	"crypto/x509/pkix"
	"encoding/asn1"
	"fmt"
	"math/big"
	"net"
	"reflect"
	"sort"
	"strings"
	"time"

	"github.com/tjfoc/gmsm/sm2"
	gx509 "github.com/tjfoc/gmsm/x509"

	"verif/mon"
	"verif/ref"
)

func init() { registry["C09"] = runC09 }

type c09Signer struct {
	family string // sm2 | rsa | p256 | p384
	key    crypto.Signer
	other  crypto.Signer      // a fresh key of the same type
	cert   *gx509.Certificate // issuer certificate as parsed by gmsm
	ocert  *gx509.Certificate // certificate for the other key, same subject
	algs   []gx509.SignatureAlgorithm
	d      *big.Int // SM2 only
	// further certificates for the same key and subject whose *own* signature uses another algorithm of the family or
	// comes from an issuer of another family (what a certificate was signed with says nothing about its key)
	alts []*gx509.Certificate
	// an issuer certificate for the same key whose subject carries attributes outside the fixed pkix.Name fields
	exotic *gx509.Certificate
}

// stdAlg maps a gmsm signature algorithm number to the standard library's (same names, different numbering).
func stdAlg(a gx509.SignatureAlgorithm) int {
	switch a {
	case gx509.SHA1WithRSA:
		return int(stdx509.SHA1WithRSA)
	case gx509.SHA256WithRSA:
		return int(stdx509.SHA256WithRSA)
	case gx509.SHA384WithRSA:
		return int(stdx509.SHA384WithRSA)
	case gx509.SHA512WithRSA:
		return int(stdx509.SHA512WithRSA)
	case gx509.SHA256WithRSAPSS:
		return int(stdx509.SHA256WithRSAPSS)
	case gx509.SHA384WithRSAPSS:
		return int(stdx509.SHA384WithRSAPSS)
	case gx509.SHA512WithRSAPSS:
		return int(stdx509.SHA512WithRSAPSS)
	case gx509.ECDSAWithSHA1:
		return int(stdx509.ECDSAWithSHA1)
	case gx509.ECDSAWithSHA256:
		return int(stdx509.ECDSAWithSHA256)
	case gx509.ECDSAWithSHA384:
		return int(stdx509.ECDSAWithSHA384)
	case gx509.ECDSAWithSHA512:
		return int(stdx509.ECDSAWithSHA512)
	}
	return 0
}

func algName(a gx509.SignatureAlgorithm) string {
	if a == 0 {
		return "unset"
	}
	return a.String()
}

// tbsAndSig splits a DER object SEQUENCE{ tbs, alg, BIT STRING sig } without gmsm.
func tbsAndSig(der []byte) (tbs, sig []byte, ok bool) {
	var outer struct {
		TBS asn1.RawValue
		Alg asn1.RawValue
		Sig asn1.BitString
	}
	rest, err := asn1.Unmarshal(der, &outer)
	if err != nil || len(rest) != 0 {
		return nil, nil, false
	}
	return outer.TBS.FullBytes, outer.Sig.RightAlign(), true
}

func sigInts(sig []byte) (string, bool) {
	var v struct{ R, S *big.Int }
	if _, err := asn1.Unmarshal(sig, &v); err != nil {
		return "", false
	}
	return v.R.Text(16) + "," + v.S.Text(16), true
}

// c09AlgIdx is the running index used to cycle through a family's algorithms: in the quick tier only every fourth RSA case
// is executed, so the index counts executed cases (otherwise only algorithms 0 and 4 of 8 would ever be drawn).
func c09AlgIdx(c *Ctx, family string, i int) int {
	if family == "rsa" && !c.Thorough {
		return i / 4
	}
	return i
}

func runC09(c *Ctx) {
	rep := c.Rep
	rep.Meta("cases: certificate / CSR / CRL templates over the documented fields (serial classes incl. negative and 20-byte, multi-valued names + extra attributes, validity encodings, key usages, EKUs, basic constraints / path lengths, SANs of each kind, name constraints, policy OIDs, extra extensions) x signer family {SM2, RSA-2048, P-256, P-384} x SignatureAlgorithm {unset, every algorithm of the family}; each created object is parsed back and compared field by field with the template (ground truth), verified under the issuer, under a fresh key of the same type, with the reference SM2 verifier over the raw TBS (SM2), and after a byte substitution at every position of the DER (b^1 and b^0x80): it must fail to parse or to verify unless TBS bytes and signature integers are unchanged. Distinct non-trivial = distinct (object kind, signer family, algorithm, template class) and (mutation region).",
		1500, []string{"ground-truth templates", "ref SM2 verifier for SM2-signed objects", "encoding/asn1 for splitting TBS/signature", "crypto/x509 to mint RSA/ECDSA issuer certificates"},
		[]string{"signature algorithm families that do not match the signer are outside the property: only 'no panic' is observed"})
	r := c.Rng("c09")

	// ---- signers and their issuer certificates
	var signers []*c09Signer
	{
		k, o := newSM2Key(r), newSM2Key(r)
		caSpec := certSpec{cn: "SM2 Issuer", serial: 1, isCA: true, mutate: func(t *gx509.Certificate) { t.SubjectKeyId = []byte{1, 2, 3, 4}; t.KeyUsage |= gx509.KeyUsageCRLSign }}
		cc, _, err := issueSM2(caSpec, &k.PublicKey, nil, k, r)
		oc, _, err2 := issueSM2(caSpec, &o.PublicKey, nil, o, r)
		if err != nil || err2 != nil {
			rep.Violation("C09/harness/cannot-create-sm2-issuer", fmt.Sprint(err, err2), nil)
			return
		}
		signers = append(signers, &c09Signer{"sm2", k, o, cc, oc, []gx509.SignatureAlgorithm{0, gx509.SM2WithSM3, gx509.SM2WithSHA1, gx509.SM2WithSHA256}, k.D, nil, nil})
		// a second SM2 issuer whose private scalar has a leading zero byte and whose key object went through the PEM
		// writer and reader (with a password) before signing — what an issuer loading its key from disk does. Its
		// certificate carries the public point computed by the reference from d (ground truth), not what the loader says.
		for _, kc := range keyClasses(c.Rng("reloaded-issuer"), 0, false) {
			if kc.cls != "d-lz=1" {
				continue
			}
			pemB, e1 := gx509.WritePrivateKeyToPem(kc.priv(), []byte("issuer-pw"))
			if e1 != nil {
				break
			}
			rk, e2 := gx509.ReadPrivateKeyFromPem(pemB, []byte("issuer-pw"))
			if e2 != nil || rk == nil || rk.D.Cmp(kc.d) != 0 {
				rep.Violation("C09/harness/issuer-key-does-not-reload", fmt.Sprint(e2), nil)
				break
			}
			truePub := &sm2.PublicKey{Curve: sm2.P256Sm2(), X: kc.x, Y: kc.y}
			spec := certSpec{cn: "SM2 Issuer (key reloaded from PEM)", serial: 2, isCA: true, mutate: func(t *gx509.Certificate) { t.SubjectKeyId = []byte{1, 2, 3, 5}; t.KeyUsage |= gx509.KeyUsageCRLSign }}
			rc, _, e3 := issueSM2(spec, truePub, nil, kc.priv(), r)
			o2 := newSM2Key(r)
			oc2, _, e4 := issueSM2(spec, &o2.PublicKey, nil, o2, r)
			if e3 == nil && e4 == nil {
				signers = append(signers, &c09Signer{"sm2", rk, o2, rc, oc2, []gx509.SignatureAlgorithm{0, gx509.SM2WithSM3}, kc.d, nil, nil})
			}
			break
		}
	}
	mkStd := func(family string, k, o crypto.Signer, algs []gx509.SignatureAlgorithm) {
		pubOf := func(s crypto.Signer) interface{} { return s.Public() }
		mk := func(s crypto.Signer) *gx509.Certificate {
			t := &stdx509.Certificate{SerialNumber: big.NewInt(7), Subject: pkix.Name{CommonName: family + " Issuer"}, NotBefore: fixedNow.Add(-time.Hour), NotAfter: fixedNow.Add(time.Hour),
				IsCA: true, BasicConstraintsValid: true, KeyUsage: stdx509.KeyUsageCertSign | stdx509.KeyUsageCRLSign, SubjectKeyId: []byte{9, 9, 9}}
			der, err := stdx509.CreateCertificate(r, t, t, pubOf(s), s)
			if err != nil {
				return nil
			}
			cc, err := gx509.ParseCertificate(der)
			if err != nil {
				return nil
			}
			return cc
		}
		cc, oc := mk(k), mk(o)
		if cc == nil || oc == nil {
			rep.Note("could not mint issuer certificate for " + family)
			return
		}
		signers = append(signers, &c09Signer{family, k, o, cc, oc, algs, nil, nil, nil})
	}
	rk1, rk2 := cachedRSA()
	mkStd("rsa", rk1, rk2, []gx509.SignatureAlgorithm{0, gx509.SHA1WithRSA, gx509.SHA256WithRSA, gx509.SHA384WithRSA, gx509.SHA512WithRSA, gx509.SHA256WithRSAPSS, gx509.SHA384WithRSAPSS, gx509.SHA512WithRSAPSS})
	mkStd("p256", newP256Key(r), newP256Key(r), []gx509.SignatureAlgorithm{0, gx509.ECDSAWithSHA1, gx509.ECDSAWithSHA256, gx509.ECDSAWithSHA384, gx509.ECDSAWithSHA512})
	for _, cv := range []struct {
		name string
		c    elliptic.Curve
	}{{"p384", elliptic.P384()}, {"p521", elliptic.P521()}, {"p224", elliptic.P224()}} {
		k1, _ := ecdsa.GenerateKey(cv.c, r)
		k2, _ := ecdsa.GenerateKey(cv.c, r)
		mkStd(cv.name, k1, k2, []gx509.SignatureAlgorithm{0, gx509.ECDSAWithSHA256, gx509.ECDSAWithSHA384, gx509.ECDSAWithSHA512})
	}

	// alternative issuer certificates (same key, same subject, differently signed)
	{
		byFam := map[string]*c09Signer{}
		for _, s := range signers {
			byFam[s.family] = s
		}
		tmplOf := func(s *c09Signer) *gx509.Certificate {
			return &gx509.Certificate{SerialNumber: big.NewInt(77), Subject: s.cert.Subject, NotBefore: fixedNow.Add(-time.Hour), NotAfter: fixedNow.Add(time.Hour), IsCA: true, BasicConstraintsValid: true,
				KeyUsage: gx509.KeyUsageCertSign | gx509.KeyUsageCRLSign, SubjectKeyId: s.cert.SubjectKeyId}
		}
		addAlt := func(s *c09Signer, t *gx509.Certificate, parent *gx509.Certificate, signer crypto.Signer) {
			if parent == nil {
				parent = t
			}
			var der []byte
			var err error
			if smPub, ok := s.key.Public().(*sm2.PublicKey); ok {
				if pi := mon.Guard(func() { der, err = gx509.CreateCertificate(t, parent, smPub, signer) }); pi != nil || err != nil {
					rep.Note(fmt.Sprintf("alternative issuer certificate for %s not created: %v %v", s.family, pi, err))
					return
				}
			} else {
				// RSA / ECDSA subject keys: minted with the standard library (gmsm issues for SM2 subject keys only)
				st := &stdx509.Certificate{SerialNumber: t.SerialNumber, Subject: t.Subject, NotBefore: t.NotBefore, NotAfter: t.NotAfter, IsCA: true, BasicConstraintsValid: true,
					KeyUsage: stdx509.KeyUsageCertSign | stdx509.KeyUsageCRLSign, SubjectKeyId: t.SubjectKeyId, SignatureAlgorithm: stdx509.SignatureAlgorithm(stdAlg(t.SignatureAlgorithm))}
				sp := st
				if parent != t {
					if pp, e := stdx509.ParseCertificate(parent.Raw); e == nil {
						sp = pp
					} else {
						return
					}
				}
				if der, err = stdx509.CreateCertificate(r, st, sp, s.key.Public(), signer); err != nil {
					rep.Note(fmt.Sprintf("alternative issuer certificate for %s not created: %v", s.family, err))
					return
				}
			}
			if cc, e := gx509.ParseCertificate(der); e == nil {
				s.alts = append(s.alts, cc)
			}
		}
		for _, s := range signers {
			for _, a := range s.algs[1:] { // self-signed with each explicit algorithm of the family
				t := tmplOf(s)
				t.SignatureAlgorithm = a
				addAlt(s, t, nil, s.key)
			}
		}
		// issuers whose subject holds attributes outside the fixed pkix.Name fields (givenName, emailAddress) next to the
		// usual ones: a child's issuer field must be the parent's subject byte for byte
		for _, s := range signers {
			t := tmplOf(s)
			t.SerialNumber = big.NewInt(78)
			t.Subject = pkix.Name{CommonName: s.family + " Exotic Issuer", Organization: []string{"Org, with comma"}, ExtraNames: []pkix.AttributeTypeAndValue{
				{Type: asn1.ObjectIdentifier{2, 5, 4, 42}, Value: "Given"}, {Type: asn1.ObjectIdentifier{1, 2, 840, 113549, 1, 9, 1}, Value: "ca@example.org"}}}
			before := len(s.alts)
			addAlt(s, t, nil, s.key)
			if len(s.alts) > before {
				s.exotic = s.alts[len(s.alts)-1]
				s.alts = s.alts[:before]
			}
		}
		// cross-family: an SM2 CA certified by an RSA root, a P-256 CA certified by an RSA root
		if sm, rs := byFam["sm2"], byFam["rsa"]; sm != nil && rs != nil {
			addAlt(sm, tmplOf(sm), rs.cert, rs.key)
			if p := byFam["p256"]; p != nil {
				addAlt(p, tmplOf(p), rs.cert, rs.key)
			}
		}
	}

	verifyUnder := func(s *c09Signer, iss *gx509.Certificate, alg gx509.SignatureAlgorithm, tbs, sig []byte) error {
		return iss.CheckSignature(alg, tbs, sig)
	}

	// ---- template generator
	type tmplCase struct {
		cls string
		t   *gx509.Certificate
	}
	subjPub := newSM2Key(r)
	genTemplate := func(i int, rr *mon.RNG) tmplCase {
		t := &gx509.Certificate{
			SerialNumber: big.NewInt(int64(1000 + i)),
			Subject:      pkix.Name{CommonName: fmt.Sprintf("subject-%d", i)},
			NotBefore:    fixedNow.Add(-24 * time.Hour).Truncate(time.Second),
			NotAfter:     fixedNow.Add(24 * time.Hour).Truncate(time.Second),
		}
		var cls []string
		switch i % 6 {
		case 0:
			t.SerialNumber = big.NewInt(1)
			cls = append(cls, "serial=1")
		case 1:
			b := rr.Bytes(20)
			b[0] &= 0x7f
			b[0] |= 0x40
			t.SerialNumber = new(big.Int).SetBytes(b)
			cls = append(cls, "serial=20B")
		case 2:
			b := rr.Bytes(20)
			b[0] |= 0x80
			t.SerialNumber = new(big.Int).SetBytes(b)
			cls = append(cls, "serial=20B-highbit")
		case 3:
			t.SerialNumber = big.NewInt(-int64(5 + rr.Intn(100000)))
			cls = append(cls, "serial=negative")
		case 4:
			t.SerialNumber = new(big.Int)
			cls = append(cls, "serial=0")
		default:
			cls = append(cls, "serial=small")
		}
		switch (i / 6) % 5 {
		case 0:
			cls = append(cls, "name=cn")
		case 1:
			t.Subject = pkix.Name{CommonName: "多值 ünïcode", Country: []string{"CN", "DE"}, Organization: []string{"O1", "O2"}, OrganizationalUnit: []string{"OU"}, Locality: []string{"L"}, Province: []string{"P"}, StreetAddress: []string{"S"}, PostalCode: []string{"1"}, SerialNumber: "SN-1"}
			cls = append(cls, "name=multivalued")
		case 2:
			t.Subject = pkix.Name{CommonName: "extra", ExtraNames: []pkix.AttributeTypeAndValue{{Type: asn1.ObjectIdentifier{2, 5, 4, 42}, Value: "Given"}, {Type: asn1.ObjectIdentifier{1, 2, 3, 4}, Value: "custom"}}}
			cls = append(cls, "name=extra-attributes")
		case 3:
			t.Subject = pkix.Name{}
			t.DNSNames = []string{"no-subject.example"}
			cls = append(cls, "name=empty")
		default:
			t.Subject = pkix.Name{CommonName: strings.Repeat("x", 64), Organization: []string{strings.Repeat("o", 200)}}
			cls = append(cls, "name=long")
		}
		switch (i / 30) % 4 {
		case 0:
		case 1:
			t.NotBefore = time.Date(1949, 12, 31, 23, 59, 59, 0, time.UTC)
			t.NotAfter = time.Date(2049, 12, 31, 23, 59, 59, 0, time.UTC)
			cls = append(cls, "validity=1949..2049")
		case 2:
			t.NotBefore = time.Date(1950, 1, 1, 0, 0, 0, 0, time.UTC)
			t.NotAfter = time.Date(2050, 1, 1, 0, 0, 0, 0, time.UTC)
			cls = append(cls, "validity=1950..2050")
		default:
			t.NotBefore = time.Date(2030, 2, 28, 1, 2, 3, 0, time.FixedZone("x", 3600*5))
			t.NotAfter = time.Date(9999, 12, 31, 23, 59, 59, 0, time.UTC)
			cls = append(cls, "validity=tz..9999")
		}
		// key usage / eku
		if rr.Intn(2) == 0 {
			t.KeyUsage = gx509.KeyUsage(1 + rr.Intn(511))
			cls = append(cls, "ku")
		}
		if rr.Intn(2) == 0 {
			all := []gx509.ExtKeyUsage{gx509.ExtKeyUsageAny, gx509.ExtKeyUsageServerAuth, gx509.ExtKeyUsageClientAuth, gx509.ExtKeyUsageCodeSigning, gx509.ExtKeyUsageEmailProtection, gx509.ExtKeyUsageTimeStamping, gx509.ExtKeyUsageOCSPSigning}
			for _, e := range all {
				if rr.Intn(3) == 0 {
					t.ExtKeyUsage = append(t.ExtKeyUsage, e)
				}
			}
			if rr.Intn(3) == 0 {
				t.UnknownExtKeyUsage = []asn1.ObjectIdentifier{{1, 3, 6, 1, 4, 1, 99999, 1}}
			}
			cls = append(cls, "eku")
		}
		switch rr.Intn(5) {
		case 0:
			t.BasicConstraintsValid, t.IsCA, t.MaxPathLen = true, true, 1+rr.Intn(3)
			cls = append(cls, "bc=ca,pathlen>0")
		case 1:
			t.BasicConstraintsValid, t.IsCA, t.MaxPathLen, t.MaxPathLenZero = true, true, 0, true
			cls = append(cls, "bc=ca,pathlen=0")
		case 2:
			t.BasicConstraintsValid, t.IsCA, t.MaxPathLen = true, true, -1
			cls = append(cls, "bc=ca,pathlen=-1")
		case 3:
			t.BasicConstraintsValid, t.IsCA = true, false
			cls = append(cls, "bc=leaf")
		default:
			cls = append(cls, "bc=absent")
		}
		switch rr.Intn(6) {
		case 0:
			t.DNSNames = append(t.DNSNames, "a.example", "*.b.example")
			t.EmailAddresses = []string{"x@example.org"}
			t.IPAddresses = []net.IP{net.IPv4(10, 1, 2, 3).To4(), net.ParseIP("2001:db8::1")}
			cls = append(cls, "san=all")
		case 1:
			t.DNSNames = append(t.DNSNames, "only-dns.example")
			cls = append(cls, "san=dns")
		case 2:
			t.EmailAddresses = []string{"only@example.org"}
			cls = append(cls, "san=email")
		case 3:
			t.IPAddresses = []net.IP{net.IPv4(192, 0, 2, 9).To4()}
			cls = append(cls, "san=ip")
		}
		if rr.Intn(3) == 0 {
			t.PermittedDNSDomains = []string{"example.com", ".sub.example"}
			t.PermittedDNSDomainsCritical = rr.Bool()
			cls = append(cls, "nameconstraints")
		}
		if rr.Intn(3) == 0 {
			t.PolicyIdentifiers = []asn1.ObjectIdentifier{{2, 23, 140, 1, 2, 1}, {1, 2, 3}}
			cls = append(cls, "policy")
		}
		if rr.Intn(3) == 0 {
			t.ExtraExtensions = []pkix.Extension{{Id: asn1.ObjectIdentifier{1, 3, 6, 1, 4, 1, 99999, 7}, Critical: false, Value: []byte{0x04, 0x02, 0xca, 0xfe}}}
			cls = append(cls, "extraext")
		}
		if rr.Intn(3) == 0 {
			t.SubjectKeyId = rr.Bytes(20)
			t.OCSPServer = []string{"http://ocsp.example"}
			t.IssuingCertificateURL = []string{"http://ca.example/ca.cer"}
			t.CRLDistributionPoints = []string{"http://crl.example/1.crl"}
			cls = append(cls, "ski+aia+crldp")
		}
		return tmplCase{strings.Join(cls, ","), t}
	}

	// compare a parsed certificate with its template
	cmpCert := func(t *gx509.Certificate, p *gx509.Certificate) []string {
		var d []string
		if p.SerialNumber.Cmp(t.SerialNumber) != 0 {
			d = append(d, fmt.Sprintf("SerialNumber %v != %v", p.SerialNumber, t.SerialNumber))
		}
		// names: compare the RDN sequences attribute by attribute as multisets
		flat := func(n pkix.Name) []string {
			var o []string
			for _, rdn := range n.ToRDNSequence() {
				for _, a := range rdn {
					o = append(o, fmt.Sprintf("%v=%v", a.Type, a.Value))
				}
			}
			sort.Strings(o)
			return o
		}
		// the parsed name lists every attribute in Names (ExtraNames is an input-only field)
		var got []string
		for _, a := range p.Subject.Names {
			got = append(got, fmt.Sprintf("%v=%v", a.Type, a.Value))
		}
		sort.Strings(got)
		if want := flat(t.Subject); !(len(got) == 0 && len(want) == 0) && !reflect.DeepEqual(want, got) {
			d = append(d, fmt.Sprintf("Subject %v != %v", got, want))
		}
		if !p.NotBefore.Equal(t.NotBefore) || !p.NotAfter.Equal(t.NotAfter) {
			d = append(d, fmt.Sprintf("validity %v..%v != %v..%v", p.NotBefore, p.NotAfter, t.NotBefore.UTC(), t.NotAfter.UTC()))
		}
		if p.KeyUsage != t.KeyUsage {
			d = append(d, fmt.Sprintf("KeyUsage %v != %v", p.KeyUsage, t.KeyUsage))
		}
		if !(len(p.ExtKeyUsage) == 0 && len(t.ExtKeyUsage) == 0) && !reflect.DeepEqual(p.ExtKeyUsage, t.ExtKeyUsage) {
			d = append(d, fmt.Sprintf("ExtKeyUsage %v != %v", p.ExtKeyUsage, t.ExtKeyUsage))
		}
		if !(len(p.UnknownExtKeyUsage) == 0 && len(t.UnknownExtKeyUsage) == 0) && !reflect.DeepEqual(p.UnknownExtKeyUsage, t.UnknownExtKeyUsage) {
			d = append(d, "UnknownExtKeyUsage")
		}
		if p.BasicConstraintsValid != t.BasicConstraintsValid || p.IsCA != t.IsCA {
			d = append(d, fmt.Sprintf("BasicConstraints valid=%v ca=%v != valid=%v ca=%v", p.BasicConstraintsValid, p.IsCA, t.BasicConstraintsValid, t.IsCA))
		}
		if t.BasicConstraintsValid {
			wantLen, wantZero := t.MaxPathLen, t.MaxPathLenZero
			if wantLen == 0 && !wantZero {
				wantLen = -1
			}
			if wantLen > 0 || wantZero {
				if p.MaxPathLen != wantLen || p.MaxPathLenZero != (wantLen == 0) {
					d = append(d, fmt.Sprintf("MaxPathLen %d/%v != %d", p.MaxPathLen, p.MaxPathLenZero, wantLen))
				}
			} else if p.MaxPathLen != -1 {
				d = append(d, fmt.Sprintf("MaxPathLen %d != -1 (unset)", p.MaxPathLen))
			}
		}
		strs := func(a, b []string, name string) {
			if !(len(a) == 0 && len(b) == 0) && !reflect.DeepEqual(a, b) {
				d = append(d, fmt.Sprintf("%s %v != %v", name, a, b))
			}
		}
		strs(p.DNSNames, t.DNSNames, "DNSNames")
		strs(p.EmailAddresses, t.EmailAddresses, "EmailAddresses")
		if len(p.IPAddresses) != len(t.IPAddresses) {
			d = append(d, "IPAddresses count")
		} else {
			for i := range p.IPAddresses {
				if !p.IPAddresses[i].Equal(t.IPAddresses[i]) {
					d = append(d, "IPAddresses")
				}
			}
		}
		strs(p.PermittedDNSDomains, t.PermittedDNSDomains, "PermittedDNSDomains")
		if len(t.PermittedDNSDomains) > 0 && p.PermittedDNSDomainsCritical != t.PermittedDNSDomainsCritical {
			d = append(d, "PermittedDNSDomainsCritical")
		}
		if !(len(p.PolicyIdentifiers) == 0 && len(t.PolicyIdentifiers) == 0) && !reflect.DeepEqual(p.PolicyIdentifiers, t.PolicyIdentifiers) {
			d = append(d, "PolicyIdentifiers")
		}
		if len(t.SubjectKeyId) > 0 && !bytes.Equal(p.SubjectKeyId, t.SubjectKeyId) {
			d = append(d, "SubjectKeyId")
		}
		strs(p.OCSPServer, t.OCSPServer, "OCSPServer")
		strs(p.IssuingCertificateURL, t.IssuingCertificateURL, "IssuingCertificateURL")
		strs(p.CRLDistributionPoints, t.CRLDistributionPoints, "CRLDistributionPoints")
		for _, e := range t.ExtraExtensions {
			found := false
			for _, pe := range p.Extensions {
				if pe.Id.Equal(e.Id) && bytes.Equal(pe.Value, e.Value) && pe.Critical == e.Critical {
					found = true
				}
			}
			if !found {
				d = append(d, "ExtraExtension missing")
			}
		}
		return d
	}

	// mutate checks byte substitutions of a signed DER object.
	type verifier func(der []byte) (parsedTBS []byte, sig []byte, err error) // parse with gmsm + verify under issuer
	mutate := func(kind, fam string, der []byte, v verifier, every bool, rr *mon.RNG, w map[string]interface{}) {
		tbs0, sig0, ok := tbsAndSig(der)
		if !ok {
			rep.Violation("C09/"+kind+"/output-not-SEQUENCE{tbs,alg,sig}", "", w)
			return
		}
		ints0, _ := sigInts(sig0)
		tbsStart := bytes.Index(der, tbs0)
		sigStart := len(der) - len(sig0)
		var positions []int
		if every {
			for p := 0; p < len(der); p++ {
				positions = append(positions, p)
			}
		} else {
			for k := 0; k < 40; k++ {
				positions = append(positions, rr.Intn(len(der)))
			}
			for k := 0; k < 10; k++ {
				positions = append(positions, sigStart+rr.Intn(len(sig0)))
			}
			for k := 1; k <= 6 && sigStart-k >= 0; k++ {
				positions = append(positions, sigStart-k) // unused-bits byte, BIT STRING length and tag
			}
		}
		for _, p := range positions {
			for _, x := range []byte{0x01, 0x80} {
				m := append([]byte{}, der...)
				m[p] ^= x
				region := "outer"
				switch {
				case p >= sigStart:
					region = "signature"
				case p >= tbsStart && p < tbsStart+len(tbs0):
					region = "tbs"
				}
				var ptbs, psig []byte
				var err error
				if pi := mon.Guard(func() { ptbs, psig, err = v(m) }); pi != nil {
					ww := map[string]interface{}{"position": p, "xor": x, "der": mon.Hex(m)}
					rep.Violation("C09/"+kind+"/panic-on-mutated-object/"+pi.Func, pi.Value, ww)
					continue
				}
				if err == nil {
					// accepted: only allowed when signed bytes and signature value are semantically unchanged
					// judge "unchanged" on the harness's own reading of the mutated DER (BIT STRING right-aligned per its
					// unused-bits count), falling back to what gmsm parsed when encoding/asn1 cannot read the object
					if t1, s1, ok := tbsAndSig(m); ok {
						ptbs, psig = t1, s1
					}
					ints1, _ := sigInts(psig)
					same := bytes.Equal(ptbs, tbs0) && (bytes.Equal(psig, sig0) || (fam != "rsa" && ints1 == ints0 && ints0 != ""))
					if !same {
						ww := map[string]interface{}{"position": p, "xor": x, "region": region, "original": mon.Hex(der), "mutated": mon.Hex(m)}
						for k, vv := range w {
							ww[k] = vv
						}
						rep.Violation("C09/"+kind+"/verifies-after-change/"+fam+"/"+region, fmt.Sprintf("byte %d ^= %#x (%s) still parses and verifies under the issuer", p, x, region), ww)
					} else {
						rep.Count("mutations_nonsemantic_accepted", 1)
					}
				}
				rep.EvalN("mutate/"+kind+"/"+fam+"/"+region, 1, true)
			}
		}
	}

	// ---- certificates
	nT := c.Q(60, 1200)
	type job struct {
		i   int
		s   *c09Signer
		alg gx509.SignatureAlgorithm
	}
	var jobs []job
	for i := 0; i < nT; i++ {
		for _, s := range signers {
			if s.family == "rsa" && !c.Thorough && i%4 != 0 {
				continue // RSA signing dominates cost
			}
			k := c09AlgIdx(c, s.family, i)
			jobs = append(jobs, job{i, s, s.algs[k%len(s.algs)]})
			if k < len(s.algs) { // make sure every algorithm of the family is seen with a plain template
				jobs = append(jobs, job{i, s, s.algs[(k+1)%len(s.algs)]})
			}
		}
	}
	Par(len(jobs), func(ji int) {
		j := jobs[ji]
		rr := c.Rng(fmt.Sprintf("cert%d", j.i))
		tc := genTemplate(j.i, rr)
		t := tc.t
		t.SignatureAlgorithm = j.alg
		cls := fmt.Sprintf("cert/%s/%s/%s", j.s.family, algName(j.alg), tc.cls)
		w := map[string]interface{}{"object": "certificate", "signer": j.s.family, "algorithm": algName(j.alg), "template_class": tc.cls, "template_index": j.i}
		var der []byte
		var err error
		parent := j.s.cert
		if j.i%3 == 1 && j.s.exotic != nil {
			parent = j.s.exotic
			cls += "/issuer=exotic-subject"
			w["issuer_certificate"] = mon.Hex(parent.Raw)
		}
		if pi := mon.Guard(func() {
			der, err = gx509.CreateCertificate(t, parent, &subjPub.PublicKey, j.s.key)
			keep("x509.CreateCertificate", der)
		}); pi != nil {
			rep.Violation("C09/CreateCertificate/panic/"+pi.Func, pi.Value, w)
			rep.Eval(cls)
			return
		}
		if err != nil {
			rep.Violation("C09/CreateCertificate/error/"+j.s.family+"/"+algName(j.alg), err.Error(), w)
			rep.Eval(cls)
			return
		}
		w["der"] = mon.Hex(der)
		var p *gx509.Certificate
		if pi := mon.Guard(func() { p, err = gx509.ParseCertificate(der) }); pi != nil || err != nil {
			rep.Violation("C09/CreateCertificate/does-not-parse-back/"+tc.cls, fmt.Sprint(pi, err), w)
			rep.Eval(cls)
			return
		}
		if diff := cmpCert(t, p); len(diff) > 0 {
			for _, dd := range diff {
				rep.Violation("C09/CreateCertificate/field-mismatch/"+strings.Fields(dd)[0], dd, w)
			}
		}
		// subject public key
		if pk, ok := p.PublicKey.(*ecdsa.PublicKey); !ok || pk.X.Cmp(subjPub.X) != 0 || pk.Y.Cmp(subjPub.Y) != 0 {
			rep.Violation("C09/CreateCertificate/field-mismatch/PublicKey", fmt.Sprintf("%T", p.PublicKey), w)
		}
		if !bytes.Equal(p.RawIssuer, parent.RawSubject) {
			rep.Violation("C09/CreateCertificate/field-mismatch/Issuer", fmt.Sprintf("issuer field %x is not the parent's subject %x", p.RawIssuer, parent.RawSubject), w)
		}
		// name chaining as a verifier sees it: the parent as the only root must yield a chain (time and usages aside)
		{
			roots := gx509.NewCertPool()
			roots.AddCert(parent)
			mid := p.NotBefore.Add(p.NotAfter.Sub(p.NotBefore) / 2)
			if parent.NotBefore.After(mid) || parent.NotAfter.Before(mid) {
				mid = fixedNow
			}
			if _, e := p.Verify(gx509.VerifyOptions{Roots: roots, CurrentTime: mid, KeyUsages: []gx509.ExtKeyUsage{gx509.ExtKeyUsageAny}}); e != nil {
				if _, isUA := e.(gx509.UnknownAuthorityError); isUA {
					rep.Violation("C09/CreateCertificate/issuer-not-found-by-name", e.Error(), w)
				} else {
					rep.Count("chain_checks_skipped(validity/constraints of the random template)", 1)
				}
			} else {
				rep.Count("chain_checks_ok", 1)
			}
		}
		// verification under the issuer
		if e := p.CheckSignatureFrom(parent); e != nil {
			rep.Violation("C09/CreateCertificate/does-not-verify-under-issuer/"+j.s.family+"/"+algName(j.alg), e.Error(), w)
		} else {
			// under another key of the same type
			if e := p.CheckSignatureFrom(j.s.ocert); e == nil {
				rep.Violation("C09/Certificate/verifies-under-other-key/"+j.s.family, "", w)
			}
			// the answer belongs to the pair (certificate, issuer), not to the history of the object: wrong issuer again
			// (a failed check must not be remembered as passed), the right one, the wrong one once more
			for rep2, iss := range []*gx509.Certificate{j.s.ocert, parent, j.s.ocert, parent} {
				e := p.CheckSignatureFrom(iss)
				if (iss == parent) != (e == nil) {
					rep.Violation("C09/Certificate/repeated-check-on-one-parsed-object-changes-its-answer/"+j.s.family, fmt.Sprintf("check #%d of the sequence [other, issuer, other, issuer] after a first [issuer, other]: issuer=%v err=%v", rep2+1, iss == parent, e), w)
					break
				}
			}
			if j.s.family == "sm2" {
				tbs, sig, _ := tbsAndSig(der)
				var v struct{ R, S *big.Int }
				asn1.Unmarshal(sig, &v)
				k := j.s.key.(*sm2.PrivateKey)
				if v.R == nil || !ref.Verify(k.X, k.Y, ref.DefaultUID, tbs, v.R, v.S) {
					rep.Violation("C09/CreateCertificate/sm2-signature-not-over-raw-TBS-with-default-ID/"+algName(j.alg), "reference verifier rejects", w)
				}
			}
			every := c.Thorough || ji%10 == 0
			mutate("Certificate", j.s.family, der, func(m []byte) ([]byte, []byte, error) {
				pc, e := gx509.ParseCertificate(m)
				if e != nil {
					return nil, nil, e
				}
				return pc.RawTBSCertificate, pc.Signature, pc.CheckSignatureFrom(parent)
			}, every, rr, w)
		}
		rep.Eval(cls)
		if ji == 2 {
			rep.Sample(map[string]interface{}{"object": "certificate", "class": cls, "der": mon.Hex(der)})
		}
	})

	// ---- issuers whose public coordinates have leading zero bytes, one after the other in one process (1, then 2, then 3
	// leading zero bytes; x, then y): the identity hash ZA pads coordinates to 32 bytes, and whatever that padding shares
	// between calls shows when a shorter value follows a longer one. Each certificate is checked by the library and by the
	// reference verifier over the raw TBS, and the earlier ones are checked again after the later issuers were used.
	{
		rk := c.Rng("issuer-key-classes")
		type issued struct {
			ca, leaf *gx509.Certificate
			key      testKey
		}
		var made []issued
		check := func(x issued, when string) {
			w := map[string]interface{}{"issuer_key_class": x.key.cls, "issuer_d": x.key.d.Text(16), "when": when}
			if e := x.leaf.CheckSignatureFrom(x.ca); e != nil {
				rep.Violation("C09/CreateCertificate/does-not-verify-under-issuer/sm2/issuer-key-class", fmt.Sprintf("%s (%s): %v", x.key.cls, when, e), w)
			}
			tbs, sig, _ := tbsAndSig(x.leaf.Raw)
			var v struct{ R, S *big.Int }
			asn1.Unmarshal(sig, &v)
			if v.R == nil || !ref.Verify(x.key.x, x.key.y, ref.DefaultUID, tbs, v.R, v.S) {
				rep.Violation("C09/CreateCertificate/sm2-signature-not-over-raw-TBS-with-default-ID/issuer-key-class", fmt.Sprintf("%s (%s): reference verifier rejects", x.key.cls, when), w)
			}
		}
		for _, k := range keyClasses(rk, 2, true) {
			ct := &gx509.Certificate{SerialNumber: big.NewInt(1), Subject: pkix.Name{CommonName: "issuer " + k.cls}, NotBefore: fixedNow.Add(-time.Hour), NotAfter: fixedNow.Add(time.Hour),
				BasicConstraintsValid: true, IsCA: true, KeyUsage: gx509.KeyUsageCertSign, SignatureAlgorithm: gx509.SM2WithSM3}
			cder, e1 := gx509.CreateCertificate(ct, ct, k.pub(), k.priv())
			lt := &gx509.Certificate{SerialNumber: big.NewInt(2), Subject: pkix.Name{CommonName: "leaf under " + k.cls}, NotBefore: fixedNow.Add(-time.Hour), NotAfter: fixedNow.Add(time.Hour), SignatureAlgorithm: gx509.SM2WithSM3}
			if e1 != nil {
				continue
			}
			ca, e2 := gx509.ParseCertificate(cder)
			if e2 != nil {
				continue
			}
			lder, e3 := gx509.CreateCertificate(lt, ca, &subjPub.PublicKey, k.priv())
			if e3 != nil {
				rep.Violation("C09/CreateCertificate/error/sm2/issuer-key-class", e3.Error(), map[string]interface{}{"issuer_key_class": k.cls})
				continue
			}
			leaf, e4 := gx509.ParseCertificate(lder)
			if e4 != nil {
				continue
			}
			x := issued{ca, leaf, k}
			check(x, "right after issuing")
			made = append(made, x)
			rep.Eval("issuer-key-class/" + k.cls)
		}
		for _, x := range made {
			check(x, "after all other issuers were used")
		}
	}

	// ---- hand-built issuer structs and struct reuse: the parent is a struct the caller filled in (no RawSubject), used
	// for several certificates with its Subject edited in place in between; and the self-signed loop where template and
	// parent are one struct. Each certificate must carry the names its template and parent held AT THE TIME of its call.
	{
		rr := c.Rng("reuse-structs")
		for _, s := range signers {
			if s.family == "rsa" && !c.Thorough {
				continue
			}
			for round := 0; round < c.Q(3, 20); round++ {
				alg := s.algs[rr.Intn(len(s.algs))]
				w := map[string]interface{}{"signer": s.family, "algorithm": algName(alg)}
				parent := &gx509.Certificate{Subject: pkix.Name{CommonName: fmt.Sprintf("hand-built issuer %d/0", round), Organization: []string{"Org A"}}}
				self := &gx509.Certificate{SerialNumber: big.NewInt(1000), Subject: pkix.Name{CommonName: fmt.Sprintf("self %d/0", round), Country: []string{"CN"}},
					NotBefore: fixedNow.Add(-time.Hour), NotAfter: fixedNow.Add(time.Hour), BasicConstraintsValid: true, IsCA: true, SignatureAlgorithm: alg}
				selfKeyOK := s.family == "sm2"
				for step := 0; step < 4; step++ {
					if step > 0 {
						// edit the same structs in place
						parent.Subject.CommonName = fmt.Sprintf("hand-built issuer %d/%d", round, step)
						if step == 2 {
							parent.Subject.Organization = append(parent.Subject.Organization, "Org B")
						}
						self.Subject.CommonName = fmt.Sprintf("self %d/%d", round, step)
						self.SerialNumber = big.NewInt(int64(1000 + step))
					}
					wantIssuer := flatName(parent.Subject)
					t := &gx509.Certificate{SerialNumber: big.NewInt(int64(10 + step)), Subject: pkix.Name{CommonName: fmt.Sprintf("leaf %d/%d", round, step)},
						NotBefore: fixedNow.Add(-time.Hour), NotAfter: fixedNow.Add(time.Hour), SignatureAlgorithm: alg}
					var der []byte
					var err error
					if pi := mon.Guard(func() { der, err = gx509.CreateCertificate(t, parent, &subjPub.PublicKey, s.key) }); pi != nil || err != nil {
						rep.Violation("C09/reuse/CreateCertificate-with-hand-built-parent-failed/"+s.family, fmt.Sprint(pi, err), w)
						break
					}
					p, perr := gx509.ParseCertificate(der)
					if perr != nil {
						rep.Violation("C09/reuse/does-not-parse-back", perr.Error(), w)
						break
					}
					if got := flatName(p.Issuer); !reflect.DeepEqual(got, wantIssuer) {
						rep.Violation("C09/reuse/issuer-is-not-the-parent-subject-at-call-time", fmt.Sprintf("step %d: issuer %v, parent.Subject was %v", step, got, wantIssuer),
							map[string]interface{}{"signer": s.family, "step": step, "der": mon.Hex(der)})
					}
					if got := flatName(p.Subject); !reflect.DeepEqual(got, flatName(t.Subject)) {
						rep.Violation("C09/reuse/subject-is-not-the-template-subject", fmt.Sprintf("step %d: %v", step, got), map[string]interface{}{"der": mon.Hex(der)})
					}
					rep.Eval(fmt.Sprintf("reuse/hand-built-parent/%s/step=%d", s.family, step))
					if !selfKeyOK {
						continue
					}
					// self-signed: template and parent are the same struct
					sk := s.key.(*sm2.PrivateKey)
					wantSelf := flatName(self.Subject)
					if pi := mon.Guard(func() { der, err = gx509.CreateCertificate(self, self, &sk.PublicKey, sk) }); pi != nil || err != nil {
						rep.Violation("C09/reuse/self-signed-CreateCertificate-failed", fmt.Sprint(pi, err), w)
						break
					}
					p, perr = gx509.ParseCertificate(der)
					if perr != nil {
						rep.Violation("C09/reuse/does-not-parse-back", perr.Error(), w)
						break
					}
					if gs, gi := flatName(p.Subject), flatName(p.Issuer); !reflect.DeepEqual(gs, wantSelf) || !reflect.DeepEqual(gi, wantSelf) {
						rep.Violation("C09/reuse/self-signed-names-are-not-the-template-names-at-call-time", fmt.Sprintf("step %d: subject %v issuer %v, template.Subject was %v", step, gs, gi, wantSelf),
							map[string]interface{}{"step": step, "der": mon.Hex(der)})
					}
					if e := p.CheckSignatureFrom(p); e != nil {
						rep.Violation("C09/reuse/self-signed-does-not-verify-under-itself", e.Error(), map[string]interface{}{"der": mon.Hex(der)})
					}
					if p.SerialNumber.Cmp(self.SerialNumber) != 0 {
						rep.Violation("C09/reuse/self-signed-serial-stale", fmt.Sprint(p.SerialNumber), map[string]interface{}{"der": mon.Hex(der)})
					}
					rep.Eval(fmt.Sprintf("reuse/self-signed-same-struct/step=%d", step))
				}
			}
		}
	}

	// ---- the PEM-producing entry points and the conversions to and from crypto/x509's certificate type: the same
	// objects through other doors
	{
		for _, sg := range signers {
			if sg.family == "rsa" && !c.Thorough {
				continue
			}
			for i := 0; i < c.Q(6, 60); i++ {
				rr := c.Rng(fmt.Sprintf("pemapi/%s/%d", sg.family, i))
				tc := genTemplate(1000+i, rr)
				t := tc.t
				t.SignatureAlgorithm = sg.algs[i%len(sg.algs)]
				w := map[string]interface{}{"signer": sg.family, "algorithm": algName(t.SignatureAlgorithm), "template_class": tc.cls}
				var pemB []byte
				var err error
				if pi := mon.Guard(func() { pemB, err = gx509.CreateCertificateToPem(t, sg.cert, &subjPub.PublicKey, sg.key) }); pi != nil || err != nil {
					rep.Violation("C09/CreateCertificateToPem/fails/"+sg.family, fmt.Sprint(pi, err), w)
					continue
				}
				w["pem"] = string(pemB)
				var p *gx509.Certificate
				if pi := mon.Guard(func() { p, err = gx509.ReadCertificateFromPem(pemB) }); pi != nil || err != nil {
					rep.Violation("C09/CreateCertificateToPem/does-not-read-back", fmt.Sprint(pi, err), w)
					continue
				}
				for _, dd := range cmpCert(t, p) {
					rep.Violation("C09/CreateCertificateToPem/field-mismatch/"+strings.Fields(dd)[0], dd, w)
				}
				if e := p.CheckSignatureFrom(sg.cert); e != nil {
					rep.Violation("C09/CreateCertificateToPem/does-not-verify-under-issuer/"+sg.family, e.Error(), w)
				}
				if e := p.CheckSignatureFrom(sg.ocert); e == nil {
					rep.Violation("C09/Certificate/verifies-under-other-key/"+sg.family, "(PEM entry point)", w)
				}
				// conversions: gmsm -> crypto/x509 -> gmsm keeps every field
				var std *stdx509.Certificate
				if pi := mon.Guard(func() { std, err = gx509.ParseSm2CertifateToX509(p.Raw) }); pi != nil || err != nil || std == nil {
					rep.Violation("C09/ParseSm2CertifateToX509/fails", fmt.Sprint(pi, err), w)
				} else {
					if !bytes.Equal(std.Raw, p.Raw) || !bytes.Equal(std.RawTBSCertificate, p.RawTBSCertificate) || std.SerialNumber.Cmp(p.SerialNumber) != 0 ||
						!std.NotBefore.Equal(p.NotBefore) || !std.NotAfter.Equal(p.NotAfter) || std.Subject.String() != stdNameString(p.Subject) || !reflect.DeepEqual(std.DNSNames, p.DNSNames) ||
						std.IsCA != p.IsCA || int(std.KeyUsage) != int(p.KeyUsage) || !bytes.Equal(std.Signature, p.Signature) {
						rep.Violation("C09/ToX509Certificate/field-mismatch", "", w)
					}
					back := &gx509.Certificate{}
					if pi := mon.Guard(func() { back.FromX509Certificate(std) }); pi != nil {
						rep.Violation("C09/FromX509Certificate/panic/"+pi.Func, pi.Value, w)
					} else if !bytes.Equal(back.Raw, p.Raw) || back.SerialNumber.Cmp(p.SerialNumber) != 0 || !reflect.DeepEqual(flatName(back.Subject), flatName(p.Subject)) ||
						!reflect.DeepEqual(back.DNSNames, p.DNSNames) || back.IsCA != p.IsCA || back.KeyUsage != p.KeyUsage || !back.NotAfter.Equal(p.NotAfter) {
						rep.Violation("C09/FromX509Certificate/field-mismatch", "", w)
					}
				}
				rep.Eval(fmt.Sprintf("pem-api/certificate/%s/%s", sg.family, tc.cls))
				// request
				rt := &gx509.CertificateRequest{Subject: pkix.Name{CommonName: fmt.Sprintf("pem-csr-%d", i), Organization: []string{"Org"}}, DNSNames: []string{"csr.example"}, SignatureAlgorithm: t.SignatureAlgorithm}
				var cpem []byte
				if pi := mon.Guard(func() { cpem, err = gx509.CreateCertificateRequestToPem(rt, sg.key) }); pi != nil || err != nil {
					rep.Violation("C09/CreateCertificateRequestToPem/fails/"+sg.family+"/"+algName(t.SignatureAlgorithm), fmt.Sprint(pi, err), w)
					continue
				}
				var pr *gx509.CertificateRequest
				if pi := mon.Guard(func() { pr, err = gx509.ReadCertificateRequestFromPem(cpem) }); pi != nil || err != nil {
					rep.Violation("C09/CreateCertificateRequestToPem/does-not-read-back", fmt.Sprint(pi, err), map[string]interface{}{"pem": string(cpem)})
					continue
				}
				if pr.Subject.CommonName != rt.Subject.CommonName || !reflect.DeepEqual(pr.DNSNames, rt.DNSNames) {
					rep.Violation("C09/CreateCertificateRequestToPem/field-mismatch", "", map[string]interface{}{"pem": string(cpem)})
				}
				if e := pr.CheckSignature(); e != nil {
					rep.Violation("C09/CreateCertificateRequestToPem/does-not-verify/"+sg.family+"/"+algName(t.SignatureAlgorithm), e.Error(), map[string]interface{}{"pem": string(cpem)})
				}
				rep.Eval(fmt.Sprintf("pem-api/request/%s", sg.family))
			}
		}
	}

	// ---- CSRs
	nR := c.Q(40, 600)
	Par(nR*len(signers), func(idx int) {
		i, s := idx/len(signers), signers[idx%len(signers)]
		if s.family == "rsa" && !c.Thorough && i%4 != 0 {
			return
		}
		rr := c.Rng(fmt.Sprintf("csr%d", idx))
		alg := s.algs[c09AlgIdx(c, s.family, i)%len(s.algs)]
		t := &gx509.CertificateRequest{Subject: pkix.Name{CommonName: fmt.Sprintf("csr-%d", i), Organization: []string{"Org"}}, SignatureAlgorithm: alg}
		var tc []string
		switch i % 5 {
		case 0:
			t.DNSNames = []string{"csr.example", "*.csr.example"}
			t.EmailAddresses = []string{"csr@example.org"}
			t.IPAddresses = []net.IP{net.IPv4(192, 0, 2, 1).To4()}
			tc = append(tc, "san=all")
		case 1:
			t.DNSNames = []string{"csr-dns.example"}
			tc = append(tc, "san=dns")
		case 2:
			t.EmailAddresses = []string{"csr-only@example.org"}
			tc = append(tc, "san=email")
		case 3:
			t.IPAddresses = []net.IP{net.IPv4(192, 0, 2, 7).To4(), net.ParseIP("2001:db8::9")}
			tc = append(tc, "san=ip")
		}
		if i%3 == 0 {
			t.ExtraExtensions = []pkix.Extension{{Id: asn1.ObjectIdentifier{1, 3, 6, 1, 4, 1, 99999, 8}, Value: []byte{5, 0}}}
			tc = append(tc, "extraext")
		}
		if i%5 == 0 {
			t.Subject.ExtraNames = []pkix.AttributeTypeAndValue{{Type: asn1.ObjectIdentifier{2, 5, 4, 42}, Value: "G"}}
			t.Subject.Country = []string{"CN", "US"}
			tc = append(tc, "multivalued")
		}
		// the (older) Attributes field next to the fields above: an unrelated attribute, or an extensionRequest attribute of
		// its own that the generated extensions have to be merged into
		var attrExt *pkix.Extension
		switch i % 7 {
		case 2:
			attrExt = &pkix.Extension{Id: asn1.ObjectIdentifier{1, 3, 6, 1, 4, 1, 99999, 9}, Value: []byte{4, 3, 1, 2, 3}}
			t.Attributes = []pkix.AttributeTypeAndValueSET{{Type: asn1.ObjectIdentifier{1, 2, 840, 113549, 1, 9, 14},
				Value: [][]pkix.AttributeTypeAndValue{{{Type: attrExt.Id, Value: attrExt.Value}}}}}
			tc = append(tc, "attributes=extensionRequest")
		case 4:
			t.Attributes = []pkix.AttributeTypeAndValueSET{{Type: asn1.ObjectIdentifier{1, 2, 840, 113549, 1, 9, 7},
				Value: [][]pkix.AttributeTypeAndValue{{{Type: asn1.ObjectIdentifier{1, 2, 840, 113549, 1, 9, 7}, Value: "challenge"}}}}}
			tc = append(tc, "attributes=challengePassword")
		}
		cls := fmt.Sprintf("csr/%s/%s/%s", s.family, algName(alg), strings.Join(tc, ","))
		w := map[string]interface{}{"object": "csr", "signer": s.family, "algorithm": algName(alg), "template_class": strings.Join(tc, ",")}
		var der []byte
		var err error
		if pi := mon.Guard(func() { der, err = gx509.CreateCertificateRequest(rand.Reader, t, s.key) }); pi != nil {
			rep.Violation("C09/CreateCertificateRequest/panic/"+pi.Func, pi.Value, w)
			rep.Eval(cls)
			return
		}
		if err != nil {
			rep.Violation("C09/CreateCertificateRequest/error/"+s.family+"/"+algName(alg), err.Error(), w)
			rep.Eval(cls)
			return
		}
		w["der"] = mon.Hex(der)
		var p *gx509.CertificateRequest
		if pi := mon.Guard(func() { p, err = gx509.ParseCertificateRequest(der) }); pi != nil || err != nil {
			rep.Violation("C09/CreateCertificateRequest/does-not-parse-back", fmt.Sprint(pi, err), w)
			rep.Eval(cls)
			return
		}
		if p.Subject.CommonName != t.Subject.CommonName || !reflect.DeepEqual(p.Subject.Country, t.Subject.Country) || !reflect.DeepEqual(p.Subject.Organization, t.Subject.Organization) {
			rep.Violation("C09/CreateCertificateRequest/field-mismatch/Subject", fmt.Sprintf("%v", p.Subject), w)
		}
		sanOK := (len(p.DNSNames) == 0 && len(t.DNSNames) == 0 || reflect.DeepEqual(p.DNSNames, t.DNSNames)) &&
			(len(p.EmailAddresses) == 0 && len(t.EmailAddresses) == 0 || reflect.DeepEqual(p.EmailAddresses, t.EmailAddresses)) && len(p.IPAddresses) == len(t.IPAddresses)
		if sanOK {
			for k := range t.IPAddresses {
				if !p.IPAddresses[k].Equal(t.IPAddresses[k]) {
					sanOK = false
				}
			}
		}
		if !sanOK {
			rep.Violation("C09/CreateCertificateRequest/field-mismatch/SAN", fmt.Sprintf("dns %v email %v ip %v, template dns %v email %v ip %v", p.DNSNames, p.EmailAddresses, p.IPAddresses, t.DNSNames, t.EmailAddresses, t.IPAddresses), w)
		}
		if attrExt != nil {
			found := false
			for _, pe := range p.Extensions {
				if pe.Id.Equal(attrExt.Id) && bytes.Equal(pe.Value, attrExt.Value) {
					found = true
				}
			}
			if !found {
				rep.Violation("C09/CreateCertificateRequest/field-mismatch/extension-requested-through-Attributes", "", w)
			}
		}
		for _, e := range t.ExtraExtensions {
			found := false
			for _, pe := range p.Extensions {
				if pe.Id.Equal(e.Id) && bytes.Equal(pe.Value, e.Value) {
					found = true
				}
			}
			if !found {
				rep.Violation("C09/CreateCertificateRequest/field-mismatch/ExtraExtension", "", w)
			}
		}
		if e := p.CheckSignature(); e != nil {
			rep.Violation("C09/CreateCertificateRequest/does-not-verify/"+s.family+"/"+algName(alg), e.Error(), w)
		} else {
			// the CSR's own key is the verifier; "another key": substitute the SPKI is a TBS change (covered by mutation). Check via issuer API with the other cert:
			if e := s.ocert.CheckSignature(p.SignatureAlgorithm, p.RawTBSCertificateRequest, p.Signature); e == nil {
				rep.Violation("C09/CertificateRequest/verifies-under-other-key/"+s.family, "", w)
			}
			every := c.Thorough || idx%10 == 0
			mutate("CertificateRequest", s.family, der, func(m []byte) ([]byte, []byte, error) {
				pc, e := gx509.ParseCertificateRequest(m)
				if e != nil {
					return nil, nil, e
				}
				// verify under the *original* signer's key (a mutation of the embedded key must not help)
				return pc.RawTBSCertificateRequest, pc.Signature, s.cert.CheckSignature(pc.SignatureAlgorithm, pc.RawTBSCertificateRequest, pc.Signature)
			}, every, rr, w)
		}
		rep.Eval(cls)
	})

	// ---- CRLs (both constructors)
	nC := c.Q(30, 500)
	Par(nC*len(signers), func(idx int) {
		i, s := idx/len(signers), signers[idx%len(signers)]
		if s.family == "rsa" && !c.Thorough && i%4 != 0 {
			return
		}
		rr := c.Rng(fmt.Sprintf("crl%d", idx))
		var revoked []pkix.RevokedCertificate
		for k := 0; k < i%4; k++ {
			revoked = append(revoked, pkix.RevokedCertificate{SerialNumber: big.NewInt(int64(100 + k + i)), RevocationTime: fixedNow.Add(-time.Duration(k) * time.Hour).Truncate(time.Second)})
		}
		now, exp := fixedNow.Truncate(time.Second), fixedNow.Add(48*time.Hour).Truncate(time.Second)
		checkCRL := func(kind string, alg gx509.SignatureAlgorithm, der []byte, number *big.Int) {
			w := map[string]interface{}{"object": kind, "signer": s.family, "algorithm": algName(alg), "revoked": len(revoked), "der": mon.Hex(der)}
			var cl *pkix.CertificateList
			var err error
			if pi := mon.Guard(func() { cl, err = gx509.ParseDERCRL(der) }); pi != nil || err != nil {
				rep.Violation("C09/"+kind+"/does-not-parse-back", fmt.Sprint(pi, err), w)
				return
			}
			if cl2, e2 := gx509.ParseCRL(pemBlock("X509 CRL", der)); e2 != nil || !bytes.Equal(cl2.TBSCertList.Raw, cl.TBSCertList.Raw) {
				rep.Violation("C09/"+kind+"/ParseCRL(PEM)-differs", fmt.Sprint(e2), w)
			}
			if len(cl.TBSCertList.RevokedCertificates) != len(revoked) || !cl.TBSCertList.ThisUpdate.Equal(now) || !cl.TBSCertList.NextUpdate.Equal(exp) {
				rep.Violation("C09/"+kind+"/field-mismatch/list-or-times", "", w)
			}
			for k := range revoked {
				if k < len(cl.TBSCertList.RevokedCertificates) && (cl.TBSCertList.RevokedCertificates[k].SerialNumber.Cmp(revoked[k].SerialNumber) != 0 || !cl.TBSCertList.RevokedCertificates[k].RevocationTime.Equal(revoked[k].RevocationTime)) {
					rep.Violation("C09/"+kind+"/field-mismatch/revoked-entry", "", w)
				}
			}
			if cl.TBSCertList.Issuer.String() != s.cert.Subject.ToRDNSequence().String() {
				rep.Violation("C09/"+kind+"/field-mismatch/issuer", "", w)
			}
			if number != nil {
				found := false
				for _, e := range cl.TBSCertList.Extensions {
					if e.Id.Equal(asn1.ObjectIdentifier{2, 5, 29, 20}) {
						var n *big.Int
						if _, err := asn1.Unmarshal(e.Value, &n); err == nil && n.Cmp(number) == 0 {
							found = true
						}
					}
				}
				if !found {
					rep.Violation("C09/"+kind+"/field-mismatch/crl-number", "", w)
				}
			}
			if e := s.cert.CheckCRLSignature(cl); e != nil {
				rep.Violation("C09/"+kind+"/does-not-verify-under-issuer/"+s.family+"/"+algName(alg), e.Error(), w)
				return
			}
			if e := s.ocert.CheckCRLSignature(cl); e == nil {
				rep.Violation("C09/"+kind+"/verifies-under-other-key/"+s.family, "", w)
			}
			if s.family == "sm2" {
				tbs, sig, _ := tbsAndSig(der)
				var v struct{ R, S *big.Int }
				asn1.Unmarshal(sig, &v)
				k := s.key.(*sm2.PrivateKey)
				if v.R == nil || !ref.Verify(k.X, k.Y, ref.DefaultUID, tbs, v.R, v.S) {
					rep.Violation("C09/"+kind+"/sm2-signature-not-over-raw-TBS-with-default-ID/"+algName(alg), "", w)
				}
			}
			mutate(kind, s.family, der, func(m []byte) ([]byte, []byte, error) {
				pc, e := gx509.ParseDERCRL(m)
				if e != nil {
					return nil, nil, e
				}
				return pc.TBSCertList.Raw, pc.SignatureValue.RightAlign(), s.cert.CheckCRLSignature(pc)
			}, c.Thorough || idx%10 == 0, rr, w)
		}
		// Certificate.CreateCRL (default algorithm only)
		{
			var der []byte
			var err error
			// the issuer certificate is the standard one or one of the differently-signed alternatives for the same key
			issuers := append([]*gx509.Certificate{s.cert}, s.alts...)
			iss := issuers[c09AlgIdx(c, s.family, i)%len(issuers)]
			cls := fmt.Sprintf("crl/CreateCRL/%s/issuer-cert-signed-with=%s/revoked=%d", s.family, algName(iss.SignatureAlgorithm), len(revoked))
			wi := map[string]interface{}{"signer": s.family, "issuer_certificate_signature_algorithm": algName(iss.SignatureAlgorithm), "issuer_certificate": mon.Hex(iss.Raw)}
			if pi := mon.Guard(func() { der, err = iss.CreateCRL(rand.Reader, s.key, revoked, now, exp) }); pi != nil {
				rep.Violation("C09/CreateCRL/panic/"+pi.Func, pi.Value, wi)
			} else if err != nil {
				rep.Violation("C09/CreateCRL/error/"+s.family+"/issuer-cert-signed-with="+algName(iss.SignatureAlgorithm), err.Error(), wi)
			} else {
				checkCRL("CreateCRL", 0, der, nil)
			}
			rep.Eval(cls)
		}
		// CreateRevocationList with each algorithm
		{
			alg := s.algs[c09AlgIdx(c, s.family, i)%len(s.algs)]
			num := big.NewInt(int64(1 + i))
			t := &gx509.RevocationList{SignatureAlgorithm: alg, RevokedCertificates: revoked, Number: num, ThisUpdate: now, NextUpdate: exp}
			if i%3 == 0 {
				t.ExtraExtensions = []pkix.Extension{{Id: asn1.ObjectIdentifier{1, 3, 6, 1, 4, 1, 99999, 9}, Value: []byte{5, 0}}}
			}
			var der []byte
			var err error
			cls := fmt.Sprintf("crl/CreateRevocationList/%s/%s/revoked=%d", s.family, algName(alg), len(revoked))
			if pi := mon.Guard(func() { der, err = gx509.CreateRevocationList(rand.Reader, t, s.cert, s.key) }); pi != nil {
				rep.Violation("C09/CreateRevocationList/panic/"+pi.Func, pi.Value, map[string]interface{}{"signer": s.family, "algorithm": algName(alg)})
			} else if err != nil {
				rep.Violation("C09/CreateRevocationList/error/"+s.family+"/"+algName(alg), err.Error(), map[string]interface{}{"signer": s.family, "algorithm": algName(alg)})
			} else {
				checkCRL("CreateRevocationList", alg, der, num)
			}
			rep.Eval(cls)
		}
	})

	// ---- mismatching families: outside the property, only "no panic"
	for _, s := range signers {
		for _, o := range signers {
			if s.family == o.family || (s.family[0] == 'p' && o.family[0] == 'p') {
				continue
			}
			for _, alg := range o.algs[1:] {
				t := genTemplate(1, c.Rng("mismatch")).t
				t.SignatureAlgorithm = alg
				if pi := mon.Guard(func() { gx509.CreateCertificate(t, s.cert, &subjPub.PublicKey, s.key) }); pi != nil {
					rep.Violation("C09/CreateCertificate/panic-on-mismatching-algorithm/"+pi.Func, fmt.Sprintf("%s key with %s: %s", s.family, algName(alg), pi.Value), nil)
				}
				rep.EvalTrivial("mismatch/" + s.family + "/" + algName(alg))
			}
		}
	}
	_ = verifyUnder
}

// flatName lists the attributes of a name that the fixed pkix.Name fields carry, for comparison across encode/parse.
func flatName(n pkix.Name) []string {
	var out []string
	add := func(k string, v []string) {
		for _, x := range v {
			out = append(out, k+"="+x)
		}
	}
	add("C", n.Country)
	add("O", n.Organization)
	add("OU", n.OrganizationalUnit)
	add("L", n.Locality)
	add("ST", n.Province)
	if n.CommonName != "" {
		out = append(out, "CN="+n.CommonName)
	}
	if n.SerialNumber != "" {
		out = append(out, "SN="+n.SerialNumber)
	}
	return out
}

// stdNameString renders a gmsm-parsed name the way crypto/x509/pkix does (the types are the same underneath).
func stdNameString(n pkix.Name) string { return n.String() }
