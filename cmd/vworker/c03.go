package main

import (
	"bytes"
	"errors"
	"fmt"
	"io"
	"math/big"
	"strings"

	"github.com/tjfoc/gmsm/sm2"

	"verif/mon"
	"verif/ref"
)

func init() { registry["C03"] = runC03 }

type scalarCase struct {
	cls string
	b   []byte
}

func withLZ(cls string, v *big.Int, lz int) scalarCase {
	b := v.Bytes()
	if lz > 0 {
		b = append(make([]byte, lz), b...)
		cls = fmt.Sprintf("%s/lz=%d", cls, lz)
	}
	if len(b) > 32 {
		cls += "/>32B"
	}
	return scalarCase{cls, b}
}

// scalarClasses produces the boundary-class scalars of the property's quantifier.
func scalarClasses(r *mon.RNG, nRandom int, thorough bool) []scalarCase {
	var out []scalarCase
	out = append(out, scalarCase{"empty", nil}, scalarCase{"zero", []byte{0}}, scalarCase{"zero/lz", make([]byte, 32)}, scalarCase{"zero/40B", make([]byte, 40)})
	for _, v := range []int64{1, 2, 3, 7, 8, 15, 16, 17} {
		for _, lz := range []int{0, 1, 31} {
			out = append(out, withLZ(fmt.Sprintf("small=%d", v), big.NewInt(v), lz))
		}
	}
	one := big.NewInt(1)
	for k := 0; k < 320; k++ {
		if !thorough && k > 16 && k%7 != 0 && k != 255 && k != 256 && k != 257 && k != 319 {
			continue
		}
		p := new(big.Int).Lsh(one, uint(k))
		out = append(out, withLZ("pow2", p, 0))
		out = append(out, withLZ("pow2-1", new(big.Int).Sub(p, one), 0))
	}
	for d := int64(-16); d <= 16; d++ {
		v := new(big.Int).Add(ref.N, big.NewInt(d))
		for _, lz := range []int{0, 1, 8} {
			out = append(out, withLZ(fmt.Sprintf("n%+d", d), v, lz))
		}
	}
	n2 := new(big.Int).Lsh(ref.N, 1)
	for _, d := range []int64{-2, -1, 0, 1, 2, -6, -10, -14} {
		out = append(out, withLZ(fmt.Sprintf("2n%+d", d), new(big.Int).Add(n2, big.NewInt(d)), 0))
	}
	n3 := new(big.Int).Mul(ref.N, big.NewInt(3))
	out = append(out, withLZ("3n-6", new(big.Int).Sub(n3, big.NewInt(6)), 0))
	out = append(out, withLZ("p", ref.P, 0), withLZ("p-1", new(big.Int).Sub(ref.P, one), 0))
	half := new(big.Int).Rsh(ref.N, 1)
	for d := int64(-2); d <= 2; d++ {
		out = append(out, withLZ(fmt.Sprintf("n/2%+d", d), new(big.Int).Add(half, big.NewInt(d)), 0))
	}
	// all-ones windows
	for i := 0; i < nRandom/6; i++ {
		pos, l := r.Intn(250), 1+r.Intn(64)
		v := new(big.Int).Lsh(one, uint(l))
		v.Sub(v, one)
		v.Lsh(v, uint(pos))
		out = append(out, withLZ("ones-window", v, r.Pick(0, 0, 0, 1, 3)))
	}
	// byte patterns
	for _, pat := range []byte{0x0f, 0xf0, 0x55, 0xaa, 0x77, 0x88, 0x11, 0xff, 0x80, 0x01} {
		for _, l := range []int{8, 31, 32, 33, 40} {
			out = append(out, scalarCase{fmt.Sprintf("pattern=%02x/len=%d", pat, l), bytes.Repeat([]byte{pat}, l)})
		}
	}
	// random of all lengths, some with leading zero bytes
	for i := 0; i < nRandom; i++ {
		l := 1 + r.Intn(40)
		b := r.Bytes(l)
		lz := 0
		if r.Intn(4) == 0 {
			lz = 1 + r.Intn(8)
			if lz > l {
				lz = l
			}
			for j := 0; j < lz; j++ {
				b[j] = 0
			}
		}
		cls := fmt.Sprintf("random/len=%d", l)
		if lz > 0 {
			cls += "/lz"
		}
		out = append(out, scalarCase{cls, b})
	}
	return out
}

func ptStr(x, y *big.Int) string { return fmt.Sprintf("(%x,%x)", x, y) }

type errReader struct{ after int }

func (e *errReader) Read(p []byte) (int, error) {
	if e.after <= 0 {
		return 0, errors.New("scripted reader failure")
	}
	n := len(p)
	if n > e.after {
		n = e.after
	}
	for i := 0; i < n; i++ {
		p[i] = 0x5a
	}
	e.after -= n
	return n, nil
}

func runC03(c *Ctx) {
	rep := c.Rep
	rep.Meta("cases: ScalarBaseMult/ScalarMult over boundary-class scalars (0..40 bytes: empty, 0, small, 2^k, 2^k-1, n-16..n+16 with leading zero bytes, 2n+-d, all-ones windows, byte patterns, random) x points ([j]G incl. points with leading-zero coordinates); Add/Double over pairs (P,Q) with Q in {P,-P,O,2P,random} incl. infinity; IsOnCurve over on-curve points, neighbours and random pairs; Params; white-box field Mul/Square/Add/Sub/FromBig/ToBig over limb patterns {0,1,max-1,max}^9 and op chains; GenerateKey with scripted readers. Oracle: affine math/big group law (ref), curve equation, big-integer arithmetic mod p. Distinct non-trivial = distinct (operation, scalar class, point class) keys excluding the zero scalar/infinity-only cases.",
		3000, []string{"ref affine SM2 arithmetic over math/big (validated by GM/T 0003.5 examples and [n]G=O at start of run)"},
		[]string{"scalar and point spaces are sampled by class; classes near n are exhaustive in the offset -16..+16"})
	curve := sm2.P256Sm2()

	// Params
	{
		p := curve.Params()
		if p.P.Cmp(ref.P) != 0 || p.N.Cmp(ref.N) != 0 || p.B.Cmp(ref.B) != 0 || p.Gx.Cmp(ref.Gx) != 0 || p.Gy.Cmp(ref.Gy) != 0 || p.BitSize != 256 {
			rep.Violation("C03/Params/not-GMT0003.5", fmt.Sprintf("P=%x N=%x B=%x Gx=%x Gy=%x bits=%d", p.P, p.N, p.B, p.Gx, p.Gy, p.BitSize), nil)
		}
		rep.Eval("Params")
	}

	rs := c.Rng("scalars")
	scalars := scalarClasses(rs, c.Q(400, 6000), c.Thorough)

	// points: [j]G for a few j, plus points with short coordinates (searched with gmsm, confirmed by ref)
	type pt struct {
		cls  string
		j    *big.Int
		x, y *big.Int
	}
	var points []pt
	addPt := func(cls string, j *big.Int) {
		q := ref.MulG(new(big.Int).Mod(j, ref.N))
		x, y := q.XY()
		points = append(points, pt{cls, j, x, y})
	}
	addPt("G", big.NewInt(1))
	addPt("2G", big.NewInt(2))
	addPt("3G", big.NewInt(3))
	addPt("-G", new(big.Int).Sub(ref.N, big.NewInt(1)))
	addPt("-2G", new(big.Int).Sub(ref.N, big.NewInt(2)))
	// the two finite points with a zero coordinate, (0, ±sqrt(b)): not reachable by sampling [k]G
	if y0 := new(big.Int).ModSqrt(ref.B, ref.P); y0 != nil && ref.OnCurve(new(big.Int), y0) {
		points = append(points, pt{"x=0", nil, new(big.Int), y0}, pt{"x=0(-y)", nil, new(big.Int), new(big.Int).Sub(ref.P, y0)})
	}
	rp := c.Rng("points")
	for i := 0; i < c.Q(4, 24); i++ {
		addPt("random", new(big.Int).SetBytes(rp.Bytes(32)))
	}
	{
		foundX, foundY := 0, 0
		lim := new(big.Int).Lsh(big.NewInt(1), 248)
		for j := int64(2); j < 40000 && (foundX < c.Q(2, 6) || foundY < c.Q(2, 6)); j++ {
			x, y := curve.ScalarBaseMult(big.NewInt(j).Bytes())
			if x.Cmp(lim) < 0 && foundX < c.Q(2, 6) {
				q := ref.MulG(big.NewInt(j))
				if q.X.Cmp(lim) < 0 {
					foundX++
					points = append(points, pt{"short-x", big.NewInt(j), q.X, q.Y})
				}
			}
			if y.Cmp(lim) < 0 && foundY < c.Q(2, 6) {
				q := ref.MulG(big.NewInt(j))
				if q.Y.Cmp(lim) < 0 {
					foundY++
					points = append(points, pt{"short-y", big.NewInt(j), q.X, q.Y})
				}
			}
		}
		rep.Count("points_with_short_x", int64(foundX))
		rep.Count("points_with_short_y", int64(foundY))
	}

	// (1) ScalarBaseMult
	Par(len(scalars), func(i int) {
		s := scalars[i]
		k := new(big.Int).SetBytes(s.b)
		want := ref.MulG(new(big.Int).Mod(k, ref.N))
		wx, wy := want.XY()
		w := map[string]interface{}{"scalar": mon.Hex(s.b), "class": s.cls}
		var x, y *big.Int
		in := mon.NewCanary(s.b, 8)
		if pi := mon.Guard(func() { x, y = curve.ScalarBaseMult(in.Slice()) }); pi != nil {
			rep.Violation("C03/ScalarBaseMult/panic/"+pi.Func+"/"+scClsKey(s.cls), fmt.Sprintf("scalar %x: %s", s.b, pi.Value), w)
		} else if x.Cmp(wx) != 0 || y.Cmp(wy) != 0 {
			rep.Violation("C03/ScalarBaseMult/wrong-point/"+scClsKey(s.cls), fmt.Sprintf("scalar %x got %s want %s", s.b, ptStr(x, y), ptStr(wx, wy)), w)
		}
		if st := in.Check(); st != "" {
			rep.Violation("C03/ScalarBaseMult/scalar-memory-written", st, w)
		}
		if k.Sign() == 0 {
			rep.EvalTrivial("SBM/" + s.cls)
		} else {
			rep.Eval("SBM/" + s.cls)
		}
		if i == 40 {
			rep.Sample(map[string]interface{}{"op": "ScalarBaseMult", "scalar": mon.Hex(s.b), "class": s.cls, "result": ptStr(wx, wy)})
		}
	})

	// (2) ScalarMult over points x scalars (all points for the near-n classes, rotating otherwise)
	type smCase struct {
		p pt
		s scalarCase
	}
	var sms []smCase
	for i, s := range scalars {
		nearN := len(s.cls) > 1 && (s.cls[0] == 'n' || s.cls[:2] == "2n" || s.cls[:2] == "3n")
		for pi, p := range points {
			if nearN || (i+pi)%len(points) == 0 || (c.Thorough && (i+pi)%3 == 0) {
				sms = append(sms, smCase{p, s})
			}
		}
	}
	// operand objects reused: one pair of big.Ints is set to each point in turn and handed to ScalarMult again and again
	// (an accumulator, a PublicKey that is updated in place) — serially, so that every call directly follows the previous
	// one; then the same with the scalar buffer reused. Whatever is remembered about the last operands must be a copy.
	{
		ox, oy := new(big.Int), new(big.Int)
		kb := make([]byte, 32)
		n := 0
		for i := 0; i < len(sms) && n < c.Q(400, 4000); i += 1 + len(sms)/c.Q(400, 4000) {
			cs := sms[i]
			if len(cs.s.b) > 32 {
				continue
			}
			ox.Set(cs.p.x)
			oy.Set(cs.p.y)
			for j := range kb {
				kb[j] = 0
			}
			copy(kb[32-len(cs.s.b):], cs.s.b)
			k := new(big.Int).SetBytes(cs.s.b)
			wx, wy := ref.Mul(new(big.Int).Mod(k, ref.N), ref.FromXY(cs.p.x, cs.p.y)).XY()
			var x, y *big.Int
			w := map[string]interface{}{"scalar": mon.Hex(cs.s.b), "point": ptStr(cs.p.x, cs.p.y), "point_class": cs.p.cls, "history": "the same *big.Int operands and scalar buffer as in the previous call, set in place"}
			if pi := mon.Guard(func() { x, y = curve.ScalarMult(ox, oy, kb) }); pi != nil {
				rep.Violation("C03/ScalarMult/panic/"+pi.Func+"/operands-reused", pi.Value, w)
			} else if x.Cmp(wx) != 0 || y.Cmp(wy) != 0 {
				rep.Violation("C03/ScalarMult/wrong-point/operand-objects-reused-after-in-place-update", fmt.Sprintf("scalar %x point %s=%s got %s want %s", cs.s.b, cs.p.cls, ptStr(cs.p.x, cs.p.y), ptStr(x, y), ptStr(wx, wy)), w)
			}
			n++
			rep.Eval("SM-operands-reused/" + cs.p.cls)
		}
	}
	Par(len(sms), func(i int) {
		cs := sms[i]
		k := new(big.Int).SetBytes(cs.s.b)
		want := ref.Mul(new(big.Int).Mod(k, ref.N), ref.FromXY(cs.p.x, cs.p.y))
		wx, wy := want.XY()
		w := map[string]interface{}{"scalar": mon.Hex(cs.s.b), "class": cs.s.cls, "point": ptStr(cs.p.x, cs.p.y), "point_class": cs.p.cls}
		var x, y *big.Int
		px, py := new(big.Int).Set(cs.p.x), new(big.Int).Set(cs.p.y)
		if pi := mon.Guard(func() { x, y = curve.ScalarMult(px, py, cs.s.b) }); pi != nil {
			rep.Violation("C03/ScalarMult/panic/"+pi.Func+"/"+scClsKey(cs.s.cls), fmt.Sprintf("scalar %x point %s: %s", cs.s.b, cs.p.cls, pi.Value), w)
		} else if x.Cmp(wx) != 0 || y.Cmp(wy) != 0 {
			sym := "wrong-point"
			if !(x.Sign() == 0 && y.Sign() == 0) && !ref.OnCurve(x, y) {
				sym = "off-curve-result"
			}
			rep.Violation("C03/ScalarMult/"+sym+"/"+scClsKey(cs.s.cls), fmt.Sprintf("scalar %x point %s=%s got %s want %s", cs.s.b, cs.p.cls, ptStr(cs.p.x, cs.p.y), ptStr(x, y), ptStr(wx, wy)), w)
		}
		if px.Cmp(cs.p.x) != 0 || py.Cmp(cs.p.y) != 0 {
			rep.Violation("C03/ScalarMult/input-point-modified", "", w)
		}
		if k.Sign() == 0 {
			rep.EvalTrivial("SM/" + cs.p.cls + "/" + cs.s.cls)
		} else {
			rep.Eval("SM/" + cs.p.cls + "/" + cs.s.cls)
		}
	})

	// (3) Add / Double
	type addCase struct {
		cls  string
		p, q ref.Point
	}
	var adds []addCase
	inf := ref.Infinity()
	var basePts []struct {
		cls string
		p   ref.Point
	}
	for _, p := range points {
		basePts = append(basePts, struct {
			cls string
			p   ref.Point
		}{p.cls, ref.FromXY(p.x, p.y)})
	}
	ra := c.Rng("adds")
	for i := 0; i < c.Q(60, 1500); i++ {
		basePts = append(basePts, struct {
			cls string
			p   ref.Point
		}{"random", ref.MulG(new(big.Int).SetBytes(ra.Bytes(32)))})
	}
	adds = append(adds, addCase{"O+O", inf, inf})
	for _, bp := range basePts {
		rq := ref.MulG(new(big.Int).SetBytes(ra.Bytes(32)))
		adds = append(adds,
			addCase{"P+P/" + bp.cls, bp.p, bp.p},
			addCase{"P+(-P)/" + bp.cls, bp.p, ref.Neg(bp.p)},
			addCase{"P+O/" + bp.cls, bp.p, inf},
			addCase{"O+P/" + bp.cls, inf, bp.p},
			addCase{"P+2P/" + bp.cls, bp.p, ref.Double(bp.p)},
			addCase{"2P+P/" + bp.cls, ref.Double(bp.p), bp.p},
			addCase{"P+Q/" + bp.cls, bp.p, rq},
			addCase{"(-P)+(-P)/" + bp.cls, ref.Neg(bp.p), ref.Neg(bp.p)},
		)
	}
	Par(len(adds), func(i int) {
		a := adds[i]
		px, py := a.p.XY()
		qx, qy := a.q.XY()
		want := ref.Add(a.p, a.q)
		wx, wy := want.XY()
		w := map[string]interface{}{"P": ptStr(px, py), "Q": ptStr(qx, qy), "class": a.cls}
		var x, y *big.Int
		if pi := mon.Guard(func() { x, y = curve.Add(px, py, qx, qy) }); pi != nil {
			rep.Violation("C03/Add/panic/"+pi.Func+"/"+pairKey(a.cls), pi.Value, w)
		} else if x.Cmp(wx) != 0 || y.Cmp(wy) != 0 {
			sym := "wrong-point"
			if x.Sign() == 0 && y.Sign() == 0 {
				sym = "returns-infinity"
			}
			rep.Violation("C03/Add/"+sym+"/"+pairKey(a.cls), fmt.Sprintf("%s: got %s want %s", a.cls, ptStr(x, y), ptStr(wx, wy)), w)
		}
		rep.Eval("Add/" + a.cls)
		if len(a.cls) > 3 && a.cls[:3] == "P+P" {
			// Double on the same point
			wd := ref.Double(a.p)
			dx, dy := wd.XY()
			if pi := mon.Guard(func() { x, y = curve.Double(px, py) }); pi != nil {
				rep.Violation("C03/Double/panic/"+pi.Func, pi.Value, w)
			} else if x.Cmp(dx) != 0 || y.Cmp(dy) != 0 {
				rep.Violation("C03/Double/wrong-point", fmt.Sprintf("P=%s got %s want %s", ptStr(px, py), ptStr(x, y), ptStr(dx, dy)), w)
			}
			rep.Eval("Double/" + a.cls[4:])
		}
		if i == 9 {
			rep.Sample(map[string]interface{}{"op": "Add", "class": a.cls, "P": ptStr(px, py), "Q": ptStr(qx, qy), "want": ptStr(wx, wy)})
		}
	})
	{
		z := new(big.Int)
		var x, y *big.Int
		if pi := mon.Guard(func() { x, y = curve.Double(z, z) }); pi != nil {
			rep.Violation("C03/Double/panic/"+pi.Func+"/infinity", pi.Value, nil)
		} else if x.Sign() != 0 || y.Sign() != 0 {
			rep.Violation("C03/Double/infinity-not-preserved", ptStr(x, y), nil)
		}
		rep.EvalTrivial("Double/O")
	}

	// (4) IsOnCurve
	{
		ro := c.Rng("oncurve")
		type oc struct {
			cls  string
			x, y *big.Int
		}
		var cs []oc
		pm1 := new(big.Int).Sub(ref.P, big.NewInt(1))
		for _, bp := range basePts {
			x, y := bp.p.XY()
			cs = append(cs, oc{"on-curve", x, y})
			for _, d := range []int64{1, -1} {
				y2 := new(big.Int).Add(y, big.NewInt(d))
				x2 := new(big.Int).Add(x, big.NewInt(d))
				if y2.Sign() >= 0 && y2.Cmp(ref.P) < 0 {
					cs = append(cs, oc{"neighbour-y", x, y2})
				}
				if x2.Sign() >= 0 && x2.Cmp(ref.P) < 0 {
					cs = append(cs, oc{"neighbour-x", x2, y})
				}
			}
			cs = append(cs, oc{"swapped", y, x})
			// a point of another curve y^2=x^3+ax+b' (same a): keep x, pick y'!=±y so that b' != b
			cs = append(cs, oc{"twist-ish", x, new(big.Int).Mod(new(big.Int).Add(y, big.NewInt(2)), ref.P)})
		}
		for i := 0; i < c.Q(300, 20000); i++ {
			x := new(big.Int).SetBytes(ro.Bytes(32))
			y := new(big.Int).SetBytes(ro.Bytes(32))
			x.Mod(x, ref.P)
			y.Mod(y, ref.P)
			cs = append(cs, oc{"random-pair", x, y})
		}
		cs = append(cs, oc{"(0,0)", new(big.Int), new(big.Int)}, oc{"(0,1)", new(big.Int), big.NewInt(1)}, oc{"(p-1,p-1)", pm1, pm1}, oc{"(1,0)", big.NewInt(1), new(big.Int)})
		// genuine curve points at the top of the field: x (or y) in [n, p) — the band between the group order and the
		// field prime, which no amount of sampling reaches (2^-129 of all x) — and x just below n; found by solving
		// the curve equation downwards from the boundary values
		solve := func(x *big.Int) *big.Int {
			rhs := new(big.Int).Exp(x, big.NewInt(3), ref.P)
			rhs.Add(rhs, new(big.Int).Mul(ref.A, x))
			rhs.Add(rhs, ref.B)
			rhs.Mod(rhs, ref.P)
			return new(big.Int).ModSqrt(rhs, ref.P)
		}
		for _, st := range []struct {
			cls  string
			from *big.Int
		}{{"on-curve/x-in-[n,p)/top", pm1}, {"on-curve/x-in-[n,p)/bottom", new(big.Int).Add(ref.N, big.NewInt(40))}, {"on-curve/x-just-below-n", new(big.Int).Sub(ref.N, big.NewInt(1))},
			{"on-curve/x-mid-band", new(big.Int).Rsh(new(big.Int).Add(ref.N, ref.P), 1)}} {
			found := 0
			for x := new(big.Int).Set(st.from); found < 3 && x.Sign() > 0; x.Sub(x, big.NewInt(1)) {
				if y := solve(x); y != nil {
					cs = append(cs, oc{st.cls, new(big.Int).Set(x), y}, oc{st.cls + "/-y", new(big.Int).Set(x), new(big.Int).Sub(ref.P, y)})
					found++
				}
			}
		}
		// the same points through the group operations (their coordinates exceed the group order, which a routine that
		// confuses n with p would mishandle)
		for _, o := range cs {
			if !strings.HasPrefix(o.cls, "on-curve/x-") {
				continue
			}
			pt := ref.FromXY(o.x, o.y)
			w := map[string]interface{}{"x": o.x.Text(16), "y": o.y.Text(16), "class": o.cls}
			var dx, dy, mx, my, ax, ay *big.Int
			if pi := mon.Guard(func() {
				dx, dy = curve.Double(o.x, o.y)
				mx, my = curve.ScalarMult(o.x, o.y, []byte{3})
				ax, ay = curve.Add(o.x, o.y, ref.Gx, ref.Gy)
			}); pi != nil {
				rep.Violation("C03/top-of-field-point/panic/"+pi.Func, pi.Value, w)
				continue
			}
			for _, chk := range []struct {
				op   string
				x, y *big.Int
				want ref.Point
			}{{"Double", dx, dy, ref.Double(pt)}, {"ScalarMult(3)", mx, my, ref.Mul(big.NewInt(3), pt)}, {"Add(G)", ax, ay, ref.Add(pt, ref.G())}} {
				wx, wy := chk.want.XY()
				if chk.x.Cmp(wx) != 0 || chk.y.Cmp(wy) != 0 {
					rep.Violation("C03/"+chk.op+"/wrong-point/top-of-field-point", fmt.Sprintf("got %s want %s", ptStr(chk.x, chk.y), ptStr(wx, wy)), w)
				}
			}
			rep.Eval("ops/" + o.cls)
		}
		// x=0: y^2=b has a root? include (0, sqrt(b)) if it exists
		if s := new(big.Int).ModSqrt(ref.B, ref.P); s != nil {
			cs = append(cs, oc{"(0,sqrt b)", new(big.Int), s})
		}
		Par(len(cs), func(i int) {
			o := cs[i]
			want := ref.OnCurve(o.x, o.y)
			var got bool
			if pi := mon.Guard(func() { got = curve.IsOnCurve(new(big.Int).Set(o.x), new(big.Int).Set(o.y)) }); pi != nil {
				rep.Violation("C03/IsOnCurve/panic/"+pi.Func, pi.Value, map[string]interface{}{"x": o.x.Text(16), "y": o.y.Text(16)})
			} else if got != want {
				rep.Violation(fmt.Sprintf("C03/IsOnCurve/%s/answers-%v", o.cls, got), fmt.Sprintf("(%x,%x): got %v want %v", o.x, o.y, got, want), map[string]interface{}{"x": o.x.Text(16), "y": o.y.Text(16)})
			}
			rep.Eval("IsOnCurve/" + o.cls)
		})
	}

	// (5) field arithmetic (white box through the verif hook)
	runC03Field(c)

	// (5b) results are the caller's: every operation is called, its returned coordinates are overwritten in place (as a
	// caller is free to do — the library's own verifier adds e to the returned x in place), and then the operations are
	// called again and must give the reference's answers, in particular for the point at infinity, whose coordinates an
	// implementation might hand out from one shared zero
	{
		ra := c.Rng("alias")
		G := ref.G()
		negG := ref.Neg(G)
		for round := 0; round < c.Q(30, 1000); round++ {
			kx := new(big.Int).SetBytes(ra.Bytes(32))
			P := ref.Mul(kx, G)
			px, py := P.XY()
			nP := ref.Neg(P)
			nx, ny := nP.XY()
			type call struct {
				name string
				f    func() (*big.Int, *big.Int)
				want ref.Point
			}
			calls := []call{
				{"Add(P,-P)", func() (*big.Int, *big.Int) { return curve.Add(px, py, nx, ny) }, ref.Infinity()},
				{"Add(G,-G)", func() (*big.Int, *big.Int) { return curve.Add(G.X, G.Y, negG.X, negG.Y) }, ref.Infinity()},
				{"Add(O,O)", func() (*big.Int, *big.Int) { return curve.Add(new(big.Int), new(big.Int), new(big.Int), new(big.Int)) }, ref.Infinity()},
				{"Double(O)", func() (*big.Int, *big.Int) { return curve.Double(new(big.Int), new(big.Int)) }, ref.Infinity()},
				{"ScalarMult(P,n)", func() (*big.Int, *big.Int) { return curve.ScalarMult(px, py, ref.N.Bytes()) }, ref.Infinity()},
				{"ScalarMult(P,0)", func() (*big.Int, *big.Int) { return curve.ScalarMult(px, py, []byte{0}) }, ref.Infinity()},
				{"ScalarBaseMult(n)", func() (*big.Int, *big.Int) { return curve.ScalarBaseMult(ref.N.Bytes()) }, ref.Infinity()},
				{"Add(P,G)", func() (*big.Int, *big.Int) { return curve.Add(px, py, G.X, G.Y) }, ref.Add(P, G)},
				{"Double(P)", func() (*big.Int, *big.Int) { return curve.Double(px, py) }, ref.Double(P)},
				{"ScalarBaseMult(k)", func() (*big.Int, *big.Int) { return curve.ScalarBaseMult(kx.Bytes()) }, P},
			}
			// sometimes start with a digest-form verification whose point is the point at infinity: s = -r*d/(1+d), t = r+s
			if round%3 == 0 {
				d := new(big.Int).SetBytes(ra.Bytes(31))
				d.Add(d, big.NewInt(2))
				Q := ref.Mul(d, G)
				rr := new(big.Int).SetBytes(ra.Bytes(31))
				rr.Add(rr, big.NewInt(1))
				inv := new(big.Int).ModInverse(new(big.Int).Add(d, big.NewInt(1)), ref.N)
				ss := new(big.Int).Mul(rr, d)
				ss.Mul(ss, inv).Neg(ss).Mod(ss, ref.N)
				if ss.Sign() > 0 {
					mon.Guard(func() { sm2.Verify(&sm2.PublicKey{Curve: curve, X: Q.X, Y: Q.Y}, ra.Bytes(32), rr, ss) })
				}
			}
			order := ra.Intn(len(calls))
			for i := 0; i < len(calls)*2; i++ {
				cl := calls[(order+i*7)%len(calls)]
				var x, y *big.Int
				if pi := mon.Guard(func() { x, y = cl.f() }); pi != nil {
					rep.Violation("C03/aliasing/panic/"+pi.Func, pi.Value, map[string]interface{}{"op": cl.name})
					continue
				}
				wx, wy := cl.want.XY()
				if x.Cmp(wx) != 0 || y.Cmp(wy) != 0 {
					rep.Violation("C03/"+cl.name+"/result-depends-on-what-callers-did-with-earlier-results", fmt.Sprintf("got %s want %s (earlier results of this and other operations had been overwritten in place by the caller)", ptStr(x, y), ptStr(wx, wy)),
						map[string]interface{}{"op": cl.name, "k": kx.Text(16), "round": round})
					break
				}
				// the caller clobbers what it was given
				x.SetInt64(int64(1000 + i))
				y.Add(y, big.NewInt(12345))
			}
			if px.Cmp(P.X) != 0 || py.Cmp(P.Y) != 0 || G.X.Cmp(ref.Gx) != 0 {
				rep.Violation("C03/aliasing/operand-modified", "an input coordinate was changed by an operation", nil)
			}
			rep.Eval("aliasing/results-overwritten-by-caller")
		}
	}

	// (6) GenerateKey with scripted readers
	{
		type rd struct {
			cls string
			mk  func() io.Reader
		}
		rg := c.Rng("genkey")
		var rds []rd
		rds = append(rds, rd{"all-zero", func() io.Reader { return &mon.RecReader{Src: mon.ConstSrc(0)} }},
			rd{"all-ff", func() io.Reader { return &mon.RecReader{Src: mon.ConstSrc(0xff)} }},
			rd{"all-zero-short-reads", func() io.Reader { return &mon.RecReader{Src: mon.ConstSrc(0), Short: true} }})
		for i := 0; i < c.Q(60, 1500); i++ {
			seed := rg.U64()
			short := i%3 == 0
			rds = append(rds, rd{fmt.Sprintf("random/short=%v", short), func() io.Reader {
				return &mon.RecReader{Src: mon.StreamSrc(seed), Short: short, KeepLog: true}
			}})
		}
		// reader contents at the edges of every plausible reduction rule: the 40 bytes read as an integer b = q*m + r for
		// m in {n, n-1, n-2, n-3}, r at both ends of [0, m), q in {0, 1, a random 64-bit value}: whatever modulus an
		// implementation reduces by, the key must come out in [1, n-2]
		for mi, md := range []int64{0, 1, 2, 3} {
			m := new(big.Int).Sub(ref.N, big.NewInt(md))
			for _, rs := range []int64{0, 1, 2, -1, -2, -3} {
				for qi, q := range []*big.Int{big.NewInt(0), big.NewInt(1), new(big.Int).SetUint64(rg.U64())} {
					res := big.NewInt(rs)
					if rs < 0 {
						res.Add(m, res)
					}
					b := new(big.Int).Mul(q, m)
					b.Add(b, res)
					raw := b.FillBytes(make([]byte, 40))
					rds = append(rds, rd{fmt.Sprintf("edge/m=n-%d/r=%d/q%d", md, rs, qi), func() io.Reader {
						pos := 0
						return &mon.RecReader{Src: func(p []byte) {
							for i := range p {
								if pos < len(raw) {
									p[i] = raw[pos]
								} else {
									p[i] = 0
								}
								pos++
							}
						}, KeepLog: true}
					}})
				}
			}
			_ = mi
		}
		nm2 := new(big.Int).Sub(ref.N, big.NewInt(2))
		seenD := map[string]string{}
		for i, r := range rds {
			var k1, k2 *sm2.PrivateKey
			var e1, e2 error
			r1, r2 := r.mk(), r.mk()
			if rr2, ok := r2.(*mon.RecReader); ok && r.cls[:3] == "ran" {
				rr2.Short = !rr2.Short // same byte stream, other chunking: the key must be the same
			}
			if pi := mon.Guard(func() { k1, e1 = sm2.GenerateKey(r1); k2, e2 = sm2.GenerateKey(r2) }); pi != nil {
				rep.Violation("C03/GenerateKey/panic/"+pi.Func, pi.Value, map[string]interface{}{"reader": r.cls})
				continue
			}
			if e1 != nil || e2 != nil {
				rep.Violation("C03/GenerateKey/error-on-good-reader", fmt.Sprint(e1, e2), map[string]interface{}{"reader": r.cls})
				continue
			}
			w := map[string]interface{}{"reader": r.cls, "d": k1.D.Text(16)}
			if k1.D.Sign() <= 0 || k1.D.Cmp(nm2) > 0 {
				rep.Violation("C03/GenerateKey/d-out-of-range", k1.D.Text(16), w)
			}
			q := ref.MulG(k1.D)
			if q.Inf || q.X.Cmp(k1.X) != 0 || q.Y.Cmp(k1.Y) != 0 {
				rep.Violation("C03/GenerateKey/public-key-not-dG", fmt.Sprintf("d=%x pub=%s want %s", k1.D, ptStr(k1.X, k1.Y), ptStr(q.X, q.Y)), w)
			}
			if k1.D.Cmp(k2.D) != 0 {
				rep.Violation("C03/GenerateKey/d-not-determined-by-reader-bytes", "same bytes, different d", w)
			}
			rr := r1.(*mon.RecReader)
			if rr.Served < 32 {
				rep.Violation("C03/GenerateKey/consumed-too-few-bytes", fmt.Sprint(rr.Served), w)
			}
			if prev, dup := seenD[k1.D.Text(16)]; dup && prev != r.cls && r.cls[:3] == "ran" {
				rep.Violation("C03/GenerateKey/same-d-for-different-reader-bytes", prev+" vs "+r.cls, w)
			}
			seenD[k1.D.Text(16)] = r.cls
			if k1.Curve == nil || k1.Curve.Params().N.Cmp(ref.N) != 0 {
				rep.Violation("C03/GenerateKey/wrong-curve", "", w)
			}
			rep.Eval("GenerateKey/" + r.cls)
			rep.Distinct(fmt.Sprintf("genkey%d", i))
			if i == 1 {
				rep.Sample(map[string]interface{}{"op": "GenerateKey", "reader": r.cls, "bytes_served": rr.Served, "d": k1.D.Text(16)})
			}
		}
		// failing readers: must return an error, never a key
		for _, after := range []int{0, 1, 31, 32, 39} {
			var k *sm2.PrivateKey
			var err error
			if pi := mon.Guard(func() { k, err = sm2.GenerateKey(&errReader{after: after}) }); pi != nil {
				rep.Violation("C03/GenerateKey/panic-on-failing-reader/"+pi.Func, pi.Value, map[string]interface{}{"fail_after": after})
			} else if err == nil {
				rep.Violation("C03/GenerateKey/key-despite-reader-error", fmt.Sprintf("reader failed after %d bytes, got key d=%x", after, k.D), map[string]interface{}{"fail_after": after})
			}
			rep.Eval(fmt.Sprintf("GenerateKey/failing-reader-after-%d", after))
		}
	}
}

// scClsKey strips per-instance detail from a scalar class so finding keys stay stable.
func scClsKey(cls string) string {
	if len(cls) > 10 && cls[:10] == "random/len" {
		if len(cls) > 3 && cls[len(cls)-3:] == "/lz" {
			return "random/lz"
		}
		return "random"
	}
	return cls
}

func pairKey(cls string) string {
	for i := 0; i < len(cls); i++ {
		if cls[i] == '/' {
			return cls[:i]
		}
	}
	return cls
}
