package main

import (
	"fmt"
	"sync"
	"time"

	"github.com/tjfoc/gmsm/gmtls"

	"verif/mon"
	"verif/ref"
)

// After a completed GMSSL handshake the scripted server asks for a new one (HelloRequest under the session keys) and
// then does not carry it through properly: it goes silent and closes, answers the client's new ClientHello with a
// message that cannot follow it, answers in the clear, or sends application data as if nothing had happened. Whatever
// the client's renegotiation policy, it never gets a second completed handshake out of this peer: its Read returns
// (no hang, no panic), and it delivers no application byte that arrived after a handshake it had started and not
// finished. (A statement-coverage audit showed that Conn.handleRenegotiation was never executed by any check.)
func runC15Renegotiation(c *Ctx, pki *tlsPKI) {
	rep := c.Rep
	policies := []struct {
		name string
		p    gmtls.RenegotiationSupport
	}{{"never", gmtls.RenegotiateNever}, {"once", gmtls.RenegotiateOnceAsClient}, {"freely", gmtls.RenegotiateFreelyAsClient}}
	follow := []string{"close", "appdata", "second-hello-request", "garbage-handshake", "plaintext-server-hello", "finished-out-of-nowhere", "ccs"}
	type job struct{ pi2, fi, si int }
	var jobs []job
	for pi2 := range policies {
		for fi := range follow {
			for si := 0; si < 2; si++ {
				jobs = append(jobs, job{pi2, fi, si})
			}
		}
	}
	Par(len(jobs), func(ji int) {
		{
			{
				pi2, fi, si := jobs[ji].pi2, jobs[ji].fi, jobs[ji].si
				pol, fw, suite := policies[pi2], follow[fi], []uint16{ref.SuiteECCSM4CBC, ref.SuiteECCSM4GCM}[si]
				seed := c.Rng(fmt.Sprintf("reneg/%d/%d/%d", pi2, fi, si)).U64()
				w := map[string]interface{}{"client_policy": pol.name, "after_hello_request": fw, "suite": suiteName(suite)}
				cm, sm := newMemPair(&wireLog{}, nil)
				rnd := mon.NewRNG(seed)
				peer := &ref.Peer{Conn: sm, Rand: rnd.Bytes, Suites: []uint16{suite}}
				peer.SignKey, peer.EncKey, peer.SignCert, peer.EncCert = pki.sigKey.D, pki.encKey.D, pki.sigCert.Raw, pki.encCert.Raw
				ccfg := &gmtls.Config{GMSupport: gmtls.NewGMSupport(), CipherSuites: []uint16{suite}, ServerName: tlsServerName, RootCAs: pki.pool,
					Time: func() timeT { return fixedNow }, Rand: mon.NewRNG(seed + 1), Renegotiation: pol.p}
				cli := gmtls.Client(cm, ccfg)
				var wg sync.WaitGroup
				var peerErr error
				var harness *mon.PanicInfo
				wg.Add(1)
				go func() {
					defer wg.Done()
					harness = mon.Guard(func() {
						if peerErr = peer.RunServer(); peerErr != nil {
							return
						}
						peer.WriteApp([]byte("before"))
						peer.WriteRecord(ref.RecHandshake, []byte{0, 0, 0, 0}) // HelloRequest
						switch fw {
						case "close":
						case "appdata":
							peer.WriteApp([]byte("after-1"))
							peer.WriteApp([]byte("after-2"))
						case "second-hello-request":
							peer.WriteRecord(ref.RecHandshake, []byte{0, 0, 0, 0})
							peer.WriteApp([]byte("after-1"))
						case "garbage-handshake":
							peer.WriteRecord(ref.RecHandshake, hsSample(ref.HSCertificate, rnd, pki))
							peer.WriteApp([]byte("after-1"))
						case "plaintext-server-hello":
							sh := (&ref.ServerHello{Version: ref.TLCPVersion, Random: rnd.Bytes(32), SessionID: rnd.Bytes(32), Suite: suite}).Marshal()
							sm.Write(wrapRec(ref.RecHandshake, [2]byte{1, 1}, sh))
						case "finished-out-of-nowhere":
							peer.WriteRecord(ref.RecHandshake, ref.HSMsg(ref.HSFinished, rnd.Bytes(12)))
							peer.WriteApp([]byte("after-1"))
						case "ccs":
							peer.WriteRecord(ref.RecCCS, []byte{1})
							peer.WriteApp([]byte("after-1"))
						}
					})
					// the client may be writing a ClientHello for the new handshake: drain what it sends, then end the stream
					time.AfterFunc(300*time.Millisecond, func() { sm.Close() })
					buf := make([]byte, 4096)
					for {
						if _, err := sm.Read(buf); err != nil {
							return
						}
					}
				}()
				var got []byte
				var rerr error
				var cp *mon.PanicInfo
				done := make(chan struct{})
				go func() {
					defer close(done)
					cp = mon.Guard(func() {
						if rerr = cli.Handshake(); rerr != nil {
							return
						}
						buf := make([]byte, 256)
						for {
							n, err := cli.Read(buf)
							got = append(got, buf[:n]...)
							if err != nil {
								rerr = err
								return
							}
						}
					})
				}()
				hung := false
				select {
				case <-done:
				case <-time.After(30 * time.Second):
					hung = true
					cm.Close()
					sm.Close()
					<-done
				}
				wg.Wait()
				w["delivered"], w["read_error"], w["peer_error"] = string(got), errStr(rerr), errStr(peerErr)
				switch {
				case harness != nil:
					rep.Violation("C15/harness/scripted-peer-panicked", harness.Value, w)
				case peerErr != nil:
					rep.Violation("C15/control/honest-reference-peer-cannot-complete/gm-client(renegotiation="+pol.name+")", peerErr.Error(), w)
				case cp != nil:
					rep.Violation("C15/renegotiation/panic/"+cp.Func, fmt.Sprintf("HelloRequest then %s, policy %s: %s", fw, pol.name, cp.Value), w)
				case hung:
					rep.Violation("C15/renegotiation/no-return-after-input-ended", fmt.Sprintf("HelloRequest then %s, policy %s", fw, pol.name), w)
				default:
					s := string(got)
					if len(s) < 6 || s[:6] != "before" {
						rep.Violation("C15/renegotiation/data-sent-before-the-hello-request-lost", s, w)
					}
					// policy once/freely: the client has begun a handshake that this peer never completes: nothing may be
					// delivered after "before". policy never: the client refuses; what it does with later application data is
					// its business (crypto/tls treats its own no_renegotiation alert as fatal), but never a panic or a hang.
					if pol.p != gmtls.RenegotiateNever && len(s) > 6 {
						rep.Violation("C15/renegotiation/application-data-delivered-inside-an-unfinished-handshake", fmt.Sprintf("policy %s, HelloRequest then %s: delivered %q", pol.name, fw, s), w)
					}
					if rerr == nil {
						rep.Violation("C15/renegotiation/read-loop-ended-without-an-error", "", w)
					}
				}
				rep.Count("hello_requests_after_a_completed_handshake", 1)
				rep.Eval(fmt.Sprintf("renegotiation/policy=%s/then=%s/%s", pol.name, fw, suiteName(suite)))
			}
		}
	})
}
