package main

import (
	"crypto"
	"crypto/ecdsa"
	"crypto/elliptic"
	"crypto/rsa"
	stdx509 "crypto/x509"
	"crypto/x509/pkix"
	"encoding/pem"
	"fmt"
	"math/big"
	"sync"
	"time"

	"github.com/tjfoc/gmsm/sm2"
	gx509 "github.com/tjfoc/gmsm/x509"

	"verif/mon"
)

// fixedNow is the only "current time" any oracle uses.
var fixedNow = time.Date(2030, 6, 15, 12, 0, 0, 0, time.UTC)

func pemBlock(typ string, der []byte) []byte {
	return pem.EncodeToMemory(&pem.Block{Type: typ, Bytes: der})
}

// newSM2Key makes a key pair from the seeded stream (public point by gmsm; the group law is C03's business).
func newSM2Key(r *mon.RNG) *sm2.PrivateKey {
	k, err := sm2.GenerateKey(r)
	if err != nil {
		panic(err)
	}
	return k
}

var (
	rsaOnce sync.Once
	rsaKey  *rsa.PrivateKey
	rsaKey2 *rsa.PrivateKey
)

// cachedRSA returns two fixed RSA-2048 keys (generated once per process from a seeded stream).
func cachedRSA() (*rsa.PrivateKey, *rsa.PrivateKey) {
	rsaOnce.Do(func() {
		var err error
		rsaKey, err = rsa.GenerateKey(mon.NewRNG(0xabcdef), 2048)
		if err != nil {
			panic(err)
		}
		rsaKey2, err = rsa.GenerateKey(mon.NewRNG(0x123457), 2048)
		if err != nil {
			panic(err)
		}
	})
	return rsaKey, rsaKey2
}

func newP256Key(r *mon.RNG) *ecdsa.PrivateKey {
	k, err := ecdsa.GenerateKey(elliptic.P256(), r)
	if err != nil {
		panic(err)
	}
	return k
}

// certSpec describes a certificate to be issued with gmsm's x509.
type certSpec struct {
	cn        string
	serial    int64
	isCA      bool
	notBefore time.Time
	notAfter  time.Time
	dns       []string
	keyUsage  gx509.KeyUsage
	eku       []gx509.ExtKeyUsage
	mutate    func(t *gx509.Certificate)
}

func (s certSpec) template() *gx509.Certificate {
	nb, na := s.notBefore, s.notAfter
	if nb.IsZero() {
		nb = fixedNow.Add(-365 * 24 * time.Hour)
	}
	if na.IsZero() {
		na = fixedNow.Add(365 * 24 * time.Hour)
	}
	t := &gx509.Certificate{
		SerialNumber:          big.NewInt(s.serial),
		Subject:               pkix.Name{CommonName: s.cn, Organization: []string{"verif"}},
		NotBefore:             nb,
		NotAfter:              na,
		BasicConstraintsValid: true,
		IsCA:                  s.isCA,
		DNSNames:              s.dns,
		KeyUsage:              s.keyUsage,
		ExtKeyUsage:           s.eku,
		SignatureAlgorithm:    gx509.SM2WithSM3,
	}
	if s.isCA && t.KeyUsage == 0 {
		t.KeyUsage = gx509.KeyUsageCertSign | gx509.KeyUsageCRLSign
	}
	if s.mutate != nil {
		s.mutate(t)
	}
	return t
}

// issueSM2 issues a certificate for pub signed by parentKey (self-signed when parent == nil).
func issueSM2(spec certSpec, pub *sm2.PublicKey, parent *gx509.Certificate, parentKey *sm2.PrivateKey, r *mon.RNG) (*gx509.Certificate, []byte, error) {
	t := spec.template()
	p := parent
	if p == nil {
		p = t
	}
	der, err := gx509.CreateCertificate(t, p, pub, parentKey)
	if err != nil {
		return nil, nil, err
	}
	c, err := gx509.ParseCertificate(der)
	if err != nil {
		return nil, der, fmt.Errorf("parse-back: %w", err)
	}
	return c, der, nil
}

// issueStd issues an RSA/ECDSA certificate with the standard library.
func issueStd(cn string, serial int64, isCA bool, dns []string, pub interface{}, parent *stdx509.Certificate, parentKey crypto.Signer, r *mon.RNG) (*stdx509.Certificate, []byte, error) {
	t := &stdx509.Certificate{
		SerialNumber:          big.NewInt(serial),
		Subject:               pkix.Name{CommonName: cn, Organization: []string{"verif"}},
		NotBefore:             fixedNow.Add(-365 * 24 * time.Hour),
		NotAfter:              fixedNow.Add(365 * 24 * time.Hour),
		BasicConstraintsValid: true,
		IsCA:                  isCA,
		DNSNames:              dns,
		KeyUsage:              stdx509.KeyUsageDigitalSignature | stdx509.KeyUsageKeyEncipherment,
		ExtKeyUsage:           []stdx509.ExtKeyUsage{stdx509.ExtKeyUsageServerAuth, stdx509.ExtKeyUsageClientAuth},
	}
	if isCA {
		t.KeyUsage |= stdx509.KeyUsageCertSign
	}
	p := parent
	if p == nil {
		p = t
	}
	der, err := stdx509.CreateCertificate(r, t, p, pub, parentKey)
	if err != nil {
		return nil, nil, err
	}
	c, err := stdx509.ParseCertificate(der)
	return c, der, err
}

func x509MarshalPKCS1(k *rsa.PrivateKey) []byte { return stdx509.MarshalPKCS1PrivateKey(k) }
func x509MarshalEC(k *ecdsa.PrivateKey) []byte {
	b, err := stdx509.MarshalECPrivateKey(k)
	if err != nil {
		panic(err)
	}
	return b
}
func x509MarshalPKCS8(k interface{}) []byte {
	b, err := stdx509.MarshalPKCS8PrivateKey(k)
	if err != nil {
		panic(err)
	}
	return b
}
