package main

import (
	"bytes"
	"crypto/elliptic"
	"fmt"
	"math/big"
	"sync"

	"github.com/tjfoc/gmsm/sm2"

	"verif/mon"
	"verif/ref"
)

func init() { registry["C13"] = runC13 }

func runC13(c *Ctx) {
	rep := c.Rep
	rep.Meta("cases: the GM/T 0003.5 key-exchange example verbatim; (long-term key class A, B) x (ephemeral key class) x identity lengths {0,1,16,17,8191,...} x klen {1..64,127,128,1024}; forced classes: long-term/ephemeral/shared-point coordinates with leading zero bytes (searched with gmsm's fast arithmetic, confirmed by the reference); hostile peer ephemerals (off curve, (0,0), other curve, coordinates >= p). Oracle: reference GM/T 0003.3 (K, S1, S2) for both roles; initiator == responder; error required for ephemerals not on the curve. Distinct non-trivial = distinct class keys.",
		300, []string{"ref key exchange (GM/T 0003.5 example K, S1, S2 at start of run)"},
		[]string{"identities >= 8192 bytes outside the quantifier"})

	P := func(k testKey) ref.Point { return ref.Point{X: k.x, Y: k.y} }
	type kxCase struct {
		cls          string
		a, b, ra, rb testKey
		ida, idb     []byte
		klen         int
	}
	runCase := func(cs kxCase) {
		w := map[string]interface{}{"class": cs.cls, "dA": cs.a.d.Text(16), "dB": cs.b.d.Text(16), "rA": cs.ra.d.Text(16), "rB": cs.rb.d.Text(16), "idA": mon.Hex(cs.ida), "idB": mon.Hex(cs.idb), "klen": cs.klen}
		wa, e1 := ref.KeyExchange(cs.klen, cs.ida, cs.idb, cs.a.d, P(cs.a), cs.ra.d, P(cs.ra), P(cs.b), P(cs.rb), true)
		wb, e2 := ref.KeyExchange(cs.klen, cs.ida, cs.idb, cs.b.d, P(cs.b), cs.rb.d, P(cs.rb), P(cs.a), P(cs.ra), false)
		if e1 != nil || e2 != nil || !bytes.Equal(wa.K, wb.K) {
			rep.Note("reference refused a case: " + fmt.Sprint(e1, e2))
			return
		}
		var ka, s1a, s2a, kb, s1b, s2b []byte
		var ea, eb error
		if pi := mon.Guard(func() {
			ka, s1a, s2a, ea = sm2.KeyExchangeA(cs.klen, cs.ida, cs.idb, cs.a.priv(), cs.b.pub(), cs.ra.priv(), cs.rb.pub())
			keep("sm2.KeyExchangeA.k", ka)
			keep("sm2.KeyExchangeA.s1", s1a)
			keep("sm2.KeyExchangeA.s2", s2a)
			kb, s1b, s2b, eb = sm2.KeyExchangeB(cs.klen, cs.ida, cs.idb, cs.b.priv(), cs.a.pub(), cs.rb.priv(), cs.ra.pub())
			keep("sm2.KeyExchangeB.k", kb)
			keep("sm2.KeyExchangeB.s1", s1b)
			keep("sm2.KeyExchangeB.s2", s2b)
		}); pi != nil {
			rep.Violation("C13/KeyExchange/panic/"+pi.Func, pi.Value, w)
			rep.Eval(cs.cls)
			return
		}
		if ea != nil || eb != nil {
			rep.Violation("C13/KeyExchange/error-on-valid-input/"+clsHead(cs.cls), fmt.Sprint(ea, eb), w)
			rep.Eval(cs.cls)
			return
		}
		if !bytes.Equal(ka, kb) {
			rep.Violation("C13/KeyExchange/initiator-and-responder-keys-differ/"+clsHead(cs.cls), fmt.Sprintf("KA=%x KB=%x", ka, kb), w)
		}
		if !bytes.Equal(s1a, s1b) || !bytes.Equal(s2a, s2b) {
			rep.Violation("C13/KeyExchange/confirmation-values-differ-between-parties/"+clsHead(cs.cls), "", w)
		}
		if len(ka) != cs.klen {
			rep.Violation("C13/KeyExchange/key-length", fmt.Sprintf("got %d want %d", len(ka), cs.klen), w)
		}
		if !bytes.Equal(ka, wa.K) {
			rep.Violation("C13/KeyExchangeA/K-not-GMT0003.3/"+clsHead(cs.cls), fmt.Sprintf("got %s want %s", mon.Hex(ka), mon.Hex(wa.K)), w)
		}
		if !bytes.Equal(kb, wb.K) {
			rep.Violation("C13/KeyExchangeB/K-not-GMT0003.3/"+clsHead(cs.cls), fmt.Sprintf("got %s want %s", mon.Hex(kb), mon.Hex(wb.K)), w)
		}
		if !bytes.Equal(s1a, wa.S1) || !bytes.Equal(s1b, wb.S1) {
			rep.Violation("C13/KeyExchange/S1-not-GMT0003.3/"+clsHead(cs.cls), fmt.Sprintf("got %x / %x want %x", s1a, s1b, wa.S1), w)
		}
		if !bytes.Equal(s2a, wa.S2) || !bytes.Equal(s2b, wb.S2) {
			rep.Violation("C13/KeyExchange/S2-not-GMT0003.3/"+clsHead(cs.cls), fmt.Sprintf("got %x / %x want %x", s2a, s2b, wa.S2), w)
		}
		rep.Eval(cs.cls)
	}

	// the standard's example
	hx := func(s string) *big.Int { v, _ := new(big.Int).SetString(s, 16); return v }
	exA := mkKey("std-A", hx("81EB26E941BB5AF16DF116495F90695272AE2CD63D6C4AE1678418BE48230029"))
	exB := mkKey("std-B", hx("785129917D45A9EA5437A59356B82338EAADDA6CEB199088F14AE10DEFA229B5"))
	exRA := mkKey("std-rA", hx("D4DE15474DB74D06491C440D305E012400990F3E390C7E87153C12DB2EA60BB3"))
	exRB := mkKey("std-rB", hx("7E07124814B309489125EAED101113164EBF0F3458C5BD88335C1F9D596243D6"))
	runCase(kxCase{"standard-example", exA, exB, exRA, exRB, ref.DefaultUID, ref.DefaultUID, 16})
	// the zero-length identity in both of its spellings (nil and empty): ENTL = 0 and nothing else, for either party
	for _, sp := range []struct {
		name     string
		ida, idb []byte
	}{{"A=nil", nil, []byte("bob")}, {"A=empty", []byte{}, []byte("bob")}, {"B=nil", []byte("alice"), nil}, {"B=empty", []byte("alice"), []byte{}}, {"both-nil", nil, nil}, {"nil-and-empty", nil, []byte{}}} {
		runCase(kxCase{"kx/zero-length-identity/" + sp.name, exA, exB, exRA, exRB, sp.ida, sp.idb, 16})
	}
	// identity lengths, densely: ZA hashes ENTL || ID || a || b || G || P (194 bytes around the identity), so the hash's
	// block and padding boundaries fall at identity lengths like 53, 54, 117, 118 — every length 0..200 for either side
	{
		ri := c.Rng("id-sweep")
		for l := 0; l <= 200; l++ {
			if !c.Thorough && l > 70 && l%2 == 0 && l != 118 && l != 182 {
				continue
			}
			ida, idb := ri.Bytes(l), []byte("bob")
			if l%2 == 1 {
				ida, idb = []byte("alice"), ri.Bytes(l)
			}
			runCase(kxCase{fmt.Sprintf("kx/identity-length-sweep/%d", l/20*20), exA, exB, exRA, exRB, ida, idb, 16})
			if l >= 40 && l <= 130 {
				runCase(kxCase{fmt.Sprintf("kx/identity-length-sweep/both/%d", l/20*20), exA, exB, exRA, exRB, ri.Bytes(l), ri.Bytes(l), 24})
			}
		}
	}
	rep.Sample(map[string]interface{}{"kind": "GM/T 0003.5 example", "dA": exA.d.Text(16), "dB": exB.d.Text(16), "rA": exRA.d.Text(16), "rB": exRB.d.Text(16), "K": "6C89347354DE2484C60B4AB1FDE4C6E5"})

	keys := keyClasses(c.Rng("keys"), c.Q(6, 40), true)
	idLens := []int{0, 1, 2, 15, 16, 17, 100, 8190, 8191}
	klens := []int{1, 2, 15, 16, 17, 31, 32, 33, 48, 63, 64, 127, 128, 1024}
	if c.Thorough {
		for k := 1; k <= 64; k++ {
			klens = append(klens, k)
		}
	}
	n := c.Q(800, 20000)
	Par(n, func(i int) {
		r := c.Rng(fmt.Sprintf("kx%d", i))
		a, b := keys[r.Intn(len(keys))], keys[r.Intn(len(keys))]
		ra, rb := keys[r.Intn(len(keys))], keys[r.Intn(len(keys))]
		if i%3 == 0 { // fresh random ephemerals
			ra = mkKey("random", new(big.Int).Add(new(big.Int).SetBytes(r.Bytes(31)), big.NewInt(1)))
			rb = mkKey("random", new(big.Int).Add(new(big.Int).SetBytes(r.Bytes(31)), big.NewInt(1)))
		}
		la, lb := idLens[r.Intn(len(idLens))], idLens[r.Intn(len(idLens))]
		if i%5 != 0 && la > 8000 {
			la = 16 // keep the 8 KiB identities to a fifth of the cases (ZA cost)
		}
		ida, idb := r.Bytes(la), r.Bytes(lb)
		kl := klens[r.Intn(len(klens))]
		cls := fmt.Sprintf("kx/A=%s/B=%s/rA=%s/rB=%s/idA=%s/klen=%s", a.cls, b.cls, ra.cls, rb.cls, kxIDCls(la), kxKlenCls(kl))
		runCase(kxCase{cls, a, b, ra, rb, ida, idb, kl})
	})

	// shared point V with a short coordinate: search ephemerals with gmsm-free arithmetic is slow with the reference,
	// so search with the reference's result of a *cheap* predicate: iterate rB, compute V by ref only (1 mult each) until short.
	{
		found := 0
		a, b := keys[len(keys)-1], keys[len(keys)-2]
		ra := keys[len(keys)-3]
		lim := new(big.Int).Lsh(big.NewInt(1), 248)
		curve := sm2.P256Sm2()
		r := c.Rng("shortV")
		base := new(big.Int).SetBytes(r.Bytes(30))
		for j := int64(1); j < 4000 && found < c.Q(2, 6); j++ {
			rbD := new(big.Int).Add(base, big.NewInt(j))
			// fast pre-filter with gmsm arithmetic (group law validated by C03): V = tA * (PB + x̄(RB)·RB)
			rbx, rby := curve.ScalarBaseMult(rbD.Bytes())
			xb := ref.XBar(rbx)
			ux, uy := curve.ScalarMult(rbx, rby, xb.Bytes())
			ux, uy = curve.Add(b.x, b.y, ux, uy)
			t := new(big.Int).Mul(ref.XBar(ra.x), ra.d)
			t.Add(t, a.d)
			t.Mod(t, ref.N)
			vx, vy := curve.ScalarMult(ux, uy, t.Bytes())
			if vx.Cmp(lim) >= 0 && vy.Cmp(lim) >= 0 {
				continue
			}
			rb := mkKey("eph-for-short-V", rbD)
			// confirm with the reference
			u := ref.Add(P(b), ref.Mul(ref.XBar(rb.x), P(rb)))
			v := ref.Mul(t, u)
			if v.Inf || (v.X.Cmp(lim) >= 0 && v.Y.Cmp(lim) >= 0) {
				continue
			}
			found++
			runCase(kxCase{"kx/shared-point-short-coordinate", a, b, ra, rb, ref.DefaultUID, []byte("bob"), 32})
		}
		rep.Count("shared_point_short_coordinate_cases", int64(found))
	}

	// the derived key may be all zero (1 exchange in 256 at klen = 1): GM/T 0003.3 prescribes the key, not a failure.
	// Found once by luck at seed 7; now searched for in every run (reference only, a few hundred exchanges).
	{
		a, b, ra := keys[0], keys[1], keys[2]
		r := c.Rng("zerokey")
		base := new(big.Int).SetBytes(r.Bytes(30))
		var mu sync.Mutex
		var hits []kxCase
		Par(4000, func(j int) {
			mu.Lock()
			enough := len(hits) >= 2
			mu.Unlock()
			if enough {
				return
			}
			rb := mkKey("eph-for-zero-key", new(big.Int).Add(base, big.NewInt(int64(j+1))))
			w, err := ref.KeyExchange(1, []byte("alice"), []byte("bob"), a.d, P(a), ra.d, P(ra), P(b), P(rb), true)
			if err == nil && len(w.K) == 1 && w.K[0] == 0 {
				mu.Lock()
				hits = append(hits, kxCase{"kx/derived-key-all-zero/klen=1", a, b, ra, rb, []byte("alice"), []byte("bob"), 1})
				mu.Unlock()
			}
		})
		for i, h := range hits {
			if i < 2 {
				runCase(h)
			}
		}
		rep.Count("derived_key_all_zero_cases", int64(len(hits)))
		rep.Require("derived_key_all_zero_cases", 1)
	}

	// related long-term and ephemeral keys: d = x-bar(R) * r mod n makes P = [x-bar]R, so the other party's P + [x-bar]R
	// adds a point to itself (and d = -x-bar*r makes it add a point to its negative: the standard's "V is infinite" case
	// must then be an error on that side)
	{
		rr := c.Rng("related")
		for i := 0; i < c.Q(4, 60); i++ {
			rb := mkKey("eph", new(big.Int).Add(new(big.Int).SetBytes(rr.Bytes(31)), big.NewInt(1)))
			xb := ref.XBar(rb.x)
			dB := new(big.Int).Mul(xb, rb.d)
			dB.Mod(dB, ref.N)
			if dB.Sign() == 0 || dB.Cmp(new(big.Int).Sub(ref.N, big.NewInt(1))) >= 0 {
				continue
			}
			b := mkKey("d=xbar(R)*r", dB)
			a, ra := keys[i%len(keys)], keys[(i+3)%len(keys)]
			runCase(kxCase{"kx/peer-long-term-key-equals-xbar-times-ephemeral(P+[xbar]R doubles)", a, b, ra, rb, []byte("alice"), []byte("bob"), 16 + i})
			runCase(kxCase{"kx/own-long-term-key-equals-xbar-times-ephemeral", b, a, rb, ra, []byte("alice"), []byte("bob"), 16 + i})
		}
	}

	// d = -x-bar(R)*r mod n for one party: its own t = d + x-bar*r is 0 and the peer's U = P + [x-bar]R is the point at
	// infinity, so V is infinite on BOTH sides — the standard's failure case; both calls must return an error, no key
	{
		rr := c.Rng("t-is-zero")
		for i := 0; i < c.Q(6, 60); i++ {
			rb := mkKey("eph", new(big.Int).Add(new(big.Int).SetBytes(rr.Bytes(31)), big.NewInt(1)))
			dB := new(big.Int).Mul(ref.XBar(rb.x), rb.d)
			dB.Mod(dB, ref.N)
			dB.Sub(ref.N, dB)
			if dB.Sign() <= 0 || dB.Cmp(new(big.Int).Sub(ref.N, big.NewInt(1))) >= 0 {
				continue
			}
			b := mkKey("d=-xbar(R)*r", dB)
			a, ra := keys[i%len(keys)], keys[(i+3)%len(keys)]
			w := map[string]interface{}{"dB": dB.Text(16), "rB": rb.d.Text(16), "dA": a.d.Text(16), "rA": ra.d.Text(16)}
			for role := 0; role < 4; role++ {
				var k []byte
				var err error
				pi := mon.Guard(func() {
					switch role {
					case 0: // the degenerate party as responder
						k, _, _, err = sm2.KeyExchangeB(16, []byte("alice"), []byte("bob"), b.priv(), a.pub(), rb.priv(), ra.pub())
					case 1: // its peer as initiator
						k, _, _, err = sm2.KeyExchangeA(16, []byte("alice"), []byte("bob"), a.priv(), b.pub(), ra.priv(), rb.pub())
					case 2: // the degenerate party as initiator
						k, _, _, err = sm2.KeyExchangeA(16, []byte("bob"), []byte("alice"), b.priv(), a.pub(), rb.priv(), ra.pub())
					default:
						k, _, _, err = sm2.KeyExchangeB(16, []byte("bob"), []byte("alice"), a.priv(), b.pub(), ra.priv(), rb.pub())
					}
				})
				if pi != nil {
					rep.Violation("C13/KeyExchange/panic/"+pi.Func, "V at infinity: "+pi.Value, w)
				} else if err == nil {
					rep.Violation("C13/KeyExchange/key-although-V-is-the-point-at-infinity", fmt.Sprintf("role %d returned key %x", role, k), w)
				}
				rep.Eval(fmt.Sprintf("kx/V-at-infinity/role=%d", role))
			}
		}
	}

	// one-sided exchanges with a *constructed* peer ephemeral point (no scalar known, none needed): x values at the edges
	// of the x-bar computation — exactly 16 significant bytes with bit 127 set / clear, 15 and 17 bytes, 1 byte, the
	// top of the field — each completed to a curve point by solving for y. Both roles, against the reference.
	{
		solve := func(x *big.Int) *big.Int {
			rhs := new(big.Int).Exp(x, big.NewInt(3), ref.P)
			rhs.Add(rhs, new(big.Int).Mul(ref.A, x))
			rhs.Add(rhs, ref.B)
			rhs.Mod(rhs, ref.P)
			return new(big.Int).ModSqrt(rhs, ref.P)
		}
		pow := func(k uint) *big.Int { return new(big.Int).Lsh(big.NewInt(1), k) }
		type xc struct {
			cls  string
			from *big.Int
		}
		xcs := []xc{{"x=2^127", pow(127)}, {"x=2^128-1-ish", new(big.Int).Sub(pow(128), big.NewInt(1))}, {"x=2^127-1-ish", new(big.Int).Sub(pow(127), big.NewInt(1))},
			{"x=2^120", pow(120)}, {"x=2^119", pow(119)}, {"x=2^128", pow(128)}, {"x=2^135", pow(135)}, {"x=1-ish", big.NewInt(1)}, {"x=255-ish", big.NewInt(255)},
			{"x=p-1-ish", new(big.Int).Sub(ref.P, big.NewInt(1))}, {"x=2^255", pow(255)}, {"x=2^248-1-ish", new(big.Int).Sub(pow(248), big.NewInt(1))}}
		a, b, ra := keys[0], keys[1], keys[len(keys)-1]
		for _, c0 := range xcs {
			x := new(big.Int).Set(c0.from)
			var y *big.Int
			for tries := 0; tries < 64 && y == nil; tries++ {
				if y = solve(x); y == nil {
					x.Add(x, big.NewInt(1))
				}
			}
			if y == nil {
				continue
			}
			for _, yy := range []*big.Int{y, new(big.Int).Sub(ref.P, y)} {
				eph := ref.Point{X: x, Y: yy}
				ephPub := &sm2.PublicKey{Curve: sm2.P256Sm2(), X: new(big.Int).Set(x), Y: new(big.Int).Set(yy)}
				for _, asA := range []bool{true, false} {
					cls := fmt.Sprintf("kx/one-sided/peer-ephemeral-%s/initiator=%v", c0.cls, asA)
					w := map[string]interface{}{"class": cls, "peer_ephemeral_x": x.Text(16), "peer_ephemeral_y": yy.Text(16), "d_self": a.d.Text(16), "r_self": ra.d.Text(16)}
					want, err := ref.KeyExchange(32, []byte("alice"), []byte("bob"), a.d, P(a), ra.d, P(ra), P(b), eph, asA)
					if err != nil {
						continue
					}
					var k, s1, s2 []byte
					var e error
					if pi := mon.Guard(func() {
						if asA {
							k, s1, s2, e = sm2.KeyExchangeA(32, []byte("alice"), []byte("bob"), a.priv(), b.pub(), ra.priv(), ephPub)
						} else {
							k, s1, s2, e = sm2.KeyExchangeB(32, []byte("alice"), []byte("bob"), a.priv(), b.pub(), ra.priv(), ephPub)
						}
					}); pi != nil {
						rep.Violation("C13/KeyExchange/panic/"+pi.Func, pi.Value, w)
						continue
					}
					if e != nil {
						rep.Violation("C13/KeyExchange/error-on-valid-input/one-sided/"+c0.cls, e.Error(), w)
					} else if !bytes.Equal(k, want.K) || !bytes.Equal(s1, want.S1) || !bytes.Equal(s2, want.S2) {
						rep.Violation("C13/KeyExchange/not-GMT0003.3/one-sided/peer-ephemeral-"+c0.cls, fmt.Sprintf("K %x want %x", k, want.K), w)
					}
					rep.Eval(cls)
				}
			}
		}
	}

	// hostile peer ephemerals: must yield an error, not a key
	{
		r := c.Rng("hostile")
		a, b, ra := keys[0], keys[1], keys[2]
		type hp struct {
			cls   string
			x, y  *big.Int
			curve elliptic.Curve // nil: the SM2 curve object
		}
		var hs []hp
		for i := 0; i < c.Q(20, 300); i++ {
			x, y, _ := findInvalidCurvePoint(r)
			hs = append(hs, hp{cls: "off-curve(other b')", x: x, y: y})
		}
		hs = append(hs, hp{cls: "(0,0)", x: new(big.Int), y: new(big.Int)},
			hp{cls: "G.x,G.y+1", x: new(big.Int).Set(ref.Gx), y: new(big.Int).Add(ref.Gy, big.NewInt(1))})
		// a public-key struct that names ANOTHER curve (as a converted crypto/ecdsa key does) with a point of that curve:
		// the exchange is over the SM2 curve whatever the struct says
		for _, cv := range []elliptic.Curve{elliptic.P256(), elliptic.P224(), elliptic.P384()} {
			kx, ky := cv.ScalarBaseMult(r.Bytes(24))
			hs = append(hs, hp{cls: "point-of-" + cv.Params().Name + "-in-a-struct-naming-that-curve", x: kx, y: ky, curve: cv})
		}
		{
			x, y, _ := findInvalidCurvePoint(r)
			hs = append(hs, hp{cls: "off-curve-point-in-a-struct-with-nil-curve", x: x, y: y, curve: nilCurve{}})
		}
		for i, h := range hs {
			rpub := &sm2.PublicKey{Curve: sm2.P256Sm2(), X: h.x, Y: h.y}
			switch h.curve.(type) {
			case nil:
			case nilCurve:
				rpub.Curve = nil
			default:
				rpub.Curve = h.curve
			}
			w := map[string]interface{}{"peer_ephemeral_x": h.x.Text(16), "peer_ephemeral_y": h.y.Text(16), "class": h.cls}
			for role := 0; role < 2; role++ {
				var k []byte
				var err error
				pi := mon.Guard(func() {
					if role == 0 {
						k, _, _, err = sm2.KeyExchangeA(16, ref.DefaultUID, ref.DefaultUID, a.priv(), b.pub(), ra.priv(), rpub)
					} else {
						k, _, _, err = sm2.KeyExchangeB(16, ref.DefaultUID, ref.DefaultUID, a.priv(), b.pub(), ra.priv(), rpub)
					}
				})
				if pi != nil {
					rep.Violation("C13/KeyExchange/panic-on-hostile-ephemeral/"+pi.Func+"/"+h.cls, pi.Value, w)
				} else if err == nil {
					rep.Violation("C13/KeyExchange/key-for-invalid-peer-ephemeral/"+h.cls, fmt.Sprintf("role %d returned key %x", role, k), w)
				}
				rep.Eval("hostile-ephemeral/" + h.cls)
				_ = i
			}
		}
	}
}

func clsHead(cls string) string {
	switch {
	case cls == "standard-example":
		return cls
	case len(cls) > 3 && cls[:3] == "kx/" && cls[3] != 'A':
		return cls[3:]
	}
	return "generated"
}

func kxIDCls(l int) string {
	switch {
	case l == 0:
		return "0"
	case l >= 8000:
		return fmt.Sprint(l)
	case l <= 2:
		return fmt.Sprint(l)
	default:
		return "mid"
	}
}

func kxKlenCls(k int) string {
	switch {
	case k < 32:
		return "<32"
	case k == 32:
		return "32"
	case k <= 64:
		return "33-64"
	default:
		return fmt.Sprint(k)
	}
}

// nilCurve marks "leave the Curve field nil" in the hostile-ephemeral table.
type nilCurve struct{ elliptic.Curve }
