package main

import (
	"bytes"
	"encoding/asn1"
	"fmt"
	"math/big"
	"sync/atomic"

	"github.com/tjfoc/gmsm/sm2"

	"verif/mon"
	"verif/ref"
)

func init() { registry["C02"] = runC02 }

func ptLenClass(n int) string {
	switch {
	case n == 0:
		return "0"
	case n < 31:
		return "1-30"
	case n <= 33:
		return fmt.Sprint(n)
	case n%32 == 0:
		return "k*32"
	case n%32 == 1:
		return "k*32+1"
	case n%32 == 31:
		return "k*32-1"
	default:
		return "other"
	}
}

// findInvalidCurvePoint returns (x,y) with y^2 = x^3+ax+b' for some b' != b (i.e. off the SM2 curve).
func findInvalidCurvePoint(r *mon.RNG) (x, y, bp *big.Int) {
	for {
		x = new(big.Int).SetBytes(r.Bytes(32))
		x.Mod(x, ref.P)
		y = new(big.Int).SetBytes(r.Bytes(32))
		y.Mod(y, ref.P)
		if y.Sign() == 0 || ref.OnCurve(x, y) {
			continue
		}
		// b' = y^2 - x^3 - ax
		bp = new(big.Int).Mul(y, y)
		t := new(big.Int).Mul(x, x)
		t.Mul(t, x)
		bp.Sub(bp, t)
		bp.Sub(bp, new(big.Int).Mul(ref.A, x))
		bp.Mod(bp, ref.P)
		return
	}
}

// c02Asn1 is the ASN.1 ciphertext layout (GM/T 0009): x, y, C3, C2.
type c02Asn1 struct {
	X, Y *big.Int
	H, C []byte
}

func runC02(c *Ctx) {
	rep := c.Rep
	rep.Meta("cases: plaintext lengths (0..130 dense, k*32-1/k*32/k*32+1, 1000, 4096; thorough: every length 0..4096) x key classes x {C1C3C2, C1C2C3} x {raw, ASN.1, crypto.Decrypter}; each ciphertext is opened by the reference decryption (C1 on curve, KDF counter mode, C3 = SM3(x2||M||y2) with 32-byte coordinates) and by gmsm; reference-made ciphertexts (incl. chosen nonces that give short coordinates) are opened by gmsm; rejection: every single-byte change (all positions for short ciphertexts), every truncation, other key, wrong ordering, and invalid-curve C1 with C2/C3 made consistent with [d]C1 computed by the generic group law; bounded progress of Encrypt via the nonce budget of the recording reader. Distinct non-trivial = distinct (form, key class, length class) and (rejection kind, position class).",
		2500, []string{"ref SM2 encrypt/decrypt/KDF (GM/T 0003.5 encryption example at start of run)"},
		[]string{"the all-zero-KDF retry branch is reached for 1- and 2-byte plaintexts only (forced class); for longer plaintexts it is unreachable by sampling"})
	keys := keyClasses(c.Rng("keys"), c.Q(3, 24), c.Thorough)
	var lens []int
	if c.Thorough {
		for n := 0; n <= 4096; n++ {
			lens = append(lens, n)
		}
		rep.Exhaustive("plaintext lengths 0..4096")
	} else {
		for n := 0; n <= 130; n++ {
			lens = append(lens, n)
		}
		for k := 5; k <= 8; k++ {
			lens = append(lens, 32*k-1, 32*k, 32*k+1)
		}
		lens = append(lens, 1000, 4096)
		rep.Exhaustive("plaintext lengths 0..130")
	}

	type made struct {
		key  testKey
		msg  []byte
		ct   []byte // raw C1C3C2
		c1c2 []byte // raw C1C2C3
		asn1 []byte
	}
	pool := make([]*made, len(lens))

	Par(len(lens), func(i int) {
		n := lens[i]
		r := c.Rng(fmt.Sprintf("enc%d", n))
		key := keys[(i*7+n)%len(keys)]
		msg := r.Bytes(n)
		seed := r.U64()
		mkReader := func() *mon.RecReader {
			return &mon.RecReader{Src: mon.StreamSrc(seed), Budget: 40 * 64}
		}
		for mode := 0; mode < 2; mode++ {
			order := []string{"C1C3C2", "C1C2C3"}[mode]
			cls := fmt.Sprintf("enc/raw/%s/%s/len=%s", order, key.cls, ptLenClass(n))
			w := map[string]interface{}{"d": key.d.Text(16), "msg": mon.Hex(msg), "order": order, "stream_seed": seed, "len": n}
			rd, rd2 := mkReader(), mkReader()
			rd2.Short = true // same byte stream delivered in short reads: the result must not depend on the chunking
			var ct, ct2 []byte
			var err, err2 error
			msgC := mon.NewCanary(msg, 16)
			if pi := mon.Guard(func() {
				ct, err = sm2.Encrypt(key.pub(), msgC.Slice(), rd, mode)
				keep("sm2.Encrypt", ct)
				ct2, err2 = sm2.Encrypt(key.pub(), msg, rd2, mode)
			}); pi != nil {
				rep.Violation("C02/Encrypt/panic/"+pi.Func+"/len="+ptLenClass(n), pi.Value, w)
				rep.Eval(cls)
				continue
			}
			if rd.Exceeded {
				// bounded progress: 64 nonces were consumed without a result
				rep.Violation("C02/Encrypt/no-progress-within-64-nonces/len="+ptLenClass(n), fmt.Sprintf("plaintext length %d: Encrypt consumed %d reader bytes (%d reads) without returning; returned only after the reader started failing (err=%v)", n, rd.Served, rd.Reads, err), w)
				rep.EvalTrivial(cls)
				continue
			}
			if n == 0 {
				// the statement only requires termination with a ciphertext or an error
				rep.EvalTrivial(cls)
				continue
			}
			if err != nil || err2 != nil {
				rep.Violation("C02/Encrypt/error/"+order, fmt.Sprint(err, err2), w)
				rep.Eval(cls)
				continue
			}
			if s := msgC.Check(); s != "" {
				rep.Violation("C02/Encrypt/plaintext-memory-written", s, w)
			}
			if !bytes.Equal(ct, ct2) {
				rep.Violation("C02/Encrypt/not-determined-by-reader-bytes", "the same nonce stream delivered in one piece and in short reads gave different ciphertexts", w)
			}
			if rd.Served < 32 || rd2.Served < 32 {
				rep.Violation("C02/Encrypt/consumed-fewer-than-32-nonce-bytes", fmt.Sprint(rd.Served, rd2.Served), w)
			}
			w["ciphertext"] = mon.Hex(ct)
			// conformance by reference decryption
			parts, perr := ref.SplitRaw(ct, mode == sm2.C1C2C3)
			if perr != nil {
				rep.Violation("C02/Encrypt/malformed-ciphertext/"+order, perr.Error(), w)
			} else {
				if len(ct) != 97+n {
					rep.Violation("C02/Encrypt/ciphertext-length/"+order, fmt.Sprintf("len %d want %d", len(ct), 97+n), w)
				}
				m2, derr := ref.Decrypt(key.d, parts)
				if derr != nil || !bytes.Equal(m2, msg) {
					rep.Violation("C02/Encrypt/not-GMT0003.4/"+order+"/"+key.cls, fmt.Sprintf("reference decryption: err=%v", derr), w)
				}
			}
			// round trip through gmsm
			var back []byte
			if pi := mon.Guard(func() { back, err = sm2.Decrypt(key.priv(), ct, mode); keep("sm2.Decrypt", back) }); pi != nil {
				rep.Violation("C02/Decrypt/panic/"+pi.Func+"/valid-ciphertext", pi.Value, w)
			} else if err != nil || !bytes.Equal(back, msg) {
				rep.Violation("C02/Decrypt/round-trip-fails/"+order+"/"+key.cls, fmt.Sprintf("err=%v got %s", err, mon.Hex(back)), w)
			}
			rep.Eval(cls)
			if mode == 0 {
				pool[i] = &made{key: key, msg: msg, ct: ct}
				// crypto.Decrypter
				if pi := mon.Guard(func() { back, err = key.priv().Decrypt(nil, ct, nil) }); pi != nil {
					rep.Violation("C02/PrivateKey.Decrypt/panic/"+pi.Func, pi.Value, w)
				} else if err != nil || !bytes.Equal(back, msg) {
					rep.Violation("C02/PrivateKey.Decrypt/round-trip-fails", fmt.Sprint(err), w)
				}
				rep.Eval(fmt.Sprintf("enc/crypto.Decrypter/%s/len=%s", key.cls, ptLenClass(n)))
			} else if pool[i] != nil {
				pool[i].c1c2 = ct
			}
		}
		if n == 0 {
			return
		}
		// ASN.1 form
		{
			cls := fmt.Sprintf("enc/asn1/%s/len=%s", key.cls, ptLenClass(n))
			w := map[string]interface{}{"d": key.d.Text(16), "msg": mon.Hex(msg), "form": "asn1", "stream_seed": seed}
			var a, back, back2 []byte
			var err error
			if pi := mon.Guard(func() { a, err = sm2.EncryptAsn1(key.pub(), msg, mkReader()); keep("sm2.EncryptAsn1", a) }); pi != nil {
				rep.Violation("C02/EncryptAsn1/panic/"+pi.Func, pi.Value, w)
			} else if err != nil {
				rep.Violation("C02/EncryptAsn1/error", err.Error(), w)
			} else {
				if pi := mon.Guard(func() { back, err = sm2.DecryptAsn1(key.priv(), a); keep("sm2.DecryptAsn1", back) }); pi != nil {
					rep.Violation("C02/DecryptAsn1/panic/"+pi.Func+"/valid", pi.Value, w)
				} else if err != nil || !bytes.Equal(back, msg) {
					rep.Violation("C02/DecryptAsn1/round-trip-fails/"+key.cls, fmt.Sprint(err), w)
				}
				// methods
				mon.Guard(func() {
					a2, e2 := key.pub().EncryptAsn1(msg, mkReader())
					if e2 == nil {
						back2, e2 = key.priv().DecryptAsn1(a2)
					}
					if e2 != nil || !bytes.Equal(back2, msg) {
						rep.Violation("C02/methods.EncryptAsn1-DecryptAsn1/round-trip-fails", fmt.Sprint(e2), w)
					}
				})
				// conformance: the ASN.1 structure must carry the same C1,C3,C2 as the raw form for the same nonce
				var raw []byte
				if pi := mon.Guard(func() { raw, err = sm2.CipherUnmarshal(a) }); pi != nil || err != nil {
					rep.Violation("C02/CipherUnmarshal/fails-on-own-output", fmt.Sprint(pi, err), w)
				} else if pool[i] != nil && !bytes.Equal(raw, pool[i].ct) {
					rep.Violation("C02/EncryptAsn1/differs-from-raw-form-for-same-nonce", "", w)
				}
				if pool[i] != nil {
					pool[i].asn1 = a
				}
			}
			rep.Eval(cls)
		}
		if n == 19 {
			rep.Sample(map[string]interface{}{"kind": "roundtrip", "d": key.d.Text(16), "msg": mon.Hex(msg), "ciphertext_C1C3C2": mon.Hex(pool[i].ct)})
		}
	})

	// ---- the retry branch: for a 1-byte plaintext one nonce in 256 gives an all-zero KDF output and Encrypt must start
	// over with a fresh nonce. Many seeded nonce streams make the branch certain to be taken (the recording reader shows
	// it: more than one nonce consumed); every output is opened by the reference and must be the ciphertext of one nonce.
	{
		key := keys[0]
		nStreams := c.Q(3000, 30000)
		var retried int64
		Par(nStreams, func(i int) {
			seed := c.Rng(fmt.Sprintf("retry%d", i)).U64()
			msg := []byte{byte(i)}
			if i%8 == 7 {
				msg = []byte{byte(i), byte(i >> 8)}
			}
			mode := i % 2
			rd := &mon.RecReader{Src: mon.NewRNG(seed).Fill, Budget: 40 * 64}
			var ct []byte
			var err error
			w := map[string]interface{}{"d": key.d.Text(16), "msg": mon.Hex(msg), "stream_seed": seed, "mode": mode}
			if pi := mon.Guard(func() { ct, err = sm2.Encrypt(key.pub(), msg, rd, mode) }); pi != nil {
				rep.Violation("C02/Encrypt/panic/"+pi.Func+"/retry-class", pi.Value, w)
				return
			}
			if err != nil {
				rep.Violation("C02/Encrypt/error/retry-class", err.Error(), w)
				return
			}
			took := rd.Served / 40
			if rd.Served%40 != 0 {
				took++
			}
			if took > 1 {
				atomic.AddInt64(&retried, 1)
				w["nonces_consumed"] = took
			}
			if len(ct) != 97+len(msg) {
				rep.Violation("C02/Encrypt/ciphertext-length/retry-class", fmt.Sprintf("%d bytes for a %d-byte plaintext after %d nonce(s)", len(ct), len(msg), took), w)
				return
			}
			parts, perr := ref.SplitRaw(ct, mode == sm2.C1C2C3)
			if perr != nil {
				rep.Violation("C02/Encrypt/malformed-ciphertext/retry-class", perr.Error(), w)
				return
			}
			pt, derr := ref.Decrypt(key.d, parts)
			if derr != nil || !bytes.Equal(pt, msg) {
				rep.Violation("C02/Encrypt/reference-cannot-open/retry-class", fmt.Sprintf("after %d nonce(s): %v", took, derr), w)
			}
			if took > 1 {
				rep.Eval(fmt.Sprintf("enc/retry-after-all-zero-kdf/len=%d/mode=%d", len(msg), mode))
			} else {
				rep.EvalN("enc/tiny-plaintext-no-retry", 1, false)
			}
		})
		rep.Count("encryptions_that_took_the_all_zero_kdf_retry_branch", retried)
		rep.Require("encryptions_that_took_the_all_zero_kdf_retry_branch", 1)
		if retried == 0 {
			rep.Note("the all-zero-KDF retry branch was not reached in this run")
		}
	}

	// ---- error-then-valid histories (serial): a rejected call must leave nothing behind. Sequences mix decryptions that
	// must fail (tampered C2 / C3 / C1, a ciphertext for another key, truncations) with valid decryptions and with
	// encryptions whose output the reference opens; every valid call must still succeed, every invalid one still fail
	{
		rh := c.Rng("errhist")
		for h := 0; h < c.Q(40, 1500); h++ {
			key, other := keys[rh.Intn(len(keys))], keys[rh.Intn(len(keys))]
			var trace []string
			for st := 0; st < 10; st++ {
				msg := rh.Bytes(1 + rh.Intn(70))
				mode := rh.Intn(2)
				k := new(big.Int).SetBytes(rh.Bytes(31))
				k.Add(k, big.NewInt(1))
				good, ok := ref.EncryptWithK(key.x, key.y, k, msg)
				if !ok {
					continue
				}
				ct := good.Raw(mode == sm2.C1C2C3)
				w := map[string]interface{}{"history": append([]string{}, trace...), "d": key.d.Text(16), "mode": mode}
				var pt []byte
				var err error
				switch rh.Intn(5) {
				case 0, 1: // must fail
					bad := append([]byte{}, ct...)
					kind := rh.Pick(0, 1, 2, 3)
					switch kind {
					case 0:
						bad[len(bad)-1-rh.Intn(len(msg))] ^= 0x01 // C2 (C1C3C2) or C3 tail (C1C2C3)
					case 1:
						bad[70+rh.Intn(20)] ^= 0x40 // inside C3 (C1C3C2) / C2 or C3
					case 2:
						bad = bad[:len(bad)-1]
					default:
						if og, ok2 := ref.EncryptWithK(other.x, other.y, k, msg); ok2 && other.d.Cmp(key.d) != 0 {
							bad = og.Raw(mode == sm2.C1C2C3)
						}
					}
					trace = append(trace, fmt.Sprintf("invalid-decrypt/%d", kind))
					if pi := mon.Guard(func() { pt, err = sm2.Decrypt(key.priv(), bad, mode) }); pi != nil {
						rep.Violation("C02/history/panic/"+pi.Func, pi.Value, w)
					} else if err == nil && !bytes.Equal(bad, ct) {
						rep.Violation("C02/history/accepts-invalid-ciphertext", fmt.Sprintf("after %v", trace), w)
					}
				case 2, 3: // valid decrypt of a reference-made ciphertext
					trace = append(trace, "valid-decrypt")
					if pi := mon.Guard(func() { pt, err = sm2.Decrypt(key.priv(), ct, mode) }); pi != nil {
						rep.Violation("C02/history/panic/"+pi.Func, pi.Value, w)
					} else if err != nil || !bytes.Equal(pt, msg) {
						rep.Violation("C02/history/valid-ciphertext-rejected-after-earlier-calls", fmt.Sprintf("after %v: %v", trace, err), w)
						st = 99
					}
				default: // encrypt, opened by the reference
					trace = append(trace, "encrypt")
					var out []byte
					if pi := mon.Guard(func() { out, err = sm2.Encrypt(key.pub(), msg, mon.NewRNG(rh.U64()), mode) }); pi != nil {
						rep.Violation("C02/history/panic/"+pi.Func, pi.Value, w)
					} else if err != nil {
						rep.Violation("C02/history/encrypt-error", err.Error(), w)
					} else if parts, pe := ref.SplitRaw(out, mode == sm2.C1C2C3); pe != nil {
						rep.Violation("C02/history/malformed-ciphertext-after-earlier-calls", pe.Error(), w)
					} else if p2, de := ref.Decrypt(key.d, parts); de != nil || !bytes.Equal(p2, msg) {
						rep.Violation("C02/history/ciphertext-not-GMT0003.4-after-earlier-calls", fmt.Sprintf("after %v: %v", trace, de), w)
						st = 99
					}
				}
			}
			rep.Eval(fmt.Sprintf("history/error-then-valid/steps=%d", len(trace)))
		}
	}

	// ---- reference-made ciphertexts opened by gmsm (cross direction), incl. chosen nonces with short coordinates
	{
		n := c.Q(150, 3000)
		Par(n, func(i int) {
			r := c.Rng(fmt.Sprintf("refenc%d", i))
			key := keys[i%len(keys)]
			msg := r.Bytes(1 + r.Intn(100))
			var k *big.Int
			kcls := "random-k"
			switch i % 4 {
			case 0:
				k = big.NewInt(int64(1 + r.Intn(3)))
				kcls = "small-k"
			default:
				k = new(big.Int).SetBytes(r.Bytes(32))
				k.Mod(k, new(big.Int).Sub(ref.N, big.NewInt(1)))
				k.Add(k, big.NewInt(1))
			}
			ct, ok := ref.EncryptWithK(key.x, key.y, k, msg)
			if !ok {
				return
			}
			short := ""
			lim := new(big.Int).Lsh(big.NewInt(1), 248)
			if ct.X1.Cmp(lim) < 0 || ct.Y1.Cmp(lim) < 0 {
				short = "/short-C1-coordinate"
			}
			for mode := 0; mode < 2; mode++ {
				raw := ct.Raw(mode == sm2.C1C2C3)
				w := map[string]interface{}{"d": key.d.Text(16), "k": k.Text(16), "msg": mon.Hex(msg), "ciphertext": mon.Hex(raw), "mode": mode}
				var back []byte
				var err error
				if pi := mon.Guard(func() { back, err = sm2.Decrypt(key.priv(), raw, mode) }); pi != nil {
					rep.Violation("C02/Decrypt/panic/"+pi.Func+"/reference-ciphertext", pi.Value, w)
				} else if err != nil || !bytes.Equal(back, msg) {
					rep.Violation("C02/Decrypt/rejects-reference-ciphertext/"+key.cls+short, fmt.Sprint(err), w)
				}
				rep.Eval(fmt.Sprintf("refenc/%s/%s/mode=%d%s", key.cls, kcls, mode, short))
			}
		})
	}
	// shared-point coordinates with leading zero bytes: search nonces with gmsm's fast ScalarMult, confirm with ref
	{
		found := 0
		key := keys[len(keys)-1]
		curve := sm2.P256Sm2()
		lim := new(big.Int).Lsh(big.NewInt(1), 248)
		r := c.Rng("shortx2")
		base := new(big.Int).SetBytes(r.Bytes(30))
		for j := int64(1); j < 6000 && found < c.Q(2, 8); j++ {
			k := new(big.Int).Add(base, big.NewInt(j))
			x2, y2 := curve.ScalarMult(key.x, key.y, k.Bytes())
			if x2.Cmp(lim) >= 0 && y2.Cmp(lim) >= 0 {
				continue
			}
			q := ref.Mul(k, ref.FromXY(key.x, key.y))
			if q.X.Cmp(lim) >= 0 && q.Y.Cmp(lim) >= 0 {
				continue
			}
			found++
			msg := r.Bytes(40)
			ct, ok := ref.EncryptWithK(key.x, key.y, k, msg)
			if !ok {
				continue
			}
			raw := ct.Raw(false)
			w := map[string]interface{}{"d": key.d.Text(16), "k": k.Text(16), "msg": mon.Hex(msg), "ciphertext": mon.Hex(raw)}
			var back []byte
			var err error
			if pi := mon.Guard(func() { back, err = sm2.Decrypt(key.priv(), raw, sm2.C1C3C2) }); pi != nil {
				rep.Violation("C02/Decrypt/panic/"+pi.Func+"/short-shared-coordinate", pi.Value, w)
			} else if err != nil || !bytes.Equal(back, msg) {
				rep.Violation("C02/Decrypt/short-shared-point-coordinate-mishandled", fmt.Sprint(err), w)
			}
			// and gmsm's own encryption with a reader that yields exactly this k: k = (b mod (n-1)) + 1  ⇒ feed b = k-1 as 40 bytes
			b := new(big.Int).Sub(k, big.NewInt(1)).Bytes()
			buf := append(make([]byte, 40-len(b)), b...)
			pos := 0
			rd := &mon.RecReader{Src: func(p []byte) {
				for i := range p {
					p[i] = buf[pos%40]
					pos++
				}
			}, Budget: 40 * 64}
			var own []byte
			if pi := mon.Guard(func() { own, err = sm2.Encrypt(key.pub(), msg, rd, sm2.C1C3C2) }); pi == nil && err == nil {
				parts, perr := ref.SplitRaw(own, false)
				if perr == nil {
					if m2, derr := ref.Decrypt(key.d, parts); derr != nil || !bytes.Equal(m2, msg) {
						rep.Violation("C02/Encrypt/not-GMT0003.4/short-shared-coordinate", fmt.Sprint(derr), w)
					}
					if parts.X1.Cmp(ct.X1) == 0 {
						rep.Count("own_encryptions_with_chosen_short_coordinate_nonce", 1)
					}
				}
			}
			rep.Eval("refenc/short-shared-point-coordinate")
		}
		rep.Count("short_shared_coordinate_cases", int64(found))
	}

	// ---- rejection
	other := mkKey("other", new(big.Int).SetBytes(c.Rng("otherkey").Bytes(31)))
	var mades []*made
	for _, m := range pool {
		if m != nil && len(m.msg) > 0 && m.ct != nil {
			mades = append(mades, m)
		}
	}
	mustReject := func(kind, posCls string, priv *sm2.PrivateKey, ct []byte, mode int, orig []byte, w map[string]interface{}) {
		var out []byte
		var err error
		w["ciphertext"] = mon.Hex(ct)
		w["kind"] = kind
		if pi := mon.Guard(func() { out, err = sm2.Decrypt(priv, ct, mode) }); pi != nil {
			rep.Violation("C02/Decrypt/panic/"+pi.Func+"/"+kind, fmt.Sprintf("%s (%s): %s", kind, posCls, pi.Value), w)
		} else if err == nil {
			rep.Violation("C02/Decrypt/accepts/"+kind+"/"+posCls, fmt.Sprintf("Decrypt returned nil error (plaintext %s)", mon.Hex(out)), w)
		}
		rep.Eval("reject/" + kind + "/" + posCls)
		rep.Count("rejections", 1)
	}
	posClass := func(p, n int, mode int) string {
		switch {
		case p == 0:
			return "format-byte"
		case p <= 32:
			return "C1.x"
		case p <= 64:
			return "C1.y"
		}
		if mode == sm2.C1C3C2 {
			if p <= 96 {
				return "C3"
			}
			return "C2"
		}
		if p >= n-32 {
			return "C3"
		}
		return "C2"
	}
	Par(len(mades), func(i int) {
		m := mades[i]
		r := c.Rng(fmt.Sprintf("rej%d", i))
		w := func() map[string]interface{} {
			return map[string]interface{}{"d": m.key.d.Text(16), "msg": mon.Hex(m.msg)}
		}
		for mode, ct := range [][]byte{m.ct, m.c1c2} {
			if ct == nil {
				continue
			}
			// single-byte changes: every position for short ciphertexts (thorough: all), sampled otherwise
			positions := []int{}
			if len(ct) <= 200 && (c.Thorough || i%8 == 0) {
				for p := 1; p < len(ct); p++ {
					positions = append(positions, p)
				}
			} else {
				for k := 0; k < 12; k++ {
					positions = append(positions, 1+r.Intn(len(ct)-1))
				}
				positions = append(positions, 1, 32, 33, 64, 65, 96, len(ct)-1)
			}
			for _, p := range positions {
				x := append([]byte{}, ct...)
				x[p] ^= byte(1 + r.Intn(255))
				mustReject("byte-change", posClass(p, len(ct), mode), m.key.priv(), x, mode, m.msg, w())
			}
			// truncations: every length for short ones in thorough; classes otherwise
			var cuts []int
			if len(ct) <= 200 && (c.Thorough || i%8 == 0) {
				for l := 0; l < len(ct); l++ {
					cuts = append(cuts, l)
				}
			} else {
				cuts = []int{0, 1, 2, 33, 64, 65, 66, 96, 97, len(ct) - 1}
			}
			for _, l := range cuts {
				if l >= len(ct) {
					continue
				}
				cls := "len>=97"
				if l < 97 {
					cls = "len<97"
				}
				mustReject("truncation", cls, m.key.priv(), append([]byte{}, ct[:l]...), mode, m.msg, w())
			}
			mustReject("other-key", "", other.priv(), ct, mode, m.msg, w())
			if len(m.msg) != 32 { // for |M| = 32 both orderings have the same layout by length; content differs, MAC fails anyway
				mustReject("wrong-ordering", "", m.key.priv(), ct, 1-mode, m.msg, w())
			} else {
				mustReject("wrong-ordering", "len=32", m.key.priv(), ct, 1-mode, m.msg, w())
			}
		}
		// ASN.1: single-byte changes / truncations must error or... (ASN.1 re-encodings may be non-semantic): only decryption to a
		// *different* plaintext or a panic is a violation here; plain success with the same plaintext is don't-care.
		if m.asn1 != nil && (c.Thorough || i%4 == 0) {
			for p := 0; p < len(m.asn1); p++ {
				x := append([]byte{}, m.asn1...)
				x[p] ^= byte(1 + r.Intn(255))
				var out []byte
				var err error
				ww := w()
				ww["asn1"] = mon.Hex(x)
				if pi := mon.Guard(func() { out, err = sm2.DecryptAsn1(m.key.priv(), x) }); pi != nil {
					rep.Violation("C02/DecryptAsn1/panic/"+pi.Func+"/byte-change", pi.Value, ww)
				} else if err == nil && !bytes.Equal(out, m.msg) {
					rep.Violation("C02/DecryptAsn1/accepts-altered-ciphertext", fmt.Sprintf("position %d: decrypted to %s", p, mon.Hex(out)), ww)
				} else if err == nil {
					// accepted with the right plaintext: fine if the change was a re-encoding of the same four values; not if the
					// altered bytes are a strict DER encoding of OTHER values (then C1, C3 or C2 itself was changed)
					var orig, alt c02Asn1
					if _, e0 := asn1.Unmarshal(m.asn1, &orig); e0 == nil {
						if rest, e1 := asn1.Unmarshal(x, &alt); e1 == nil && len(rest) == 0 && (alt.X.Cmp(orig.X) != 0 || alt.Y.Cmp(orig.Y) != 0 || !bytes.Equal(alt.H, orig.H) || !bytes.Equal(alt.C, orig.C)) {
							rep.Violation("C02/DecryptAsn1/accepts-altered-ciphertext/same-plaintext-from-changed-values", fmt.Sprintf("position %d: the altered bytes are valid DER of other values (x %x y %x) and still decrypt", p, alt.X, alt.Y), ww)
						}
					}
				}
				rep.Eval("reject/asn1-byte-change")
			}
			// the coordinates of C1 replaced by other integers with the same low 256 bits or the same residue mod p (re-encoded
			// as strict DER): C1 is then not a point of the curve, whatever an implementation truncates or reduces
			var orig c02Asn1
			if _, e0 := asn1.Unmarshal(m.asn1, &orig); e0 == nil && orig.X != nil && orig.Y != nil {
				two256 := new(big.Int).Lsh(big.NewInt(1), 256)
				for _, v := range []struct {
					name string
					f    func(*big.Int) *big.Int
				}{
					{"+2^256", func(a *big.Int) *big.Int { return new(big.Int).Add(a, two256) }},
					{"+0x7f*2^256", func(a *big.Int) *big.Int { return new(big.Int).Add(a, new(big.Int).Mul(big.NewInt(0x7f), two256)) }},
					{"+2^264", func(a *big.Int) *big.Int { return new(big.Int).Add(a, new(big.Int).Lsh(big.NewInt(1), 264)) }},
					{"+p", func(a *big.Int) *big.Int { return new(big.Int).Add(a, ref.P) }},
					{"-2^256(negative)", func(a *big.Int) *big.Int { return new(big.Int).Sub(a, two256) }},
					{"negated", func(a *big.Int) *big.Int { return new(big.Int).Neg(a) }},
				} {
					for ci, coord := range []string{"x", "y"} {
						alt := c02Asn1{X: orig.X, Y: orig.Y, H: orig.H, C: orig.C}
						if ci == 0 {
							alt.X = v.f(orig.X)
						} else {
							alt.Y = v.f(orig.Y)
						}
						if alt.X.Sign() == 0 || alt.Y.Sign() == 0 {
							continue
						}
						der, e := asn1.Marshal(alt)
						if e != nil {
							continue
						}
						ww := w()
						ww["asn1"] = mon.Hex(der)
						var out []byte
						var err error
						if pi := mon.Guard(func() { out, err = sm2.DecryptAsn1(m.key.priv(), der) }); pi != nil {
							rep.Violation("C02/DecryptAsn1/panic/"+pi.Func+"/coordinate-out-of-range", pi.Value, ww)
						} else if err == nil {
							rep.Violation("C02/DecryptAsn1/accepts/C1-coordinate-out-of-range/"+coord+v.name, "decrypted to "+mon.Hex(out), ww)
						}
						rep.Eval("reject/asn1-coordinate-" + coord + v.name)
					}
				}
			}
			for l := 0; l < len(m.asn1); l += 1 + len(m.asn1)/40 {
				ww := w()
				ww["asn1"] = mon.Hex(m.asn1[:l])
				var err error
				if pi := mon.Guard(func() { _, err = sm2.DecryptAsn1(m.key.priv(), m.asn1[:l]) }); pi != nil {
					rep.Violation("C02/DecryptAsn1/panic/"+pi.Func+"/truncation", pi.Value, ww)
				} else if err == nil {
					rep.Violation("C02/DecryptAsn1/accepts-truncated", fmt.Sprint(l), ww)
				}
				rep.Eval("reject/asn1-truncation")
			}
		}
	})

	// ---- invalid-curve C1: consistent C2/C3 computed from Q = [d](x,y) on y^2=x^3+ax+b'
	{
		n := c.Q(60, 1200)
		Par(n, func(i int) {
			r := c.Rng(fmt.Sprintf("inv%d", i))
			key := keys[i%len(keys)]
			x, y, bp := findInvalidCurvePoint(r)
			msg := r.Bytes(1 + r.Intn(48))
			pc := byte(4)
			build := func(qx, qy *big.Int) []byte {
				x2, y2 := ref.Pad32(qx), ref.Pad32(qy)
				t := ref.KDF(append(append([]byte{}, x2...), y2...), len(msg))
				c2 := make([]byte, len(msg))
				for j := range c2 {
					c2[j] = msg[j] ^ t[j]
				}
				c3 := ref.SM3(append(append(append([]byte{}, x2...), msg...), y2...))
				out := []byte{pc}
				out = append(out, ref.Pad32(x)...)
				out = append(out, ref.Pad32(y)...)
				out = append(out, c3...)
				return append(out, c2...)
			}
			w := map[string]interface{}{"d": key.d.Text(16), "x": x.Text(16), "y": y.Text(16), "b_prime": bp.Text(16), "msg": mon.Hex(msg)}
			// (a) Q by the generic group law (what a correct-but-unchecked implementation computes)
			q := ref.Mul(key.d, ref.Point{X: x, Y: y})
			if !q.Inf {
				mustReject("invalid-curve-C1", "Q-by-generic-law", key.priv(), build(q.X, q.Y), sm2.C1C3C2, msg, w)
				// the same forgery under every point-conversion octet an implementation might honour (hybrid 06/07 with the
				// parity of y either way, compressed, zero, anything): the point is off the curve whatever the octet says
				for _, o := range []byte{0x06 | byte(y.Bit(0)), 0x07 ^ byte(y.Bit(0)), 0x02 | byte(y.Bit(0)), 0x03 ^ byte(y.Bit(0)), 0x00, 0x05, 0xff} {
					pc = o
					mustReject("invalid-curve-C1", fmt.Sprintf("Q-by-generic-law/PC=%02x", o&0xfe), key.priv(), build(q.X, q.Y), sm2.C1C3C2, msg, w)
				}
				pc = 4
			}
			// (b) Q by gmsm's own ScalarMult on that off-curve point (whatever it computes)
			var gx, gy *big.Int
			if pi := mon.Guard(func() { gx, gy = sm2.P256Sm2().ScalarMult(x, y, key.d.Bytes()) }); pi == nil && gx != nil {
				mustReject("invalid-curve-C1", "Q-by-gmsm-ScalarMult", key.priv(), build(gx, gy), sm2.C1C3C2, msg, w)
			}
		})
		// C1 = (0,0) and coordinates >= p
		key := keys[0]
		for _, cse := range []struct {
			n    string
			x, y *big.Int
		}{{"C1=(0,0)", new(big.Int), new(big.Int)}, {"C1.x>=p", new(big.Int).Add(ref.P, big.NewInt(5)), big.NewInt(7)}} {
			ct := []byte{4}
			ct = append(ct, ref.Pad32(cse.x)...)
			ct = append(ct, ref.Pad32(cse.y)...)
			ct = append(ct, make([]byte, 32)...)
			ct = append(ct, []byte("hello")...)
			mustReject("invalid-curve-C1", cse.n, key.priv(), ct, sm2.C1C3C2, nil, map[string]interface{}{"case": cse.n})
			// the same C1 with C2/C3 consistent with every shared point an implementation might derive from it:
			// (0,0) itself (what a projective ladder returns for the "point" (0,0)), and whatever gmsm's ScalarMult returns
			cands := [][2]*big.Int{{new(big.Int), new(big.Int)}}
			mon.Guard(func() {
				gx, gy := sm2.P256Sm2().ScalarMult(new(big.Int).Mod(cse.x, ref.P), new(big.Int).Mod(cse.y, ref.P), key.d.Bytes())
				cands = append(cands, [2]*big.Int{gx, gy})
			})
			for ci, q := range cands {
				msg := []byte("attacker chosen")
				x2, y2 := ref.Pad32(q[0]), ref.Pad32(q[1])
				t := ref.KDF(append(append([]byte{}, x2...), y2...), len(msg))
				c2 := make([]byte, len(msg))
				for j := range c2 {
					c2[j] = msg[j] ^ t[j]
				}
				c3 := ref.SM3(append(append(append([]byte{}, x2...), msg...), y2...))
				f := []byte{4}
				f = append(f, ref.Pad32(cse.x)[:32]...)
				f = append(f, ref.Pad32(cse.y)[:32]...)
				f = append(f, c3...)
				f = append(f, c2...)
				mustReject("invalid-curve-C1", fmt.Sprintf("%s/consistent-with-candidate-%d", cse.n, ci), key.priv(), f, sm2.C1C3C2, nil, map[string]interface{}{"case": cse.n})
			}
		}
	}
}
