package main

import (
	"bytes"
	"fmt"
	"sync"

	"github.com/tjfoc/gmsm/sm4"

	"verif/mon"
)

// (9) the SM4 helpers in a tight loop from many goroutines, every goroutine under its OWN key: whatever the helpers keep
// between calls (an expanded key, a table) is then contended by different keys at once. No SM2 work in between, so the
// helpers' own critical sections overlap thousands of times. Every result must be the one computed sequentially.
func c20SM4Helpers(c *Ctx) {
	rep := c.Rep
	type item struct {
		key, msg, ecb, cbc, gcmC, gcmT []byte
	}
	r := c.Rng("sm4-helpers")
	const G = 16
	items := make([]item, G)
	for i := range items {
		it := &items[i]
		it.key, it.msg = r.Bytes(16), r.Bytes(40+i)
		it.ecb, _ = sm4.Sm4Ecb(it.key, it.msg, true)
		it.cbc, _ = sm4.Sm4Cbc(it.key, it.msg, true)
		it.gcmC, it.gcmT = sm4.GCMEncrypt(it.key, it.key[:12], it.msg, it.msg[:7])
	}
	var mu sync.Mutex
	bad := map[string]int{}
	total := 0
	runConcurrently(G, func(g int) {
		it := items[g]
		n, wrong := 0, map[string]int{}
		for i := 0; i < c.Q(1500, 20000); i++ {
			var what string
			var ok bool
			if pi := mon.Guard(func() {
				switch i % 5 {
				case 0:
					ct, err := sm4.Sm4Ecb(it.key, it.msg, true)
					what, ok = "Sm4Ecb", err == nil && bytes.Equal(ct, it.ecb)
				case 1:
					pt, err := sm4.Sm4Ecb(it.key, it.ecb, false)
					what, ok = "Sm4Ecb(decrypt)", err == nil && bytes.Equal(pt, it.msg)
				case 2:
					ct, err := sm4.Sm4Cbc(it.key, it.msg, true)
					what, ok = "Sm4Cbc", err == nil && bytes.Equal(ct, it.cbc)
				case 3:
					cc, tt := sm4.GCMEncrypt(it.key, it.key[:12], it.msg, it.msg[:7])
					what, ok = "GCMEncrypt", bytes.Equal(cc, it.gcmC) && bytes.Equal(tt, it.gcmT)
				default:
					pp, tt := sm4.GCMDecrypt(it.key, it.key[:12], it.gcmC, it.msg[:7])
					what, ok = "GCMDecrypt", bytes.Equal(pp, it.msg) && bytes.Equal(tt, it.gcmT)
				}
			}); pi != nil {
				wrong["panic in "+pi.Func]++
			} else if !ok {
				wrong[what]++
			}
			n++
		}
		mu.Lock()
		total += n
		for k, v := range wrong {
			bad[k] += v
		}
		mu.Unlock()
	})
	for what, n := range bad {
		rep.Violation("C20/sm4-helpers/concurrent-result-differs-from-sequential/"+what, fmt.Sprintf("%d of %d calls by %d goroutines with different keys", n, total, G), nil)
	}
	rep.Count("sm4_helper_calls_under_different_keys_concurrently", int64(total))
	rep.Eval("sm4-helpers/different-keys/goroutines=16")
}
