package main

import (
	"bytes"
	"crypto/rsa"
	"crypto/sha1"
	"encoding/asn1"
	"fmt"

	gx509 "github.com/tjfoc/gmsm/x509"

	"verif/mon"
)

// Signed-data features the main sweep does not touch: extra certificates added to a signed object (AddCertificate),
// reading signed attributes back (UnmarshalSignedAttribute), and certificate-only "degenerate" objects
// (DegenerateCertificate). What was put in must come out: the same certificates, the same attribute values, and a
// signature that still verifies.
func runC17P7Extra(c *Ctx, rk *rsa.PrivateKey, rcert *gx509.Certificate, others []*gx509.Certificate) {
	rep := c.Rep
	r := c.Rng("p7extra")
	oidExtra := asn1.ObjectIdentifier{1, 2, 3, 4, 5, 6}
	oidMessageDigest := asn1.ObjectIdentifier{1, 2, 840, 113549, 1, 9, 4}
	for i, n := range []int{0, 1, 64, 3000} {
		for _, detach := range []bool{false, true} {
			content := r.Bytes(n)
			extraVal := fmt.Sprintf("attribute value %d", i)
			w := map[string]interface{}{"content": mon.Hex(content), "detached": detach, "extra_certificates": len(others)}
			var der []byte
			var err error
			if pi := mon.Guard(func() {
				sd, e := gx509.NewSignedData(content)
				if e != nil {
					err = e
					return
				}
				if e := sd.AddSigner(rcert, rk, gx509.SignerInfoConfig{ExtraSignedAttributes: []gx509.Attribute{{Type: oidExtra, Value: extraVal}}}); e != nil {
					err = e
					return
				}
				for _, oc := range others {
					sd.AddCertificate(oc)
				}
				if detach {
					sd.Detach()
				}
				der, err = sd.Finish()
			}); pi != nil || err != nil {
				rep.Violation("C17/SignedData/build-fails/with-added-certificates", fmt.Sprint(pi, err), w)
				continue
			}
			w["der"] = mon.Hex(der)
			var p7 *gx509.PKCS7
			if pi := mon.Guard(func() { p7, err = gx509.ParsePKCS7(der) }); pi != nil || err != nil {
				rep.Violation("C17/ParsePKCS7/fails-on-library-built-signed-data/with-added-certificates", fmt.Sprint(pi, err), w)
				continue
			}
			if detach {
				p7.Content = content
			}
			if pi := mon.Guard(func() { err = p7.Verify() }); pi != nil || err != nil {
				rep.Violation("C17/Verify/rejects-library-built-signed-data/with-added-certificates", fmt.Sprint(pi, err), w)
			}
			// certificates: the signer's and every added one, nothing else
			want := append([]*gx509.Certificate{rcert}, others...)
			if len(p7.Certificates) != len(want) {
				rep.Violation("C17/SignedData/certificates-differ-from-what-was-put-in", fmt.Sprintf("%d certificates parsed, %d were put in", len(p7.Certificates), len(want)), w)
			} else {
				for _, wc := range want {
					found := false
					for _, g := range p7.Certificates {
						if bytes.Equal(g.Raw, wc.Raw) {
							found = true
						}
					}
					if !found {
						rep.Violation("C17/SignedData/certificates-differ-from-what-was-put-in", "a certificate that was added is missing", w)
						break
					}
				}
			}
			if s := p7.GetOnlySigner(); s == nil || !bytes.Equal(s.Raw, rcert.Raw) {
				rep.Violation("C17/SignedData/GetOnlySigner-is-not-the-signer", "", w)
			}
			// attributes read back
			var gotExtra string
			if pi := mon.Guard(func() { err = p7.UnmarshalSignedAttribute(oidExtra, &gotExtra) }); pi != nil || err != nil || gotExtra != extraVal {
				rep.Violation("C17/UnmarshalSignedAttribute/extra-attribute-not-returned", fmt.Sprintf("%v %v got %q want %q", pi, err, gotExtra, extraVal), w)
			}
			var gotDigest []byte
			h := sha1.Sum(content)
			if pi := mon.Guard(func() { err = p7.UnmarshalSignedAttribute(oidMessageDigest, &gotDigest) }); pi != nil || err != nil || !bytes.Equal(gotDigest, h[:]) {
				rep.Violation("C17/UnmarshalSignedAttribute/message-digest-is-not-the-digest-of-the-content", fmt.Sprintf("%v %v got %x want %x", pi, err, gotDigest, h), w)
			}
			var absent string
			if pi := mon.Guard(func() { err = p7.UnmarshalSignedAttribute(asn1.ObjectIdentifier{1, 2, 3, 99}, &absent) }); pi != nil {
				rep.Violation("C17/UnmarshalSignedAttribute/panic/"+pi.Func, pi.Value, w)
			} else if err == nil {
				rep.Violation("C17/UnmarshalSignedAttribute/returns-an-attribute-that-is-not-there", absent, w)
			}
			rep.Eval(fmt.Sprintf("signed/rsa-library-built/added-certificates/detached=%v/len=%d", detach, n))
		}
	}
	// degenerate (certificates-only) objects: one certificate, and a chain as concatenated DER
	chains := [][]*gx509.Certificate{{rcert}, append([]*gx509.Certificate{rcert}, others...)}
	for ci, ch := range chains {
		var cat []byte
		for _, x := range ch {
			cat = append(cat, x.Raw...)
		}
		var der []byte
		var err error
		w := map[string]interface{}{"certificates": len(ch)}
		if pi := mon.Guard(func() { der, err = gx509.DegenerateCertificate(cat) }); pi != nil || err != nil {
			rep.Violation("C17/DegenerateCertificate/fails", fmt.Sprint(pi, err), w)
			continue
		}
		w["der"] = mon.Hex(der)
		var p7 *gx509.PKCS7
		if pi := mon.Guard(func() { p7, err = gx509.ParsePKCS7(der) }); pi != nil || err != nil {
			rep.Violation("C17/ParsePKCS7/fails-on-degenerate-object", fmt.Sprint(pi, err), w)
			continue
		}
		if len(p7.Certificates) != len(ch) {
			rep.Violation("C17/DegenerateCertificate/certificates-differ-from-what-was-put-in", fmt.Sprintf("%d parsed, %d put in", len(p7.Certificates), len(ch)), w)
		} else {
			for k := range ch {
				if !bytes.Equal(p7.Certificates[k].Raw, ch[k].Raw) {
					rep.Violation("C17/DegenerateCertificate/certificates-differ-from-what-was-put-in", fmt.Sprintf("certificate %d differs", k), w)
					break
				}
			}
		}
		if len(p7.Signers) != 0 {
			rep.Violation("C17/DegenerateCertificate/object-has-signers", fmt.Sprint(len(p7.Signers)), w)
		}
		mon.Guard(func() { p7.Verify() }) // whatever it answers for an object nobody signed: no panic (the main Guard reports one)
		rep.Eval(fmt.Sprintf("signed/degenerate/certs=%d", len(ch)))
		_ = ci
	}
}
