package main

import (
	stdtls "crypto/tls"
	"fmt"
	"io"
	"sync"

	"github.com/tjfoc/gmsm/gmtls"
)

// Very long sessions against the standard library's TLS stack: 66000 records (thorough: 140000) in each direction on one
// connection, in both role assignments, AES-128-GCM and AES-128-CBC — past the point where the record sequence number
// needs its third byte. Two gmtls endpoints would agree with each other on any counting rule; an independent peer does not.
func runC06LongStd(c *Ctx, pki *tlsPKI) {
	rep := c.Rep
	n := c.Q(66000, 140000)
	for _, suite := range []uint16{stdtls.TLS_ECDHE_RSA_WITH_AES_128_GCM_SHA256, stdtls.TLS_RSA_WITH_AES_128_CBC_SHA} {
		for _, gmIsServer := range []bool{true, false} {
			name := fmt.Sprintf("%s/gmtls-is-server=%v", suiteName(suite), gmIsServer)
			cm, sm := newMemPair(&wireLog{}, nil)
			var a, b rw // a: gmtls end, b: stdlib end
			var hsErrA, hsErrB error
			var wg sync.WaitGroup
			wg.Add(2)
			if gmIsServer {
				sc := gmtls.Server(sm, &gmtls.Config{Certificates: []gmtls.Certificate{pki.rsaCert}, CipherSuites: []uint16{suite}, MaxVersion: gmtls.VersionTLS12, Time: func() timeT { return fixedNow }, SessionTicketsDisabled: true})
				cc := stdtls.Client(cm, &stdtls.Config{ServerName: tlsServerName, RootCAs: pki.stdRootPool, CipherSuites: []uint16{suite}, MinVersion: stdtls.VersionTLS12, MaxVersion: stdtls.VersionTLS12, Time: func() timeT { return fixedNow }})
				go func() { defer wg.Done(); hsErrA = sc.Handshake() }()
				go func() { defer wg.Done(); hsErrB = cc.Handshake() }()
				a, b = sc, cc
			} else {
				sc := stdtls.Server(sm, &stdtls.Config{Certificates: []stdtls.Certificate{pki.stdRSA}, CipherSuites: []uint16{suite}, MinVersion: stdtls.VersionTLS12, MaxVersion: stdtls.VersionTLS12, Time: func() timeT { return fixedNow }, SessionTicketsDisabled: true})
				cc := gmtls.Client(cm, &gmtls.Config{ServerName: tlsServerName, RootCAs: pki.gmStdPool, CipherSuites: []uint16{suite}, MaxVersion: gmtls.VersionTLS12, Time: func() timeT { return fixedNow }})
				go func() { defer wg.Done(); hsErrB = sc.Handshake() }()
				go func() { defer wg.Done(); hsErrA = cc.Handshake() }()
				a, b = cc, sc
			}
			wg.Wait()
			w := map[string]interface{}{"suite": suiteName(suite), "gmtls_is_server": gmIsServer, "records_each_way": n}
			if hsErrA != nil || hsErrB != nil {
				rep.Count("long_std_sessions_not_established/"+name, 1)
				rep.EvalTrivial("long-session-vs-stdlib/" + name + "/not-established")
				cm.Close()
				sm.Close()
				continue
			}
			// both directions at once, one byte per Write (one record each; the stdlib and gmtls split the first CBC write,
			// which only adds records)
			var failAt [2]int
			var failErr [2]error
			failAt[0], failAt[1] = -1, -1
			run := func(dir int, from, to rw) {
				var w2 sync.WaitGroup
				w2.Add(2)
				go func() {
					defer w2.Done()
					buf := []byte{0}
					for i := 0; i < n; i++ {
						buf[0] = byte(i*7 + dir)
						if _, err := from.Write(buf); err != nil {
							return
						}
					}
				}()
				go func() {
					defer w2.Done()
					buf := make([]byte, 1)
					for i := 0; i < n; i++ {
						if _, err := io.ReadFull(to, buf); err != nil {
							failAt[dir], failErr[dir] = i, err
							return
						}
						if buf[0] != byte(i*7+dir) {
							failAt[dir], failErr[dir] = i, fmt.Errorf("byte %d arrived as %#x", i, buf[0])
							return
						}
					}
				}()
				w2.Wait()
			}
			var w3 sync.WaitGroup
			w3.Add(2)
			go func() {
				defer w3.Done()
				run(0, a, b)
				if failAt[0] >= 0 {
					cm.Close()
					sm.Close()
				}
			}()
			go func() {
				defer w3.Done()
				run(1, b, a)
				if failAt[1] >= 0 {
					cm.Close()
					sm.Close()
				}
			}()
			w3.Wait()
			cm.Close()
			sm.Close()
			for dir, who := range []string{"gmtls-writes/stdlib-reads", "stdlib-writes/gmtls-reads"} {
				if failAt[dir] >= 0 {
					w["record"], w["error"] = failAt[dir], fmt.Sprint(failErr[dir])
					rep.Violation("C06/long-session-vs-stdlib/"+who+"/stream-breaks", fmt.Sprintf("%s: after %d one-byte records: %v", name, failAt[dir], failErr[dir]), w)
				}
			}
			rep.Eval("long-session-vs-stdlib/" + name)
		}
	}
}
