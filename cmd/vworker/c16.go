package main

import (
	"bytes"
	"encoding/hex"
	"fmt"
	"strings"
	"sync"

	"github.com/tjfoc/gmsm/gmtls"
	gx509 "github.com/tjfoc/gmsm/x509"

	"verif/mon"
	"verif/ref"
)

func init() { registry["C16"] = runC16 }

// logCache wraps the library's LRU cache: logs Get/Put and lets the harness substitute the state returned by Get.
type logCache struct {
	mu       sync.Mutex
	inner    gmtls.ClientSessionCache
	log      []string
	override func(key string, s *gmtls.ClientSessionState) *gmtls.ClientSessionState
	lastGet  *gmtls.ClientSessionState
}

func (l *logCache) Get(key string) (*gmtls.ClientSessionState, bool) {
	s, ok := l.inner.Get(key)
	l.mu.Lock()
	defer l.mu.Unlock()
	l.log = append(l.log, fmt.Sprintf("get(%s)=%v", key, ok))
	if ok && l.override != nil {
		s = l.override(key, s)
	}
	l.lastGet = s
	return s, ok
}

func (l *logCache) Put(key string, s *gmtls.ClientSessionState) {
	l.mu.Lock()
	l.log = append(l.log, fmt.Sprintf("put(%s,nil=%v)", key, s == nil))
	l.mu.Unlock()
	l.inner.Put(key, s)
}

type c16Server struct {
	cfg      *gmtls.Config
	keys     [][32]byte // current ticket keys, first = issuing key
	suites   []uint16
	auth     gmtls.ClientAuthType
	disabled bool
	gen      int // configuration generation: bumped by any change other than adding a new first key while keeping old ones
	name     string
	dnsName  string // the name the client asks for and this server's certificates are issued to
	leafRaw  []byte // the certificate a client must see as PeerCertificates[0]
}

type c16Ticket struct {
	server   int
	key      [32]byte
	suite    uint16
	version  uint16
	hadCerts bool
	gen      int
	master   []byte
	conn     int
	srvCerts [][]byte
}

func runC16(c *Ctx) {
	rep := c.Rep
	rep.Meta("cases: histories of up to 6 connections between one client session cache (LRU capacity 1..3, wrapped to log Get/Put) and one or two server configurations, interleaved with SetSessionTicketKeys rotations (new key in front keeping the old ones / replace all), suite-list changes, ClientAuth changes and toggling of tickets; GMSSL (both suites) and TLS 1.2; plus ticket tampering through the session-state hook: every single-byte substitution and every truncation of a ticket, each followed by a connection. Oracle: a resumption model (set of live ticket keys, registry of issued tickets with the state they carry) classifying each connection as must-resume / must-not-resume / may; both ends' DidResume agree and match the model; a resumed session decodes under the ORIGINAL master secret (passive reference decoder over the wire + the original session's key-log line); peer certificates equal the original's; no handshake error and no panic. Distinct non-trivial = distinct (mode, history op sequence class, expected outcome).",
		200, []string{"resumption model written from the property text", "ref TLCP decoder for GMSSL sessions"},
		[]string{"'may' connections (configuration changed but nothing forbids resumption) are not judged on DidResume"})
	n := c.Q(120, 12000)
	Par(n, func(i int) { runC16History(c, i) })
	runC16Tamper(c)
	runC16Scale(c)
	rep.Require("connections/must", 20)
	rep.Require("resumed_sessions_decoded_under_original_master", 10)
}

func c16MkServer(pki *tlsPKI, gm bool, r *mon.RNG, name string, klog *keyLog, stdPool *gx509.CertPool) *c16Server {
	s := &c16Server{name: name, dnsName: "srv-" + strings.ToLower(name) + ".verif.example"}
	s.cfg = &gmtls.Config{Time: func() timeT { return fixedNow }, Rand: mon.NewRNG(r.U64()), ClientCAs: pki.pool, KeyLogWriter: klog}
	both := []gx509.ExtKeyUsage{gx509.ExtKeyUsageServerAuth, gx509.ExtKeyUsageClientAuth}
	if gm {
		// every server has its own name and its own certificate pair under the common root
		sk, ek := newSM2Key(r), newSM2Key(r)
		_, sder, e1 := issueSM2(certSpec{cn: "sign " + name, serial: 100 + int64(name[0]), dns: []string{s.dnsName}, keyUsage: gx509.KeyUsageDigitalSignature, eku: both}, &sk.PublicKey, pki.root, pki.rootKey, r)
		_, eder, e2 := issueSM2(certSpec{cn: "enc " + name, serial: 200 + int64(name[0]), dns: []string{s.dnsName}, keyUsage: gx509.KeyUsageKeyEncipherment | gx509.KeyUsageDataEncipherment | gx509.KeyUsageKeyAgreement, eku: both}, &ek.PublicKey, pki.root, pki.rootKey, r)
		if e1 != nil || e2 != nil {
			return nil
		}
		s.cfg.GMSupport = gmtls.NewGMSupport()
		s.cfg.Certificates = []gmtls.Certificate{{Certificate: [][]byte{sder}, PrivateKey: sk}, {Certificate: [][]byte{eder}, PrivateKey: ek}}
		s.leafRaw = sder
		s.suites = []uint16{gmtls.GMTLS_ECC_SM4_CBC_SM3, gmtls.GMTLS_ECC_SM4_GCM_SM3}
	} else {
		rk, _ := cachedRSA()
		_, der, err := issueStd(s.dnsName, 300+int64(name[0]), true, []string{s.dnsName}, &rk.PublicKey, nil, rk, r)
		if err != nil {
			return nil
		}
		if cc, e := gx509.ParseCertificate(der); e == nil {
			stdPool.AddCert(cc)
		}
		s.cfg.Certificates = []gmtls.Certificate{{Certificate: [][]byte{der}, PrivateKey: rk}}
		s.leafRaw = der
		s.suites = []uint16{gmtls.TLS_ECDHE_RSA_WITH_AES_128_GCM_SHA256, gmtls.TLS_RSA_WITH_AES_128_CBC_SHA}
		s.cfg.MinVersion = gmtls.VersionTLS10
		// the server's highest version may lie below what the client offers (TLS 1.2): the session then lives at the
		// negotiated version
		s.cfg.MaxVersion = []uint16{gmtls.VersionTLS12, gmtls.VersionTLS12, gmtls.VersionTLS11, gmtls.VersionTLS10}[r.Intn(4)]
		s.cfg.ClientCAs = pki.gmStdPool // standard-TLS clients present the RSA certificate (SM2 certificates have no place below TLS 1.2)
	}
	s.cfg.CipherSuites = s.suites
	var k [32]byte
	r.Fill(k[:])
	s.keys = [][32]byte{k}
	s.cfg.SetSessionTicketKeys(s.keys)
	return s
}

// c16Op is one step of a history.
type c16Op struct {
	kind string // connect | rotate-keep-old | rotate-replace-all | drop-old-keys | server-suites-narrowed | server-auth | server-tickets-toggle | client-suites-narrowed
	srv  int
	arg  int
}

// c16Plan produces the operation list of history hi: scenario templates (so that every quick run contains the sequences
// the property names: rotation keeping / dropping old keys around resumptions, evictions from a small client cache, policy
// changes between connections) with seeded filling, and free random walks.
func c16Plan(r *mon.RNG, hi, nServers int, untrustedClient bool) []c16Op {
	x := r.Intn(nServers)
	y := (x + 1) % nServers
	z := (x + 2) % nServers
	con := func(s int) c16Op { return c16Op{"connect", s, 0} }
	switch hi % 8 {
	case 0: // refresh under a new key, then retire the old key
		return []c16Op{con(x), {"rotate-keep-old", x, 0}, con(x), {"drop-old-keys", x, 0}, con(x), con(x)}
	case 1: // eviction and return
		return []c16Op{con(x), con(y), con(x), con(z), con(y), con(x)}
	case 2: // key replaced
		return []c16Op{con(x), con(x), {"rotate-replace-all", x, 0}, con(x), con(x)}
	case 3: // tickets switched off and on again
		return []c16Op{con(x), {"server-tickets-toggle", x, 0}, con(x), {"server-tickets-toggle", x, 0}, con(x), con(x)}
	case 5: // one member of a farm rotates its keys; the others are unchanged and must keep resuming their own tickets
		if nServers > 1 {
			return []c16Op{con(y), con(x), {"rotate-replace-all", x, 0}, con(y), con(x), con(y)}
		}
	case 4: // client-certificate policy changes between connections
		if untrustedClient {
			// a client whose certificate the server does not trust: welcome under the policies that do not verify, then
			// the policy is tightened — neither a resumption nor a full handshake may succeed from then on
			lax := 1 + r.Intn(2) // request | require-any
			return []c16Op{{"server-auth", x, lax}, con(x), con(x), {"server-auth", x, 3}, con(x), {"server-auth", x, 4}, con(x), {"server-auth", x, lax}, con(x)}
		}
		return []c16Op{con(x), {"server-auth", x, r.Intn(5)}, con(x), {"server-auth", x, r.Intn(5)}, con(x)}
	}
	var ops []c16Op
	n := 0
	for step := 0; step < 10 && n < 6; step++ {
		k := r.Intn(11)
		s := r.Intn(nServers)
		switch {
		case step == 0 || k >= 7:
			ops = append(ops, con(s))
			n++
		case k == 0:
			ops = append(ops, c16Op{"rotate-keep-old", s, 0})
		case k == 1:
			ops = append(ops, c16Op{"rotate-replace-all", s, 0})
		case k == 2:
			ops = append(ops, c16Op{"server-suites-narrowed", s, 0})
		case k == 3:
			ops = append(ops, c16Op{"server-auth", s, r.Intn(5)})
		case k == 4:
			ops = append(ops, c16Op{"server-tickets-toggle", s, 0})
		case k == 5:
			ops = append(ops, c16Op{"client-suites-narrowed", 0, 0})
		case k == 6:
			ops = append(ops, c16Op{"drop-old-keys", s, 0})
		}
	}
	return ops
}

func runC16History(c *Ctx, hi int) {
	rep := c.Rep
	r := c.Rng(fmt.Sprintf("hist%d", hi))
	gm := hi%3 != 2
	pki, err := newTLSPKI(r, gm) // GMSSL histories also need a second, untrusted PKI (same root name, other keys)
	if err != nil {
		return
	}
	klog := &keyLog{}
	stdPool := gx509.NewCertPool()
	nServers := 1 + r.Intn(3)
	// the eviction template is only an eviction with more names than the cache holds, and a wrongly kept entry only shows
	// when the server behind the other name can open the ticket: those histories get what they need, not what the dice say
	evictionTemplate := hi%8 == 1
	if evictionTemplate {
		nServers = 2 + (hi/8)%2
	}
	var servers []*c16Server
	for i := 0; i < nServers; i++ {
		sv := c16MkServer(pki, gm, r, string(rune('A'+i)), klog, stdPool)
		if sv == nil {
			rep.Violation("C16/harness/server-identity", "cannot issue certificates", nil)
			return
		}
		servers = append(servers, sv)
	}
	farm := nServers > 1 && r.Intn(2) == 0
	if evictionTemplate {
		farm = (hi/32)%4 != 3 // most with shared ticket keys; a different digit of hi than the two above
	}
	if farm { // a server farm: different certificates, shared ticket keys
		for i, sv := range servers[1:] {
			sv.keys = append([][32]byte{}, servers[0].keys...)
			if (hi+i)%2 == 0 {
				sv.cfg.SetSessionTicketKeys(sv.keys)
			} else {
				// the member is made by copying the first member's configuration (Config.Clone) and giving it its own
				// identity: the copy owns its ticket keys from then on
				nc := servers[0].cfg.Clone()
				nc.Certificates, nc.Rand = sv.cfg.Certificates, sv.cfg.Rand
				sv.cfg = nc
			}
		}
	}
	// how the FIRST key of a server came to be: installed through SetSessionTicketKeys (above), given in the
	// SessionTicketKey field, or generated by the library on first use. Once SetSessionTicketKeys replaces it, a ticket made
	// under it is as dead as one under any other retired key.
	if !farm {
		for si, sv := range servers {
			switch (hi + si) % 6 {
			case 1: // the SessionTicketKey field
				nc := sv.cfg.Clone()
				var k [32]byte
				r.Fill(k[:])
				fresh := &gmtls.Config{Time: nc.Time, Rand: nc.Rand, ClientCAs: nc.ClientCAs, KeyLogWriter: nc.KeyLogWriter, GMSupport: nc.GMSupport, Certificates: nc.Certificates,
					CipherSuites: nc.CipherSuites, MinVersion: nc.MinVersion, MaxVersion: nc.MaxVersion, SessionTicketKey: k}
				sv.cfg, sv.keys = fresh, [][32]byte{k}
				rep.Count("servers_whose_first_ticket_key_is_the_SessionTicketKey_field", 1)
			case 3: // generated by the library
				nc := sv.cfg.Clone()
				fresh := &gmtls.Config{Time: nc.Time, Rand: nc.Rand, ClientCAs: nc.ClientCAs, KeyLogWriter: nc.KeyLogWriter, GMSupport: nc.GMSupport, Certificates: nc.Certificates,
					CipherSuites: nc.CipherSuites, MinVersion: nc.MinVersion, MaxVersion: nc.MaxVersion}
				sv.cfg, sv.keys = fresh, [][32]byte{c16AutoKey}
				rep.Count("servers_whose_first_ticket_key_is_generated_by_the_library", 1)
			}
		}
	}
	auths := []gmtls.ClientAuthType{gmtls.NoClientCert, gmtls.RequestClientCert, gmtls.RequireAnyClientCert, gmtls.RequireAndVerifyClientCert, gmtls.VerifyClientCertIfGiven}
	needsCert := func(a gmtls.ClientAuthType) bool {
		return a == gmtls.RequireAnyClientCert || a == gmtls.RequireAndVerifyClientCert
	}
	verifiesCert := func(a gmtls.ClientAuthType) bool {
		return a == gmtls.VerifyClientCertIfGiven || a == gmtls.RequireAndVerifyClientCert
	}
	withClientCert := r.Intn(2) == 0
	// in some GMSSL histories the client's certificate is not one the server trusts (issued by a CA of the same name with
	// another key): fine under the policies that do not verify, fatal under those that do — on a resumed session too
	untrustedClient := withClientCert && gm && pki.other != nil && r.Intn(3) == 0
	if hi%8 == 4 && gm && pki.other != nil && (hi/8)%2 == 0 {
		withClientCert, untrustedClient = true, true // the policy-tightening scenario of c16Plan
	}
	for _, sv := range servers {
		if r.Intn(2) == 0 {
			sv.auth = auths[r.Intn(5)]
			if !withClientCert && needsCert(sv.auth) {
				sv.auth = gmtls.RequestClientCert
			}
			sv.cfg.ClientAuth = sv.auth
		}
	}
	capacity := 1 + r.Intn(3)
	if evictionTemplate {
		capacity = 1 + (hi/16)%2
		if capacity >= nServers {
			capacity = nServers - 1
		}
		rep.Count(fmt.Sprintf("eviction_histories/servers=%d/capacity=%d/shared_ticket_keys=%v", nServers, capacity, farm), 1)
	}
	cache := &logCache{inner: gmtls.NewLRUClientSessionCache(capacity)}
	cliSuites := append([]uint16{}, servers[0].suites...)
	tickets := map[string]*c16Ticket{}
	var ops []string
	nConn := 0
	certlessSessions := 0 // completed connections in which the server saw no client certificate
	for _, op := range c16Plan(r, hi, nServers, untrustedClient) {
		si := op.srv
		s := servers[si]
		newKey := func() (k [32]byte) { r.Fill(k[:]); return }
		reconf := func(f func(nc *gmtls.Config)) {
			// a fresh Config value sharing the ticket keys (a Config must not be mutated while in use)
			s.gen++
			nc := s.cfg.Clone()
			f(nc)
			if len(c16InstallableKeys(s.keys)) == len(s.keys) {
				nc.SetSessionTicketKeys(s.keys)
			} // else: the copy keeps the library-generated key of the original (Clone carries it over)
			s.cfg = nc
		}
		switch op.kind {
		case "rotate-keep-old":
			s.keys = append([][32]byte{newKey()}, c16InstallableKeys(s.keys)...)
			s.cfg.SetSessionTicketKeys(s.keys)
			ops = append(ops, "rotate-keep-old("+s.name+")")
			continue
		case "rotate-replace-all":
			s.keys = [][32]byte{newKey()}
			s.cfg.SetSessionTicketKeys(s.keys)
			ops = append(ops, "rotate-replace-all("+s.name+")")
			continue
		case "drop-old-keys":
			if len(s.keys) > 1 {
				s.keys = c16InstallableKeys(s.keys[:1])
				s.cfg.SetSessionTicketKeys(s.keys)
				ops = append(ops, "drop-old-keys("+s.name+")")
			}
			continue
		case "server-suites-narrowed":
			s.suites = []uint16{s.suites[len(s.suites)-1]}
			reconf(func(nc *gmtls.Config) { nc.CipherSuites = s.suites })
			ops = append(ops, "server-suites-narrowed("+s.name+")")
			continue
		case "server-auth":
			s.auth = auths[op.arg%5]
			reconf(func(nc *gmtls.Config) { nc.ClientAuth = s.auth })
			ops = append(ops, fmt.Sprintf("server-auth=%s(%s)", authName(s.auth), s.name))
			continue
		case "server-tickets-toggle":
			s.disabled = !s.disabled
			reconf(func(nc *gmtls.Config) { nc.SessionTicketsDisabled = s.disabled })
			ops = append(ops, fmt.Sprintf("server-tickets-disabled=%v(%s)", s.disabled, s.name))
			continue
		case "client-suites-narrowed":
			if len(cliSuites) > 1 {
				cliSuites = cliSuites[:1]
				ops = append(ops, "client-suites-narrowed")
			}
			continue
		}
		// ---- a connection to server si
		nConn++
		ops = append(ops, "connect("+s.name+")")
		ccfg := &gmtls.Config{ServerName: s.dnsName, CipherSuites: cliSuites, Time: func() timeT { return fixedNow }, Rand: mon.NewRNG(r.U64()), ClientSessionCache: cache, KeyLogWriter: klog}
		if gm {
			ccfg.GMSupport, ccfg.RootCAs = gmtls.NewGMSupport(), pki.pool
		} else {
			ccfg.RootCAs, ccfg.MinVersion, ccfg.MaxVersion = stdPool, gmtls.VersionTLS10, gmtls.VersionTLS12
		}
		if withClientCert {
			ccfg.Certificates = []gmtls.Certificate{pki.cliSig, pki.cliEnc}
			if untrustedClient {
				ccfg.Certificates = []gmtls.Certificate{pki.other.cliSig, pki.other.cliEnc}
			}
			if !gm {
				ccfg.Certificates = []gmtls.Certificate{pki.rsaCert}
			}
		}
		out := handshakePair(ccfg, s.cfg, nil)
		w := map[string]interface{}{"history": append([]string{}, ops...), "mode": map[bool]string{true: "GMSSL", false: "TLS"}[gm], "cache_capacity": capacity, "servers": nServers, "shared_ticket_keys": farm, "client_certificate": withClientCert, "client_certificate_untrusted": untrustedClient, "client_error": errStr(out.cli.err), "server_error": errStr(out.srv.err), "cache_log": append([]string{}, cache.log...)}
		for side, e := range map[string]*endResult{"client": &out.cli, "server": &out.srv} {
			if e.panicked != nil {
				rep.Violation("C16/Handshake/panic/"+side+"/"+e.panicked.Func, e.panicked.Value, w)
			}
		}
		// expected handshake outcome: a common suite must exist, client-cert policy must be satisfiable
		common := false
		for _, a := range cliSuites {
			for _, b := range s.suites {
				if a == b && !(tls12Only(a) && !gm && s.cfg.MaxVersion != 0 && s.cfg.MaxVersion < gmtls.VersionTLS12) {
					common = true
				}
			}
		}
		certOK := !(needsCert(s.auth) && !withClientCert) && !(verifiesCert(s.auth) && untrustedClient)
		if certOK == false && common && untrustedClient && s.auth == gmtls.VerifyClientCertIfGiven && certlessSessions > 0 {
			// the client may hold a session in which no certificate was presented: resuming it presents none, which this
			// policy allows; a full handshake presents the untrusted one and must fail. Either is correct: not judged.
			rep.EvalTrivial("history/untrusted-client-under-verify-if-given-with-a-certless-session-around(not judged)")
			if out.cli.completed && out.srv.completed {
				out.cli.conn.Close()
				out.srv.conn.Close()
			}
			continue
		}
		if !common || !certOK {
			if out.cli.completed && out.srv.completed {
				rep.Violation("C16/Handshake/completes-without-common-suite-or-required-certificate", "", w)
			}
			rep.Eval("history/expected-handshake-failure")
			continue
		}
		if !out.cli.completed || !out.srv.completed {
			rep.Violation("C16/Handshake/fails-where-resumption-or-full-handshake-must-succeed/"+map[bool]string{true: "GMSSL", false: "TLS"}[gm], fmt.Sprintf("%v / %v", out.cli.err, out.srv.err), w)
			break
		}
		cst, sst := out.cli.state, out.srv.state
		if len(sst.PeerCertificates) == 0 {
			certlessSessions++
		}
		// peer identity: resumed or not, the certificate the client reports must be the one of the server it asked for
		// (a session is cached under the name it was verified for, whatever the cache has evicted in between)
		if len(cst.PeerCertificates) == 0 || !bytes.Equal(cst.PeerCertificates[0].Raw, s.leafRaw) {
			rep.Violation(fmt.Sprintf("C16/identity/client-reports-a-certificate-of-another-server/resumed=%v", cst.DidResume), fmt.Sprintf("asked for %s", s.dnsName), w)
		} else if err := cst.PeerCertificates[0].VerifyHostname(s.dnsName); err != nil {
			rep.Violation("C16/identity/peer-certificate-not-valid-for-the-requested-name", err.Error(), w)
		}
		// what was offered / issued, from the wire
		var offered, issued []byte
		var dec *ref.Decoded
		if gm {
			dec = ref.DecodeSession(out.log.snapshot(), klog.masters(), pki.encKey.D)
			if dec.Err != "" {
				rep.Violation("C16/wire/reference-decoder-rejects", dec.Err, w)
				break
			}
			offered, issued = dec.TicketOffered, dec.TicketIssued
		} else {
			offered, issued = c16TicketsFromTLSWire(out.log.snapshot())
		}
		// ---- model
		expect := "must-not"
		var tk *c16Ticket
		if len(offered) > 0 {
			tk = tickets[hex.EncodeToString(offered)]
			switch {
			case tk == nil:
				expect = "must-not"
			case s.disabled:
				expect = "must-not"
			case !containsKey(s.keys, tk.key):
				expect = "must-not"
			case tk.version != cst.Version && cst.Version != 0 && false:
				expect = "must-not"
			case !containsSuite(cliSuites, tk.suite):
				expect = "must-not"
			case tk.hadCerts && s.auth == gmtls.NoClientCert:
				expect = "must-not"
			case !tk.hadCerts && needsCert(s.auth):
				expect = "must-not"
			case containsSuite(s.suites, tk.suite) && tk.server == si && tk.gen == s.gen:
				expect = "must"
			default:
				expect = "may"
			}
		}
		w["expected"], w["ticket_offered"], w["did_resume"] = expect, len(offered) > 0, cst.DidResume
		if cst.DidResume != sst.DidResume {
			rep.Violation("C16/ConnectionState/ends-disagree-on-DidResume", fmt.Sprintf("client %v server %v", cst.DidResume, sst.DidResume), w)
		}
		if cst.Version != sst.Version || cst.CipherSuite != sst.CipherSuite || !sameStrings(out.cli.ekm, out.srv.ekm) {
			rep.Violation("C16/ConnectionState/ends-disagree-after-"+map[bool]string{true: "resumption", false: "full-handshake"}[cst.DidResume], "", w)
		}
		switch expect {
		case "must":
			if !sst.DidResume {
				rep.Violation("C16/resumption/valid-ticket-under-unchanged-configuration-not-resumed/"+map[bool]string{true: "GMSSL", false: "TLS"}[gm], "", w)
			}
		case "must-not":
			if sst.DidResume {
				why := "no-ticket-offered"
				if len(offered) > 0 {
					switch {
					case tk == nil:
						why = "unknown-ticket"
					case s.disabled:
						why = "tickets-disabled"
					case !containsKey(s.keys, tk.key):
						why = "ticket-key-no-longer-configured"
					case !containsSuite(cliSuites, tk.suite):
						why = "suite-not-offered"
					default:
						why = "client-certificate-policy"
					}
				}
				rep.Violation("C16/resumption/resumed-although-forbidden/"+why, "", w)
			}
		}
		if sst.DidResume && tk != nil {
			// same session: version, suite, master secret, peer identity
			if cst.CipherSuite != tk.suite {
				rep.Violation("C16/resumption/suite-differs-from-original-session", fmt.Sprintf("%04x vs %04x", cst.CipherSuite, tk.suite), w)
			}
			if dec != nil {
				if !dec.Resumed || !dec.ClientFinishedOK || !dec.ServerFinishedOK {
					rep.Violation("C16/wire/resumed-session-not-GMT0024", fmt.Sprintf("resumed=%v finished %v/%v", dec.Resumed, dec.ClientFinishedOK, dec.ServerFinishedOK), w)
				} else if !bytes.Equal(dec.Master, tk.master) {
					rep.Violation("C16/resumption/traffic-not-under-the-original-master-secret", "", w)
				} else {
					rep.Count("resumed_sessions_decoded_under_original_master", 1)
				}
			}
			if len(cst.PeerCertificates) == 0 || len(tk.srvCerts) == 0 || !bytes.Equal(cst.PeerCertificates[0].Raw, tk.srvCerts[0]) {
				rep.Violation("C16/resumption/client-peer-identity-differs-from-original", "", w)
			}
			if tk.hadCerts != (len(sst.PeerCertificates) > 0) {
				rep.Violation("C16/resumption/server-view-of-client-identity-differs-from-original", "", w)
			}
		}
		// register the ticket issued in this connection
		if len(issued) > 0 {
			var master []byte
			if dec != nil {
				master = dec.Master
			}
			var sc [][]byte
			for _, pc := range cst.PeerCertificates {
				sc = append(sc, pc.Raw)
			}
			if sst.DidResume && tk != nil {
				master = tk.master
			}
			tickets[hex.EncodeToString(issued)] = &c16Ticket{server: si, key: s.keys[0], suite: cst.CipherSuite, version: cst.Version, hadCerts: len(sst.PeerCertificates) > 0, gen: s.gen, master: master, conn: nConn, srvCerts: sc}
		}
		// data still flows
		seed := r.U64()
		c06Exchange(rep, out.cli.conn, out.srv.conn, seed, 300, r, w, "C16")
		out.cli.conn.Close()
		out.srv.conn.Close()
		rep.Eval(fmt.Sprintf("history/%s/expect=%s/resumed=%v", map[bool]string{true: "GMSSL", false: "TLS"}[gm], expect, sst.DidResume))
		rep.Count("connections/"+expect, 1)
		if hi == 1 && nConn == 2 {
			rep.Sample(w)
		}
	}
	rep.Distinct("h/" + fmt.Sprint(ops))
}

func containsKey(keys [][32]byte, k [32]byte) bool {
	for _, x := range keys {
		if x == k {
			return true
		}
	}
	return false
}

func containsSuite(l []uint16, s uint16) bool {
	for _, x := range l {
		if x == s {
			return true
		}
	}
	return false
}

// c16TicketsFromTLSWire extracts the session_ticket extension of the ClientHello and the NewSessionTicket body (both cleartext
// in TLS 1.2) from a capture.
func c16TicketsFromTLSWire(events []ref.WireEvent) (offered, issued []byte) {
	var cs, ss []byte
	for _, e := range events {
		if e.FromClient {
			cs = append(cs, e.Data...)
		} else {
			ss = append(ss, e.Data...)
		}
	}
	hsOf := func(stream []byte) []byte {
		recs, _ := ref.SplitRecords(stream)
		var hs []byte
		for _, r := range recs {
			if r.Type == ref.RecCCS {
				break
			}
			if r.Type == ref.RecHandshake {
				hs = append(hs, r.Body...)
			}
		}
		return hs
	}
	walk := func(hs []byte, f func(typ byte, body []byte)) {
		for len(hs) >= 4 {
			n := int(hs[1])<<16 | int(hs[2])<<8 | int(hs[3])
			if len(hs) < 4+n {
				return
			}
			f(hs[0], hs[4:4+n])
			hs = hs[4+n:]
		}
	}
	walk(hsOf(cs), func(t byte, b []byte) {
		if t == ref.HSClientHello {
			if ch, err := ref.ParseClientHello(b); err == nil {
				offered = ch.Ticket
			}
		}
	})
	walk(hsOf(ss), func(t byte, b []byte) {
		if t == ref.HSNewSessionTicket && len(b) >= 6 {
			n := int(b[4])<<8 | int(b[5])
			if len(b) >= 6+n {
				issued = b[6 : 6+n]
			}
		}
	})
	return
}

// runC16Tamper: every single-byte substitution and every truncation of a ticket, each followed by a connection.
func runC16Tamper(c *Ctx) {
	rep := c.Rep
	for _, gm := range []bool{true, false} {
		for vi, variant := range []string{"plain", "with-client-cert"} {
			if !c.Thorough && !gm && vi == 1 {
				continue
			}
			r := c.Rng(fmt.Sprintf("tamper/%v/%s", gm, variant))
			pki, err := newTLSPKI(r, false)
			if err != nil {
				continue
			}
			klog := &keyLog{}
			stdPool := gx509.NewCertPool()
			s := c16MkServer(pki, gm, r, "A", klog, stdPool)
			if s == nil {
				continue
			}
			if !gm {
				s.cfg.MaxVersion = gmtls.VersionTLS12
			}
			if variant == "with-client-cert" {
				s.cfg.ClientAuth = gmtls.RequireAndVerifyClientCert
			}
			mode := map[bool]string{true: "GMSSL", false: "TLS"}[gm]
			mkClient := func(cache gmtls.ClientSessionCache, rr *mon.RNG) *gmtls.Config {
				ccfg := &gmtls.Config{ServerName: s.dnsName, CipherSuites: s.suites[:1], Time: func() timeT { return fixedNow }, Rand: mon.NewRNG(rr.U64()), ClientSessionCache: cache, KeyLogWriter: klog}
				if gm {
					ccfg.GMSupport, ccfg.RootCAs = gmtls.NewGMSupport(), pki.pool
				} else {
					ccfg.RootCAs, ccfg.MinVersion, ccfg.MaxVersion = stdPool, gmtls.VersionTLS12, gmtls.VersionTLS12
				}
				if variant == "with-client-cert" {
					ccfg.Certificates = []gmtls.Certificate{pki.cliSig, pki.cliEnc}
					if !gm {
						ccfg.Certificates = []gmtls.Certificate{pki.rsaCert}
					}
				}
				return ccfg
			}
			// first connection: obtain a ticket
			base := &logCache{inner: gmtls.NewLRUClientSessionCache(4)}
			out := handshakePair(mkClient(base, r), s.cfg, nil)
			if !out.cli.completed || !out.srv.completed {
				rep.Violation("C16/tamper/first-connection-fails/"+mode, fmt.Sprintf("%v / %v", out.cli.err, out.srv.err), nil)
				continue
			}
			out.cli.conn.Close()
			out.srv.conn.Close()
			var state *gmtls.ClientSessionState
			var cacheKey string
			{
				// find the cached state: probe with a second connection's Get (the wrapper records it)
				probe := handshakePair(mkClient(base, r), s.cfg, nil)
				if probe.cli.completed {
					probe.cli.conn.Close()
					probe.srv.conn.Close()
				}
				state = base.lastGet
				for _, l := range base.log {
					if len(l) > 4 && l[:4] == "get(" {
						cacheKey = l[4 : len(l)-len(")=true")]
						if l[len(l)-5:] == "false" {
							cacheKey = l[4 : len(l)-len(")=false")]
						}
					}
				}
				if state == nil || !probe.srv.state.DidResume {
					rep.Violation("C16/tamper/control-resumption-does-not-happen/"+mode+"/"+variant, fmt.Sprintf("resumed=%v state=%v", probe.srv.state.DidResume, state != nil), map[string]interface{}{"cache_log": base.log})
					continue
				}
			}
			ticket := append([]byte{}, gmtls.VerifTicketOf(state)...)
			type tj struct {
				kind string
				pos  int
				val  byte
			}
			var jobs []tj
			for p := 0; p < len(ticket); p++ {
				alts := []byte{ticket[p] ^ 0x01, ticket[p] ^ 0x80, 0x00, 0xff}
				if !c.Thorough {
					alts = alts[:1+p%2]
				}
				for _, a := range alts {
					if a != ticket[p] {
						jobs = append(jobs, tj{"substitute", p, a})
					}
				}
			}
			for l := 0; l < len(ticket); l++ {
				if c.Thorough || l%3 == 0 || l > len(ticket)-40 {
					jobs = append(jobs, tj{"truncate", l, 0})
				}
			}
			jobs = append(jobs, tj{"extend", 1, 0}, tj{"extend", 16, 0}, tj{"control", 0, 0})
			rep.Count("ticket_length/"+mode, int64(len(ticket)))
			Par(len(jobs), func(ji int) {
				j := jobs[ji]
				rr := c.Rng(fmt.Sprintf("tj/%v/%s/%d", gm, variant, ji))
				t := append([]byte{}, ticket...)
				switch j.kind {
				case "substitute":
					t[j.pos] = j.val
				case "truncate":
					t = t[:j.pos]
				case "extend":
					t = append(t, bytes.Repeat([]byte{0x5c}, j.pos)...)
				}
				// a private cache for this connection whose only entry carries the tampered ticket
				lc := &logCache{inner: gmtls.NewLRUClientSessionCache(2)}
				lc.inner.Put(cacheKey, gmtls.VerifSetTicket(state, t))
				out := handshakePair(mkClient(lc, rr), s.cfg, nil)
				region := "ciphertext"
				switch {
				case j.kind != "substitute":
					region = j.kind
				case j.pos < 16:
					region = "key-name"
				case j.pos < 32:
					region = "iv"
				case j.pos >= len(ticket)-32:
					region = "mac"
				}
				w := map[string]interface{}{"mode": mode, "variant": variant, "kind": j.kind, "position": j.pos, "value": j.val, "ticket_len": len(ticket), "client_error": errStr(out.cli.err), "server_error": errStr(out.srv.err)}
				for side, e := range map[string]*endResult{"client": &out.cli, "server": &out.srv} {
					if e.panicked != nil {
						rep.Violation("C16/tamper/panic/"+side+"/"+e.panicked.Func, e.panicked.Value, w)
					}
				}
				if j.kind == "control" {
					if !out.srv.completed || !out.srv.state.DidResume {
						rep.Violation("C16/tamper/untouched-ticket-not-resumed/"+mode, "", w)
					}
					rep.Eval("tamper/" + mode + "/control")
					return
				}
				if len(t) == 0 {
					rep.EvalTrivial("tamper/" + mode + "/empty-ticket")
					return
				}
				if out.srv.completed && out.srv.state.DidResume {
					rep.Violation("C16/tamper/resumed-with-altered-ticket/"+mode+"/"+region, fmt.Sprintf("%s at %d", j.kind, j.pos), w)
				}
				if !out.cli.completed || !out.srv.completed {
					rep.Violation("C16/tamper/no-silent-fallback-to-full-handshake/"+mode+"/"+region, fmt.Sprintf("%v / %v", out.cli.err, out.srv.err), w)
				} else {
					out.cli.conn.Close()
					out.srv.conn.Close()
				}
				rep.Eval("tamper/" + mode + "/" + variant + "/" + region)
			})
			if c.Thorough {
				rep.Exhaustive(fmt.Sprintf("%s/%s: every byte position (4 values) and every truncation length of one %d-byte ticket", mode, variant, len(ticket)))
			} else {
				rep.Exhaustive(fmt.Sprintf("%s/%s: every byte position (1-2 values) of one %d-byte ticket", mode, variant, len(ticket)))
			}
		}
	}
}

// c16AutoKey stands for "the key the library generated itself" in the model's key lists: its bytes are unknown to the
// harness, so it can be compared (a ticket made under it, a server still holding it) but never installed.
var c16AutoKey = [32]byte{0xA0, 0x70, 0xFE, 0xED}

func c16InstallableKeys(ks [][32]byte) [][32]byte {
	var out [][32]byte
	for _, k := range ks {
		if k != c16AutoKey {
			out = append(out, k)
		}
	}
	return out
}
