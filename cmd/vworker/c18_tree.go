package main

// A small DER tree for structure-preserving edits: a node is re-serialised with minimal lengths after an edit, so that
// the change reaches the code behind the outer length checks (raw byte edits mostly die at the first length mismatch).

type derNode struct {
	tag      []byte
	children []*derNode // constructed, or an OCTET/BIT STRING that wraps exactly one further encoding
	content  []byte     // primitive content
	wrapSkip int        // for BIT STRING wrappers: number of leading content bytes (the unused-bits octet)
	wrapper  bool
}

func derParse(b []byte, depth int) ([]*derNode, bool) {
	var out []*derNode
	for off := 0; off < len(b); {
		start := off
		if b[off]&0x1f == 0x1f || depth > 40 {
			return nil, false
		}
		constructed := b[off]&0x20 != 0
		off++
		if off >= len(b) {
			return nil, false
		}
		l := int(b[off])
		off++
		n := 0
		if l < 0x80 {
			n = l
		} else {
			k := l & 0x7f
			if k == 0 || k > 3 || off+k > len(b) {
				return nil, false
			}
			for i := 0; i < k; i++ {
				n = n<<8 | int(b[off+i])
			}
			off += k
		}
		if off+n > len(b) {
			return nil, false
		}
		nd := &derNode{tag: []byte{b[start]}}
		body := b[off : off+n]
		switch {
		case constructed:
			ch, ok := derParse(body, depth+1)
			if !ok {
				return nil, false
			}
			nd.children = ch
			if len(ch) == 0 {
				nd.children = []*derNode{}
			}
		case n > 2: // any primitive whose content is itself one complete encoding is descended into (OCTET / BIT STRING
			// wrappers, and oddities such as gmsm's PKCS#7 GCM parameters, which sit inside a primitive tag 0x10)
			skip := 0
			if b[start] == 0x03 {
				skip = 1
			}
			if len(body) > skip && body[skip] == 0x30 {
				if ch, ok := derParse(body[skip:], depth+1); ok && len(ch) == 1 {
					nd.children, nd.wrapper, nd.wrapSkip = ch, true, skip
					nd.content = append([]byte{}, body[:skip]...)
					break
				}
			}
			nd.content = append([]byte{}, body...)
		default:
			nd.content = append([]byte{}, body...)
		}
		out = append(out, nd)
		off += n
	}
	return out, true
}

func derLen(n int) []byte {
	switch {
	case n < 0x80:
		return []byte{byte(n)}
	case n < 0x100:
		return []byte{0x81, byte(n)}
	case n < 0x10000:
		return []byte{0x82, byte(n >> 8), byte(n)}
	default:
		return []byte{0x83, byte(n >> 16), byte(n >> 8), byte(n)}
	}
}

func (n *derNode) encode() []byte {
	var body []byte
	if n.children != nil {
		body = append(body, n.content...) // wrapper prefix (unused-bits octet) or nothing
		for _, c := range n.children {
			body = append(body, c.encode()...)
		}
	} else {
		body = n.content
	}
	return append(append(append([]byte{}, n.tag...), derLen(len(body))...), body...)
}

func derEncodeAll(ns []*derNode) []byte {
	var out []byte
	for _, n := range ns {
		out = append(out, n.encode()...)
	}
	return out
}

// derWalk lists every node (pre-order).
func derWalk(ns []*derNode, f func(n *derNode)) {
	for _, n := range ns {
		f(n)
		if n.children != nil {
			derWalk(n.children, f)
		}
	}
}

// derTreeEdits returns encodings that differ from v by one structure-preserving edit of one node.
func derTreeEdits(v []byte, protected func(content []byte) bool, maxPerKind int) [][]byte {
	root, ok := derParse(v, 0)
	if !ok || len(root) == 0 {
		return nil
	}
	var nodes []*derNode
	derWalk(root, func(n *derNode) { nodes = append(nodes, n) })
	var out [][]byte
	emit := func() { out = append(out, derEncodeAll(root)) }
	stride := 1
	if maxPerKind > 0 && len(nodes) > maxPerKind {
		stride = len(nodes)/maxPerKind + 1
	}
	for i := 0; i < len(nodes); i += stride {
		n := nodes[i]
		if n.children == nil {
			if protected != nil && protected(n.content) {
				continue
			}
			orig := n.content
			switch n.tag[0] {
			case 0x02, 0x04, 0x03, 0x0a:
				for _, k := range []int{1, 2, 3, 8, 33} { // leading zero bytes in front of the value
					n.content = append(make([]byte, k), orig...)
					emit()
				}
				n.content = append(append([]byte{}, orig...), 0)
				emit()
				n.content = append([]byte{0xff}, orig...) // negative / out-of-range lead byte
				emit()
				if n.tag[0] == 0x02 {
					// a larger POSITIVE value with the same low bytes (one and two more significant octets): what a fixed-width
					// consumer has no room for
					n.content = append([]byte{0x01}, orig...)
					emit()
					n.content = append([]byte{0x7f, 0xff}, orig...)
					emit()
				}
				if len(orig) > 1 {
					n.content = orig[1:]
					emit()
					n.content = orig[:len(orig)-1]
					emit()
				}
			}
			n.content = nil
			emit()
			n.content = []byte{0}
			emit()
			n.content = orig
		} else {
			orig := n.children
			if len(orig) > 0 {
				n.children = append([]*derNode{orig[0]}, orig...) // first child twice
				emit()
				n.children = orig[:len(orig)-1] // last child dropped
				if len(n.children) == 0 {
					n.children = []*derNode{}
				}
				emit()
				n.children = append(append([]*derNode{}, orig[1:]...), orig[0]) // rotated
				emit()
			}
			n.children = []*derNode{} // empty
			emit()
			// an optional INTEGER field the encoder never writes, inserted behind each INTEGER member (parameter blocks
			// such as PBKDF2-params, RSASSA-PSS-params or basicConstraints have them): extreme values of a field that
			// ordinary inputs lack reach code no mutation of existing bytes reaches
			if n.tag[0] == 0x30 {
				for j, ch := range orig {
					if ch.children != nil || len(ch.tag) != 1 || ch.tag[0] != 0x02 {
						continue
					}
					for _, v := range [][]byte{{0xff}, {0x00}, {0x01, 0x00, 0x00, 0x00}, {0x7f, 0xff, 0xff, 0xff, 0xff, 0xff, 0xff, 0xff}} {
						ins := &derNode{tag: []byte{0x02}, content: v}
						n.children = append(append(append([]*derNode{}, orig[:j+1]...), ins), orig[j+1:]...)
						emit()
					}
				}
			}
			n.children = orig
		}
	}
	return out
}
