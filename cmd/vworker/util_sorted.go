package main

import "sort"

// sortedKeys returns the keys of a string-keyed map in sorted order, so that case order (and witness numbering) does
// not depend on Go's randomised map iteration.
func sortedKeys[V any](m map[string]V) []string {
	ks := make([]string, 0, len(m))
	for k := range m {
		ks = append(ks, k)
	}
	sort.Strings(ks)
	return ks
}
