package main

import (
	"bytes"
	"crypto/cipher"
	"crypto/des"
	"errors"
	"fmt"
	"io"

	"github.com/tjfoc/gmsm/sm4"
	"github.com/tjfoc/gmsm/sm4/padding"

	"verif/mon"
	"verif/ref"
)

func init() { registry["C19"] = runC19 }

var errScripted = errors.New("scripted source failure")

// scriptSrc is an io.Reader whose chunking is scripted.
type scriptSrc struct {
	data        []byte
	pos         int
	plan        []int // chunk sizes; 0 = a zero-byte read with nil error
	pi          int
	eofWithData bool
	failAt      int // -1: never
	calls       int
}

func (s *scriptSrc) Read(p []byte) (int, error) {
	s.calls++
	if s.failAt >= 0 && s.pos >= s.failAt {
		return 0, errScripted
	}
	if s.pos == len(s.data) {
		return 0, io.EOF
	}
	if len(p) == 0 {
		return 0, nil
	}
	n := s.plan[s.pi%len(s.plan)]
	s.pi++
	if n == 0 {
		return 0, nil
	}
	if n > len(p) {
		n = len(p)
	}
	if n > len(s.data)-s.pos {
		n = len(s.data) - s.pos
	}
	if s.failAt >= 0 && s.pos+n > s.failAt {
		n = s.failAt - s.pos
	}
	copy(p, s.data[s.pos:s.pos+n])
	s.pos += n
	if s.pos == len(s.data) && s.eofWithData {
		return n, io.EOF
	}
	return n, nil
}

type srcStyle struct {
	name        string
	plan        func(r *mon.RNG) []int
	eofWithData bool
}

var srcStyles = []srcStyle{
	{"full", func(r *mon.RNG) []int { return []int{1 << 20} }, false},
	{"full+eof-with-data", func(r *mon.RNG) []int { return []int{1 << 20} }, true},
	{"one-byte", func(r *mon.RNG) []int { return []int{1} }, false},
	{"one-byte+eof-with-data", func(r *mon.RNG) []int { return []int{1} }, true},
	{"short-reads", func(r *mon.RNG) []int {
		p := make([]int, 1+r.Intn(6))
		for i := range p {
			p[i] = 1 + r.Intn(40)
		}
		return p
	}, false},
	{"short-reads+eof-with-data", func(r *mon.RNG) []int {
		p := make([]int, 1+r.Intn(6))
		for i := range p {
			p[i] = 1 + r.Intn(300)
		}
		return p
	}, true},
	{"zero-byte-reads", func(r *mon.RNG) []int { return []int{0, 5, 0, 0, 17, 1 + r.Intn(64)} }, false},
	{"block-aligned-chunks", func(r *mon.RNG) []int { return []int{16, 32, 8} }, false},
}

// writeRecorder is the underlying writer of the un-padding writer.
type writeRecorder struct {
	buf    bytes.Buffer
	writes int
}

func (w *writeRecorder) Write(p []byte) (int, error) {
	w.writes++
	return w.buf.Write(p)
}

func runC19(c *Ctx) {
	rep := c.Rep
	rep.Meta("cases: PKCS7PaddingReader over scripted sources (full, one-byte, short non-EOF reads, zero-byte reads, data returned together with EOF, error mid-stream) x caller buffer sizes 1..4096 x source lengths (0..70 exhaustive, classes to 5000) x block sizes {8,16}; PKCS7PaddingWriter fed by write-size plans 1..8192 and every invalid final-block pattern; P7BlockEnc/P7BlockDecrypt over CBC(ref SM4), CBC(gmsm SM4) and CBC(DES) with scripted sources. Oracle: reference pad function and reference CBC; Read-call budget for bounded progress. Distinct non-trivial = distinct (component, source style, length class, buffer class, block size).",
		3000, []string{"ref PKCS#7 pad/unpad", "crypto/cipher CBC over ref SM4"}, nil)

	lenList := func() []int {
		var l []int
		for n := 0; n <= 70; n++ {
			l = append(l, n)
		}
		for _, n := range []int{127, 128, 129, 255, 256, 1000, 1023, 1024, 1025, 2047, 2048, 2049, 4096, 4999, 5000} {
			l = append(l, n)
		}
		if c.Thorough {
			for n := 71; n <= 5000; n += 7 {
				l = append(l, n)
			}
		}
		return l
	}()
	bufSizes := []int{1, 2, 3, 7, 8, 15, 16, 17, 31, 64, 100, 1000, 1024, 4096}
	lcls := func(n, bs int) string {
		switch {
		case n == 0:
			return "0"
		case n%bs == 0:
			return "k*bs"
		case n < bs:
			return "<bs"
		case n > 1024:
			return ">1024"
		default:
			return "k*bs+r"
		}
	}

	// ---- reader
	type rcase struct {
		n, bs, buf int
		style      srcStyle
		seed       uint64
	}
	var rcs []rcase
	rs := c.Rng("reader")
	for _, n := range lenList {
		for _, bs := range []int{8, 16} {
			for si, st := range srcStyles {
				reps := 1
				if c.Thorough {
					reps = 3
				}
				for k := 0; k < reps; k++ {
					rcs = append(rcs, rcase{n, bs, bufSizes[(n+si+k*5+bs)%len(bufSizes)], st, rs.U64()})
				}
			}
		}
	}
	Par(len(rcs), func(i int) {
		rc := rcs[i]
		r := mon.NewRNG(rc.seed)
		data := r.Bytes(rc.n)
		src := &scriptSrc{data: data, plan: rc.style.plan(r), eofWithData: rc.style.eofWithData, failAt: -1}
		want := ref.PKCS7Pad(data, rc.bs)
		cls := fmt.Sprintf("reader/%s/len=%s/buf=%d/bs=%d", rc.style.name, lcls(rc.n, rc.bs), rc.buf, rc.bs)
		w := map[string]interface{}{"source_len": rc.n, "block": rc.bs, "caller_buf": rc.buf, "style": rc.style.name, "plan": src.plan, "data": mon.Hex(data)}
		var got []byte
		calls, budget := 0, (rc.n+rc.bs)*4+2000
		varBuf := rc.buf == 100 // vary the caller's buffer size within one stream
		var rerr error
		pi := mon.Guard(func() {
			pr := padding.NewPKCS7PaddingReader(src, rc.bs)
			for calls < budget {
				bl := rc.buf
				if varBuf {
					bl = 1 + r.Intn(200)
				}
				buf := make([]byte, bl)
				n, err := pr.Read(buf)
				calls++
				if n < 0 || n > len(buf) {
					rerr = fmt.Errorf("Read returned n=%d for a %d-byte buffer", n, len(buf))
					return
				}
				got = append(got, buf[:n]...)
				if err == io.EOF {
					// EOF must be sticky
					if n2, e2 := pr.Read(buf); n2 != 0 || e2 != io.EOF {
						rerr = fmt.Errorf("Read after EOF returned (%d,%v)", n2, e2)
					}
					return
				}
				if err != nil {
					rerr = err
					return
				}
			}
			rerr = fmt.Errorf("no EOF within %d Read calls", budget)
		})
		switch {
		case pi != nil:
			rep.Violation("C19/PaddingReader/panic/"+pi.Func+"/"+rc.style.name, pi.Value, w)
		case rerr != nil:
			rep.Violation("C19/PaddingReader/error-or-no-progress/"+rc.style.name, rerr.Error(), w)
		case !bytes.Equal(got, want):
			sym := "output-mismatch"
			if len(got) > len(want) {
				sym = "pad-inserted-mid-stream-or-extra-bytes"
			}
			rep.Violation("C19/PaddingReader/"+sym+"/"+rc.style.name, fmt.Sprintf("len=%d bs=%d buf=%d: got %d bytes want %d; got %s want %s", rc.n, rc.bs, rc.buf, len(got), len(want), mon.Hex(tailB(got, 40)), mon.Hex(tailB(want, 40))), w)
		}
		rep.Eval(cls)
		if i == 100 {
			rep.Sample(w)
		}
	})
	// error mid-stream must surface
	Par(c.Q(200, 3000), func(i int) {
		r := c.Rng(fmt.Sprintf("rerr%d", i))
		n := 1 + r.Intn(300)
		data := r.Bytes(n)
		failAt := r.Intn(n)
		src := &scriptSrc{data: data, plan: []int{1 + r.Intn(50)}, failAt: failAt}
		w := map[string]interface{}{"source_len": n, "fail_at": failAt}
		var got []byte
		var rerr error
		pi := mon.Guard(func() {
			pr := padding.NewPKCS7PaddingReader(src, 16)
			for k := 0; k < 5000; k++ {
				buf := make([]byte, 1+r.Intn(64))
				m, err := pr.Read(buf)
				got = append(got, buf[:m]...)
				if err != nil {
					rerr = err
					return
				}
			}
		})
		if pi != nil {
			rep.Violation("C19/PaddingReader/panic/"+pi.Func+"/source-error", pi.Value, w)
		} else if rerr != errScripted {
			rep.Violation("C19/PaddingReader/source-error-not-reported", fmt.Sprintf("got error %v after %d bytes", rerr, len(got)), w)
		} else if !bytes.HasPrefix(data, got) {
			rep.Violation("C19/PaddingReader/bytes-before-error-not-a-prefix", "", w)
		}
		rep.Eval("reader/source-error")
	})

	// ---- writer
	type wcase struct {
		n, bs int
		seed  uint64
		mode  int
	}
	var wcs []wcase
	ws := c.Rng("writer")
	for _, n := range lenList {
		for _, bs := range []int{8, 16} {
			for mode := 0; mode < 5; mode++ {
				wcs = append(wcs, wcase{n, bs, ws.U64(), mode})
			}
		}
	}
	Par(len(wcs), func(i int) {
		wc := wcs[i]
		r := mon.NewRNG(wc.seed)
		data := r.Bytes(wc.n)
		padded := ref.PKCS7Pad(data, wc.bs)
		modeName := []string{"one-write", "1-byte-writes", "random-writes<=100", "large-writes<=8192", "writes-around-the-1KiB-swap-area"}[wc.mode]
		cls := fmt.Sprintf("writer/%s/len=%s/bs=%d", modeName, lcls(wc.n, wc.bs), wc.bs)
		w := map[string]interface{}{"len": wc.n, "block": wc.bs, "write_mode": modeName, "data": mon.Hex(data)}
		rec := &writeRecorder{}
		var ferr error
		var sizes []int
		var scratch []byte
		w["write_buffer_reused_and_overwritten"] = i%2 == 1
		pi := mon.Guard(func() {
			pw := padding.NewPKCS7PaddingWriter(rec, wc.bs)
			for off := 0; off < len(padded); {
				var sz int
				switch wc.mode {
				case 0:
					sz = len(padded)
				case 1:
					sz = 1
				case 2:
					sz = 1 + r.Intn(100)
				case 3:
					sz = 1 + r.Intn(8192)
				default:
					// a fixed cycle, rotated per case: single writes just above, at and below the writer's 1 KiB swap area, aligned
					// to the block size and not
					edge := []int{1025, 1029, 1500, 1023, 1024, 1027, 976, 2049, 17, 1040, 3000}
					sz = edge[(len(sizes)+i)%len(edge)]
				}
				if off+sz > len(padded) {
					sz = len(padded) - off
				}
				sizes = append(sizes, sz)
				chunk := padded[off : off+sz]
				if i%2 == 1 {
					// an io.Writer must not keep p: odd cases write from one scratch buffer that is overwritten right after
					// each Write returns (what a copy loop does)
					if cap(scratch) < sz {
						scratch = make([]byte, sz)
					}
					chunk = scratch[:sz]
					copy(chunk, padded[off:off+sz])
				}
				m, err := pw.Write(chunk)
				if i%2 == 1 {
					for j := range chunk {
						chunk[j] = 0xEE
					}
				}
				if err != nil || m != sz {
					ferr = fmt.Errorf("Write(%d bytes) returned (%d,%v)", sz, m, err)
					return
				}
				off += sz
			}
			ferr = pw.Final()
		})
		if len(sizes) > 20 {
			sizes = sizes[:20]
		}
		w["write_sizes_head"] = sizes
		switch {
		case pi != nil:
			sym := "write<=1024"
			for _, s := range sizes {
				if s > 1024 {
					sym = "write>1024"
				}
			}
			rep.Violation("C19/PaddingWriter/panic/"+pi.Func+"/"+sym, pi.Value, w)
		case ferr != nil:
			rep.Violation("C19/PaddingWriter/error-on-valid-stream", ferr.Error(), w)
		case !bytes.Equal(rec.buf.Bytes(), data):
			rep.Violation("C19/PaddingWriter/output-mismatch/"+modeName, fmt.Sprintf("got %d bytes want %d", rec.buf.Len(), len(data)), w)
		}
		rep.Eval(cls)
	})
	// invalid final blocks
	for _, bs := range []int{8, 16} {
		type bad struct {
			name string
			blk  []byte
		}
		var bads []bad
		mk := func(f func(b []byte)) []byte {
			b := bytes.Repeat([]byte{0x41}, bs)
			f(b)
			return b
		}
		bads = append(bads, bad{"pad-byte-0", mk(func(b []byte) { b[bs-1] = 0 })})
		for v := bs + 1; v < 256; v += 1 + v/17 {
			v := v
			bads = append(bads, bad{"pad-byte>block", mk(func(b []byte) { b[bs-1] = byte(v) })})
		}
		bads = append(bads, bad{"pad-byte=255", mk(func(b []byte) { b[bs-1] = 255 })})
		for p := 2; p <= bs; p++ {
			for wrong := 1; wrong < p; wrong++ {
				p, wrong := p, wrong
				bads = append(bads, bad{"inconsistent-pad-bytes", mk(func(b []byte) {
					for k := 0; k < p; k++ {
						b[bs-1-k] = byte(p)
					}
					b[bs-1-wrong] ^= 0x01
				})})
			}
		}
		for _, prefixBlocks := range []int{0, 1, 3} {
			for bi, bd := range bads {
				stream := append(bytes.Repeat([]byte{0x42}, prefixBlocks*bs), bd.blk...)
				rec := &writeRecorder{}
				var ferr error
				pi := mon.Guard(func() {
					pw := padding.NewPKCS7PaddingWriter(rec, bs)
					pw.Write(stream)
					ferr = pw.Final()
				})
				w := map[string]interface{}{"block": bs, "pattern": bd.name, "final_block": mon.Hex(bd.blk), "prefix_blocks": prefixBlocks}
				if pi != nil {
					rep.Violation("C19/PaddingWriter/panic/"+pi.Func+"/invalid-final-block", pi.Value, w)
				} else if ferr == nil {
					rep.Violation("C19/PaddingWriter.Final/accepts-invalid-pad/"+bd.name, fmt.Sprintf("final block %x accepted, %d bytes emitted", bd.blk, rec.buf.Len()), w)
				}
				rep.Eval(fmt.Sprintf("writer/invalid-final/%s/bs=%d", bd.name, bs))
				_ = bi
			}
		}
		// stream lengths that are not a positive multiple of the block size
		for _, l := range []int{0, 1, bs - 1, bs + 1, 2*bs - 1, 3*bs + 5} {
			stream := bytes.Repeat([]byte{byte(bs)}, l) // every byte looks like a full-block pad byte
			rec := &writeRecorder{}
			var ferr error
			pi := mon.Guard(func() {
				pw := padding.NewPKCS7PaddingWriter(rec, bs)
				pw.Write(stream)
				ferr = pw.Final()
			})
			w := map[string]interface{}{"block": bs, "stream_len": l}
			if pi != nil {
				rep.Violation("C19/PaddingWriter/panic/"+pi.Func+"/unaligned-stream", pi.Value, w)
			} else if ferr == nil {
				cls := "unaligned"
				if l == 0 {
					cls = "empty"
				}
				rep.Violation("C19/PaddingWriter.Final/accepts-"+cls+"-stream", fmt.Sprintf("stream of %d bytes (block %d) accepted", l, bs), w)
			}
			rep.Eval(fmt.Sprintf("writer/unaligned/len=%d/bs=%d", l, bs))
		}
	}

	// ---- block helpers
	type cipherKind struct {
		name string
		bs   int
		mk   func(key []byte) cipher.Block
		refB func(key []byte) cipher.Block
	}
	kinds := []cipherKind{
		{"cbc(ref-sm4)", 16, func(k []byte) cipher.Block { b, _ := ref.NewSM4(k); return b }, nil},
		{"cbc(gmsm-sm4)", 16, func(k []byte) cipher.Block { b, _ := sm4.NewCipher(k); return b }, nil},
		{"cbc(des)", 8, func(k []byte) cipher.Block { b, _ := des.NewCipher(k[:8]); return b }, func(k []byte) cipher.Block { b, _ := des.NewCipher(k[:8]); return b }},
	}
	type bcase struct {
		n     int
		kind  cipherKind
		style srcStyle
		seed  uint64
	}
	var bcs []bcase
	bsr := c.Rng("block")
	for _, n := range lenList {
		for ki, k := range kinds {
			st := srcStyles[(n+ki)%len(srcStyles)]
			bcs = append(bcs, bcase{n, k, st, bsr.U64()})
			if c.Thorough || n%5 == 0 {
				bcs = append(bcs, bcase{n, k, srcStyles[(n+ki+3)%len(srcStyles)], bsr.U64()})
			}
		}
	}
	Par(len(bcs), func(i int) {
		bc := bcs[i]
		r := mon.NewRNG(bc.seed)
		key, iv := r.Bytes(16), r.Bytes(bc.kind.bs)
		data := r.Bytes(bc.n)
		refBlk := bc.kind.mk(key)
		if bc.kind.name == "cbc(gmsm-sm4)" {
			refBlk, _ = ref.NewSM4(key)
		}
		padded := ref.PKCS7Pad(data, bc.kind.bs)
		wantCT := make([]byte, len(padded))
		cipher.NewCBCEncrypter(refBlk, iv).CryptBlocks(wantCT, padded)
		cls := fmt.Sprintf("block/%s/%s/len=%s", bc.kind.name, bc.style.name, lcls(bc.n, bc.kind.bs))
		w := map[string]interface{}{"cipher": bc.kind.name, "len": bc.n, "style": bc.style.name, "key": mon.Hex(key), "iv": mon.Hex(iv), "data": mon.Hex(data)}
		// encrypt
		var encOut bytes.Buffer
		var err error
		src := &scriptSrc{data: data, plan: bc.style.plan(r), eofWithData: bc.style.eofWithData, failAt: -1}
		w["plan"] = src.plan
		if pi := mon.Guard(func() { err = padding.P7BlockEnc(cipher.NewCBCEncrypter(bc.kind.mk(key), iv), src, &encOut) }); pi != nil {
			rep.Violation("C19/P7BlockEnc/panic/"+pi.Func+"/"+bc.style.name, pi.Value, w)
		} else if err != nil {
			rep.Violation("C19/P7BlockEnc/error/"+bc.style.name, err.Error(), w)
		} else if !bytes.Equal(encOut.Bytes(), wantCT) {
			rep.Violation("C19/P7BlockEnc/ciphertext-mismatch/"+bc.style.name, fmt.Sprintf("len=%d got %d bytes want %d", bc.n, encOut.Len(), len(wantCT)), w)
		}
		// decrypt the reference ciphertext, fed through a scripted source
		var decOut bytes.Buffer
		csrc := &scriptSrc{data: wantCT, plan: bc.style.plan(r), eofWithData: bc.style.eofWithData, failAt: -1}
		if pi := mon.Guard(func() { err = padding.P7BlockDecrypt(cipher.NewCBCDecrypter(bc.kind.mk(key), iv), csrc, &decOut) }); pi != nil {
			rep.Violation("C19/P7BlockDecrypt/panic/"+pi.Func+"/"+bc.style.name, pi.Value, w)
		} else if err != nil {
			rep.Violation("C19/P7BlockDecrypt/error-on-valid-stream/"+bc.style.name, err.Error(), w)
		} else if !bytes.Equal(decOut.Bytes(), data) {
			rep.Violation("C19/P7BlockDecrypt/plaintext-mismatch/"+bc.style.name, fmt.Sprintf("len=%d got %d bytes", bc.n, decOut.Len()), w)
		}
		// invalid final block: encrypt a stream whose last block is not a valid pad
		if i%3 == 0 {
			bad := append([]byte{}, padded...)
			switch r.Intn(3) {
			case 0:
				bad[len(bad)-1] = 0
			case 1:
				bad[len(bad)-1] = byte(bc.kind.bs + 1 + r.Intn(100))
			default:
				// inconsistent: claim a pad of bs bytes but differing content
				bad[len(bad)-1] = byte(bc.kind.bs)
				bad[len(bad)-bc.kind.bs] = 0x00
				bad[len(bad)-2] = 0x7e
			}
			badCT := make([]byte, len(bad))
			cipher.NewCBCEncrypter(refBlk, iv).CryptBlocks(badCT, bad)
			var out bytes.Buffer
			if pi := mon.Guard(func() {
				err = padding.P7BlockDecrypt(cipher.NewCBCDecrypter(bc.kind.mk(key), iv), bytes.NewReader(badCT), &out)
			}); pi != nil {
				rep.Violation("C19/P7BlockDecrypt/panic/"+pi.Func+"/invalid-final-block", pi.Value, w)
			} else if err == nil {
				rep.Violation("C19/P7BlockDecrypt/accepts-invalid-final-block", fmt.Sprintf("final plaintext block %x", bad[len(bad)-bc.kind.bs:]), w)
			}
			rep.Eval("block/invalid-final/" + bc.kind.name)
		}
		rep.Eval(cls)
	})
}

func tailB(b []byte, n int) []byte {
	if len(b) > n {
		return b[len(b)-n:]
	}
	return b
}
