package main

import (
	"bytes"
	"crypto/aes"
	"crypto/cipher"
	"crypto/sha1"
	"crypto/x509/pkix"
	"encoding/asn1"
	"encoding/pem"
	"fmt"
	"math/big"
	"os"
	"path/filepath"
	"strings"

	"github.com/tjfoc/gmsm/gmtls"
	"github.com/tjfoc/gmsm/sm2"
	gx509 "github.com/tjfoc/gmsm/x509"
	"golang.org/x/crypto/pbkdf2"

	"verif/mon"
	"verif/ref"
)

func init() { registry["C14"] = runC14 }

// independent structures for decrypting gmsm's encrypted PKCS#8 (PBES2 / PBKDF2-HMAC-SHA1 / AES-256-CBC)
type c14EncPKI struct {
	Alg  c14PBES2
	Data []byte
}
type c14PBES2 struct {
	OID    asn1.ObjectIdentifier
	Params struct {
		KDF struct {
			OID    asn1.ObjectIdentifier
			Params struct {
				Salt []byte
				Iter int
				PRF  pkix.AlgorithmIdentifier `asn1:"optional"`
			}
		}
		Enc struct {
			OID asn1.ObjectIdentifier
			IV  []byte
		}
	}
}
type c14PKCS8 struct {
	Version int
	Algo    pkix.AlgorithmIdentifier
	Key     []byte
}
type c14ECPriv struct {
	Version int
	Key     []byte
	Curve   asn1.ObjectIdentifier `asn1:"optional,explicit,tag:0"`
	Pub     asn1.BitString        `asn1:"optional,explicit,tag:1"`
}

func independentPKCS8Decrypt(der, pwd []byte) (*big.Int, error) {
	var e c14EncPKI
	if _, err := asn1.Unmarshal(der, &e); err != nil {
		return nil, fmt.Errorf("outer: %v", err)
	}
	if !e.Alg.OID.Equal(asn1.ObjectIdentifier{1, 2, 840, 113549, 1, 5, 13}) || !e.Alg.Params.KDF.OID.Equal(asn1.ObjectIdentifier{1, 2, 840, 113549, 1, 5, 12}) {
		return nil, fmt.Errorf("not PBES2/PBKDF2")
	}
	if !e.Alg.Params.Enc.OID.Equal(asn1.ObjectIdentifier{2, 16, 840, 1, 101, 3, 4, 1, 42}) {
		return nil, fmt.Errorf("not AES-256-CBC")
	}
	key := pbkdf2.Key(pwd, e.Alg.Params.KDF.Params.Salt, e.Alg.Params.KDF.Params.Iter, 32, sha1.New)
	blk, _ := aes.NewCipher(key)
	if len(e.Data)%16 != 0 || len(e.Alg.Params.Enc.IV) != 16 {
		return nil, fmt.Errorf("bad lengths")
	}
	pt := make([]byte, len(e.Data))
	cipher.NewCBCDecrypter(blk, e.Alg.Params.Enc.IV).CryptBlocks(pt, e.Data)
	un, ok := ref.PKCS7Unpad(pt, 16)
	if !ok {
		return nil, fmt.Errorf("bad padding")
	}
	var p8 c14PKCS8
	if _, err := asn1.Unmarshal(un, &p8); err != nil {
		return nil, fmt.Errorf("pkcs8: %v", err)
	}
	var ec c14ECPriv
	if _, err := asn1.Unmarshal(p8.Key, &ec); err != nil {
		return nil, fmt.Errorf("ecpriv: %v", err)
	}
	return new(big.Int).SetBytes(ec.Key), nil
}

// hmacKeyEquivalent reports whether two passwords are the same HMAC-SHA1 key (<= 64 bytes, equal up to trailing zero bytes).
func hmacKeyEquivalent(a, b []byte) bool {
	if len(a) > 64 || len(b) > 64 {
		return bytes.Equal(a, b)
	}
	return bytes.Equal(bytes.TrimRight(a, "\x00"), bytes.TrimRight(b, "\x00"))
}

func sameKey(k *sm2.PrivateKey, t testKey) bool {
	return k != nil && k.D != nil && k.X != nil && k.Y != nil && k.D.Cmp(t.d) == 0 && k.X.Cmp(t.x) == 0 && k.Y.Cmp(t.y) == 0
}
func samePub(k *sm2.PublicKey, t testKey) bool {
	return k != nil && k.X != nil && k.Y != nil && k.X.Cmp(t.x) == 0 && k.Y.Cmp(t.y) == 0
}

func runC14(c *Ctx) {
	rep := c.Rep
	rep.Meta("cases: every serialization pair the library offers (PKCS#8 PEM with/without password, PKIX public PEM, hex private/public, compressed point, DER private/public structures, ASN.1 signature, ASN.1 ciphertext) over key classes with 1..3 leading zero bytes in d, x, y and odd hex-digit counts, password classes {nil, empty, ASCII, UTF-8, 1 KiB}, wrong passwords (one character, case, length, empty, nil), (r,s) classes (high bit set, short, 1, n-1), ciphertexts with short coordinates; TLS loaders X509KeyPair, LoadX509KeyPair, GMX509KeyPairs, LoadGMX509KeyPairs, GMX509KeyPairsSingle, LoadGMX509KeyPair with matching / mismatching / swapped pairs (SM2, RSA, P-256). Oracle: value equality (d, x, y by reference), independent PBES2 decryption of gmsm's encrypted PKCS#8, accept-iff-match for loaders. Distinct non-trivial = distinct (form, key class, password class / pair class).",
		300, []string{"ref SM2 public-key derivation", "x/crypto/pbkdf2 + crypto/aes for the independent PKCS#8 decryption", "crypto/x509 for RSA/ECDSA certificates"},
		[]string{"gmsm's own CreateCertificate is used to make SM2 certificates for the loaders (C09 checks it)"})
	held := &mon.Held{Max: 20000} // results of the serializers, re-checked at the end
	keys := keyClasses(c.Rng("keys"), c.Q(8, 400), true)
	// odd hex-digit count: d whose top nibble is zero
	{
		r := c.Rng("oddhex")
		b := r.Bytes(32)
		b[0] = 0x0a
		keys = append(keys, mkKey("d-odd-hex-digits", new(big.Int).SetBytes(b)))
		b = r.Bytes(32)
		b[0], b[1] = 0, 0x07
		keys = append(keys, mkKey("d-odd-hex-digits+lz", new(big.Int).SetBytes(b)))
	}
	rp := c.Rng("pw")
	utf := []byte("пароль-密码-🔑")
	long := rp.Bytes(1024)
	pwds := []struct {
		cls string
		p   []byte
	}{{"nil", nil}, {"empty", []byte{}}, {"ascii", []byte("Passw0rd!")}, {"utf8", utf}, {"1KiB", long}, {"one-char", []byte("x")}}

	Par(len(keys), func(ki int) {
		k := keys[ki]
		w := func(extra map[string]interface{}) map[string]interface{} {
			m := map[string]interface{}{"key_class": k.cls, "d": k.d.Text(16), "x": k.x.Text(16), "y": k.y.Text(16)}
			for a, b := range extra {
				m[a] = b
			}
			return m
		}
		// --- PKCS#8 PEM with each password
		for _, pw := range pwds {
			cls := fmt.Sprintf("pkcs8pem/%s/pw=%s", k.cls, pw.cls)
			var pemB []byte
			var err error
			var back *sm2.PrivateKey
			if pi := mon.Guard(func() {
				pemB, err = gx509.WritePrivateKeyToPem(k.priv(), pw.p)
				held.Keep("WritePrivateKeyToPem", pemB)
			}); pi != nil || err != nil {
				rep.Violation("C14/WritePrivateKeyToPem/fails/pw="+pw.cls, fmt.Sprint(pi, err), w(nil))
				rep.Eval(cls)
				continue
			}
			if pi := mon.Guard(func() { back, err = gx509.ReadPrivateKeyFromPem(pemB, pw.p) }); pi != nil {
				rep.Violation("C14/ReadPrivateKeyFromPem/panic/"+pi.Func, pi.Value, w(map[string]interface{}{"pem": string(pemB)}))
			} else if err != nil || !sameKey(back, k) {
				rep.Violation("C14/PrivateKeyPem/round-trip/"+k.cls+"/pw="+pw.cls, fmt.Sprintf("err=%v", err), w(map[string]interface{}{"pem": string(pemB), "password": mon.Hex(pw.p)}))
			}
			// reading is repeatable: the same file with the same password a second and third time (and after a wrong-password
			// attempt in between) gives the same key — memoised derivations, scrubbed buffers and pooled scratch must not show
			for again := 0; again < 3 && err == nil; again++ {
				if again == 2 {
					mon.Guard(func() { gx509.ReadPrivateKeyFromPem(pemB, append(append([]byte{}, pw.p...), 'x')) })
				}
				var b2 *sm2.PrivateKey
				var e2 error
				if pi := mon.Guard(func() { b2, e2 = gx509.ReadPrivateKeyFromPem(pemB, pw.p) }); pi != nil {
					rep.Violation("C14/ReadPrivateKeyFromPem/panic/"+pi.Func, "repeated read: "+pi.Value, w(map[string]interface{}{"pem": string(pemB)}))
					break
				} else if e2 != nil || !sameKey(b2, k) {
					rep.Violation("C14/ReadPrivateKeyFromPem/repeated-read-of-the-same-file-differs/pw="+pw.cls, fmt.Sprintf("read #%d: err=%v", again+2, e2), w(map[string]interface{}{"pem": string(pemB), "password": mon.Hex(pw.p)}))
					break
				}
			}
			blk, _ := pem.Decode(pemB)
			if blk == nil {
				rep.Violation("C14/WritePrivateKeyToPem/not-PEM", "", w(nil))
				rep.Eval(cls)
				continue
			}
			if pw.p != nil {
				// independent decryption of the encrypted structure
				d2, derr := independentPKCS8Decrypt(blk.Bytes, pw.p)
				if derr != nil || d2.Cmp(k.d) != 0 {
					rep.Violation("C14/MarshalSm2EcryptedPrivateKey/not-PBES2-decryptable-independently/pw="+pw.cls, fmt.Sprint(derr), w(map[string]interface{}{"pem": string(pemB), "password": mon.Hex(pw.p)}))
				}
				if blk.Type != "ENCRYPTED PRIVATE KEY" {
					rep.Violation("C14/WritePrivateKeyToPem/wrong-pem-type", blk.Type, w(nil))
				}
				// wrong passwords
				wrongs := map[string][]byte{"nil": nil, "appended-char": append(append([]byte{}, pw.p...), 'x'), "other": []byte("completely different")}
				if len(pw.p) > 0 {
					wrongs["empty"] = []byte{}
					wrongs["truncated"] = pw.p[:len(pw.p)-1]
					x := append([]byte{}, pw.p...)
					x[len(x)/2] ^= 0x01
					wrongs["one-bit"] = x
					if pw.cls == "ascii" {
						wrongs["case"] = []byte("passw0rd!")
					}
				} else {
					// NB: not {0}: HMAC zero-pads keys, so "" and "\x00" are the same PBKDF2 password by definition
					wrongs["one-byte"] = []byte{'0'}
				}
				// the right password inside what a careless reader leaves around it: line ends, blanks, quotes, a BOM, a NUL
				// in front — each of these is another password
				for wn, dec := range map[string][2]string{"trailing-newline": {"", "\n"}, "trailing-crlf": {"", "\r\n"}, "trailing-space": {"", " "}, "leading-space": {" ", ""},
					"leading-tab": {"\t", ""}, "quoted": {"\"", "\""}, "leading-bom": {"\xef\xbb\xbf", ""}, "leading-nul": {"\x00", ""}, "doubled": {string(pw.p), ""}} {
					wrongs["decorated/"+wn] = []byte(dec[0] + string(pw.p) + dec[1])
				}
				for wn, wp := range wrongs {
					if wp != nil && hmacKeyEquivalent(wp, pw.p) {
						continue // same PBKDF2-HMAC password by definition (HMAC zero-pads short keys)
					}
					var k2 *sm2.PrivateKey
					var e2 error
					if pi := mon.Guard(func() { k2, e2 = gx509.ReadPrivateKeyFromPem(pemB, wp) }); pi != nil {
						rep.Violation("C14/ReadPrivateKeyFromPem/panic-on-wrong-password/"+pi.Func, pi.Value, w(map[string]interface{}{"pem": string(pemB), "wrong_password": mon.Hex(wp)}))
					} else if e2 == nil {
						rep.Violation("C14/ReadPrivateKeyFromPem/accepts-wrong-password/"+wn, fmt.Sprintf("right=%q wrong=%q key d=%x", pw.p, wp, k2.D), w(map[string]interface{}{"pem": string(pemB), "password": mon.Hex(pw.p), "wrong_password": mon.Hex(wp)}))
					}
					rep.Eval("wrongpw/" + pw.cls + "/" + wn)
				}
			} else {
				// unencrypted structure read with a password must not succeed silently as something else
				if blk.Type != "PRIVATE KEY" {
					rep.Violation("C14/WritePrivateKeyToPem/wrong-pem-type", blk.Type, w(nil))
				}
				var p8 c14PKCS8
				var ec c14ECPriv
				if _, e := asn1.Unmarshal(blk.Bytes, &p8); e != nil {
					rep.Violation("C14/MarshalSm2UnecryptedPrivateKey/not-PKCS8", e.Error(), w(nil))
				} else if _, e := asn1.Unmarshal(p8.Key, &ec); e != nil || new(big.Int).SetBytes(ec.Key).Cmp(k.d) != 0 {
					rep.Violation("C14/MarshalSm2UnecryptedPrivateKey/inner-key-mismatch", fmt.Sprint(e), w(nil))
				} else if len(ec.Pub.Bytes) == 65 {
					if new(big.Int).SetBytes(ec.Pub.Bytes[1:33]).Cmp(k.x) != 0 || new(big.Int).SetBytes(ec.Pub.Bytes[33:]).Cmp(k.y) != 0 {
						rep.Violation("C14/MarshalSm2UnecryptedPrivateKey/embedded-public-key-mismatch", "", w(nil))
					}
				}
			}
			rep.Eval(cls)
		}
		// --- DER structures
		{
			var der []byte
			var err error
			var back *sm2.PrivateKey
			mon.Guard(func() {
				der, err = gx509.MarshalSm2UnecryptedPrivateKey(k.priv())
				held.Keep("MarshalSm2UnecryptedPrivateKey", der)
			})
			if err == nil {
				if pi := mon.Guard(func() { back, err = gx509.ParsePKCS8UnecryptedPrivateKey(der) }); pi != nil || err != nil || !sameKey(back, k) {
					rep.Violation("C14/PKCS8-DER/round-trip/"+k.cls, fmt.Sprint(pi, err), w(map[string]interface{}{"der": mon.Hex(der)}))
				}
			} else {
				rep.Violation("C14/MarshalSm2UnecryptedPrivateKey/error", err.Error(), w(nil))
			}
			rep.Eval("pkcs8der/" + k.cls)
			// an encoding whose embedded public point belongs to another key: whatever the parser returns must be a
			// consistent key (public point = [d]G), never this scalar paired with the foreign point
			other := mkKey("other", new(big.Int).Add(k.d, big.NewInt(1)))
			if other.d.Cmp(new(big.Int).Sub(ref.N, big.NewInt(1))) < 0 {
				var fder []byte
				mon.Guard(func() {
					fder, err = gx509.MarshalSm2UnecryptedPrivateKey(&sm2.PrivateKey{D: k.d, PublicKey: *other.pub()})
				})
				if err == nil && fder != nil {
					var fb *sm2.PrivateKey
					var ferr error
					if pi := mon.Guard(func() { fb, ferr = gx509.ParsePKCS8UnecryptedPrivateKey(fder) }); pi != nil {
						rep.Violation("C14/PKCS8-DER/panic-on-inconsistent-embedded-point/"+pi.Func, pi.Value, w(nil))
					} else if ferr == nil && fb != nil {
						q := ref.MulG(fb.D)
						if q.X.Cmp(fb.X) != 0 || q.Y.Cmp(fb.Y) != 0 {
							rep.Violation("C14/PKCS8-DER/parsed-key-is-inconsistent(public-point-not-dG)", "the parser returned the scalar with the foreign embedded point", w(map[string]interface{}{"der": mon.Hex(fder)}))
						}
					}
					rep.Eval("pkcs8der/inconsistent-embedded-point/" + k.cls)
				}
			}
		}
		// --- public key PEM / DER
		{
			var pemB []byte
			var err error
			var back *sm2.PublicKey
			if pi := mon.Guard(func() { pemB, err = gx509.WritePublicKeyToPem(k.pub()); held.Keep("WritePublicKeyToPem", pemB) }); pi != nil || err != nil {
				rep.Violation("C14/WritePublicKeyToPem/fails", fmt.Sprint(pi, err), w(nil))
			} else if pi := mon.Guard(func() { back, err = gx509.ReadPublicKeyFromPem(pemB) }); pi != nil || err != nil || !samePub(back, k) {
				rep.Violation("C14/PublicKeyPem/round-trip/"+k.cls, fmt.Sprint(pi, err), w(map[string]interface{}{"pem": string(pemB)}))
			} else {
				// the DER must also be what the Go standard library understands as an EC key on some curve: SPKI parse
				blk, _ := pem.Decode(pemB)
				var spki struct {
					Algo pkix.AlgorithmIdentifier
					Key  asn1.BitString
				}
				if _, e := asn1.Unmarshal(blk.Bytes, &spki); e != nil || len(spki.Key.Bytes) != 65 || spki.Key.Bytes[0] != 4 ||
					new(big.Int).SetBytes(spki.Key.Bytes[1:33]).Cmp(k.x) != 0 || new(big.Int).SetBytes(spki.Key.Bytes[33:]).Cmp(k.y) != 0 {
					rep.Violation("C14/WritePublicKeyToPem/SPKI-point-mismatch/"+k.cls, fmt.Sprint(e), w(map[string]interface{}{"pem": string(pemB)}))
				}
			}
			rep.Eval("pubpem/" + k.cls)
		}
		// --- hex
		{
			var hx string
			var back *sm2.PrivateKey
			var err error
			if pi := mon.Guard(func() { hx = gx509.WritePrivateKeyToHex(k.priv()) }); pi != nil {
				rep.Violation("C14/WritePrivateKeyToHex/panic/"+pi.Func, pi.Value, w(nil))
			} else if pi := mon.Guard(func() { back, err = gx509.ReadPrivateKeyFromHex(hx) }); pi != nil {
				rep.Violation("C14/ReadPrivateKeyFromHex/panic/"+pi.Func, pi.Value, w(map[string]interface{}{"hex": hx}))
			} else if err != nil || !sameKey(back, k) {
				sym := "value-mismatch"
				if err != nil && len(hx)%2 == 1 {
					sym = "odd-length-hex-not-readable"
				}
				rep.Violation("C14/PrivateKeyHex/round-trip/"+sym, fmt.Sprintf("hex=%q err=%v", hx, err), w(map[string]interface{}{"hex": hx}))
			}
			rep.Eval("privhex/" + k.cls)
			var pb *sm2.PublicKey
			if pi := mon.Guard(func() { hx = gx509.WritePublicKeyToHex(k.pub()) }); pi != nil {
				rep.Violation("C14/WritePublicKeyToHex/panic/"+pi.Func, pi.Value, w(nil))
			} else if pi := mon.Guard(func() { pb, err = gx509.ReadPublicKeyFromHex(hx) }); pi != nil || err != nil || !samePub(pb, k) {
				rep.Violation("C14/PublicKeyHex/round-trip/"+k.cls, fmt.Sprint(pi, err), w(map[string]interface{}{"hex": hx}))
			} else if len(hx) != 130 {
				rep.Violation("C14/WritePublicKeyToHex/length", fmt.Sprint(len(hx)), w(nil))
			}
			rep.Eval("pubhex/" + k.cls)
			// the other spelling the reader has always taken — bare X||Y, as other SM2 tools print a public key — must name
			// the same key as the marked form
			if len(hx) == 130 {
				bare := hx[2:]
				var pb2 *sm2.PublicKey
				var e2 error
				if pi := mon.Guard(func() { pb2, e2 = gx509.ReadPublicKeyFromHex(bare) }); pi != nil || e2 != nil || !samePub(pb2, k) {
					rep.Violation("C14/PublicKeyHex/bare-XY-form-disagrees-with-marked-form/x-top-byte="+bare[:2], fmt.Sprint(pi, e2), w(map[string]interface{}{"hex": bare}))
				}
				rep.Eval("pubhex-bare/" + k.cls)
			}
		}
		// --- compressed point
		{
			var cp []byte
			var pb *sm2.PublicKey
			if pi := mon.Guard(func() { cp = sm2.Compress(k.pub()); held.Keep("Compress", cp) }); pi != nil {
				rep.Violation("C14/Compress/panic/"+pi.Func, pi.Value, w(nil))
			} else if pi := mon.Guard(func() { pb = sm2.Decompress(cp) }); pi != nil {
				rep.Violation("C14/Decompress/panic/"+pi.Func, pi.Value, w(map[string]interface{}{"compressed": mon.Hex(cp)}))
			} else if !samePub(pb, k) {
				rep.Violation("C14/Compress-Decompress/round-trip/"+k.cls+fmt.Sprintf("/y-parity=%d", k.y.Bit(0)), "", w(map[string]interface{}{"compressed": mon.Hex(cp)}))
			} else if len(cp) != 33 {
				rep.Violation("C14/Compress/length", fmt.Sprint(len(cp)), w(nil))
			}
			rep.Eval(fmt.Sprintf("compress/%s/parity=%d", k.cls, k.y.Bit(0)))
		}
	})
	rep.Sample(map[string]interface{}{"kind": "key forms", "key_classes": func() []string {
		m := map[string]bool{}
		var o []string
		for _, k := range keys {
			if !m[k.cls] {
				m[k.cls] = true
				o = append(o, k.cls)
			}
		}
		return o
	}(), "password_classes": []string{"nil", "empty", "ascii", "utf8", "1KiB", "one-char"}})

	// --- signatures (r,s)
	{
		r := c.Rng("sigs")
		nm1 := new(big.Int).Sub(ref.N, big.NewInt(1))
		var vals []*big.Int
		vals = append(vals, big.NewInt(1), big.NewInt(127), big.NewInt(128), big.NewInt(255), big.NewInt(256), nm1, new(big.Int).Rsh(ref.N, 1))
		for i := 0; i < c.Q(60, 20000); i++ {
			b := r.Bytes(32)
			switch i % 4 {
			case 0:
				b[0] |= 0x80
			case 1:
				b[0] = 0
				b[1] |= 0x80
			case 2:
				b[0], b[1], b[2] = 0, 0, 0x7f
			}
			v := new(big.Int).SetBytes(b)
			v.Mod(v, nm1)
			v.Add(v, big.NewInt(1))
			vals = append(vals, v)
		}
		// every combination of significant byte lengths 1..32 for r and s, with the top bit of the leading byte set and
		// clear (so every total DER length between 8 and 72 bytes occurs, including the ones that coincide with the sizes
		// of other encodings such as a raw 64-byte r||s)
		type pair struct{ r, s *big.Int }
		var pairs []pair
		for i, rv := range vals {
			pairs = append(pairs, pair{rv, vals[(i*7+3)%len(vals)]})
		}
		mkLen := func(n int, high bool) *big.Int {
			b := r.Bytes(n)
			if high {
				b[0] |= 0x80
			} else {
				b[0] = b[0]&0x7f | 0x01
			}
			v := new(big.Int).SetBytes(b)
			if v.Cmp(nm1) > 0 {
				v.Rsh(v, 1)
			}
			return v
		}
		for lr := 1; lr <= 32; lr++ {
			for ls := 1; ls <= 32; ls++ {
				if !c.Thorough && (lr+ls)%2 != 0 && lr+ls != 57 && lr+ls != 59 {
					continue
				}
				for hb := 0; hb < 4; hb++ {
					pairs = append(pairs, pair{mkLen(lr, hb&1 != 0), mkLen(ls, hb&2 != 0)})
				}
			}
		}
		for _, pr := range pairs {
			rv, sv := pr.r, pr.s
			var der []byte
			var err error
			var r2, s2 *big.Int
			w := map[string]interface{}{"r": rv.Text(16), "s": sv.Text(16)}
			if pi := mon.Guard(func() { der, err = sm2.SignDigitToSignData(rv, sv); held.Keep("SignDigitToSignData", der) }); pi != nil || err != nil {
				rep.Violation("C14/SignDigitToSignData/fails", fmt.Sprint(pi, err), w)
			} else if pi := mon.Guard(func() {
				r2, s2, err = sm2.SignDataToSignDigit(der)
				held.KeepInt("SignDataToSignDigit.r", r2)
				held.KeepInt("SignDataToSignDigit.s", s2)
			}); pi != nil || err != nil || r2.Cmp(rv) != 0 || s2.Cmp(sv) != 0 {
				rep.Violation("C14/Signature-ASN1/round-trip", fmt.Sprint(pi, err), w)
			} else if r3, s3, ok := strictDERSig(der); !ok || r3.Cmp(rv) != 0 || s3.Cmp(sv) != 0 {
				rep.Violation("C14/SignDigitToSignData/not-strict-DER", mon.Hex(der), w)
			}
			rep.Eval(fmt.Sprintf("sigasn1/rlen=%d/slen=%d/derlen=%d", len(rv.Bytes()), len(sv.Bytes()), len(der)))
		}
	}
	// --- ciphertexts with short coordinates
	{
		r := c.Rng("cts")
		for i := 0; i < c.Q(100, 40000); i++ {
			x, y := r.Bytes(32), r.Bytes(32)
			cls := "full"
			switch i % 5 {
			case 0:
				x[0] = 0
				cls = "x-lz=1"
			case 1:
				y[0], y[1] = 0, 0
				cls = "y-lz=2"
			case 2:
				x[0], y[0] = 0, 0
				cls = "x,y-lz=1"
			case 3:
				x[0] |= 0x80
				y[0] |= 0x80
				cls = "high-bit"
			}
			c2 := r.Bytes(r.Pick(1, 16, 31, 32, 33, 200))
			raw := append([]byte{4}, x...)
			raw = append(raw, y...)
			raw = append(raw, r.Bytes(32)...)
			raw = append(raw, c2...)
			var der, back []byte
			var err error
			w := map[string]interface{}{"raw": mon.Hex(raw), "class": cls}
			if pi := mon.Guard(func() { der, err = sm2.CipherMarshal(raw); held.Keep("CipherMarshal", der) }); pi != nil || err != nil {
				rep.Violation("C14/CipherMarshal/fails", fmt.Sprint(pi, err), w)
			} else if pi := mon.Guard(func() { back, err = sm2.CipherUnmarshal(der); held.Keep("CipherUnmarshal", back) }); pi != nil || err != nil || !bytes.Equal(back, raw) {
				rep.Violation("C14/Ciphertext-ASN1/round-trip/"+cls, fmt.Sprint(pi, err), w)
			}
			rep.Eval("ctasn1/" + cls)
		}
	}

	// --- every slice and integer the serializers returned above is still what it was when returned (a result carved out
	// of a pooled or reused buffer is overwritten by a later call; comparing right after each call never shows it)
	for _, ch := range held.Check() {
		rep.Violation("C14/"+strings.SplitN(ch, ":", 2)[0]+"/returned-value-changed-by-a-later-call", ch, nil)
	}
	rep.Count("returned_slices_and_integers_rechecked_at_the_end", int64(held.Kept()))
	rep.Require("returned_slices_and_integers_rechecked_at_the_end", 100)

	// --- TLS loaders
	runC14Loaders(c)
}

func runC14Loaders(c *Ctx) {
	rep := c.Rep
	r := c.Rng("loaders")
	tmp := filepath.Join(c.Out, "loaders")
	os.MkdirAll(tmp, 0o755)
	type pair struct {
		cert []byte // PEM
		key  []byte // PEM
		k    *sm2.PrivateKey
	}
	// the keys behind the pairs: the forced classes first (x / y / d with 1..3 leading zero bytes, d = 1, 2, n-2 — a loader
	// that compares encodings instead of values goes wrong exactly there), random keys after them
	forced := keyClasses(r, 0, c.Thorough)
	nextKey := 0
	mkPair := func(cn string, serial int64) pair {
		k := newSM2Key(r)
		if nextKey < len(forced) {
			k = forced[nextKey].priv()
			rep.Distinct("loader-key-class/" + forced[nextKey].cls)
			nextKey++
		}
		_, der, err := issueSM2(certSpec{cn: cn, serial: serial, dns: []string{cn}}, &k.PublicKey, nil, k, r)
		if err != nil {
			rep.Violation("C14/harness/cannot-create-certificate", err.Error(), nil)
			return pair{}
		}
		kp, _ := gx509.WritePrivateKeyToPem(k, nil)
		return pair{pemBlock("CERTIFICATE", der), kp, k}
	}
	n := c.Q(6, 300)
	if n < (len(forced)+1)/2+2 {
		n = (len(forced)+1)/2 + 2 // every forced class, and at least two pairs of random keys
	}
	var sign, enc []pair
	for i := 0; i < n; i++ {
		sign = append(sign, mkPair(fmt.Sprintf("sign%d.example", i), int64(100+i)))
		enc = append(enc, mkPair(fmt.Sprintf("enc%d.example", i), int64(500+i)))
	}
	write := func(name string, b []byte) string {
		p := filepath.Join(tmp, name)
		os.WriteFile(p, b, 0o600)
		return p
	}
	expect := func(api, cls string, shouldAccept bool, f func() (gmtls.Certificate, error), w map[string]interface{}) {
		var cert gmtls.Certificate
		var err error
		if pi := mon.Guard(func() { cert, err = f() }); pi != nil {
			rep.Violation("C14/"+api+"/panic/"+pi.Func, pi.Value, w)
		} else if shouldAccept && err != nil {
			rep.Violation("C14/"+api+"/rejects-matching-pair/"+cls, err.Error(), w)
		} else if !shouldAccept && err == nil {
			rep.Violation("C14/"+api+"/accepts-mismatching-pair/"+cls, fmt.Sprintf("returned %d certificate(s)", len(cert.Certificate)), w)
		} else if shouldAccept && (len(cert.Certificate) == 0 || cert.PrivateKey == nil) {
			rep.Violation("C14/"+api+"/empty-result/"+cls, "", w)
		}
		rep.Eval("loader/" + api + "/" + cls)
	}
	for i := 0; i < n; i++ {
		s, e := sign[i], enc[i]
		so, eo := sign[(i+1)%n], enc[(i+1)%n]
		if s.cert == nil || e.cert == nil {
			continue
		}
		w := map[string]interface{}{"sign_cert": string(s.cert), "sign_key": string(s.key), "enc_cert": string(e.cert), "enc_key": string(e.key)}
		// single pair loaders
		for _, api := range []string{"X509KeyPair", "GMX509KeyPairsSingle", "LoadX509KeyPair", "LoadGMX509KeyPair"} {
			api := api
			call := func(cert, key []byte) func() (gmtls.Certificate, error) {
				return func() (gmtls.Certificate, error) {
					switch api {
					case "X509KeyPair":
						return gmtls.X509KeyPair(cert, key)
					case "GMX509KeyPairsSingle":
						return gmtls.GMX509KeyPairsSingle(cert, key)
					case "LoadX509KeyPair":
						return gmtls.LoadX509KeyPair(write("c.pem", cert), write("k.pem", key))
					default:
						return gmtls.LoadGMX509KeyPair(write("c.pem", cert), write("k.pem", key))
					}
				}
			}
			expect(api, "sm2/matching", true, call(s.cert, s.key), w)
			expect(api, "sm2/other-key", false, call(s.cert, so.key), w)
			// the key n-d: same public x, negated y
			neg := mkKey("negated", new(big.Int).Sub(ref.N, s.k.D))
			negPEM, _ := gx509.WritePrivateKeyToPem(neg.priv(), nil)
			expect(api, "sm2/negated-key(n-d)", false, call(s.cert, negPEM), w)
			// a key file whose scalar belongs to another key while its embedded public point is the certificate's:
			// the pair does not match (the holder cannot sign for the certificate)
			franken, _ := gx509.WritePrivateKeyToPem(&sm2.PrivateKey{D: so.k.D, PublicKey: s.k.PublicKey}, nil)
			expect(api, "sm2/other-scalar-with-the-certificates-public-point-embedded", false, call(s.cert, franken), w)
			expect(api, "sm2/swapped-inputs", false, call(s.key, s.cert), w)
			expect(api, "sm2/cert-chain-leaf-first", true, call(append(append([]byte{}, s.cert...), so.cert...), s.key), w)
			expect(api, "sm2/cert-chain-other-leaf-first", false, call(append(append([]byte{}, so.cert...), s.cert...), s.key), w)
		}
		// double pair loaders
		for _, api := range []string{"GMX509KeyPairs", "LoadGMX509KeyPairs"} {
			api := api
			call := func(sc, sk, ec, ek []byte) func() (gmtls.Certificate, error) {
				return func() (gmtls.Certificate, error) {
					if api == "GMX509KeyPairs" {
						return gmtls.GMX509KeyPairs(sc, sk, ec, ek)
					}
					return gmtls.LoadGMX509KeyPairs(write("sc.pem", sc), write("sk.pem", sk), write("ec.pem", ec), write("ek.pem", ek))
				}
			}
			expect(api, "matching", true, call(s.cert, s.key, e.cert, e.key), w)
			expect(api, "sign-key-mismatch", false, call(s.cert, so.key, e.cert, e.key), w)
			negS := mkKey("negated", new(big.Int).Sub(ref.N, s.k.D))
			negSPEM, _ := gx509.WritePrivateKeyToPem(negS.priv(), nil)
			expect(api, "sign-key-negated(n-d)", false, call(s.cert, negSPEM, e.cert, e.key), w)
			negE := mkKey("negated", new(big.Int).Sub(ref.N, e.k.D))
			negEPEM, _ := gx509.WritePrivateKeyToPem(negE.priv(), nil)
			expect(api, "enc-key-negated(n-d)", false, call(s.cert, s.key, e.cert, negEPEM), w)
			expect(api, "enc-key-mismatch", false, call(s.cert, s.key, e.cert, eo.key), w)
			frankenE, _ := gx509.WritePrivateKeyToPem(&sm2.PrivateKey{D: eo.k.D, PublicKey: e.k.PublicKey}, nil)
			expect(api, "enc-key-other-scalar-with-embedded-certificate-point", false, call(s.cert, s.key, e.cert, frankenE), w)
			frankenS, _ := gx509.WritePrivateKeyToPem(&sm2.PrivateKey{D: so.k.D, PublicKey: s.k.PublicKey}, nil)
			expect(api, "sign-key-other-scalar-with-embedded-certificate-point", false, call(s.cert, frankenS, e.cert, e.key), w)
			expect(api, "enc-key-is-the-sign-key(same bytes for both roles)", false, call(s.cert, s.key, e.cert, s.key), w)
			expect(api, "sign-key-is-the-enc-key(same bytes for both roles)", false, call(s.cert, e.key, e.cert, e.key), w)
			expect(api, "same-pair-for-both-roles", true, call(s.cert, s.key, s.cert, s.key), w)
			expect(api, "keys-swapped", false, call(s.cert, e.key, e.cert, s.key), w)
			expect(api, "certs-swapped", false, call(e.cert, s.key, s.cert, e.key), w)
		}
	}
	// RSA and P-256 pairs through the generic loaders
	{
		rk, rk2 := cachedRSA()
		_, rder, err := issueStd("rsa.example", 900, false, []string{"rsa.example"}, &rk.PublicKey, nil, rk, r)
		if err == nil {
			certPEM := pemBlock("CERTIFICATE", rder)
			k1 := pemBlock("RSA PRIVATE KEY", x509MarshalPKCS1(rk))
			k2 := pemBlock("RSA PRIVATE KEY", x509MarshalPKCS1(rk2))
			w := map[string]interface{}{"cert": string(certPEM)}
			expect("X509KeyPair", "rsa/matching", true, func() (gmtls.Certificate, error) { return gmtls.X509KeyPair(certPEM, k1) }, w)
			expect("X509KeyPair", "rsa/other-key", false, func() (gmtls.Certificate, error) { return gmtls.X509KeyPair(certPEM, k2) }, w)
			expect("GMX509KeyPairsSingle", "rsa/matching", true, func() (gmtls.Certificate, error) { return gmtls.GMX509KeyPairsSingle(certPEM, k1) }, w)
			expect("GMX509KeyPairsSingle", "rsa/other-key", false, func() (gmtls.Certificate, error) { return gmtls.GMX509KeyPairsSingle(certPEM, k2) }, w)
			// SM2 key for an RSA certificate
			sk, _ := gx509.WritePrivateKeyToPem(newSM2Key(r), nil)
			expect("X509KeyPair", "rsa-cert/sm2-key", false, func() (gmtls.Certificate, error) { return gmtls.X509KeyPair(certPEM, sk) }, w)
		}
		ek, ek2 := newP256Key(r), newP256Key(r)
		_, eder, err := issueStd("ec.example", 901, false, []string{"ec.example"}, &ek.PublicKey, nil, ek, r)
		if err == nil {
			certPEM := pemBlock("CERTIFICATE", eder)
			k1 := pemBlock("EC PRIVATE KEY", x509MarshalEC(ek))
			k2 := pemBlock("EC PRIVATE KEY", x509MarshalEC(ek2))
			w := map[string]interface{}{"cert": string(certPEM)}
			_ = k1
			// gmsm's parsePrivateKey understands PKCS#1, PKCS#8 (rsa/ecdsa) and SM2 PKCS#8 — use PKCS#8 for ECDSA
			p8a, p8b := pemBlock("PRIVATE KEY", x509MarshalPKCS8(ek)), pemBlock("PRIVATE KEY", x509MarshalPKCS8(ek2))
			expect("X509KeyPair", "p256/matching", true, func() (gmtls.Certificate, error) { return gmtls.X509KeyPair(certPEM, p8a) }, w)
			expect("X509KeyPair", "p256/other-key", false, func() (gmtls.Certificate, error) { return gmtls.X509KeyPair(certPEM, p8b) }, w)
			_ = k2
		}
	}
	rep.Sample(map[string]interface{}{"kind": "loader", "apis": strings.Join([]string{"X509KeyPair", "LoadX509KeyPair", "GMX509KeyPairs", "LoadGMX509KeyPairs", "GMX509KeyPairsSingle", "LoadGMX509KeyPair"}, ","), "pair_classes": "matching, other-key, swapped-inputs, chain orders, sign/enc key mismatch, keys swapped, certs swapped, rsa, p256"})
}
