package main

import (
	"bytes"
	"crypto/cipher"
	"fmt"

	"github.com/tjfoc/gmsm/gmtls"
	"github.com/tjfoc/gmsm/sm4"

	"verif/mon"
	"verif/ref"
)

func init() { registry["C12"] = runC12 }

// tlsSM4GCM, when set by the verif hook file, seals with the TLS stack's SM4-GCM suite construction.
var tlsSM4GCM func(key, nonce12, plaintext, aad []byte) []byte

func runC12(c *Ctx) {
	rep := c.Rep
	defer runFirstOps(c) // fresh child processes whose first gmsm call is one operation of this property
	rep.FineDistinct()
	rep.Meta("cases: (key, IV, A, P) tuples: exhaustive |A|,|P| grid 0..80 at |IV|=12; |IV| in 1..64; IVs with 0xff bytes / counter blocks at the 32-bit wrap; lengths to 64 KiB; single-bit authentication sweep over K/IV/A/C/T. Oracle: GCM of crypto/cipher over the reference SM4 (and over sm4.NewCipher, and the TLS stack's SM4-GCM construction for 12-byte nonces); decrypt inverse; tag sensitivity; caller memory untouched. Distinct non-trivial = distinct (ivlen, |A|, |P|, iv-class) with |A|+|P|>0.",
		3000, []string{"crypto/cipher GCM (generic path) over ref SM4; RFC 8998 A.1 vector at start of run"},
		[]string{"GCM with non-96-bit IVs derives J0 by GHASH; the 32-bit wrap class is produced by searching IVs whose derived counter has a low word near 0xffffffff"})

	type tc struct {
		cls        string
		key, iv    []byte
		a, p       []byte
		sweepBits  bool
		spareCheck bool
	}
	check := func(t tc) {
		w := map[string]interface{}{"key": mon.Hex(t.key), "iv": mon.Hex(t.iv), "aad": mon.Hex(t.a), "plaintext": mon.Hex(t.p)}
		wantC, wantT, err := ref.SM4GCMSeal(t.key, t.iv, t.p, t.a)
		if err != nil {
			rep.Note("ref GCM refused: " + err.Error())
			return
		}
		ivC, aC, pC, kC := mon.NewCanary(t.iv, 8), mon.NewCanary(t.a, 8), mon.NewCanary(t.p, 8), mon.NewCanary(t.key, 8)
		var C, T []byte
		if pi := mon.Guard(func() {
			C, T, err = sm4.Sm4GCM(kC.Slice(), ivC.Slice(), pC.Slice(), aC.Slice(), true)
			keep("sm4.Sm4GCM.C", C)
			keep("sm4.Sm4GCM.T", T)
		}); pi != nil {
			rep.Violation(fmt.Sprintf("C12/Sm4GCM/encrypt-panic/%s/%s", pi.Func, t.cls), pi.Value, w)
			rep.Eval(t.cls)
			return
		}
		if err != nil {
			rep.Violation("C12/Sm4GCM/encrypt-error/"+t.cls, err.Error(), w)
		}
		for name, cn := range map[string]*mon.Canary{"iv": ivC, "aad": aC, "plaintext": pC, "key": kC} {
			if s := cn.Check(); s != "" {
				rep.Violation("C12/Sm4GCM/encrypt/caller-memory-written/"+name, fmt.Sprintf("%s: %s (ivlen=%d)", name, s, len(t.iv)), w)
			}
		}
		if !bytes.Equal(C, wantC) {
			rep.Violation("C12/Sm4GCM/ciphertext-mismatch/"+t.cls, fmt.Sprintf("|iv|=%d |A|=%d |P|=%d got %s want %s", len(t.iv), len(t.a), len(t.p), mon.Hex(C), mon.Hex(wantC)), w)
		}
		if !bytes.Equal(T, wantT) {
			rep.Violation("C12/Sm4GCM/tag-mismatch/"+t.cls, fmt.Sprintf("|iv|=%d |A|=%d |P|=%d got %s want %s", len(t.iv), len(t.a), len(t.p), mon.Hex(T), mon.Hex(wantT)), w)
		}
		// stdlib GCM over gmsm's block (the construction gmtls uses)
		if blk, e := sm4.NewCipher(t.key); e == nil {
			if g, e := cipher.NewGCMWithNonceSize(blk, len(t.iv)); e == nil {
				out := g.Seal(nil, t.iv, t.p, t.a)
				if !bytes.Equal(out, append(append([]byte{}, wantC...), wantT...)) {
					rep.Violation("C12/cipher.GCM-over-sm4.NewCipher/mismatch/"+t.cls, "stdlib GCM over gmsm block differs from GCM over reference block", w)
				}
			}
		}
		if tlsSM4GCM != nil && len(t.iv) == 12 {
			var out []byte
			if pi := mon.Guard(func() { out = tlsSM4GCM(t.key, t.iv, t.p, t.a) }); pi != nil {
				rep.Violation("C12/gmtls.aeadSM4GCM/panic/"+pi.Func, pi.Value, w)
			} else if !bytes.Equal(out, append(append([]byte{}, wantC...), wantT...)) {
				rep.Violation("C12/gmtls.aeadSM4GCM/mismatch/"+t.cls, "TLS suite SM4-GCM differs from reference GCM", w)
			}
			rep.Count("tls_suite_comparisons", 1)
		}
		// decrypt the reference ciphertext
		var P, T2 []byte
		cC := mon.NewCanary(wantC, 8)
		if pi := mon.Guard(func() {
			P, T2, err = sm4.Sm4GCM(t.key, ivC.Slice(), cC.Slice(), aC.Slice(), false)
			keep("sm4.Sm4GCM(decrypt).P", P)
			keep("sm4.Sm4GCM(decrypt).T", T2)
		}); pi != nil {
			rep.Violation(fmt.Sprintf("C12/Sm4GCM/decrypt-panic/%s/%s", pi.Func, t.cls), pi.Value, w)
			rep.Eval(t.cls)
			return
		}
		if !bytes.Equal(P, t.p) {
			rep.Violation("C12/Sm4GCM/decrypt-plaintext-mismatch/"+t.cls, fmt.Sprintf("|iv|=%d |A|=%d |C|=%d got %s want %s", len(t.iv), len(t.a), len(wantC), mon.Hex(P), mon.Hex(t.p)), w)
		}
		if !bytes.Equal(T2, wantT) {
			rep.Violation("C12/Sm4GCM/decrypt-tag-mismatch/"+t.cls, fmt.Sprintf("got %s want %s", mon.Hex(T2), mon.Hex(wantT)), w)
		}
		if s := cC.Check(); s != "" {
			rep.Violation("C12/Sm4GCM/decrypt/caller-memory-written/ciphertext", s, w)
		}
		if s := ivC.Check(); s != "" {
			rep.Violation("C12/Sm4GCM/decrypt/caller-memory-written/iv", s, w)
		}
		if t.sweepBits {
			// every single-bit change of K, IV, A, C must change the recomputed tag
			flip := func(name string, src []byte, call func(x []byte) []byte) {
				for bit := 0; bit < len(src)*8; bit++ {
					x := append([]byte{}, src...)
					x[bit/8] ^= 0x80 >> uint(bit%8)
					var tg []byte
					if pi := mon.Guard(func() { tg = call(x) }); pi != nil {
						rep.Violation("C12/GCMDecrypt/sweep-panic/"+pi.Func, pi.Value, w)
						return
					}
					if bytes.Equal(tg, wantT) {
						rep.Violation("C12/GCMDecrypt/tag-insensitive-to-"+name, fmt.Sprintf("flipping bit %d of %s leaves the recomputed tag equal to the transmitted tag", bit, name), w)
						return
					}
					rep.Count("auth_bitflips", 1)
				}
			}
			flip("key", t.key, func(x []byte) []byte { _, tg := sm4.GCMDecrypt(x, t.iv, wantC, t.a); return tg })
			flip("iv", t.iv, func(x []byte) []byte { _, tg := sm4.GCMDecrypt(t.key, x, wantC, t.a); return tg })
			flip("aad", t.a, func(x []byte) []byte { _, tg := sm4.GCMDecrypt(t.key, t.iv, wantC, x); return tg })
			flip("ciphertext", wantC, func(x []byte) []byte { _, tg := sm4.GCMDecrypt(t.key, t.iv, x, t.a); return tg })
		}
		if len(t.a)+len(t.p) == 0 {
			rep.EvalTrivial(t.cls)
		} else {
			rep.Eval(t.cls)
			rep.DistinctBytes([]byte(fmt.Sprintf("%d/%d/%d", len(t.iv), len(t.a), len(t.p))), []byte(t.cls))
		}
	}

	// (1) exhaustive grid at |IV|=12
	keys := c.Q(1, 60)
	for ki := 0; ki < keys; ki++ {
		rk := c.Rng(fmt.Sprintf("grid-key%d", ki))
		key, iv := rk.Bytes(16), rk.Bytes(12)
		Par(81*81, func(i int) {
			la, lp := i/81, i%81
			r := c.Rng(fmt.Sprintf("grid%d/%d/%d", ki, la, lp))
			check(tc{cls: fmt.Sprintf("grid12/A%s/P%s", gcmLenCls(la), gcmLenCls(lp)), key: key, iv: iv, a: r.Bytes(la), p: r.Bytes(lp)})
		})
	}
	rep.Exhaustive(fmt.Sprintf("|A| x |P| grid 0..80 x 0..80 at |IV|=12 for %d keys", keys))
	// (2) IV lengths 1..64, some A/P lengths
	Par(64*c.Q(6, 400), func(i int) {
		ivl := 1 + i%64
		r := c.Rng(fmt.Sprintf("ivlen%d", i))
		check(tc{cls: fmt.Sprintf("ivlen=%d", ivl), key: r.Bytes(16), iv: r.Bytes(ivl), a: r.Bytes(r.Pick(0, 1, 15, 16, 17, 20, 33)), p: r.Bytes(r.Pick(0, 1, 15, 16, 17, 31, 32, 33, 64, 100))})
	})
	// (3) IVs with 0xff bytes at every position (12-byte fast path: counter block = IV‖00000001)
	Par(12*c.Q(4, 200), func(i int) {
		r := c.Rng(fmt.Sprintf("ivff%d", i))
		iv := r.Bytes(12)
		iv[i%12] = 0xff
		if i%3 == 0 {
			for j := i % 12; j < 12; j++ {
				iv[j] = 0xff
			}
		}
		check(tc{cls: fmt.Sprintf("iv12-ff@%d", i%12), key: r.Bytes(16), iv: iv, a: r.Bytes(r.Intn(40)), p: r.Bytes(16*(2+r.Intn(20)) + r.Intn(16))})
	})
	// (4) counter wrap: for a 16-byte IV, J0 = ((IV·H) ^ [128])·H, so the IV for any wanted J0 is obtained by
	//     inverting H in GF(2^128) (done by the reference; confirmed below by T = E(J0) for empty A, P).
	{
		n := 0
		for _, low := range []uint32{0xffffffff, 0xfffffffe, 0xfffffffd, 0xfffffff0, 0xffffff00, 0x0000ffff, 0x00ffffff, 0xfffeffff} {
			for rep2 := 0; rep2 < c.Q(1, 40); rep2++ {
				r := c.Rng(fmt.Sprintf("wrap%x/%d", low, rep2))
				key := r.Bytes(16)
				var j0 [16]byte
				r.Fill(j0[:])
				if rep2%2 == 1 {
					for i := 0; i < 12; i++ {
						j0[i] = 0xff // a carry out of the low word must NOT propagate into these bytes
					}
				}
				j0[12], j0[13], j0[14], j0[15] = byte(low>>24), byte(low>>16), byte(low>>8), byte(low)
				iv := ref.GCMIV16ForJ0(key, j0)
				_, tg, _ := ref.SM4GCMSeal(key, iv, nil, nil)
				if !bytes.Equal(ref.SM4DecryptBlock(key, tg, nil), j0[:]) {
					rep.Note("counter-wrap construction failed its own confirmation; class skipped")
					continue
				}
				check(tc{cls: fmt.Sprintf("counter-wrap/low=%08x", low), key: key, iv: iv, a: r.Bytes(r.Intn(20)), p: r.Bytes(16*(3+r.Intn(20)) + r.Intn(16))})
				n++
			}
		}
		rep.Count("counter_wrap_cases", int64(n))
	}
	// (5) long inputs
	Par(c.Q(6, 400), func(i int) {
		r := c.Rng(fmt.Sprintf("long%d", i))
		check(tc{cls: "long", key: r.Bytes(16), iv: r.Bytes(12), a: r.Bytes(r.Pick(0, 13, 4096, 65536)), p: r.Bytes(r.Pick(1000, 4096, 16384, 65535, 65536))})
	})
	// (6) authentication sweep
	Par(c.Q(24, 2000), func(i int) {
		r := c.Rng(fmt.Sprintf("sweep%d", i))
		ivl := 12
		if i%4 == 3 {
			ivl = r.Pick(8, 16, 13)
		}
		check(tc{cls: fmt.Sprintf("auth-sweep/ivlen=%d", ivl), key: r.Bytes(16), iv: r.Bytes(ivl), a: r.Bytes(1 + r.Intn(24)), p: r.Bytes(1 + r.Intn(40)), sweepBits: true})
	})
	// (6b) the TLS stack's SM4-GCM record protection as reached through its suite table (both GM GCM suite ids): the
	// protected record must be what standard GCM over the reference SM4 gives for nonce = implicit IV || sequence number
	// and additional data = sequence number || type || version || length
	for _, suite := range []uint16{gmtls.GMTLS_ECC_SM4_GCM_SM3, gmtls.GMTLS_ECDHE_SM4_GCM_SM3} {
		for i := 0; i < c.Q(20, 400); i++ {
			r := c.Rng(fmt.Sprintf("suite%04x/%d", suite, i))
			key, iv := r.Bytes(16), r.Bytes(4)
			pl := r.Bytes(r.Pick(0, 1, 15, 16, 17, 100, 1000))
			w := map[string]interface{}{"suite": fmt.Sprintf("%04x", suite), "key": mon.Hex(key), "implicit_iv": mon.Hex(iv), "payload": mon.Hex(pl)}
			hc, err := gmtls.VerifNewHalfConn(suite, key, iv, nil, false)
			if err != nil {
				rep.Violation("C12/gmtls-suite-table/no-such-suite", err.Error(), w)
				break
			}
			rs := &ref.HalfState{Suite: suite, Key: key, IV: iv, On: true}
			for seq := 0; seq < 3; seq++ {
				var got []byte
				if pi := mon.Guard(func() { got = hc.Encrypt(23, pl, nil) }); pi != nil {
					rep.Violation("C12/gmtls-suite-table/panic/"+pi.Func, pi.Value, w)
					break
				}
				want := rs.Seal(23, pl, nil, 0)
				if !bytes.Equal(got, want) {
					rep.Violation(fmt.Sprintf("C12/gmtls-suite-table/record-is-not-SM4-GCM/%04x", suite), fmt.Sprintf("record %d: got %s want %s", seq, mon.Hex(got), mon.Hex(want)), w)
					break
				}
			}
			rep.Eval(fmt.Sprintf("gmtls-suite-table/%04x/len=%s", suite, gcmLenCls(len(pl))))
			// the receiving side of the same suite: the nonce that authenticates a record is the one the record CARRIES
			// (implicit IV || explicit 8 bytes), so every bit of the explicit part is authenticated like every other input;
			// and a record the reference seals under a chosen explicit nonce opens, whatever the receiver's own counter says
			sealed := rs.Seal(23, pl, nil, 0) // reference record at the sender's next sequence number (3)
			mk := func() *gmtls.VerifHalfConn {
				rc, e := gmtls.VerifNewHalfConn(suite, key, iv, nil, true)
				if e != nil {
					return nil
				}
				// bring the receiver to sequence number 3
				s2 := &ref.HalfState{Suite: suite, Key: key, IV: iv, On: true}
				for q := 0; q < 3; q++ {
					if _, ok, _ := rc.Decrypt(s2.Seal(23, []byte{byte(q)}, nil, 0)); !ok {
						return nil
					}
				}
				return rc
			}
			if rc := mk(); rc == nil {
				rep.Violation(fmt.Sprintf("C12/gmtls-suite-table/receiver-rejects-reference-records/%04x", suite), "", w)
			} else if got, ok, _ := rc.Decrypt(sealed); !ok || !bytes.Equal(got, pl) {
				rep.Violation(fmt.Sprintf("C12/gmtls-suite-table/receiver-rejects-reference-records/%04x", suite), "record at sequence number 3", w)
			}
			for bit := 0; bit < 64; bit++ {
				if !c.Thorough && (bit+i)%8 != 0 {
					continue
				}
				rc := mk()
				if rc == nil {
					break
				}
				m := append([]byte{}, sealed...)
				m[5+bit/8] ^= 1 << uint(bit%8)
				if _, ok, _ := rc.Decrypt(m); ok {
					rep.Violation(fmt.Sprintf("C12/gmtls-suite-table/explicit-nonce-bit-not-authenticated/%04x", suite), fmt.Sprintf("record accepted with bit %d of its explicit nonce flipped", bit), w)
					break
				}
				rep.EvalN(fmt.Sprintf("gmtls-suite-table/%04x/explicit-nonce-bit", suite), 1, true)
			}
		}
	}
	// (7) buffer-reuse histories (serial): the same key / IV / A / P buffers are passed to consecutive calls while their
	// contents are edited in place or refilled in between; every call must answer for the current contents
	{
		rh := c.Rng("reuse")
		for h := 0; h < c.Q(80, 4000); h++ {
			key, iv, a, p := rh.Bytes(16), rh.Bytes(rh.Pick(12, 12, 16, 8)), rh.Bytes(rh.Intn(40)), rh.Bytes(1+rh.Intn(80))
			var trace []string
			for st := 0; st < 2+rh.Intn(5); st++ {
				switch rh.Intn(6) {
				case 0:
					key[rh.Intn(16)] ^= 1 << uint(rh.Intn(8))
					trace = append(trace, "key-edited-in-place")
				case 1:
					rh.Fill(key)
					trace = append(trace, "key-refilled")
				case 2:
					iv[rh.Intn(len(iv))] ^= 0x40
					trace = append(trace, "iv-edited-in-place")
				case 3:
					if len(a) > 0 {
						a[rh.Intn(len(a))] ^= 0x02
						trace = append(trace, "aad-edited-in-place")
					}
				case 4:
					p[rh.Intn(len(p))] ^= 0x08
					trace = append(trace, "plaintext-edited-in-place")
				default:
					trace = append(trace, "unchanged")
				}
				wantC, wantT, err := ref.SM4GCMSeal(key, iv, p, a)
				if err != nil {
					continue
				}
				var C, T, P2, T2 []byte
				w := map[string]interface{}{"history": append([]string{}, trace...), "key": mon.Hex(key), "iv": mon.Hex(iv), "aad": mon.Hex(a), "plaintext": mon.Hex(p)}
				if pi := mon.Guard(func() {
					if st%2 == 0 {
						C, T, _ = sm4.Sm4GCM(key, iv, p, a, true)
					} else {
						C, T = sm4.GCMEncrypt(key, iv, p, a)
					}
					P2, T2 = sm4.GCMDecrypt(key, iv, wantC, a)
				}); pi != nil {
					rep.Violation("C12/history/panic/"+pi.Func, pi.Value, w)
					break
				}
				if !bytes.Equal(C, wantC) || !bytes.Equal(T, wantT) {
					rep.Violation("C12/history/encrypt-does-not-follow-current-buffer-contents", fmt.Sprintf("after %v: C/T differ from standard GCM for the bytes now in the buffers", trace), w)
					break
				}
				if !bytes.Equal(P2, p) || !bytes.Equal(T2, wantT) {
					rep.Violation("C12/history/decrypt-does-not-follow-current-buffer-contents", fmt.Sprintf("after %v", trace), w)
					break
				}
			}
			rep.Eval(fmt.Sprintf("history/buffer-reuse/ivlen=%d/steps=%d", len(iv), len(trace)))
		}
	}
	// (8) many keys, then the first ones again (serial): whatever the helpers remember per key — a table, a subkey — is
	// bounded somewhere; what they answer for a key seen two thousand keys ago must still be standard GCM. Short messages,
	// IV lengths 12 and 16, both API forms.
	{
		rk := c.Rng("many-keys")
		nKeys := c.Q(2500, 70000)
		keys := make([][]byte, nKeys)
		for i := range keys {
			keys[i] = rk.Bytes(16)
		}
		check := func(i int, phase string) bool {
			key := keys[i]
			iv := rk.Bytes(12 + 4*(i%2))
			p, a := rk.Bytes(1+i%33), rk.Bytes(i%7)
			wantC, wantT, err := ref.SM4GCMSeal(key, iv, p, a)
			if err != nil {
				return true
			}
			var C, T, P2, T2 []byte
			w := map[string]interface{}{"key_index": i, "keys_in_this_process": nKeys, "phase": phase, "key": mon.Hex(key), "iv": mon.Hex(iv), "aad": mon.Hex(a), "plaintext": mon.Hex(p)}
			if pi := mon.Guard(func() {
				if i%2 == 0 {
					C, T, _ = sm4.Sm4GCM(key, iv, p, a, true)
				} else {
					C, T = sm4.GCMEncrypt(key, iv, p, a)
				}
				P2, T2 = sm4.GCMDecrypt(key, iv, wantC, a)
			}); pi != nil {
				rep.Violation("C12/many-keys/panic/"+pi.Func, pi.Value, w)
				return false
			}
			if !bytes.Equal(C, wantC) || !bytes.Equal(T, wantT) || !bytes.Equal(P2, p) || !bytes.Equal(T2, wantT) {
				rep.Violation("C12/many-keys/differs-from-standard-GCM/"+phase, fmt.Sprintf("key %d of %d", i, nKeys), w)
				return false
			}
			return true
		}
		ok := true
		for i := 0; i < nKeys && ok; i++ {
			ok = check(i, "first-use")
		}
		for i := 0; i < nKeys && ok; i += 1 + i/16 { // dense at the start, thinner later
			ok = check(i, "revisit-after-all-other-keys")
		}
		rep.Eval("many-keys/then-revisit")
		rep.Count("many_keys_scenario_keys", int64(nKeys))
	}
	rep.Sample(map[string]interface{}{"kind": "tuple", "ivlen": 12, "A_len": 5, "P_len": 33, "oracle": "C,T == cipher.NewGCM(refSM4).Seal; GCMDecrypt(refC) == P and tag == refT; every single-bit change of K/IV/A/C changes the recomputed tag"})
}

func gcmLenCls(n int) string {
	switch {
	case n == 0:
		return "0"
	case n < 16:
		return "1-15"
	case n == 16:
		return "16"
	case n%16 == 0:
		return "k*16"
	default:
		return "k*16+r"
	}
}
