package main

import (
	"bytes"
	"fmt"

	"github.com/tjfoc/gmsm/gmtls"
	gx509 "github.com/tjfoc/gmsm/x509"

	"verif/mon"
)

// A standard-TLS server that holds several certificates and picks one by the name the client asks for ("way of supplying
// certificates": a static list plus BuildNameToCertificate). A correctly configured client asking for any of the names
// must complete and must see the certificate issued for that name — exact names, a wildcard, upper case and a trailing
// dot in the configured name, and a name nobody was certified for (first certificate; the verifying client then refuses).
func runC06SNI(c *Ctx) {
	rep := c.Rep
	r := c.Rng("sni")
	type ident struct {
		cert gmtls.Certificate
		der  []byte
		dns  []string
	}
	pool := gx509.NewCertPool()
	mk := func(serial int64, dns ...string) *ident {
		k := newP256Key(r)
		_, der, err := issueStd(dns[0], serial, true, dns, &k.PublicKey, nil, k, r)
		if err != nil {
			return nil
		}
		if pc, e := gx509.ParseCertificate(der); e == nil {
			pool.AddCert(pc)
		}
		return &ident{gmtls.Certificate{Certificate: [][]byte{der}, PrivateKey: k}, der, dns}
	}
	ids := []*ident{mk(501, "alpha.sni.example"), mk(502, "beta.sni.example", "beta-alt.sni.example"), mk(503, "*.wild.sni.example"), mk(504, "gamma.sni.example")}
	for _, id := range ids {
		if id == nil {
			rep.Note("sni: cannot issue certificates")
			return
		}
	}
	type q struct {
		ask  string // Config.ServerName of the client
		want int    // index of the certificate the server must present; -1: none matches (client must refuse)
	}
	qs := []q{{"alpha.sni.example", 0}, {"beta.sni.example", 1}, {"beta-alt.sni.example", 1}, {"x.wild.sni.example", 2}, {"gamma.sni.example", 3},
		{"BETA.sni.example", 1}, {"gamma.sni.example.", 3}, {"nobody.sni.example", -1}, {"deep.x.wild.sni.example", -1}}
	// with session tickets on and a small client session cache: a walk over more names than the cache holds and back again.
	// One server configuration (one set of ticket keys) answers for all names, so whatever session the client offers the
	// server can open — the certificate the client ends up reporting must still be the one of the name it asked for.
	for _, capacity := range []int{1, 2, 3} {
		for _, ver := range []uint16{gmtls.VersionTLS12, gmtls.VersionTLS10} {
			scfg := &gmtls.Config{Certificates: []gmtls.Certificate{ids[0].cert, ids[1].cert, ids[2].cert, ids[3].cert}, MaxVersion: ver,
				Time: func() timeT { return fixedNow }, Rand: mon.NewRNG(r.U64())}
			scfg.BuildNameToCertificate()
			cache := gmtls.NewLRUClientSessionCache(capacity)
			walk := []q{{"alpha.sni.example", 0}, {"beta.sni.example", 1}, {"gamma.sni.example", 3}, {"x.wild.sni.example", 2}, {"alpha.sni.example", 0}, {"beta.sni.example", 1}, {"beta.sni.example", 1}, {"gamma.sni.example", 3}, {"alpha.sni.example", 0}}
			for step, qq := range walk {
				ccfg := &gmtls.Config{ServerName: qq.ask, RootCAs: pool, MinVersion: ver, MaxVersion: ver, Time: func() timeT { return fixedNow }, Rand: mon.NewRNG(r.U64()), ClientSessionCache: cache}
				out := handshakePair(ccfg, scfg, nil)
				w := map[string]interface{}{"cache_capacity": capacity, "version": fmt.Sprintf("%04x", ver), "step": step, "asked_for": qq.ask, "client_error": errStr(out.cli.err), "server_error": errStr(out.srv.err)}
				if !out.cli.completed || !out.srv.completed {
					rep.Violation("C06/Handshake/supported-combination-fails/sni-with-session-cache", fmt.Sprintf("step %d, asked for %s: %v / %v", step, qq.ask, out.cli.err, out.srv.err), w)
					break
				}
				w["resumed"] = out.cli.state.DidResume
				pc := out.cli.state.PeerCertificates
				if len(pc) == 0 || !bytes.Equal(pc[0].Raw, ids[qq.want].der) {
					got := "none"
					if len(pc) > 0 {
						got = fmt.Sprint(pc[0].DNSNames)
					}
					rep.Violation("C06/sni/client-reports-the-certificate-of-another-name", fmt.Sprintf("step %d of a walk over %d names with a cache of %d: asked for %s, reports %s (resumed=%v)", step, 4, capacity, qq.ask, got, out.cli.state.DidResume), w)
				}
				if out.cli.state.DidResume != out.srv.state.DidResume {
					rep.Violation("C06/ConnectionState/ends-disagree", fmt.Sprintf("DidResume client %v server %v", out.cli.state.DidResume, out.srv.state.DidResume), w)
				}
				c06Exchange(rep, out.cli.conn, out.srv.conn, r.U64(), 200, r, w, "C06")
				out.cli.conn.Close()
				out.srv.conn.Close()
				rep.Eval(fmt.Sprintf("sni/session-cache-walk/cap=%d/ver=%04x/resumed=%v", capacity, ver, out.cli.state.DidResume))
			}
		}
	}
	for vi, ver := range []uint16{gmtls.VersionTLS12, gmtls.VersionTLS10} {
		for mi, mode := range []string{"tls", "tls+GetCertificate-declining"} {
			for qi, qq := range qs {
				scfg := &gmtls.Config{Certificates: []gmtls.Certificate{ids[0].cert, ids[1].cert, ids[2].cert, ids[3].cert}, MaxVersion: ver,
					Time: func() timeT { return fixedNow }, Rand: mon.NewRNG(r.U64()), SessionTicketsDisabled: true}
				if mode != "tls" {
					// a callback that has no opinion: the static list and the name map decide
					scfg.GetCertificate = func(*gmtls.ClientHelloInfo) (*gmtls.Certificate, error) { return nil, nil }
				}
				scfg.BuildNameToCertificate()
				ccfg := &gmtls.Config{ServerName: qq.ask, RootCAs: pool, MinVersion: ver, MaxVersion: ver, Time: func() timeT { return fixedNow }, Rand: mon.NewRNG(r.U64())}
				out := handshakePair(ccfg, scfg, nil)
				w := map[string]interface{}{"server_mode": mode, "version": fmt.Sprintf("%04x", ver), "asked_for": qq.ask, "client_error": errStr(out.cli.err), "server_error": errStr(out.srv.err)}
				for side, e := range map[string]*endResult{"client": &out.cli, "server": &out.srv} {
					if e.panicked != nil {
						rep.Violation("C06/sni/panic/"+side+"/"+e.panicked.Func, e.panicked.Value, w)
					}
				}
				cls := fmt.Sprintf("sni/%s/ver=%04x/q=%d", mode, ver, qi)
				switch {
				case qq.want < 0:
					if out.cli.completed {
						rep.Violation("C06/sni/client-completes-for-a-name-no-certificate-covers", qq.ask, w)
					}
				case !out.cli.completed || !out.srv.completed:
					rep.Violation("C06/Handshake/supported-combination-fails/sni/"+mode, fmt.Sprintf("asked for %s: %v / %v", qq.ask, out.cli.err, out.srv.err), w)
				default:
					pc := out.cli.state.PeerCertificates
					if len(pc) == 0 || !bytes.Equal(pc[0].Raw, ids[qq.want].der) {
						got := "none"
						if len(pc) > 0 {
							got = fmt.Sprint(pc[0].DNSNames)
						}
						rep.Violation("C06/sni/server-presents-the-certificate-of-another-name", fmt.Sprintf("asked for %s, got the certificate for %s", qq.ask, got), w)
					}
					if out.srv.state.ServerName != "" && out.srv.state.ServerName != out.cli.state.ServerName && out.cli.state.ServerName != "" {
						rep.Violation("C06/ConnectionState/ends-disagree/server-name", fmt.Sprintf("%q vs %q", out.cli.state.ServerName, out.srv.state.ServerName), w)
					}
					c06Exchange(rep, out.cli.conn, out.srv.conn, r.U64(), 500, r, w, "C06")
					out.cli.conn.Close()
					out.srv.conn.Close()
				}
				rep.Eval(cls)
				_ = vi
				_ = mi
			}
		}
	}
}
