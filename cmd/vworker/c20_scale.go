package main

import (
	"bytes"
	"fmt"
	"io"
	"runtime"
	"sync/atomic"

	"github.com/tjfoc/gmsm/gmtls"
	"github.com/tjfoc/gmsm/sm2"
	gx509 "github.com/tjfoc/gmsm/x509"

	"verif/mon"
)

// (10) large PKCS#7 objects parsed concurrently, each goroutine its own message of 70..200 KiB, the parsed object used
// only after another parse has run (its own second message, and whatever the other goroutines parse meanwhile): what a
// parse returns belongs to the caller.
func c20LargePKCS7(c *Ctx) {
	rep := c.Rep
	r := c.Rng("large-pkcs7")
	pki, err := newTLSPKI(r, false)
	if err != nil {
		return
	}
	const G = 8
	type item struct{ msgA, msgB, p7A, p7B []byte }
	items := make([]item, G)
	for i := range items {
		it := &items[i]
		it.msgA, it.msgB = r.Bytes(70000+i*17000), r.Bytes(66000+i*9000)
		it.p7A, _ = gx509.PKCS7EncryptSM2(it.msgA, []*gx509.Certificate{pki.encCert}, sm2.C1C3C2)
		it.p7B, _ = gx509.PKCS7EncryptSM2(it.msgB, []*gx509.Certificate{pki.encCert}, sm2.C1C3C2)
		if it.p7A == nil || it.p7B == nil {
			rep.Note("large-pkcs7: cannot envelope")
			return
		}
		// sequential control
		for _, pr := range [][2][]byte{{it.p7A, it.msgA}, {it.p7B, it.msgB}} {
			p7, err := gx509.ParsePKCS7(pr[0])
			if err != nil {
				rep.Violation("C20/large-pkcs7/sequential-control-fails", err.Error(), nil)
				return
			}
			if pt, err := p7.DecryptSM2(pki.encCert, pki.encKey, sm2.C1C3C2); err != nil || !bytes.Equal(pt, pr[1]) {
				rep.Violation("C20/large-pkcs7/sequential-control-fails", fmt.Sprint(err), nil)
				return
			}
		}
	}
	var bad int32
	var first atomic.Value
	runConcurrently(G, func(g int) {
		it := items[g]
		for i := 0; i < c.Q(6, 60); i++ {
			var okA, okB bool
			var why string
			if pi := mon.Guard(func() {
				pa, ea := gx509.ParsePKCS7(it.p7A)
				runtime.Gosched()
				pb, eb := gx509.ParsePKCS7(it.p7B)
				if ea != nil || eb != nil {
					why = fmt.Sprintf("parse: %v / %v", ea, eb)
					return
				}
				ptA, e1 := pa.DecryptSM2(pki.encCert, pki.encKey, sm2.C1C3C2)
				ptB, e2 := pb.DecryptSM2(pki.encCert, pki.encKey, sm2.C1C3C2)
				okA, okB = e1 == nil && bytes.Equal(ptA, it.msgA), e2 == nil && bytes.Equal(ptB, it.msgB)
				if !okA || !okB {
					why = fmt.Sprintf("first object opens correctly: %v (%v), second: %v (%v)", okA, e1, okB, e2)
				}
			}); pi != nil {
				why = "panic in " + pi.Func + ": " + pi.Value
			}
			if why != "" {
				atomic.AddInt32(&bad, 1)
				first.CompareAndSwap(nil, why)
			}
		}
	})
	if bad > 0 {
		rep.Violation("C20/large-pkcs7/concurrent-result-differs-from-sequential", fmt.Sprintf("%d of %d rounds; first: %v", bad, G*c.Q(6, 60), first.Load()), map[string]interface{}{"goroutines": G, "message_bytes": "70000..200000"})
	}
	rep.Eval("large-pkcs7/goroutines=8")
}

// (11) one client session cache that is always full: 24 goroutines connect to 6 server names through Configs that share
// one LRU cache of capacity 2, so that sessions are evicted while other handshakes hold them. Every handshake has to
// complete — resumed or full — and carry a message.
func c20CacheChurn(c *Ctx) {
	rep := c.Rep
	r := c.Rng("cache-churn")
	pki, err := newTLSPKI(r, false)
	if err != nil {
		return
	}
	for _, gm := range []bool{true, false} {
		mode := map[bool]string{true: "GMSSL", false: "TLS"}[gm]
		scfg := &gmtls.Config{Time: func() timeT { return fixedNow }}
		if gm {
			scfg.GMSupport, scfg.Certificates = gmtls.NewGMSupport(), []gmtls.Certificate{pki.sig, pki.enc}
			scfg.CipherSuites = []uint16{gmtls.GMTLS_ECC_SM4_CBC_SM3, gmtls.GMTLS_ECC_SM4_GCM_SM3}
		} else {
			scfg.Certificates, scfg.MaxVersion = []gmtls.Certificate{pki.rsaCert}, gmtls.VersionTLS12
		}
		cache := gmtls.NewLRUClientSessionCache(2)
		const names = 6
		ccfgs := make([]*gmtls.Config, names)
		for i := range ccfgs {
			// the certificate is issued for one name only; what is under test here is the cache, so the name check is off
			ccfgs[i] = &gmtls.Config{ServerName: fmt.Sprintf("n%d.churn.example", i), InsecureSkipVerify: true, ClientSessionCache: cache, Time: func() timeT { return fixedNow }}
			if gm {
				ccfgs[i].GMSupport = gmtls.NewGMSupport()
				ccfgs[i].CipherSuites = []uint16{gmtls.GMTLS_ECC_SM4_CBC_SM3}
			} else {
				ccfgs[i].MaxVersion = gmtls.VersionTLS12
			}
		}
		const G = 24
		perG := c.Q(8, 60)
		var failed, resumed, done int32
		var firstErr atomic.Value
		runConcurrently(G, func(g int) {
			rr := mon.NewRNG(uint64(1000*g + 7))
			for i := 0; i < perG; i++ {
				out := handshakePair(ccfgs[rr.Intn(names)], scfg, nil)
				atomic.AddInt32(&done, 1)
				if !out.cli.completed || !out.srv.completed {
					atomic.AddInt32(&failed, 1)
					firstErr.CompareAndSwap(nil, fmt.Sprintf("client: %v / server: %v", out.cli.err, out.srv.err))
					continue
				}
				if out.srv.state.DidResume {
					atomic.AddInt32(&resumed, 1)
				}
				msg := []byte(fmt.Sprintf("hello %d/%d", g, i))
				go out.cli.conn.Write(msg)
				buf := make([]byte, len(msg))
				if _, err := io.ReadFull(out.srv.conn, buf); err != nil || !bytes.Equal(buf, msg) {
					atomic.AddInt32(&failed, 1)
					firstErr.CompareAndSwap(nil, fmt.Sprintf("message after handshake: %v", err))
				}
				out.cli.conn.Close()
				out.srv.conn.Close()
			}
		})
		rep.Count("cache_churn_connections/"+mode, int64(done))
		rep.Count("cache_churn_resumed/"+mode, int64(resumed))
		if failed > 0 {
			rep.Violation("C20/cache-churn/handshake-fails-while-the-shared-cache-evicts/"+mode, fmt.Sprintf("%d of %d connections; first: %v", failed, done, firstErr.Load()), map[string]interface{}{"goroutines": G, "names": names, "cache_capacity": 2})
		}
		rep.Eval("cache-churn/" + mode)
	}
}
