package main

import (
	"bytes"
	"crypto/x509/pkix"
	"fmt"
	"math/big"
	"sync"
	"time"

	"github.com/tjfoc/gmsm/sm2"
	gx509 "github.com/tjfoc/gmsm/x509"

	"verif/mon"
)

// (7) one pair of certificate pools used by many concurrent verifications, where the pools hold several CA
// certificates under ONE subject name with different keys (key roll-over, cross-certification, no key identifiers):
// candidate issuers are then found by name and tried one after the other, so whatever a verification keeps in, or
// writes to, the pool's per-name index is shared by verifications of children of different keys. Every concurrent
// result must be the sequential one: a chain, ending at the root whose key signed the branch.
func c20SharedPool(c *Ctx) {
	rep := c.Rep
	r := c.Rng("shared-pool")
	tmpl := func(cn string, serial int64, ca bool) *gx509.Certificate {
		t := &gx509.Certificate{SerialNumber: big.NewInt(serial), Subject: pkix.Name{CommonName: cn, Organization: []string{"verif pool"}},
			NotBefore: fixedNow.Add(-time.Hour), NotAfter: fixedNow.Add(time.Hour), SignatureAlgorithm: gx509.SM2WithSM3}
		if ca {
			t.BasicConstraintsValid, t.IsCA, t.KeyUsage = true, true, gx509.KeyUsageCertSign
		} else {
			t.DNSNames = []string{"leaf.pool.example"}
		}
		return t
	}
	mk := func(t, parent *gx509.Certificate, pub *sm2.PublicKey, key *sm2.PrivateKey) *gx509.Certificate {
		der, err := gx509.CreateCertificate(t, parent, pub, key)
		if err != nil {
			return nil
		}
		cc, _ := gx509.ParseCertificate(der)
		return cc
	}
	const nRoots, nInter = 3, 2
	roots, inters := gx509.NewCertPool(), gx509.NewCertPool()
	type branch struct {
		root, inter, leaf *gx509.Certificate
	}
	var branches []branch
	var wrongUsage []*gx509.Certificate
	serial := int64(1)
	for ri := 0; ri < nRoots; ri++ {
		rk := newSM2Key(r)
		rt := tmpl("Same-Name Root", serial, true)
		serial++
		root := mk(rt, rt, &rk.PublicKey, rk)
		if root == nil {
			rep.Note("shared-pool: cannot create certificates")
			return
		}
		roots.AddCert(root)
		for ii := 0; ii < nInter; ii++ {
			ik := newSM2Key(r)
			inter := mk(tmpl("Same-Name Intermediate", serial, true), root, &ik.PublicKey, rk)
			serial++
			lk := newSM2Key(r)
			var leaf *gx509.Certificate
			if inter != nil {
				leaf = mk(tmpl(fmt.Sprintf("leaf %d/%d", ri, ii), serial, false), inter, &lk.PublicKey, ik)
				serial++
			}
			if leaf == nil {
				rep.Note("shared-pool: cannot create certificates")
				return
			}
			inters.AddCert(inter)
			branches = append(branches, branch{root, inter, leaf})
			if ii == 0 {
				wt := tmpl(fmt.Sprintf("client-only leaf %d", ri), serial, false)
				serial++
				wt.ExtKeyUsage = []gx509.ExtKeyUsage{gx509.ExtKeyUsageClientAuth}
				if wl := mk(wt, inter, &lk.PublicKey, ik); wl != nil {
					wrongUsage = append(wrongUsage, wl)
				}
			}
		}
	}
	// ONE requested-usage list for every verification of the run (callers build their options once): a verifier only
	// reads it. Next to the ordinary leaves, one leaf per root is restricted to client authentication and must be refused
	// for this list every single time.
	sharedUsages := []gx509.ExtKeyUsage{gx509.ExtKeyUsageServerAuth, gx509.ExtKeyUsageEmailProtection}
	usagesBefore := append([]gx509.ExtKeyUsage{}, sharedUsages...)
	opts := func() gx509.VerifyOptions {
		return gx509.VerifyOptions{Roots: roots, Intermediates: inters, DNSName: "leaf.pool.example", CurrentTime: fixedNow, KeyUsages: sharedUsages}
	}
	judge := func(b branch, chains [][]*gx509.Certificate, err error) string {
		if err != nil {
			return "valid leaf rejected: " + err.Error()
		}
		for _, ch := range chains {
			if len(ch) == 3 && ch[0] == b.leaf && bytes.Equal(ch[1].Raw, b.inter.Raw) && bytes.Equal(ch[2].Raw, b.root.Raw) {
				return ""
			}
		}
		return fmt.Sprintf("%d chain(s) returned, none is leaf <- its intermediate <- its root", len(chains))
	}
	// sequential baseline
	for bi, b := range branches {
		ch, err := b.leaf.Verify(opts())
		if why := judge(b, ch, err); why != "" {
			rep.Violation("C20/shared-pool/sequential-baseline-fails", fmt.Sprintf("branch %d: %s", bi, why), nil)
			return
		}
	}
	gs := []int{2, 8, 16}
	if c.Thorough {
		gs = []int{2, 8, 32}
	}
	for _, G := range gs {
		rounds := c.Q(2, 30)
		var mu sync.Mutex
		bad := map[string]int{}
		var wg sync.WaitGroup
		start := make(chan struct{})
		for g := 0; g < G; g++ {
			wg.Add(1)
			go func(g int) {
				defer wg.Done()
				rr := mon.NewRNG(uint64(G*1000 + g))
				<-start
				for i := 0; i < rounds*len(branches); i++ {
					if len(wrongUsage) > 0 && i%4 == 3 {
						wl := wrongUsage[rr.Intn(len(wrongUsage))]
						var ch [][]*gx509.Certificate
						var err error
						if pi := mon.Guard(func() { ch, err = wl.Verify(opts()) }); pi != nil {
							mu.Lock()
							bad["panic in "+pi.Func+": "+pi.Value]++
							mu.Unlock()
						} else if err == nil && len(ch) > 0 {
							mu.Lock()
							bad["a leaf restricted to client authentication was accepted for [serverAuth, emailProtection]"]++
							mu.Unlock()
						}
						continue
					}
					b := branches[rr.Intn(len(branches))]
					var ch [][]*gx509.Certificate
					var err error
					if pi := mon.Guard(func() { ch, err = b.leaf.Verify(opts()) }); pi != nil {
						mu.Lock()
						bad["panic in "+pi.Func+": "+pi.Value]++
						mu.Unlock()
						continue
					}
					if why := judge(b, ch, err); why != "" {
						mu.Lock()
						bad[why]++
						mu.Unlock()
					}
				}
			}(g)
		}
		close(start)
		wg.Wait()
		for why, n := range bad {
			rep.Violation("C20/shared-pool/concurrent-result-differs-from-sequential", fmt.Sprintf("%d goroutines, %d of %d verifications: %s", G, n, G*rounds*len(branches), why),
				map[string]interface{}{"goroutines": G, "same_name_roots": nRoots, "same_name_intermediates": nRoots * nInter})
		}
		rep.Count("shared_pool_verifications", int64(G*rounds*len(branches)))
		rep.Eval(fmt.Sprintf("shared-pool/same-name-CAs/goroutines=%d", G))
	}
	if !reflectEqualUsages(sharedUsages, usagesBefore) {
		rep.Violation("C20/shared-pool/callers-requested-usage-list-was-written-to", fmt.Sprintf("before %v after %v", usagesBefore, sharedUsages), nil)
	}
	for _, wl := range wrongUsage {
		if ch, err := wl.Verify(opts()); err == nil && len(ch) > 0 {
			rep.Violation("C20/shared-pool/wrong-usage-leaf-accepted-after-the-concurrent-phase", "", nil)
			break
		}
	}
	// the pools still answer sequentially as before
	for bi, b := range branches {
		ch, err := b.leaf.Verify(opts())
		if why := judge(b, ch, err); why != "" {
			rep.Violation("C20/shared-pool/pool-changed-by-verifications", fmt.Sprintf("branch %d after the concurrent phase: %s", bi, why), nil)
			break
		}
	}
}

func reflectEqualUsages(a, b []gx509.ExtKeyUsage) bool {
	if len(a) != len(b) {
		return false
	}
	for i := range a {
		if a[i] != b[i] {
			return false
		}
	}
	return true
}
