package main

import (
	"bytes"
	"crypto/ecdsa"
	"fmt"
	"io"
	"math/big"
	"sync"

	"github.com/tjfoc/gmsm/sm2"
	gx509 "github.com/tjfoc/gmsm/x509"

	"verif/mon"
	"verif/ref"
)

func init() { registry["C01"] = runC01 }

// strictDERSig parses a strict DER SEQUENCE { INTEGER r, INTEGER s } with minimal lengths and
// minimal non-negative integers and nothing else. Independent of gmsm and of encoding/asn1.
func strictDERSig(b []byte) (r, s *big.Int, ok bool) {
	readLen := func(b []byte) (n int, rest []byte, ok bool) {
		if len(b) == 0 {
			return 0, nil, false
		}
		if b[0] < 0x80 {
			return int(b[0]), b[1:], true
		}
		k := int(b[0] & 0x7f)
		if k == 0 || k > 3 || len(b) < 1+k {
			return 0, nil, false
		}
		v := 0
		for i := 0; i < k; i++ {
			v = v<<8 | int(b[1+i])
		}
		if b[1] == 0 || v < 0x80 { // non-minimal length
			return 0, nil, false
		}
		return v, b[1+k:], true
	}
	readInt := func(b []byte) (*big.Int, []byte, bool) {
		if len(b) < 2 || b[0] != 0x02 {
			return nil, nil, false
		}
		n, rest, ok := readLen(b[1:])
		if !ok || n == 0 || n > len(rest) {
			return nil, nil, false
		}
		v := rest[:n]
		if v[0]&0x80 != 0 {
			return nil, nil, false // negative
		}
		if n > 1 && v[0] == 0 && v[1]&0x80 == 0 {
			return nil, nil, false // non-minimal
		}
		return new(big.Int).SetBytes(v), rest[n:], true
	}
	if len(b) < 2 || b[0] != 0x30 {
		return nil, nil, false
	}
	n, rest, ok := readLen(b[1:])
	if !ok || n != len(rest) {
		return nil, nil, false
	}
	r, rest, ok = readInt(rest)
	if !ok {
		return nil, nil, false
	}
	s, rest, ok = readInt(rest)
	if !ok || len(rest) != 0 {
		return nil, nil, false
	}
	return r, s, true
}

func derInt(v *big.Int) []byte {
	b := v.Bytes()
	if len(b) == 0 {
		b = []byte{0}
	}
	if b[0]&0x80 != 0 {
		b = append([]byte{0}, b...)
	}
	return append([]byte{0x02, byte(len(b))}, b...)
}

func derSig(r, s *big.Int) []byte {
	body := append(derInt(r), derInt(s)...)
	if len(body) < 0x80 {
		return append([]byte{0x30, byte(len(body))}, body...)
	}
	return append([]byte{0x30, 0x81, byte(len(body))}, body...)
}

func msgLens(c *Ctx) []int {
	l := []int{0, 1, 31, 32, 33, 55, 56, 63, 64, 65, 200}
	if c.Thorough {
		l = append(l, 119, 120, 127, 128, 1000, 4096, 65535)
	}
	return l
}

func idClass(id []byte) string {
	switch {
	case id == nil:
		return "absent"
	case len(id) == 0:
		return "empty"
	case bytes.Equal(id, ref.DefaultUID):
		return "default"
	case len(id) >= 8000:
		return fmt.Sprintf("len=%d", len(id))
	case len(id) <= 2:
		return fmt.Sprintf("len=%d", len(id))
	default:
		return "other"
	}
}

func effID(id []byte) []byte {
	if len(id) == 0 {
		return ref.DefaultUID
	}
	return id
}

func runC01(c *Ctx) {
	rep := c.Rep
	rep.Meta("sign cases: (key class, message length, ID class, nonce stream) through Sm2Sign and PrivateKey.Sign with a recording reader; monitor recovers the nonce k' = s(1+d)+rd and checks r = (e + x([k']G)) mod n with e, ZA recomputed by the reference, ranges, r+k' != n, determinism in the reader bytes, pairwise-distinct r and k' across different streams, and acceptance by all three verifiers. reject cases: every single-field perturbation of a valid tuple (message, ID, key, r, s, DER encoding) evaluated by gmsm and by the reference verifier + a strict DER reader; gmsm must reject whatever the reference rejects; the DER manglings also go through the x509 consumer (Certificate.CheckSignature). histories: sign/verify sequences on one key whose ID and message buffers are edited in place between calls (answers must follow the current contents). Distinct non-trivial = distinct class keys (key class x message length x ID class x stream class; perturbation kind x API).",
		2000, []string{"ref SM2 sign/verify/ZA (GM/T 0003.5 signature example at start of run)", "strict DER reader in the harness"},
		[]string{"retry branches r=0, r+k=n, s=0 are unreachable by sampling", "IDs >= 8192 bytes are outside the quantifier"})
	rk := c.Rng("keys")
	keys := keyClasses(rk, c.Q(6, 60), c.Thorough)
	lens := msgLens(c)
	rid := c.Rng("ids")
	ids := [][]byte{nil, {}, ref.DefaultUID, {0x41}, {0x41, 0x42}, rid.Bytes(8191), rid.Bytes(8190), rid.Bytes(17), []byte("Alice@example.com")}
	if c.Thorough {
		for l := 3; l <= 64; l++ {
			ids = append(ids, rid.Bytes(l))
		}
	}
	type signed struct {
		key  testKey
		msg  []byte
		id   []byte
		r, s *big.Int
	}
	var mu sync.Mutex
	var pool []signed
	seenR := map[string]string{}
	seenK := map[string]string{}

	nSign := c.Q(1500, 30000)
	Par(nSign, func(i int) {
		r := c.Rng(fmt.Sprintf("sign%d", i))
		key := keys[i%len(keys)]
		ml := lens[(i/len(keys))%len(lens)]
		if i%97 == 0 {
			ml = 65536
		}
		msg := r.Bytes(ml)
		id := ids[(i/7)%len(ids)]
		// nonce stream
		streamCls := "random"
		seed := r.U64()
		mkReader := func() *mon.RecReader {
			return &mon.RecReader{Src: mon.StreamSrc(seed), Budget: 40 * 64}
		}
		switch i % 23 {
		case 0:
			streamCls = "all-zero"
			mkReader = func() *mon.RecReader { return &mon.RecReader{Src: mon.ConstSrc(0), Budget: 40 * 64} }
		case 1:
			streamCls = "all-ff"
			mkReader = func() *mon.RecReader { return &mon.RecReader{Src: mon.ConstSrc(0xff), Budget: 40 * 64} }
		case 2:
			streamCls = "random-short-reads"
			mkReader = func() *mon.RecReader {
				return &mon.RecReader{Src: mon.StreamSrc(seed), Short: true, Budget: 40 * 64}
			}
		}
		cls := fmt.Sprintf("sign/%s/mlen=%d/id=%s/%s", key.cls, ml, idClass(id), streamCls)
		w := map[string]interface{}{"d": key.d.Text(16), "msg": mon.Hex(msg), "id": mon.Hex(id), "id_class": idClass(id), "stream": streamCls, "stream_seed": seed}
		priv := key.priv()
		rd1, rd2 := mkReader(), mkReader()
		rd2.Short = true // the same byte stream in short reads: chunking must not matter
		var R, S, R2, S2 *big.Int
		var err, err2 error
		if pi := mon.Guard(func() {
			R, S, err = sm2.Sm2Sign(priv, msg, id, rd1)
			keepInt("sm2.Sm2Sign.r", R)
			keepInt("sm2.Sm2Sign.s", S)
			R2, S2, err2 = sm2.Sm2Sign(key.priv(), msg, id, rd2)
		}); pi != nil {
			rep.Violation("C01/Sm2Sign/panic/"+pi.Func, pi.Value, w)
			rep.Eval(cls)
			return
		}
		if err != nil || err2 != nil {
			sym := "error"
			if rd1.Exceeded {
				sym = "nonce-budget-exhausted(64-nonces-without-result)"
			}
			rep.Violation("C01/Sm2Sign/"+sym, fmt.Sprint(err, err2), w)
			rep.Eval(cls)
			return
		}
		w["r"], w["s"] = R.Text(16), S.Text(16)
		one := big.NewInt(1)
		nm1 := new(big.Int).Sub(ref.N, one)
		if R.Cmp(one) < 0 || R.Cmp(nm1) > 0 || S.Cmp(one) < 0 || S.Cmp(nm1) > 0 {
			rep.Violation("C01/Sm2Sign/r-or-s-out-of-range", fmt.Sprintf("r=%x s=%x", R, S), w)
		}
		if R.Cmp(R2) != 0 || S.Cmp(S2) != 0 {
			rep.Violation("C01/Sm2Sign/not-determined-by-reader-bytes", "same key, message, ID and reader bytes gave different signatures", w)
		}
		if rd1.Served < 32 {
			rep.Violation("C01/Sm2Sign/consumed-fewer-than-32-nonce-bytes", fmt.Sprint(rd1.Served), w)
		}
		// conformance: recover k' and recompute r by the standard
		kp := ref.RecoverK(key.d, R, S)
		e := ref.E(key.x, key.y, effID(id), msg)
		if kp.Sign() == 0 {
			rep.Violation("C01/Sm2Sign/nonce-zero", "", w)
		} else {
			kg := ref.MulG(kp)
			wr := new(big.Int).Add(e, kg.X)
			wr.Mod(wr, ref.N)
			if wr.Cmp(R) != 0 {
				rep.Violation("C01/Sm2Sign/not-the-standard-pair/"+idKey(id)+"/"+key.cls, fmt.Sprintf("r=%x but (e + x([k']G)) mod n = %x for the nonce k'=%x implied by (r,s,d)", R, wr, kp), w)
			}
			if new(big.Int).Add(R, kp).Cmp(ref.N) == 0 {
				rep.Violation("C01/Sm2Sign/r+k=n-not-rejected", "", w)
			}
			// cross-check: the reference signing with k' yields the same (r,s)
			if r3, s3, ok := ref.SignWithK(key.d, kp, key.x, key.y, effID(id), msg); !ok || r3.Cmp(R) != 0 || s3.Cmp(S) != 0 {
				rep.Violation("C01/Sm2Sign/reference-signing-with-recovered-nonce-differs/"+idKey(id), "", w)
			}
		}
		// nonce freshness across streams
		if streamCls == "random" || streamCls == "random-short-reads" {
			mu.Lock()
			tag := fmt.Sprintf("case%d", i)
			if prev, dup := seenK[kp.Text(16)]; dup {
				rep.Violation("C01/Sm2Sign/nonce-repeated-across-different-streams", prev+" and "+tag+" used the same nonce k'", w)
			}
			seenK[kp.Text(16)] = tag
			if prev, dup := seenR[R.Text(16)]; dup {
				rep.Violation("C01/Sm2Sign/r-repeated-across-different-streams", prev+" and "+tag, w)
			}
			seenR[R.Text(16)] = tag
			mu.Unlock()
		}
		// completeness: all verifiers accept
		var okA, okB, okRef bool
		if pi := mon.Guard(func() {
			okA = sm2.Sm2Verify(key.pub(), msg, id, R, S)
			okB = sm2.Verify(key.pub(), ref.Pad32(e), R, S)
		}); pi != nil {
			rep.Violation("C01/Sm2Verify/panic/"+pi.Func, pi.Value, w)
		}
		okRef = ref.VerifyE(key.x, key.y, e, R, S)
		if !okA {
			rep.Violation("C01/Sm2Verify/rejects-own-signature/"+idKey(id)+"/"+key.cls, "", w)
		}
		if !okB {
			rep.Violation("C01/Verify(hash)/rejects-own-signature/"+key.cls, "", w)
		}
		if !okRef {
			rep.Violation("C01/Sm2Sign/reference-verifier-rejects/"+idKey(id)+"/"+key.cls, "", w)
		}
		// PrivateKey.Sign (DER, default ID) with the same reader bytes must be the DER of the default-ID signature
		if len(id) == 0 || bytes.Equal(id, ref.DefaultUID) {
			var der []byte
			var derr error
			rd3 := mkReader()
			if pi := mon.Guard(func() { der, derr = key.priv().Sign(rd3, msg, nil); keep("sm2.PrivateKey.Sign", der) }); pi != nil {
				rep.Violation("C01/PrivateKey.Sign/panic/"+pi.Func, pi.Value, w)
			} else if derr != nil {
				rep.Violation("C01/PrivateKey.Sign/error", derr.Error(), w)
			} else {
				r4, s4, ok := strictDERSig(der)
				if !ok {
					rep.Violation("C01/PrivateKey.Sign/not-strict-DER", mon.Hex(der), w)
				} else if r4.Cmp(R) != 0 || s4.Cmp(S) != 0 {
					rep.Violation("C01/PrivateKey.Sign/differs-from-Sm2Sign-for-same-nonce", "", w)
				}
				var okC bool
				mon.Guard(func() { okC = key.pub().Verify(msg, der) })
				if !okC {
					rep.Violation("C01/PublicKey.Verify/rejects-own-signature/"+key.cls, mon.Hex(der), w)
				}
			}
		}
		rep.Eval(cls)
		if i < 400 || i%5 == 0 {
			mu.Lock()
			if len(pool) < c.Q(500, 4000) {
				pool = append(pool, signed{key, msg, id, R, S})
			}
			mu.Unlock()
		}
		if i == 3 {
			rep.Sample(map[string]interface{}{"kind": "sign", "class": cls, "d": key.d.Text(16), "msg_len": ml, "id_class": idClass(id), "r": R.Text(16), "s": S.Text(16), "recovered_nonce": kp.Text(16), "reader_bytes": rd1.Served})
		}
	})
	rep.Count("signatures_with_distinct_r", int64(len(seenR)))
	rep.Count("signatures_with_distinct_nonce", int64(len(seenK)))

	// ---- the default randomness (nil reader): long series of signatures in one process — every signature is the standard
	// pair for the nonce it implies, and no nonce or r ever repeats, within a series or across keys
	{
		seenK, seenR := map[string]string{}, map[string]string{}
		for ki := 0; ki < 3 && ki < len(keys); ki++ {
			key := keys[len(keys)-1-ki]
			msg := []byte("one message signed many times")
			for i := 0; i < c.Q(120, 2000); i++ {
				var R, S *big.Int
				var err error
				tag := fmt.Sprintf("key%d/signature%d", ki, i)
				w := map[string]interface{}{"d": key.d.Text(16), "series_index": i, "reader": "nil (library default)"}
				if pi := mon.Guard(func() {
					if i%2 == 0 {
						R, S, err = sm2.Sm2Sign(key.priv(), msg, nil, nil)
					} else {
						var der []byte
						der, err = key.priv().Sign(nil, msg, nil)
						if err == nil {
							var ok bool
							if R, S, ok = strictDERSig(der); !ok {
								err = fmt.Errorf("not strict DER: %x", der)
							}
						}
					}
				}); pi != nil {
					rep.Violation("C01/default-randomness/panic/"+pi.Func, pi.Value, w)
					break
				}
				if err != nil {
					rep.Violation("C01/default-randomness/sign-error", err.Error(), w)
					break
				}
				kp := ref.RecoverK(key.d, R, S)
				if r3, s3, ok := ref.SignWithK(key.d, kp, key.x, key.y, ref.DefaultUID, msg); !ok || r3.Cmp(R) != 0 || s3.Cmp(S) != 0 {
					rep.Violation("C01/default-randomness/not-the-standard-pair", "", w)
				}
				if prev, dup := seenK[kp.Text(16)]; dup {
					rep.Violation("C01/default-randomness/nonce-repeated", prev+" and "+tag+" used the same nonce", w)
					break
				}
				seenK[kp.Text(16)] = tag
				if prev, dup := seenR[R.Text(16)]; dup {
					rep.Violation("C01/default-randomness/r-repeated", prev+" and "+tag, w)
					break
				}
				seenR[R.Text(16)] = tag
			}
			rep.Eval(fmt.Sprintf("default-randomness/series/%s", key.cls))
		}
		rep.Count("signatures_with_default_randomness", int64(len(seenK)))
	}

	// ---- the digest-taking verifier with digests in every length the library itself produces: PublicKey.Sm3Digest returns
	// e without leading zero bytes, so for one message in 256 the digest has 31 bytes (one in 65536: 30)
	{
		rd := c.Rng("shortdigest")
		key := keys[0]
		found := 0
		for i := 0; i < 200000 && found < c.Q(6, 40); i++ {
			msg := rd.Bytes(20)
			e := ref.E(key.x, key.y, ref.DefaultUID, msg)
			if e.BitLen() > 248 {
				continue
			}
			found++
			k := new(big.Int).SetBytes(rd.Bytes(31))
			k.Add(k, big.NewInt(1))
			R, S, ok := ref.SignWithK(key.d, k, key.x, key.y, ref.DefaultUID, msg)
			if !ok {
				continue
			}
			w := map[string]interface{}{"d": key.d.Text(16), "msg": mon.Hex(msg), "e": e.Text(16), "r": R.Text(16), "s": S.Text(16)}
			var libDigest []byte
			var derr error
			var vPad, vMin, vLib, vMsg bool
			if pi := mon.Guard(func() {
				libDigest, derr = key.pub().Sm3Digest(msg, nil)
				vPad = sm2.Verify(key.pub(), ref.Pad32(e), R, S)
				vMin = sm2.Verify(key.pub(), e.Bytes(), R, S)
				if derr == nil {
					vLib = sm2.Verify(key.pub(), libDigest, R, S)
				}
				vMsg = sm2.Sm2Verify(key.pub(), msg, nil, R, S)
			}); pi != nil {
				rep.Violation("C01/Verify(hash)/panic/"+pi.Func+"/short-digest", pi.Value, w)
				continue
			}
			if derr != nil || new(big.Int).SetBytes(libDigest).Cmp(e) != 0 {
				rep.Violation("C01/Sm3Digest/not-the-standard-e", fmt.Sprintf("%v %x", derr, libDigest), w)
			}
			if !vMsg || !vPad {
				rep.Violation("C01/Sm2Verify/rejects-valid/short-e", fmt.Sprintf("message form %v, 32-byte digest %v", vMsg, vPad), w)
			}
			if !vMin || (derr == nil && !vLib) {
				rep.Violation("C01/Verify(hash)/rejects-valid/digest-shorter-than-32-bytes", fmt.Sprintf("minimal-length digest (%d bytes) %v, the library's own Sm3Digest output (%d bytes) %v", len(e.Bytes()), vMin, len(libDigest), vLib), w)
			}
			rep.Eval(fmt.Sprintf("verify/digest-with-%d-significant-bytes", len(e.Bytes())))
		}
		rep.Count("messages_whose_e_has_leading_zero_bytes", int64(found))
		rep.Require("messages_whose_e_has_leading_zero_bytes", 1)
	}

	// ---- histories on one key with caller buffers edited in place between calls (run serially, nothing in between):
	// an answer must depend on the *contents* of message and ID at the time of the call, not on what an earlier call saw
	{
		rh := c.Rng("reuse")
		nk := len(keys)
		if nk > c.Q(10, 40) {
			nk = c.Q(10, 40)
		}
		for ki := 0; ki < nk; ki++ {
			key := keys[ki]
			for _, il := range []int{1, 16, 17, 100} {
				uid, msg := rh.Bytes(il), rh.Bytes(1+rh.Intn(80))
				w := map[string]interface{}{"d": key.d.Text(16), "id_len": il, "history": "sign(id,msg); edit id in place; verify; sign; edit msg in place; verify"}
				standard := func(tag string, R, S *big.Int, id, m []byte) {
					kp := ref.RecoverK(key.d, R, S)
					if r3, s3, ok := ref.SignWithK(key.d, kp, key.x, key.y, effID(id), m); !ok || r3.Cmp(R) != 0 || s3.Cmp(S) != 0 {
						rep.Violation("C01/history/"+tag+"/not-the-standard-pair-for-the-current-buffer-contents", "", w)
					}
				}
				var R, S, R2, S2 *big.Int
				var err error
				var v1, v2, v3, v4, v5 bool
				if pi := mon.Guard(func() {
					R, S, err = sm2.Sm2Sign(key.priv(), msg, uid, io.Reader(mon.NewRNG(rh.U64())))
					if err != nil {
						return
					}
					standard("first-sign", R, S, uid, msg)
					idBefore := append([]byte{}, uid...)
					uid[rh.Intn(len(uid))] ^= 0x01 // same slice, new contents
					v1 = sm2.Sm2Verify(key.pub(), msg, uid, R, S)
					R2, S2, err = sm2.Sm2Sign(key.priv(), msg, uid, io.Reader(mon.NewRNG(rh.U64())))
					if err != nil {
						return
					}
					standard("sign-after-id-edit", R2, S2, uid, msg)
					v2 = sm2.Sm2Verify(key.pub(), msg, uid, R2, S2)
					v3 = sm2.Sm2Verify(key.pub(), msg, idBefore, R2, S2)
					msg[rh.Intn(len(msg))] ^= 0x80
					v4 = sm2.Sm2Verify(key.pub(), msg, uid, R2, S2)
					msg[0] ^= 0 // no-op
					copy(uid, idBefore)
					v5 = sm2.Sm2Verify(key.pub(), msg, uid, R, S) // message still edited: must fail
				}); pi != nil {
					rep.Violation("C01/history/panic/"+pi.Func, pi.Value, w)
					continue
				}
				if err != nil {
					rep.Violation("C01/history/sign-error", err.Error(), w)
					continue
				}
				if v1 {
					rep.Violation("C01/history/signature-for-ID-verifies-under-the-edited-ID", "", w)
				}
				if !v2 {
					rep.Violation("C01/history/own-signature-rejected-after-id-edit", "", w)
				}
				if v3 {
					rep.Violation("C01/history/signature-for-edited-ID-verifies-under-the-old-ID", "", w)
				}
				if v4 || v5 {
					rep.Violation("C01/history/signature-verifies-after-message-edited-in-place", "", w)
				}
				rep.Eval(fmt.Sprintf("history/in-place-edits/%s/idlen=%d", key.cls, il))
			}
		}
	}

	// ---- dense length sweeps: what SM3 sees is ZA‖M (32 bytes in front of the message) and, for ZA itself,
	// ENTL‖ID‖a‖b‖G‖P (194 bytes around the ID), so the hash's block and padding boundaries lie at message and ID
	// lengths that are not round numbers (23, 24, 87, ...; 53, 54, 117, ...). Every message length 0..200 and every ID
	// length 1..200, each compared with the reference pair for the nonce the signature implies, and verified by the
	// reference verifier and by gmsm.
	{
		rs := c.Rng("length-sweeps")
		sweepKeys := []testKey{keys[0], keys[len(keys)/2]}
		for ki, key := range sweepKeys {
			for l := 0; l <= 200; l++ {
				for _, which := range []string{"msg", "id"} {
					msg, id := rs.Bytes(l), ref.DefaultUID
					if which == "id" {
						if l == 0 {
							continue
						}
						msg, id = rs.Bytes(20), rs.Bytes(l)
					}
					if ki == 1 && l%3 != 0 && !c.Thorough {
						continue
					}
					w := map[string]interface{}{"d": key.d.Text(16), "msg": mon.Hex(msg), "id": mon.Hex(id), "swept": which, "length": l}
					var R, S *big.Int
					var err error
					var ok1 bool
					if pi := mon.Guard(func() {
						R, S, err = sm2.Sm2Sign(key.priv(), msg, id, io.Reader(mon.NewRNG(rs.U64())))
						if err == nil {
							ok1 = sm2.Sm2Verify(key.pub(), msg, id, R, S)
						}
					}); pi != nil || err != nil {
						rep.Violation("C01/length-sweep/sign-fails/"+which, fmt.Sprint(pi, err), w)
						continue
					}
					kp := ref.RecoverK(key.d, R, S)
					if r3, s3, ok := ref.SignWithK(key.d, kp, key.x, key.y, id, msg); !ok || r3.Cmp(R) != 0 || s3.Cmp(S) != 0 {
						rep.Violation("C01/Sm2Sign/not-the-standard-pair/length-sweep/"+which, fmt.Sprintf("%s length %d: the pair is not the standard's for the nonce it implies", which, l), w)
					}
					if !ref.Verify(key.x, key.y, id, msg, R, S) {
						rep.Violation("C01/Sm2Sign/reference-verifier-rejects/length-sweep/"+which, fmt.Sprintf("%s length %d", which, l), w)
					}
					if !ok1 {
						rep.Violation("C01/Sm2Verify/rejects-valid/length-sweep/"+which, fmt.Sprintf("%s length %d", which, l), w)
					}
					// a reference-made signature (independent hash) must verify under gmsm
					kr := new(big.Int).SetBytes(rs.Bytes(31))
					kr.Add(kr, big.NewInt(1))
					if r4, s4, ok := ref.SignWithK(key.d, kr, key.x, key.y, id, msg); ok {
						var okv bool
						if pi := mon.Guard(func() { okv = sm2.Sm2Verify(key.pub(), msg, id, r4, s4) }); pi != nil || !okv {
							rep.Violation("C01/Sm2Verify/rejects-reference-signature/length-sweep/"+which, fmt.Sprintf("%s length %d", which, l), w)
						}
					}
					rep.Eval(fmt.Sprintf("length-sweep/%s=%d", which, l))
				}
			}
		}
	}

	// ---- the default user ID from many goroutines with DIFFERENT keys: whatever is precomputed for the default ID (it is
	// what Sign, Verify, x509 and gmtls always use) is shared by everybody; every ZA and every e = H(ZA || M) computed
	// concurrently must be the sequential one
	{
		type want struct {
			key    testKey
			za, dg []byte
		}
		var ws []want
		msg := []byte("concurrent default-ID digest")
		for i, k := range keys {
			if i >= 12 {
				break
			}
			za, e1 := sm2.ZA(k.pub(), nil)
			dg, e2 := k.pub().Sm3Digest(msg, nil)
			if e1 != nil || e2 != nil {
				continue
			}
			ws = append(ws, want{k, za, dg})
		}
		var mu sync.Mutex
		wrong := 0
		total := 0
		var wg sync.WaitGroup
		for g := 0; g < 16; g++ {
			wg.Add(1)
			go func(g int) {
				defer wg.Done()
				bad, n := 0, 0
				for i := 0; i < c.Q(1500, 30000); i++ {
					w := ws[(g+i)%len(ws)]
					var za, dg []byte
					if pi := mon.Guard(func() {
						if i%2 == 0 {
							za, _ = sm2.ZA(w.key.pub(), nil)
						} else {
							dg, _ = w.key.pub().Sm3Digest(msg, nil)
						}
					}); pi != nil {
						bad++
						continue
					}
					n++
					if (za != nil && !bytes.Equal(za, w.za)) || (dg != nil && !bytes.Equal(dg, w.dg)) {
						bad++
					}
				}
				mu.Lock()
				wrong += bad
				total += n
				mu.Unlock()
			}(g)
		}
		wg.Wait()
		if wrong > 0 {
			rep.Violation("C01/ZA-or-Sm3Digest/concurrent-result-differs-from-sequential/default-ID", fmt.Sprintf("%d of %d computations by 16 goroutines with different keys", wrong, total), nil)
		}
		rep.Count("default_id_digests_computed_concurrently", int64(total))
		rep.Eval("concurrent/default-ID/ZA+Sm3Digest")
	}

	// ---- inputs that are sub-slices of one live record buffer (ID‖message, message‖ID, message‖signature): each slice has
	// spare capacity that IS the next field. The result must be the one separate copies give (same nonce stream -> same
	// pair), and not a byte of the buffer may change.
	{
		rl := c.Rng("layout")
		nk := len(keys)
		if nk > c.Q(6, 30) {
			nk = c.Q(6, 30)
		}
		for ki := 0; ki < nk; ki++ {
			key := keys[ki]
			for _, il := range []int{1, 16, 100} {
				for _, ml := range []int{1, 31, 200, 300} {
					id0, msg0 := rl.Bytes(il), rl.Bytes(ml)
					seed := rl.U64()
					w := map[string]interface{}{"d": key.d.Text(16), "id": mon.Hex(id0), "msg": mon.Hex(msg0), "nonce_seed": seed}
					var R0, S0 *big.Int
					var err0 error
					if pi := mon.Guard(func() {
						R0, S0, err0 = sm2.Sm2Sign(key.priv(), append([]byte{}, msg0...), append([]byte{}, id0...), io.Reader(mon.NewRNG(seed)))
					}); pi != nil || err0 != nil {
						rep.Violation("C01/layout/sign-with-separate-copies-failed", fmt.Sprint(pi, err0), w)
						continue
					}
					for _, order := range []string{"id|msg", "msg|id"} {
						var sb *sharedBuf
						var id, msg []byte
						if order == "id|msg" {
							b, parts := newSharedBuf(id0, msg0)
							sb, id, msg = b, parts[0], parts[1]
						} else {
							b, parts := newSharedBuf(msg0, id0)
							sb, msg, id = b, parts[0], parts[1]
						}
						w["layout"] = order
						step := func(op string, f func()) bool {
							if pi := mon.Guard(f); pi != nil {
								rep.Violation("C01/layout/panic/"+pi.Func, op+": "+pi.Value, w)
								return false
							}
							if ch := sb.Check(); ch != "" {
								rep.Violation("C01/layout/"+op+"/writes-caller-memory", ch+" (layout "+order+")", w)
								sb.Restore()
							}
							return true
						}
						var R, S *big.Int
						var err error
						if !step("Sm2Sign", func() { R, S, err = sm2.Sm2Sign(key.priv(), msg, id, io.Reader(mon.NewRNG(seed))) }) {
							continue
						}
						if err != nil || R.Cmp(R0) != 0 || S.Cmp(S0) != 0 {
							rep.Violation("C01/layout/Sm2Sign/result-differs-from-separate-copies", fmt.Sprintf("layout %s err=%v", order, err), w)
						}
						var ok, ok2 bool
						step("Sm2Verify", func() { ok = sm2.Sm2Verify(key.pub(), msg, id, R0, S0) })
						if !ok {
							rep.Violation("C01/layout/Sm2Verify/rejects-valid", "layout "+order, w)
						}
						var za, za0, dg, dg0 []byte
						step("ZA", func() { za, _ = sm2.ZA(key.pub(), id) })
						za0, _ = sm2.ZA(key.pub(), append([]byte{}, id0...))
						step("Sm3Digest", func() { dg, _ = key.pub().Sm3Digest(msg, id) })
						dg0, _ = key.pub().Sm3Digest(append([]byte{}, msg0...), append([]byte{}, id0...))
						if !bytes.Equal(za, za0) || !bytes.Equal(dg, dg0) {
							rep.Violation("C01/layout/ZA-or-Sm3Digest/result-differs-from-separate-copies", "layout "+order, w)
						}
						// after all these calls the buffer still holds the same message: a changed message must still be rejected
						msg[len(msg)-1] ^= 1
						if pi := mon.Guard(func() { ok2 = sm2.Sm2Verify(key.pub(), msg, id, R0, S0) }); pi == nil && ok2 {
							rep.Violation("C01/layout/Sm2Verify/accepts-changed-message", "layout "+order, w)
						}
						rep.Eval(fmt.Sprintf("layout/%s/%s/idlen=%d/msglen=%d", order, key.cls, il, ml))
					}
					delete(w, "layout")
					// DER form: message‖signature in one buffer (default ID)
					var der []byte
					var derr error
					if pi := mon.Guard(func() { der, derr = key.priv().Sign(io.Reader(mon.NewRNG(seed)), append([]byte{}, msg0...), nil) }); pi != nil || derr != nil {
						rep.Violation("C01/layout/PrivateKey.Sign-failed", fmt.Sprint(pi, derr), w)
						continue
					}
					sb, parts := newSharedBuf(msg0, der)
					var okv bool
					var der2 []byte
					if pi := mon.Guard(func() { okv = key.pub().Verify(parts[0], parts[1]) }); pi != nil {
						rep.Violation("C01/layout/panic/"+pi.Func, "PublicKey.Verify: "+pi.Value, w)
					} else if ch := sb.Check(); ch != "" {
						rep.Violation("C01/layout/PublicKey.Verify/writes-caller-memory", ch, w)
						sb.Restore()
					} else if !okv {
						rep.Violation("C01/layout/PublicKey.Verify/rejects-valid", "message|signature in one buffer", w)
					}
					if pi := mon.Guard(func() { der2, derr = key.priv().Sign(io.Reader(mon.NewRNG(seed)), parts[0], nil) }); pi != nil {
						rep.Violation("C01/layout/panic/"+pi.Func, "PrivateKey.Sign: "+pi.Value, w)
					} else if ch := sb.Check(); ch != "" {
						rep.Violation("C01/layout/PrivateKey.Sign/writes-caller-memory", ch, w)
					} else if derr != nil || !bytes.Equal(der2, der) {
						rep.Violation("C01/layout/PrivateKey.Sign/result-differs-from-separate-copy", fmt.Sprint(derr), w)
					}
					rep.Eval(fmt.Sprintf("layout/msg|sig/%s/msglen=%d", key.cls, ml))
				}
			}
		}
	}

	// ---- rejection: single-field perturbations
	other := mkKey("other", new(big.Int).SetBytes(c.Rng("otherkey").Bytes(31)))
	Par(len(pool), func(i int) {
		sg := pool[i]
		r := c.Rng(fmt.Sprintf("pert%d", i))
		flip := func(b []byte) []byte {
			if len(b) == 0 {
				return []byte{0x01}
			}
			x := append([]byte{}, b...)
			x[r.Intn(len(x))] ^= 1 << uint(r.Intn(8))
			return x
		}
		type pert struct {
			name string
			pub  *sm2.PublicKey
			px   *big.Int
			py   *big.Int
			msg  []byte
			id   []byte
			r, s *big.Int
		}
		base := func(name string) pert {
			return pert{name, sg.key.pub(), sg.key.x, sg.key.y, sg.msg, sg.id, sg.r, sg.s}
		}
		var ps []pert
		add := func(p pert) { ps = append(ps, p) }
		p := base("none(control)")
		add(p)
		p = base("msg-bitflip")
		p.msg = flip(sg.msg)
		add(p)
		p = base("msg-append")
		p.msg = append(append([]byte{}, sg.msg...), 0)
		add(p)
		if len(sg.msg) > 0 {
			p = base("msg-truncate")
			p.msg = sg.msg[:len(sg.msg)-1]
			add(p)
		}
		p = base("id-bitflip")
		p.id = flip(effID(sg.id))
		add(p)
		p = base("id-other-length")
		p.id = append(append([]byte{}, effID(sg.id)...), 0x31)
		if len(p.id) >= 8192 {
			p.id = p.id[:8000]
		}
		add(p)
		if len(sg.id) != 0 && !bytes.Equal(sg.id, ref.DefaultUID) {
			p = base("id-replaced-by-default")
			p.id = nil
			add(p)
		}
		p = base("other-key")
		p.pub, p.px, p.py = other.pub(), other.x, other.y
		add(p)
		p = base("pub-x+1(off-curve)")
		p.px = new(big.Int).Add(sg.key.x, big.NewInt(1))
		p.pub = &sm2.PublicKey{Curve: sm2.P256Sm2(), X: p.px, Y: new(big.Int).Set(sg.key.y)}
		add(p)
		p = base("pub-negated-y")
		p.py = new(big.Int).Sub(ref.P, sg.key.y)
		p.pub = &sm2.PublicKey{Curve: sm2.P256Sm2(), X: new(big.Int).Set(sg.key.x), Y: p.py}
		add(p)
		n := ref.N
		two256 := new(big.Int).Sub(new(big.Int).Lsh(big.NewInt(1), 256), big.NewInt(1))
		for _, rv := range []struct {
			n string
			v *big.Int
		}{{"r=0", new(big.Int)}, {"r=n", n}, {"r=n+r", new(big.Int).Add(n, sg.r)}, {"r=-r", new(big.Int).Neg(sg.r)}, {"r=2^256-1", two256}, {"r=r+1", new(big.Int).Add(sg.r, big.NewInt(1))}, {"r=n-r", new(big.Int).Sub(n, sg.r)}} {
			p = base(rv.n)
			p.r = rv.v
			add(p)
		}
		for _, sv := range []struct {
			n string
			v *big.Int
		}{{"s=0", new(big.Int)}, {"s=n", n}, {"s=n+s", new(big.Int).Add(n, sg.s)}, {"s=-s", new(big.Int).Neg(sg.s)}, {"s=2^256-1", two256}, {"s=s+1", new(big.Int).Add(sg.s, big.NewInt(1))}, {"s=n-r(r+s=0)", new(big.Int).Sub(n, sg.r)}, {"s=n-s", new(big.Int).Sub(n, sg.s)}} {
			p = base(sv.n)
			p.s = sv.v
			add(p)
		}
		p = base("swap-r-s")
		p.r, p.s = sg.s, sg.r
		add(p)
		for _, pt := range ps {
			eff := effID(pt.id)
			want := false
			inRange := pt.r.Sign() > 0 && pt.s.Sign() > 0 && pt.r.Cmp(n) < 0 && pt.s.Cmp(n) < 0
			if inRange {
				want = ref.Verify(pt.px, pt.py, eff, pt.msg, pt.r, pt.s)
			}
			var got, gotH bool
			w := map[string]interface{}{"perturbation": pt.name, "d": sg.key.d.Text(16), "msg": mon.Hex(pt.msg), "id": mon.Hex(pt.id), "r": pt.r.Text(16), "s": pt.s.Text(16), "px": pt.px.Text(16), "py": pt.py.Text(16)}
			if pi := mon.Guard(func() {
				got = sm2.Sm2Verify(pt.pub, pt.msg, pt.id, pt.r, pt.s)
				gotH = sm2.Verify(pt.pub, ref.Pad32(ref.E(pt.px, pt.py, eff, pt.msg)), pt.r, pt.s)
			}); pi != nil {
				rep.Violation("C01/Sm2Verify/panic/"+pi.Func+"/"+pt.name, pi.Value, w)
				continue
			}
			if got && !want {
				rep.Violation("C01/Sm2Verify/accepts/"+pt.name, "gmsm accepts a tuple the standard rejects", w)
			}
			if gotH && !want {
				rep.Violation("C01/Verify(hash)/accepts/"+pt.name, "gmsm accepts a tuple the standard rejects", w)
			}
			if want && (!got || !gotH) {
				rep.Violation("C01/Sm2Verify/rejects-valid/"+pt.name, "", w)
			}
			if pt.name == "none(control)" && !want {
				rep.Violation("C01/harness/control-rejected-by-reference", "", w)
			}
			rep.Eval("reject/Sm2Verify/" + pt.name)
			rep.Count("perturbations", 1)
		}
		// the digest-taking form lets the caller choose e: with s = n - r (so t = r + s = 0 mod n) the point [s]G + [t]P is
		// [s]G whatever the key, and e := r - x([s]G) makes the final comparison come out equal — a forgery for *every*
		// public key unless t = 0 is rejected. (Through the message-taking forms e cannot be chosen, which is why the
		// t = 0 check is invisible there.)
		for k := 0; k < 2; k++ {
			fr := new(big.Int).SetBytes(r.Bytes(32))
			fr.Mod(fr, new(big.Int).Sub(ref.N, big.NewInt(1))).Add(fr, big.NewInt(1))
			fs := new(big.Int).Sub(ref.N, fr)
			if fs.Sign() == 0 {
				continue
			}
			x1 := ref.MulG(fs).X
			fe := new(big.Int).Sub(fr, x1)
			fe.Mod(fe, ref.N)
			w := map[string]interface{}{"forgery": "s = n - r, e = r - x([s]G)", "r": fr.Text(16), "s": fs.Text(16), "e": fe.Text(16), "px": sg.key.x.Text(16), "py": sg.key.y.Text(16)}
			var acc bool
			if pi := mon.Guard(func() { acc = sm2.Verify(sg.key.pub(), ref.Pad32(fe), fr, fs) }); pi != nil {
				rep.Violation("C01/Verify(hash)/panic/"+pi.Func+"/forged-digest", pi.Value, w)
			} else if acc && !ref.VerifyE(sg.key.x, sg.key.y, fe, fr, fs) {
				rep.Violation("C01/Verify(hash)/accepts/forged-digest-with-r+s=n", "a (digest, r, s) triple made without any private key verifies", w)
			}
			rep.Eval("reject/Verify(hash)/forged-digest-with-r+s=n")
		}
		// DER manglings through PublicKey.Verify (default ID only)
		if len(sg.id) == 0 || bytes.Equal(sg.id, ref.DefaultUID) {
			good := derSig(sg.r, sg.s)
			ri, si := derInt(sg.r), derInt(sg.s)
			body := append(append([]byte{}, ri...), si...)
			type dm struct {
				name string
				b    []byte
			}
			ms := []dm{
				{"control", good},
				{"long-form-length", append([]byte{0x30, 0x81, byte(len(body))}, body...)},
				{"trailing-byte", append(append([]byte{}, good...), 0x00)},
				{"trailing-inside-seq", append([]byte{0x30, byte(len(body) + 1)}, append(append([]byte{}, body...), 0x00)...)},
				{"truncated", good[:len(good)-1]},
				{"empty", nil},
				{"wrong-seq-tag", append([]byte{0x31}, good[1:]...)},
				{"int-tag-03", func() []byte { x := append([]byte{}, good...); x[2] = 0x03; return x }()},
				{"r-leading-zero-padded", func() []byte {
					v := append([]byte{0x02, byte(len(ri) - 2 + 1), 0x00}, ri[2:]...)
					b := append(v, si...)
					return append([]byte{0x30, byte(len(b))}, b...)
				}()},
				{"three-integers", func() []byte {
					b := append(append([]byte{}, body...), 0x02, 0x01, 0x01)
					return append([]byte{0x30, byte(len(b))}, b...)
				}()},
				{"one-integer", append([]byte{0x30, byte(len(ri))}, ri...)},
				{"nested-seq", append([]byte{0x30, byte(len(good))}, good...)},
				{"indefinite-length", append(append([]byte{0x30, 0x80}, body...), 0x00, 0x00)},
				{"r-negative-encoding", func() []byte {
					// encode n+r's two's complement trick: flip to a negative INTEGER of the same magnitude bytes
					v := sg.r.Bytes()
					v[0] |= 0x80
					x := append([]byte{0x02, byte(len(v))}, v...)
					b := append(x, si...)
					return append([]byte{0x30, byte(len(b))}, b...)
				}()},
				{"r=0", derSig(new(big.Int), sg.s)},
				{"s=n-r", derSig(sg.r, new(big.Int).Sub(n, sg.r))},
				{"r=n+r", derSig(new(big.Int).Add(n, sg.r), sg.s)},
				{"msg-bitflip", good},
			}
			for _, m := range ms {
				msg := sg.msg
				if m.name == "msg-bitflip" {
					msg = flip(sg.msg)
				}
				want := false
				if r0, s0, ok := strictDERSig(m.b); ok {
					if r0.Sign() > 0 && s0.Sign() > 0 && r0.Cmp(n) < 0 && s0.Cmp(n) < 0 {
						want = ref.Verify(sg.key.x, sg.key.y, ref.DefaultUID, msg, r0, s0)
					}
				}
				var got bool
				w := map[string]interface{}{"der_mangling": m.name, "der": mon.Hex(m.b), "d": sg.key.d.Text(16), "msg": mon.Hex(msg)}
				if pi := mon.Guard(func() { got = sg.key.pub().Verify(msg, m.b) }); pi != nil {
					rep.Violation("C01/PublicKey.Verify/panic/"+pi.Func+"/"+m.name, pi.Value, w)
					continue
				}
				if got && !want {
					rep.Violation("C01/PublicKey.Verify/accepts/"+m.name, "accepted although not a strict DER signature the standard accepts", w)
				}
				if want && !got {
					rep.Violation("C01/PublicKey.Verify/rejects-valid/"+m.name, "", w)
				}
				rep.Eval("reject/PublicKey.Verify/" + m.name)
				rep.Count("perturbations", 1)
				// the same signature through the x509 consumer (certificate / CSR / CRL checks parse the DER themselves)
				xc := &gx509.Certificate{PublicKey: &ecdsa.PublicKey{Curve: sm2.P256Sm2(), X: sg.key.x, Y: sg.key.y}, PublicKeyAlgorithm: gx509.ECDSA}
				var xerr error
				if pi := mon.Guard(func() { xerr = xc.CheckSignature(gx509.SM2WithSM3, msg, m.b) }); pi != nil {
					rep.Violation("C01/x509.CheckSignature/panic/"+pi.Func+"/"+m.name, pi.Value, w)
					continue
				}
				if xerr == nil && !want {
					rep.Violation("C01/x509.CheckSignature/accepts/"+m.name, "accepted although not a strict DER signature the standard accepts", w)
				}
				if want && xerr != nil {
					rep.Violation("C01/x509.CheckSignature/rejects-valid/"+m.name, xerr.Error(), w)
				}
				rep.Eval("reject/x509.CheckSignature/" + m.name)
			}
		}
		if i == 1 {
			rep.Sample(map[string]interface{}{"kind": "reject", "perturbations_per_tuple": len(ps), "example": "s := n-r  (r+s ≡ 0 mod n) must be rejected", "r": sg.r.Text(16)})
		}
	})
	// ID too large: only "no panic" (outside the quantifier)
	{
		k := keys[0]
		big8192 := make([]byte, 8192)
		if pi := mon.Guard(func() { sm2.Sm2Sign(k.priv(), []byte("m"), big8192, io.Reader(mon.NewRNG(1))) }); pi != nil {
			rep.Violation("C01/Sm2Sign/panic-on-8192-byte-id/"+pi.Func, pi.Value, nil)
		}
		rep.EvalTrivial("sign/id=8192(outside-quantifier,no-panic-only)")
	}
}

func idKey(id []byte) string {
	c := idClass(id)
	if c == "other" {
		return "id=other"
	}
	return "id=" + c
}
