package main

import (
	"fmt"
	"math/big"

	"github.com/tjfoc/gmsm/sm2"

	"verif/mon"
	"verif/ref"
)

var feOff = [9]uint{0, 29, 57, 86, 114, 143, 171, 200, 228}
var feMax = [9]uint32{0x1FFFFFFF, 0xFFFFFFF, 0x1FFFFFFF, 0xFFFFFFF, 0x1FFFFFFF, 0xFFFFFFF, 0x1FFFFFFF, 0xFFFFFFF, 0x1FFFFFFF}
var feRinv = new(big.Int).ModInverse(new(big.Int).Lsh(big.NewInt(1), 257), ref.P)

// feVal is the integer a limb vector denotes (independent of gmsm's ToBig): sum x[i]*2^off[i].
func feVal(x sm2.VerifFE) *big.Int {
	v := new(big.Int)
	for i := 8; i >= 0; i-- {
		t := new(big.Int).SetUint64(uint64(x[i]))
		t.Lsh(t, feOff[i])
		v.Add(v, t)
	}
	return v
}

// feElem is the field element denoted (Montgomery form, R = 2^257).
func feElem(x sm2.VerifFE) *big.Int {
	v := feVal(x)
	v.Mul(v, feRinv)
	return v.Mod(v, ref.P)
}

func feInBounds(x sm2.VerifFE) bool {
	for i := range x {
		if x[i] > feMax[i] {
			return false
		}
	}
	return true
}

func runC03Field(c *Ctx) {
	rep := c.Rep
	modp := func(v *big.Int) *big.Int { return v.Mod(v, ref.P) }
	checkOps := func(cls string, a, b sm2.VerifFE) {
		ea, eb := feElem(a), feElem(b)
		w := map[string]interface{}{"a_limbs": fmt.Sprintf("%x", a), "b_limbs": fmt.Sprintf("%x", b), "class": cls}
		type opT struct {
			name string
			got  func() sm2.VerifFE
			want *big.Int
		}
		ops := []opT{
			{"Mul", func() sm2.VerifFE { return sm2.VerifMul(a, b) }, modp(new(big.Int).Mul(ea, eb))},
			{"Square", func() sm2.VerifFE { return sm2.VerifSquare(a) }, modp(new(big.Int).Mul(ea, ea))},
			{"Add", func() sm2.VerifFE { return sm2.VerifAdd(a, b) }, modp(new(big.Int).Add(ea, eb))},
			{"Sub", func() sm2.VerifFE { return sm2.VerifSub(a, b) }, modp(new(big.Int).Sub(ea, eb))},
		}
		for _, o := range ops {
			var g sm2.VerifFE
			if pi := mon.Guard(func() { g = o.got() }); pi != nil {
				rep.Violation("C03/field/"+o.name+"/panic/"+pi.Func, pi.Value, w)
				continue
			}
			if feElem(g).Cmp(o.want) != 0 {
				rep.Violation("C03/field/"+o.name+"/wrong-value/"+cls, fmt.Sprintf("a=%x b=%x got %x (elem %x) want elem %x", a, b, g, feElem(g), o.want), w)
			}
			if !feInBounds(g) {
				// not a violation by itself (the representation is redundant), but recorded: chained ops below must still be right
				rep.Count("field_outputs_with_limb_above_nominal_width", 1)
			}
			// gmsm's ToBig must agree with the independent valuation
			if t := sm2.VerifToBig(g); t.Cmp(feElem(g)) != 0 {
				rep.Violation("C03/field/ToBig/wrong-value", fmt.Sprintf("limbs %x ToBig %x want %x", g, t, feElem(g)), w)
			}
		}
		rep.Eval("field/" + cls)
	}
	pat := [4]func(i int) uint32{
		func(i int) uint32 { return 0 }, func(i int) uint32 { return 1 },
		func(i int) uint32 { return feMax[i] - 1 }, func(i int) uint32 { return feMax[i] },
	}
	total := 1 << 18 // 4^9
	nPat := total
	if !c.Thorough {
		nPat = 40000
	} else {
		rep.Exhaustive("field limb patterns {0,1,max-1,max}^9 for the first operand (second operand: rotated pattern / random)")
	}
	rsel := c.Rng("fieldpat")
	Par(nPat, func(i int) {
		idx := i
		if !c.Thorough {
			idx = int(mon.Sub(rsel.U64()+uint64(i), fmt.Sprint(i)).U64() % uint64(total))
		}
		var a, b sm2.VerifFE
		x := idx
		for l := 0; l < 9; l++ {
			a[l] = pat[x&3](l)
			x >>= 2
		}
		r := c.Rng(fmt.Sprintf("fieldb%d", i))
		switch i % 3 {
		case 0: // another boundary pattern
			y := int(r.U64() % uint64(total))
			for l := 0; l < 9; l++ {
				b[l] = pat[y&3](l)
				y >>= 2
			}
		case 1: // random in-bounds limbs
			for l := 0; l < 9; l++ {
				b[l] = uint32(r.U64()) & feMax[l]
			}
		default: // a canonical element
			b = sm2.VerifFromBig(new(big.Int).SetBytes(r.Bytes(32)))
		}
		checkOps("limb-pattern", a, b)
	})
	// random + canonical values incl. 0, 1, p-1, 2^k
	Par(c.Q(10000, 400000), func(i int) {
		r := c.Rng(fmt.Sprintf("fieldr%d", i))
		mk := func() (sm2.VerifFE, string) {
			switch r.Intn(5) {
			case 0:
				var v *big.Int
				switch r.Intn(6) {
				case 0:
					v = new(big.Int)
				case 1:
					v = big.NewInt(1)
				case 2:
					v = new(big.Int).Sub(ref.P, big.NewInt(1))
				case 3:
					v = new(big.Int).Lsh(big.NewInt(1), uint(r.Intn(256)))
				case 4:
					v = new(big.Int).Sub(new(big.Int).Lsh(big.NewInt(1), uint(1+r.Intn(255))), big.NewInt(1))
				default:
					v = new(big.Int).Sub(ref.P, big.NewInt(int64(1+r.Intn(1000))))
				}
				v.Mod(v, ref.P)
				x := sm2.VerifFromBig(v)
				if feElem(x).Cmp(v) != 0 {
					rep.Violation("C03/field/FromBig/wrong-value", fmt.Sprintf("FromBig(%x) denotes %x", v, feElem(x)), map[string]interface{}{"v": v.Text(16)})
				}
				return x, "special"
			case 1:
				var x sm2.VerifFE
				for l := 0; l < 9; l++ {
					x[l] = uint32(r.U64()) & feMax[l]
				}
				return x, "random-limbs"
			default:
				v := new(big.Int).SetBytes(r.Bytes(32))
				v.Mod(v, ref.P)
				x := sm2.VerifFromBig(v)
				if feElem(x).Cmp(v) != 0 || !feInBounds(x) {
					rep.Violation("C03/field/FromBig/wrong-value", fmt.Sprintf("FromBig(%x) denotes %x limbs %x", v, feElem(x), x), map[string]interface{}{"v": v.Text(16)})
				}
				return x, "canonical"
			}
		}
		a, ca := mk()
		b, cb := mk()
		checkOps(ca+"*"+cb, a, b)
	})
	// op chains: outputs fed back as inputs (this is where slightly-oversized limbs matter)
	Par(c.Q(3000, 100000), func(i int) {
		r := c.Rng(fmt.Sprintf("chain%d", i))
		n := 3 + r.Intn(10)
		vals := []sm2.VerifFE{sm2.VerifFromBig(new(big.Int).SetBytes(r.Bytes(32))), sm2.VerifFromBig(new(big.Int).SetBytes(r.Bytes(32)))}
		if i%4 == 0 {
			for l := 0; l < 9; l++ {
				vals[0][l] = feMax[l]
			}
		}
		elems := []*big.Int{feElem(vals[0]), feElem(vals[1])}
		var trace []string
		for s := 0; s < n; s++ {
			x, y := r.Intn(len(vals)), r.Intn(len(vals))
			var g sm2.VerifFE
			var want *big.Int
			switch r.Intn(4) {
			case 0:
				g, want = sm2.VerifMul(vals[x], vals[y]), new(big.Int).Mul(elems[x], elems[y])
				trace = append(trace, fmt.Sprintf("mul(%d,%d)", x, y))
			case 1:
				g, want = sm2.VerifSquare(vals[x]), new(big.Int).Mul(elems[x], elems[x])
				trace = append(trace, fmt.Sprintf("sq(%d)", x))
			case 2:
				g, want = sm2.VerifAdd(vals[x], vals[y]), new(big.Int).Add(elems[x], elems[y])
				trace = append(trace, fmt.Sprintf("add(%d,%d)", x, y))
			default:
				g, want = sm2.VerifSub(vals[x], vals[y]), new(big.Int).Sub(elems[x], elems[y])
				trace = append(trace, fmt.Sprintf("sub(%d,%d)", x, y))
			}
			want.Mod(want, ref.P)
			if feElem(g).Cmp(want) != 0 {
				rep.Violation("C03/field/chain/wrong-value", fmt.Sprintf("trace %v: got elem %x want %x", trace, feElem(g), want), map[string]interface{}{"trace": trace, "v0": fmt.Sprintf("%x", vals[0]), "v1": fmt.Sprintf("%x", vals[1])})
				break
			}
			vals = append(vals, g)
			elems = append(elems, want)
		}
		rep.Eval(fmt.Sprintf("field/chain/len=%d", n))
	})
}
