package main

import (
	"encoding/asn1"
	"math/big"

	"github.com/tjfoc/gmsm/sm2"

	"verif/mon"
	"verif/ref"
)

// c10Reissue rewrites a library-made SM2 certificate the way another encoder might have written it — here: the
// extensions in another order (rotated by rot, so that the extension the library writes last, an unknown non-critical
// one, comes before the critical ones) — and signs the new TBSCertificate with the reference SM2 signer under the same
// issuer key. The content is unchanged; so is every answer a path validator may give.
func c10Reissue(der []byte, issuer *sm2.PrivateKey, rot int, r *mon.RNG) []byte {
	nodes, ok := derParse(der, 0)
	if !ok || len(nodes) != 1 || len(nodes[0].children) != 3 {
		return nil
	}
	tbs := nodes[0].children[0]
	var exts *derNode
	for _, ch := range tbs.children {
		if len(ch.tag) == 1 && ch.tag[0] == 0xa3 && len(ch.children) == 1 { // [3] EXPLICIT Extensions
			exts = ch.children[0]
		}
	}
	if exts == nil || len(exts.children) < 2 {
		return nil
	}
	n := len(exts.children)
	rot = ((rot % n) + n) % n
	if rot == 0 {
		rot = 1
	}
	exts.children = append(append([]*derNode{}, exts.children[n-rot:]...), exts.children[:n-rot]...)
	tbsDER := tbs.encode()
	k := new(big.Int).SetBytes(r.Bytes(31))
	k.Add(k, big.NewInt(1))
	R, S, ok := ref.SignWithK(issuer.D, k, issuer.X, issuer.Y, ref.DefaultUID, tbsDER)
	if !ok {
		return nil
	}
	sig, err := asn1.Marshal(struct{ R, S *big.Int }{R, S})
	if err != nil {
		return nil
	}
	nodes[0].children[2] = &derNode{tag: []byte{0x03}, content: append([]byte{0}, sig...)}
	nodes[0].children[0] = &derNode{tag: []byte{0x30}, content: tbsDER[len(tbsDER)-len(derBody(tbsDER)):]}
	return nodes[0].encode()
}

// derBody returns the content octets of one DER element.
func derBody(b []byte) []byte {
	if len(b) < 2 {
		return nil
	}
	if b[1] < 0x80 {
		return b[2:]
	}
	return b[2+int(b[1]&0x7f):]
}

// c10ReissueOldVersion rewrites a library-made SM2 certificate as an X.509 version 1 or version 2 certificate: the
// extensions are dropped, the version field is dropped (v1) or set to 1 (v2), and the new TBSCertificate is signed with the
// reference signer under the same issuer key. Such a certificate says nothing about being a CA.
func c10ReissueOldVersion(der []byte, issuer *sm2.PrivateKey, version int, r *mon.RNG) []byte {
	nodes, ok := derParse(der, 0)
	if !ok || len(nodes) != 1 || len(nodes[0].children) != 3 {
		return nil
	}
	tbs := nodes[0].children[0]
	var kept []*derNode
	for _, ch := range tbs.children {
		switch {
		case len(ch.tag) == 1 && ch.tag[0] == 0xa3:
			continue
		case len(ch.tag) == 1 && ch.tag[0] == 0xa0:
			if version == 2 {
				kept = append(kept, &derNode{tag: []byte{0xa0}, content: []byte{2, 1, 1}})
			}
			continue
		}
		kept = append(kept, ch)
	}
	tbs.children = kept
	tbsDER := tbs.encode()
	k := new(big.Int).SetBytes(r.Bytes(31))
	k.Add(k, big.NewInt(1))
	R, S, ok := ref.SignWithK(issuer.D, k, issuer.X, issuer.Y, ref.DefaultUID, tbsDER)
	if !ok {
		return nil
	}
	sig, err := asn1.Marshal(struct{ R, S *big.Int }{R, S})
	if err != nil {
		return nil
	}
	nodes[0].children[2] = &derNode{tag: []byte{0x03}, content: append([]byte{0}, sig...)}
	nodes[0].children[0] = &derNode{tag: []byte{0x30}, content: derBody(tbsDER)}
	return nodes[0].encode()
}
