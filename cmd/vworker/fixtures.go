package main

import (
	"encoding/json"
	"fmt"
	"math/big"
	"os"
	"path/filepath"
	"sync"

	"github.com/tjfoc/gmsm/sm2"

	"verif/mon"
)

func init() { registry["fixtures"] = genFixtures }

type keyFixture struct {
	Cls string `json:"class"`
	D   string `json:"d"`
}

func fixturesPath() string {
	root := os.Getenv("VERIF_ROOT")
	if root == "" {
		root = "/verif"
	}
	return filepath.Join(root, "fixtures", "sm2keys.json")
}

func loadKeyFixtures() []keyFixture {
	b, err := os.ReadFile(fixturesPath())
	if err != nil {
		return nil
	}
	var f []keyFixture
	json.Unmarshal(b, &f)
	return f
}

// genFixtures searches (once, offline) for private keys whose public x / y have 1..3 leading zero
// bytes, using gmsm's fast arithmetic. The fixtures are only *candidates*: every run recomputes the
// public key with the reference and re-checks the class before using one.
func genFixtures(c *Ctx) {
	curve := sm2.P256Sm2()
	want := map[string]int{}
	for _, a := range []string{"x", "y"} {
		want[a+"-lz=1"], want[a+"-lz=2"], want[a+"-lz=3"] = 4, 3, 2
	}
	var mu sync.Mutex
	var out []keyFixture
	lim := []*big.Int{nil, new(big.Int).Lsh(big.NewInt(1), 248), new(big.Int).Lsh(big.NewInt(1), 240), new(big.Int).Lsh(big.NewInt(1), 232), new(big.Int).Lsh(big.NewInt(1), 224)}
	cls := func(v *big.Int) int {
		for lz := 3; lz >= 1; lz-- {
			if v.Cmp(lim[lz]) < 0 && v.Cmp(lim[lz+1]) >= 0 {
				return lz
			}
		}
		return 0
	}
	done := func() bool {
		for _, v := range want {
			if v > 0 {
				return false
			}
		}
		return true
	}
	Par(16, func(w int) {
		r := mon.Sub(c.Seed, fmt.Sprintf("fixture%d", w))
		base := new(big.Int).SetBytes(r.Bytes(31))
		for j := int64(0); j < 6000000; j++ {
			if j%4096 == 0 {
				mu.Lock()
				d := done()
				mu.Unlock()
				if d {
					return
				}
			}
			d := new(big.Int).Add(base, big.NewInt(j))
			x, y := curve.ScalarBaseMult(d.Bytes())
			for ax, v := range map[string]*big.Int{"x": x, "y": y} {
				if lz := cls(v); lz > 0 {
					k := fmt.Sprintf("%s-lz=%d", ax, lz)
					mu.Lock()
					if want[k] > 0 {
						want[k]--
						out = append(out, keyFixture{k, d.Text(16)})
					}
					mu.Unlock()
				}
			}
		}
	})
	b, _ := json.MarshalIndent(out, "", " ")
	os.WriteFile(fixturesPath(), b, 0o644)
	c.Rep.EvalN("fixtures", int64(len(out)), true)
	c.Rep.Distinct("a")
	c.Rep.Distinct("b")
}
