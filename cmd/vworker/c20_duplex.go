package main

import (
	"encoding/binary"
	"fmt"
	"io"
	"sync"
	"sync/atomic"
	"time"

	"github.com/tjfoc/gmsm/gmtls"

	"verif/mon"
	"verif/ref"
)

// (6) one established connection used in both directions at once — on each end several writers and one reader — while the
// transport corrupts one application record of one direction at a seeded point: the end that receives the bad record
// reports it from its Read goroutine (and sends its alert) while its own writers are inside Write. Oracles: the race
// detector; per-writer FIFO and intact bodies for everything delivered; nothing is delivered in the damaged direction
// after the damaged record; every call returns.
func c20ConnDuplex(c *Ctx) {
	rep := c.Rep
	r := c.Rng("duplex")
	pki, err := newTLSPKI(r, false)
	if err != nil {
		return
	}
	runs := c.Q(16, 300)
	for run := 0; run < runs; run++ {
		suite := []uint16{gmtls.GMTLS_ECC_SM4_CBC_SM3, gmtls.GMTLS_ECC_SM4_GCM_SM3}[run%2]
		scfg := &gmtls.Config{GMSupport: gmtls.NewGMSupport(), Certificates: []gmtls.Certificate{pki.sig, pki.enc}, CipherSuites: []uint16{suite}, Time: func() timeT { return fixedNow }, SessionTicketsDisabled: true}
		ccfg := &gmtls.Config{GMSupport: gmtls.NewGMSupport(), CipherSuites: []uint16{suite}, ServerName: tlsServerName, RootCAs: pki.pool, Time: func() timeT { return fixedNow }, SessionTicketsDisabled: true}
		fault := run%4 != 3 // three of four runs damage a record
		faultFromClient := run%2 == 0
		faultAt := 3 + r.Intn(60) // index among the application records of that direction
		var mmu sync.Mutex
		ccs := map[bool]bool{}
		app := map[bool]int{}
		var damaged int32
		mut := func(fc bool, idx int, rec []byte) ([][]byte, bool) {
			mmu.Lock()
			defer mmu.Unlock()
			if rec[0] == ref.RecCCS {
				ccs[fc] = true
				return nil, false
			}
			if rec[0] != ref.RecAppData || !ccs[fc] {
				return nil, false
			}
			k := app[fc]
			app[fc]++
			if fault && fc == faultFromClient && k == faultAt && len(rec) > 6 {
				m := append([]byte{}, rec...)
				m[5+(len(m)-5)/2] ^= 0x10
				atomic.StoreInt32(&damaged, 1)
				return [][]byte{m}, false
			}
			return nil, false
		}
		out := handshakePair(ccfg, scfg, mut)
		if !out.cli.completed || !out.srv.completed {
			rep.Violation("C20/conn-duplex/handshake-failed", fmt.Sprintf("%v / %v", out.cli.err, out.srv.err), nil)
			continue
		}
		W := 2 + run%3
		perWriter := 40
		type end struct {
			conn    *gmtls.Conn
			name    string
			got     []int
			bad     string
			readErr error
			wrote   int32
		}
		ends := []*end{{conn: out.cli.conn, name: "client", got: make([]int, W)}, {conn: out.srv.conn, name: "server", got: make([]int, W)}}
		var wg sync.WaitGroup
		for ei, e := range ends {
			var wwg sync.WaitGroup
			for wtr := 0; wtr < W; wtr++ {
				wg.Add(1)
				wwg.Add(1)
				go func(e *end, ei, wtr int) {
					defer wg.Done()
					defer wwg.Done()
					rr := mon.NewRNG(uint64(run*1000 + ei*100 + wtr))
					for s := 0; s < perWriter; s++ {
						// incl. messages that span several records, and (one writer in two, rarely) messages larger than 64 KiB:
						// one Write is one unit however long it is
						n := rr.Pick(0, 1, 50, 1000, 5000, 16377, 16378, 20000, 40000)
						if wtr%2 == 0 && s%5 == 2 {
							n = []int{70016, 262144, 131072 + 64}[(s/5+wtr)%3]
						}
						m := make([]byte, 7+n)
						m[0] = byte(wtr)
						binary.BigEndian.PutUint32(m[1:], uint32(s))
						binary.BigEndian.PutUint16(m[5:], uint16(n))
						if n > 65535 { // long form: the length field counts units of 64 bytes
							m[0] |= 0x80
							binary.BigEndian.PutUint16(m[5:], uint16(n/64))
						}
						for i := 7; i < len(m); i++ {
							m[i] = byte(ei*7 + wtr*31 + s)
						}
						if _, err := e.conn.Write(m); err != nil {
							return
						}
						atomic.AddInt32(&e.wrote, 1)
					}
				}(e, ei, wtr)
			}
			// when this end's writers are done it announces the end of its stream (close_notify), which ends the peer's
			// reader; it closes the connection once its own reader has ended too
			rdone := make(chan struct{})
			wg.Add(1)
			go func(e *end) {
				defer wg.Done()
				wwg.Wait()
				e.conn.CloseWrite()
				<-rdone
				e.conn.Close()
			}(e)
			// reader of this end checks the stream written by the other end
			wg.Add(1)
			go func(e *end, peerIdx int) {
				defer wg.Done()
				defer close(rdone)
				hdr := make([]byte, 7)
				for {
					if _, err := io.ReadFull(e.conn, hdr); err != nil {
						e.readErr = err
						return
					}
					wtr, seq, n := int(hdr[0]&0x7f), int(binary.BigEndian.Uint32(hdr[1:])), int(binary.BigEndian.Uint16(hdr[5:]))
					if hdr[0]&0x80 != 0 {
						n *= 64
					}
					if wtr >= W || (n > 40000 && hdr[0]&0x80 == 0) || n > 262144 {
						e.bad = fmt.Sprintf("garbled message header %x", hdr)
						return
					}
					body := make([]byte, n)
					if _, err := io.ReadFull(e.conn, body); err != nil {
						e.readErr = err
						return
					}
					if seq != e.got[wtr] {
						e.bad = fmt.Sprintf("writer %d: message %d arrived when %d was expected", wtr, seq, e.got[wtr])
						return
					}
					for _, b := range body {
						if b != byte(peerIdx*7+wtr*31+seq) {
							e.bad = "message body corrupted"
							return
						}
					}
					e.got[wtr]++
				}
			}(e, 1-ei)
		}
		done := make(chan struct{})
		go func() { wg.Wait(); close(done) }()
		select {
		case <-done:
		case <-time.After(90 * time.Second):
			rep.Violation("C20/conn-duplex/calls-did-not-return", "Read/Write/Close on a duplex connection did not all return", map[string]interface{}{"writers": W, "suite": suiteName(suite)})
			ends[0].conn.Close()
			ends[1].conn.Close()
			out.cconn.Close()
			out.sconn.Close()
			<-done
		}
		hit := atomic.LoadInt32(&damaged) == 1
		w := map[string]interface{}{"writers_per_end": W, "suite": suiteName(suite), "fault": fault, "fault_from_client": faultFromClient, "fault_at_record": faultAt, "fault_applied": hit,
			"client_received": ends[0].got, "server_received": ends[1].got, "client_read_error": errStr(ends[0].readErr), "server_read_error": errStr(ends[1].readErr)}
		for _, e := range ends {
			if e.bad != "" {
				rep.Violation("C20/conn-duplex/stream-inconsistent/"+e.name, e.bad, w)
			}
		}
		if hit {
			// the receiver of the damaged direction must have stopped with an error, not with a clean end of stream
			victim := ends[1]
			if !faultFromClient {
				victim = ends[0]
			}
			if victim.readErr == nil || victim.readErr == io.EOF || victim.readErr == io.ErrUnexpectedEOF {
				total := 0
				for _, g := range victim.got {
					total += g
				}
				if total == W*perWriter {
					rep.Violation("C20/conn-duplex/damaged-record-went-unnoticed", fmt.Sprintf("%s read everything and saw %v", victim.name, victim.readErr), w)
				}
			}
		} else if !fault {
			for _, e := range ends {
				for wtr := 0; wtr < W; wtr++ {
					if e.got[wtr] != perWriter {
						rep.Violation("C20/conn-duplex/messages-lost-without-fault", fmt.Sprintf("%s: writer %d: %d of %d", e.name, wtr, e.got[wtr], perWriter), w)
						break
					}
				}
			}
		}
		rep.Eval(fmt.Sprintf("conn-duplex/writers=%d/fault=%v/fromClient=%v/%s", W, hit, faultFromClient, suiteName(suite)))
		if run == 0 {
			rep.Sample(w)
		}
	}
}
