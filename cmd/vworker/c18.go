package main

import (
	"bytes"
	"crypto/rand"
	"crypto/x509/pkix"
	"encoding/asn1"
	"encoding/hex"
	"fmt"
	"math/big"
	"os"
	"runtime"
	"runtime/debug"
	"strconv"
	"strings"
	"sync"
	"sync/atomic"
	"syscall"
	"time"

	"github.com/tjfoc/gmsm/gmtls"
	"github.com/tjfoc/gmsm/pkcs12"
	"github.com/tjfoc/gmsm/sm2"
	"github.com/tjfoc/gmsm/sm4"
	gx509 "github.com/tjfoc/gmsm/x509"

	"verif/mon"
)

func init() {
	registry["C18"] = runC18
	tlsSM4GCM = gmtls.VerifSM4GCMSeal
}

type decoder struct {
	name      string
	f         func(b []byte)
	corpus    [][]byte
	stretch   bool // carries a password-stretching iteration count (exempt from the time bound)
	asn1      bool // TLV rewrites apply
	heavy     bool // each call costs milliseconds: subsample harder in quick
	tlsStream bool // the input is a recorded TLS stream: structure-preserving handshake edits apply
}

// tlvSpans walks a DER/BER encoding and returns (tagOffset, lengthOffset, lengthLen, contentLen) of every TLV it can find.
type tlvSpan struct{ tagOff, lenOff, lenLen, contentLen int }

func tlvSpans(b []byte, base int, depth int, out *[]tlvSpan) {
	for off := 0; off < len(b) && depth < 40; {
		start := off
		if b[off]&0x1f == 0x1f {
			return
		}
		constructed := b[off]&0x20 != 0
		off++
		if off >= len(b) {
			return
		}
		l := int(b[off])
		lenOff := off
		off++
		n := 0
		if l < 0x80 {
			n = l
		} else {
			k := l & 0x7f
			if k == 0 || k > 3 || off+k > len(b) {
				return
			}
			for i := 0; i < k; i++ {
				n = n<<8 | int(b[off+i])
			}
			off += k
		}
		if off+n > len(b) {
			return
		}
		*out = append(*out, tlvSpan{base + start, base + lenOff, off - lenOff, n})
		if constructed {
			tlvSpans(b[off:off+n], base+off, depth+1, out)
		} else if (b[start] == 0x04 || b[start] == 0x03) && n > 2 {
			// OCTET/BIT STRINGs often wrap further DER
			inner := b[off : off+n]
			skip := 0
			if b[start] == 0x03 {
				skip = 1
			}
			if len(inner) > skip && inner[skip] == 0x30 {
				tlvSpans(inner[skip:], base+off+skip, depth+1, out)
			}
		}
		off += n
	}
}

type cpuClock struct{}

func threadCPU() time.Duration {
	var ru syscall.Rusage
	const rusageThread = 1
	if err := syscall.Getrusage(rusageThread, &ru); err != nil {
		return 0
	}
	return time.Duration(ru.Utime.Nano() + ru.Stime.Nano())
}

// procThreadCPU reads the CPU time of another thread of this process.
func procThreadCPU(tid int) time.Duration {
	b, err := os.ReadFile("/proc/self/task/" + strconv.Itoa(tid) + "/stat")
	if err != nil {
		return 0
	}
	s := string(b)
	i := strings.LastIndex(s, ")")
	f := strings.Fields(s[i+1:])
	if len(f) < 13 {
		return 0
	}
	ut, _ := strconv.ParseInt(f[11], 10, 64)
	st, _ := strconv.ParseInt(f[12], 10, 64)
	return time.Duration(ut+st) * time.Second / 100
}

func runC18(c *Ctx) {
	rep := c.Rep
	defer runFirstOps(c) // decoders as the very first gmsm call of a fresh process
	rep.Meta("cases: for every decoder of untrusted bytes (certificates, CSRs, CRLs, PKCS#7 incl. Verify/Decrypt on the result, BER transcoder, PKCS#8 with/without password, SM2 private/public key structures, PKIX, PEM and hex readers, PKCS#12 Decode/DecodeAll/ToPEM, SM2 ciphertext raw/ASN.1, signatures, compressed points, SM4 key PEM, 16 TLS handshake message decoders, session state, ticket decryption, whole recorded handshake flights fed to GM / TLS / auto-switch endpoints through a canned connection (incl. a scripted ECDHE-SM2 server flight), TLS key-pair loaders, CertPool PEM) a corpus of valid encodings produced by the library and derived from each: every truncation, single-byte substitutions from {00,01,7f,80,ff,b^1,b^80}, every TLV length rewritten to {0,len-1,len+1,0x80,0x84ffffffff}, universal tag swaps, structure-preserving edits of the DER tree with all enclosing lengths recomputed (leading zeros / trailing zero / 0xff lead / shortened / empty values; repeated, dropped, rotated, absent children), seeded depth-2 derivations (two edits: substitution, truncation, span deletion/duplication, splice with another valid encoding), BER nesting to depth 10^4 (definite and indefinite), empty input and random strings. Monitors: recover() per call + journal (child process), per-call thread CPU budget (2 s + 1 us/byte; a watcher converts a call that burns 20 s CPU into a verdict), serial allocation sampling (TotalAlloc delta <= 64*len + 8 MiB). Distinct non-trivial = distinct (decoder, derivation kind, corpus item).",
		20000, []string{"Go runtime recover/rusage/MemStats"},
		[]string{"bytes that encode a password-stretching iteration count are not mutated (the property exempts them)"})
	r := c.Rng("c18")

	// ---------- corpus material
	k := newSM2Key(r)
	k2 := newSM2Key(r)
	caT := certSpec{cn: "C18 CA", serial: 1, isCA: true, mutate: func(t *gx509.Certificate) {
		t.SubjectKeyId = []byte{1, 2, 3, 4}
		t.DNSNames = []string{"a.example", "*.b.example"}
		t.EmailAddresses = []string{"x@example.org"}
		t.PermittedDNSDomains = []string{"example.com"}
		t.PolicyIdentifiers = []asn1.ObjectIdentifier{{1, 2, 3}}
		t.OCSPServer = []string{"http://ocsp.example"}
		t.CRLDistributionPoints = []string{"http://crl.example/c.crl"}
		t.ExtKeyUsage = []gx509.ExtKeyUsage{gx509.ExtKeyUsageServerAuth, gx509.ExtKeyUsageClientAuth}
		t.KeyUsage |= gx509.KeyUsageCRLSign | gx509.KeyUsageDigitalSignature
	}}
	caCert, caDER, err := issueSM2(caT, &k.PublicKey, nil, k, r)
	if err != nil {
		rep.Violation("C18/harness/corpus", err.Error(), nil)
		return
	}
	_, leafDER, _ := issueSM2(certSpec{cn: "leaf.example", serial: 2, dns: []string{"leaf.example"}}, &k2.PublicKey, caCert, k, r)
	rk, _ := cachedRSA()
	_, rsaDER, _ := issueStd("rsa.example", 3, false, []string{"rsa.example"}, &rk.PublicKey, nil, rk, r)
	rsaCert, _ := gx509.ParseCertificate(rsaDER)
	csrDER, _ := gx509.CreateCertificateRequest(rand.Reader, &gx509.CertificateRequest{Subject: pkix.Name{CommonName: "csr"}, DNSNames: []string{"csr.example"}, SignatureAlgorithm: gx509.SM2WithSM3}, k)
	crlDER, _ := caCert.CreateCRL(rand.Reader, k, []pkix.RevokedCertificate{{SerialNumber: big.NewInt(5), RevocationTime: fixedNow}}, fixedNow, fixedNow.Add(time.Hour))
	gx509.ContentEncryptionAlgorithm = gx509.EncryptionAlgorithmDESCBC
	envDES, _ := gx509.PKCS7EncryptSM2([]byte("enveloped content for C18"), []*gx509.Certificate{caCert}, sm2.C1C3C2)
	gx509.ContentEncryptionAlgorithm = gx509.EncryptionAlgorithmAES128GCM
	envGCM, _ := gx509.PKCS7EncryptSM2([]byte("enveloped content for C18 (gcm)"), []*gx509.Certificate{caCert}, sm2.C1C3C2)
	gx509.ContentEncryptionAlgorithm = gx509.EncryptionAlgorithmDESCBC
	sdSM2, _ := buildSM2SignedData([]byte("signed content"), caCert, func(m []byte) []byte { s, _ := k.Sign(r, m, nil); return s }, true, true, oidSM3Hash, oidP7Signed)
	var sdRSA []byte
	if rsaCert != nil {
		if sd, e := gx509.NewSignedData([]byte("rsa signed")); e == nil {
			if sd.AddSigner(rsaCert, rk, gx509.SignerInfoConfig{}) == nil {
				sdRSA, _ = sd.Finish()
			}
		}
	}
	// a BER (indefinite length) rendition of the enveloped object: 30 80 ... 00 00 wrapper around the same children
	berIndef := func(der []byte) []byte {
		var raw asn1.RawValue
		if _, err := asn1.Unmarshal(der, &raw); err != nil {
			return nil
		}
		out := []byte{0x30, 0x80}
		out = append(out, raw.Bytes...)
		return append(out, 0, 0)
	}
	p8, _ := gx509.MarshalSm2UnecryptedPrivateKey(k)
	p8enc, _ := gx509.MarshalSm2EcryptedPrivateKey(k, []byte("pw"))
	pubDER, _ := gx509.MarshalSm2PublicKey(&k.PublicKey)
	privPEM, _ := gx509.WritePrivateKeyToPem(k, nil)
	privPEMenc, _ := gx509.WritePrivateKeyToPem(k, []byte("pw"))
	pubPEM, _ := gx509.WritePublicKeyToPem(&k.PublicKey)
	certPEM := pemBlock("CERTIFICATE", caDER)
	csrPEM := pemBlock("CERTIFICATE REQUEST", csrDER)
	pfx, _ := pkcs12.Encode(k, caCert, nil, "pw")
	// more PKCS#12 shapes: third-party bundles (friendly names, a CA certificate, PBES2) and a bundle with an RSA key
	p12more := [][]byte{}
	for _, fx := range p12Fixtures {
		if b, e := hex.DecodeString(fx.pfx); e == nil {
			p12more = append(p12more, b)
		}
	}
	rsaK, _ := cachedRSA()
	pkcs1DER := x509MarshalPKCS1(rsaK)
	pkcs8RSA := x509MarshalPKCS8(rsaK)
	ecK := newP256Key(r)
	pkcs8EC := x509MarshalPKCS8(ecK)
	pkcs8SM2, _ := gx509.MarshalSm2UnecryptedPrivateKey(k)
	ctRaw, _ := sm2.Encrypt(&k.PublicKey, []byte("hello sm2 ciphertext"), r, sm2.C1C3C2)
	ctRaw2, _ := sm2.Encrypt(&k.PublicKey, []byte("hello sm2 ciphertext"), r, sm2.C1C2C3)
	ctASN, _ := sm2.EncryptAsn1(&k.PublicKey, []byte("hello sm2 ciphertext"), r)
	sigDER, _ := k.Sign(r, []byte("msg"), nil)
	comp := sm2.Compress(&k.PublicKey)
	sm4PEM, _ := sm4.WriteKeyToPem(sm4.SM4Key(r.Bytes(16)), nil)
	sm4PEMenc, _ := sm4.WriteKeyToPem(sm4.SM4Key(r.Bytes(16)), []byte("pw"))
	tcfg := &gmtls.Config{}
	tcfg.SetSessionTicketKeys([][32]byte{{1, 2, 3}, {4, 5, 6}})
	ticket, _ := gmtls.VerifEncryptTicket(tcfg, gmtls.VersionGMSSL, gmtls.GMTLS_ECC_SM4_CBC_SM3, r.Bytes(48), [][]byte{caDER})
	sstate := gmtls.VerifSessionStateMarshal(gmtls.VersionGMSSL, gmtls.GMTLS_ECC_SM4_CBC_SM3, r.Bytes(48), [][]byte{caDER, leafDER})
	hexPriv := []byte(gx509.WritePrivateKeyToHex(k))
	hexPub := []byte(gx509.WritePublicKeyToHex(&k.PublicKey))

	nz := func(bs ...[]byte) [][]byte {
		var o [][]byte
		for _, b := range bs {
			if len(b) > 0 {
				o = append(o, b)
			}
		}
		return o
	}
	pub := &k.PublicKey
	decs := []decoder{
		{name: "x509.ParseCertificate", f: func(b []byte) { gx509.ParseCertificate(b) }, corpus: nz(caDER, leafDER, rsaDER), asn1: true},
		{name: "x509.ParseCertificates", f: func(b []byte) { gx509.ParseCertificates(b) }, corpus: nz(append(append([]byte{}, caDER...), leafDER...)), asn1: true},
		{name: "x509.ParseCertificateRequest", f: func(b []byte) {
			if cr, e := gx509.ParseCertificateRequest(b); e == nil {
				cr.CheckSignature()
			}
		}, corpus: nz(csrDER), asn1: true},
		{name: "x509.ParseCRL", f: func(b []byte) {
			if cl, e := gx509.ParseCRL(b); e == nil {
				caCert.CheckCRLSignature(cl)
			}
		}, corpus: nz(crlDER, pemBlock("X509 CRL", crlDER)), asn1: true},
		{name: "x509.ParseDERCRL", f: func(b []byte) { gx509.ParseDERCRL(b) }, corpus: nz(crlDER), asn1: true},
		{name: "x509.ParsePKCS7+use", f: func(b []byte) {
			if p7, e := gx509.ParsePKCS7(b); e == nil && p7 != nil {
				p7.Verify()
				p7.GetOnlySigner()
				p7.DecryptSM2(caCert, k, sm2.C1C3C2)
				p7.Decrypt(caCert, rk)
			}
		}, corpus: nz(envDES, envGCM, sdSM2, sdRSA, berIndef(envDES), berIndef(sdSM2)), asn1: true},
		{name: "x509.ber2der", f: func(b []byte) { gx509.VerifBer2Der(b) }, corpus: nz(envDES, berIndef(envDES), sdSM2), asn1: true},
		{name: "x509.ParsePKCS8UnecryptedPrivateKey", f: func(b []byte) { gx509.ParsePKCS8UnecryptedPrivateKey(b) }, corpus: nz(p8), asn1: true},
		{name: "x509.ParsePKCS8EcryptedPrivateKey", f: func(b []byte) { gx509.ParsePKCS8EcryptedPrivateKey(b, []byte("pw")) }, corpus: nz(p8enc), asn1: true, stretch: true, heavy: true},
		{name: "x509.ParsePKCS8PrivateKey(nil)", f: func(b []byte) { gx509.ParsePKCS8PrivateKey(b, nil) }, corpus: nz(p8, p8enc), asn1: true},
		{name: "x509.ParseSm2PrivateKey", f: func(b []byte) { gx509.ParseSm2PrivateKey(b) }, corpus: nz(func() []byte {
			var p struct {
				V int
				A pkix.AlgorithmIdentifier
				K []byte
			}
			asn1.Unmarshal(p8, &p)
			return p.K
		}()), asn1: true},
		{name: "x509.ParseSm2PublicKey", f: func(b []byte) { gx509.ParseSm2PublicKey(b) }, corpus: nz(pubDER), asn1: true},
		{name: "x509.ParsePKIXPublicKey", f: func(b []byte) { gx509.ParsePKIXPublicKey(b) }, corpus: nz(pubDER), asn1: true},
		{name: "x509.ReadPrivateKeyFromPem", f: func(b []byte) { gx509.ReadPrivateKeyFromPem(b, nil) }, corpus: nz(privPEM)},
		{name: "x509.ReadPrivateKeyFromPem(pw)", f: func(b []byte) { gx509.ReadPrivateKeyFromPem(b, []byte("pw")) }, corpus: nz(privPEMenc), stretch: true, heavy: true},
		{name: "x509.ReadPublicKeyFromPem", f: func(b []byte) { gx509.ReadPublicKeyFromPem(b) }, corpus: nz(pubPEM)},
		{name: "x509.ReadCertificateFromPem", f: func(b []byte) { gx509.ReadCertificateFromPem(b) }, corpus: nz(certPEM)},
		{name: "x509.ReadCertificateRequestFromPem", f: func(b []byte) { gx509.ReadCertificateRequestFromPem(b) }, corpus: nz(csrPEM)},
		{name: "x509.ReadPrivateKeyFromHex", f: func(b []byte) { gx509.ReadPrivateKeyFromHex(string(b)) }, corpus: nz(hexPriv)},
		{name: "x509.ReadPublicKeyFromHex", f: func(b []byte) { gx509.ReadPublicKeyFromHex(string(b)) }, corpus: nz(hexPub)},
		{name: "x509.CertPool.AppendCertsFromPEM", f: func(b []byte) { gx509.NewCertPool().AppendCertsFromPEM(b) }, corpus: nz(append(append([]byte{}, certPEM...), pemBlock("CERTIFICATE", leafDER)...))},
		{name: "pkcs12.DecodeAll", f: func(b []byte) { pkcs12.DecodeAll(b, "pw") }, corpus: nz(append([][]byte{pfx}, p12more...)...), asn1: true, stretch: true, heavy: true},
		{name: "pkcs12.Decode", f: func(b []byte) { pkcs12.Decode(b, "pw") }, corpus: nz(append([][]byte{pfx}, p12more...)...), asn1: true, stretch: true, heavy: true},
		{name: "pkcs12.ToPEM", f: func(b []byte) { pkcs12.ToPEM(b, "pw") }, corpus: nz(append([][]byte{pfx}, p12more...)...), asn1: true, stretch: true, heavy: true},
		{name: "pkcs12.ParsePKCS8PrivateKey", f: func(b []byte) { pkcs12.ParsePKCS8PrivateKey(b) }, corpus: nz(pkcs8RSA, pkcs8EC, pkcs8SM2), asn1: true},
		{name: "x509.ParsePKCS1PrivateKey", f: func(b []byte) { gx509.ParsePKCS1PrivateKey(b) }, corpus: nz(pkcs1DER), asn1: true},
		{name: "sm2.Decrypt(C1C3C2)", f: func(b []byte) { sm2.Decrypt(k, b, sm2.C1C3C2) }, corpus: nz(ctRaw)},
		{name: "sm2.Decrypt(C1C2C3)", f: func(b []byte) { sm2.Decrypt(k, b, sm2.C1C2C3) }, corpus: nz(ctRaw2)},
		{name: "sm2.DecryptAsn1", f: func(b []byte) { sm2.DecryptAsn1(k, b) }, corpus: nz(ctASN), asn1: true},
		{name: "sm2.CipherUnmarshal", f: func(b []byte) { sm2.CipherUnmarshal(b) }, corpus: nz(ctASN), asn1: true},
		{name: "sm2.CipherMarshal", f: func(b []byte) { sm2.CipherMarshal(b) }, corpus: nz(ctRaw)},
		{name: "sm2.SignDataToSignDigit", f: func(b []byte) { sm2.SignDataToSignDigit(b) }, corpus: nz(sigDER), asn1: true},
		{name: "sm2.PublicKey.Verify", f: func(b []byte) { pub.Verify([]byte("msg"), b) }, corpus: nz(sigDER), asn1: true},
		{name: "sm2.Decompress", f: func(b []byte) { sm2.Decompress(b) }, corpus: nz(comp)},
		{name: "sm4.ReadKeyFromPem", f: func(b []byte) { sm4.ReadKeyFromPem(b, nil) }, corpus: nz(sm4PEM)},
		{name: "sm4.ReadKeyFromPem(pw)", f: func(b []byte) { sm4.ReadKeyFromPem(b, []byte("pw")) }, corpus: nz(sm4PEMenc)},
		{name: "gmtls.X509KeyPair(cert)", f: func(b []byte) { gmtls.X509KeyPair(b, privPEM) }, corpus: nz(certPEM)},
		{name: "gmtls.X509KeyPair(key)", f: func(b []byte) { gmtls.X509KeyPair(certPEM, b) }, corpus: nz(privPEM)},
		{name: "gmtls.GMX509KeyPairs(cert)", f: func(b []byte) { gmtls.GMX509KeyPairs(b, privPEM, certPEM, privPEM) }, corpus: nz(certPEM)},
		{name: "gmtls.sessionState.unmarshal", f: func(b []byte) { gmtls.VerifSessionStateUnmarshal(b) }, corpus: nz(sstate)},
		{name: "gmtls.decryptTicket", f: func(b []byte) { gmtls.VerifDecryptTicket(tcfg, b) }, corpus: nz(ticket)},
	}
	for _, kind := range gmtls.VerifHandshakeKinds {
		kind := kind
		decs = append(decs, decoder{name: "gmtls." + kind + ".unmarshal", f: func(b []byte) { gmtls.VerifUnmarshalHandshake(kind, b) },
			corpus: nz(gmtls.VerifSampleHandshake(kind, r.Bytes(400)))})
	}

	decs = append(decs, c18StreamDecoders(c)...)

	// ---------- case generation
	type tcase struct {
		dec   *decoder
		kind  string
		input []byte
		item  int
	}
	var cases []tcase
	subs := func(b byte) []byte { return []byte{0x00, 0x01, 0x7f, 0x80, 0xff, b ^ 1, b ^ 0x80} }
	protectedAt := func(v []byte) map[int]bool {
		p := map[int]bool{}
		for i := 0; i+4 <= len(v); i++ {
			if v[i] == 0x02 && v[i+1] == 0x02 && v[i+2] == 0x08 && v[i+3] == 0x00 { // INTEGER 2048: the iteration counts gmsm writes
				for j := 0; j < 4; j++ {
					p[i+j] = true
				}
			}
		}
		return p
	}
	for di := range decs {
		d := &decs[di]
		cases = append(cases, tcase{d, "empty", nil, -1})
		for q := 0; q < c.Q(20, 200); q++ {
			cases = append(cases, tcase{d, "random", r.Bytes(r.Pick(1, 2, 5, 16, 64, 97, 300, 2000)), -1})
		}
		for ci, v := range d.corpus {
			prot := map[int]bool{}
			if d.stretch {
				prot = protectedAt(v)
			}
			cases = append(cases, tcase{d, "valid", v, ci})
			// truncations
			tstep := 1
			if d.heavy && !c.Thorough {
				tstep = 1 + len(v)/150
			}
			for l := 0; l < len(v); l += tstep {
				cases = append(cases, tcase{d, "truncate", v[:l], ci})
			}
			// substitutions
			sstep, per := 1, 7
			if !c.Thorough {
				if len(v) > 1500 {
					per = 3 // small encodings get the full alphabet also in the quick tier
				}
				if d.heavy {
					sstep, per = 1+len(v)/200, 2
				} else if len(v) > 1500 {
					sstep = 1 + len(v)/1500
				}
			}
			for p := 0; p < len(v); p += sstep {
				if prot[p] {
					continue
				}
				alts := subs(v[p])
				for q := 0; q < per; q++ {
					a := alts[(p+q*3)%7]
					if per == 7 {
						a = alts[q]
					}
					if a == v[p] {
						continue
					}
					m := append([]byte{}, v...)
					m[p] = a
					cases = append(cases, tcase{d, "substitute", m, ci})
				}
			}
			if d.asn1 {
				var spans []tlvSpan
				tlvSpans(v, 0, 0, &spans)
				for si, sp := range spans {
					if d.heavy && !c.Thorough && si%3 != 0 {
						continue
					}
					touches := false
					for j := sp.lenOff; j < sp.lenOff+sp.lenLen; j++ {
						if prot[j] {
							touches = true
						}
					}
					if touches || prot[sp.tagOff] {
						continue
					}
					encLen := func(n int) []byte {
						switch {
						case n < 0:
							return []byte{0}
						case n < 0x80:
							return []byte{byte(n)}
						case n < 0x100:
							return []byte{0x81, byte(n)}
						default:
							return []byte{0x82, byte(n >> 8), byte(n)}
						}
					}
					for _, nl := range [][]byte{encLen(0), encLen(sp.contentLen - 1), encLen(sp.contentLen + 1), {0x80}, {0x84, 0xff, 0xff, 0xff, 0xff}, {0x84, 0x7f, 0xff, 0xff, 0xff},
						// lengths at the edges of the machine word (offset+length wraps), an absurd number of length octets, and
						// non-minimal forms of the true length
						{0x88, 0x7f, 0xff, 0xff, 0xff, 0xff, 0xff, 0xff, 0xff}, {0x88, 0xff, 0xff, 0xff, 0xff, 0xff, 0xff, 0xff, 0xff}, {0x88, 0x80, 0, 0, 0, 0, 0, 0, 0},
						{0x88, 0x7f, 0xff, 0xff, 0xff, 0xff, 0xff, 0xff, 0xf0}, {0x85, 0x01, 0, 0, 0, 0}, {0x89, 1, 0, 0, 0, 0, 0, 0, 0, 0}, {0xff},
						append([]byte{0x84, 0, 0}, byte(sp.contentLen>>8), byte(sp.contentLen)), append([]byte{0x88, 0, 0, 0, 0, 0, 0}, byte(sp.contentLen>>8), byte(sp.contentLen))} {
						m := append([]byte{}, v[:sp.lenOff]...)
						m = append(m, nl...)
						m = append(m, v[sp.lenOff+sp.lenLen:]...)
						cases = append(cases, tcase{d, "length-rewrite", m, ci})
					}
					for _, tg := range []byte{0x02, 0x03, 0x04, 0x05, 0x06, 0x0c, 0x13, 0x17, 0x30, 0x31, 0xa0, 0x80} {
						if tg == v[sp.tagOff] {
							continue
						}
						if !c.Thorough && (int(tg)+si)%4 != 0 {
							continue
						}
						m := append([]byte{}, v...)
						m[sp.tagOff] = tg
						cases = append(cases, tcase{d, "tag-swap", m, ci})
					}
				}
			}
		}
	}
	// structure-preserving edits on the DER tree (lengths of all enclosing TLVs are recomputed): leading zero bytes in
	// front of INTEGER / OCTET STRING / BIT STRING values, a trailing zero, a 0xff lead byte, first/last byte removed,
	// empty and one-byte contents; for constructed nodes first child repeated, last child dropped, children rotated,
	// no children. OCTET/BIT STRINGs that wrap a further encoding are descended into.
	for di := range decs {
		d := &decs[di]
		if !d.asn1 {
			continue
		}
		for ci, v := range d.corpus {
			var prot func([]byte) bool
			if d.stretch {
				prot = func(c []byte) bool { return len(c) == 2 && c[0] == 0x08 && c[1] == 0x00 } // INTEGER 2048
			}
			limit := 0
			if !c.Thorough && (d.heavy || len(v) > 1500) {
				limit = 40
			}
			for _, m := range derTreeEdits(v, prot, limit) {
				cases = append(cases, tcase{d, "tree-edit", m, ci})
			}
		}
	}
	// recorded handshake flights: edits of one cleartext handshake message with the framing recomputed
	for di := range decs {
		d := &decs[di]
		if !d.tlsStream {
			continue
		}
		for ci, v := range d.corpus {
			for _, m := range tlsStreamEdits(v, c.Q(3, 1), c.Rng(fmt.Sprintf("tlsedit/%d/%d", di, ci))) {
				cases = append(cases, tcase{d, "handshake-message-edit", m, ci})
			}
		}
	}
	// depth-2 derivations (seeded): two independent edits of one valid encoding — substitution, truncation, deletion or
	// duplication of a span, splice with another corpus item of the same decoder — which reach states a single edit cannot
	// (e.g. a shortened length field *and* a damaged child).
	for di := range decs {
		d := &decs[di]
		for ci, v := range d.corpus {
			if len(v) == 0 {
				continue
			}
			n2 := c.Q(40, 6000)
			if d.heavy {
				n2 = c.Q(6, 400)
			}
			prot := map[int]bool{}
			if d.stretch {
				prot = protectedAt(v)
			}
			rr := c.Rng(fmt.Sprintf("depth2/%d/%d", di, ci))
			for q := 0; q < n2; q++ {
				m := append([]byte{}, v...)
				for e := 0; e < 2 && len(m) > 0; e++ {
					p := rr.Intn(len(m))
					switch rr.Intn(6) {
					case 0, 1:
						if p < len(v) && prot[p] && len(m) == len(v) {
							continue
						}
						m[p] = subs(m[p])[rr.Intn(7)]
					case 2:
						if d.stretch {
							continue // a truncated container may expose the count bytes differently; keep the exemption simple
						}
						m = m[:p]
					case 3: // delete a span
						if d.stretch {
							continue
						}
						l := 1 + rr.Intn(8)
						if p+l > len(m) {
							l = len(m) - p
						}
						m = append(m[:p:p], m[p+l:]...)
					case 4: // duplicate a span
						if d.stretch {
							continue
						}
						l := 1 + rr.Intn(16)
						if p+l > len(m) {
							l = len(m) - p
						}
						dup := append([]byte{}, m[p:p+l]...)
						m = append(m[:p+l:p+l], append(dup, m[p+l:]...)...)
					case 5: // splice with another corpus item
						if d.stretch || len(d.corpus) < 2 {
							continue
						}
						o := d.corpus[(ci+1+rr.Intn(len(d.corpus)-1))%len(d.corpus)]
						if len(o) == 0 {
							continue
						}
						m = append(m[:p:p], o[rr.Intn(len(o)):]...)
					}
				}
				cases = append(cases, tcase{d, "depth2", m, ci})
			}
		}
	}
	// BER nesting depth
	// Depths beyond the 10^4 the property names are there for the clause "never recurses without bound": the worker caps
	// goroutine stacks at 32 MiB (debug.SetMaxStack), which a decoder that descends once per level — a few hundred bytes of
	// stack each — passes at 10^4 levels and cannot pass at 2·10^5 / 10^6. Exceeding the cap is fatal to the process; the
	// journal names the case.
	debug.SetMaxStack(32 << 20)
	for _, depth := range []int{10, 100, 1000, 10000, c.Q(200000, 1000000)} {
		var def, indef []byte
		// definite: innermost first; headers are collected and written outermost first afterwards
		inner := []byte{0x04, 0x01, 0x00}
		{
			var hdrs [][]byte
			l := len(inner)
			for i := 0; i < depth; i++ {
				var hdr []byte
				switch {
				case l < 0x80:
					hdr = []byte{0x30, byte(l)}
				case l < 0x100:
					hdr = []byte{0x30, 0x81, byte(l)}
				case l < 0x10000:
					hdr = []byte{0x30, 0x82, byte(l >> 8), byte(l)}
				case l < 0x1000000:
					hdr = []byte{0x30, 0x83, byte(l >> 16), byte(l >> 8), byte(l)}
				default:
					hdr = []byte{0x30, 0x84, byte(l >> 24), byte(l >> 16), byte(l >> 8), byte(l)}
				}
				hdrs = append(hdrs, hdr)
				l += len(hdr)
			}
			def = make([]byte, 0, l)
			for i := len(hdrs) - 1; i >= 0; i-- {
				def = append(def, hdrs[i]...)
			}
			def = append(def, inner...)
		}
		indef = bytes.Repeat([]byte{0x30, 0x80}, depth)
		indef = append(indef, inner...)
		indef = append(indef, bytes.Repeat([]byte{0, 0}, depth)...)
		unterminated := bytes.Repeat([]byte{0x30, 0x80}, depth)
		for di := range decs {
			d := &decs[di]
			switch d.name {
			case "x509.ber2der", "x509.ParsePKCS7+use", "x509.ParseCertificate", "x509.ParseCRL", "pkcs12.DecodeAll", "sm2.DecryptAsn1", "x509.ParsePKCS8UnecryptedPrivateKey":
				cases = append(cases, tcase{d, fmt.Sprintf("nesting-definite/%d", depth), def, -1}, tcase{d, fmt.Sprintf("nesting-indefinite/%d", depth), indef, -1},
					tcase{d, fmt.Sprintf("nesting-unterminated/%d", depth), unterminated, -1})
			}
		}
	}
	// BER width: one constructed value with very many small members (flat, not nested). Whatever a decoder does per member
	// has to be independent of how much input follows, or the whole is quadratic: invisible at corpus sizes, seconds at a
	// few hundred kilobytes. Sizes are chosen so that a linear decoder stays three orders of magnitude inside the budget.
	for _, n := range []int{1000, 20000, c.Q(200000, 500000)} {
		derLen := func(l int) []byte {
			switch {
			case l < 0x80:
				return []byte{byte(l)}
			case l < 0x100:
				return []byte{0x81, byte(l)}
			case l < 0x10000:
				return []byte{0x82, byte(l >> 8), byte(l)}
			default:
				return []byte{0x83, byte(l >> 16), byte(l >> 8), byte(l)}
			}
		}
		nulls := bytes.Repeat([]byte{0x05, 0x00}, n)
		octs := bytes.Repeat([]byte{0x04, 0x01, 0x41}, n)
		wide := map[string][]byte{
			"wide-indefinite-sequence":                 append(append([]byte{0x30, 0x80}, nulls...), 0, 0),
			"wide-indefinite-unterminated":             append([]byte{0x30, 0x80}, nulls...),
			"wide-definite-sequence":                   append(append([]byte{0x30}, derLen(len(nulls))...), nulls...),
			"wide-definite-set":                        append(append([]byte{0x31}, derLen(len(octs))...), octs...),
			"wide-indefinite-constructed-octet-string": append(append([]byte{0x24, 0x80}, octs...), 0, 0),
			"wide-indefinite-in-context-tag":           append(append(append([]byte{0x30, 0x80, 0xa0, 0x80}, octs...), 0, 0), 0, 0),
		}
		for di := range decs {
			d := &decs[di]
			switch d.name {
			case "x509.ber2der", "x509.ParsePKCS7+use", "x509.ParseCertificate", "x509.ParseCRL", "pkcs12.DecodeAll", "sm2.DecryptAsn1", "x509.ParsePKCS8UnecryptedPrivateKey":
				for _, k := range sortedKeys(wide) {
					cases = append(cases, tcase{d, fmt.Sprintf("nesting-flat/%s/%d", k, n), wide[k], -1})
				}
			}
		}
	}
	// valid encodings widened: every list-like node of a certificate, request, CRL or PKCS#7 object repeated (with distinct
	// OIDs) until the encoding is about a megabyte — tens of thousands of extensions, attributes, revoked entries, names
	for di := range decs {
		d := &decs[di]
		switch d.name {
		case "x509.ParseCertificate", "x509.ParseCertificateRequest", "x509.ParseCRL", "x509.ParseDERCRL", "x509.ParsePKCS7+use", "x509.ber2der", "x509.ParseCertificates":
			for ci, v := range d.corpus {
				if ci > 0 && !c.Thorough {
					break
				}
				for wi, m := range derWiden(v, c.Q(1<<20, 2<<20), c.Q(4, 6)) {
					cases = append(cases, tcase{d, fmt.Sprintf("nesting-flat/valid-encoding-widened/site=%d", wi), m, ci})
				}
			}
		}
	}
	// one primitive of 2^24 bytes — the first length that needs four length octets — inside an indefinite-length value and
	// on its own, through the BER transcoder
	{
		big := make([]byte, 0, 1<<24+16)
		big = append(big, 0x04, 0x84, 0x01, 0x00, 0x00, 0x00)
		big = append(big, make([]byte, 1<<24)...)
		wrapped := append(append([]byte{0x30, 0x80}, big...), 0, 0)
		for di := range decs {
			d := &decs[di]
			if d.name == "x509.ber2der" || d.name == "x509.ParsePKCS7+use" {
				cases = append(cases, tcase{d, "nesting-flat/primitive-of-2^24-bytes", big, -1}, tcase{d, "nesting-flat/primitive-of-2^24-bytes-in-indefinite-sequence", wrapped, -1})
			}
		}
	}
	rep.Count("cases_generated", int64(len(cases)))

	// ---------- parallel execution with per-call CPU budget and a hang watcher
	workers := runtime.GOMAXPROCS(0)
	type slot struct {
		tid     int32
		startNs int64 // thread CPU at case start (ns); 0 = idle
		caseIdx int64
	}
	slots := make([]slot, workers)
	var next int64 = -1
	var wg sync.WaitGroup
	stop := make(chan struct{})
	hung := int32(0)
	go func() { // watcher: CPU based, not wall-clock based
		t := time.NewTicker(500 * time.Millisecond)
		defer t.Stop()
		for {
			select {
			case <-stop:
				return
			case <-t.C:
				for i := range slots {
					tid := int(atomic.LoadInt32(&slots[i].tid))
					st := atomic.LoadInt64(&slots[i].startNs)
					ci := atomic.LoadInt64(&slots[i].caseIdx)
					if tid == 0 || st == 0 {
						continue
					}
					if procThreadCPU(tid)-time.Duration(st) > 20*time.Second && ci < int64(len(cases)) {
						tc := cases[ci]
						if tc.dec.stretch {
							continue
						}
						if atomic.CompareAndSwapInt32(&hung, 0, 1) {
							rep.Violation("C18/"+tc.dec.name+"/no-return-within-20s-cpu/"+tc.kind, fmt.Sprintf("input of %d bytes still being decoded after 20 s of CPU time", len(tc.input)),
								map[string]interface{}{"decoder": tc.dec.name, "kind": tc.kind, "input": mon.Hex(tc.input)})
							rep.Write(c.Out + "/result.json")
							os.Exit(0)
						}
					}
				}
			}
		}
	}()
	tPhase := time.Now()
	for w := 0; w < workers; w++ {
		wg.Add(1)
		go func(w int) {
			defer wg.Done()
			runtime.LockOSThread()
			defer runtime.UnlockOSThread()
			atomic.StoreInt32(&slots[w].tid, int32(syscall.Gettid()))
			for {
				i := atomic.AddInt64(&next, 1)
				if i >= int64(len(cases)) {
					atomic.StoreInt64(&slots[w].startNs, 0)
					return
				}
				tc := cases[i]
				rep.Begin(tc.dec.name+"/"+tc.kind, tc.input)
				t0 := threadCPU()
				atomic.StoreInt64(&slots[w].caseIdx, i)
				atomic.StoreInt64(&slots[w].startNs, int64(t0)+1)
				pi := mon.Guard(func() { tc.dec.f(append([]byte{}, tc.input...)) })
				dt := threadCPU() - t0
				atomic.StoreInt64(&slots[w].startNs, 0)
				wit := map[string]interface{}{"decoder": tc.dec.name, "kind": tc.kind, "input": hex.EncodeToString(tc.input), "corpus_item": tc.item}
				if len(tc.input) > 6000 {
					wit["input"] = mon.Hex(tc.input)
					wit["input_len"] = len(tc.input)
				}
				if pi != nil {
					rep.Violation("C18/"+tc.dec.name+"/panic/"+pi.Func, fmt.Sprintf("%s input (%d bytes): %s", tc.kind, len(tc.input), pi.Value), wit)
				}
				budget := 2*time.Second + time.Duration(len(tc.input))*time.Microsecond
				if dt > budget && !tc.dec.stretch {
					rep.Violation("C18/"+tc.dec.name+"/cpu-budget-exceeded/"+tc.kind, fmt.Sprintf("%v of thread CPU for %d input bytes (budget %v)", dt, len(tc.input), budget), wit)
				}
				rep.Max("max_cpu_us_per_call", int64(dt/time.Microsecond))
				rep.Count("cpu_ms/"+tc.dec.name, int64(dt/time.Microsecond))
				nontrivial := tc.kind != "empty" && tc.kind != "valid"
				rep.EvalN(tc.dec.name+"/"+tc.kind, 1, nontrivial)
				if nontrivial && tc.item >= 0 {
					rep.Distinct(fmt.Sprintf("%s/%s/item%d", tc.dec.name, tc.kind, tc.item))
				}
			}
		}(w)
	}
	wg.Wait()
	close(stop)
	rep.Count("phase_ms/execute", int64(time.Since(tPhase)/time.Millisecond))
	tPhase = time.Now()

	// ---------- serial allocation sampling
	{
		step := len(cases)/c.Q(3000, 30000) + 1
		var ms runtime.MemStats
		sampled := 0
		// every nesting case, every valid encoding and every input of 8 KiB or more is measured; the rest is sampled at a fixed
		// stride (a pure function of the case list, never of luck: an earlier version sampled by stride only and met the
		// quadratic BER re-encoding in some runs and not in others)
		for i := 0; i < len(cases); i++ {
			tc := cases[i]
			if !(i%step == 0 || strings.HasPrefix(tc.kind, "nesting") || tc.kind == "valid" || len(tc.input) >= 8192) {
				continue
			}
			in := append([]byte{}, tc.input...)
			runtime.ReadMemStats(&ms)
			a0 := ms.TotalAlloc
			mon.Guard(func() { tc.dec.f(in) })
			runtime.ReadMemStats(&ms)
			d := ms.TotalAlloc - a0
			limit := uint64(64*len(tc.input)) + 8<<20
			if strings.HasPrefix(tc.kind, "nesting") {
				limit += uint64(len(tc.input)) * 512 // per-level bookkeeping of a recursive descent is linear in depth
			}
			if d > limit {
				rep.Violation("C18/"+tc.dec.name+"/allocation-budget-exceeded/"+tc.kind, fmt.Sprintf("%d bytes allocated for %d input bytes (limit %d)", d, len(tc.input), limit),
					map[string]interface{}{"decoder": tc.dec.name, "kind": tc.kind, "input": mon.Hex(tc.input)})
			}
			rep.Max("max_alloc_bytes_per_call", int64(d))
			sampled++
		}
		rep.Count("allocation_samples", int64(sampled))
		rep.Count("phase_ms/allocation-sampling", int64(time.Since(tPhase)/time.Millisecond))
	}
	c18Retention(c, decs)
	rep.Sample(map[string]interface{}{"decoders": len(decs), "example": "x509.ParsePKCS7+use / length-rewrite: a TLV length of the enveloped-data object replaced by 0x84ffffffff"})
	var names []string
	for _, d := range decs {
		names = append(names, d.name)
	}
	rep.SetExtra("decoders", names)
}
