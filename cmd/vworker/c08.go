package main

import (
	"bytes"
	"fmt"
	"math/big"
	"net"
	"sync"
	"time"

	"github.com/tjfoc/gmsm/gmtls"
	"github.com/tjfoc/gmsm/sm2"
	gx509 "github.com/tjfoc/gmsm/x509"

	"verif/mon"
	"verif/ref"
)

func init() { registry["C08"] = runC08 }

func runC08(c *Ctx) {
	rep := c.Rep
	rep.Meta("cases: (1) genuine stacks with a broken identity: server holding the genuine certificates but the wrong signing key / wrong encryption key / both; untrusted, expired, not-yet-valid, wrong-name, swapped sign<->enc, RSA or P-256 server certificates; client certificates with a wrong key, untrusted, expired, under each ClientAuth policy; (2) a scripted reference peer that is well-formed but cannot prove the identity: ServerKeyExchange signed over other randoms / another encryption certificate / by another key / replayed from a recorded session; CertificateVerify by another key / over another transcript / omitted; wrong Finished; pre-master under another key; (3) a man in the middle between two genuine endpoints rewriting the cleartext flight: every byte of every cleartext handshake message (bit flip; sampled for long messages in quick), plus structured rewrites (suite list downgrade, randoms, session id, certificate swap/drop, signature substitution from another session). Oracle: the attacked side returns an error; for (3) never both sides complete after a real byte change; no panic. Both GM suites, five client-auth policies, and TLS 1.2 for (1)/(3). Distinct non-trivial = distinct (attack kind, suite, policy, message, field/offset class).",
		300, []string{"ground-truth PKI", "ref TLCP peer for the scripted attacks"}, nil)
	r := c.Rng("c08")
	pki, err := newTLSPKI(r, true)
	if err != nil {
		rep.Violation("C08/harness/pki", err.Error(), nil)
		return
	}
	suites := []uint16{gmtls.GMTLS_ECC_SM4_CBC_SM3, gmtls.GMTLS_ECC_SM4_GCM_SM3}
	auths := []gmtls.ClientAuthType{gmtls.NoClientCert, gmtls.RequestClientCert, gmtls.RequireAnyClientCert, gmtls.VerifyClientCertIfGiven, gmtls.RequireAndVerifyClientCert}
	mkS := func(rr *mon.RNG, suite uint16, auth gmtls.ClientAuthType) *gmtls.Config {
		return &gmtls.Config{GMSupport: gmtls.NewGMSupport(), Certificates: []gmtls.Certificate{pki.sig, pki.enc}, CipherSuites: []uint16{suite}, ClientAuth: auth, ClientCAs: pki.pool,
			Time: func() timeT { return fixedNow }, Rand: mon.NewRNG(rr.U64()), SessionTicketsDisabled: true}
	}
	mkC := func(rr *mon.RNG, suite uint16) *gmtls.Config {
		return &gmtls.Config{GMSupport: gmtls.NewGMSupport(), CipherSuites: []uint16{suite}, ServerName: tlsServerName, RootCAs: pki.pool,
			Time: func() timeT { return fixedNow }, Rand: mon.NewRNG(rr.U64()), SessionTicketsDisabled: true}
	}
	// special certificates
	issue := func(cn string, serial int64, ku gx509.KeyUsage, dns []string, nb, na time.Time, k *sm2.PrivateKey) gmtls.Certificate {
		_, der, e := issueSM2(certSpec{cn: cn, serial: serial, dns: dns, keyUsage: ku, notBefore: nb, notAfter: na, eku: []gx509.ExtKeyUsage{gx509.ExtKeyUsageServerAuth, gx509.ExtKeyUsageClientAuth}}, &k.PublicKey, pki.root, pki.rootKey, r)
		if e != nil {
			return gmtls.Certificate{}
		}
		return gmtls.Certificate{Certificate: [][]byte{der}, PrivateKey: k}
	}
	kuS, kuE := gx509.KeyUsageDigitalSignature, gx509.KeyUsageKeyEncipherment|gx509.KeyUsageDataEncipherment
	// the same kinds of certificate in a second profile: no extended-key-usage extension at all (what many CAs issue);
	// whether a certificate is refused must not depend on such incidental attributes of the fixture
	issuePlain := func(cn string, serial int64, ku gx509.KeyUsage, dns []string, nb, na time.Time, k *sm2.PrivateKey) gmtls.Certificate {
		_, der, e := issueSM2(certSpec{cn: cn, serial: serial, dns: dns, keyUsage: ku, notBefore: nb, notAfter: na}, &k.PublicKey, pki.root, pki.rootKey, r)
		if e != nil {
			return gmtls.Certificate{}
		}
		return gmtls.Certificate{Certificate: [][]byte{der}, PrivateKey: k}
	}
	plainSig := issuePlain("server sign", 201, kuS, []string{tlsServerName}, time.Time{}, time.Time{}, newSM2Key(r))
	plainEnc := issuePlain("server enc", 202, kuE, []string{tlsServerName}, time.Time{}, time.Time{}, newSM2Key(r))
	plainExpSig := issuePlain("server sign", 203, kuS, []string{tlsServerName}, fixedNow.Add(-48*time.Hour), fixedNow.Add(-24*time.Hour), newSM2Key(r))
	plainExpEnc := issuePlain("server enc", 204, kuE, []string{tlsServerName}, fixedNow.Add(-48*time.Hour), fixedNow.Add(-24*time.Hour), newSM2Key(r))
	plainFutEnc := issuePlain("server enc", 205, kuE, []string{tlsServerName}, fixedNow.Add(24*time.Hour), fixedNow.Add(48*time.Hour), newSM2Key(r))
	plainNameEnc := issuePlain("server enc", 206, kuE, []string{"other.example"}, time.Time{}, time.Time{}, newSM2Key(r))
	plainNameSig := issuePlain("server sign", 207, kuS, []string{"other.example"}, time.Time{}, time.Time{}, newSM2Key(r))
	plainCliSig := issuePlain("client sign", 208, kuS, nil, time.Time{}, time.Time{}, newSM2Key(r))
	plainCliEnc := issuePlain("client enc", 209, kuE, nil, time.Time{}, time.Time{}, newSM2Key(r))
	plainExpCli := issuePlain("client sign", 210, kuS, nil, fixedNow.Add(-48*time.Hour), fixedNow.Add(-24*time.Hour), newSM2Key(r))
	// forged look-alikes of a victim's certificate: same subject and issuer NAMES as the victim's, the forger's key,
	// signed by the forger (so not by the CA the issuer field names), with a signing key usage
	forgeLike := func(victim *gx509.Certificate, serial int64) ([]byte, *sm2.PrivateKey) {
		k := newSM2Key(r)
		t := &gx509.Certificate{SerialNumber: big.NewInt(serial), Subject: victim.Subject, NotBefore: fixedNow.Add(-time.Hour), NotAfter: fixedNow.Add(time.Hour),
			KeyUsage: kuS, ExtKeyUsage: []gx509.ExtKeyUsage{gx509.ExtKeyUsageClientAuth, gx509.ExtKeyUsageServerAuth}, SignatureAlgorithm: gx509.SM2WithSM3,
			AuthorityKeyId: victim.AuthorityKeyId, DNSNames: victim.DNSNames}
		der, e := gx509.CreateCertificate(t, pki.root, &k.PublicKey, k) // issuer name: the real root; signature: the forger's
		if e != nil {
			return nil, k
		}
		return der, k
	}
	expSig := issue("server sign", 101, kuS, []string{tlsServerName}, fixedNow.Add(-48*time.Hour), fixedNow.Add(-24*time.Hour), newSM2Key(r))
	expEnc := issue("server enc", 102, kuE, []string{tlsServerName}, fixedNow.Add(-48*time.Hour), fixedNow.Add(-24*time.Hour), newSM2Key(r))
	futSig := issue("server sign", 103, kuS, []string{tlsServerName}, fixedNow.Add(24*time.Hour), fixedNow.Add(48*time.Hour), newSM2Key(r))
	nameSig := issue("server sign", 104, kuS, []string{"other.example"}, time.Time{}, time.Time{}, newSM2Key(r))
	nameEnc := issue("server enc", 105, kuE, []string{"other.example"}, time.Time{}, time.Time{}, newSM2Key(r))
	expCli := issue("client sign", 106, kuS, nil, fixedNow.Add(-48*time.Hour), fixedNow.Add(-24*time.Hour), newSM2Key(r))
	// certificates whose DNS SANs name another host while the CommonName is the requested name: with SANs present the
	// CommonName is not a name the certificate is valid for
	sanOtherSig := issue(tlsServerName, 107, kuS, []string{"other.example"}, time.Time{}, time.Time{}, newSM2Key(r))
	sanOtherEnc := issue(tlsServerName, 108, kuE, []string{"other.example"}, time.Time{}, time.Time{}, newSM2Key(r))
	// an attacker who owns a key and a self-made certificate, and who knows the victim's (public) certificate
	attKey := newSM2Key(r)
	_, attDER, _ := issueSM2(certSpec{cn: "client sign", serial: 20, keyUsage: kuS, eku: []gx509.ExtKeyUsage{gx509.ExtKeyUsageClientAuth}}, &attKey.PublicKey, nil, attKey, r)
	victimThenOwn := gmtls.Certificate{Certificate: [][]byte{pki.cliSigCert.Raw, attDER}, PrivateKey: attKey}
	ownThenVictim := gmtls.Certificate{Certificate: [][]byte{attDER, pki.cliSigCert.Raw}, PrivateKey: attKey}
	// certificates that were valid for decades but are expired at the *configured* time (2030): an endpoint that consults
	// any other clock than Config.Time would most likely accept them
	oldSig := issue("server sign", 111, kuS, []string{tlsServerName}, time.Date(2000, 1, 1, 0, 0, 0, 0, time.UTC), time.Date(2029, 1, 1, 0, 0, 0, 0, time.UTC), newSM2Key(r))
	oldEnc := issue("server enc", 112, kuE, []string{tlsServerName}, time.Date(2000, 1, 1, 0, 0, 0, 0, time.UTC), time.Date(2029, 1, 1, 0, 0, 0, 0, time.UTC), newSM2Key(r))
	oldCli := issue("client sign", 113, kuS, nil, time.Date(2000, 1, 1, 0, 0, 0, 0, time.UTC), time.Date(2029, 1, 1, 0, 0, 0, 0, time.UTC), newSM2Key(r))
	// a forged pair that only *looks like* the trusted root: self-signed, same subject and serial number as the root,
	// the victim's name in the SAN, keys owned by the forger
	lookalike := func(ku gx509.KeyUsage) gmtls.Certificate {
		k := newSM2Key(r)
		_, der, e := issueSM2(certSpec{cn: "Verif TLS Root", serial: 1, dns: []string{tlsServerName}, keyUsage: ku, eku: []gx509.ExtKeyUsage{gx509.ExtKeyUsageServerAuth, gx509.ExtKeyUsageClientAuth}}, &k.PublicKey, nil, k, r)
		if e != nil {
			return gmtls.Certificate{}
		}
		return gmtls.Certificate{Certificate: [][]byte{der}, PrivateKey: k}
	}
	lookSig, lookEnc := lookalike(kuS), lookalike(kuE)
	// certificates carrying an IP SAN (positive control for IP-literal server names)
	ipCert := func(cn string, serial int64, ku gx509.KeyUsage) gmtls.Certificate {
		k := newSM2Key(r)
		_, der, e := issueSM2(certSpec{cn: cn, serial: serial, keyUsage: ku, eku: []gx509.ExtKeyUsage{gx509.ExtKeyUsageServerAuth}, mutate: func(t *gx509.Certificate) { t.IPAddresses = []net.IP{net.ParseIP("127.0.0.1"), net.ParseIP("::1")} }}, &k.PublicKey, pki.root, pki.rootKey, r)
		if e != nil {
			return gmtls.Certificate{}
		}
		return gmtls.Certificate{Certificate: [][]byte{der}, PrivateKey: k}
	}
	ipSig, ipEnc := ipCert("server sign", 109, kuS), ipCert("server enc", 110, kuE)
	wrongKey := func(c gmtls.Certificate) gmtls.Certificate {
		return gmtls.Certificate{Certificate: c.Certificate, PrivateKey: newSM2Key(r)}
	}

	type idCase struct {
		name     string
		srvCerts []gmtls.Certificate
		cliCerts []gmtls.Certificate
		auth     gmtls.ClientAuthType
		attacked string // which side must return an error: client | server
		suite    uint16
		srvName  string // name the client asks for (default tlsServerName)
	}
	var ids []idCase
	for _, su := range suites {
		add := func(name string, sc []gmtls.Certificate, attacked string) {
			ids = append(ids, idCase{name: name, srvCerts: sc, attacked: attacked, suite: su})
		}
		add("server-wrong-signing-key", []gmtls.Certificate{wrongKey(pki.sig), pki.enc}, "client")
		add("server-wrong-encryption-key", []gmtls.Certificate{pki.sig, wrongKey(pki.enc)}, "both")
		add("server-both-keys-wrong", []gmtls.Certificate{wrongKey(pki.sig), wrongKey(pki.enc)}, "client")
		add("server-untrusted-certificates", []gmtls.Certificate{pki.other.sig, pki.other.enc}, "client")
		add("server-untrusted-sign-cert-only", []gmtls.Certificate{pki.other.sig, pki.enc}, "client")
		add("server-untrusted-enc-cert-only", []gmtls.Certificate{pki.sig, pki.other.enc}, "client")
		add("server-expired-sign-cert", []gmtls.Certificate{expSig, pki.enc}, "client")
		add("server-expired-enc-cert", []gmtls.Certificate{pki.sig, expEnc}, "client")
		add("server-not-yet-valid-sign-cert", []gmtls.Certificate{futSig, pki.enc}, "client")
		add("server-wrong-name-sign-cert", []gmtls.Certificate{nameSig, pki.enc}, "client")
		add("server-wrong-name-enc-cert", []gmtls.Certificate{pki.sig, nameEnc}, "client")
		add("server-san-other-host-cn-requested-sign-cert", []gmtls.Certificate{sanOtherSig, pki.enc}, "client")
		add("server-san-other-host-cn-requested-enc-cert", []gmtls.Certificate{pki.sig, sanOtherEnc}, "client")
		add("server-root-lookalike-certificates(same subject+serial as the trusted root, self-signed)", []gmtls.Certificate{lookSig, lookEnc}, "client")
		add("server-root-lookalike-sign-cert-only", []gmtls.Certificate{lookSig, pki.enc}, "client")
		// the client asks for an IP literal: certificates issued to a DNS name only are not valid for it
		for _, ipn := range []string{"127.0.0.1", "::1", "[::1]", "10.1.2.3"} {
			ids = append(ids, idCase{name: "server-dns-only-certificates-for-ip-literal-name/" + ipn, srvCerts: []gmtls.Certificate{pki.sig, pki.enc}, attacked: "client", suite: su, srvName: ipn})
		}
		ids = append(ids, idCase{name: "server-ip-san-certificates-for-other-ip/10.1.2.3", srvCerts: []gmtls.Certificate{ipSig, ipEnc}, attacked: "client", suite: su, srvName: "10.1.2.3"})
		for _, ipn := range []string{"127.0.0.1", "[::1]"} {
			ids = append(ids, idCase{name: "control/ip-san-certificates/" + ipn, srvCerts: []gmtls.Certificate{ipSig, ipEnc}, attacked: "none", suite: su, srvName: ipn})
		}
		add("server-certificates-expired-at-the-configured-time(valid 2000..2029)", []gmtls.Certificate{oldSig, oldEnc}, "client")
		add("server-sign-and-enc-swapped", []gmtls.Certificate{pki.enc, pki.sig}, "client")
		add("server-rsa-certificates", []gmtls.Certificate{pki.rsaCert, pki.rsaCert}, "client")
		add("server-p256-sign-cert", []gmtls.Certificate{pki.ecCert, pki.enc}, "client")
		for _, a := range auths[1:] {
			ids = append(ids, idCase{name: "client-cert-wrong-key/" + authName(a), srvCerts: []gmtls.Certificate{pki.sig, pki.enc}, cliCerts: []gmtls.Certificate{wrongKey(pki.cliSig), pki.cliEnc}, auth: a, attacked: "server", suite: su})
		}
		for _, a := range []gmtls.ClientAuthType{gmtls.VerifyClientCertIfGiven, gmtls.RequireAndVerifyClientCert} {
			ids = append(ids, idCase{name: "client-cert-untrusted/" + authName(a), srvCerts: []gmtls.Certificate{pki.sig, pki.enc}, cliCerts: []gmtls.Certificate{pki.other.cliSig, pki.other.cliEnc}, auth: a, attacked: "server", suite: su})
			ids = append(ids, idCase{name: "client-victim-leaf-then-own-cert-signed-with-own-key/" + authName(a), srvCerts: []gmtls.Certificate{pki.sig, pki.enc}, cliCerts: []gmtls.Certificate{victimThenOwn, pki.cliEnc}, auth: a, attacked: "server", suite: su})
			ids = append(ids, idCase{name: "client-own-cert-then-victim-leaf-signed-with-own-key/" + authName(a), srvCerts: []gmtls.Certificate{pki.sig, pki.enc}, cliCerts: []gmtls.Certificate{ownThenVictim, pki.cliEnc}, auth: a, attacked: "server", suite: su})
			ids = append(ids, idCase{name: "client-root-lookalike-certificate/" + authName(a), srvCerts: []gmtls.Certificate{pki.sig, pki.enc}, cliCerts: []gmtls.Certificate{lookSig, lookEnc}, auth: a, attacked: "server", suite: su})
			ids = append(ids, idCase{name: "client-cert-expired-at-the-configured-time(valid 2000..2029)/" + authName(a), srvCerts: []gmtls.Certificate{pki.sig, pki.enc}, cliCerts: []gmtls.Certificate{oldCli, pki.cliEnc}, auth: a, attacked: "server", suite: su})
			ids = append(ids, idCase{name: "client-cert-expired/" + authName(a), srvCerts: []gmtls.Certificate{pki.sig, pki.enc}, cliCerts: []gmtls.Certificate{expCli}, auth: a, attacked: "server", suite: su})
			ids = append(ids, idCase{name: "client-cert-is-a-server-enc-cert-of-other-pki/" + authName(a), srvCerts: []gmtls.Certificate{pki.sig, pki.enc}, cliCerts: []gmtls.Certificate{pki.other.enc}, auth: a, attacked: "server", suite: su})
		}
		for _, a := range []gmtls.ClientAuthType{gmtls.VerifyClientCertIfGiven, gmtls.RequireAndVerifyClientCert} {
			// the forger presents a victim's public certificate first and a same-name forgery for the own key behind it (or the
			// other way round) and signs CertificateVerify with the own key: no certified key is proven
			cliEncCert, _ := gx509.ParseCertificate(pki.cliEnc.Certificate[0])
			if cliEncCert == nil {
				continue
			}
			for vi, victim := range []*gx509.Certificate{cliEncCert, pki.cliSigCert} {
				vname := []string{"victim-enc-cert", "victim-sign-cert"}[vi]
				fder, fk := forgeLike(victim, int64(300+vi))
				if fder == nil {
					continue
				}
				ids = append(ids, idCase{name: "client-" + vname + "-then-same-name-forgery-signed-with-forger-key/" + authName(a), srvCerts: []gmtls.Certificate{pki.sig, pki.enc},
					cliCerts: []gmtls.Certificate{{Certificate: [][]byte{victim.Raw, fder}, PrivateKey: fk}, pki.cliEnc}, auth: a, attacked: "server", suite: su})
				ids = append(ids, idCase{name: "client-same-name-forgery-then-" + vname + "-signed-with-forger-key/" + authName(a), srvCerts: []gmtls.Certificate{pki.sig, pki.enc},
					cliCerts: []gmtls.Certificate{{Certificate: [][]byte{fder, victim.Raw}, PrivateKey: fk}, pki.cliEnc}, auth: a, attacked: "server", suite: su})
				ids = append(ids, idCase{name: "client-" + vname + "-as-sign-cert-and-forgery-as-enc-cert/" + authName(a), srvCerts: []gmtls.Certificate{pki.sig, pki.enc},
					cliCerts: []gmtls.Certificate{{Certificate: [][]byte{victim.Raw}, PrivateKey: fk}, {Certificate: [][]byte{fder}, PrivateKey: fk}}, auth: a, attacked: "server", suite: su})
			}
			ids = append(ids, idCase{name: "client-cert-expired/no-eku-profile/" + authName(a), srvCerts: []gmtls.Certificate{pki.sig, pki.enc}, cliCerts: []gmtls.Certificate{plainExpCli, plainCliEnc}, auth: a, attacked: "server", suite: su})
			ids = append(ids, idCase{name: "client-cert-wrong-key/no-eku-profile/" + authName(a), srvCerts: []gmtls.Certificate{pki.sig, pki.enc}, cliCerts: []gmtls.Certificate{wrongKey(plainCliSig), plainCliEnc}, auth: a, attacked: "server", suite: su})
		}
		add("no-eku-profile/server-expired-enc-cert", []gmtls.Certificate{plainSig, plainExpEnc}, "client")
		add("no-eku-profile/server-expired-sign-cert", []gmtls.Certificate{plainExpSig, plainEnc}, "client")
		add("no-eku-profile/server-not-yet-valid-enc-cert", []gmtls.Certificate{plainSig, plainFutEnc}, "client")
		add("no-eku-profile/server-wrong-name-enc-cert", []gmtls.Certificate{plainSig, plainNameEnc}, "client")
		add("no-eku-profile/server-wrong-name-sign-cert", []gmtls.Certificate{plainNameSig, plainEnc}, "client")
		add("no-eku-profile/server-wrong-encryption-key", []gmtls.Certificate{plainSig, wrongKey(plainEnc)}, "both")
		add("no-eku-profile/server-wrong-signing-key", []gmtls.Certificate{wrongKey(plainSig), plainEnc}, "client")
		add("mixed-profile/server-expired-enc-cert(no eku)-next-to-valid-sign-cert(eku)", []gmtls.Certificate{pki.sig, plainExpEnc}, "client")
		add("mixed-profile/server-not-yet-valid-enc-cert(no eku)-next-to-valid-sign-cert(eku)", []gmtls.Certificate{pki.sig, plainFutEnc}, "client")
		ids = append(ids, idCase{name: "control/no-eku-profile", srvCerts: []gmtls.Certificate{plainSig, plainEnc}, cliCerts: []gmtls.Certificate{plainCliSig, plainCliEnc}, auth: gmtls.RequireAndVerifyClientCert, attacked: "none", suite: su})
		ids = append(ids, idCase{name: "client-cert-absent/require-and-verify", srvCerts: []gmtls.Certificate{pki.sig, pki.enc}, auth: gmtls.RequireAndVerifyClientCert, attacked: "server", suite: su})
		// controls
		ids = append(ids, idCase{name: "control/genuine", srvCerts: []gmtls.Certificate{pki.sig, pki.enc}, cliCerts: []gmtls.Certificate{pki.cliSig, pki.cliEnc}, auth: gmtls.RequireAndVerifyClientCert, attacked: "none", suite: su})
	}
	Par(len(ids), func(i int) {
		ic := ids[i]
		rr := c.Rng(fmt.Sprintf("id%d", i))
		scfg, ccfg := mkS(rr, ic.suite, ic.auth), mkC(rr, ic.suite)
		scfg.Certificates, ccfg.Certificates = ic.srvCerts, ic.cliCerts
		if ic.srvName != "" {
			ccfg.ServerName = ic.srvName
		}
		out := handshakePair(ccfg, scfg, nil)
		w := map[string]interface{}{"attack": ic.name, "suite": suiteName(ic.suite), "client_error": errStr(out.cli.err), "server_error": errStr(out.srv.err)}
		c08Judge(rep, "identity/"+ic.name, ic.attacked, out, w)
		rep.Eval("identity/" + ic.name + "/" + suiteName(ic.suite))
		// the same case through copies made by Config.Clone (what Dial, GetConfigForClient users and credential wrappers
		// hand to the handshake): a copy must enforce exactly what the original enforces
		outC := handshakePair(ccfg.Clone(), scfg.Clone(), nil)
		wc := map[string]interface{}{"attack": ic.name, "suite": suiteName(ic.suite), "through": "Config.Clone()", "client_error": errStr(outC.cli.err), "server_error": errStr(outC.srv.err)}
		c08Judge(rep, "identity-via-Clone/"+ic.name, ic.attacked, outC, wc)
		rep.Eval("identity-via-Clone/" + ic.name + "/" + suiteName(ic.suite))
		// and through GetConfigForClient: the listener's own Config asks for less (no, any, or an unverified client
		// certificate; no ClientCAs) and the per-client Config it returns is the one above. Everything decided after the
		// ClientHello has to follow the per-client Config.
		inner := scfg.Clone()
		outer := scfg.Clone()
		outer.ClientAuth = []gmtls.ClientAuthType{gmtls.NoClientCert, gmtls.RequestClientCert, gmtls.RequireAnyClientCert}[i%3]
		outer.ClientCAs = nil
		outer.GetConfigForClient = func(*gmtls.ClientHelloInfo) (*gmtls.Config, error) { return inner, nil }
		outG := handshakePair(ccfg.Clone(), outer, nil)
		wg := map[string]interface{}{"attack": ic.name, "suite": suiteName(ic.suite), "through": "GetConfigForClient", "listener_client_auth": authName(outer.ClientAuth), "client_error": errStr(outG.cli.err), "server_error": errStr(outG.srv.err)}
		c08Judge(rep, "identity-via-GetConfigForClient/"+ic.name, ic.attacked, outG, wg)
		rep.Eval("identity-via-GetConfigForClient/" + ic.name + "/" + suiteName(ic.suite))
	})

	// ---- (1c) what one handshake receives must not become a trust anchor for the next: a genuine server appends a
	// foreign CA after its two certificates; afterwards a server certified only by that CA must still be refused by the
	// same client configuration (same RootCAs pool object), and the pool must still hold what the application put in
	for _, su := range suites {
		rr := c.Rng(fmt.Sprintf("anchor%d", su))
		subjectsBefore := len(pki.pool.Subjects())
		encPlus := gmtls.Certificate{Certificate: [][]byte{pki.enc.Certificate[0], pki.other.root.Raw}, PrivateKey: pki.enc.PrivateKey}
		scfg1, ccfg := mkS(rr, su, gmtls.NoClientCert), mkC(rr, su)
		scfg1.Certificates = []gmtls.Certificate{pki.sig, encPlus}
		o1 := handshakePair(ccfg, scfg1, nil)
		w := map[string]interface{}{"suite": suiteName(su), "first_client_error": errStr(o1.cli.err), "first_server_error": errStr(o1.srv.err)}
		if o1.cli.completed {
			o1.cli.conn.Close()
			o1.srv.conn.Close()
		}
		scfg2 := mkS(rr, su, gmtls.NoClientCert)
		scfg2.Certificates = []gmtls.Certificate{pki.other.sig, pki.other.enc}
		ccfg2 := mkC(rr, su) // a fresh Config value holding the *same* RootCAs pool, as an application's configs do
		o2 := handshakePair(ccfg2, scfg2, nil)
		w["second_client_error"], w["second_server_error"] = errStr(o2.cli.err), errStr(o2.srv.err)
		c08Judge(rep, "identity/server-certified-by-a-CA-that-an-earlier-server-merely-sent-along", "client", o2, w)
		if n := len(pki.pool.Subjects()); n != subjectsBefore {
			rep.Violation("C08/trust-anchors/root-pool-changed-by-a-handshake", fmt.Sprintf("the application's RootCAs pool held %d certificates before the handshakes and holds %d now", subjectsBefore, n), w)
		}
		rep.Eval("identity/trust-anchor-carry-over/" + suiteName(su))
	}
	runC08Resumption(c, pki)
	runC08More(c, pki)
	runC08Scripted(c, pki)
	runC08MITM(c, pki, mkC, mkS)
	runC08TLS12(c, pki)
}

func c08Judge(rep *mon.Reporter, key, attacked string, out *pairOutcome, w map[string]interface{}) {
	for side, e := range map[string]*endResult{"client": &out.cli, "server": &out.srv} {
		if e.panicked != nil {
			// only the attacked (honestly configured) side is judged; a deliberately broken endpoint crashing on its own
			// configuration is not this property's business
			if attacked == side || attacked == "both" || attacked == "none" {
				rep.Violation("C08/"+key+"/panic/"+side+"/"+e.panicked.Func, e.panicked.Value, w)
			} else {
				rep.Count("misconfigured_attacker_side_panicked(not judged)", 1)
			}
		}
	}
	if out.stuck != "" {
		rep.Violation("C08/"+key+"/stuck", out.stuck, w)
	}
	switch attacked {
	case "client":
		if out.cli.completed {
			rep.Violation("C08/"+key+"/client-completes", "the verifying client completed the handshake with a peer that cannot prove the certified identity", w)
		}
	case "server":
		if out.srv.completed {
			rep.Violation("C08/"+key+"/server-completes", "the server completed the handshake with a client that cannot prove the certified identity", w)
		}
	case "both":
		if out.cli.completed && out.srv.completed {
			rep.Violation("C08/"+key+"/both-complete", "", w)
		}
		if out.srv.completed {
			rep.Violation("C08/"+key+"/server-completes", "", w)
		}
	case "none":
		if !out.cli.completed || !out.srv.completed {
			rep.Violation("C08/"+key+"/control-fails", fmt.Sprintf("%v / %v", out.cli.err, out.srv.err), w)
		}
	}
	if out.cli.completed && out.srv.completed && attacked != "none" {
		rep.Violation("C08/"+key+"/both-sides-complete", "", w)
	}
}

// ---- (2) scripted reference peer that is well-formed but lacks the identity
func runC08Scripted(c *Ctx, pki *tlsPKI) {
	rep := c.Rep
	type sc struct {
		name         string
		peerIsClient bool
		auth         gmtls.ClientAuthType
	}
	var cases []sc
	for _, n := range []string{"ske-over-other-client-random", "ske-over-other-server-random", "ske-over-other-encryption-certificate", "ske-by-other-key", "ske-replayed-from-recorded-session", "ske-by-encryption-key",
		"ske-omitted", "ske-omitted-certificate-request-follows", "ske-replaced-by-certificate-request",
		"server-finished-wrong", "server-finished-of-client-label", "control"} {
		cases = append(cases, sc{n, false, 0})
	}
	for _, a := range []gmtls.ClientAuthType{gmtls.RequestClientCert, gmtls.RequireAnyClientCert, gmtls.VerifyClientCertIfGiven, gmtls.RequireAndVerifyClientCert} {
		for _, n := range []string{"certverify-by-other-key", "certverify-over-other-transcript", "certverify-omitted", "certverify-from-recorded-session", "control"} {
			cases = append(cases, sc{n, true, a})
		}
	}
	for _, n := range []string{"client-finished-wrong", "premaster-under-other-key", "premaster-wrong-length", "premaster-not-sm2-ciphertext", "control"} {
		cases = append(cases, sc{n, true, gmtls.NoClientCert})
	}
	// a recorded honest session to replay from
	var recordedSKE, recordedCV []byte
	{
		rr := c.Rng("recorded")
		log := &wireLog{}
		cm, sm := newMemPair(log, nil)
		scfg := &gmtls.Config{GMSupport: gmtls.NewGMSupport(), Certificates: []gmtls.Certificate{pki.sig, pki.enc}, ClientAuth: gmtls.RequireAndVerifyClientCert, ClientCAs: pki.pool, Time: func() timeT { return fixedNow }, Rand: mon.NewRNG(rr.U64()), SessionTicketsDisabled: true}
		peer := &ref.Peer{Conn: cm, Rand: mon.NewRNG(rr.U64()).Bytes, Suites: []uint16{ref.SuiteECCSM4CBC}, ClientSignKey: pki.cliSigKey.D, ClientCerts: [][]byte{pki.cliSigCert.Raw}}
		var wg sync.WaitGroup
		wg.Add(1)
		go func() { defer wg.Done(); mon.Guard(func() { gmtls.Server(sm, scfg).Handshake() }); sm.Close() }()
		peer.RunClient()
		cm.Close()
		wg.Wait()
		d := ref.DecodeSession(log.snapshot(), [][]byte{peer.Master}, nil)
		_ = d
		// extract SKE and CertificateVerify bodies from the capture
		var cs, ss []byte
		for _, ev := range log.snapshot() {
			if ev.FromClient {
				cs = append(cs, ev.Data...)
			} else {
				ss = append(ss, ev.Data...)
			}
		}
		find := func(stream []byte, typ byte) []byte {
			recs, _ := ref.SplitRecords(stream)
			var hs []byte
			for _, r := range recs {
				if r.Type == ref.RecCCS {
					break
				}
				if r.Type == ref.RecHandshake {
					hs = append(hs, r.Body...)
				}
			}
			for len(hs) >= 4 {
				n := int(hs[1])<<16 | int(hs[2])<<8 | int(hs[3])
				if len(hs) < 4+n {
					break
				}
				if hs[0] == typ {
					return append([]byte{}, hs[:4+n]...)
				}
				hs = hs[4+n:]
			}
			return nil
		}
		recordedSKE, recordedCV = find(ss, ref.HSServerKeyExchange), find(cs, ref.HSCertificateVerify)
	}
	for _, suite := range []uint16{ref.SuiteECCSM4CBC, ref.SuiteECCSM4GCM} {
		suite := suite
		Par(len(cases), func(i int) {
			cs := cases[i]
			rr := c.Rng(fmt.Sprintf("scr%d/%d", suite, i))
			log := &wireLog{}
			cm, sm := newMemPair(log, nil)
			rnd := mon.NewRNG(rr.U64())
			peer := &ref.Peer{Rand: rnd.Bytes, Suites: []uint16{suite}}
			otherKey := newSM2Key(rr)
			w := map[string]interface{}{"attack": cs.name, "suite": suiteName(suite), "auth": authName(cs.auth)}
			var end *gmtls.Conn
			var peerConn, endConn *memConn
			if cs.peerIsClient {
				peerConn, endConn = cm, sm
				scfg := &gmtls.Config{GMSupport: gmtls.NewGMSupport(), Certificates: []gmtls.Certificate{pki.sig, pki.enc}, ClientAuth: cs.auth, ClientCAs: pki.pool, Time: func() timeT { return fixedNow }, Rand: mon.NewRNG(rr.U64()), SessionTicketsDisabled: true}
				end = gmtls.Server(endConn, scfg)
				if cs.auth != gmtls.NoClientCert {
					peer.ClientSignKey, peer.ClientCerts = pki.cliSigKey.D, [][]byte{pki.cliSigCert.Raw}
				}
			} else {
				peerConn, endConn = sm, cm
				ccfg := &gmtls.Config{GMSupport: gmtls.NewGMSupport(), ServerName: tlsServerName, RootCAs: pki.pool, Time: func() timeT { return fixedNow }, Rand: mon.NewRNG(rr.U64()), SessionTicketsDisabled: true}
				end = gmtls.Client(endConn, ccfg)
				peer.SignKey, peer.EncKey, peer.SignCert, peer.EncCert = pki.sigKey.D, pki.encKey.D, pki.sigCert.Raw, pki.encCert.Raw
				// without the ServerKeyExchange nothing the server sends is signed: whoever holds the encryption key alone
				// (or, with a CertificateRequest in its place, whatever message stands there) must not pass
				peer.RequestClientCert = cs.name == "ske-omitted-certificate-request-follows" || cs.name == "ske-replaced-by-certificate-request"
			}
			peer.Conn = peerConn
			peer.Mutate = func(step string, def []ref.Item) []ref.Item {
				hs := func(b []byte) []ref.Item { return []ref.Item{{RecType: ref.RecHandshake, Data: b}} }
				signWith := func(key *sm2.PrivateKey, msg []byte) []byte {
					s, _ := key.Sign(rnd, msg, nil)
					return s
				}
				switch {
				case step == ref.StServerKeyExchange && cs.name == "ske-over-other-client-random":
					return hs(ref.MarshalSKE(signWith(pki.sigKey, ref.SKEParams(rnd.Bytes(32), peer.ServerRandom, pki.encCert.Raw))))
				case step == ref.StServerKeyExchange && cs.name == "ske-over-other-server-random":
					return hs(ref.MarshalSKE(signWith(pki.sigKey, ref.SKEParams(peer.ClientRandom, rnd.Bytes(32), pki.encCert.Raw))))
				case step == ref.StServerKeyExchange && cs.name == "ske-over-other-encryption-certificate":
					return hs(ref.MarshalSKE(signWith(pki.sigKey, ref.SKEParams(peer.ClientRandom, peer.ServerRandom, pki.other.encCert.Raw))))
				case step == ref.StServerKeyExchange && cs.name == "ske-by-other-key":
					return hs(ref.MarshalSKE(signWith(otherKey, ref.SKEParams(peer.ClientRandom, peer.ServerRandom, pki.encCert.Raw))))
				case step == ref.StServerKeyExchange && cs.name == "ske-by-encryption-key":
					return hs(ref.MarshalSKE(signWith(pki.encKey, ref.SKEParams(peer.ClientRandom, peer.ServerRandom, pki.encCert.Raw))))
				case step == ref.StServerKeyExchange && cs.name == "ske-replayed-from-recorded-session" && recordedSKE != nil:
					return hs(recordedSKE)
				case step == ref.StServerKeyExchange && (cs.name == "ske-omitted" || cs.name == "ske-omitted-certificate-request-follows"):
					return nil
				case step == ref.StServerKeyExchange && cs.name == "ske-replaced-by-certificate-request":
					return hs(ref.MarshalCertRequest([]byte{1, 64}, nil))
				case step == ref.StCertificateRequest && cs.name == "ske-replaced-by-certificate-request":
					return nil
				case step == ref.StServerFinished && cs.name == "server-finished-wrong":
					return hs(ref.HSMsg(ref.HSFinished, rnd.Bytes(12)))
				case step == ref.StServerFinished && cs.name == "server-finished-of-client-label":
					return hs(ref.HSMsg(ref.HSFinished, ref.PRF(peer.Master, "client finished", ref.SM3(transcriptOf(peer)), 12)))
				case step == ref.StCertificateVerify && cs.name == "certverify-by-other-key":
					return hs(ref.MarshalCertVerify(signWith(otherKey, ref.SM3(transcriptOf(peer)))))
				case step == ref.StCertificateVerify && cs.name == "certverify-over-other-transcript":
					return hs(ref.MarshalCertVerify(signWith(pki.cliSigKey, ref.SM3(append(transcriptOf(peer), 0)))))
				case step == ref.StCertificateVerify && cs.name == "certverify-omitted":
					return nil
				case step == ref.StCertificateVerify && cs.name == "certverify-from-recorded-session" && recordedCV != nil:
					return hs(recordedCV)
				case step == ref.StClientFinished && cs.name == "client-finished-wrong":
					return hs(ref.HSMsg(ref.HSFinished, rnd.Bytes(12)))
				case step == ref.StClientKeyExchange && cs.name == "premaster-under-other-key":
					ct, _ := sm2.Encrypt(&otherKey.PublicKey, append([]byte{1, 1}, rnd.Bytes(46)...), rnd, sm2.C1C3C2)
					a, _ := sm2.CipherMarshal(ct)
					return hs(ref.MarshalCKX(a))
				case step == ref.StClientKeyExchange && cs.name == "premaster-wrong-length":
					ct, _ := sm2.Encrypt(&pki.encKey.PublicKey, append([]byte{1, 1}, rnd.Bytes(45)...), rnd, sm2.C1C3C2)
					a, _ := sm2.CipherMarshal(ct)
					return hs(ref.MarshalCKX(a))
				case step == ref.StClientKeyExchange && cs.name == "premaster-not-sm2-ciphertext":
					return hs(ref.MarshalCKX(rnd.Bytes(150)))
				}
				return def
			}
			var wg sync.WaitGroup
			wg.Add(1)
			var perr error
			go func() {
				defer wg.Done()
				mon.Guard(func() {
					if cs.peerIsClient {
						perr = peer.RunClient()
					} else {
						perr = peer.RunServer()
					}
				})
				peerConn.Close()
			}()
			var herr error
			pi := mon.Guard(func() { herr = end.Handshake() })
			endConn.Close()
			wg.Wait()
			w["endpoint_error"], w["peer_error"] = errStr(herr), errStr(perr)
			key := "scripted/" + cs.name
			if cs.peerIsClient {
				key += "/" + authName(cs.auth)
			}
			if pi != nil {
				rep.Violation("C08/"+key+"/panic/"+pi.Func, pi.Value, w)
			}
			if cs.name == "control" {
				if herr != nil || !peer.Completed {
					rep.Violation("C08/"+key+"/control-fails", fmt.Sprintf("%v / %v", herr, perr), w)
				}
			} else if herr == nil && pi == nil {
				rep.Violation("C08/"+key+"/endpoint-completes", "gmtls completed the handshake with a peer that did not prove the certified identity / this session's transcript", w)
			}
			rep.Eval(key + "/" + suiteName(suite))
			if i == 1 && suite == ref.SuiteECCSM4CBC {
				rep.Sample(w)
			}
		})
	}
}

// transcriptOf returns the peer's handshake transcript so far (through its exported view: recomputed from what it sent/received).
func transcriptOf(p *ref.Peer) []byte { return p.Transcript() }

// ---- (3) man in the middle between two genuine endpoints
func runC08MITM(c *Ctx, pki *tlsPKI, mkC func(*mon.RNG, uint16) *gmtls.Config, mkS func(*mon.RNG, uint16, gmtls.ClientAuthType) *gmtls.Config) {
	rep := c.Rep
	// learn the shape of the cleartext flight (record index -> handshake type, length) per policy from a dry run
	type target struct {
		fromClient bool
		idx        int // index of the record in that direction
		typ        byte
		n          int // record body length
	}
	for _, suite := range []uint16{gmtls.GMTLS_ECC_SM4_CBC_SM3, gmtls.GMTLS_ECC_SM4_GCM_SM3} {
		for _, auth := range []gmtls.ClientAuthType{gmtls.NoClientCert, gmtls.RequireAndVerifyClientCert, gmtls.RequestClientCert} {
			if !c.Thorough && suite == gmtls.GMTLS_ECC_SM4_GCM_SM3 && auth == gmtls.RequestClientCert {
				continue
			}
			rr := c.Rng(fmt.Sprintf("mitm-shape/%d/%d", suite, auth))
			var targets []target
			var tmu sync.Mutex
			seenCCS := map[bool]bool{}
			scfg, ccfg := mkS(rr, suite, auth), mkC(rr, suite)
			ccfg.Certificates = []gmtls.Certificate{pki.cliSig, pki.cliEnc}
			dry := handshakePair(ccfg, scfg, func(fc bool, idx int, rec []byte) ([][]byte, bool) {
				tmu.Lock()
				defer tmu.Unlock()
				if rec[0] == ref.RecCCS {
					seenCCS[fc] = true
				}
				if rec[0] == ref.RecHandshake && !seenCCS[fc] {
					targets = append(targets, target{fc, idx, rec[5], len(rec) - 5})
				}
				return nil, false
			})
			if !dry.cli.completed || !dry.srv.completed {
				rep.Violation("C08/mitm/control-fails", fmt.Sprintf("%v / %v", dry.cli.err, dry.srv.err), nil)
				continue
			}
			type mj struct {
				t    target
				off  int
				kind string
			}
			var jobs []mj
			for _, t := range targets {
				step := 1
				if !c.Thorough && t.n > 200 {
					step = t.n / 60
				}
				for off := 0; off < t.n; off += step {
					jobs = append(jobs, mj{t, off, "bitflip"})
				}
				for _, k := range []string{"drop-message", "duplicate-message", "zero-body"} {
					jobs = append(jobs, mj{t, 0, k})
				}
				if t.typ == ref.HSClientHello {
					for _, k := range []string{"ch-suites-reordered", "ch-suite-removed", "ch-version-lowered", "ch-random-replaced", "ch-session-id-added"} {
						jobs = append(jobs, mj{t, 0, k})
					}
				}
				if t.typ == ref.HSCertificate {
					for _, k := range []string{"cert-swap", "cert-drop-second", "cert-append"} {
						jobs = append(jobs, mj{t, 0, k})
					}
				}
			}
			Par(len(jobs), func(ji int) {
				j := jobs[ji]
				r2 := c.Rng(fmt.Sprintf("mitm/%d/%d/%d", suite, auth, ji))
				scfg, ccfg := mkS(r2, suite, auth), mkC(r2, suite)
				ccfg.Certificates = []gmtls.Certificate{pki.cliSig, pki.cliEnc}
				changed := false
				var mu sync.Mutex
				out := handshakePair(ccfg, scfg, func(fc bool, idx int, rec []byte) ([][]byte, bool) {
					if fc != j.t.fromClient || idx != j.t.idx || rec[0] != ref.RecHandshake {
						return nil, false
					}
					mu.Lock()
					defer mu.Unlock()
					m := append([]byte{}, rec...)
					body := m[5:]
					rebuild := func(b []byte) [][]byte {
						o := append([]byte{m[0], m[1], m[2], byte(len(b) >> 8), byte(len(b))}, b...)
						return [][]byte{o}
					}
					switch j.kind {
					case "bitflip":
						if j.off < len(body) {
							body[j.off] ^= 1 << uint(ji%8)
							changed = true
						}
						return [][]byte{m}, false
					case "drop-message":
						changed = true
						return [][]byte{}, false
					case "duplicate-message":
						changed = true
						return [][]byte{m, m}, false
					case "zero-body":
						for i := 4; i < len(body); i++ {
							if body[i] != 0 {
								changed = true
							}
							body[i] = 0
						}
						return [][]byte{m}, false
					}
					if len(body) < 4 {
						return nil, false
					}
					hb := body[4:]
					switch j.kind {
					case "ch-suites-reordered", "ch-suite-removed", "ch-version-lowered", "ch-random-replaced", "ch-session-id-added":
						ch, err := ref.ParseClientHello(hb)
						if err != nil {
							return nil, false
						}
						orig := ch.Marshal()
						switch j.kind {
						case "ch-suites-reordered":
							for a, b := 0, len(ch.Suites)-1; a < b; a, b = a+1, b-1 {
								ch.Suites[a], ch.Suites[b] = ch.Suites[b], ch.Suites[a]
							}
							ch.Suites = append(ch.Suites, 0xe011)
						case "ch-suite-removed":
							ch.Suites = append([]uint16{0x00ff}, ch.Suites...)
						case "ch-version-lowered":
							ch.Version = 0x0100
						case "ch-random-replaced":
							ch.Random = bytes.Repeat([]byte{0x5a}, 32)
						case "ch-session-id-added":
							ch.SessionID = bytes.Repeat([]byte{0x33}, 32)
						}
						nm := ch.Marshal()
						changed = !bytes.Equal(nm, orig)
						return rebuild(nm), false
					case "cert-swap", "cert-drop-second", "cert-append":
						certs, err := ref.ParseCertificate(hb)
						if err != nil || len(certs) < 1 {
							return nil, false
						}
						switch j.kind {
						case "cert-swap":
							if len(certs) >= 2 {
								certs[0], certs[1] = certs[1], certs[0]
							} else {
								return nil, false
							}
						case "cert-drop-second":
							certs = certs[:1]
						case "cert-append":
							certs = append(certs, pki.root.Raw)
						}
						nm := ref.MarshalCertificate(certs)
						changed = !bytes.Equal(nm, body)
						return rebuild(nm), false
					}
					return nil, false
				})
				dirName := map[bool]string{true: "C", false: "S"}[j.t.fromClient]
				w := map[string]interface{}{"suite": suiteName(suite), "auth": authName(auth), "message": fmt.Sprintf("%s:type%d(record %d, %d bytes)", dirName, j.t.typ, j.t.idx, j.t.n), "rewrite": j.kind, "offset": j.off,
					"client_error": errStr(out.cli.err), "server_error": errStr(out.srv.err)}
				for side, e := range map[string]*endResult{"client": &out.cli, "server": &out.srv} {
					if e.panicked != nil {
						rep.Violation(fmt.Sprintf("C08/mitm/panic/%s/%s/type%d/%s", side, e.panicked.Func, j.t.typ, j.kind), e.panicked.Value, w)
					}
				}
				if out.stuck != "" {
					// e.g. a length field enlarged in transit: both sides wait for bytes that never come. Nobody completed,
					// which is all this property asks; the wait itself is not a violation (the input has not ended).
					rep.Count("mitm_runs_where_both_sides_kept_waiting", 1)
				}
				cls := fmt.Sprintf("mitm/%s/auth=%s/%s:type%d/%s", suiteName(suite), authName(auth), dirName, j.t.typ, j.kind)
				if !changed {
					rep.EvalTrivial(cls)
					return
				}
				if out.cli.completed && out.srv.completed {
					same := out.cli.state.CipherSuite == out.srv.state.CipherSuite && sameStrings(out.cli.ekm, out.srv.ekm)
					rep.Violation(fmt.Sprintf("C08/mitm/both-sides-complete-after-rewrite/%s:type%d/%s", dirName, j.t.typ, j.kind), fmt.Sprintf("offset %d; views identical=%v", j.off, same), w)
				}
				rep.Eval(cls)
			})
		}
	}
}

// ---- TLS 1.2 variants of (1) and (3)
func runC08TLS12(c *Ctx, pki *tlsPKI) {
	rep := c.Rep
	r := c.Rng("tls12")
	mk := func(rr *mon.RNG) (*gmtls.Config, *gmtls.Config) {
		scfg := &gmtls.Config{Certificates: []gmtls.Certificate{pki.rsaCert}, CipherSuites: []uint16{gmtls.TLS_ECDHE_RSA_WITH_AES_128_GCM_SHA256}, Time: func() timeT { return fixedNow }, Rand: mon.NewRNG(rr.U64()), SessionTicketsDisabled: true, MinVersion: gmtls.VersionTLS12}
		ccfg := &gmtls.Config{ServerName: tlsServerName, RootCAs: pki.gmStdPool, CipherSuites: []uint16{gmtls.TLS_ECDHE_RSA_WITH_AES_128_GCM_SHA256}, Time: func() timeT { return fixedNow }, Rand: mon.NewRNG(rr.U64()), SessionTicketsDisabled: true, MinVersion: gmtls.VersionTLS12, MaxVersion: gmtls.VersionTLS12}
		return ccfg, scfg
	}
	// identity
	{
		ccfg, scfg := mk(r)
		_, rk2 := cachedRSA()
		scfg.Certificates = []gmtls.Certificate{{Certificate: pki.rsaCert.Certificate, PrivateKey: rk2}}
		out := handshakePair(ccfg, scfg, nil)
		c08Judge(rep, "tls12/server-wrong-key", "client", out, map[string]interface{}{"client_error": errStr(out.cli.err), "server_error": errStr(out.srv.err)})
		rep.Eval("tls12/server-wrong-key")
		ccfg, scfg = mk(r)
		ccfg.RootCAs = pki.pool
		out = handshakePair(ccfg, scfg, nil)
		c08Judge(rep, "tls12/server-untrusted", "client", out, map[string]interface{}{"client_error": errStr(out.cli.err)})
		rep.Eval("tls12/server-untrusted")
		ccfg, scfg = mk(r)
		ccfg.ServerName = "other.example"
		out = handshakePair(ccfg, scfg, nil)
		c08Judge(rep, "tls12/server-wrong-name", "client", out, map[string]interface{}{"client_error": errStr(out.cli.err)})
		rep.Eval("tls12/server-wrong-name")
		// server certificate whose SAN names another host while its CommonName is the requested name
		{
			rk, _ := cachedRSA()
			if _, der, e := issueStd(tlsServerName, 32, true, []string{"other.example"}, &rk.PublicKey, nil, rk, r); e == nil {
				ccfg, scfg = mk(r)
				scfg.Certificates = []gmtls.Certificate{{Certificate: [][]byte{der}, PrivateKey: rk}}
				pool := gx509.NewCertPool()
				if cc, e := gx509.ParseCertificate(der); e == nil {
					pool.AddCert(cc)
				}
				ccfg.RootCAs = pool
				out = handshakePair(ccfg, scfg, nil)
				c08Judge(rep, "tls12/server-san-other-host-cn-requested", "client", out, map[string]interface{}{"client_error": errStr(out.cli.err)})
				rep.Eval("tls12/server-san-other-host-cn-requested")
			}
		}
		// client authentication on the standard path (SM2 client certificates under the GM root)
		{
			attKey := newSM2Key(r)
			_, attDER, _ := issueSM2(certSpec{cn: "client sign", serial: 20, keyUsage: gx509.KeyUsageDigitalSignature, eku: []gx509.ExtKeyUsage{gx509.ExtKeyUsageClientAuth}}, &attKey.PublicKey, nil, attKey, r)
			type cc struct {
				name     string
				certs    []gmtls.Certificate
				attacked string
			}
			for _, a := range []gmtls.ClientAuthType{gmtls.VerifyClientCertIfGiven, gmtls.RequireAndVerifyClientCert} {
				for _, k := range []cc{
					{"client-cert-wrong-key", []gmtls.Certificate{{Certificate: pki.cliSig.Certificate, PrivateKey: newSM2Key(r)}}, "server"},
					{"client-cert-untrusted", []gmtls.Certificate{pki.other.cliSig}, "server"},
					{"client-victim-leaf-then-own-cert-signed-with-own-key", []gmtls.Certificate{{Certificate: [][]byte{pki.cliSigCert.Raw, attDER}, PrivateKey: attKey}}, "server"},
					{"client-own-cert-then-victim-leaf-signed-with-own-key", []gmtls.Certificate{{Certificate: [][]byte{attDER, pki.cliSigCert.Raw}, PrivateKey: attKey}}, "server"},
					{"client-control", []gmtls.Certificate{pki.cliSig}, "none"},
				} {
					ccfg, scfg = mk(r)
					scfg.ClientAuth, scfg.ClientCAs = a, pki.pool
					ccfg.Certificates = k.certs
					out = handshakePair(ccfg, scfg, nil)
					c08Judge(rep, "tls12/"+k.name+"/"+authName(a), k.attacked, out, map[string]interface{}{"client_error": errStr(out.cli.err), "server_error": errStr(out.srv.err)})
					rep.Eval("tls12/" + k.name + "/" + authName(a))
				}
			}
		}
		ccfg, scfg = mk(r)
		out = handshakePair(ccfg, scfg, nil)
		c08Judge(rep, "tls12/control", "none", out, map[string]interface{}{"client_error": errStr(out.cli.err), "server_error": errStr(out.srv.err)})
		rep.Eval("tls12/control")
	}
	// MITM bit flips on the cleartext flight
	n := c.Q(150, 20000)
	Par(n, func(i int) {
		rr := c.Rng(fmt.Sprintf("tls12mitm%d", i))
		ccfg, scfg := mk(rr)
		fromClient := i%3 == 0
		recIdx := (i / 3) % 4
		changed := false
		seenCCS := map[bool]bool{}
		var mu sync.Mutex
		out := handshakePair(ccfg, scfg, func(fc bool, idx int, rec []byte) ([][]byte, bool) {
			mu.Lock()
			defer mu.Unlock()
			if rec[0] == ref.RecCCS {
				seenCCS[fc] = true
			}
			if fc != fromClient || idx != recIdx || rec[0] != ref.RecHandshake || seenCCS[fc] {
				return nil, false
			}
			m := append([]byte{}, rec...)
			off := 5 + int(rr.U64()%uint64(len(m)-5))
			m[off] ^= 1 << uint(i%8)
			changed = true
			return [][]byte{m}, false
		})
		w := map[string]interface{}{"from_client": fromClient, "record": recIdx, "client_error": errStr(out.cli.err), "server_error": errStr(out.srv.err)}
		for side, e := range map[string]*endResult{"client": &out.cli, "server": &out.srv} {
			if e.panicked != nil {
				rep.Violation("C08/tls12-mitm/panic/"+side+"/"+e.panicked.Func, e.panicked.Value, w)
			}
		}
		if changed && out.cli.completed && out.srv.completed {
			rep.Violation("C08/tls12-mitm/both-sides-complete-after-rewrite", fmt.Sprintf("record %d fromClient=%v", recIdx, fromClient), w)
		}
		if changed {
			rep.Eval(fmt.Sprintf("tls12-mitm/fromClient=%v/record=%d", fromClient, recIdx))
		} else {
			rep.EvalTrivial("tls12-mitm/not-reached")
		}
	})
}

// ---- (1b) resumption must not bypass client authentication: a ticket obtained where the policy is lax (or while the
// certificate was still valid) must not let the client complete where verified client certificates are required.
func runC08Resumption(c *Ctx, pki *tlsPKI) {
	rep := c.Rep
	r := c.Rng("c08resume")
	type mode struct {
		name   string
		gm     bool
		suites []uint16
	}
	modes := []mode{{"GMSSL/CBC", true, []uint16{gmtls.GMTLS_ECC_SM4_CBC_SM3}}, {"GMSSL/GCM", true, []uint16{gmtls.GMTLS_ECC_SM4_GCM_SM3}}, {"TLS1.2", false, []uint16{gmtls.TLS_ECDHE_RSA_WITH_AES_128_GCM_SHA256}}}
	// a trusted client certificate with a short life, for the expiry scenario
	shortKey := newSM2Key(r)
	_, shortDER, _ := issueSM2(certSpec{cn: "client short", serial: 120, keyUsage: gx509.KeyUsageDigitalSignature, eku: []gx509.ExtKeyUsage{gx509.ExtKeyUsageClientAuth},
		notBefore: fixedNow.Add(-time.Hour), notAfter: fixedNow.Add(time.Hour)}, &shortKey.PublicKey, pki.root, pki.rootKey, r)
	shortCert := gmtls.Certificate{Certificate: [][]byte{shortDER}, PrivateKey: shortKey}
	for _, m := range modes {
		for _, scen := range []string{"ticket-from-lax-server-offered-to-strict-server", "client-certificate-expires-between-connections",
			"ticket-of-a-certificate-less-session-offered-to-a-server-requiring-verified-certificates", "ticket-of-a-certificate-less-session-offered-to-a-server-requiring-any-certificate", "control"} {
			var key [32]byte
			r.Fill(key[:])
			now1, now2 := fixedNow, fixedNow
			mkSrv := func(auth gmtls.ClientAuthType, now *time.Time) *gmtls.Config {
				cfg := &gmtls.Config{CipherSuites: m.suites, ClientAuth: auth, ClientCAs: pki.pool, Time: func() timeT { return *now }, Rand: mon.NewRNG(r.U64())}
				if m.gm {
					cfg.GMSupport, cfg.Certificates = gmtls.NewGMSupport(), []gmtls.Certificate{pki.sig, pki.enc}
				} else {
					cfg.Certificates, cfg.MinVersion = []gmtls.Certificate{pki.rsaCert}, gmtls.VersionTLS12
				}
				cfg.SetSessionTicketKeys([][32]byte{key})
				return cfg
			}
			cache := gmtls.NewLRUClientSessionCache(4)
			mkCli := func(certs []gmtls.Certificate) *gmtls.Config {
				cfg := &gmtls.Config{ServerName: tlsServerName, CipherSuites: m.suites, Time: func() timeT { return fixedNow }, Rand: mon.NewRNG(r.U64()), ClientSessionCache: cache, Certificates: certs}
				if m.gm {
					cfg.GMSupport, cfg.RootCAs = gmtls.NewGMSupport(), pki.pool
				} else {
					cfg.RootCAs, cfg.MinVersion, cfg.MaxVersion = pki.gmStdPool, gmtls.VersionTLS12, gmtls.VersionTLS12
				}
				return cfg
			}
			var first, second *gmtls.Config
			var certs []gmtls.Certificate
			attacked := "server"
			switch scen {
			case "ticket-from-lax-server-offered-to-strict-server":
				certs = []gmtls.Certificate{pki.other.cliSig, pki.other.cliEnc} // not under the server's client CAs
				first, second = mkSrv(gmtls.RequireAnyClientCert, &now1), mkSrv(gmtls.RequireAndVerifyClientCert, &now2)
			case "client-certificate-expires-between-connections":
				certs = []gmtls.Certificate{shortCert, pki.cliEnc}
				first, second = mkSrv(gmtls.RequireAndVerifyClientCert, &now1), mkSrv(gmtls.RequireAndVerifyClientCert, &now2)
				now2 = fixedNow.Add(3 * time.Hour)
			case "ticket-of-a-certificate-less-session-offered-to-a-server-requiring-verified-certificates":
				certs = nil
				first, second = mkSrv(gmtls.RequestClientCert, &now1), mkSrv(gmtls.RequireAndVerifyClientCert, &now2)
			case "ticket-of-a-certificate-less-session-offered-to-a-server-requiring-any-certificate":
				certs = nil
				first, second = mkSrv(gmtls.NoClientCert, &now1), mkSrv(gmtls.RequireAnyClientCert, &now2)
			default:
				certs = []gmtls.Certificate{pki.cliSig, pki.cliEnc}
				first, second = mkSrv(gmtls.RequireAndVerifyClientCert, &now1), mkSrv(gmtls.RequireAndVerifyClientCert, &now2)
				attacked = "none"
			}
			o1 := handshakePair(mkCli(certs), first, nil)
			w := map[string]interface{}{"mode": m.name, "scenario": scen, "first_client_error": errStr(o1.cli.err), "first_server_error": errStr(o1.srv.err)}
			if !o1.cli.completed || !o1.srv.completed {
				rep.Violation("C08/resumption/first-connection-fails/"+scen, fmt.Sprintf("%v / %v", o1.cli.err, o1.srv.err), w)
				continue
			}
			o1.cli.conn.Close()
			o1.srv.conn.Close()
			o2 := handshakePair(mkCli(certs), second, nil)
			w["second_client_error"], w["second_server_error"], w["second_resumed"] = errStr(o2.cli.err), errStr(o2.srv.err), o2.srv.completed && o2.srv.state.DidResume
			c08Judge(rep, "resumption/"+scen+"/"+m.name, attacked, o2, w)
			rep.Eval("resumption/" + scen + "/" + m.name)
		}
	}
}
