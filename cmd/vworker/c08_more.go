package main

import (
	"fmt"

	"github.com/tjfoc/gmsm/gmtls"
	"github.com/tjfoc/gmsm/sm2"
	gx509 "github.com/tjfoc/gmsm/x509"

	"verif/mon"
)

// c08GraftKey returns genuine with its subjectPublicKeyInfo replaced by that of donor — every other byte, including the
// CA's signature, is the genuine certificate's. Whoever checks the signature over the new TBSCertificate refuses it;
// whoever remembers "this signature was fine" does not.
func c08GraftKey(genuine, donor []byte) []byte {
	g, ok1 := derParse(genuine, 0)
	d, ok2 := derParse(donor, 0)
	if !ok1 || !ok2 || len(g) != 1 || len(d) != 1 || len(g[0].children) != 3 || len(d[0].children) != 3 {
		return nil
	}
	spki := func(tbs *derNode) int {
		// version [0], serial, sigalg, issuer, validity, subject, spki: index 6 with an explicit version, 5 without
		if len(tbs.children) > 6 && len(tbs.children[0].tag) == 1 && tbs.children[0].tag[0] == 0xa0 {
			return 6
		}
		return 5
	}
	gt, dt := g[0].children[0], d[0].children[0]
	gi, di := spki(gt), spki(dt)
	if gi >= len(gt.children) || di >= len(dt.children) {
		return nil
	}
	gt.children[gi] = dt.children[di]
	return g[0].encode()
}

func runC08More(c *Ctx, pki *tlsPKI) {
	rep := c.Rep
	r := c.Rng("c08more")
	suites := []uint16{gmtls.GMTLS_ECC_SM4_CBC_SM3, gmtls.GMTLS_ECC_SM4_GCM_SM3}
	mkS := func(su uint16, certs []gmtls.Certificate) *gmtls.Config {
		return &gmtls.Config{GMSupport: gmtls.NewGMSupport(), Certificates: certs, CipherSuites: []uint16{su}, Time: func() timeT { return fixedNow }, Rand: mon.NewRNG(r.U64()), SessionTicketsDisabled: true}
	}
	mkC := func(su uint16, name string, roots *gx509.CertPool) *gmtls.Config {
		return &gmtls.Config{GMSupport: gmtls.NewGMSupport(), CipherSuites: []uint16{su}, ServerName: name, RootCAs: roots, Time: func() timeT { return fixedNow }, Rand: mon.NewRNG(r.U64()), SessionTicketsDisabled: true}
	}
	// ---- (a) certificates forged by grafting the forger's key into the genuine certificates (genuine CA signature kept),
	// presented to a client whose root pool has just verified the genuine ones
	for _, su := range suites {
		fsk, fek := newSM2Key(r), newSM2Key(r)
		_, dS, e1 := issueSM2(certSpec{cn: "donor", serial: 9001}, &fsk.PublicKey, nil, fsk, r)
		_, dE, e2 := issueSM2(certSpec{cn: "donor", serial: 9002}, &fek.PublicKey, nil, fek, r)
		if e1 != nil || e2 != nil {
			break
		}
		fS, fE := c08GraftKey(pki.sigCert.Raw, dS), c08GraftKey(pki.encCert.Raw, dE)
		if fS == nil || fE == nil {
			rep.Note("c08more: cannot graft keys")
			break
		}
		forged := []gmtls.Certificate{{Certificate: [][]byte{fS}, PrivateKey: fsk}, {Certificate: [][]byte{fE}, PrivateKey: fek}}
		for _, order := range []string{"genuine-first", "forged-first", "genuine-twice-then-forged"} {
			roots := gx509.NewCertPool() // one long-lived pool for the client, as applications keep them
			roots.AddCert(pki.root)
			w := map[string]interface{}{"suite": suiteName(su), "order": order}
			genuine := func() bool {
				o := handshakePair(mkC(su, tlsServerName, roots), mkS(su, []gmtls.Certificate{pki.sig, pki.enc}), nil)
				ok := o.cli.completed && o.srv.completed
				if ok {
					o.cli.conn.Close()
					o.srv.conn.Close()
				}
				return ok
			}
			attack := func(tag string) {
				o := handshakePair(mkC(su, tlsServerName, roots), mkS(su, forged), nil)
				w["client_error"], w["server_error"] = errStr(o.cli.err), errStr(o.srv.err)
				c08Judge(rep, "identity/forged-certificates-carrying-the-genuine-CA-signature/"+tag, "client", o, w)
			}
			switch order {
			case "genuine-first":
				if !genuine() {
					rep.Violation("C08/control/genuine-handshake-fails", "", w)
				}
				attack("after-the-genuine-ones-were-verified-on-the-same-pool")
			case "forged-first":
				attack("on-a-fresh-pool")
				if !genuine() {
					rep.Violation("C08/control/genuine-handshake-fails-after-a-refused-forgery", "", w)
				}
			default:
				genuine()
				genuine()
				attack("after-two-genuine-handshakes-on-the-same-pool")
				attack("repeated")
			}
			rep.Eval("identity/grafted-key-genuine-signature/" + order + "/" + suiteName(su))
		}
	}
	// ---- (b) names that only LOOK like, or case-fold to, the certified name: U+212A KELVIN SIGN folds to k, U+017F LONG S
	// to s, fullwidth letters, a Cyrillic look-alike. The server is certified for the plain ASCII name only.
	{
		kS, kE := newSM2Key(r), newSM2Key(r)
		names := []string{"kelvin-ss.verif.example"}
		mk := func(cn string, serial int64, ku gx509.KeyUsage, k *sm2.PrivateKey) gmtls.Certificate {
			_, der, e := issueSM2(certSpec{cn: cn, serial: serial, dns: names, keyUsage: ku, eku: []gx509.ExtKeyUsage{gx509.ExtKeyUsageServerAuth}}, &k.PublicKey, pki.root, pki.rootKey, r)
			if e != nil {
				return gmtls.Certificate{}
			}
			return gmtls.Certificate{Certificate: [][]byte{der}, PrivateKey: k}
		}
		srvCerts := []gmtls.Certificate{mk("kelvin sign", 9101, gx509.KeyUsageDigitalSignature, kS), mk("kelvin enc", 9102, gx509.KeyUsageKeyEncipherment|gx509.KeyUsageDataEncipherment, kE)}
		asks := []struct{ cls, name string }{
			{"control-exact", "kelvin-ss.verif.example"}, {"control-upper-case", "KELVIN-SS.verif.example"},
			{"kelvin-sign-U+212A", "Kelvin-ss.verif.example"}, {"long-s-U+017F", "kelvin-ſs.verif.example"}, {"long-s-twice", "kelvin-ſſ.verif.example"},
			{"sharp-s-U+00DF", "kelvin-ß.verif.example"}, {"fullwidth-k-U+FF4B", "ｋelvin-ss.verif.example"}, {"cyrillic-ka-U+043A", "кelvin-ss.verif.example"},
			{"dotless-i-U+0131", "kelvın-ss.verif.example"}, {"capital-i-with-dot-U+0130", "kelvİn-ss.verif.example"},
		}
		for _, su := range suites {
			for _, a := range asks {
				o := handshakePair(mkC(su, a.name, pki.pool), mkS(su, srvCerts), nil)
				w := map[string]interface{}{"suite": suiteName(su), "asked_for": a.name, "certified_for": names[0], "client_error": errStr(o.cli.err), "server_error": errStr(o.srv.err)}
				attacked := "client"
				if a.cls[:7] == "control" {
					attacked = "none"
				}
				c08Judge(rep, "identity/server-name-that-is-not-the-certified-name/"+a.cls, attacked, o, w)
				rep.Eval("identity/look-alike-server-name/" + a.cls + "/" + suiteName(su))
			}
		}
	}
	// ---- (c) a client session cache that has evicted a name: reconnecting for that name, the client lands at ANOTHER server
	// (one it holds a session with, same ticket keys across the farm). It must treat the name as unknown: full handshake,
	// and the other server cannot prove the first one's identity.
	for _, su := range suites {
		for capacity := 1; capacity <= 2; capacity++ {
			var key [32]byte
			r.Fill(key[:])
			type srv struct {
				name string
				cfg  *gmtls.Config
			}
			var farm []*srv
			for i := 0; i < capacity+1; i++ {
				name := fmt.Sprintf("farm%d.verif.example", i)
				ks, ke := newSM2Key(r), newSM2Key(r)
				_, ds, e1 := issueSM2(certSpec{cn: name + " sign", serial: int64(9200 + 2*i), dns: []string{name}, keyUsage: gx509.KeyUsageDigitalSignature}, &ks.PublicKey, pki.root, pki.rootKey, r)
				_, de, e2 := issueSM2(certSpec{cn: name + " enc", serial: int64(9201 + 2*i), dns: []string{name}, keyUsage: gx509.KeyUsageKeyEncipherment | gx509.KeyUsageDataEncipherment}, &ke.PublicKey, pki.root, pki.rootKey, r)
				if e1 != nil || e2 != nil {
					continue
				}
				cfg := &gmtls.Config{GMSupport: gmtls.NewGMSupport(), Certificates: []gmtls.Certificate{{Certificate: [][]byte{ds}, PrivateKey: ks}, {Certificate: [][]byte{de}, PrivateKey: ke}},
					CipherSuites: []uint16{su}, Time: func() timeT { return fixedNow }, Rand: mon.NewRNG(r.U64())}
				cfg.SetSessionTicketKeys([][32]byte{key})
				farm = append(farm, &srv{name, cfg})
			}
			if len(farm) != capacity+1 {
				continue
			}
			cache := gmtls.NewLRUClientSessionCache(capacity)
			cli := func(name string) *gmtls.Config {
				return &gmtls.Config{GMSupport: gmtls.NewGMSupport(), CipherSuites: []uint16{su}, ServerName: name, RootCAs: pki.pool, Time: func() timeT { return fixedNow }, Rand: mon.NewRNG(r.U64()), ClientSessionCache: cache}
			}
			w := map[string]interface{}{"suite": suiteName(su), "cache_capacity": capacity}
			okAll := true
			for _, s := range farm { // fills the cache and evicts farm0
				o := handshakePair(cli(s.name), s.cfg, nil)
				if !o.cli.completed || !o.srv.completed {
					okAll = false
					break
				}
				o.cli.conn.Close()
				o.srv.conn.Close()
			}
			if !okAll {
				rep.Violation("C08/control/genuine-handshake-fails", "farm warm-up", w)
				continue
			}
			// the client wants farm0 again and is answered by each of the other members in turn
			for _, other := range farm[1:] {
				o := handshakePair(cli(farm[0].name), other.cfg, nil)
				w["asked_for"], w["answered_by"], w["client_error"], w["server_error"] = farm[0].name, other.name, errStr(o.cli.err), errStr(o.srv.err)
				if o.cli.completed {
					w["client_resumed"] = o.cli.state.DidResume
				}
				c08Judge(rep, "identity/evicted-name-answered-by-another-server-of-the-farm", "client", o, w)
				rep.Eval(fmt.Sprintf("identity/evicted-name-redirected/cap=%d/%s", capacity, suiteName(su)))
			}
		}
	}
}
