package main

import (
	"bytes"
	"crypto/cipher"
	"crypto/rand"
	"encoding/binary"
	"fmt"
	"io"
	"math/big"
	"os"
	"os/exec"
	"runtime"
	"strings"
	"sync"
	"sync/atomic"
	"time"

	"github.com/anishathalye/porcupine"
	"github.com/tjfoc/gmsm/gmtls"
	"github.com/tjfoc/gmsm/sm2"
	"github.com/tjfoc/gmsm/sm3"
	"github.com/tjfoc/gmsm/sm4"
	gx509 "github.com/tjfoc/gmsm/x509"

	"verif/mon"
	"verif/ref"
)

func init() { registry["C20"] = runC20 }

// barrier releases n goroutines at once.
func runConcurrently(n int, f func(g int)) {
	var wg sync.WaitGroup
	start := make(chan struct{})
	for g := 0; g < n; g++ {
		wg.Add(1)
		go func(g int) {
			defer wg.Done()
			<-start
			f(g)
		}(g)
	}
	close(start)
	wg.Wait()
}

func runC20(c *Ctx) {
	rep := c.Rep
	if c.Only == "firstuse-child" {
		runC20FirstUseChild(c)
		return
	}
	rep.Meta("scenarios (worker built with -race; the driver turns every race-detector report that has a gmsm frame into a violation keyed by the pair of gmsm functions): (1) package-level operations on separate data from 2..32 goroutines — sign/verify/encrypt/decrypt/key exchange, SM3 one-shot and separate hashers, SM4 mode helpers, GCM helpers, certificate parse + chain verification against shared CertPools, PKCS#7 parse (BER transcoder), each result compared with its sequential counterpart; (2) one cipher.Block shared by all goroutines, Encrypt/Decrypt mixed, results vs the reference; (3) first use of the curve from N goroutines released together, one fresh child process per trial, mixed entry points; (4) one Config serving 8..48 simultaneous handshakes with tickets, concurrent SetSessionTicketKeys rotation, a shared ClientSessionCache and shared CertPools, agreement monitors per connection; porcupine linearizability check of the LRU session cache (many short histories, unique values) and of the ticket-key register; (5) one established connection with concurrent writers (tagged messages), a reader and Close at a seeded instant: per-writer FIFO, no duplication, no loss before the close point, every call returns, Write after Close errors; (6) one established connection used in both directions at once (writers and a reader on each end) while the transport damages one application record at a seeded point, so that the alert path of the reading goroutine runs against concurrent Writes: race detector, per-writer FIFO, damaged record noticed, every call returns; (7) one pair of certificate pools holding several CA certificates under one subject name with different keys, verifying leaves of all branches from 2..32 goroutines: every result equals the sequential one; (8) Close after a Write that ran into its deadline against a stalled peer, with a goroutine blocked in Read: Close returns and releases the reader; (9) the SM4 mode and GCM helpers in a tight loop from 16 goroutines, each under its own key; (10) PKCS#7 objects of 70..200 KiB parsed concurrently, each used after further parses; (11) 24 goroutines connecting to 6 names through one client session cache of capacity 2 (evictions while handshakes are in flight): every handshake completes; duplex writers include messages of 70 KiB to 256 KiB. Distinct non-trivial = distinct (scenario, goroutine count, variant).",
		200, []string{"Go race detector", "porcupine v1.3.0", "sequential results / reference models as oracles"},
		[]string{"a clean race-detector run only speaks for the interleavings produced", "sm4.SetIV (process-wide IV setter) is not called during the run"})
	scenarios := []struct {
		name string
		f    func(*Ctx)
	}{
		{"pkg-ops", c20PkgOps}, {"shared-block", c20SharedBlock}, {"first-use", c20FirstUse}, {"shared-config", c20SharedConfig},
		{"lru-porcupine", c20LRU}, {"ticketkeys-porcupine", c20TicketKeys}, {"conn-rwc", c20ConnRWC}, {"conn-duplex", c20ConnDuplex}, {"shared-pool", c20SharedPool}, {"close-after-failed-write", c20CloseAfterFailedWrite}, {"sm4-helpers", c20SM4Helpers}, {"large-pkcs7", c20LargePKCS7}, {"cache-churn", c20CacheChurn},
	}
	for _, s := range scenarios {
		if c.Only != "" && c.Only != s.name {
			continue
		}
		if pi := mon.Guard(func() { s.f(c) }); pi != nil {
			rep.Violation("C20/"+s.name+"/panic/"+pi.Func, pi.Value, nil)
		}
	}
}

// ---------------------------------------------------------------- (1)
func c20PkgOps(c *Ctx) {
	rep := c.Rep
	r := c.Rng("pkgops")
	pki, err := newTLSPKI(r, false)
	if err != nil {
		return
	}
	gx509.ContentEncryptionAlgorithm = gx509.EncryptionAlgorithmDESCBC
	for _, G := range []int{2, 8, 32} {
		rounds := c.Q(2, 10)
		for round := 0; round < rounds; round++ {
			type item struct {
				key   *sm2.PrivateKey
				msg   []byte
				sig   []byte
				ct    []byte
				k4    []byte
				ecb   []byte
				gcmC  []byte
				gcmT  []byte
				sm3   []byte
				p7    []byte
				certs [][]byte
			}
			items := make([]item, G)
			// every other round all goroutines work on keys whose public x or y has leading zero bytes (and small scalars):
			// the fixed-width encoders then run their padding paths on every call
			var special []testKey
			if round%2 == 1 {
				for _, k := range keyClasses(c.Rng(fmt.Sprintf("pkgkeys%d", round)), 0, true) {
					if strings.Contains(k.cls, "lz") {
						special = append(special, k)
					}
				}
			}
			for g := range items {
				it := &items[g]
				it.key = newSM2Key(r)
				if len(special) > 0 {
					it.key = special[g%len(special)].priv()
				}
				it.msg = r.Bytes(40 + g)
				it.sig, _ = it.key.Sign(r, it.msg, nil)
				it.ct, _ = sm2.Encrypt(&it.key.PublicKey, it.msg, r, sm2.C1C3C2)
				it.k4 = r.Bytes(16)
				it.ecb = ref.SM4ECB(it.k4, ref.PKCS7Pad(it.msg, 16), false)
				it.gcmC, it.gcmT, _ = ref.SM4GCMSeal(it.k4, it.k4[:12], it.msg, it.msg[:5])
				it.sm3 = ref.SM3(it.msg)
				it.p7, _ = gx509.PKCS7EncryptSM2(it.msg, []*gx509.Certificate{pki.encCert}, sm2.C1C3C2)
			}
			// a kx pair shared read-only
			ra, rb := newSM2Key(r), newSM2Key(r)
			ka, _, _, _ := sm2.KeyExchangeA(16, []byte("a"), []byte("b"), items[0].key, &items[1%G].key.PublicKey, ra, &rb.PublicKey)
			var bad int32
			fail := func(what string, g int) {
				atomic.AddInt32(&bad, 1)
				rep.Violation("C20/pkg-ops/result-differs-from-sequential/"+what, fmt.Sprintf("goroutine %d of %d", g, G), map[string]interface{}{"goroutines": G, "op": what})
			}
			runConcurrently(G, func(g int) {
				it := &items[g]
				for rep2 := 0; rep2 < 3; rep2++ {
					if !it.key.PublicKey.Verify(it.msg, it.sig) {
						fail("sm2.Verify", g)
					}
					if s2, err := it.key.Sign(rand.Reader, it.msg, nil); err != nil || !it.key.PublicKey.Verify(it.msg, s2) {
						fail("sm2.Sign", g)
					}
					if pt, err := sm2.Decrypt(it.key, it.ct, sm2.C1C3C2); err != nil || !bytes.Equal(pt, it.msg) {
						fail("sm2.Decrypt", g)
					}
					if ct, err := sm2.Encrypt(&it.key.PublicKey, it.msg, rand.Reader, sm2.C1C3C2); err != nil {
						fail("sm2.Encrypt", g)
					} else if pt, err := sm2.Decrypt(it.key, ct, sm2.C1C3C2); err != nil || !bytes.Equal(pt, it.msg) {
						fail("sm2.Encrypt/Decrypt", g)
					}
					if g == 0 {
						if k2, _, _, err := sm2.KeyExchangeA(16, []byte("a"), []byte("b"), items[0].key, &items[1%G].key.PublicKey, ra, &rb.PublicKey); err != nil || !bytes.Equal(k2, ka) {
							fail("sm2.KeyExchangeA", g)
						}
					}
					if !bytes.Equal(sm3.Sm3Sum(it.msg), it.sm3) {
						fail("sm3.Sm3Sum", g)
					}
					h := sm3.New()
					h.Write(it.msg[:7])
					h.Write(it.msg[7:])
					if !bytes.Equal(h.Sum(nil), it.sm3) {
						fail("sm3.New", g)
					}
					if ct, err := sm4.Sm4Ecb(it.k4, it.msg, true); err != nil || !bytes.Equal(ct, it.ecb) {
						fail("sm4.Sm4Ecb", g)
					}
					if pt, err := sm4.Sm4Ecb(it.k4, it.ecb, false); err != nil || !bytes.Equal(pt, it.msg) {
						fail("sm4.Sm4Ecb(decrypt)", g)
					}
					if cc, tt, err := sm4.Sm4GCM(it.k4, it.k4[:12], it.msg, it.msg[:5], true); err != nil || !bytes.Equal(cc, it.gcmC) || !bytes.Equal(tt, it.gcmT) {
						fail("sm4.Sm4GCM", g)
					}
					// parse + chain verification against the shared pools
					cert, err := gx509.ParseCertificate(pki.sigCert.Raw)
					if err != nil {
						fail("x509.ParseCertificate", g)
					} else if _, err := cert.Verify(gx509.VerifyOptions{Roots: pki.pool, DNSName: tlsServerName, CurrentTime: fixedNow}); err != nil {
						fail("x509.Verify(shared pool)", g)
					}
					if p7, err := gx509.ParsePKCS7(it.p7); err != nil {
						fail("x509.ParsePKCS7", g)
					} else if pt, err := p7.DecryptSM2(pki.encCert, pki.encKey, sm2.C1C3C2); err != nil || !bytes.Equal(pt, it.msg) {
						fail("x509.PKCS7.DecryptSM2", g)
					}
				}
			})
			rep.Eval(fmt.Sprintf("pkg-ops/goroutines=%d/round=%d", G, round))
			rep.Count("pkg_ops_goroutine_runs", int64(G))
		}
	}
	rep.Sample(map[string]interface{}{"scenario": "pkg-ops", "ops_per_goroutine": []string{"sm2.Verify", "sm2.Sign", "sm2.Decrypt", "sm2.Encrypt", "sm2.KeyExchangeA", "sm3.Sm3Sum", "sm3.New", "sm4.Sm4Ecb", "sm4.Sm4GCM", "x509.ParseCertificate+Verify(shared pool)", "x509.ParsePKCS7+DecryptSM2"}, "goroutines": []int{2, 8, 32}})
}

// ---------------------------------------------------------------- (2)
func c20SharedBlock(c *Ctx) {
	rep := c.Rep
	r := c.Rng("block")
	for _, G := range []int{2, 4, 16, 32} {
		key := r.Bytes(16)
		blk, err := sm4.NewCipher(key)
		if err != nil {
			return
		}
		n := c.Q(400, 4000)
		ins := make([][][]byte, G)
		for g := range ins {
			for i := 0; i < n; i++ {
				ins[g] = append(ins[g], r.Bytes(16))
			}
		}
		var wrong int32
		runConcurrently(G, func(g int) {
			out := make([]byte, 16)
			for i, in := range ins[g] {
				dec := (i+g)%3 == 0
				var want []byte
				if dec {
					blk.Decrypt(out, in)
					want = ref.SM4DecryptBlock(key, in, nil)
				} else {
					blk.Encrypt(out, in)
					want = ref.SM4EncryptBlock(key, in, nil)
				}
				if !bytes.Equal(out, want) {
					if atomic.AddInt32(&wrong, 1) == 1 {
						rep.Violation("C20/shared-block/result-differs-from-sequential", fmt.Sprintf("%d goroutines sharing one cipher.Block: block %x -> %x, want %x", G, in, out, want), map[string]interface{}{"goroutines": G, "key": mon.Hex(key), "in": mon.Hex(in)})
					}
				}
			}
		})
		// and through a cipher.BlockMode-free construction commonly used: CTR streams from one block in many goroutines
		runConcurrently(G, func(g int) {
			iv := make([]byte, 16)
			iv[0] = byte(g)
			buf := make([]byte, 160)
			cipher.NewCTR(blk, iv).XORKeyStream(buf, buf)
			rb, _ := ref.NewSM4(key)
			want := make([]byte, 160)
			cipher.NewCTR(rb, iv).XORKeyStream(want, want)
			if !bytes.Equal(buf, want) {
				if atomic.AddInt32(&wrong, 1) == 1 {
					rep.Violation("C20/shared-block/ctr-stream-differs", fmt.Sprintf("%d goroutines", G), map[string]interface{}{"goroutines": G})
				}
			}
		})
		rep.Count("shared_block_wrong_results", int64(wrong))
		rep.Eval(fmt.Sprintf("shared-block/goroutines=%d", G))
	}
}

// ---------------------------------------------------------------- (3)
func c20FirstUse(c *Ctx) {
	rep := c.Rep
	exe, err := os.Executable()
	if err != nil {
		return
	}
	trials := c.Q(6, 50)
	for t := 0; t < trials; t++ {
		dir := fmt.Sprintf("%s/firstuse-%d", c.Out, t)
		os.MkdirAll(dir, 0o755)
		cmd := exec.Command(exe, "-p", "C20", "-only", "firstuse-child", "-tier", c.Tier, "-seed", fmt.Sprint(c.Seed+uint64(t)), "-out", dir)
		cmd.Env = os.Environ()
		out, err := cmd.CombinedOutput()
		if err != nil {
			rep.Violation("C20/first-use/child-failed", fmt.Sprintf("%v: %s", err, tailStr(string(out), 1500)), map[string]interface{}{"trial": t})
		}
		if b, e := os.ReadFile(dir + "/result.json"); e == nil && bytes.Contains(b, []byte(`"key": "C20/first-use`)) {
			rep.Violation("C20/first-use/result-differs", tailStr(string(b), 800), map[string]interface{}{"trial": t})
		}
		rep.Eval(fmt.Sprintf("first-use/trial=%d", t%8))
	}
	rep.Count("first_use_child_processes", int64(trials))
}

func tailStr(s string, n int) string {
	if len(s) > n {
		return s[len(s)-n:]
	}
	return s
}

// child: nothing has touched the curve yet in this process
func runC20FirstUseChild(c *Ctx) {
	rep := c.Rep
	G := 16
	// inputs prepared WITHOUT touching gmsm's curve: fixed vectors from the reference
	d := big.NewInt(int64(1000 + c.Seed))
	q := ref.MulG(d)
	comp := append([]byte{byte(q.Y.Bit(0))}, ref.Pad32(q.X)...)
	msg := []byte("first use")
	k := big.NewInt(777)
	rr, ss, _ := ref.SignWithK(d, k, q.X, q.Y, ref.DefaultUID, msg)
	var bad int32
	runConcurrently(G, func(g int) {
		switch g % 4 {
		case 0:
			key, err := sm2.GenerateKey(mon.NewRNG(uint64(g)))
			if err != nil || !ref.OnCurve(key.X, key.Y) {
				atomic.AddInt32(&bad, 1)
			}
		case 1:
			pub := &sm2.PublicKey{Curve: sm2.P256Sm2(), X: q.X, Y: q.Y}
			if !sm2.Sm2Verify(pub, msg, nil, rr, ss) {
				atomic.AddInt32(&bad, 1)
			}
		case 2:
			p := sm2.Decompress(comp)
			if p == nil || p.X.Cmp(q.X) != 0 || p.Y.Cmp(q.Y) != 0 {
				atomic.AddInt32(&bad, 1)
			}
		default:
			x, y := sm2.P256Sm2().ScalarBaseMult(d.Bytes())
			if x.Cmp(q.X) != 0 || y.Cmp(q.Y) != 0 {
				atomic.AddInt32(&bad, 1)
			}
		}
	})
	if bad > 0 {
		rep.Violation("C20/first-use/wrong-result-on-concurrent-first-use", fmt.Sprintf("%d of %d goroutines", bad, G), nil)
	}
	rep.EvalN("first-use-child", int64(G), true)
	rep.Distinct("a")
	rep.Distinct("b")
}

// ---------------------------------------------------------------- (4)
func c20SharedConfig(c *Ctx) {
	rep := c.Rep
	r := c.Rng("sharedcfg")
	pki, err := newTLSPKI(r, true)
	if err != nil {
		return
	}
	for _, mode := range []string{"gm", "tls"} {
		for ni, N := range []int{8, c.Q(24, 48), 16} {
			// a fresh client-CA pool per configuration (whatever a pool computes lazily is computed for the first time by
			// the simultaneous first handshakes), and client certificates requested in two of the three configurations
			freshCAs := gx509.NewCertPool()
			freshCAs.AddCert(pki.root)
			if pki.other != nil {
				freshCAs.AddCert(pki.other.root)
			}
			for _, extra := range []gmtls.Certificate{pki.rsaCert, pki.ecCert} {
				if cc, e := gx509.ParseCertificate(extra.Certificate[0]); e == nil {
					freshCAs.AddCert(cc)
				}
			}
			scfg := &gmtls.Config{Time: func() timeT { return fixedNow }, ClientCAs: freshCAs}
			ccfg := &gmtls.Config{ServerName: tlsServerName, Time: func() timeT { return fixedNow }, ClientSessionCache: gmtls.NewLRUClientSessionCache(4)}
			wantClientCert := ni != 0
			if wantClientCert {
				scfg.ClientAuth = gmtls.RequestClientCert
				ccfg.Certificates = []gmtls.Certificate{pki.cliSig, pki.cliEnc}
				if mode != "gm" {
					ccfg.Certificates = []gmtls.Certificate{pki.rsaCert}
				}
			}
			if mode == "gm" {
				scfg.GMSupport, scfg.Certificates = gmtls.NewGMSupport(), []gmtls.Certificate{pki.sig, pki.enc}
				scfg.CipherSuites = []uint16{gmtls.GMTLS_ECC_SM4_CBC_SM3, gmtls.GMTLS_ECC_SM4_GCM_SM3}
				ccfg.GMSupport, ccfg.RootCAs = gmtls.NewGMSupport(), pki.pool
			} else {
				scfg.Certificates = []gmtls.Certificate{pki.rsaCert}
				ccfg.RootCAs = pki.gmStdPool
			}
			stop := make(chan struct{})
			var rot sync.WaitGroup
			rot.Add(1)
			var handshakesDone int64 // the rotator's clock: it rotates once per 5 completed handshakes, whatever the machine load
			go func() {              // concurrent ticket key rotation
				defer rot.Done()
				var keys [][32]byte
				var last int64 = -5
				for i := 0; ; i++ {
					select {
					case <-stop:
						return
					default:
					}
					if cur := atomic.LoadInt64(&handshakesDone); cur-last < 5 {
						runtime.Gosched()
						time.Sleep(50 * time.Microsecond)
						i--
						continue
					} else {
						last = cur
					}
					var k [32]byte
					binary.BigEndian.PutUint64(k[:], uint64(i+1))
					keys = append([][32]byte{k}, keys...)
					if len(keys) > 8 {
						keys = keys[:8]
					}
					scfg.SetSessionTicketKeys(keys)
					// eight keys x five handshakes per rotation: a ticket outlives about forty handshakes, so later waves resume,
					// many of them under a key that is no longer the first one (the server then renews the ticket during the
					// resumption), while rotations keep overlapping handshakes
					runtime.Gosched()
				}
			}()
			var failed, resumed int32
			for wave := 0; wave < 4; wave++ { // later waves resume from the shared cache
				runConcurrently(N, func(g int) {
					out := handshakePair(ccfg, scfg, nil)
					w := map[string]interface{}{"mode": mode, "connections": N, "client_error": errStr(out.cli.err), "server_error": errStr(out.srv.err)}
					for side, e := range map[string]*endResult{"client": &out.cli, "server": &out.srv} {
						if e.panicked != nil {
							rep.Violation("C20/shared-config/panic/"+side+"/"+e.panicked.Func, e.panicked.Value, w)
						}
					}
					if !out.cli.completed || !out.srv.completed {
						atomic.AddInt32(&failed, 1)
						rep.Violation("C20/shared-config/handshake-fails-under-concurrency/"+mode, fmt.Sprintf("%v / %v", out.cli.err, out.srv.err), w)
						return
					}
					// sequential counterpart: a server that requests a certificate from a client that has one (issued by a CA
					// on the server's list) sees it
					if wantClientCert && len(out.srv.state.PeerCertificates) == 0 {
						rep.Violation("C20/shared-config/server-sees-no-client-certificate-under-concurrency/"+mode, "single-threaded, the same configuration always yields the client certificate", w)
					}
					if out.cli.state.DidResume != out.srv.state.DidResume || out.cli.state.CipherSuite != out.srv.state.CipherSuite || !sameStrings(out.cli.ekm, out.srv.ekm) {
						rep.Violation("C20/shared-config/ends-disagree/"+mode, "", w)
					}
					atomic.AddInt64(&handshakesDone, 1)
					if out.srv.state.DidResume {
						atomic.AddInt32(&resumed, 1)
					}
					seed := uint64(g)*7919 + 13
					c06Exchange(rep, out.cli.conn, out.srv.conn, seed, 2000, mon.NewRNG(seed), w, "C20/shared-config")
					out.cli.conn.Close()
					out.srv.conn.Close()
				})
			}
			close(stop)
			rot.Wait()
			rep.Count("shared_config_connections/"+mode, int64(4*N))
			rep.Count("shared_config_resumed/"+mode, int64(resumed))
			rep.Require("shared_config_resumed/"+mode, 10) // the scenario is about resumption and ticket renewal under concurrency
			rep.Eval(fmt.Sprintf("shared-config/%s/connections=%d", mode, N))
		}
	}
}

// ---------------------------------------------------------------- porcupine: LRU session cache
type lruIn struct {
	put bool
	key string
	val int
}
type lruOut struct {
	val int
	ok  bool
}

func lruModel(capacity int) porcupine.Model {
	type kv struct {
		k string
		v int
	}
	return porcupine.Model{
		Init: func() interface{} { return []kv{} },
		Step: func(state, input, output interface{}) (bool, interface{}) {
			st := append([]kv{}, state.([]kv)...)
			in := input.(lruIn)
			idx := -1
			for i, e := range st {
				if e.k == in.key {
					idx = i
				}
			}
			if in.put {
				if idx >= 0 {
					st = append(st[:idx], st[idx+1:]...)
				} else if len(st) >= capacity {
					st = st[1:] // evict the least recently used (front)
				}
				st = append(st, kv{in.key, in.val})
				return true, st
			}
			out := output.(lruOut)
			if idx < 0 {
				return !out.ok, st
			}
			e := st[idx]
			st = append(append(st[:idx:idx], st[idx+1:]...), e)
			return out.ok && out.val == e.v, st
		},
		Equal: func(a, b interface{}) bool {
			x, y := a.([]kv), b.([]kv)
			if len(x) != len(y) {
				return false
			}
			for i := range x {
				if x[i] != y[i] {
					return false
				}
			}
			return true
		},
	}
}

func c20LRU(c *Ctx) {
	rep := c.Rep
	r := c.Rng("lru")
	histories := c.Q(150, 3000)
	illegal, unknown := 0, 0
	for h := 0; h < histories; h++ {
		capacity := 1 + h%3
		cache := gmtls.NewLRUClientSessionCache(capacity)
		G := 2 + h%3
		opsPer := 4
		vals := map[*gmtls.ClientSessionState]int{}
		states := make([]*gmtls.ClientSessionState, G*opsPer+1)
		for i := range states {
			states[i] = &gmtls.ClientSessionState{}
			vals[states[i]] = i + 1
		}
		var clock int64
		var mu sync.Mutex
		var ops []porcupine.Operation
		plan := make([][]lruIn, G)
		for g := range plan {
			for i := 0; i < opsPer; i++ {
				plan[g] = append(plan[g], lruIn{put: r.Intn(2) == 0, key: fmt.Sprintf("k%d", r.Intn(3)), val: g*opsPer + i + 1})
			}
		}
		runConcurrently(G, func(g int) {
			for _, in := range plan[g] {
				call := atomic.AddInt64(&clock, 1)
				var out lruOut
				if in.put {
					cache.Put(in.key, states[in.val-1])
				} else {
					s, ok := cache.Get(in.key)
					out = lruOut{vals[s], ok}
				}
				ret := atomic.AddInt64(&clock, 1)
				mu.Lock()
				ops = append(ops, porcupine.Operation{ClientId: g, Input: in, Call: call, Output: out, Return: ret})
				mu.Unlock()
			}
		})
		res := porcupine.CheckOperationsTimeout(lruModel(capacity), ops, 10*time.Second)
		switch res {
		case porcupine.Illegal:
			illegal++
			var hs []string
			for _, o := range ops {
				hs = append(hs, fmt.Sprintf("c%d %v [%d,%d] -> %v", o.ClientId, o.Input, o.Call, o.Return, o.Output))
			}
			rep.Violation("C20/lru-cache/history-not-linearizable", fmt.Sprintf("capacity %d, %d goroutines", capacity, G), map[string]interface{}{"history": hs, "capacity": capacity})
		case porcupine.Unknown:
			unknown++
		}
		rep.Eval(fmt.Sprintf("lru/capacity=%d/goroutines=%d", capacity, G))
	}
	rep.Count("lru_histories_checked", int64(histories))
	rep.Count("lru_histories_checker_timeout(inconclusive)", int64(unknown))
	rep.Sample(map[string]interface{}{"scenario": "lru-porcupine", "model": "capacity-bounded LRU map, Put moves/inserts at MRU end and evicts the LRU entry, Get refreshes recency", "histories": histories, "illegal": illegal})
}

// ---------------------------------------------------------------- porcupine: ticket-key register
func c20TicketKeys(c *Ctx) {
	rep := c.Rep
	// key names: issue a ticket under each key alone to learn its 16-byte name
	nKeys := 6
	keys := make([][32]byte, nKeys)
	nameToIdx := map[string]int{}
	for i := range keys {
		keys[i][0], keys[i][5] = byte(i+1), 0x77
		cfg := &gmtls.Config{}
		cfg.SetSessionTicketKeys([][32]byte{keys[i]})
		t, err := gmtls.VerifEncryptTicket(cfg, gmtls.VersionGMSSL, gmtls.GMTLS_ECC_SM4_CBC_SM3, make([]byte, 48), nil)
		if err != nil || len(t) < 16 {
			return
		}
		nameToIdx[string(t[:16])] = i
	}
	model := porcupine.Model{
		Init: func() interface{} { return 0 },
		Step: func(state, input, output interface{}) (bool, interface{}) {
			in := input.(int)
			if in >= 0 {
				return true, in
			}
			return output.(int) == state.(int), state
		},
	}
	histories := c.Q(100, 2000)
	unknown := 0
	for h := 0; h < histories; h++ {
		cfg := &gmtls.Config{}
		cfg.SetSessionTicketKeys([][32]byte{keys[0]})
		G := 2 + h%3
		var clock int64
		var mu sync.Mutex
		var ops []porcupine.Operation
		runConcurrently(G, func(g int) {
			for i := 0; i < 4; i++ {
				write := (g+i+h)%2 == 0
				call := atomic.AddInt64(&clock, 1)
				in, out := -1, 0
				if write {
					in = 1 + (g*4+i+h)%(nKeys-1)
					cfg.SetSessionTicketKeys([][32]byte{keys[in], keys[0]})
				} else {
					t, err := gmtls.VerifEncryptTicket(cfg, gmtls.VersionGMSSL, gmtls.GMTLS_ECC_SM4_CBC_SM3, make([]byte, 48), nil)
					if err != nil || len(t) < 16 {
						out = -1
					} else {
						out = nameToIdx[string(t[:16])]
					}
				}
				ret := atomic.AddInt64(&clock, 1)
				mu.Lock()
				ops = append(ops, porcupine.Operation{ClientId: g, Input: in, Call: call, Output: out, Return: ret})
				mu.Unlock()
			}
		})
		switch porcupine.CheckOperationsTimeout(model, ops, 10*time.Second) {
		case porcupine.Illegal:
			var hs []string
			for _, o := range ops {
				hs = append(hs, fmt.Sprintf("c%d in=%v [%d,%d] out=%v", o.ClientId, o.Input, o.Call, o.Return, o.Output))
			}
			rep.Violation("C20/ticket-keys/history-not-linearizable", "issuing key observed in tickets is not consistent with any order of the SetSessionTicketKeys calls", map[string]interface{}{"history": hs})
		case porcupine.Unknown:
			unknown++
		}
		rep.Eval(fmt.Sprintf("ticket-keys/goroutines=%d", G))
	}
	rep.Count("ticketkey_histories_checked", int64(histories))
	rep.Count("ticketkey_histories_checker_timeout(inconclusive)", int64(unknown))

	// a ticket whose key stays configured through every rotation must decrypt at every moment: the rotator switches
	// between key lists of different lengths in which that key sits at different positions ([x, y, K] <-> [K] <-> [z, K]),
	// while other goroutines keep decrypting the ticket. Whatever is read in two steps (a position, then a list) shows.
	{
		K := keys[0]
		lists := [][][32]byte{{keys[1], keys[2], K}, {K}, {keys[3], K}, {keys[4], keys[5], keys[1], K}, {K, keys[2]}}
		cfg := &gmtls.Config{}
		cfg.SetSessionTicketKeys([][32]byte{K})
		master := bytes.Repeat([]byte{0x42}, 48)
		ticket, err := gmtls.VerifEncryptTicket(cfg, gmtls.VersionGMSSL, gmtls.GMTLS_ECC_SM4_CBC_SM3, master, nil)
		if err != nil {
			rep.Note("ticket-keys: cannot issue a ticket: " + err.Error())
			return
		}
		var stop int32
		var refused, wrong, total int64
		var panicMu sync.Mutex
		panics := map[string]int{}
		var wg sync.WaitGroup
		wg.Add(1)
		go func() {
			defer wg.Done()
			for i := 0; atomic.LoadInt32(&stop) == 0; i++ {
				cfg.SetSessionTicketKeys(lists[i%len(lists)])
			}
		}()
		readers := 8
		per := c.Q(3000, 100000)
		var rg sync.WaitGroup
		for g := 0; g < readers; g++ {
			rg.Add(1)
			go func() {
				defer rg.Done()
				for i := 0; i < per; i++ {
					var ok bool
					var m []byte
					tc := append([]byte{}, ticket...) // decryptTicket works in place on what it is given (its callers hand it a copy)
					if pi := mon.Guard(func() { ok, _, _, m, _ = gmtls.VerifDecryptTicket(cfg, tc) }); pi != nil {
						panicMu.Lock()
						panics[pi.Func+": "+pi.Value]++
						panicMu.Unlock()
						continue
					}
					atomic.AddInt64(&total, 1)
					if !ok {
						atomic.AddInt64(&refused, 1)
					} else if !bytes.Equal(m, master) {
						atomic.AddInt64(&wrong, 1)
					}
				}
			}()
		}
		rg.Wait()
		atomic.StoreInt32(&stop, 1)
		wg.Wait()
		w := map[string]interface{}{"decryptions": total, "refused": refused, "wrong_content": wrong}
		if refused > 0 {
			rep.Violation("C20/ticket-keys/valid-ticket-refused-during-rotation", fmt.Sprintf("%d of %d decryptions of a ticket whose key was configured throughout were refused", refused, total), w)
		}
		if wrong > 0 {
			rep.Violation("C20/ticket-keys/ticket-decrypts-to-other-content-during-rotation", fmt.Sprint(wrong), w)
		}
		for p, n := range panics {
			rep.Violation("C20/ticket-keys/panic-during-rotation", fmt.Sprintf("%d times: %s", n, p), w)
		}
		rep.Count("ticket_decryptions_during_rotation", total)
		rep.Eval("ticket-keys/decrypt-during-rotation-of-lists-of-different-lengths")
	}
}

// ---------------------------------------------------------------- (5)
func c20ConnRWC(c *Ctx) {
	rep := c.Rep
	r := c.Rng("rwc")
	pki, err := newTLSPKI(r, false)
	if err != nil {
		return
	}
	runs := c.Q(12, 300)
	for run := 0; run < runs; run++ {
		suite := []uint16{gmtls.GMTLS_ECC_SM4_CBC_SM3, gmtls.GMTLS_ECC_SM4_GCM_SM3}[run%2]
		scfg := &gmtls.Config{GMSupport: gmtls.NewGMSupport(), Certificates: []gmtls.Certificate{pki.sig, pki.enc}, CipherSuites: []uint16{suite}, Time: func() timeT { return fixedNow }, SessionTicketsDisabled: true}
		ccfg := &gmtls.Config{GMSupport: gmtls.NewGMSupport(), CipherSuites: []uint16{suite}, ServerName: tlsServerName, RootCAs: pki.pool, Time: func() timeT { return fixedNow }, SessionTicketsDisabled: true}
		out := handshakePair(ccfg, scfg, nil)
		if !out.cli.completed || !out.srv.completed {
			rep.Violation("C20/conn-rwc/handshake-failed", fmt.Sprintf("%v / %v", out.cli.err, out.srv.err), nil)
			continue
		}
		W := 2 + run%7
		perWriter := 20
		closeAfter := r.Intn(W*perWriter + 10) // Close is called after this many messages have been read (or never reached)
		withClose := run%3 != 0
		sender, receiver := out.cli.conn, out.srv.conn
		// message: [writer id 1][seq 4][len 2][fill...] ; every Write is one message (<= 16 KiB so one lock-hold)
		var wg sync.WaitGroup
		var writeAfterCloseOK int32
		var closed int32
		sent := make([]int32, W)
		for wtr := 0; wtr < W; wtr++ {
			wg.Add(1)
			go func(wtr int) {
				defer wg.Done()
				rr := mon.NewRNG(uint64(run*100 + wtr))
				for s := 0; s < perWriter; s++ {
					n := rr.Pick(0, 1, 50, 1000, 9000)
					m := make([]byte, 7+n)
					m[0] = byte(wtr)
					binary.BigEndian.PutUint32(m[1:], uint32(s))
					binary.BigEndian.PutUint16(m[5:], uint16(n))
					for i := 7; i < len(m); i++ {
						m[i] = byte(wtr*31 + s)
					}
					wasClosed := atomic.LoadInt32(&closed) == 1
					_, err := sender.Write(m)
					if err != nil {
						return
					}
					if wasClosed {
						atomic.AddInt32(&writeAfterCloseOK, 1)
					}
					atomic.StoreInt32(&sent[wtr], int32(s+1))
				}
			}(wtr)
		}
		got := make([]int, W)
		var readErr error
		bad := ""
		wg.Add(1)
		go func() {
			defer wg.Done()
			nread := 0
			hdr := make([]byte, 7)
			for {
				if _, err := io.ReadFull(receiver, hdr); err != nil {
					readErr = err
					return
				}
				wtr, seq, n := int(hdr[0]), int(binary.BigEndian.Uint32(hdr[1:])), int(binary.BigEndian.Uint16(hdr[5:]))
				body := make([]byte, n)
				if _, err := io.ReadFull(receiver, body); err != nil {
					readErr = err
					bad = "message truncated mid-way (Write not atomic w.r.t. Close or other writers)"
					return
				}
				if wtr >= W {
					bad = fmt.Sprintf("unknown writer id %d (interleaved writes)", wtr)
					return
				}
				if seq != got[wtr] {
					bad = fmt.Sprintf("writer %d: message %d arrived when %d was expected (loss, duplication or reordering)", wtr, seq, got[wtr])
					return
				}
				for _, b := range body {
					if b != byte(wtr*31+seq) {
						bad = "message body corrupted (interleaved writes)"
						return
					}
				}
				got[wtr]++
				nread++
				if withClose && nread == closeAfter {
					atomic.StoreInt32(&closed, 1)
					sender.Close()
				}
			}
		}()
		done := make(chan struct{})
		go func() { wg.Wait(); close(done) }()
		// writers finish; then close the sender so that the reader ends
		go func() {
			for wtr := 0; wtr < W; wtr++ {
				for atomic.LoadInt32(&sent[wtr]) < int32(perWriter) && atomic.LoadInt32(&closed) == 0 {
					time.Sleep(time.Millisecond)
				}
			}
			time.Sleep(5 * time.Millisecond)
			sender.Close()
		}()
		select {
		case <-done:
		case <-time.After(60 * time.Second):
			rep.Violation("C20/conn-rwc/calls-did-not-return", "Read/Write/Close on one connection did not all return", map[string]interface{}{"writers": W, "suite": suiteName(suite)})
			receiver.Close()
			sender.Close()
			<-done
		}
		w := map[string]interface{}{"writers": W, "suite": suiteName(suite), "with_close": withClose, "close_after": closeAfter, "read_error": errStr(readErr), "received": got}
		if bad != "" {
			rep.Violation("C20/conn-rwc/stream-inconsistent", bad, w)
		}
		if !withClose {
			for wtr := 0; wtr < W; wtr++ {
				if got[wtr] != perWriter {
					rep.Violation("C20/conn-rwc/messages-lost-without-close", fmt.Sprintf("writer %d: %d of %d", wtr, got[wtr], perWriter), w)
					break
				}
			}
		}
		if _, err := sender.Write([]byte("after close")); err == nil {
			rep.Violation("C20/conn-rwc/write-after-close-succeeds", "", w)
		}
		receiver.Close()
		rep.Eval(fmt.Sprintf("conn-rwc/writers=%d/close=%v/%s", W, withClose, suiteName(suite)))
		if run == 1 {
			rep.Sample(w)
		}
	}
}
