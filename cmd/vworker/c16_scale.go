package main

import (
	"bytes"
	"crypto/x509/pkix"
	"encoding/asn1"
	"fmt"

	"github.com/tjfoc/gmsm/gmtls"
	gx509 "github.com/tjfoc/gmsm/x509"

	"verif/mon"
)

// Resumption at scale: (1) client-authenticated sessions whose certificate list is long (33 certificates, about 10 KB)
// or large (the same with 31 larger ones, about 35 KB) — the ticket carries the list, and a resumed session must hold the
// identity of the original one, all of it; a valid ticket under an unchanged configuration is resumed; (2) a server whose
// ticket-key list is long (24 keys) and is then replaced by a short list of other keys: a ticket under a withdrawn key is
// never resumed. GMSSL and TLS 1.2.
func runC16Scale(c *Ctx) {
	rep := c.Rep
	for _, gm := range []bool{true, false} {
		mode := map[bool]string{true: "GMSSL", false: "TLS"}[gm]
		r := c.Rng("scale/" + mode)
		pki, err := newTLSPKI(r, false)
		if err != nil {
			continue
		}
		klog := &keyLog{}
		stdPool := gx509.NewCertPool()
		mkClient := func(s *c16Server, cache gmtls.ClientSessionCache, certs []gmtls.Certificate) *gmtls.Config {
			ccfg := &gmtls.Config{ServerName: s.dnsName, CipherSuites: s.suites[:1], Time: func() timeT { return fixedNow }, Rand: mon.NewRNG(r.U64()), ClientSessionCache: cache, KeyLogWriter: klog, Certificates: certs}
			if gm {
				ccfg.GMSupport, ccfg.RootCAs = gmtls.NewGMSupport(), pki.pool
			} else {
				ccfg.RootCAs, ccfg.MinVersion, ccfg.MaxVersion = stdPool, gmtls.VersionTLS12, gmtls.VersionTLS12
			}
			return ccfg
		}
		// ---- (1) long client certificate lists
		for _, shape := range []struct {
			name  string
			extra int
			pad   int
		}{{"33-small-certificates", 32, 0}, {"31-certificates-35KB", 30, 800}, {"5-certificates", 4, 0}} {
			s := c16MkServer(pki, gm, r, "A", klog, stdPool)
			if s == nil {
				continue
			}
			if !gm {
				s.cfg.MaxVersion = gmtls.VersionTLS12
			}
			s.cfg.ClientAuth = gmtls.RequireAnyClientCert
			s.cfg.CipherSuites = append([]uint16{}, s.suites...)
			// the client's list: its real certificate followed by further certificates (a long path, or whatever else a peer
			// chooses to send: under require-any the server takes the list as it comes)
			var extra [][]byte
			for j := 0; j < shape.extra; j++ {
				d := pki.root.Raw
				if shape.pad > 0 || j%2 == 1 {
					d = c16PaddedCert(pki, r, j, shape.pad)
				}
				if d == nil {
					d = pki.root.Raw
				}
				extra = append(extra, d)
			}
			sig := pki.cliSig
			if !gm {
				sig = pki.rsaCert
			}
			sig.Certificate = append(append([][]byte{}, sig.Certificate[0]), extra...)
			certs := []gmtls.Certificate{sig}
			if gm {
				certs = append(certs, pki.cliEnc)
			}
			total := 0
			for _, d := range sig.Certificate {
				total += len(d)
			}
			w := map[string]interface{}{"mode": mode, "client_certificates": len(sig.Certificate), "client_certificate_bytes": total}
			cache := gmtls.NewLRUClientSessionCache(4)
			o1 := handshakePair(mkClient(s, cache, certs), s.cfg, nil)
			if !o1.cli.completed || !o1.srv.completed {
				rep.Count("scale_long_chain_first_connection_fails/"+mode+"/"+shape.name, 1)
				w["first_client_error"], w["first_server_error"] = errStr(o1.cli.err), errStr(o1.srv.err)
				rep.EvalTrivial("scale/long-client-chain/" + mode + "/" + shape.name + "/full-handshake-refused(not judged)")
				continue
			}
			orig := o1.srv.state.PeerCertificates
			o1.cli.conn.Close()
			o1.srv.conn.Close()
			o2 := handshakePair(mkClient(s, cache, certs), s.cfg, nil)
			w["second_client_error"], w["second_server_error"] = errStr(o2.cli.err), errStr(o2.srv.err)
			switch {
			case !o2.cli.completed || !o2.srv.completed:
				rep.Violation("C16/scale/long-client-chain/second-connection-fails/"+mode+"/"+shape.name, "neither a resumption nor a silent full handshake", w)
			case o2.cli.state.DidResume != o2.srv.state.DidResume:
				rep.Violation("C16/scale/long-client-chain/ends-disagree-on-resumption/"+mode+"/"+shape.name, "", w)
			case !o2.srv.state.DidResume:
				rep.Violation("C16/scale/long-client-chain/valid-ticket-not-resumed/"+mode+"/"+shape.name, "unchanged configuration listing the suite; the ticket was issued a moment ago", w)
			default:
				got := o2.srv.state.PeerCertificates
				same := len(got) == len(orig)
				for i := 0; same && i < len(got); i++ {
					same = bytes.Equal(got[i].Raw, orig[i].Raw)
				}
				if !same {
					rep.Violation("C16/scale/long-client-chain/resumed-session-holds-another-peer-identity/"+mode+"/"+shape.name, fmt.Sprintf("original session: %d client certificates, resumed session: %d", len(orig), len(got)), w)
				}
			}
			if o2.cli.completed && o2.srv.completed {
				o2.cli.conn.Close()
				o2.srv.conn.Close()
			}
			rep.Eval("scale/long-client-chain/" + mode + "/" + shape.name)
		}
		// ---- (2) long key lists, then short ones
		for _, shape := range [][2]int{{24, 2}, {16, 1}, {40, 17}, {3, 2}} {
			s := c16MkServer(pki, gm, r, "A", klog, stdPool)
			if s == nil {
				continue
			}
			if !gm {
				s.cfg.MaxVersion = gmtls.VersionTLS12
			}
			s.cfg.CipherSuites = append([]uint16{}, s.suites...)
			mk := func(n int) [][32]byte {
				ks := make([][32]byte, n)
				for i := range ks {
					copy(ks[i][:], r.Bytes(32))
				}
				return ks
			}
			name := fmt.Sprintf("%d-keys-then-%d-other-keys", shape[0], shape[1])
			w := map[string]interface{}{"mode": mode, "keys_before": shape[0], "keys_after": shape[1]}
			s.cfg.SetSessionTicketKeys(mk(shape[0]))
			cache := gmtls.NewLRUClientSessionCache(4)
			o1 := handshakePair(mkClient(s, cache, nil), s.cfg, nil)
			if !o1.cli.completed || !o1.srv.completed {
				rep.Violation("C16/scale/many-ticket-keys/first-connection-fails/"+mode+"/"+name, fmt.Sprintf("%v / %v", o1.cli.err, o1.srv.err), w)
				continue
			}
			o1.cli.conn.Close()
			o1.srv.conn.Close()
			// control: under the unchanged list the ticket is resumed
			oc := handshakePair(mkClient(s, cache, nil), s.cfg, nil)
			if !oc.cli.completed || !oc.srv.completed || !oc.srv.state.DidResume {
				rep.Violation("C16/scale/many-ticket-keys/valid-ticket-not-resumed/"+mode+"/"+name, fmt.Sprintf("%v / %v", oc.cli.err, oc.srv.err), w)
			}
			if oc.cli.completed && oc.srv.completed {
				oc.cli.conn.Close()
				oc.srv.conn.Close()
			}
			s.cfg.SetSessionTicketKeys(mk(shape[1]))
			o2 := handshakePair(mkClient(s, cache, nil), s.cfg, nil)
			w["client_error"], w["server_error"] = errStr(o2.cli.err), errStr(o2.srv.err)
			switch {
			case !o2.cli.completed || !o2.srv.completed:
				rep.Violation("C16/scale/many-ticket-keys/no-silent-full-handshake-after-key-replacement/"+mode+"/"+name, "", w)
			case o2.srv.state.DidResume || o2.cli.state.DidResume:
				rep.Violation("C16/scale/many-ticket-keys/resumed-under-a-withdrawn-key/"+mode+"/"+name, "every key the ticket could have been sealed under was replaced", w)
			}
			if o2.cli.completed && o2.srv.completed {
				o2.cli.conn.Close()
				o2.srv.conn.Close()
			}
			rep.Eval("scale/many-ticket-keys/" + mode + "/" + name)
		}
	}
}

// c16PaddedCert issues one more certificate under the PKI's root, with an unrecognised non-critical extension of pad bytes.
func c16PaddedCert(pki *tlsPKI, r *mon.RNG, j, pad int) []byte {
	k := newSM2Key(r)
	_, der, err := issueSM2(certSpec{cn: fmt.Sprintf("filler %d", j), serial: int64(9000 + j), isCA: true, mutate: func(t *gx509.Certificate) {
		if pad > 0 {
			t.ExtraExtensions = append(t.ExtraExtensions, pkix.Extension{Id: asn1.ObjectIdentifier{1, 3, 6, 1, 4, 1, 99999, 5}, Value: append([]byte{4, 0x82, byte(pad >> 8), byte(pad)}, r.Bytes(pad)...)})
		}
	}}, &k.PublicKey, pki.root, pki.rootKey, r)
	if err != nil {
		return nil
	}
	return der
}
