package main

import (
	"fmt"
	"io"
	"sync"
	"sync/atomic"

	"github.com/tjfoc/gmsm/gmtls"

	"verif/mon"
	"verif/ref"
)

// The record layer of gmtls/conn.go is shared by the GM suites and the standard-TLS suites of the same table: stream
// (RC4), CBC with implicit IV (TLS 1.0, with 1/n-1 splitting), CBC with explicit IV (TLS 1.1+; SHA-1 and SHA-256 MACs,
// AES and 3DES block sizes), and three AEADs. The same record faults as in the GMSSL sessions are applied to sessions of
// each kind. There is no reference decoder for these suites; the position of a record in the plaintext stream is known
// instead because every Write of a session has the same size S and a fault-free control session of the mode tells how
// many records one Write makes (q = 1, or 2 with 1/n-1 splitting).

type c07TLSMode struct {
	name  string
	suite uint16
	ver   uint16
	cert  string // rsa | ec
}

var c07TLSModes = []c07TLSMode{
	{"tls12/aes128-gcm", gmtls.TLS_ECDHE_RSA_WITH_AES_128_GCM_SHA256, gmtls.VersionTLS12, "rsa"},
	{"tls12/aes256-gcm-sha384", gmtls.TLS_RSA_WITH_AES_256_GCM_SHA384, gmtls.VersionTLS12, "rsa"},
	{"tls12/chacha20-poly1305", gmtls.TLS_ECDHE_ECDSA_WITH_CHACHA20_POLY1305, gmtls.VersionTLS12, "ec"},
	{"tls12/aes128-cbc-sha256", gmtls.TLS_RSA_WITH_AES_128_CBC_SHA256, gmtls.VersionTLS12, "rsa"},
	{"tls12/aes256-cbc-sha", gmtls.TLS_ECDHE_RSA_WITH_AES_256_CBC_SHA, gmtls.VersionTLS12, "rsa"},
	{"tls11/aes128-cbc-sha", gmtls.TLS_RSA_WITH_AES_128_CBC_SHA, gmtls.VersionTLS11, "rsa"},
	{"tls10/aes128-cbc-sha", gmtls.TLS_ECDHE_ECDSA_WITH_AES_128_CBC_SHA, gmtls.VersionTLS10, "ec"},
	{"tls12/3des-cbc-sha", gmtls.TLS_RSA_WITH_3DES_EDE_CBC_SHA, gmtls.VersionTLS12, "rsa"},
	{"tls10/3des-cbc-sha", gmtls.TLS_ECDHE_RSA_WITH_3DES_EDE_CBC_SHA, gmtls.VersionTLS10, "rsa"},
	{"tls12/rc4-sha", gmtls.TLS_RSA_WITH_RC4_128_SHA, gmtls.VersionTLS12, "rsa"},
	{"tls10/rc4-sha", gmtls.TLS_ECDHE_RSA_WITH_RC4_128_SHA, gmtls.VersionTLS10, "rsa"},
}

// cfgs: with fixedRecords the endpoints put a whole Write (up to 16 KiB) into one record, which is what the exact position
// oracle needs; without it gmtls sizes records dynamically (small records first), and only the position-free part of the
// oracle is applied.
func (m c07TLSMode) cfgs(pki *tlsPKI, r *mon.RNG, fixedRecords bool) (*gmtls.Config, *gmtls.Config) {
	cert := pki.rsaCert
	if m.cert == "ec" {
		cert = pki.ecCert
	}
	scfg := &gmtls.Config{Certificates: []gmtls.Certificate{cert}, CipherSuites: []uint16{m.suite}, MinVersion: m.ver, MaxVersion: m.ver,
		Time: func() timeT { return fixedNow }, Rand: mon.NewRNG(r.U64()), SessionTicketsDisabled: true, DynamicRecordSizingDisabled: fixedRecords}
	ccfg := &gmtls.Config{ServerName: tlsServerName, RootCAs: pki.gmStdPool, CipherSuites: []uint16{m.suite}, MinVersion: m.ver, MaxVersion: m.ver,
		Time: func() timeT { return fixedNow }, Rand: mon.NewRNG(r.U64()), SessionTicketsDisabled: true, DynamicRecordSizingDisabled: fixedRecords}
	return ccfg, scfg
}

// c07AppRecords counts the application-data records one direction wrote (before mutation).
func c07AppRecords(ev []ref.WireEvent, fromClient bool) int {
	var stream []byte
	for _, e := range ev {
		if e.FromClient == fromClient {
			stream = append(stream, e.Data...)
		}
	}
	n := 0
	for len(stream) >= 5 {
		l := int(stream[3])<<8 | int(stream[4])
		if 5+l > len(stream) {
			break
		}
		if stream[0] == ref.RecAppData {
			n++
		}
		stream = stream[5+l:]
	}
	return n
}

func runC07TLS(c *Ctx, pki *tlsPKI) {
	rep := c.Rep
	kinds := []string{"flip", "flip", "flip", "flip", "truncate", "extend", "swap", "dup", "drop", "inject-reverse", "inject-foreign", "hdr-type", "hdr-version", "hdr-length", "eos", "inject-empty"}
	perWrite := map[string]int{}
	for _, m := range c07TLSModes {
		// control: no fault, three writes each way; everything arrives; q = records per Write
		r := c.Rng("tlsctl/" + m.name)
		cc, sc := m.cfgs(pki, r, true)
		o := handshakePair(cc, sc, nil)
		if !o.cli.completed || !o.srv.completed {
			rep.Violation("C07/tls/control-handshake-failed/"+m.name, fmt.Sprintf("%v / %v", o.cli.err, o.srv.err), nil)
			continue
		}
		if o.cli.state.CipherSuite != m.suite || o.cli.state.Version != m.ver {
			rep.Violation("C07/tls/control-negotiated-something-else/"+m.name, fmt.Sprintf("%04x %04x", o.cli.state.Version, o.cli.state.CipherSuite), nil)
			continue
		}
		before := c07AppRecords(o.orig.snapshot(), true)
		var wg sync.WaitGroup
		wg.Add(1)
		var got []byte
		go func() {
			defer wg.Done()
			got = make([]byte, 300)
			io.ReadFull(o.srv.conn, got)
		}()
		for k := 0; k < 3; k++ {
			o.cli.conn.Write(patBytes(7, 0, k*100, 100))
		}
		wg.Wait()
		q := (c07AppRecords(o.orig.snapshot(), true) - before) / 3
		o.cli.conn.Close()
		o.srv.conn.Close()
		if firstMismatch(7, 0, got) >= 0 || (q != 1 && q != 2) {
			rep.Violation("C07/tls/control-session-does-not-carry-data/"+m.name, fmt.Sprintf("records per write %d", q), nil)
			continue
		}
		perWrite[m.name] = q
		rep.Distinct(fmt.Sprintf("tls-record-layer/%s/records-per-write=%d", m.name, q))
	}
	n := c.Q(12, 400) * len(c07TLSModes)
	Par(n, func(i int) {
		m := c07TLSModes[i%len(c07TLSModes)]
		q, ok := perWrite[m.name]
		if !ok {
			return
		}
		r := c.Rng(fmt.Sprintf("tls/%s/%d", m.name, i))
		j := i / len(c07TLSModes)
		f := c07Fault{fromClient: r.Intn(2) == 0, k: r.Intn(5 * q), kind: kinds[(j+i)%len(kinds)], arg: r.Intn(1 << 20)}
		runC07SessionTLS(c, pki, m, q, f, i, r)
	})
}

func runC07SessionTLS(c *Ctx, pki *tlsPKI, m c07TLSMode, q int, f c07Fault, idx int, r *mon.RNG) {
	rep := c.Rep
	w := map[string]interface{}{"mode": m.name, "suite": fmt.Sprintf("%04x", m.suite), "version": fmt.Sprintf("%04x", m.ver), "fault": f.String(), "records_per_write": q}
	var foreign [2][]byte
	if f.kind == "inject-foreign" {
		cc, sc := m.cfgs(pki, r, true)
		o := handshakePair(cc, sc, func(fc bool, i int, rec []byte) ([][]byte, bool) {
			if rec[0] == ref.RecAppData {
				d := 1
				if fc {
					d = 0
				}
				foreign[d] = append([]byte{}, rec...)
			}
			return nil, false
		})
		if o.cli.completed && o.srv.completed {
			var wg sync.WaitGroup
			wg.Add(2)
			go func() {
				defer wg.Done()
				o.cli.conn.Write(patBytes(1, 0, 0, 50))
				o.cli.conn.Write(patBytes(1, 0, 50, 50))
			}()
			go func() {
				defer wg.Done()
				o.srv.conn.Write(patBytes(2, 1, 0, 50))
				o.srv.conn.Write(patBytes(2, 1, 50, 50))
			}()
			wg.Wait()
			o.cli.conn.Close()
			o.srv.conn.Close()
		}
	}
	exact := idx%3 != 2 // two thirds of the sessions: one record per Write, exact positions; one third: dynamic record sizes
	w["exact_positions"] = exact
	ccfg, scfg := m.cfgs(pki, r, exact)
	var armed, applied int32
	mut := c07Mutator(f, &foreign, &armed, &applied)
	out := handshakePair(ccfg, scfg, mut)
	if !out.cli.completed || !out.srv.completed {
		rep.Violation("C07/tls/handshake-failed/"+m.name, fmt.Sprintf("%v / %v", out.cli.err, out.srv.err), w)
		return
	}
	atomic.StoreInt32(&armed, 1)
	sender, receiver := out.cli.conn, out.srv.conn
	dir := 0
	if !f.fromClient {
		sender, receiver = out.srv.conn, out.cli.conn
		dir = 1
	}
	seed := r.U64()
	var pre sync.WaitGroup
	pre.Add(2)
	go func() { defer pre.Done(); receiver.Write(patBytes(seed, 1-dir, 0, 40)) }()
	go func() {
		defer pre.Done()
		b := make([]byte, 40)
		io.ReadFull(sender, b)
	}()
	pre.Wait()
	S := r.Pick(2, 15, 16, 17, 100, 1000, 5000, 16384)
	const writes = 8
	total := writes * S
	var wg sync.WaitGroup
	wg.Add(2)
	go func() {
		defer wg.Done()
		for k := 0; k < writes; k++ {
			if _, err := sender.Write(patBytes(seed, dir, k*S, S)); err != nil {
				break
			}
		}
		sender.Close()
	}()
	var got []byte
	var rerr error
	stickyBad := ""
	if idx%3 == 1 {
		receiver.CloseWrite()
		w["receiver_half_closed_before_reading"] = true
	}
	go func() {
		defer wg.Done()
		buf := make([]byte, 20000)
		for {
			n, err := receiver.Read(buf)
			got = append(got, buf[:n]...)
			if err != nil {
				rerr = err
				for k := 0; k < 3; k++ {
					if n2, e2 := receiver.Read(buf); n2 != 0 || e2 == nil {
						stickyBad = fmt.Sprintf("Read #%d after the error returned (%d,%v)", k+1, n2, e2)
					}
				}
				return
			}
		}
	}()
	wg.Wait()
	receiver.Close()
	if atomic.LoadInt32(&applied) == 0 {
		rep.EvalTrivial("blackbox-tls/fault-not-reached/" + f.kind)
		return
	}
	cumAt := func(k int) int {
		v := (k / q) * S
		if q == 2 && k%2 == 1 {
			v++
		}
		if v > total {
			v = total
		}
		return v
	}
	if !exact {
		// dynamic record sizes: where record f.k lies in the stream is not known to the harness. Position-free part of the
		// oracle: a prefix is delivered, not everything (the fault hits one of the first records of a long stream), the
		// stream ends with a fatal error, and the error sticks.
		if mm := firstMismatch(seed, dir, got); mm >= 0 {
			rep.Violation("C07/tls/Read/delivered-byte-not-sent-at-that-position/"+m.name+"/"+f.kind, fmt.Sprintf("%s: first wrong byte at offset %d of %d delivered", f, mm, len(got)), w)
		}
		if f.kind != "eos" && (rerr == nil || rerr == io.EOF) && S >= 1000 {
			rep.Violation("C07/tls/Read/no-fatal-error-after-affected-record/"+m.name+"/"+f.kind+"/dynamic-records", fmt.Sprintf("%s: Read ended with %v after %d of %d bytes", f, rerr, len(got), total), w)
		}
		if stickyBad != "" {
			rep.Violation("C07/tls/Read/error-not-sticky/"+m.name+"/"+f.kind, stickyBad, w)
		}
		rep.Count("blackbox_tls_sessions_with_fault_applied", 1)
		rep.Eval(fmt.Sprintf("blackbox-tls/%s/dynamic-record-sizes/%s", m.name, f.kind))
		return
	}
	before, through := cumAt(f.k), cumAt(f.k+1)
	want, allowEOF := before, false
	switch f.kind {
	case "dup":
		want = through
	case "eos":
		want, allowEOF = through, true
	}
	region := ""
	if f.kind == "flip" {
		region = []string{"/first-bytes", "/iv-or-nonce", "/body", "/mac-tag-padding"}[f.arg%4]
	}
	w["delivered"], w["expected_delivered"], w["read_error"], w["write_size"] = len(got), want, errStr(rerr), S
	if mm := firstMismatch(seed, dir, got); mm >= 0 {
		rep.Violation("C07/tls/Read/delivered-byte-not-sent-at-that-position/"+m.name+"/"+f.kind, fmt.Sprintf("%s: first wrong byte at offset %d of %d delivered", f, mm, len(got)), w)
	}
	if len(got) > want {
		rep.Violation("C07/tls/Read/bytes-delivered-after-the-affected-record/"+m.name+"/"+f.kind+region, fmt.Sprintf("%s: %d bytes delivered, only %d precede the affected record", f, len(got), want), w)
	}
	if len(got) < want {
		rep.Violation("C07/tls/Read/bytes-before-the-affected-record-lost/"+m.name+"/"+f.kind, fmt.Sprintf("%s: %d bytes delivered, %d were expected", f, len(got), want), w)
	}
	if rerr == nil || (rerr == io.EOF && !allowEOF && len(got) < total) {
		rep.Violation("C07/tls/Read/no-fatal-error-after-affected-record/"+m.name+"/"+f.kind+region, fmt.Sprintf("%s: Read ended with %v after %d of %d bytes", f, rerr, len(got), total), w)
	}
	if stickyBad != "" {
		rep.Violation("C07/tls/Read/error-not-sticky/"+m.name+"/"+f.kind, stickyBad, w)
	}
	rep.Count("blackbox_tls_sessions_with_fault_applied", 1)
	rep.Eval(fmt.Sprintf("blackbox-tls/%s/%s/%s%s", m.name, map[bool]string{true: "c2s", false: "s2c"}[f.fromClient], f.kind, region))
}
