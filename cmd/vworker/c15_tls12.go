package main

import (
	"fmt"
	"strings"
	"sync"

	"github.com/tjfoc/gmsm/gmtls"

	"verif/mon"
	"verif/ref"
)

// A scripted TLS 1.2 client (ref.TLS12Client: RSA key exchange, AES-128-CBC-SHA, optional next-protocol negotiation;
// written from RFC 5246, no library code) against the TLS branch of the server — the plain TLS server and the auto-switch
// server — with one deviation per run, including the part of the flow a GM peer or a relay cannot script: what follows the
// client's ChangeCipherSpec, which is encrypted and enters the Finished hash. The client computes its Finished over
// what it really sent, so a server that tolerates a deviation there completes.
//
// Oracle: the honest scripts (with and without NPN) must complete, with the protocol NextProtocol named; every deviating
// script must end in an error from Handshake, without a panic. The input always ends (the script closes its side).
func runC15TLS12(c *Ctx, pki *tlsPKI) {
	rep := c.Rep
	type sc struct {
		name    string
		npn     bool // the client offers NPN
		protos  bool // the server has NextProtos
		deviate bool
	}
	var cases []sc
	for _, npn := range []bool{false, true} {
		for _, protos := range []bool{false, true} {
			cases = append(cases, sc{"control", npn, protos, false})
			for _, d := range []string{"cke-omitted", "cke-twice", "ccs-omitted", "ccs-twice", "finished-before-ccs", "finished-wrong", "finished-of-server-label", "client-hello-twice",
				"client-hello-in-place-of-cke", "empty-certificate-unsolicited", "server-hello-done-from-client", "hello-request-before-cke", "appdata-before-cke", "appdata-before-finished",
				"next-protocol-before-ccs", "next-protocol-after-cke-in-clear", "unknown-handshake-type-before-finished",
				"close-before-cke", "close-before-ccs", "close-before-finished"} {
				cases = append(cases, sc{d, npn, protos, true})
			}
			negotiated := npn && protos
			if negotiated {
				for _, d := range []string{"next-protocol-omitted", "next-protocol-twice", "next-protocol-three-times", "next-protocol-after-finished-only", "next-protocol-truncated", "next-protocol-bad-padding-length"} {
					cases = append(cases, sc{d, npn, protos, true})
				}
			} else {
				cases = append(cases, sc{"next-protocol-not-negotiated", npn, protos, true}, sc{"next-protocol-not-negotiated-twice", npn, protos, true})
			}
		}
	}
	servers := []string{"tls-server", "auto-server"}
	total := len(cases) * len(servers)
	Par(total, func(idx int) {
		cs, srvName := cases[idx%len(cases)], servers[idx/len(cases)]
		rr := c.Rng(fmt.Sprintf("t12/%d", idx))
		scfg := &gmtls.Config{Time: func() timeT { return fixedNow }, Rand: mon.NewRNG(rr.U64()), SessionTicketsDisabled: idx%2 == 0, Certificates: []gmtls.Certificate{pki.rsaCert}}
		if cs.protos {
			scfg.NextProtos = []string{"proto-a", "proto-b"}
		}
		if srvName == "auto-server" {
			sup := gmtls.NewGMSupport()
			sup.EnableMixMode()
			scfg.GMSupport = sup
			scfg.Certificates = nil
			scfg.GetCertificate = func(info *gmtls.ClientHelloInfo) (*gmtls.Certificate, error) {
				for _, v := range info.SupportedVersions {
					if v == gmtls.VersionGMSSL {
						return &pki.sig, nil
					}
				}
				return &pki.rsaCert, nil
			}
			scfg.GetKECertificate = func(*gmtls.ClientHelloInfo) (*gmtls.Certificate, error) { return &pki.enc, nil }
		}
		log := &wireLog{}
		cm, sm := newMemPair(log, nil)
		rnd := mon.NewRNG(rr.U64())
		peer := &ref.TLS12Client{Conn: cm, Rand: rnd.Bytes, OfferNPN: cs.npn, Proto: "proto-b"}
		hs := func(b ...[]byte) []ref.Item {
			var it []ref.Item
			for _, x := range b {
				it = append(it, ref.Item{RecType: ref.RecHandshake, Data: x})
			}
			return it
		}
		var firstHello []byte
		peer.Mutate = func(step string, def []ref.Item) []ref.Item {
			if step == ref.T12ClientHello && len(def) == 1 {
				firstHello = def[0].Data
			}
			closeNow := func() []ref.Item { cm.Close(); return nil }
			switch {
			case step == ref.T12ClientKeyExchange:
				switch cs.name {
				case "cke-omitted":
					return nil
				case "cke-twice":
					return append(append([]ref.Item{}, def...), def...)
				case "client-hello-twice":
					return append(hs(firstHello), def...)
				case "client-hello-in-place-of-cke":
					return hs(firstHello)
				case "empty-certificate-unsolicited":
					return append(hs(ref.HSMsg(ref.HSCertificate, []byte{0, 0, 0})), def...)
				case "server-hello-done-from-client":
					return append(hs(ref.HSMsg(ref.HSServerHelloDone, nil)), def...)
				case "hello-request-before-cke":
					return append(hs(ref.HSMsg(0, nil)), def...)
				case "appdata-before-cke":
					return append([]ref.Item{{RecType: ref.RecAppData, Data: []byte("early")}}, def...)
				case "next-protocol-after-cke-in-clear":
					return append(append([]ref.Item{}, def...), hs(ref.NextProtocolMsg("proto-b"))...)
				case "close-before-cke":
					return closeNow()
				}
			case step == ref.T12CCS:
				switch cs.name {
				case "ccs-omitted":
					return nil
				case "ccs-twice":
					return append(append([]ref.Item{}, def...), def...)
				case "finished-before-ccs":
					return append(hs(ref.HSMsg(ref.HSFinished, peer.FinishedData(true))), def...)
				case "next-protocol-before-ccs":
					return append(hs(ref.NextProtocolMsg("proto-b")), def...)
				case "close-before-ccs":
					return closeNow()
				}
			case step == ref.T12NextProtocol:
				switch cs.name {
				case "next-protocol-omitted", "next-protocol-after-finished-only":
					return nil
				case "next-protocol-twice":
					return hs(ref.NextProtocolMsg("proto-b"), ref.NextProtocolMsg("proto-a"))
				case "next-protocol-three-times":
					return hs(ref.NextProtocolMsg("proto-b"), ref.NextProtocolMsg("proto-b"), ref.NextProtocolMsg("proto-a"))
				case "next-protocol-not-negotiated":
					return hs(ref.NextProtocolMsg("proto-b"))
				case "next-protocol-not-negotiated-twice":
					return hs(ref.NextProtocolMsg("proto-b"), ref.NextProtocolMsg("proto-b"))
				case "next-protocol-truncated":
					m := ref.NextProtocolMsg("proto-b")
					return hs(ref.HSMsg(m[0], m[4:4+3]))
				case "next-protocol-bad-padding-length":
					m := append([]byte{}, ref.NextProtocolMsg("proto-b")...)
					m[4+1+len("proto-b")] += 9 // padding length says more than is there
					return hs(m)
				case "appdata-before-finished":
					return append(append([]ref.Item{}, def...), ref.Item{RecType: ref.RecAppData, Data: []byte("early")})
				case "unknown-handshake-type-before-finished":
					return append(append([]ref.Item{}, def...), hs(ref.HSMsg(99, []byte{1, 2, 3}))...)
				case "close-before-finished":
					return closeNow()
				}
			case step == ref.T12Finished:
				switch cs.name {
				case "finished-wrong":
					return hs(ref.HSMsg(ref.HSFinished, rnd.Bytes(12)))
				case "finished-of-server-label":
					return hs(ref.HSMsg(ref.HSFinished, peer.FinishedData(false)))
				case "next-protocol-after-finished-only":
					return append(append([]ref.Item{}, def...), hs(ref.NextProtocolMsg("proto-b"))...)
				}
			}
			return def
		}
		var wg sync.WaitGroup
		wg.Add(1)
		var perr error
		go func() {
			defer wg.Done()
			mon.Guard(func() { perr = peer.Run() })
			cm.Close()
		}()
		srv := gmtls.Server(sm, scfg)
		var herr error
		pi := mon.Guard(func() { herr = srv.Handshake() })
		var negotiated string
		if herr == nil && pi == nil {
			negotiated = srv.ConnectionState().NegotiatedProtocol
		}
		sm.Close()
		wg.Wait()
		key := fmt.Sprintf("tls12-scripted/%s/%s/client-npn=%v/server-protos=%v", srvName, cs.name, cs.npn, cs.protos)
		w := map[string]interface{}{"server": srvName, "deviation": cs.name, "client_offers_npn": cs.npn, "server_has_next_protos": cs.protos, "server_error": errStr(herr), "script_error": errStr(perr), "server_announced_npn": peer.ServerNPN}
		if pi != nil {
			rep.Violation("C15/"+key+"/panic/"+pi.Func, pi.Value, w)
		}
		if !cs.deviate {
			if herr != nil || !peer.Completed {
				rep.Violation("C15/"+key+"/honest-script-fails", fmt.Sprintf("server: %v / script: %v", herr, perr), w)
			} else if peer.ServerNPN && negotiated != "proto-b" {
				rep.Violation("C15/"+key+"/negotiated-protocol-differs", fmt.Sprintf("NextProtocol named proto-b, ConnectionState says %q", negotiated), w)
			}
			rep.Count(fmt.Sprintf("tls12_scripted_control/npn_negotiated=%v", peer.ServerNPN), 1)
			rep.EvalTrivial(key)
			return
		}
		// whether NextProtocol belongs in the flight is what the ServerHello said, not what this table assumed
		if strings.HasPrefix(cs.name, "next-protocol-not-negotiated") == peer.ServerNPN && strings.HasPrefix(cs.name, "next-protocol-") &&
			cs.name != "next-protocol-before-ccs" && cs.name != "next-protocol-after-cke-in-clear" {
			rep.EvalTrivial(key + "/not-applicable-to-what-the-server-announced")
			return
		}
		if herr == nil && pi == nil {
			rep.Violation("C15/"+key+"/server-completes", "the server reports the handshake complete although the client's flight deviated", w)
		}
		rep.Eval(key)
	})
}
