package main

import (
	"fmt"
	"strings"
	"sync"
	"time"

	"github.com/tjfoc/gmsm/gmtls"

	"verif/mon"
	"verif/ref"
)

// C15, standard-TLS half: the peer is a genuine TLS 1.0-1.2 endpoint whose cleartext handshake flight is rewritten on the
// wire, one deviation at one handshake message, by the record-level interposer. Everything the property lists (omitted,
// repeated, retyped, truncated messages, inconsistent length fields, early ChangeCipherSpec / application data / alerts,
// unknown record types, end of stream) is applied message by message. Oracle: the endpoint that *receives* the deviating
// stream must return an error whenever the handshake byte stream it saw differs from what the peer sent (its Finished
// check cannot succeed) or a protocol-forbidden record was injected; nobody panics; everybody returns.

type tlsDev struct {
	fromClient bool // direction that is rewritten (the receiver of that direction is the endpoint under test)
	msgIdx     int  // index of the cleartext handshake message in that direction
	kind       string
	arg, arg2  int
}

func (d tlsDev) String() string {
	return fmt.Sprintf("%s@msg%d(fromClient=%v,%d,%d)", d.kind, d.msgIdx, d.fromClient, d.arg, d.arg2)
}

// judged reports whether the receiving endpoint is required to fail when the deviation took effect.
func (d tlsDev) judged(msgType byte) bool {
	switch d.kind {
	case "prepend-alert":
		// a single warning alert other than close_notify may be ignored
		return d.arg == 2 || d.arg2 == 0
	case "prepend-warnings", "empty-record", "split":
		return false
	case "prepend-hs":
		// HelloRequest is not part of the transcript and may be ignored by a client that is already negotiating
		return !(d.arg == 0 && !d.fromClient)
	}
	return true
}

type hsMsgInfo struct {
	typ byte
	n   int
}

// splitHS parses a handshake record body into whole messages; ok=false when it holds a fragment.
func splitHS(body []byte) (msgs [][]byte, ok bool) {
	for len(body) > 0 {
		if len(body) < 4 {
			return nil, false
		}
		n := int(body[1])<<16 | int(body[2])<<8 | int(body[3])
		if len(body) < 4+n {
			return nil, false
		}
		msgs = append(msgs, body[:4+n])
		body = body[4+n:]
	}
	return msgs, true
}

func wrapRec(typ byte, ver [2]byte, body []byte) []byte {
	return append([]byte{typ, ver[0], ver[1], byte(len(body) >> 8), byte(len(body))}, body...)
}

// tlsDevMutator builds the interposer; seen (optional) receives every cleartext handshake message per direction.
func tlsDevMutator(d tlsDev, r *mon.RNG, pki *tlsPKI, changed *bool, hitType *byte, seen func(fromClient bool, m []byte)) mutator {
	var mu sync.Mutex
	ccs := map[bool]bool{}
	count := map[bool]int{}
	return func(fc bool, idx int, rec []byte) ([][]byte, bool) {
		mu.Lock()
		defer mu.Unlock()
		if rec[0] == ref.RecCCS {
			ccs[fc] = true
		}
		if rec[0] != ref.RecHandshake || ccs[fc] {
			return nil, false
		}
		msgs, ok := splitHS(rec[5:])
		if !ok {
			return nil, false
		}
		ver := [2]byte{rec[1], rec[2]}
		var out [][]byte
		closeAfter := false
		touched := false
		for _, m := range msgs {
			k := count[fc]
			count[fc]++
			if seen != nil {
				seen(fc, m)
			}
			if fc != d.fromClient || k != d.msgIdx || d.kind == "honest" {
				out = append(out, wrapRec(ref.RecHandshake, ver, m))
				continue
			}
			*hitType = m[0]
			hs := func(b []byte) []byte { return wrapRec(ref.RecHandshake, ver, b) }
			orig := hs(m)
			var repl [][]byte
			switch d.kind {
			case "omit":
			case "repeat":
				repl = [][]byte{orig, orig}
			case "retype":
				mm := append([]byte{}, m...)
				mm[0] = byte(d.arg)
				repl = [][]byte{hs(mm)}
			case "prepend-hs":
				repl = [][]byte{hs(hsSample(byte(d.arg), r, pki)), orig}
			case "prepend-ccs":
				repl = [][]byte{wrapRec(ref.RecCCS, ver, []byte{1}), orig}
			case "replace-ccs":
				repl = [][]byte{wrapRec(ref.RecCCS, ver, []byte{1})}
			case "prepend-alert":
				repl = [][]byte{wrapRec(ref.RecAlert, ver, []byte{byte(d.arg), byte(d.arg2)}), orig}
			case "prepend-warnings":
				for i := 0; i < d.arg; i++ {
					repl = append(repl, wrapRec(ref.RecAlert, ver, []byte{1, 100}))
				}
				repl = append(repl, orig)
			case "prepend-appdata":
				repl = [][]byte{wrapRec(ref.RecAppData, ver, []byte("GET / HTTP/1.0\r\n\r\n")), orig}
			case "prepend-empty-record-of-type":
				repl = [][]byte{wrapRec(byte(d.arg), ver, nil), orig}
			case "prepend-unknown-rectype":
				repl = [][]byte{wrapRec(byte(d.arg), ver, []byte{1, 2, 3}), orig}
			case "replace-sslv2":
				repl = [][]byte{{0x80, 0x2e, 0x01, 0x03, 0x01, 0x00, 0x15, 0x00, 0x00, 0x00, 0x10, 0x00, 0x00, 0x2f, 0x00, 0xc0, 0x2f}}
			case "oversize-record":
				repl = [][]byte{append([]byte{ref.RecHandshake, ver[0], ver[1], 0x48, 0x01}, make([]byte, 0x4801)...), orig}
			case "oversize-hs-length":
				repl = [][]byte{hs(append([]byte{m[0], 0xff, 0xff, 0xff}, m[4:]...))}
			case "empty-record":
				repl = [][]byte{{ref.RecHandshake, ver[0], ver[1], 0, 0}, orig}
			case "eos":
				repl = [][]byte{orig}
				closeAfter = true
			case "eos-before":
				closeAfter = true
			case "truncate": // body cut to n bytes, header length consistent
				n := d.arg
				if n >= len(m)-4 {
					repl = [][]byte{orig}
				} else {
					repl = [][]byte{hs(ref.HSMsg(m[0], m[4:4+n]))}
				}
			case "truncate-raw": // body cut, header still claims the full length: the rest of the stream slides in
				n := d.arg
				if n >= len(m)-4 {
					repl = [][]byte{orig}
				} else {
					repl = [][]byte{hs(m[:4+n])}
				}
			case "hs-length-field":
				mm := append([]byte{}, m...)
				l := len(m) - 4 + d.arg
				if l < 0 {
					l = 0
				}
				mm[1], mm[2], mm[3] = byte(l>>16), byte(l>>8), byte(l)
				repl = [][]byte{hs(mm)}
			case "byte":
				mm := append([]byte{}, m...)
				pos := 4 + d.arg
				if pos < len(mm) {
					switch d.arg2 {
					case 0:
						mm[pos] = 0
					case 1:
						mm[pos]--
					case 2:
						mm[pos]++
					default:
						mm[pos] = 0xff
					}
				}
				repl = [][]byte{hs(mm)}
			case "sigalg":
				// the SignatureAndHashAlgorithm value(s) of this message replaced by the single value arg (TLS 1.2 forms)
				if mm := c15RewriteSigAlg(m, uint16(d.arg)); mm != nil {
					repl = [][]byte{hs(mm)}
				} else {
					repl = [][]byte{orig}
				}
			case "split":
				if d.arg > 0 && d.arg < len(m) {
					repl = [][]byte{hs(m[:d.arg]), hs(m[d.arg:])}
				} else {
					repl = [][]byte{orig}
				}
			default:
				repl = [][]byte{orig}
			}
			if !(len(repl) == 1 && string(repl[0]) == string(orig)) || closeAfter {
				touched = true
			}
			out = append(out, repl...)
			if closeAfter {
				break
			}
		}
		if touched {
			*changed = true
		}
		if out == nil {
			out = [][]byte{} // everything omitted: forward nothing (nil would mean "unchanged")
		}
		return out, closeAfter
	}
}

type c15TLSTarget struct {
	name   string
	suite  uint16
	ver    uint16
	cert   string // rsa | ec
	auth   bool
	auto   bool // server in auto-switch mode
	ticket bool
	reneg  gmtls.RenegotiationSupport // client-side renegotiation policy
}

func (t c15TLSTarget) cfgs(pki *tlsPKI, rr *mon.RNG) (*gmtls.Config, *gmtls.Config) {
	scfg := &gmtls.Config{CipherSuites: []uint16{t.suite}, Time: func() timeT { return fixedNow }, Rand: mon.NewRNG(rr.U64()), SessionTicketsDisabled: !t.ticket, MinVersion: t.ver, MaxVersion: t.ver}
	cert := pki.rsaCert
	if t.cert == "ec" {
		cert = pki.ecCert
	}
	if t.auto {
		sup := gmtls.NewGMSupport()
		sup.EnableMixMode()
		scfg.GMSupport = sup
		scfg.GetCertificate = func(info *gmtls.ClientHelloInfo) (*gmtls.Certificate, error) {
			for _, v := range info.SupportedVersions {
				if v == gmtls.VersionGMSSL {
					return &pki.sig, nil
				}
			}
			return &cert, nil
		}
		scfg.GetKECertificate = func(*gmtls.ClientHelloInfo) (*gmtls.Certificate, error) { return &pki.enc, nil }
	} else {
		scfg.Certificates = []gmtls.Certificate{cert}
	}
	ccfg := &gmtls.Config{ServerName: tlsServerName, RootCAs: pki.gmStdPool, CipherSuites: []uint16{t.suite}, Time: func() timeT { return fixedNow }, Rand: mon.NewRNG(rr.U64()),
		SessionTicketsDisabled: !t.ticket, MinVersion: t.ver, MaxVersion: t.ver}
	if t.ticket {
		ccfg.ClientSessionCache = gmtls.NewLRUClientSessionCache(4)
	}
	ccfg.Renegotiation = t.reneg
	if t.auth {
		scfg.ClientAuth, scfg.ClientCAs = gmtls.RequireAndVerifyClientCert, pki.pool
		ccfg.Certificates = []gmtls.Certificate{pki.cliSig}
		if t.ver < gmtls.VersionTLS12 {
			scfg.ClientCAs = pki.gmStdPool
			ccfg.Certificates = []gmtls.Certificate{pki.rsaCert}
		}
	}
	return ccfg, scfg
}

func runC15TLS(c *Ctx, pki *tlsPKI) {
	rep := c.Rep
	targets := []c15TLSTarget{
		{name: "tls12-ecdhe-rsa-gcm", suite: gmtls.TLS_ECDHE_RSA_WITH_AES_128_GCM_SHA256, ver: gmtls.VersionTLS12, cert: "rsa", ticket: true},
		{name: "tls12-ecdhe-rsa-gcm+clientauth", suite: gmtls.TLS_ECDHE_RSA_WITH_AES_128_GCM_SHA256, ver: gmtls.VersionTLS12, cert: "rsa", auth: true},
		{name: "tls12-ecdhe-ecdsa-gcm", suite: gmtls.TLS_ECDHE_ECDSA_WITH_AES_128_GCM_SHA256, ver: gmtls.VersionTLS12, cert: "ec"},
		{name: "tls12-rsa-cbc", suite: gmtls.TLS_RSA_WITH_AES_128_CBC_SHA, ver: gmtls.VersionTLS12, cert: "rsa"},
		{name: "tls10-ecdhe-rsa-cbc", suite: gmtls.TLS_ECDHE_RSA_WITH_AES_256_CBC_SHA, ver: gmtls.VersionTLS10, cert: "rsa"},
		{name: "tls11-rsa-cbc", suite: gmtls.TLS_RSA_WITH_AES_128_CBC_SHA, ver: gmtls.VersionTLS11, cert: "rsa"},
		{name: "ssl30-rsa-cbc", suite: gmtls.TLS_RSA_WITH_AES_128_CBC_SHA, ver: gmtls.VersionSSL30, cert: "rsa"},
		{name: "ssl30-rsa-cbc+clientauth", suite: gmtls.TLS_RSA_WITH_AES_128_CBC_SHA, ver: gmtls.VersionSSL30, cert: "rsa", auth: true},
		{name: "tls10-rsa-cbc+clientauth", suite: gmtls.TLS_RSA_WITH_AES_128_CBC_SHA, ver: gmtls.VersionTLS10, cert: "rsa", auth: true},
		{name: "tls12-ecdhe-rsa-gcm+client-renegotiation-once", suite: gmtls.TLS_ECDHE_RSA_WITH_AES_128_GCM_SHA256, ver: gmtls.VersionTLS12, cert: "rsa", reneg: gmtls.RenegotiateOnceAsClient},
		{name: "tls10-ecdhe-rsa-cbc+client-renegotiation-freely", suite: gmtls.TLS_ECDHE_RSA_WITH_AES_256_CBC_SHA, ver: gmtls.VersionTLS10, cert: "rsa", reneg: gmtls.RenegotiateFreelyAsClient},
		{name: "auto-server/tls12-ecdhe-rsa-gcm", suite: gmtls.TLS_ECDHE_RSA_WITH_AES_128_GCM_SHA256, ver: gmtls.VersionTLS12, cert: "rsa", auto: true},
	}
	type job struct {
		t   c15TLSTarget
		dev tlsDev
		typ byte
	}
	var jobs []job
	hsTypes := []int{0, 1, 2, 4, 11, 12, 13, 14, 15, 16, 20, 99}
	for ti, t := range targets {
		// honest control: learn the cleartext flights of this configuration
		var mu sync.Mutex
		flights := map[bool][]hsMsgInfo{}
		ccfg, scfg := t.cfgs(pki, c.Rng(fmt.Sprintf("tlsctl%d", ti)))
		var ch bool
		var ht byte
		out := handshakePair(ccfg, scfg, tlsDevMutator(tlsDev{kind: "honest"}, nil, pki, &ch, &ht, func(fc bool, m []byte) {
			mu.Lock()
			flights[fc] = append(flights[fc], hsMsgInfo{m[0], len(m) - 4})
			mu.Unlock()
		}))
		if !out.cli.completed || !out.srv.completed || out.cli.panicked != nil || out.srv.panicked != nil {
			// C06 judges which configurations must work; here a configuration that cannot complete honestly is only skipped
			rep.Count("tls_targets_skipped(honest control does not complete)", 1)
			rep.Note(fmt.Sprintf("C15 tls target %s skipped: honest control client=%v server=%v", t.name, out.cli.err, out.srv.err))
			continue
		}
		rep.Eval("tls/" + t.name + "/honest-control")
		for _, fc := range []bool{false, true} {
			if t.auto && !fc {
				continue // the client of an auto-switch server is the same client as elsewhere
			}
			if t.reneg != 0 && fc {
				continue // the renegotiation policy is a client-side setting: only the server's flight is rewritten
			}
			for k, mi := range flights[fc] {
				add := func(kind string, a, b int) {
					jobs = append(jobs, job{t, tlsDev{fromClient: fc, msgIdx: k, kind: kind, arg: a, arg2: b}, mi.typ})
				}
				add("omit", 0, 0)
				add("repeat", 0, 0)
				for _, h := range hsTypes {
					if byte(h) != mi.typ {
						add("retype", h, 0)
					}
					add("prepend-hs", h, 0)
				}
				add("prepend-ccs", 0, 0)
				add("replace-ccs", 0, 0)
				add("prepend-alert", 1, 0)
				add("prepend-alert", 2, 40)
				add("prepend-alert", 2, 0)
				add("prepend-alert", 1, 100)
				add("prepend-warnings", 6, 0)
				add("prepend-warnings", 20, 0)
				add("prepend-appdata", 0, 0)
				for _, rt := range []int{int(ref.RecAppData), int(ref.RecAlert), int(ref.RecCCS)} {
					add("prepend-empty-record-of-type", rt, 0)
				}
				for _, rt := range []int{24, 0, 255} {
					add("prepend-unknown-rectype", rt, 0)
				}
				add("replace-sslv2", 0, 0)
				add("oversize-record", 0, 0)
				add("oversize-hs-length", 0, 0)
				add("empty-record", 0, 0)
				add("eos", 0, 0)
				add("eos-before", 0, 0)
				for _, dl := range []int{-1, 1, -4, 256, -100000} {
					add("hs-length-field", dl, 0)
				}
				for n := 0; n < mi.n; n++ {
					if !c.Thorough && n > 160 && n%5 != 0 && n < mi.n-40 {
						continue
					}
					add("truncate", n, 0)
					if c.Thorough || n%7 == 0 || n > mi.n-6 {
						add("truncate-raw", n, 0)
					}
				}
				for pos := 0; pos < mi.n; pos++ {
					if pos >= 96 && (!c.Thorough || pos%3 != 0) && pos%17 != 0 {
						continue
					}
					for v := 0; v < 4; v++ {
						if !c.Thorough && (pos+v)%2 != 0 {
							continue
						}
						add("byte", pos, v)
					}
				}
				for _, off := range []int{1, 3, 4, 5, 37} {
					add("split", off, 0)
				}
				// every signature-scheme code point a peer might name where this message carries one (ClientHello extension,
				// ServerKeyExchange, CertificateRequest, CertificateVerify): hash 0..8 x signature 0..8 and the code points
				// other standards define (0x0708 sm2sig_sm3, 0x08xx), known ones with a key they do not fit included
				if t.ver == gmtls.VersionTLS12 && (mi.typ == 1 || mi.typ == 12 || mi.typ == 13 || mi.typ == 15) {
					for hsh := 0; hsh <= 8; hsh++ {
						for sg := 0; sg <= 8; sg++ {
							if !c.Thorough && (hsh+sg+k)%3 != 0 && !(hsh == 2 && sg == 4) {
								continue
							}
							add("sigalg", hsh<<8|sg, 0)
						}
					}
					for _, v := range []int{0x0708, 0x0804, 0x0805, 0x0806, 0x0807, 0x0809, 0xfefe, 0xffff} {
						add("sigalg", v, 0)
					}
				}
			}
		}
	}
	rep.Count("tls_scripts", int64(len(jobs)))
	Par(len(jobs), func(i int) {
		j := jobs[i]
		rr := c.Rng(fmt.Sprintf("tlsjob%d", i))
		ccfg, scfg := j.t.cfgs(pki, rr)
		changed := false
		var hit byte
		out := handshakePair(ccfg, scfg, tlsDevMutator(j.dev, mon.NewRNG(rr.U64()), pki, &changed, &hit, nil))
		under := "client"
		res := &out.cli
		if j.dev.fromClient {
			under, res = "server", &out.srv
		}
		devCls := j.dev.kind
		switch j.dev.kind {
		case "retype", "prepend-hs":
			devCls += fmt.Sprintf("/type=%d", j.dev.arg)
		case "prepend-alert":
			devCls += fmt.Sprintf("/%d-%d", j.dev.arg, j.dev.arg2)
		case "sigalg":
			devCls += fmt.Sprintf("/hash=%02x", j.dev.arg>>8)
		}
		cls := fmt.Sprintf("tls/%s/%s/msgtype=%d/%s", j.t.name, under, j.typ, devCls)
		w := map[string]interface{}{"target": j.t.name, "endpoint_under_test": under, "deviation": j.dev.String(), "message_type": j.typ,
			"client_error": errStr(out.cli.err), "server_error": errStr(out.srv.err)}
		for side, e := range map[string]*endResult{"client": &out.cli, "server": &out.srv} {
			if e.panicked != nil {
				rep.Violation(fmt.Sprintf("C15/Handshake/panic/tls-%s/%s/%s@msgtype=%d", side, e.panicked.Func, j.dev.kind, j.typ), fmt.Sprintf("%s %s: %s", j.t.name, j.dev, e.panicked.Value), w)
			}
		}
		if !changed {
			rep.EvalTrivial(cls)
			return
		}
		if !j.dev.judged(j.typ) {
			rep.EvalTrivial(cls)
			rep.Count("tls_scripts_not_judged_on_completion(tolerable deviations)", 1)
			return
		}
		if res.completed {
			rep.Violation(fmt.Sprintf("C15/Handshake/completes-with-deviating-peer/tls-%s/msgtype=%d/%s", under, j.typ, devCls),
				fmt.Sprintf("%s %s: the %s saw a handshake stream its peer did not send (or a forbidden record) and reports the handshake as complete", j.t.name, j.dev, under), w)
		}
		rep.Eval(cls)
	})
}

// ---- blind scripted client against standard-TLS servers: it does not parse or verify anything the server says; after
// its ClientHello (any version 0x0300..0x0303 — the gmtls *client* refuses SSL 3.0 but the server still speaks it) it
// waits for the server's flight to end and sends a syntactically plausible second flight made of a certificate,
// key-exchange bytes, a CertificateVerify, ChangeCipherSpec and a Finished that cannot be right. The server must answer
// with an error: never complete, never panic, always return.
func runC15Blind(c *Ctx, pki *tlsPKI) {
	rep := c.Rep
	type srv struct {
		name string
		auto bool
		auth gmtls.ClientAuthType
	}
	var srvs []srv
	for _, a := range []gmtls.ClientAuthType{gmtls.NoClientCert, gmtls.RequestClientCert, gmtls.RequireAnyClientCert, gmtls.RequireAndVerifyClientCert} {
		srvs = append(srvs, srv{"tls-server/" + authName(a), false, a}, srv{"auto-server/" + authName(a), true, a})
	}
	type job struct {
		s       srv
		ver     uint16
		suite   uint16
		variant int
	}
	var jobs []job
	for _, s := range srvs {
		for _, v := range []uint16{0x0300, 0x0301, 0x0302, 0x0303} {
			for _, su := range []uint16{0x002f, 0xc014, 0xc02f, 0x0035, 0x009c} {
				for variant := 0; variant < 5; variant++ {
					jobs = append(jobs, job{s, v, su, variant})
				}
				if su == 0xc02f || su == 0x002f {
					// the same hello with extension blocks another implementation might send (variants 5..): server_name lists
					// with entries of other name types, several host names, an empty list, an empty extension; unknown and
					// duplicated extensions — all well-formed as far as their lengths go
					for variant := 5; variant < 5+c15BlindExtVariants; variant++ {
						jobs = append(jobs, job{s, v, su, variant})
					}
				}
			}
		}
	}
	rep.Count("blind_client_scripts", int64(len(jobs)))
	Par(len(jobs), func(i int) {
		j := jobs[i]
		r := c.Rng(fmt.Sprintf("blind%d", i))
		t := c15TLSTarget{suite: j.suite, ver: 0, cert: "rsa", auto: j.s.auto}
		_, scfg := t.cfgs(pki, r)
		scfg.CipherSuites = nil // the server's defaults
		scfg.MinVersion, scfg.MaxVersion = 0, 0
		scfg.ClientAuth = j.s.auth
		scfg.ClientCAs = pki.gmStdPool
		cm, sm := newMemPair(&wireLog{}, nil)
		var serr error
		var spanic *mon.PanicInfo
		done := make(chan struct{})
		go func() {
			defer close(done)
			sc := gmtls.Server(sm, scfg)
			spanic = mon.Guard(func() { serr = sc.Handshake() })
			sm.Close()
		}()
		ver := [2]byte{byte(j.ver >> 8), byte(j.ver)}
		ch := (&ref.ClientHello{Version: j.ver, Random: r.Bytes(32), Suites: []uint16{j.suite, 0x00ff}, Compression: []byte{0}, Extensions: c15BlindExtensions(j.variant)}).Marshal()
		cm.Write(wrapRec(ref.RecHandshake, [2]byte{3, 1}, ch))
		// wait for the end of the server's flight (ServerHelloDone), an alert, or the end of the stream
		var acc []byte
		buf := make([]byte, 4096)
		sawDone := false
	read:
		for !sawDone {
			n, err := cm.Read(buf)
			acc = append(acc, buf[:n]...)
			recs, _ := ref.SplitRecords(acc)
			var hs []byte
			for _, rc := range recs {
				if rc.Type == ref.RecAlert {
					break read
				}
				if rc.Type == ref.RecHandshake {
					hs = append(hs, rc.Body...)
				}
			}
			if msgs, ok := splitHS(hs); ok {
				for _, m := range msgs {
					if m[0] == ref.HSServerHelloDone {
						sawDone = true
					}
				}
			}
			if err != nil {
				break
			}
		}
		if sawDone {
			hs := func(b []byte) { cm.Write(wrapRec(ref.RecHandshake, ver, b)) }
			cert := ref.MarshalCertificate([][]byte{pki.rsaCert.Certificate[0]})
			if j.ver == 0x0300 && j.variant == 1 {
				cert = nil
			}
			ckx := ref.HSMsg(ref.HSClientKeyExchange, append([]byte{1, 0}, r.Bytes(256)...)) // RSA-style: 2-byte length + 256 bytes
			switch j.variant {
			case 1:
				cert = ref.MarshalCertificate(nil)
			case 2:
				ckx = ref.HSMsg(ref.HSClientKeyExchange, append([]byte{65, 4}, r.Bytes(64)...)) // ECDHE-style point
			case 3:
				ckx = ref.HSMsg(ref.HSClientKeyExchange, r.Bytes(256)) // SSL 3.0 style: no length prefix
			}
			sig := r.Bytes(256)
			cv := ref.HSMsg(ref.HSCertificateVerify, append([]byte{1, 0}, sig...))
			if j.ver == 0x0303 {
				cv = ref.HSMsg(ref.HSCertificateVerify, append([]byte{4, 1, 1, 0}, sig...)) // sha256/rsa
			}
			if cert != nil {
				hs(cert)
			}
			hs(ckx)
			if j.variant != 4 {
				hs(cv)
			}
			cm.Write(wrapRec(ref.RecCCS, ver, []byte{1}))
			hs(ref.HSMsg(ref.HSFinished, r.Bytes(12)))
		}
		cm.out.close() // the script is over: nothing more will come
		// drain whatever the server still says so that it is never blocked on us (writes never block on these pipes anyway)
		select {
		case <-done:
		case <-time.After(60 * time.Second):
			rep.Violation("C15/Handshake/no-return-after-input-ended/blind-client/"+j.s.name, fmt.Sprintf("version %04x suite %04x variant %d", j.ver, j.suite, j.variant), nil)
			noteSpin()
			cm.Close()
			sm.Close()
			<-done
		}
		cm.Close()
		w := map[string]interface{}{"server": j.s.name, "client_hello_version": fmt.Sprintf("%04x", j.ver), "suite": fmt.Sprintf("%04x", j.suite), "second_flight_variant": j.variant, "reached_second_flight": sawDone, "server_error": errStr(serr)}
		if spanic != nil {
			rep.Violation(fmt.Sprintf("C15/Handshake/panic/blind-client/%s/ver=%04x/%s", strings.SplitN(j.s.name, "/", 2)[0], j.ver, spanic.Func), spanic.Value, w)
		} else if serr == nil {
			rep.Violation(fmt.Sprintf("C15/Handshake/completes-with-deviating-peer/blind-client/ver=%04x", j.ver), "a client that cannot know the keys completed a handshake", w)
		}
		cls := fmt.Sprintf("blind-client/%s/ver=%04x/suite=%04x/variant=%d/second-flight=%v", j.s.name, j.ver, j.suite, j.variant, sawDone)
		if sawDone {
			rep.Eval(cls)
		} else {
			rep.EvalTrivial(cls)
		}
	})
}

// c15RewriteSigAlg rewrites the signature-scheme field(s) of a TLS 1.2 handshake message to the single value v; nil when
// the message has no such field in a place this parser understands.
func c15RewriteSigAlg(m []byte, v uint16) []byte {
	if len(m) < 4 {
		return nil
	}
	body := m[4:]
	vb := []byte{byte(v >> 8), byte(v)}
	rebuild := func(nb []byte) []byte { return ref.HSMsg(m[0], nb) }
	switch m[0] {
	case 12: // ServerKeyExchange, ECDHE: curve_type(1) curve(2) len(1) point sigalg(2) siglen(2) sig
		if len(body) < 4 || body[0] != 3 {
			return nil
		}
		o := 4 + int(body[3])
		if o+2 > len(body) {
			return nil
		}
		nb := append([]byte{}, body...)
		copy(nb[o:], vb)
		return rebuild(nb)
	case 15: // CertificateVerify: sigalg(2) siglen(2) sig
		if len(body) < 4 {
			return nil
		}
		nb := append([]byte{}, body...)
		copy(nb, vb)
		return rebuild(nb)
	case 13: // CertificateRequest: types sigalgs CAs
		if len(body) < 1 {
			return nil
		}
		o := 1 + int(body[0])
		if o+2 > len(body) {
			return nil
		}
		l := int(body[o])<<8 | int(body[o+1])
		if o+2+l > len(body) {
			return nil
		}
		nb := append(append(append([]byte{}, body[:o]...), 0, 2, vb[0], vb[1]), body[o+2+l:]...)
		return rebuild(nb)
	case 1: // ClientHello: the signature_algorithms extension
		o := 2 + 32
		if o >= len(body) {
			return nil
		}
		o += 1 + int(body[o])
		if o+2 > len(body) {
			return nil
		}
		o += 2 + (int(body[o])<<8 | int(body[o+1]))
		if o >= len(body) {
			return nil
		}
		o += 1 + int(body[o])
		if o+2 > len(body) {
			return nil
		}
		extStart := o + 2
		var exts []byte
		found := false
		for p := extStart; p+4 <= len(body); {
			typ := int(body[p])<<8 | int(body[p+1])
			l := int(body[p+2])<<8 | int(body[p+3])
			if p+4+l > len(body) {
				return nil
			}
			if typ == 13 {
				exts = append(exts, 0, 13, 0, 4, 0, 2, vb[0], vb[1])
				found = true
			} else {
				exts = append(exts, body[p:p+4+l]...)
			}
			p += 4 + l
		}
		if !found {
			return nil
		}
		nb := append(append([]byte{}, body[:o]...), byte(len(exts)>>8), byte(len(exts)))
		return rebuild(append(nb, exts...))
	}
	return nil
}

const c15BlindExtVariants = 10

// c15BlindExtensions returns the extensions block of blind-client variant v (nil below 5).
func c15BlindExtensions(v int) []byte {
	ext := func(typ int, data []byte) []byte {
		return append([]byte{byte(typ >> 8), byte(typ), byte(len(data) >> 8), byte(len(data))}, data...)
	}
	sni := func(entries ...[]byte) []byte {
		var list []byte
		for _, e := range entries {
			list = append(list, e...)
		}
		return ext(0, append([]byte{byte(len(list) >> 8), byte(len(list))}, list...))
	}
	name := func(typ byte, n string) []byte {
		return append([]byte{typ, byte(len(n) >> 8), byte(len(n))}, n...)
	}
	groups := ext(10, []byte{0, 2, 0, 23})
	points := ext(11, []byte{1, 0})
	sigs := ext(13, []byte{0, 4, 4, 1, 4, 3})
	base := append(append(append([]byte{}, groups...), points...), sigs...)
	switch v {
	case 5:
		return append(sni(name(1, "x")), base...)
	case 6:
		return append(sni(name(0, "a.example"), name(255, "")), base...)
	case 7:
		return append(sni(name(0, "a.example"), name(0, "b.example")), base...)
	case 8:
		return append(sni(), base...)
	case 9:
		return append(ext(0, nil), base...)
	case 10:
		return append(sni(name(7, ""), name(0, "c.example")), base...)
	case 11:
		return append(append(sni(name(0, "d.example")), sni(name(0, "e.example"))...), base...) // the extension twice
	case 12:
		return append(ext(0xfafa, []byte{1, 2, 3}), base...)
	case 13:
		return append(append(ext(16, []byte{0, 3, 2, 'h', '2'}), ext(13172, nil)...), base...) // ALPN and NPN together
	case 14:
		return append(ext(35, make([]byte, 300)), base...) // a session ticket nobody issued
	}
	return nil
}
