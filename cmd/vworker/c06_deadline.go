package main

import (
	"bytes"
	"fmt"
	"io"
	"net"
	"sync"
	"sync/atomic"
	"time"

	"github.com/tjfoc/gmsm/gmtls"

	"verif/mon"
)

// An application that polls: it reads with a short read deadline, and when the deadline passes it simply reads again.
// The transport here delivers some records in two parts with a pause in between, so that deadlines expire after a
// record header (and part of the body) has arrived. Timeouts are temporary errors: the byte stream delivered across any
// number of them must be exactly what was written. (The pauses drive the workload; the verdict is byte equality only,
// and a run in which no timeout happened to occur is counted as such, not judged.)
func runC06Deadlines(c *Ctx, pki *tlsPKI) {
	rep := c.Rep
	type mode struct {
		name string
		mk   func(r *mon.RNG) (*gmtls.Config, *gmtls.Config)
	}
	modes := []mode{
		{"gmssl/cbc", func(r *mon.RNG) (*gmtls.Config, *gmtls.Config) {
			return &gmtls.Config{GMSupport: gmtls.NewGMSupport(), CipherSuites: []uint16{gmtls.GMTLS_ECC_SM4_CBC_SM3}, ServerName: tlsServerName, RootCAs: pki.pool, Time: func() timeT { return fixedNow }, Rand: mon.NewRNG(r.U64())},
				&gmtls.Config{GMSupport: gmtls.NewGMSupport(), CipherSuites: []uint16{gmtls.GMTLS_ECC_SM4_CBC_SM3}, Certificates: []gmtls.Certificate{pki.sig, pki.enc}, Time: func() timeT { return fixedNow }, Rand: mon.NewRNG(r.U64())}
		}},
		{"gmssl/gcm", func(r *mon.RNG) (*gmtls.Config, *gmtls.Config) {
			return &gmtls.Config{GMSupport: gmtls.NewGMSupport(), CipherSuites: []uint16{gmtls.GMTLS_ECC_SM4_GCM_SM3}, ServerName: tlsServerName, RootCAs: pki.pool, Time: func() timeT { return fixedNow }, Rand: mon.NewRNG(r.U64())},
				&gmtls.Config{GMSupport: gmtls.NewGMSupport(), CipherSuites: []uint16{gmtls.GMTLS_ECC_SM4_GCM_SM3}, Certificates: []gmtls.Certificate{pki.sig, pki.enc}, Time: func() timeT { return fixedNow }, Rand: mon.NewRNG(r.U64())}
		}},
		{"tls12/gcm", func(r *mon.RNG) (*gmtls.Config, *gmtls.Config) {
			return &gmtls.Config{ServerName: tlsServerName, RootCAs: pki.gmStdPool, MinVersion: gmtls.VersionTLS12, Time: func() timeT { return fixedNow }, Rand: mon.NewRNG(r.U64())},
				&gmtls.Config{Certificates: []gmtls.Certificate{pki.rsaCert}, Time: func() timeT { return fixedNow }, Rand: mon.NewRNG(r.U64())}
		}},
	}
	Par(len(modes)*c.Q(2, 12), func(i int) {
		m := modes[i%len(modes)]
		r := c.Rng(fmt.Sprintf("deadline/%d", i))
		cc, sc := m.mk(r)
		// client <-> (a1 | a2) relay (b1 | b2) <-> server
		a1, a2 := net.Pipe()
		b1, b2 := net.Pipe()
		var armed int32
		var splits int32
		var rw sync.WaitGroup
		rw.Add(2)
		go func() { // client -> server: plain copy
			defer rw.Done()
			io.Copy(b1, a2)
			b1.Close()
		}()
		go func() { // server -> client: once armed, larger chunks arrive as header+a few bytes, a pause, the rest
			defer rw.Done()
			buf := make([]byte, 32768)
			for {
				n, err := b1.Read(buf)
				if n > 0 {
					chunk := buf[:n]
					if atomic.LoadInt32(&armed) == 1 && n > 24 {
						cut := 5 + r.Pick(0, 1, 4, 11)
						a2.Write(chunk[:cut])
						time.Sleep(60 * time.Millisecond)
						a2.Write(chunk[cut:])
						atomic.AddInt32(&splits, 1)
					} else {
						a2.Write(chunk)
					}
				}
				if err != nil {
					a2.Close()
					return
				}
			}
		}()
		cli, srv := gmtls.Client(a1, cc), gmtls.Server(b2, sc)
		var herr [2]error
		var hw sync.WaitGroup
		hw.Add(2)
		go func() { defer hw.Done(); herr[0] = cli.Handshake() }()
		go func() { defer hw.Done(); herr[1] = srv.Handshake() }()
		hw.Wait()
		w := map[string]interface{}{"mode": m.name}
		if herr[0] != nil || herr[1] != nil {
			rep.Violation("C06/Handshake/supported-combination-fails/over-net.Pipe/"+m.name, fmt.Sprint(herr[0], " / ", herr[1]), w)
			a1.Close()
			b2.Close()
			return
		}
		atomic.StoreInt32(&armed, 1)
		seed := r.U64()
		const writes, size = 12, 700
		total := writes * size
		go func() {
			for k := 0; k < writes; k++ {
				if _, err := srv.Write(patBytes(seed, 1, k*size, size)); err != nil {
					return
				}
			}
		}()
		var got []byte
		timeouts := 0
		var rerr error
		buf := make([]byte, 4096)
		for len(got) < total && timeouts < 2000 {
			cli.SetReadDeadline(time.Now().Add(15 * time.Millisecond))
			n, err := cli.Read(buf)
			got = append(got, buf[:n]...)
			if err != nil {
				if ne, ok := err.(net.Error); ok && ne.Timeout() {
					timeouts++
					continue
				}
				rerr = err
				break
			}
		}
		cli.SetReadDeadline(time.Time{})
		w["timeouts_seen_by_the_reader"], w["records_delivered_in_two_parts"], w["delivered"], w["read_error"] = timeouts, atomic.LoadInt32(&splits), len(got), errStr(rerr)
		if rerr != nil || !bytes.Equal(got, patBytes(seed, 1, 0, total)) {
			rep.Violation("C06/Read/stream-not-delivered-intact-across-read-deadline-timeouts/"+m.name, fmt.Sprintf("%d of %d bytes, %d timeouts, error %v, first wrong byte at %d", len(got), total, timeouts, rerr, firstMismatch(seed, 1, got)), w)
		}
		if timeouts > 0 {
			rep.Count("sessions_read_across_deadline_timeouts", 1)
			rep.Count("read_deadline_timeouts", int64(timeouts))
		} else {
			rep.Count("deadline_sessions_without_a_timeout(not judged for this purpose)", 1)
		}
		a1.Close()
		b2.Close()
		srv.Close()
		cli.Close()
		rw.Wait()
		rep.Eval(fmt.Sprintf("read-deadlines/%s/timeouts=%v", m.name, timeouts > 0))
	})
}
