package main

import (
	"bytes"
	"fmt"

	"github.com/tjfoc/gmsm/sm4"

	"verif/mon"
	"verif/ref"
)

func init() { registry["C11"] = runC11 }

func runC11(c *Ctx) {
	rep := c.Rep
	defer runFirstOps(c) // fresh child processes whose first gmsm call is one operation of this property
	rep.Meta("cases: every plaintext length 0..1024 x {ECB,CBC,CFB,OFB} x the tier's (key,IV) list (first group uses the package's default zero IV, later groups an IV set through SetIV); inputs live in canary arrays with spare capacity drawn from {0,1,15,16,64}; plaintext tails that look like padding are forced. Oracle: stdlib mode over reference SM4 of the PKCS#7-padded plaintext, length rule, decrypt inverse, caller memory untouched (input, key, IV, spare capacity, guard zones). Distinct non-trivial = distinct (mode, length, group, spare) tuples with length>0.",
		4000, []string{"ref SM4 + crypto/cipher CBC/CFB/OFB", "ref PKCS#7 pad"},
		[]string{"SetIV is process-global: groups run one after another, all calls inside a group only read the IV"})
	groups := c.Q(2, 600)
	type modeT struct {
		name string
		f    func(key, in []byte, enc bool) ([]byte, error)
		want func(key, iv, padded []byte) []byte
	}
	modes := []modeT{
		{"ECB", sm4.Sm4Ecb, func(k, iv, p []byte) []byte { return ref.SM4ECB(k, p, false) }},
		{"CBC", sm4.Sm4Cbc, func(k, iv, p []byte) []byte { return ref.SM4CBC(k, iv, p, false) }},
		{"CFB", sm4.Sm4CFB, func(k, iv, p []byte) []byte { return ref.SM4CFB(k, iv, p, false) }},
		{"OFB", sm4.Sm4OFB, func(k, iv, p []byte) []byte { return ref.SM4OFB(k, iv, p) }},
	}
	spares := []int{0, 1, 15, 16, 64}
	for g := 0; g < groups; g++ {
		rg := c.Rng(fmt.Sprintf("group%d", g))
		key := rg.Bytes(16)
		iv := make([]byte, 16)
		var ivCan *mon.Canary
		ivClass := "default-zero-IV"
		if g > 0 {
			iv = rg.Bytes(16)
			if g == 1 {
				iv[3], iv[15] = 0xff, 0xff
			}
			// the IV slice handed to SetIV has plenty of spare capacity in every other group (an append onto the stored IV
			// would then land in the caller's memory instead of reallocating)
			ivCan = mon.NewCanary(iv, []int{8, 2100}[g%2])
			if err := sm4.SetIV(ivCan.Slice()); err != nil {
				rep.Violation("C11/SetIV/rejects-16-byte-iv", err.Error(), nil)
			}
			ivClass = "SetIV"
		}
		Par(1025*len(modes), func(idx int) {
			n := idx / len(modes)
			m := modes[idx%len(modes)]
			r := c.Rng(fmt.Sprintf("g%d/%s/%d", g, m.name, n))
			pt := r.Bytes(n)
			// plaintexts whose tail looks like padding
			tail := "random-tail"
			if n > 0 {
				switch r.Intn(4) {
				case 0:
					pt[n-1] = 1
					tail = "tail=01"
				case 1:
					if n >= 2 {
						pt[n-1], pt[n-2] = 2, 2
						tail = "tail=0202"
					}
				case 2:
					if n >= 16 {
						for i := n - 16; i < n; i++ {
							pt[i] = 16
						}
						tail = "tail=16x10"
					}
				}
			}
			spare := spares[(n+idx)%len(spares)]
			inC := mon.NewCanary(pt, spare)
			keyC := mon.NewCanary(key, 4)
			w := map[string]interface{}{"mode": m.name, "key": mon.Hex(key), "iv": mon.Hex(iv), "plaintext": mon.Hex(pt), "len": n, "spare_cap": spare}
			var ct []byte
			var err error
			if pi := mon.Guard(func() { ct, err = m.f(keyC.Slice(), inC.Slice(), true); keep("sm4."+m.name+"(encrypt)", ct) }); pi != nil {
				rep.Violation("C11/"+m.name+"/encrypt-panic/"+pi.Func, pi.Value, w)
				rep.Eval("panic")
				return
			}
			if err != nil {
				rep.Violation("C11/"+m.name+"/encrypt-error", err.Error(), w)
				return
			}
			if s := inC.Check(); s != "" {
				sym := "input-modified"
				if len(s) > 5 && s[:5] == "spare" {
					sym = "spare-capacity-written"
				}
				rep.Violation("C11/"+m.name+"/encrypt/"+sym, fmt.Sprintf("len=%d spare=%d: %s", n, spare, s), w)
			}
			if s := keyC.Check(); s != "" {
				rep.Violation("C11/"+m.name+"/encrypt/key-memory-written", s, w)
			}
			wantLen := 16 * (n/16 + 1)
			if len(ct) != wantLen {
				rep.Violation("C11/"+m.name+"/encrypt/length-rule", fmt.Sprintf("len=%d ciphertext len %d want %d", n, len(ct), wantLen), w)
			}
			want := m.want(key, iv, ref.PKCS7Pad(pt, 16))
			if !bytes.Equal(ct, want) {
				rep.Violation("C11/"+m.name+"/encrypt/ciphertext-mismatch", fmt.Sprintf("len=%d iv=%s got %s want %s", n, ivClass, mon.Hex(ct), mon.Hex(want)), w)
			}
			// decrypt the *reference* ciphertext (so a consistent enc/dec pair of wrong functions cannot hide)
			ctC := mon.NewCanary(want, spare)
			var back []byte
			if pi := mon.Guard(func() { back, err = m.f(keyC.Slice(), ctC.Slice(), false); keep("sm4."+m.name+"(decrypt)", back) }); pi != nil {
				rep.Violation("C11/"+m.name+"/decrypt-panic/"+pi.Func, pi.Value, w)
				return
			}
			if err != nil || !bytes.Equal(back, pt) {
				rep.Violation("C11/"+m.name+"/decrypt/not-inverse", fmt.Sprintf("len=%d err=%v got %s", n, err, mon.Hex(back)), w)
			}
			if s := ctC.Check(); s != "" {
				rep.Violation("C11/"+m.name+"/decrypt/caller-memory-written", s, w)
			}
			cls := fmt.Sprintf("%s/%s/len=%d/spare=%d/%s", m.name, ivClass, n, spare, tail)
			if n == 0 {
				rep.EvalTrivial(cls)
			} else {
				rep.Eval(cls)
			}
			if g == 1 && n == 37 {
				rep.Sample(map[string]interface{}{"mode": m.name, "key": mon.Hex(key), "iv": mon.Hex(iv), "plaintext": mon.Hex(pt), "spare_cap": spare, "ciphertext": mon.Hex(ct)})
			}
		})
		if ivCan != nil {
			if s := ivCan.Check(); s != "" {
				rep.Violation("C11/SetIV/iv-memory-written", s, map[string]interface{}{"iv": mon.Hex(iv)})
			}
		}
	}
	rep.Exhaustive(fmt.Sprintf("plaintext lengths 0..1024 x 4 modes x %d (key,IV) groups", groups))
	// buffer-reuse histories (serial, one IV): consecutive helper calls receive the same key and plaintext buffers whose
	// contents are edited in place or refilled in between, with encrypt/decrypt and the four modes mixed; every call must
	// answer for the current contents, and calls must not influence one another
	{
		rh := c.Rng("reuse")
		ivCopy := rh.Bytes(16)
		hIV := mon.NewCanary(ivCopy, 4096)
		iv := hIV.Slice()
		sm4.SetIV(iv)
		for h := 0; h < c.Q(80, 4000); h++ {
			key, pt := rh.Bytes(16), rh.Bytes(rh.Pick(0, 1, 15, 16, 17, 31, 32, 48, 100))
			var trace []string
			for st := 0; st < 2+rh.Intn(6); st++ {
				switch rh.Intn(4) {
				case 0:
					key[rh.Intn(16)] ^= 1 << uint(rh.Intn(8))
					trace = append(trace, "key-edited")
				case 1:
					rh.Fill(key)
					trace = append(trace, "key-refilled")
				case 2:
					if len(pt) > 0 {
						pt[rh.Intn(len(pt))] ^= 0x20
						trace = append(trace, "plaintext-edited")
					}
				}
				if rh.Intn(4) == 0 {
					// a rejected SetIV (wrong length) must leave the accepted IV in force
					bad := rh.Bytes(rh.Pick(0, 1, 15, 17, 32))
					if err := sm4.SetIV(bad); err == nil {
						rep.Violation("C11/SetIV/accepts-wrong-length", fmt.Sprintf("%d bytes", len(bad)), nil)
						sm4.SetIV(iv)
					}
					trace = append(trace, fmt.Sprintf("rejected-SetIV(%d bytes)", len(bad)))
				}
				m := modes[rh.Intn(len(modes))]
				trace = append(trace, m.name)
				want := m.want(key, ivCopy, ref.PKCS7Pad(pt, 16))
				var ct, back []byte
				var e1, e2 error
				w := map[string]interface{}{"history": append([]string{}, trace...), "key": mon.Hex(key), "iv": mon.Hex(ivCopy), "plaintext": mon.Hex(pt)}
				if pi := mon.Guard(func() {
					ct, e1 = m.f(key, pt, true)
					back, e2 = m.f(key, want, false)
				}); pi != nil {
					rep.Violation("C11/history/panic/"+pi.Func, pi.Value, w)
					break
				}
				if e1 != nil || !bytes.Equal(ct, want) {
					rep.Violation("C11/history/"+m.name+"/encrypt-does-not-follow-current-buffer-contents", fmt.Sprintf("after %v err=%v", trace, e1), w)
					break
				}
				if e2 != nil || !bytes.Equal(back, pt) {
					rep.Violation("C11/history/"+m.name+"/decrypt-does-not-follow-current-buffer-contents", fmt.Sprintf("after %v err=%v", trace, e2), w)
					break
				}
				if sc := hIV.Check(); sc != "" {
					rep.Violation("C11/history/iv-memory-written", fmt.Sprintf("%s after %v", sc, trace), w)
					break
				}
			}
			rep.Eval(fmt.Sprintf("history/buffer-reuse/len=%d", len(pt)))
		}
	}
	// key length errors
	for _, n := range []int{0, 1, 15, 17, 24, 32} {
		for _, m := range modes {
			var err error
			pi := mon.Guard(func() { _, err = m.f(make([]byte, n), []byte("hello"), true) })
			if pi != nil {
				rep.Violation("C11/"+m.name+"/bad-key-panic/"+pi.Func, pi.Value, map[string]interface{}{"keylen": n})
			} else if err == nil {
				rep.Violation("C11/"+m.name+"/accepts-wrong-key-length", fmt.Sprint(n), map[string]interface{}{"keylen": n})
			}
			rep.EvalTrivial(fmt.Sprintf("%s/badkey/%d", m.name, n))
		}
	}
	// many keys, then the first ones again (serial, under one IV): a helper may remember something per key; what it answers
	// for a key seen thousands of keys ago must still be the standard mode
	{
		rk := c.Rng("many-keys")
		iv := rk.Bytes(16)
		sm4.SetIV(iv)
		nKeys := c.Q(3000, 60000)
		keys := make([][]byte, nKeys)
		check := func(i int, phase string) bool {
			m := modes[i%len(modes)]
			pt := rk.Bytes(1 + i%40)
			want := m.want(keys[i], iv, ref.PKCS7Pad(pt, 16))
			var ct, back []byte
			var e1, e2 error
			if pi := mon.Guard(func() {
				ct, e1 = m.f(keys[i], pt, true)
				back, e2 = m.f(keys[i], want, false)
			}); pi != nil || e1 != nil || e2 != nil || !bytes.Equal(ct, want) || !bytes.Equal(back, pt) {
				rep.Violation("C11/"+m.name+"/many-keys/differs-from-standard-mode/"+phase, fmt.Sprintf("key %d of %d: %v %v %v", i, nKeys, pi, e1, e2), map[string]interface{}{"key": mon.Hex(keys[i]), "iv": mon.Hex(iv), "plaintext": mon.Hex(pt), "key_index": i})
				return false
			}
			return true
		}
		ok := true
		for i := 0; i < nKeys && ok; i++ {
			keys[i] = rk.Bytes(16)
			ok = check(i, "first-use")
		}
		for i := 0; i < nKeys && ok; i += 1 + i/16 {
			ok = check(i, "revisit-after-all-other-keys")
		}
		rep.Eval("many-keys/then-revisit")
	}
	// restore the default IV for anything else in this process
	sm4.SetIV(make([]byte, 16))
}
