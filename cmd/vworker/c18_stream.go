package main

import (
	"bytes"
	"errors"
	"fmt"
	"net"
	"time"

	"github.com/tjfoc/gmsm/gmtls"

	"verif/mon"
	"verif/ref"
)

// C18, handshake parsers in context: a whole peer flight (the bytes one side of a handshake wrote) is a byte string that an
// endpoint decodes — records, handshake framing, message bodies, key-exchange parameters, certificates. The endpoint gets
// the bytes from a canned connection (its own writes are discarded) and must return, never panic.

type cannedConn struct{ r *bytes.Reader }

func (c *cannedConn) Read(p []byte) (int, error) {
	if c.r.Len() == 0 {
		return 0, errors.New("canned stream ended")
	}
	return c.r.Read(p)
}
func (c *cannedConn) Write(p []byte) (int, error)      { return len(p), nil }
func (c *cannedConn) Close() error                     { return nil }
func (c *cannedConn) LocalAddr() net.Addr              { return memAddr("canned") }
func (c *cannedConn) RemoteAddr() net.Addr             { return memAddr("canned-peer") }
func (c *cannedConn) SetDeadline(time.Time) error      { return nil }
func (c *cannedConn) SetReadDeadline(time.Time) error  { return nil }
func (c *cannedConn) SetWriteDeadline(time.Time) error { return nil }

func streamOf(events []ref.WireEvent, fromClient bool) []byte {
	var out []byte
	for _, e := range events {
		if e.FromClient == fromClient {
			out = append(out, e.Data...)
		}
	}
	return out
}

// c18StreamDecoders records honest (and one scripted) flights and returns the endpoints that decode them.
func c18StreamDecoders(c *Ctx) []decoder {
	r := c.Rng("c18stream")
	pki, err := newTLSPKI(r, false)
	if err != nil {
		return nil
	}
	fixed := func() timeT { return fixedNow }
	gmS := func() *gmtls.Config {
		return &gmtls.Config{GMSupport: gmtls.NewGMSupport(), Certificates: []gmtls.Certificate{pki.sig, pki.enc}, Time: fixed, ClientAuth: gmtls.RequestClientCert, ClientCAs: pki.pool}
	}
	gmC := func() *gmtls.Config {
		return &gmtls.Config{GMSupport: gmtls.NewGMSupport(), ServerName: tlsServerName, RootCAs: pki.pool, Time: fixed, Certificates: []gmtls.Certificate{pki.cliSig, pki.cliEnc}}
	}
	tlsS := func() *gmtls.Config {
		return &gmtls.Config{Certificates: []gmtls.Certificate{pki.rsaCert}, Time: fixed, ClientAuth: gmtls.RequestClientCert}
	}
	tlsC := func() *gmtls.Config {
		return &gmtls.Config{ServerName: tlsServerName, RootCAs: pki.gmStdPool, Time: fixed, Certificates: []gmtls.Certificate{pki.rsaCert}}
	}
	autoS := func() *gmtls.Config {
		cfg := &gmtls.Config{Time: fixed}
		sup := gmtls.NewGMSupport()
		sup.EnableMixMode()
		cfg.GMSupport = sup
		cfg.GetCertificate = func(info *gmtls.ClientHelloInfo) (*gmtls.Certificate, error) {
			for _, v := range info.SupportedVersions {
				if v == gmtls.VersionGMSSL {
					return &pki.sig, nil
				}
			}
			return &pki.rsaCert, nil
		}
		cfg.GetKECertificate = func(*gmtls.ClientHelloInfo) (*gmtls.Certificate, error) { return &pki.enc, nil }
		return cfg
	}
	var gmSrvFlight, gmCliStream, tlsSrvFlight, tlsCliStream, ecdheFlight []byte
	if out := handshakePair(gmC(), gmS(), nil); out.cli.completed {
		ev := out.log.snapshot()
		gmSrvFlight, gmCliStream = streamOf(ev, false), streamOf(ev, true)
	}
	if out := handshakePair(tlsC(), tlsS(), nil); out.cli.completed {
		ev := out.log.snapshot()
		tlsSrvFlight, tlsCliStream = streamOf(ev, false), streamOf(ev, true)
	}
	// a scripted GM server that selects an ECDHE-SM2 suite and sends an ECDHE-style ServerKeyExchange (C15's script)
	{
		t := c15Target{name: "gm-client", peerIsClient: false}
		res := runScript(t, deviation{ref.StServerKeyExchange, "ecdhe-ske", 7, 0, nil}, pki, r.U64(), gmC(), ref.SuiteECCSM4CBC)
		ecdheFlight = streamOf(res.wire, false)
	}
	run := func(client bool, cfg func() *gmtls.Config) func(b []byte) {
		return func(b []byte) {
			conn := &cannedConn{r: bytes.NewReader(b)}
			if client {
				gmtls.Client(conn, cfg()).Handshake()
			} else {
				gmtls.Server(conn, cfg()).Handshake()
			}
		}
	}
	nzb := func(bs ...[]byte) [][]byte {
		var out [][]byte
		for _, b := range bs {
			if len(b) > 0 {
				out = append(out, b)
			}
		}
		return out
	}
	return []decoder{
		{name: "gmtls.Client(GM)<-server-flight", f: run(true, gmC), corpus: nzb(gmSrvFlight, ecdheFlight), heavy: true, tlsStream: true},
		{name: "gmtls.Client(TLS)<-server-flight", f: run(true, tlsC), corpus: nzb(tlsSrvFlight), heavy: true, tlsStream: true},
		{name: "gmtls.Server(GM)<-client-stream", f: run(false, gmS), corpus: nzb(gmCliStream), heavy: true, tlsStream: true},
		{name: "gmtls.Server(TLS)<-client-stream", f: run(false, tlsS), corpus: nzb(tlsCliStream), heavy: true, tlsStream: true},
		{name: "gmtls.Server(auto)<-client-stream", f: run(false, autoS), corpus: nzb(gmCliStream, tlsCliStream), heavy: true, tlsStream: true},
	}
}

// tlsStreamEdits: structure-preserving edits of the cleartext handshake messages of a recorded stream — the body of one
// message is cut to n bytes (every n, or a stride), or one byte of it is changed, and the handshake and record lengths
// are recomputed, so that the edit reaches the message parser instead of dying in the framing.
func tlsStreamEdits(stream []byte, stride int, r *mon.RNG) [][]byte {
	recs, rest := ref.SplitRecords(stream)
	if len(recs) == 0 {
		return nil
	}
	type piece struct {
		hdr  [3]byte // type, version
		body []byte
		hs   bool
	}
	var ps []piece
	seenCCS := false
	for _, rc := range recs {
		p := piece{hdr: [3]byte{rc.Type, byte(rc.Version >> 8), byte(rc.Version)}, body: rc.Body}
		if rc.Type == ref.RecCCS {
			seenCCS = true
		}
		if rc.Type == ref.RecHandshake && !seenCCS {
			if msgs, ok := splitHS(rc.Body); ok {
				for _, m := range msgs {
					ps = append(ps, piece{hdr: p.hdr, body: m, hs: true})
				}
				continue
			}
		}
		ps = append(ps, p)
	}
	build := func(k int, repl []byte) []byte {
		var out []byte
		for i, p := range ps {
			b := p.body
			if i == k {
				b = repl
			}
			out = append(out, wrapRec(p.hdr[0], [2]byte{p.hdr[1], p.hdr[2]}, b)...)
		}
		return append(out, rest...)
	}
	var out [][]byte
	for k, p := range ps {
		if !p.hs || len(p.body) < 4 {
			continue
		}
		body := p.body[4:]
		stride := stride
		if len(body) < 300 {
			stride = 1 // short messages (hellos, key exchanges, verify, finished) get every length and every position
		}
		for n := 0; n < len(body); n += stride {
			out = append(out, build(k, ref.HSMsg(p.body[0], body[:n])))
		}
		for n := len(body) - 3; n < len(body); n++ { // the last few lengths always
			if n >= 0 {
				out = append(out, build(k, ref.HSMsg(p.body[0], body[:n])))
			}
		}
		for pos := 0; pos < len(body); pos += stride {
			m := append([]byte{}, body...)
			m[pos] = []byte{0, 0xff, m[pos] + 1, m[pos] - 1}[r.Intn(4)]
			out = append(out, build(k, ref.HSMsg(p.body[0], m)))
		}
		out = append(out, build(k, ref.HSMsg(p.body[0], append(append([]byte{}, body...), 0))))
	}
	return out
}

var _ = fmt.Sprint
