package main

import (
	"bytes"
	"fmt"
	"runtime"
	"sort"

	"verif/mon"
)

// Scale derivations of valid encodings.

// derWiden returns, for every "SEQUENCE OF / SET OF"-looking node of v (a constructed node whose children all carry the
// same constructed tag), v with that node's shortest child repeated until the whole is about target bytes long. Each copy gets
// its first OBJECT IDENTIFIER replaced by a distinct one (1.3.6.1.4.1.99999.7.i), so that checks for duplicates — of
// extensions, attributes — do not end the parse at the second copy. At most max results.
func derWiden(v []byte, target, max int) [][]byte {
	nodes, ok := derParse(v, 0)
	if !ok || len(nodes) != 1 {
		return nil
	}
	var sites []*derNode
	derWalk(nodes, func(n *derNode) {
		if len(n.children) == 0 || n.wrapper || len(n.tag) != 1 || n.tag[0]&0x20 == 0 {
			return
		}
		t := n.children[0].tag
		if len(t) != 1 || t[0]&0x20 == 0 {
			return
		}
		for _, ch := range n.children {
			if !bytes.Equal(ch.tag, t) {
				return
			}
		}
		sites = append(sites, n)
	})
	// the longest lists first
	sort.SliceStable(sites, func(a, b int) bool { return len(sites[a].children) > len(sites[b].children) })
	var out [][]byte
	for si, site := range sites {
		if len(out) >= max {
			break
		}
		_ = si
		// the shortest member is the one to repeat: the most copies per byte
		enc := site.children[0].encode()
		for _, ch := range site.children[1:] {
			if e := ch.encode(); len(e) < len(enc) {
				enc = e
			}
		}
		if len(enc) == 0 || len(enc) > 4096 {
			continue
		}
		copies := target / len(enc)
		if copies > 70000 {
			copies = 70000
		}
		if copies < 100 {
			continue
		}
		orig := site.children
		kids := append([]*derNode{}, orig...)
		for i := 0; i < copies; i++ {
			cp, ok := derParse(enc, 0)
			if !ok || len(cp) != 1 {
				break
			}
			done := false
			derWalk(cp, func(n *derNode) {
				if !done && len(n.tag) == 1 && n.tag[0] == 0x06 {
					n.content = append([]byte{0x2b, 0x06, 0x01, 0x04, 0x01, 0x86, 0x8d, 0x1f, 0x07}, base128(i+1)...)
					done = true
				}
			})
			kids = append(kids, cp[0])
		}
		site.children = kids
		out = append(out, nodes[0].encode())
		site.children = orig
	}
	return out
}

func base128(v int) []byte {
	var b []byte
	for {
		b = append([]byte{byte(v & 0x7f)}, b...)
		v >>= 7
		if v == 0 {
			break
		}
	}
	for i := 0; i < len(b)-1; i++ {
		b[i] |= 0x80
	}
	return b
}

// c18Retention: a decoder may be called any number of times; what it keeps alive afterwards has to be bounded by something
// other than the inputs it has seen. Each decoder gets a series of distinct bloated variants of its valid encodings (slack in
// front — PEM readers skip it —, behind, and after the first byte), the results are dropped, and the live heap after a
// collection is compared with the live heap before the series: it may grow by less than half of what the series fed in.
func c18Retention(c *Ctx, decs []decoder) {
	rep := c.Rep
	const slack = 192 << 10
	const series = 48
	live := func() uint64 {
		var ms runtime.MemStats
		runtime.GC()
		runtime.GC()
		runtime.ReadMemStats(&ms)
		return ms.HeapAlloc
	}
	r := c.Rng("retention")
	for di := range decs {
		d := &decs[di]
		if len(d.corpus) == 0 || d.stretch || d.heavy {
			continue
		}
		v := d.corpus[0]
		if len(v) == 0 {
			continue
		}
		for _, style := range []string{"slack-in-front", "slack-behind", "zeros-after-first-byte"} {
			before := live()
			for i := 0; i < series; i++ {
				pad := make([]byte, slack+i)
				var in []byte
				switch style {
				case "slack-in-front":
					for j := range pad {
						pad[j] = 'a' + byte((i+j)%26)
					}
					pad[len(pad)-1] = '\n'
					copy(pad, fmt.Sprintf("note %d %x\n", i, r.U64()))
					in = append(pad, v...)
				case "slack-behind":
					for j := range pad {
						pad[j] = byte(i)
					}
					in = append(append([]byte{}, v...), pad...)
				default:
					in = append(append([]byte{v[0]}, pad...), v[1:]...)
					in[1+i%slack] ^= 0 // zeros; the series differs in length
				}
				mon.Guard(func() { d.f(in) })
			}
			after := live()
			if after > before && after-before > series*slack/2 {
				rep.Violation("C18/"+d.name+"/memory-retained-across-calls/"+style, fmt.Sprintf("%d calls with distinct inputs of about %d KiB, results dropped: live heap grew by %d KiB", series, slack>>10, (after-before)>>10),
					map[string]interface{}{"decoder": d.name, "style": style, "calls": series, "input_bytes": slack})
			}
			rep.Eval("retention/" + d.name + "/" + style)
		}
	}
}
