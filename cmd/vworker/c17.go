package main

import (
	"bytes"
	"crypto/ecdsa"
	"crypto/rsa"
	"crypto/x509/pkix"
	"encoding/asn1"
	"fmt"
	"math/big"
	"strings"
	"time"

	"github.com/tjfoc/gmsm/pkcs12"
	"github.com/tjfoc/gmsm/sm2"
	gx509 "github.com/tjfoc/gmsm/x509"

	"verif/mon"
	"verif/ref"
)

func init() { registry["C17"] = runC17 }

// ---- mirror ASN.1 structures for harness-built SM2 signed data (RFC 2315 / GM/T 0010 shapes) ----
type p7ContentInfo struct {
	ContentType asn1.ObjectIdentifier
	Content     asn1.RawValue `asn1:"explicit,optional,tag:0"`
}
type p7IssuerAndSerial struct {
	IssuerName   asn1.RawValue
	SerialNumber *big.Int
}
type p7Attribute struct {
	Type  asn1.ObjectIdentifier
	Value asn1.RawValue `asn1:"set"`
}
type p7SignerInfo struct {
	Version                   int `asn1:"default:1"`
	IssuerAndSerialNumber     p7IssuerAndSerial
	DigestAlgorithm           pkix.AlgorithmIdentifier
	AuthenticatedAttributes   []p7Attribute `asn1:"optional,tag:0"`
	DigestEncryptionAlgorithm pkix.AlgorithmIdentifier
	EncryptedDigest           []byte
}
type p7RawCerts struct{ Raw asn1.RawContent }
type p7SignedData struct {
	Version                    int                        `asn1:"default:1"`
	DigestAlgorithmIdentifiers []pkix.AlgorithmIdentifier `asn1:"set"`
	ContentInfo                p7ContentInfo
	Certificates               p7RawCerts     `asn1:"optional,tag:0"`
	SignerInfos                []p7SignerInfo `asn1:"set"`
}

var (
	oidP7Data       = asn1.ObjectIdentifier{1, 2, 840, 113549, 1, 7, 1}
	oidP7Signed     = asn1.ObjectIdentifier{1, 2, 840, 113549, 1, 7, 2}
	oidP7SMSigned   = asn1.ObjectIdentifier{1, 2, 156, 10197, 6, 1, 4, 2, 2}
	oidAttrCT       = asn1.ObjectIdentifier{1, 2, 840, 113549, 1, 9, 3}
	oidAttrMD       = asn1.ObjectIdentifier{1, 2, 840, 113549, 1, 9, 4}
	oidSM3Hash      = asn1.ObjectIdentifier{1, 2, 156, 10197, 1, 401}
	oidSM3HashNoKey = asn1.ObjectIdentifier{1, 2, 156, 10197, 1, 401, 1}
	oidSM2SM3       = asn1.ObjectIdentifier{1, 2, 156, 10197, 1, 501}
)

func p7AttrSetDER(attrs []p7Attribute) []byte {
	enc, _ := asn1.Marshal(struct {
		A []p7Attribute `asn1:"set"`
	}{attrs})
	var raw asn1.RawValue
	asn1.Unmarshal(enc, &raw)
	return raw.Bytes
}

// buildSM2SignedData assembles a signed-data object signed with an SM2 key. signer signs the message bytes
// (SM2 with the default ID computes ZA||M inside).
func buildSM2SignedData(content []byte, cert *gx509.Certificate, sign func(msg []byte) []byte, withAttrs, attached bool, digestOID, ctOID asn1.ObjectIdentifier) ([]byte, []byte) {
	si := p7SignerInfo{Version: 1,
		IssuerAndSerialNumber:     p7IssuerAndSerial{IssuerName: asn1.RawValue{FullBytes: cert.RawIssuer}, SerialNumber: cert.SerialNumber},
		DigestAlgorithm:           pkix.AlgorithmIdentifier{Algorithm: digestOID},
		DigestEncryptionAlgorithm: pkix.AlgorithmIdentifier{Algorithm: oidSM2SM3},
	}
	signed := content
	if withAttrs {
		ct, _ := asn1.Marshal(oidP7Data)
		md, _ := asn1.Marshal(ref.SM3(content))
		si.AuthenticatedAttributes = []p7Attribute{
			{Type: oidAttrCT, Value: asn1.RawValue{Tag: 17, IsCompound: true, Bytes: ct}},
			{Type: oidAttrMD, Value: asn1.RawValue{Tag: 17, IsCompound: true, Bytes: md}},
		}
		signed = p7AttrSetDER(si.AuthenticatedAttributes)
	}
	si.EncryptedDigest = sign(signed)
	sd := p7SignedData{Version: 1, DigestAlgorithmIdentifiers: []pkix.AlgorithmIdentifier{{Algorithm: digestOID}},
		ContentInfo: p7ContentInfo{ContentType: oidP7Data}, SignerInfos: []p7SignerInfo{si}}
	if attached {
		oct, _ := asn1.Marshal(content)
		sd.ContentInfo.Content = asn1.RawValue{Class: 2, Tag: 0, Bytes: oct, IsCompound: true}
	}
	certsWrapped, _ := asn1.Marshal(asn1.RawValue{Class: 2, Tag: 0, Bytes: cert.Raw, IsCompound: true})
	sd.Certificates = p7RawCerts{Raw: certsWrapped}
	inner, _ := asn1.Marshal(sd)
	out, _ := asn1.Marshal(p7ContentInfo{ContentType: ctOID, Content: asn1.RawValue{Class: 2, Tag: 0, Bytes: inner, IsCompound: true}})
	return out, signed
}

func runC17(c *Ctx) {
	rep := c.Rep
	rep.Meta("cases: enveloped data for 1..3 SM2 recipients (both content ciphers, both SM2 orderings) and RSA recipients, content lengths by class to 64 KiB, opened by every recipient, by a non-recipient, with the wrong key, the wrong ordering and a key of the other type; signed data built by the library (RSA, attached/detached, extra attributes) and by the harness (SM2, signature by gmsm and by the reference, with/without signed attributes, both SM3 OIDs), untouched and with content / attribute / signature / certificate changes; PKCS#12 Encode/Decode/DecodeAll/ToPEM with password classes and CA chains; single-byte substitutions of every container (all positions in thorough). Oracle: value equality for positives; for negatives error-or-identical-result, never different content/key/certificate and never a successful verification with changed signed bytes. Distinct non-trivial = distinct (container kind, algorithm, length class, recipient/tamper class).",
		800, []string{"ground truth contents/keys", "ref SM2 sign (for harness-built signed data)", "encoding/asn1 mirror structures"},
		[]string{"ContentEncryptionAlgorithm is a package variable: phases run one after another"})
	r := c.Rng("c17")
	// PKI
	type rcpt struct {
		k *sm2.PrivateKey
		c *gx509.Certificate
	}
	// recipients 0..3 are issued by ONE common CA (same issuer name, distinct serials) so that recipient lookup must
	// really match issuer AND serial; recipient 4 comes from another CA but reuses recipient 1's serial number.
	var rc []rcpt
	caKey := newSM2Key(r)
	ca, _, err := issueSM2(certSpec{cn: "C17 recipients CA", serial: 7, isCA: true}, &caKey.PublicKey, nil, caKey, r)
	ca2Key := newSM2Key(r)
	ca2, _, err2 := issueSM2(certSpec{cn: "C17 other CA", serial: 8, isCA: true}, &ca2Key.PublicKey, nil, ca2Key, r)
	if err != nil || err2 != nil {
		rep.Violation("C17/harness/cannot-create-recipient-CA", fmt.Sprint(err, err2), nil)
		return
	}
	for i := 0; i < 5; i++ {
		k := newSM2Key(r)
		issuer, issuerKey, serial := ca, caKey, int64(40+i)
		if i == 4 {
			issuer, issuerKey, serial = ca2, ca2Key, 41
		}
		cc, _, e := issueSM2(certSpec{cn: fmt.Sprintf("rcpt%d", i), serial: serial, dns: []string{fmt.Sprintf("rcpt%d", i)}}, &k.PublicKey, issuer, issuerKey, r)
		if e != nil {
			rep.Violation("C17/harness/cannot-create-recipient", e.Error(), nil)
			return
		}
		rc = append(rc, rcpt{k, cc})
	}
	rk1, rk2 := cachedRSA()
	mkRSACert := func(k *rsa.PrivateKey, serial int64) *gx509.Certificate {
		_, der, err := issueStd(fmt.Sprintf("rsa%d", serial), serial, false, nil, &k.PublicKey, nil, k, r)
		if err != nil {
			return nil
		}
		cc, err := gx509.ParseCertificate(der)
		if err != nil {
			return nil
		}
		return cc
	}
	rsaC1, rsaC2 := mkRSACert(rk1, 71), mkRSACert(rk2, 72)

	lens := []int{0, 1, 7, 8, 9, 15, 16, 17, 31, 32, 33, 100, 1000, 4096}
	if c.Thorough {
		lens = append(lens, 65535, 65536)
	} else {
		lens = append(lens, 20000)
	}
	lcls := func(n int) string {
		switch {
		case n == 0:
			return "0"
		case n%8 == 0:
			return "k*8"
		case n > 4096:
			return "big"
		default:
			return "other"
		}
	}

	// ---- enveloped data, SM2 recipients
	for _, alg := range []int{gx509.EncryptionAlgorithmDESCBC, gx509.EncryptionAlgorithmAES128GCM} {
		gx509.ContentEncryptionAlgorithm = alg
		algName := map[int]string{gx509.EncryptionAlgorithmDESCBC: "DES-CBC", gx509.EncryptionAlgorithmAES128GCM: "AES-128-GCM"}[alg]
		type ecase struct{ n, mode, nr int }
		var ecs []ecase
		for _, n := range lens {
			for mode := 0; mode < 2; mode++ {
				ecs = append(ecs, ecase{n, mode, 1 + (n+mode)%3})
			}
		}
		Par(len(ecs), func(i int) {
			e := ecs[i]
			rr := c.Rng(fmt.Sprintf("env%d/%d", alg, i))
			content := rr.Bytes(e.n)
			// recipient set: a rotation of {0,1,2} and, for some cases, the same-serial/other-issuer recipient 4 in front of 1
			order := []int{0, 1, 2}
			if i%3 == 1 {
				order = []int{2, 0, 1}
			} else if i%3 == 2 {
				order = []int{4, 1, 0}
			}
			order = order[:e.nr]
			var certs []*gx509.Certificate
			for _, k := range order {
				certs = append(certs, rc[k].c)
			}
			cls := fmt.Sprintf("enveloped/sm2/%s/mode=%d/recipients=%d/len=%s", algName, e.mode, e.nr, lcls(e.n))
			w := map[string]interface{}{"alg": algName, "mode": e.mode, "recipients": e.nr, "content": mon.Hex(content)}
			var der []byte
			var err error
			cC := mon.NewCanary(content, 32)
			if pi := mon.Guard(func() { der, err = gx509.PKCS7EncryptSM2(cC.Slice(), certs, e.mode) }); pi != nil || err != nil {
				rep.Violation("C17/PKCS7EncryptSM2/fails/"+algName, fmt.Sprint(pi, err), w)
				rep.Eval(cls)
				return
			}
			if s := cC.Check(); strings.HasPrefix(s, "input byte") {
				// the content itself (within its length) is no longer what the caller enveloped: the next envelope made from
				// the same slice would carry something else
				rep.Violation("C17/PKCS7EncryptSM2/changes-the-callers-content/"+algName, s, w)
			} else if s != "" {
				rep.Count("observations_outside_property/PKCS7EncryptSM2_writes_pad_into_caller_capacity", 1)
			}
			if i%4 == 0 {
				// the same slice enveloped a second time (another recipient list): still the same content
				der2, e2 := gx509.PKCS7EncryptSM2(cC.Slice(), []*gx509.Certificate{rc[3].c}, e.mode)
				if e2 == nil {
					if q, e3 := gx509.ParsePKCS7(der2); e3 == nil {
						if got, e4 := q.DecryptSM2(rc[3].c, rc[3].k, e.mode); e4 != nil || !bytes.Equal(got, content) {
							rep.Violation("C17/PKCS7EncryptSM2/second-envelope-of-the-same-slice-carries-other-content/"+algName, fmt.Sprint(e4), w)
						}
					}
				}
			}
			w["der"] = mon.Hex(der)
			var p7 *gx509.PKCS7
			if pi := mon.Guard(func() { p7, err = gx509.ParsePKCS7(der) }); pi != nil || err != nil {
				rep.Violation("C17/ParsePKCS7/fails-on-own-output", fmt.Sprint(pi, err), w)
				rep.Eval(cls)
				return
			}
			for pos, k := range order {
				var got []byte
				if pi := mon.Guard(func() { got, err = p7.DecryptSM2(rc[k].c, rc[k].k, e.mode) }); pi != nil || err != nil || !bytes.Equal(got, content) {
					rep.Violation("C17/DecryptSM2/recipient-cannot-recover/"+algName, fmt.Sprintf("recipient #%d (position %d of %v): %v %v", k, pos, order, pi, err), w)
				}
			}
			neg := func(name string, cert *gx509.Certificate, key interface{}, mode int) {
				var got []byte
				if pi := mon.Guard(func() { got, err = p7.DecryptSM2(cert, key, mode) }); pi != nil {
					rep.Violation("C17/DecryptSM2/panic/"+pi.Func+"/"+name, pi.Value, w)
				} else if err == nil {
					sym := "returns-other-content"
					if bytes.Equal(got, content) {
						sym = "recovers-content"
					}
					rep.Violation("C17/DecryptSM2/"+name+"/"+sym, "", w)
				}
				rep.Eval("enveloped/sm2/neg/" + name)
			}
			neg("non-recipient", rc[3].c, rc[3].k, e.mode)
			neg("recipient-cert-with-other-key", rc[order[0]].c, rc[3].k, e.mode)
			if e.n != 0 || true {
				neg("wrong-ordering", rc[order[0]].c, rc[order[0]].k, 1-e.mode)
			}
			neg("rsa-key-for-sm2-envelope", rc[order[0]].c, rk1, e.mode)
			// byte substitutions
			if c.Thorough || i%6 == 0 {
				step := 1
				if !c.Thorough && len(der) > 400 {
					step = len(der) / 400
				}
				for p := 0; p < len(der); p += step {
					m := append([]byte{}, der...)
					m[p] ^= byte(1 + rr.Intn(255))
					var got []byte
					var e2 error
					if pi := mon.Guard(func() {
						q, e3 := gx509.ParsePKCS7(m)
						if e3 != nil {
							e2 = e3
							return
						}
						got, e2 = q.DecryptSM2(rc[order[0]].c, rc[order[0]].k, e.mode)
					}); pi != nil {
						rep.Violation("C17/enveloped/panic-on-mutated-container/"+pi.Func, pi.Value, map[string]interface{}{"position": p, "der": mon.Hex(m)})
					} else if e2 == nil && !bytes.Equal(got, content) && alg == gx509.EncryptionAlgorithmAES128GCM {
						rep.Violation("C17/enveloped/mutated-container-yields-different-content/"+algName, fmt.Sprintf("byte %d changed: decrypts without error to different content (%d bytes)", p, len(got)), map[string]interface{}{"position": p, "original": mon.Hex(der), "mutated": mon.Hex(m), "content": mon.Hex(content)})
					}
					rep.EvalN("enveloped/sm2/mutate/"+algName, 1, true)
				}
			}
			rep.Eval(cls)
			if i == 5 {
				rep.Sample(map[string]interface{}{"kind": "enveloped", "class": cls, "der_len": len(der)})
			}
		})
		// RSA recipients
		if rsaC1 != nil && rsaC2 != nil {
			for _, n := range []int{0, 1, 8, 33, 1000} {
				content := r.Bytes(n)
				w := map[string]interface{}{"alg": algName, "content": mon.Hex(content)}
				var der []byte
				var err error
				if pi := mon.Guard(func() { der, err = gx509.PKCS7Encrypt(content, []*gx509.Certificate{rsaC1}) }); pi != nil || err != nil {
					rep.Violation("C17/PKCS7Encrypt/fails/"+algName, fmt.Sprint(pi, err), w)
					continue
				}
				p7, err := gx509.ParsePKCS7(der)
				if err != nil {
					rep.Violation("C17/ParsePKCS7/fails-on-own-output/rsa", err.Error(), w)
					continue
				}
				var got []byte
				if pi := mon.Guard(func() { got, err = p7.Decrypt(rsaC1, rk1) }); pi != nil || err != nil || !bytes.Equal(got, content) {
					rep.Violation("C17/Decrypt/rsa-recipient-cannot-recover/"+algName, fmt.Sprint(pi, err), w)
				}
				if pi := mon.Guard(func() { got, err = p7.Decrypt(rsaC1, rk2) }); pi != nil {
					rep.Violation("C17/Decrypt/panic/"+pi.Func+"/other-rsa-key", pi.Value, w)
				} else if err == nil {
					rep.Violation("C17/Decrypt/other-rsa-key-recovers", "", w)
				}
				if pi := mon.Guard(func() { got, err = p7.Decrypt(rsaC2, rk2) }); pi != nil {
					rep.Violation("C17/Decrypt/panic/"+pi.Func+"/non-recipient", pi.Value, w)
				} else if err == nil {
					rep.Violation("C17/Decrypt/non-recipient-recovers", "", w)
				}
				if pi := mon.Guard(func() { got, err = p7.Decrypt(rsaC1, rc[0].k) }); pi != nil {
					rep.Violation("C17/Decrypt/panic/"+pi.Func+"/sm2-key-for-rsa-envelope", pi.Value, w)
				} else if err == nil {
					rep.Violation("C17/Decrypt/sm2-key-recovers-rsa-envelope", "", w)
				}
				rep.Eval(fmt.Sprintf("enveloped/rsa/%s/len=%s", algName, lcls(n)))
			}
		}
	}
	gx509.ContentEncryptionAlgorithm = gx509.EncryptionAlgorithmDESCBC

	// ---- DER length-of-length boundaries: an element of exactly 127/128, 255/256, 65535/65536 bytes changes the size of
	// its length field; with several nesting levels around the content, each level crosses each boundary at another
	// content length. Windows of consecutive content lengths make every level cross every boundary once.
	{
		gx509.ContentEncryptionAlgorithm = gx509.EncryptionAlgorithmAES128GCM
		var ns []int
		for n := 60; n <= 140; n++ {
			ns = append(ns, n)
		}
		for n := 180; n <= 260; n += 1 {
			ns = append(ns, n)
		}
		lo := 65536 - c.Q(110, 400)
		for n := lo; n <= 65536; n++ {
			ns = append(ns, n)
		}
		base := c.Rng("derlen").Bytes(65536)
		Par(len(ns), func(i int) {
			n := ns[i]
			content := base[:n:n]
			w := map[string]interface{}{"content_len": n}
			der, err := gx509.PKCS7EncryptSM2(content, []*gx509.Certificate{rc[0].c}, 0)
			if err != nil {
				rep.Violation("C17/PKCS7EncryptSM2/fails/AES-128-GCM", err.Error(), w)
				return
			}
			var got []byte
			if pi := mon.Guard(func() {
				var p7 *gx509.PKCS7
				if p7, err = gx509.ParsePKCS7(der); err == nil {
					got, err = p7.DecryptSM2(rc[0].c, rc[0].k, 0)
				}
			}); pi != nil || err != nil || !bytes.Equal(got, content) {
				rep.Violation("C17/enveloped/content-length-window-around-a-DER-length-boundary", fmt.Sprintf("content of %d bytes: %v %v", n, pi, err), w)
			}
			rep.Eval(fmt.Sprintf("enveloped/sm2/AES-128-GCM/der-length-window/%d", n/1000))
			if rsaC1 != nil && (c.Thorough || n%4 == 0 || n < 300) {
				// attached signed data of the same length
				var sder []byte
				if pi := mon.Guard(func() {
					sd, e := gx509.NewSignedData(content)
					if e == nil {
						e = sd.AddSigner(rsaC1, rk1, gx509.SignerInfoConfig{})
					}
					if e == nil {
						sder, e = sd.Finish()
					}
					err = e
				}); pi != nil || err != nil {
					rep.Violation("C17/SignedData/build-fails", fmt.Sprint(pi, err), w)
					return
				}
				if pi := mon.Guard(func() {
					var p7 *gx509.PKCS7
					if p7, err = gx509.ParsePKCS7(sder); err == nil {
						if err = p7.Verify(); err == nil && !bytes.Equal(p7.Content, content) {
							err = fmt.Errorf("content differs")
						}
					}
				}); pi != nil || err != nil {
					rep.Violation("C17/signed/content-length-window-around-a-DER-length-boundary", fmt.Sprintf("content of %d bytes: %v %v", n, pi, err), w)
				}
				rep.Eval(fmt.Sprintf("signed/rsa/der-length-window/%d", n/1000))
			}
		})
		gx509.ContentEncryptionAlgorithm = gx509.EncryptionAlgorithmDESCBC
	}

	// ---- signed data
	runC17Signed(c, rc[0].k, rc[0].c, rc[1].k, rc[1].c, rk1, rsaC1)
	if rsaC1 != nil {
		runC17P7Extra(c, rk1, rsaC1, []*gx509.Certificate{rc[0].c, rc[1].c})
	}
	// ---- PKCS#12
	runC17P12(c, rk1, rsaC1)
	runC17P12Std(c)
	runC17P12Fixtures(c)
	runC17P12ManyDerivations(c)
	runC17P12Files(c)
	runC17P12Concurrent(c)
}

type sdCheck struct {
	content  []byte
	attrsDER []byte // DER of the signed attribute SET contents ("" when absent)
	sig      []byte
	certRaw  []byte
}

// p7State extracts what a parsed object says about (content, signed attributes, signature, signer cert).
func p7State(p7 *gx509.PKCS7) sdCheck {
	var s sdCheck
	s.content = append([]byte{}, p7.Content...)
	if len(p7.Signers) > 0 {
		si := p7.Signers[0]
		for _, a := range si.AuthenticatedAttributes {
			s.attrsDER = append(s.attrsDER, a.Type.String()...)
			s.attrsDER = append(s.attrsDER, a.Value.FullBytes...)
		}
		s.sig = append([]byte{}, si.EncryptedDigest...)
	}
	if sc := p7.GetOnlySigner(); sc != nil {
		// identity of the signer certificate = its signed bytes and signature (an outer length byte that swallows a
		// following byte changes Raw but not the certificate)
		// Verify does not validate the certificate itself (documented): what matters is the certified key.
		switch pk := sc.PublicKey.(type) {
		case *rsa.PublicKey:
			s.certRaw = []byte(fmt.Sprintf("rsa:%x:%x", pk.N, pk.E))
		case *ecdsa.PublicKey:
			s.certRaw = []byte(fmt.Sprintf("ec:%x:%x", pk.X, pk.Y))
		case *sm2.PublicKey:
			s.certRaw = []byte(fmt.Sprintf("ec:%x:%x", pk.X, pk.Y))
		default:
			s.certRaw = append([]byte{}, sc.RawSubjectPublicKeyInfo...)
		}
	}
	return s
}

func sameSD(a, b sdCheck, ec bool) bool {
	if !bytes.Equal(a.content, b.content) || !bytes.Equal(a.attrsDER, b.attrsDER) || !bytes.Equal(a.certRaw, b.certRaw) {
		return false
	}
	if bytes.Equal(a.sig, b.sig) {
		return true
	}
	if ec {
		x, ok1 := sigInts(a.sig)
		y, ok2 := sigInts(b.sig)
		return ok1 && ok2 && x == y
	}
	return false
}

func runC17Signed(c *Ctx, k0 *sm2.PrivateKey, c0 *gx509.Certificate, k1 *sm2.PrivateKey, c1 *gx509.Certificate, rk *rsa.PrivateKey, rcert *gx509.Certificate) {
	rep := c.Rep
	verify := func(der []byte, detachedContent []byte) (*gx509.PKCS7, error) {
		p7, err := gx509.ParsePKCS7(der)
		if err != nil {
			return nil, err
		}
		if detachedContent != nil {
			p7.Content = detachedContent
		}
		return p7, p7.Verify()
	}
	tamperSweep := func(kind string, der []byte, detached []byte, ec bool, every bool, rr *mon.RNG) {
		orig, err := gx509.ParsePKCS7(der)
		if err != nil {
			return
		}
		if detached != nil {
			orig.Content = detached
		}
		st0 := p7State(orig)
		step := 1
		if !every && len(der) > 300 {
			step = len(der) / 300
		}
		for p := 0; p < len(der); p += step {
			for _, x := range []byte{0x01, 0x80} {
				m := append([]byte{}, der...)
				m[p] ^= x
				var p7 *gx509.PKCS7
				var e error
				if pi := mon.Guard(func() { p7, e = verify(m, detached) }); pi != nil {
					rep.Violation("C17/signed/panic-on-mutated-container/"+pi.Func, pi.Value, map[string]interface{}{"position": p, "xor": x, "der": mon.Hex(m)})
				} else if e == nil && !sameSD(st0, p7State(p7), ec) {
					rep.Violation("C17/signed/verifies-after-change/"+kind, fmt.Sprintf("byte %d ^= %#x: object still verifies although content / signed attributes / signature / signer certificate changed", p, x), map[string]interface{}{"position": p, "xor": x, "original": mon.Hex(der), "mutated": mon.Hex(m)})
				}
				rep.EvalN("signed/mutate/"+kind, 1, true)
			}
		}
	}
	// (1) harness-built SM2 signed data
	type sdcase struct {
		n                int
		attrs, attached  bool
		byRef            bool
		digestOID, ctOID asn1.ObjectIdentifier
	}
	var cases []sdcase
	for _, n := range []int{0, 1, 31, 32, 33, 1000, 20000} {
		for m := 0; m < 16; m++ {
			cs := sdcase{n: n, attrs: m&1 != 0, attached: m&2 != 0, byRef: m&4 != 0, digestOID: oidSM3Hash, ctOID: oidP7Signed}
			if m&8 != 0 {
				cs.ctOID = oidP7SMSigned
				if m&1 != 0 && n%2 == 1 {
					cs.digestOID = oidSM3HashNoKey
				}
			}
			cases = append(cases, cs)
		}
	}
	Par(len(cases), func(i int) {
		cs := cases[i]
		rr := c.Rng(fmt.Sprintf("sd%d", i))
		content := rr.Bytes(cs.n)
		signer := func(msg []byte) []byte {
			if cs.byRef {
				for {
					k := new(big.Int).SetBytes(rr.Bytes(32))
					k.Mod(k, ref.N)
					if k.Sign() == 0 {
						continue
					}
					if rv, sv, ok := ref.SignWithK(k0.D, k, k0.X, k0.Y, ref.DefaultUID, msg); ok {
						return derSig(rv, sv)
					}
				}
			}
			sig, _ := k0.Sign(rr, msg, nil)
			return sig
		}
		der, _ := buildSM2SignedData(content, c0, signer, cs.attrs, cs.attached, cs.digestOID, cs.ctOID)
		var det []byte
		if !cs.attached {
			det = content
		}
		doid := "sm3(401)"
		if cs.digestOID.Equal(oidSM3HashNoKey) {
			doid = "sm3(401.1)"
		}
		cls := fmt.Sprintf("signed/sm2/attrs=%v/attached=%v/byRef=%v/%s/len=%d", cs.attrs, cs.attached, cs.byRef, doid, cs.n)
		w := map[string]interface{}{"class": cls, "der": mon.Hex(der), "content": mon.Hex(content)}
		var err error
		if pi := mon.Guard(func() { _, err = verify(der, det) }); pi != nil {
			rep.Violation("C17/Verify/panic/"+pi.Func+"/valid-sm2-signed-data", pi.Value, w)
		} else if err != nil {
			rep.Violation(fmt.Sprintf("C17/Verify/rejects-valid-sm2-signed-data/attrs=%v/%s", cs.attrs, doid), err.Error(), w)
		} else {
			// semantic tampers
			neg := func(name string, d2 []byte, det2 []byte) {
				var e error
				if pi := mon.Guard(func() { _, e = verify(d2, det2) }); pi != nil {
					rep.Violation("C17/Verify/panic/"+pi.Func+"/"+name, pi.Value, w)
				} else if e == nil {
					rep.Violation("C17/Verify/accepts/"+name+fmt.Sprintf("/attrs=%v", cs.attrs), "", w)
				}
				rep.Eval("signed/sm2/neg/" + name)
			}
			other := append([]byte{}, content...)
			if len(other) == 0 {
				other = []byte{1}
			} else {
				other[len(other)/2] ^= 0x10
			}
			// one parsed object verified several times with its exported Content field reassigned in between (the
			// detached-content workflow): every answer must be for the content present at that call
			if p7, e := gx509.ParsePKCS7(der); e == nil {
				seq := [][]byte{content, other, content, other, []byte("entirely different"), content}
				if !cs.attached && len(content) > 0 {
					seq = append([][]byte{other}, seq...) // a rejected content first, then the genuine one
				}
				for si, ct := range seq {
					p7.Content = ct
					var ve error
					if pi := mon.Guard(func() { ve = p7.Verify() }); pi != nil {
						rep.Violation("C17/Verify/panic/"+pi.Func+"/repeated-verify", pi.Value, w)
						break
					}
					genuine := bytes.Equal(ct, content)
					if genuine && ve != nil {
						rep.Violation(fmt.Sprintf("C17/Verify/rejects-genuine-content-after-earlier-verifications/attrs=%v", cs.attrs), fmt.Sprintf("call %d on one parsed object: %v", si+1, ve), w)
						break
					}
					if !genuine && ve == nil {
						rep.Violation(fmt.Sprintf("C17/Verify/accepts-other-content-after-earlier-verifications/attrs=%v", cs.attrs), fmt.Sprintf("call %d on one parsed object", si+1), w)
						break
					}
				}
				rep.Eval(fmt.Sprintf("signed/sm2/repeated-verify-with-content-reassigned/attrs=%v/attached=%v", cs.attrs, cs.attached))
			}
			if cs.attached {
				d2, _ := buildSM2SignedData(other, c0, func(msg []byte) []byte { return signerSigOf(der) }, false, true, cs.digestOID, cs.ctOID)
				if !cs.attrs {
					neg("content-changed(signature-kept)", d2, nil)
				}
			} else {
				neg("detached-content-changed", der, other)
			}
			// signature by another key under the genuine certificate
			d3, _ := buildSM2SignedData(content, c0, func(msg []byte) []byte { s, _ := k1.Sign(rr, msg, nil); return s }, cs.attrs, cs.attached, cs.digestOID, cs.ctOID)
			neg("signed-by-other-key", d3, det)
			// signer certificate swapped for another certificate (same key would be needed): signature by k0, cert c1
			d4, _ := buildSM2SignedData(content, c1, signer, cs.attrs, cs.attached, cs.digestOID, cs.ctOID)
			neg("signer-certificate-swapped", d4, det)
			tamperSweep("sm2", der, det, true, c.Thorough || i%8 == 0, rr)
		}
		rep.Eval(cls)
		if i == 3 {
			rep.Sample(map[string]interface{}{"kind": "signed-data", "class": cls, "der": mon.Hex(der)})
		}
	})
	// (2) library-built RSA signed data
	if rcert != nil {
		for i, n := range []int{0, 1, 100, 5000} {
			for _, detach := range []bool{false, true} {
				rr := c.Rng(fmt.Sprintf("rsasd%d%v", i, detach))
				content := rr.Bytes(n)
				cls := fmt.Sprintf("signed/rsa-library-built/detached=%v/len=%d", detach, n)
				w := map[string]interface{}{"class": cls, "content": mon.Hex(content)}
				var der []byte
				var err error
				if pi := mon.Guard(func() {
					sd, e := gx509.NewSignedData(content)
					if e != nil {
						err = e
						return
					}
					cfg := gx509.SignerInfoConfig{}
					if i%2 == 1 {
						cfg.ExtraSignedAttributes = []gx509.Attribute{{Type: asn1.ObjectIdentifier{1, 2, 3, 4, 5}, Value: "extra"}}
					}
					if e := sd.AddSigner(rcert, rk, cfg); e != nil {
						err = e
						return
					}
					if detach {
						sd.Detach()
					}
					der, err = sd.Finish()
				}); pi != nil || err != nil {
					rep.Violation("C17/SignedData/build-fails", fmt.Sprint(pi, err), w)
					continue
				}
				w["der"] = mon.Hex(der)
				var det []byte
				if detach {
					det = content
				}
				if pi := mon.Guard(func() { _, err = verify(der, det) }); pi != nil {
					rep.Violation("C17/Verify/panic/"+pi.Func+"/library-built-rsa", pi.Value, w)
				} else if err != nil {
					rep.Violation("C17/Verify/rejects-library-built-rsa-signed-data", err.Error(), w)
				} else {
					if detach && n == 0 {
						// zero-length detached content has two spellings in Go, nil and []byte{}: both are the content that was signed
						for _, sp := range []struct {
							name string
							v    []byte
						}{{"nil", nil}, {"empty-non-nil", []byte{}}} {
							var e error
							if pi := mon.Guard(func() {
								p7, pe := gx509.ParsePKCS7(der)
								if pe != nil {
									e = pe
									return
								}
								p7.Content = sp.v
								e = p7.Verify()
							}); pi != nil || e != nil {
								rep.Violation("C17/Verify/rejects-detached-signature-over-empty-content/Content="+sp.name, fmt.Sprint(pi, e), w)
							}
							rep.Eval(cls + "/empty-content-spelled-" + sp.name)
						}
					}
					if detach {
						other := append([]byte{0x55}, content...)
						if _, e := verify(der, other); e == nil {
							rep.Violation("C17/Verify/accepts/detached-content-changed/rsa", "", w)
						}
					}
					tamperSweep("rsa", der, det, false, c.Thorough, rr)
				}
				rep.Eval(cls)
			}
		}
	}
}

// signerSigOf extracts the EncryptedDigest of the first signer of a signed-data DER (harness side).
func signerSigOf(der []byte) []byte {
	var ci p7ContentInfo
	if _, err := asn1.Unmarshal(der, &ci); err != nil {
		return nil
	}
	var sd p7SignedData
	if _, err := asn1.Unmarshal(ci.Content.Bytes, &sd); err != nil || len(sd.SignerInfos) == 0 {
		return nil
	}
	return sd.SignerInfos[0].EncryptedDigest
}

func runC17P12(c *Ctx, rk *rsa.PrivateKey, rcert *gx509.Certificate) {
	rep := c.Rep
	r := c.Rng("p12")
	pwds := []struct{ cls, p string }{{"empty", ""}, {"ascii", "Passw0rd"}, {"non-ascii", "pässwörd-密码"}, {"long", string(bytes.Repeat([]byte("ab"), 60))}}
	n := c.Q(12, 120)
	// key classes: small scalars and keys whose d, x or y have leading zero bytes (fixed-width encoders), plus random
	kcls := keyClasses(c.Rng("p12keys"), 4, false)
	if n < len(kcls)+4 {
		n = len(kcls) + 4
	}
	Par(n, func(i int) {
		rr := c.Rng(fmt.Sprintf("p12-%d", i))
		k := newSM2Key(rr)
		kc := "random"
		if i < len(kcls) {
			k, kc = kcls[i].priv(), kcls[i].cls
		}
		cert, _, err := issueSM2(certSpec{cn: fmt.Sprintf("p12-%d", i), serial: int64(900 + i), dns: []string{"p12.example"}}, &k.PublicKey, nil, k, rr)
		if err != nil {
			return
		}
		pw := pwds[i%len(pwds)]
		cls := fmt.Sprintf("pkcs12/sm2/key=%s/pw=%s/ca=%d", kc, pw.cls, i%3)
		w := map[string]interface{}{"password_class": pw.cls, "d": k.D.Text(16), "key_class": kc}
		var cas []*stdCert
		_ = cas
		var pfx []byte
		if pi := mon.Guard(func() { pfx, err = pkcs12.Encode(k, cert, nil, pw.p); keep("pkcs12.Encode", pfx) }); pi != nil || err != nil {
			rep.Violation("C17/pkcs12.Encode/fails/pw="+pw.cls, fmt.Sprint(pi, err), w)
			rep.Eval(cls)
			return
		}
		w["pfx"] = mon.Hex(pfx)
		sameKeyP12 := func(v interface{}) bool {
			switch kk := v.(type) {
			case *ecdsa.PrivateKey:
				return kk.D.Cmp(k.D) == 0 && kk.X.Cmp(k.X) == 0 && kk.Y.Cmp(k.Y) == 0
			case *sm2.PrivateKey:
				return kk.D.Cmp(k.D) == 0 && kk.X.Cmp(k.X) == 0 && kk.Y.Cmp(k.Y) == 0
			}
			return false
		}
		var pk interface{}
		var certs []*gx509.Certificate
		if pi := mon.Guard(func() { pk, certs, err = pkcs12.DecodeAll(pfx, pw.p) }); pi != nil || err != nil {
			rep.Violation("C17/pkcs12.DecodeAll/fails-on-own-output/pw="+pw.cls, fmt.Sprint(pi, err), w)
			rep.Eval(cls)
			return
		}
		if !sameKeyP12(pk) || len(certs) == 0 || !bytes.Equal(certs[0].Raw, cert.Raw) {
			rep.Violation("C17/pkcs12/round-trip-mismatch/pw="+pw.cls, fmt.Sprintf("key type %T, %d certs", pk, len(certs)), w)
		}
		// ToPEM
		if pi := mon.Guard(func() {
			blocks, e := pkcs12.ToPEM(pfx, pw.p)
			if e != nil {
				rep.Violation("C17/pkcs12.ToPEM/fails-on-own-output", e.Error(), w)
				return
			}
			foundCert := false
			for _, b := range blocks {
				if b.Type == "CERTIFICATE" && bytes.Equal(b.Bytes, cert.Raw) {
					foundCert = true
				}
			}
			if !foundCert {
				rep.Violation("C17/pkcs12.ToPEM/certificate-missing", "", w)
			}
		}); pi != nil {
			rep.Violation("C17/pkcs12.ToPEM/panic/"+pi.Func, pi.Value, w)
		}
		// wrong passwords
		for wn, wp := range map[string]string{"appended": pw.p + "x", "other": "not the password", "case": "pASSW0RD", "empty-or-space": map[bool]string{true: " ", false: ""}[pw.p == ""],
			"trailing-newline": pw.p + "\n", "trailing-space": pw.p + " ", "leading-space": " " + pw.p, "quoted": "\"" + pw.p + "\"", "trailing-nul": pw.p + "\x00", "doubled": pw.p + pw.p} {
			if wp == pw.p {
				continue
			}
			if strings.Trim(wp, "\x00") == "" && strings.Trim(pw.p, "\x00") == "" {
				continue // the PKCS#12 KDF repeats the BMP password to fill a block: passwords made of NULs only all give the all-zero block
			}
			var e error
			var pk2 interface{}
			if pi := mon.Guard(func() { pk2, _, e = pkcs12.DecodeAll(pfx, wp) }); pi != nil {
				rep.Violation("C17/pkcs12.DecodeAll/panic-on-wrong-password/"+pi.Func, pi.Value, w)
			} else if e == nil {
				rep.Violation("C17/pkcs12.DecodeAll/accepts-wrong-password/"+wn, fmt.Sprintf("right=%q wrong=%q key-equal=%v", pw.p, wp, sameKeyP12(pk2)), w)
			}
			rep.Eval("pkcs12/wrongpw/" + wn)
		}
		// byte substitutions: error, or the same key and certificate
		step := 1
		if !c.Thorough {
			step = len(pfx)/300 + 1
		}
		for p := i % step; p < len(pfx); p += step {
			m := append([]byte{}, pfx...)
			m[p] ^= byte(1 + rr.Intn(255))
			var pk2 interface{}
			var certs2 []*gx509.Certificate
			var e error
			if pi := mon.Guard(func() { pk2, certs2, e = pkcs12.DecodeAll(m, pw.p) }); pi != nil {
				rep.Violation("C17/pkcs12.DecodeAll/panic-on-mutated-bundle/"+pi.Func, pi.Value, map[string]interface{}{"position": p, "pfx": mon.Hex(m)})
			} else if e == nil && (!sameKeyP12(pk2) || len(certs2) == 0 || !bytes.Equal(certs2[0].Raw, cert.Raw)) {
				rep.Violation("C17/pkcs12/mutated-bundle-decodes-to-different-key-or-certificate", fmt.Sprintf("byte %d", p), map[string]interface{}{"position": p, "original": mon.Hex(pfx), "mutated": mon.Hex(m), "password": pw.p})
			}
			rep.EvalN("pkcs12/mutate", 1, true)
		}
		rep.Eval(cls)
	})
	_ = r
	_ = time.Now
}

type stdCert struct{}
