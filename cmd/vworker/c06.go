package main

import (
	"bytes"
	stdtls "crypto/tls"
	"fmt"
	"io"
	"sync"

	"github.com/tjfoc/gmsm/gmtls"

	"verif/mon"
	"verif/ref"
)

func init() { registry["C06"] = runC06 }

type c06Case struct {
	srvMode    string // gm | auto | tls
	cliKind    string // gm | tls | std
	cliSuites  []uint16
	srvSuites  []uint16
	preferSrv  bool
	auth       gmtls.ClientAuthType
	cliCert    string // none | trusted | untrusted
	stdCliCert string // "", "rsa", "ec": RSA / ECDSA client certificate in the interop cells (server: RequireAnyClientCert)
	certSrc    string // static | callbacks
	tickets    bool
	cliTrusts  bool   // client trusts the server's root
	stdCert    string // rsa | ec (TLS suites)
	tlsVer     uint16
	alpn       int // 0: no protocol lists; 1: overlapping lists in different orders; 2: disjoint lists (gmtls on both ends only)
	name       string
}

const (
	expComplete = "must-complete"
	expFail     = "must-fail"
	expUnspec   = "unspecified"
)

func authName(a gmtls.ClientAuthType) string {
	return []string{"none", "request", "require-any", "verify-if-given", "require-and-verify"}[int(a)]
}

// c06Expect is the policy model: what the property text demands for a configuration pair.
func c06Expect(cs c06Case) (string, string) {
	isGMSuite := func(s uint16) bool { return s>>8 == 0xe0 }
	gmClient := cs.cliKind == "gm"
	// version / mode compatibility
	switch {
	case cs.srvMode == "gm" && !gmClient:
		return expFail, "TLS client against a GMSSL-only server"
	case cs.srvMode == "tls" && gmClient:
		return expFail, "GMSSL client against a TLS-only server"
	}
	// common suite
	var common []uint16
	for _, a := range cs.cliSuites {
		for _, b := range cs.srvSuites {
			if a == b && isGMSuite(a) == gmClient {
				common = append(common, a)
			}
		}
	}
	if len(common) == 0 {
		return expFail, "no common cipher suite"
	}
	for _, s := range common {
		if s == gmtls.GMTLS_ECDHE_SM4_CBC_SM3 || s == gmtls.GMTLS_ECDHE_SM4_GCM_SM3 {
			return expUnspec, "ECDHE-SM2 suites are listed but the text does not settle whether they must complete"
		}
	}
	if !cs.cliTrusts {
		return expFail, "client cannot verify the server certificate"
	}
	switch cs.auth {
	case gmtls.RequireAnyClientCert:
		if cs.cliCert == "none" {
			return expFail, "client certificate required but absent"
		}
	case gmtls.VerifyClientCertIfGiven:
		if cs.cliCert == "untrusted" {
			return expFail, "client certificate given but untrusted"
		}
	case gmtls.RequireAndVerifyClientCert:
		if cs.cliCert != "trusted" {
			return expFail, "verified client certificate required"
		}
	}
	return expComplete, ""
}

func runC06(c *Ctx) {
	rep := c.Rep
	rep.Meta("cases: configuration matrix server mode {GMSSL-only, auto-switch, TLS-only} x client kind {gmtls GM, gmtls TLS, crypto/tls} x suite lists and preference x ClientAuth (5) x client certificate {none, trusted, untrusted} x certificate source {static, GetCertificate/GetKECertificate, GetClientCertificate} x tickets on/off (GM part full-factorial in thorough, pairwise-style sample in quick); each session then carries position-tagged payloads in both directions with seeded fragment plans. Monitors: policy model (must-complete / must-fail / unspecified) written from the property text; agreement of ConnectionState and ExportKeyingMaterial (3 labels/contexts/lengths) on both ends; prefix-stream monitor on delivered bytes; passive reference GM/T 0024 decoder over the tapped wire + key log (record MAC/tag under index-as-sequence-number, Finished values, ServerKeyExchange signature, pre-master recovery with the encryption key, plaintext equality); crypto/tls as the independent peer for TLS 1.0-1.2 in both roles; recover() in both endpoint goroutines; logical quiescence sentinel. Distinct non-trivial = distinct configuration class keys.",
		150, []string{"policy model from the property text", "ref TLCP decoder (ref SM2/SM3/SM4; self-consistent, not certified)", "Go crypto/tls as independent TLS 1.0-1.2 peer"},
		[]string{"ECDHE-SM2 suites: completion is unspecified, only no-panic/no-one-sided-completion is required", "crypto/tls refuses some legacy options in Go 1.23 (TLS 1.0/1.1 need MinVersion override, which the harness sets)"})
	r := c.Rng("c06")
	pki, err := newTLSPKI(r, true)
	if err != nil {
		rep.Violation("C06/harness/pki", err.Error(), nil)
		return
	}
	gmCBC, gmGCM := gmtls.GMTLS_ECC_SM4_CBC_SM3, gmtls.GMTLS_ECC_SM4_GCM_SM3
	var cases []c06Case
	auths := []gmtls.ClientAuthType{gmtls.NoClientCert, gmtls.RequestClientCert, gmtls.RequireAnyClientCert, gmtls.VerifyClientCertIfGiven, gmtls.RequireAndVerifyClientCert}
	suiteLists := [][]uint16{{gmCBC}, {gmGCM}, {gmCBC, gmGCM}, {gmGCM, gmCBC}}
	i := 0
	for _, mode := range []string{"gm", "auto"} {
		for _, ss := range suiteLists {
			for _, csu := range suiteLists {
				for _, auth := range auths {
					for _, cc := range []string{"none", "trusted", "untrusted"} {
						for _, src := range []string{"static", "callbacks"} {
							for _, tk := range []bool{false, true} {
								i++
								if !c.Thorough && (i*2654435761>>4)%9 != 0 {
									continue
								}
								cases = append(cases, c06Case{srvMode: mode, cliKind: "gm", cliSuites: csu, srvSuites: ss, preferSrv: i%2 == 0, auth: auth, cliCert: cc, certSrc: src, tickets: tk, cliTrusts: true})
							}
						}
					}
				}
			}
		}
	}
	// forbidden / edge combinations
	cases = append(cases,
		c06Case{srvMode: "gm", cliKind: "gm", cliSuites: []uint16{gmCBC}, srvSuites: []uint16{gmGCM}, cliTrusts: true, certSrc: "static"},
		c06Case{srvMode: "gm", cliKind: "gm", cliSuites: []uint16{gmCBC}, srvSuites: []uint16{gmCBC}, cliTrusts: false, certSrc: "static"},
		c06Case{srvMode: "auto", cliKind: "gm", cliSuites: []uint16{gmGCM}, srvSuites: []uint16{gmGCM}, cliTrusts: false, certSrc: "callbacks"},
		c06Case{srvMode: "tls", cliKind: "gm", cliSuites: []uint16{gmCBC}, srvSuites: []uint16{gmtls.TLS_RSA_WITH_AES_128_GCM_SHA256}, cliTrusts: true, certSrc: "static", stdCert: "rsa"},
		c06Case{srvMode: "gm", cliKind: "tls", cliSuites: []uint16{gmtls.TLS_RSA_WITH_AES_128_GCM_SHA256}, srvSuites: []uint16{gmCBC}, cliTrusts: true, certSrc: "static", tlsVer: gmtls.VersionTLS12},
		c06Case{srvMode: "gm", cliKind: "std", cliSuites: []uint16{gmtls.TLS_RSA_WITH_AES_128_GCM_SHA256}, srvSuites: []uint16{gmCBC}, cliTrusts: true, certSrc: "static", tlsVer: gmtls.VersionTLS12},
		c06Case{srvMode: "gm", cliKind: "gm", cliSuites: []uint16{gmtls.GMTLS_ECDHE_SM4_CBC_SM3}, srvSuites: []uint16{gmtls.GMTLS_ECDHE_SM4_CBC_SM3, gmCBC}, cliTrusts: true, certSrc: "static"},
		c06Case{srvMode: "auto", cliKind: "gm", cliSuites: []uint16{gmtls.GMTLS_ECDHE_SM4_GCM_SM3, gmGCM}, srvSuites: []uint16{gmtls.GMTLS_ECDHE_SM4_GCM_SM3}, cliTrusts: true, certSrc: "callbacks", preferSrv: true},
	)
	// TLS suites x versions x cert kinds x peers
	type tsuite struct {
		id   uint16
		cert string
		min  uint16
	}
	tsuites := []tsuite{
		{gmtls.TLS_RSA_WITH_AES_128_CBC_SHA, "rsa", gmtls.VersionTLS10}, {gmtls.TLS_RSA_WITH_AES_256_CBC_SHA, "rsa", gmtls.VersionTLS10},
		{gmtls.TLS_RSA_WITH_AES_128_GCM_SHA256, "rsa", gmtls.VersionTLS12}, {gmtls.TLS_ECDHE_RSA_WITH_AES_256_CBC_SHA, "rsa", gmtls.VersionTLS10},
		{gmtls.TLS_ECDHE_RSA_WITH_AES_128_GCM_SHA256, "rsa", gmtls.VersionTLS12}, {gmtls.TLS_ECDHE_RSA_WITH_AES_256_GCM_SHA384, "rsa", gmtls.VersionTLS12},
		{gmtls.TLS_ECDHE_ECDSA_WITH_AES_128_CBC_SHA, "ec", gmtls.VersionTLS10}, {gmtls.TLS_ECDHE_ECDSA_WITH_AES_128_GCM_SHA256, "ec", gmtls.VersionTLS12},
		{gmtls.TLS_ECDHE_RSA_WITH_CHACHA20_POLY1305, "rsa", gmtls.VersionTLS12}, {gmtls.TLS_ECDHE_ECDSA_WITH_CHACHA20_POLY1305, "ec", gmtls.VersionTLS12},
		// the rest of gmtls's suite table (a coverage audit of the quick workload showed that RC4, 3DES, the SHA-256 CBC
		// MAC, AES-256-GCM with plain RSA and the ECDSA CBC variants were never negotiated): every row of the table is a
		// record-protection configuration of its own
		{gmtls.TLS_ECDHE_ECDSA_WITH_AES_256_GCM_SHA384, "ec", gmtls.VersionTLS12}, {gmtls.TLS_ECDHE_ECDSA_WITH_AES_128_CBC_SHA256, "ec", gmtls.VersionTLS12},
		{gmtls.TLS_ECDHE_ECDSA_WITH_AES_256_CBC_SHA, "ec", gmtls.VersionTLS10}, {gmtls.TLS_RSA_WITH_AES_256_GCM_SHA384, "rsa", gmtls.VersionTLS12},
		{gmtls.TLS_RSA_WITH_AES_128_CBC_SHA256, "rsa", gmtls.VersionTLS12}, {gmtls.TLS_ECDHE_RSA_WITH_3DES_EDE_CBC_SHA, "rsa", gmtls.VersionTLS10},
		{gmtls.TLS_RSA_WITH_3DES_EDE_CBC_SHA, "rsa", gmtls.VersionTLS10}, {gmtls.TLS_RSA_WITH_RC4_128_SHA, "rsa", gmtls.VersionTLS10},
		{gmtls.TLS_ECDHE_RSA_WITH_RC4_128_SHA, "rsa", gmtls.VersionTLS10}, {gmtls.TLS_ECDHE_ECDSA_WITH_RC4_128_SHA, "ec", gmtls.VersionTLS10},
	}
	for ti, ts := range tsuites {
		for _, ver := range []uint16{gmtls.VersionTLS10, gmtls.VersionTLS11, gmtls.VersionTLS12} {
			if ver < ts.min {
				continue
			}
			for ki, kind := range []string{"tls", "std"} {
				for mi, mode := range []string{"tls", "auto"} {
					if !c.Thorough && (ti+int(ver)+ki+mi)%2 != 0 {
						continue
					}
					cases = append(cases, c06Case{srvMode: mode, cliKind: kind, cliSuites: []uint16{ts.id}, srvSuites: []uint16{ts.id}, cliTrusts: true, certSrc: map[string]string{"tls": "static", "auto": "callbacks"}[mode],
						stdCert: ts.cert, tlsVer: ver, tickets: ti%2 == 0, auth: auths[(ti+ki)%2]})
				}
			}
			// client certificates of the standard key types in the interop cells, both directions: CertificateVerify is
			// produced by one stack and checked by the other (TLS 1.0/1.1 fix the hash by key type, TLS 1.2 negotiates it)
			for ci, ck := range []string{"rsa", "ec"} {
				if !c.Thorough && (ti+ci+int(ver))%3 != 0 {
					continue
				}
				cases = append(cases, c06Case{srvMode: "tls", cliKind: "std", cliSuites: []uint16{ts.id}, srvSuites: []uint16{ts.id}, cliTrusts: true, certSrc: "static",
					stdCert: ts.cert, tlsVer: ver, auth: gmtls.RequireAnyClientCert, cliCert: "trusted", stdCliCert: ck})
				cases = append(cases, c06Case{srvMode: "stdserver", cliKind: "tls", cliSuites: []uint16{ts.id}, srvSuites: []uint16{ts.id}, cliTrusts: true, certSrc: "static",
					stdCert: ts.cert, tlsVer: ver, auth: gmtls.RequireAnyClientCert, cliCert: "trusted", stdCliCert: ck})
				cases = append(cases, c06Case{srvMode: "tls", cliKind: "tls", cliSuites: []uint16{ts.id}, srvSuites: []uint16{ts.id}, cliTrusts: true, certSrc: "static",
					stdCert: ts.cert, tlsVer: ver, auth: gmtls.RequireAnyClientCert, cliCert: "trusted", stdCliCert: ck})
			}
			// crypto/tls server, gmtls TLS client
			if c.Thorough || (ti+int(ver))%2 == 0 {
				cases = append(cases, c06Case{srvMode: "stdserver", cliKind: "tls", cliSuites: []uint16{ts.id}, srvSuites: []uint16{ts.id}, cliTrusts: true, stdCert: ts.cert, tlsVer: ver, certSrc: "static"})
			}
		}
	}
	// (SSL 3.0 is not in the matrix: gmtls implements it on the server side only — its own client refuses a ServerHello
	// below TLS 1.0, as crypto/tls does — so no pair of available endpoints can complete it; C15's blind scripted client
	// drives the server's SSL 3.0 hello path.)
	// standard-TLS servers with every client-certificate policy, a certificate-bearing gmtls client and tickets on (so the
	// second connection of the configuration resumes a session that was set up with a client certificate)
	for ai, auth := range auths[1:] {
		for mi, mode := range []string{"tls", "auto"} {
			for vi, ver := range []uint16{gmtls.VersionTLS12, gmtls.VersionTLS10} {
				if !c.Thorough && (ai+mi+vi)%2 != 0 {
					continue
				}
				su, sc := gmtls.TLS_ECDHE_RSA_WITH_AES_256_CBC_SHA, "rsa"
				if ver == gmtls.VersionTLS12 && ai%2 == 0 {
					su = gmtls.TLS_ECDHE_RSA_WITH_AES_128_GCM_SHA256
				}
				for ci, cc := range []string{"trusted", "none"} {
					k := ""
					if cc == "trusted" {
						k = []string{"rsa", "ec"}[(ai+mi+ci)%2] // standard key types: SM2 certificates have no place in TLS 1.0/1.1
					}
					cases = append(cases, c06Case{srvMode: mode, cliKind: "tls", cliSuites: []uint16{su}, srvSuites: []uint16{su}, cliTrusts: true, certSrc: map[string]string{"tls": "static", "auto": "callbacks"}[mode],
						stdCert: sc, tlsVer: ver, tickets: true, auth: auth, cliCert: cc, stdCliCert: k})
				}
			}
		}
	}
	for i := range cases {
		cs := &cases[i]
		if cs.cliCert == "" {
			cs.cliCert = "none"
		}
		// application-protocol lists as one more dimension across the whole matrix
		cs.alpn = i % 3
		if cs.alpn == 2 && (cs.cliKind == "std" || cs.srvMode == "stdserver") {
			cs.alpn = 1 // crypto/tls aborts on disjoint lists (RFC 7301); gmtls, like the Go it was forked from, goes on without
		}
		cs.name = fmt.Sprintf("srv=%s/cli=%s/cs=%v/ss=%v/prefSrv=%v/auth=%s/ccert=%s%s/src=%s/tickets=%v/trust=%v/ver=%04x/%s", cs.srvMode, cs.cliKind, suiteNames(cs.cliSuites), suiteNames(cs.srvSuites), cs.preferSrv, authName(cs.auth), cs.cliCert, cs.stdCliCert, cs.certSrc, cs.tickets, cs.cliTrusts, cs.tlsVer, cs.stdCert)
	}
	runC06SNI(c)
	runC06Deadlines(c, pki)
	runC06RefPeer(c, pki)
	runC06Defaults(c, pki)
	runC06LongStd(c, pki)
	defer rep.Require("sessions_with_a_negotiated_application_protocol", 10)
	rep.Count("cases", int64(len(cases)))
	var smu sync.Mutex
	sampled := 0
	// thorough: the whole matrix is run several times with different seeds for keys, payload sizes and write plans
	rounds := c.Q(1, 6)
	Par(len(cases)*rounds, func(j int) {
		i := j%len(cases) + (j/len(cases))*1000003
		cs := cases[j%len(cases)]
		runC06Case(c, pki, cs, i, func(v interface{}) {
			smu.Lock()
			if sampled < 3 {
				sampled++
				rep.Sample(v)
			}
			smu.Unlock()
		})
	})
}

func suiteNames(s []uint16) string {
	var o []string
	for _, x := range s {
		o = append(o, fmt.Sprintf("%04x", x))
	}
	return fmt.Sprint(o)
}

func runC06Case(c *Ctx, pki *tlsPKI, cs c06Case, idx int, sample func(interface{})) {
	rep := c.Rep
	r := c.Rng(fmt.Sprintf("case%d", idx))
	w := map[string]interface{}{"config": cs.name}
	exp, why := c06Expect(cs)
	if cs.srvMode == "stdserver" {
		exp = expComplete
	}
	cls := fmt.Sprintf("srv=%s/cli=%s/suite=%s/auth=%s/ccert=%s%s/src=%s/tickets=%v/ver=%04x/%s", cs.srvMode, cs.cliKind, suiteNames(cs.cliSuites), authName(cs.auth), cs.cliCert, cs.stdCliCert, cs.certSrc, cs.tickets, cs.tlsVer, exp)
	klog := &keyLog{}
	// ---- server config
	scfg := &gmtls.Config{CipherSuites: cs.srvSuites, PreferServerCipherSuites: cs.preferSrv, ClientAuth: cs.auth, ClientCAs: pki.pool,
		SessionTicketsDisabled: !cs.tickets, Time: func() (t timeT) { return fixedNow }, Rand: mon.NewRNG(r.U64()), KeyLogWriter: klog}
	stdCert := pki.rsaCert
	if cs.stdCert == "ec" {
		stdCert = pki.ecCert
	}
	switch cs.srvMode {
	case "gm":
		scfg.GMSupport = gmtls.NewGMSupport()
		if cs.certSrc == "static" {
			scfg.Certificates = []gmtls.Certificate{pki.sig, pki.enc}
		} else {
			scfg.GetCertificate = func(*gmtls.ClientHelloInfo) (*gmtls.Certificate, error) { return &pki.sig, nil }
			scfg.GetKECertificate = func(*gmtls.ClientHelloInfo) (*gmtls.Certificate, error) { return &pki.enc, nil }
		}
	case "auto":
		sup := gmtls.NewGMSupport()
		sup.EnableMixMode()
		scfg.GMSupport = sup
		sc := stdCert
		scfg.GetCertificate = func(info *gmtls.ClientHelloInfo) (*gmtls.Certificate, error) {
			for _, v := range info.SupportedVersions {
				if v == gmtls.VersionGMSSL {
					return &pki.sig, nil
				}
			}
			return &sc, nil
		}
		scfg.GetKECertificate = func(*gmtls.ClientHelloInfo) (*gmtls.Certificate, error) { return &pki.enc, nil }
		if cs.certSrc == "static" {
			scfg.Certificates = []gmtls.Certificate{pki.sig, pki.enc}
		}
	case "tls":
		scfg.Certificates = []gmtls.Certificate{stdCert}
	}
	if cs.tlsVer != 0 && cs.srvMode != "gm" {
		scfg.MaxVersion = cs.tlsVer
	}
	if cs.stdCliCert != "" {
		scfg.ClientCAs = nil // no CA hints: the self-signed RSA / ECDSA client certificates are sent whatever their issuer
		if cs.auth >= gmtls.VerifyClientCertIfGiven {
			scfg.ClientCAs = pki.gmStdPool // the self-signed RSA / ECDSA certificates are their own trust anchors
		}
	}
	scfg.NextProtos = c06Protos(cs.alpn, true)
	// ---- client config
	roots := pki.pool
	if !cs.cliTrusts {
		roots = pki.other.pool
	}
	ccfg := &gmtls.Config{CipherSuites: cs.cliSuites, ServerName: tlsServerName, RootCAs: roots, Time: func() (t timeT) { return fixedNow }, Rand: mon.NewRNG(r.U64()),
		SessionTicketsDisabled: !cs.tickets, KeyLogWriter: klog}
	if cs.tickets {
		ccfg.ClientSessionCache = gmtls.NewLRUClientSessionCache(4)
	}
	ccfg.NextProtos = c06Protos(cs.alpn, false)
	if cs.cliKind == "gm" {
		ccfg.GMSupport = gmtls.NewGMSupport()
	} else {
		ccfg.RootCAs = pki.gmStdPool
		if !cs.cliTrusts {
			ccfg.RootCAs = pki.pool
		}
		if cs.tlsVer != 0 {
			ccfg.MinVersion, ccfg.MaxVersion = cs.tlsVer, cs.tlsVer
		}
	}
	switch {
	case cs.stdCliCert == "rsa":
		ccfg.Certificates = []gmtls.Certificate{pki.rsaCert}
	case cs.stdCliCert == "ec":
		ccfg.Certificates = []gmtls.Certificate{pki.ecCert}
	}
	switch cs.cliCert {
	case "trusted":
		if cs.stdCliCert != "" {
			break
		}
		if cs.certSrc == "callbacks" {
			ccfg.GetClientCertificate = func(*gmtls.CertificateRequestInfo) (*gmtls.Certificate, error) { return &pki.cliSig, nil }
		} else {
			ccfg.Certificates = []gmtls.Certificate{pki.cliSig, pki.cliEnc}
		}
	case "untrusted":
		ccfg.Certificates = []gmtls.Certificate{pki.other.cliSig, pki.other.cliEnc}
	}

	if cs.cliKind == "std" || cs.srvMode == "stdserver" {
		runC06Std(c, pki, cs, scfg, ccfg, cls, exp, w)
		return
	}
	if idx%3 == 1 {
		// every third case runs on copies made by Config.Clone(): a copy must behave exactly like the original
		ccfg, scfg = ccfg.Clone(), scfg.Clone()
		w["through"] = "Config.Clone()"
		rep.Count("cases_run_through_Config.Clone", 1)
	}
	out := handshakePair(ccfg, scfg, nil)
	w["client_error"], w["server_error"] = errStr(out.cli.err), errStr(out.srv.err)
	for side, e := range map[string]*endResult{"client": &out.cli, "server": &out.srv} {
		if e.panicked != nil {
			rep.Violation("C06/Handshake/panic/"+side+"/"+e.panicked.Func+"/"+classOfPanic(cs), fmt.Sprintf("%s: %s (%s)", cs.name, e.panicked.Value, why), w)
		}
	}
	if out.stuck != "" {
		rep.Violation("C06/Handshake/stuck", out.stuck, w)
	}
	cOK, sOK := out.cli.completed, out.srv.completed
	// In TLS <= 1.2 the server's Finished is the last message of a full handshake, so the client may complete
	// although the server then rejects nothing more; one-sided completion is judged on the first Read/Write below.
	switch exp {
	case expComplete:
		if !cOK || !sOK {
			rep.Violation("C06/Handshake/supported-combination-fails/"+c06FailClass(cs), fmt.Sprintf("%s: client err=%v server err=%v", cs.name, out.cli.err, out.srv.err), w)
			rep.Eval(cls)
			return
		}
	case expFail:
		if cOK && sOK {
			rep.Violation("C06/Handshake/forbidden-combination-completes/"+why, cs.name, w)
		}
	}
	if cOK != sOK {
		// the completed side must get an error (never application bytes) on its first Read after the peer's abort
		side, e := "client", &out.cli
		if sOK {
			side, e = "server", &out.srv
		}
		buf := make([]byte, 16)
		n, rerr := e.conn.Read(buf)
		if n > 0 || rerr == nil {
			rep.Violation("C06/Handshake/one-sided-completion-delivers-data/"+side, fmt.Sprintf("%s completed, peer failed, Read returned %d bytes err=%v", side, n, rerr), w)
		}
		if exp == expUnspec {
			rep.Count("unspecified_one_sided_then_error", 1)
		}
	}
	if !(cOK && sOK) {
		rep.Eval(cls)
		return
	}
	// ---- agreement
	cst, sst := out.cli.state, out.srv.state
	if cst.Version != sst.Version || cst.CipherSuite != sst.CipherSuite || cst.DidResume != sst.DidResume {
		rep.Violation("C06/ConnectionState/ends-disagree", fmt.Sprintf("client v=%04x s=%04x r=%v, server v=%04x s=%04x r=%v", cst.Version, cst.CipherSuite, cst.DidResume, sst.Version, sst.CipherSuite, sst.DidResume), w)
	}
	if why := c06ProtoAgreement(cs.alpn, cst.NegotiatedProtocol, sst.NegotiatedProtocol); why != "" {
		rep.Violation("C06/ConnectionState/ends-disagree/negotiated-protocol", why, w)
	}
	if cst.NegotiatedProtocol != "" {
		rep.Count("sessions_with_a_negotiated_application_protocol", 1)
	}
	if !sameStrings(out.cli.ekm, out.srv.ekm) {
		rep.Violation("C06/ExportKeyingMaterial/ends-disagree", fmt.Sprintf("client %v server %v", out.cli.ekm, out.srv.ekm), w)
	}
	for _, v := range out.cli.ekm {
		if len(v) > 6 && v[:6] == "error:" {
			rep.Violation("C06/ExportKeyingMaterial/error", v, w)
		}
	}
	// peer certificates
	if len(cst.PeerCertificates) == 0 {
		rep.Violation("C06/ConnectionState/client-sees-no-server-certificate", "", w)
	} else {
		if cs.cliKind == "gm" && !bytes.Equal(cst.PeerCertificates[0].Raw, pki.sigCert.Raw) {
			rep.Violation("C06/ConnectionState/client-sees-wrong-server-certificate", "", w)
		}
	}
	wantPeer := cs.cliCert != "none" && cs.auth != gmtls.NoClientCert
	if wantPeer != (len(sst.PeerCertificates) > 0) {
		rep.Violation("C06/ConnectionState/server-view-of-client-certificate", fmt.Sprintf("expected client certificate present=%v, server sees %d", wantPeer, len(sst.PeerCertificates)), w)
	}
	// negotiated suite follows the preference rule
	if cs.cliKind == "gm" {
		var pref, other []uint16 = cs.cliSuites, cs.srvSuites
		if cs.preferSrv {
			pref, other = cs.srvSuites, cs.cliSuites
		}
		var wantSuite uint16
	outer:
		for _, a := range pref {
			for _, b := range other {
				if a == b {
					wantSuite = a
					break outer
				}
			}
		}
		if exp == expComplete && cst.CipherSuite != wantSuite {
			rep.Violation("C06/Handshake/suite-preference-not-honoured", fmt.Sprintf("negotiated %04x, preference rule gives %04x", cst.CipherSuite, wantSuite), w)
		}
	}
	// ---- data phase with the prefix-stream monitor
	seed := r.U64()
	total := r.Pick(0, 1, 100, 16383, 16384, 16385, 40000, 70000, 150000)
	if c.Thorough && idx%7 == 0 {
		total = 200 * 1024
	}
	c06Exchange(rep, out.cli.conn, out.srv.conn, seed, total, r, w, "C06")
	out.cli.conn.Close()
	out.srv.conn.Close()
	// ---- passive reference decoding of GM sessions
	if cst.Version == gmtls.VersionGMSSL {
		d := ref.DecodeSession(out.log.snapshot(), klog.masters(), pki.encKey.D)
		c06CheckDecoded(rep, d, cs, seed, total, w, out, pki)
		if idx%50 == 0 {
			sample(map[string]interface{}{"config": cs.name, "expect": exp, "wire_messages": d.Messages, "records": len(d.Records), "app_bytes_each_way": total})
		}
	}
	rep.Eval(cls)
	// ---- a second connection from the same client and server configuration (session cache and tickets in play): it must
	// complete again — resumed or by a silent full handshake — with both ends agreeing, and carry data intact
	if cs.tickets && exp == expComplete {
		out2 := handshakePair(ccfg, scfg, nil)
		w2 := map[string]interface{}{"config": cs.name, "connection": 2, "client_error": errStr(out2.cli.err), "server_error": errStr(out2.srv.err)}
		for side, e := range map[string]*endResult{"client": &out2.cli, "server": &out2.srv} {
			if e.panicked != nil {
				rep.Violation("C06/second-connection/panic/"+side+"/"+e.panicked.Func, e.panicked.Value, w2)
			}
		}
		if !out2.cli.completed || !out2.srv.completed {
			rep.Violation("C06/second-connection/fails/"+c06FailClass(cs), fmt.Sprintf("the first connection of this configuration completed; the second: client %v / server %v", out2.cli.err, out2.srv.err), w2)
		} else {
			c2, s2 := out2.cli.state, out2.srv.state
			if c2.DidResume != s2.DidResume || c2.Version != s2.Version || c2.CipherSuite != s2.CipherSuite || c2.Version != cst.Version {
				rep.Violation("C06/second-connection/ends-disagree", fmt.Sprintf("resumed %v/%v version %04x/%04x suite %04x/%04x", c2.DidResume, s2.DidResume, c2.Version, s2.Version, c2.CipherSuite, s2.CipherSuite), w2)
			}
			if !sameStrings(out2.cli.ekm, out2.srv.ekm) {
				rep.Violation("C06/second-connection/ExportKeyingMaterial-differs", "", w2)
			}
			// the peer identities are those of the first connection, resumed or not
			if len(s2.PeerCertificates) != len(sst.PeerCertificates) || (len(s2.PeerCertificates) > 0 && !bytes.Equal(s2.PeerCertificates[0].Raw, sst.PeerCertificates[0].Raw)) {
				rep.Violation(fmt.Sprintf("C06/second-connection/server-view-of-client-certificate-differs/resumed=%v", s2.DidResume), fmt.Sprintf("first connection: %d certificate(s), second: %d", len(sst.PeerCertificates), len(s2.PeerCertificates)), w2)
			}
			if len(c2.PeerCertificates) == 0 || len(cst.PeerCertificates) == 0 || !bytes.Equal(c2.PeerCertificates[0].Raw, cst.PeerCertificates[0].Raw) {
				rep.Violation(fmt.Sprintf("C06/second-connection/client-view-of-server-certificate-differs/resumed=%v", c2.DidResume), "", w2)
			}
			seed2 := r.U64()
			c06Exchange(rep, out2.cli.conn, out2.srv.conn, seed2, 3000, r, w2, "C06")
			out2.cli.conn.Close()
			out2.srv.conn.Close()
			if c2.Version == gmtls.VersionGMSSL {
				d := ref.DecodeSession(out2.log.snapshot(), klog.masters(), pki.encKey.D)
				if d.Err != "" {
					rep.Violation("C06/second-connection/reference-decoder-rejects", d.Err, w2)
				} else {
					for _, p := range d.Problems {
						rep.Violation("C06/second-connection/reference-decoder-problem", p, w2)
					}
					if d.Resumed != c2.DidResume {
						rep.Violation("C06/second-connection/wire-resumption-differs-from-DidResume", fmt.Sprintf("wire %v state %v", d.Resumed, c2.DidResume), w2)
					}
					if !bytes.Equal(d.AppC2S, patBytes(seed2, 0, 0, 3000)) || !bytes.Equal(d.AppS2C, patBytes(seed2, 1, 0, 3000)) {
						rep.Violation("C06/second-connection/reference-decodes-different-plaintext", "", w2)
					}
				}
			}
			rep.Eval(fmt.Sprintf("second-connection/srv=%s/cli=%s/suite=%s/resumed=%v", cs.srvMode, cs.cliKind, suiteNames(cs.cliSuites), c2.DidResume))
		}
		// ---- a third connection that the policy forbids: the server configuration is tightened (a copy requiring a verified
		// client certificate, same ticket keys) and the client — still holding the session and ticket of the connections
		// before — now presents a certificate the server does not trust. Resumed or not, ticket offered or not: both sides
		// must fail.
		// (Only where the session held by the client was set up without a client certificate the tightened server could verify:
		// a session that carries a certificate the server trusts resumes with that identity — the stored chain is verified at
		// resumption — whatever certificate the client configuration names by now.)
		if cs.cliKind == "gm" && (cs.srvMode == "gm" || cs.srvMode == "auto") && pki.other != nil && len(sst.VerifiedChains) == 0 && cs.cliCert != "trusted" {
			s3 := scfg.Clone()
			s3.ClientAuth, s3.ClientCAs = gmtls.RequireAndVerifyClientCert, pki.pool
			c3 := ccfg.Clone()
			c3.GetClientCertificate = nil
			c3.Certificates = []gmtls.Certificate{pki.other.cliSig, pki.other.cliEnc}
			out3 := handshakePair(c3, s3, nil)
			w3 := map[string]interface{}{"config": cs.name, "connection": 3, "server_policy_now": "require-and-verify", "client_certificate_now": "untrusted", "client_error": errStr(out3.cli.err), "server_error": errStr(out3.srv.err)}
			for side, e := range map[string]*endResult{"client": &out3.cli, "server": &out3.srv} {
				if e.panicked != nil {
					rep.Violation("C06/third-connection/panic/"+side+"/"+e.panicked.Func, e.panicked.Value, w3)
				}
			}
			if out3.srv.completed {
				w3["server_resumed"] = out3.srv.state.DidResume
				rep.Violation("C06/Handshake/forbidden-combination-completes/untrusted-client-certificate-after-the-policy-was-tightened(ticket-held)", fmt.Sprintf("server completed (resumed=%v) with a client whose certificate it cannot verify", out3.srv.state.DidResume), w3)
			}
			if out3.cli.completed {
				out3.cli.conn.Close()
			}
			if out3.srv.completed {
				out3.srv.conn.Close()
			}
			rep.Count("third_connections_with_tightened_policy", 1)
			rep.Eval(fmt.Sprintf("third-connection/tightened-policy/srv=%s/first-auth=%s/first-ccert=%s", cs.srvMode, authName(cs.auth), cs.cliCert))
		}
	}
}

func classOfPanic(cs c06Case) string {
	for _, s := range append(append([]uint16{}, cs.cliSuites...), cs.srvSuites...) {
		if s == gmtls.GMTLS_ECDHE_SM4_CBC_SM3 || s == gmtls.GMTLS_ECDHE_SM4_GCM_SM3 {
			return "ecdhe-gm-suite"
		}
	}
	if cs.tlsVer != 0 {
		return fmt.Sprintf("tls-%04x", cs.tlsVer)
	}
	return "srv=" + cs.srvMode + "/cli=" + cs.cliKind
}

func c06FailClass(cs c06Case) string {
	k := "srv=" + cs.srvMode + "/cli=" + cs.cliKind + "/src=" + cs.certSrc
	if cs.tlsVer != 0 {
		k += fmt.Sprintf("/ver=%04x", cs.tlsVer)
	}
	if cs.auth != gmtls.NoClientCert {
		k += "/auth=" + authName(cs.auth) + "/ccert=" + cs.cliCert
	}
	return k
}

type rw interface {
	io.Reader
	io.Writer
}

// c06Exchange sends total patterned bytes in each direction concurrently with seeded fragment sizes and checks online
// that what arrives is exactly the sent prefix.
func c06Exchange(rep *mon.Reporter, a, b rw, seed uint64, total int, r *mon.RNG, w map[string]interface{}, prop string) {
	var wg sync.WaitGroup
	// write plans (chosen by the seed, per direction): mixed sizes; a ramp of many small writes followed by writes larger than
	// one record; one single write of everything; small writes only
	send := func(dst io.Writer, dir int, rr *mon.RNG) {
		defer wg.Done()
		plan := int((seed>>8)+uint64(dir)) % 5
		rep.Count(fmt.Sprintf("write_plan_%d", plan), 1)
		k := 0
		for off := 0; off < total; k++ {
			var n int
			switch plan {
			case 2:
				if k < 20 {
					n = 1 + rr.Intn(100)
				} else {
					n = 16385 + rr.Intn(24000)
				}
			case 3:
				n = total
			case 4:
				n = 1 + rr.Intn(1000)
			default:
				n = rr.Pick(1, 2, 100, 1000, 16383, 16384, 16385, 1+rr.Intn(30000))
			}
			if off+n > total {
				n = total - off
			}
			m, err := dst.Write(patBytes(seed, dir, off, n))
			if err != nil || m != n {
				rep.Violation(prop+"/Write/error-on-established-connection", fmt.Sprintf("dir %d offset %d: n=%d err=%v", dir, off, m, err), w)
				return
			}
			off += n
		}
		// in half of the exchanges the sender announces the end of its stream right after its last byte (close_notify
		// then travels together with the last records): the receiver must still get every byte, then a clean end
		if cw, ok := dst.(interface{ CloseWrite() error }); ok && (seed>>16+uint64(dir))%2 == 0 {
			cw.CloseWrite()
			rep.Count("directions_half_closed_right_after_the_last_write", 1)
		}
	}
	recv := func(src io.Reader, dir int, rr *mon.RNG) {
		defer wg.Done()
		got := 0
		buf := make([]byte, 70000)
		for got < total {
			lim := len(buf) - 1
			if (seed>>20)%3 == 0 {
				lim = 300 // small application buffers: a record is then delivered over several Read calls
			}
			n, err := src.Read(buf[:1+rr.Intn(lim)])
			for i := 0; i < n; i++ {
				if buf[i] != patByte(seed, dir, got+i) {
					rep.Violation(prop+"/Read/delivered-bytes-differ-from-sent", fmt.Sprintf("dir %d: first wrong byte at offset %d", dir, got+i), w)
					return
				}
			}
			got += n
			if err == io.EOF && got == total {
				break // the end of the stream may be reported together with its last bytes
			}
			if err != nil {
				rep.Violation(prop+"/Read/error-before-all-bytes-arrived", fmt.Sprintf("dir %d: %d of %d bytes then %v", dir, got, total, err), w)
				return
			}
		}
		rep.Count("payload_bytes_verified", int64(got))
	}
	wg.Add(4)
	go send(a, 0, mon.NewRNG(seed+1))
	go send(b, 1, mon.NewRNG(seed+2))
	go recv(b, 0, mon.NewRNG(seed+3))
	go recv(a, 1, mon.NewRNG(seed+4))
	wg.Wait()
}

func c06CheckDecoded(rep *mon.Reporter, d *ref.Decoded, cs c06Case, seed uint64, total int, w map[string]interface{}, out *pairOutcome, pki *tlsPKI) {
	if d.Err != "" {
		rep.Violation("C06/wire/reference-decoder-rejects", d.Err, w)
		return
	}
	for _, p := range d.Problems {
		rep.Violation("C06/wire/reference-decoder-problem", p, w)
	}
	if d.Version != gmtls.VersionGMSSL || d.Suite != out.cli.state.CipherSuite {
		rep.Violation("C06/wire/version-or-suite-on-wire-differs-from-ConnectionState", fmt.Sprintf("wire v=%04x s=%04x", d.Version, d.Suite), w)
	}
	if !d.Resumed {
		if !d.SKEPresent || !d.SKESigOK {
			rep.Violation("C06/wire/ServerKeyExchange-signature-not-GMT0024", fmt.Sprintf("present=%v ok=%v", d.SKEPresent, d.SKESigOK), w)
		}
		if !d.PMSChecked || !d.PMSOK {
			rep.Violation("C06/wire/premaster-not-recoverable-with-encryption-key", fmt.Sprintf("checked=%v ok=%v", d.PMSChecked, d.PMSOK), w)
		}
		if len(d.ServerCerts) < 2 || !bytes.Equal(d.ServerCerts[0], pki.sigCert.Raw) || !bytes.Equal(d.ServerCerts[1], pki.encCert.Raw) {
			rep.Violation("C06/wire/server-certificate-list", fmt.Sprintf("%d certificates", len(d.ServerCerts)), w)
		}
		if d.CertVerifyPresent && !d.CertVerifyOK {
			rep.Violation("C06/wire/CertificateVerify-not-GMT0024", "", w)
		}
	}
	if !d.ClientFinishedSeen || !d.ClientFinishedOK || !d.ServerFinishedSeen || !d.ServerFinishedOK {
		rep.Violation("C06/wire/Finished-not-GMT0024", fmt.Sprintf("client seen=%v ok=%v server seen=%v ok=%v", d.ClientFinishedSeen, d.ClientFinishedOK, d.ServerFinishedSeen, d.ServerFinishedOK), w)
	}
	if !bytes.Equal(d.AppC2S, patBytes(seed, 0, 0, total)) || !bytes.Equal(d.AppS2C, patBytes(seed, 1, 0, total)) {
		rep.Violation("C06/wire/reference-decodes-different-plaintext", fmt.Sprintf("c2s %d bytes, s2c %d bytes, expected %d", len(d.AppC2S), len(d.AppS2C), total), w)
	}
	rep.Count("gm_sessions_decoded_by_reference", 1)
	rep.Count("gm_records_verified_by_reference", int64(len(d.Records)))
}

// ---- crypto/tls interop
func runC06Std(c *Ctx, pki *tlsPKI, cs c06Case, scfg, ccfg *gmtls.Config, cls, exp string, w map[string]interface{}) {
	rep := c.Rep
	log := &wireLog{}
	cm, sm := newMemPair(log, nil)
	var wg sync.WaitGroup
	var cErr, sErr error
	var cPanic, sPanic *mon.PanicInfo
	var ca, sa rw
	var cVer, sVer, cSuite, sSuite uint16
	var cProto, sProto string
	stdVer := func(v uint16) uint16 { return v }
	if cs.cliKind == "std" {
		sc := gmtls.Server(sm, scfg)
		stdc := &stdtls.Config{NextProtos: c06Protos(cs.alpn, false), ServerName: tlsServerName, RootCAs: pki.stdRootPool, CipherSuites: cs.cliSuites, MinVersion: stdVer(cs.tlsVer), MaxVersion: stdVer(cs.tlsVer), Time: func() (t timeT) { return fixedNow }}
		switch cs.stdCliCert {
		case "rsa":
			stdc.Certificates = []stdtls.Certificate{pki.stdRSA}
		case "ec":
			stdc.Certificates = []stdtls.Certificate{pki.stdEC}
		}
		cc := stdtls.Client(cm, stdc)
		wg.Add(2)
		go func() {
			defer wg.Done()
			cPanic = mon.Guard(func() { cErr = cc.Handshake() })
			if cErr != nil {
				cm.Close()
			} else {
				st := cc.ConnectionState()
				cVer, cSuite, cProto = st.Version, st.CipherSuite, st.NegotiatedProtocol
			}
		}()
		go func() {
			defer wg.Done()
			sPanic = mon.Guard(func() { sErr = sc.Handshake() })
			if sErr != nil || sPanic != nil {
				sm.Close()
			} else {
				st := sc.ConnectionState()
				sVer, sSuite, sProto = st.Version, st.CipherSuite, st.NegotiatedProtocol
			}
		}()
		ca, sa = cc, sc
	} else {
		cert := pki.stdRSA
		if cs.stdCert == "ec" {
			cert = pki.stdEC
		}
		stds := &stdtls.Config{NextProtos: c06Protos(cs.alpn, true), Certificates: []stdtls.Certificate{cert}, CipherSuites: cs.srvSuites, MinVersion: cs.tlsVer, MaxVersion: cs.tlsVer, Time: func() (t timeT) { return fixedNow }}
		if cs.stdCliCert != "" {
			stds.ClientAuth = stdtls.RequireAnyClientCert
		}
		sc := stdtls.Server(sm, stds)
		cc := gmtls.Client(cm, ccfg)
		wg.Add(2)
		go func() {
			defer wg.Done()
			cPanic = mon.Guard(func() { cErr = cc.Handshake() })
			if cErr != nil || cPanic != nil {
				cm.Close()
			} else {
				st := cc.ConnectionState()
				cVer, cSuite, cProto = st.Version, st.CipherSuite, st.NegotiatedProtocol
			}
		}()
		go func() {
			defer wg.Done()
			sPanic = mon.Guard(func() { sErr = sc.Handshake() })
			if sErr != nil {
				sm.Close()
			} else {
				st := sc.ConnectionState()
				sVer, sSuite, sProto = st.Version, st.CipherSuite, st.NegotiatedProtocol
			}
		}()
		ca, sa = cc, sc
	}
	wg.Wait()
	w["client_error"], w["server_error"] = errStr(cErr), errStr(sErr)
	if cPanic != nil {
		rep.Violation("C06/Handshake/panic/client/"+cPanic.Func+"/"+classOfPanic(cs), cPanic.Value, w)
	}
	if sPanic != nil {
		rep.Violation("C06/Handshake/panic/server/"+sPanic.Func+"/"+classOfPanic(cs), sPanic.Value, w)
	}
	ok := cErr == nil && sErr == nil && cPanic == nil && sPanic == nil
	switch exp {
	case expComplete:
		if !ok {
			// crypto/tls may itself refuse a legacy cell: only count it against gmsm when the gmsm side reported the error first
			rep.Violation("C06/interop-with-crypto/tls/fails/"+c06FailClass(cs)+"/"+cs.stdCert, fmt.Sprintf("%s: client err=%v server err=%v", cs.name, cErr, sErr), w)
			rep.Eval(cls)
			return
		}
	case expFail:
		if ok {
			rep.Violation("C06/Handshake/forbidden-combination-completes/std-peer", cs.name, w)
		}
		rep.Eval(cls)
		return
	}
	if !ok {
		rep.Eval(cls)
		return
	}
	if cs.stdCliCert != "" {
		n := 0
		switch sv := sa.(type) {
		case *gmtls.Conn:
			n = len(sv.ConnectionState().PeerCertificates)
		case *stdtls.Conn:
			n = len(sv.ConnectionState().PeerCertificates)
		}
		if n == 0 {
			rep.Violation("C06/interop-with-crypto/tls/server-sees-no-client-certificate", cs.name, w)
		}
	}
	if why := c06ProtoAgreement(cs.alpn, cProto, sProto); why != "" {
		rep.Violation("C06/interop-with-crypto/tls/ends-disagree/negotiated-protocol", why, w)
	}
	if cVer != sVer || cSuite != sSuite || cVer != cs.tlsVer {
		rep.Violation("C06/interop-with-crypto/tls/ends-disagree", fmt.Sprintf("client v=%04x s=%04x server v=%04x s=%04x want v=%04x", cVer, cSuite, sVer, sSuite, cs.tlsVer), w)
	}
	r := c.Rng("std" + cs.name)
	c06Exchange(rep, ca, sa, r.U64(), r.Pick(1, 1000, 16385, 40000), r, w, "C06")
	rep.Count("sessions_with_crypto_tls_peer", 1)
	rep.Eval(cls)
}

// c06Protos: the application-protocol lists of variant a (server and client list the common protocols in opposite orders).
func c06Protos(a int, server bool) []string {
	switch a {
	case 1:
		if server {
			return []string{"verif/2", "verif/1", "only-server"}
		}
		return []string{"only-client", "verif/1", "verif/2"}
	case 2:
		if server {
			return []string{"only-server"}
		}
		return []string{"only-client"}
	}
	return nil
}

// c06ProtoAgreement: both ends must report the same application protocol; a reported protocol must be one both sides listed.
func c06ProtoAgreement(a int, cp, sp string) string {
	if cp != sp {
		return fmt.Sprintf("client reports %q, server reports %q", cp, sp)
	}
	if cp == "" {
		return ""
	}
	if a != 1 || (cp != "verif/1" && cp != "verif/2") {
		return fmt.Sprintf("both report %q, which is not on both lists (variant %d)", cp, a)
	}
	return ""
}
