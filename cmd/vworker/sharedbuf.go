package main

import "fmt"

// sharedBuf lays several inputs out one behind the other in one live buffer, the way a caller slices a received record
// (ID‖message, AAD‖ciphertext‖tag, ...). Each returned slice is a plain sub-slice: its capacity runs to the end of the
// buffer, so a callee that appends to it, or writes past its length, lands in the inputs behind it. Guard bytes in
// front and 512 canary bytes behind catch writes outside the parts.
type sharedBuf struct {
	arr, orig []byte
	offs      []int
}

const sharedTail = 512

func newSharedBuf(parts ...[]byte) (*sharedBuf, [][]byte) {
	n := 32
	for _, p := range parts {
		n += len(p)
	}
	b := &sharedBuf{arr: make([]byte, n+sharedTail)}
	for i := range b.arr {
		b.arr[i] = 0xA5
	}
	off := 32
	var out [][]byte
	for _, p := range parts {
		copy(b.arr[off:], p)
		b.offs = append(b.offs, off)
		out = append(out, b.arr[off:off+len(p)])
		off += len(p)
	}
	b.orig = append([]byte{}, b.arr...)
	return b, out
}

// Check reports the first byte of the buffer the callee changed ("" if none), named by the part it lies in.
func (b *sharedBuf) Check() string {
	for i := range b.arr {
		if b.arr[i] != b.orig[i] {
			part := "guard zone in front"
			for pi, o := range b.offs {
				if i >= o {
					part = fmt.Sprintf("part %d at offset %d", pi, i-o)
				}
			}
			if i >= len(b.arr)-sharedTail {
				part = fmt.Sprintf("spare capacity behind the last part, byte %d", i-(len(b.arr)-sharedTail))
			}
			return fmt.Sprintf("caller memory changed: %s (0x%02x -> 0x%02x)", part, b.orig[i], b.arr[i])
		}
	}
	return ""
}

// Restore puts the original contents back (after a reported change, so that later steps are judged on their own).
func (b *sharedBuf) Restore() { copy(b.arr, b.orig) }
