package main

import (
	"math/big"
	"strings"

	"verif/mon"
)

// heldAll watches results that calls of the current property returned (by reference): at the end of the run every one of
// them must still hold the value it had when it was returned. A result is the caller's; a later call that reuses its
// memory (pooled buffers, scratch space handed out as a result) changes it behind the caller's back, which no
// comparison made right after the call can see.
var heldAll = &mon.Held{Max: 30000}

// keep registers a returned slice (up to 8 KiB, to bound memory) and passes it through.
func keep(label string, b []byte) []byte {
	if len(b) <= 8192 {
		heldAll.Keep(label, b)
	}
	return b
}

func keepInt(label string, v *big.Int) *big.Int {
	heldAll.KeepInt(label, v)
	return v
}

// checkHeld reports changed results as violations of the running property.
func checkHeld(c *Ctx) {
	for _, ch := range heldAll.Check() {
		c.Rep.Violation(c.Prop+"/"+strings.SplitN(ch, ":", 2)[0]+"/returned-value-changed-by-a-later-call", ch, nil)
	}
	if n := heldAll.Kept(); n > 0 {
		c.Rep.Count("returned_values_rechecked_at_the_end_of_the_run", int64(n))
	}
}
