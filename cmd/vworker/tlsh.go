package main

import (
	"bytes"
	"crypto"
	stdtls "crypto/tls"
	stdx509 "crypto/x509"
	"encoding/hex"
	"errors"
	"fmt"
	"io"
	"net"
	"os"
	"path/filepath"
	"strings"
	"sync"
	"sync/atomic"
	"time"

	"github.com/tjfoc/gmsm/gmtls"
	"github.com/tjfoc/gmsm/sm2"
	gx509 "github.com/tjfoc/gmsm/x509"

	"verif/mon"
	"verif/ref"
)

// ---------------------------------------------------------------- in-memory transport with tap / MITM

type wireLog struct {
	mu     sync.Mutex
	events []ref.WireEvent
}

func (w *wireLog) add(fromClient bool, b []byte) {
	w.mu.Lock()
	w.events = append(w.events, ref.WireEvent{FromClient: fromClient, Data: append([]byte{}, b...)})
	w.mu.Unlock()
}

func (w *wireLog) count() int {
	w.mu.Lock()
	defer w.mu.Unlock()
	return len(w.events)
}

func (w *wireLog) snapshot() []ref.WireEvent {
	w.mu.Lock()
	defer w.mu.Unlock()
	return append([]ref.WireEvent{}, w.events...)
}

// mutator sees every complete record of one direction and returns the records to forward
// (nil = unchanged). closeAfter asks to end the stream after forwarding.
type mutator func(fromClient bool, idx int, rec []byte) (out [][]byte, closeAfter bool)

// halfPipe is one direction: unbounded buffer, reader blocks until data or close.
type halfPipe struct {
	mu            sync.Mutex
	cond          *sync.Cond
	buf           []byte
	closed        bool
	readsAfterEOF int
	waiting       int // a reader is parked (guarded by mu)
}

func newHalfPipe() *halfPipe {
	h := &halfPipe{}
	h.cond = sync.NewCond(&h.mu)
	return h
}

func (h *halfPipe) write(b []byte) {
	h.mu.Lock()
	if !h.closed {
		h.buf = append(h.buf, b...)
	}
	h.mu.Unlock()
	h.cond.Broadcast()
}

func (h *halfPipe) close() {
	h.mu.Lock()
	h.closed = true
	h.mu.Unlock()
	h.cond.Broadcast()
}

func (h *halfPipe) read(p []byte) (int, error) {
	h.mu.Lock()
	defer h.mu.Unlock()
	for len(h.buf) == 0 && !h.closed {
		h.waiting = 1 // guarded by h.mu: observed under the lock it means "parked in Wait with nothing to read"
		h.cond.Wait()
		h.waiting = 0
	}
	if len(h.buf) == 0 {
		h.readsAfterEOF++
		return 0, io.EOF
	}
	n := copy(p, h.buf)
	h.buf = h.buf[n:]
	return n, nil
}

// parkedEmpty reports, under the pipe's lock, that a reader is parked on an empty, open pipe.
func (h *halfPipe) parkedEmpty() bool {
	h.mu.Lock()
	defer h.mu.Unlock()
	return h.waiting == 1 && len(h.buf) == 0 && !h.closed
}

// memConn is one end of the duplex connection.
type memConn struct {
	in, out    *halfPipe
	fromClient bool
	log        *wireLog // what was forwarded to the peer
	orig       *wireLog // what the endpoint wrote (before any mutation); nil = same as log
	mut        mutator
	pend       []byte // bytes written but not yet forming a complete record (only with a mutator)
	recIdx     int
	wmu        sync.Mutex
	closedW    bool
	name       string
}

type memAddr string

func (a memAddr) Network() string { return "mem" }
func (a memAddr) String() string  { return string(a) }

func (c *memConn) Read(p []byte) (int, error) { return c.in.read(p) }
func (c *memConn) Write(p []byte) (int, error) {
	c.wmu.Lock()
	defer c.wmu.Unlock()
	if c.closedW {
		return 0, errors.New("memconn: write on closed connection")
	}
	if c.mut == nil {
		c.log.add(c.fromClient, p)
		c.out.write(p)
		return len(p), nil
	}
	c.pend = append(c.pend, p...)
	for len(c.pend) >= 5 {
		n := int(c.pend[3])<<8 | int(c.pend[4])
		if len(c.pend) < 5+n {
			break
		}
		rec := append([]byte{}, c.pend[:5+n]...)
		c.pend = c.pend[5+n:]
		if c.orig != nil {
			c.orig.add(c.fromClient, rec)
		}
		outs, closeAfter := c.mut(c.fromClient, c.recIdx, rec)
		c.recIdx++
		if outs == nil {
			outs = [][]byte{rec}
		}
		for _, o := range outs {
			c.log.add(c.fromClient, o)
			c.out.write(o)
		}
		if closeAfter {
			c.out.close()
			c.closedW = true
			return len(p), nil
		}
	}
	return len(p), nil
}
func (c *memConn) Close() error {
	c.wmu.Lock()
	c.closedW = true
	c.wmu.Unlock()
	c.out.close()
	c.in.close()
	return nil
}
func (c *memConn) LocalAddr() net.Addr                { return memAddr(c.name) }
func (c *memConn) RemoteAddr() net.Addr               { return memAddr("peer-of-" + c.name) }
func (c *memConn) SetDeadline(t time.Time) error      { return nil }
func (c *memConn) SetReadDeadline(t time.Time) error  { return nil }
func (c *memConn) SetWriteDeadline(t time.Time) error { return nil }

// newMemPair returns (client end, server end).
func newMemPair(log *wireLog, mut mutator) (*memConn, *memConn) {
	c2s, s2c := newHalfPipe(), newHalfPipe()
	var orig *wireLog
	if mut != nil {
		orig = &wireLog{}
	}
	cl := &memConn{in: s2c, out: c2s, fromClient: true, log: log, orig: orig, mut: mut, name: "client"}
	sv := &memConn{in: c2s, out: s2c, fromClient: false, log: log, orig: orig, mut: mut, name: "server"}
	return cl, sv
}

type timeT = time.Time

// ---------------------------------------------------------------- PKI for TLS

type tlsPKI struct {
	rootKey        *sm2.PrivateKey
	root           *gx509.Certificate
	pool           *gx509.CertPool
	sigKey         *sm2.PrivateKey
	encKey         *sm2.PrivateKey
	sigCert        *gx509.Certificate
	encCert        *gx509.Certificate
	sig, enc       gmtls.Certificate
	cliSig, cliEnc gmtls.Certificate
	cliSigKey      *sm2.PrivateKey
	cliSigCert     *gx509.Certificate
	// an unrelated PKI (untrusted)
	other *tlsPKI
	// standard-algorithm material
	rsaCert, ecCert gmtls.Certificate
	stdRootPool     *stdx509.CertPool // contains the RSA/EC leaf certs themselves (self-signed)
	gmStdPool       *gx509.CertPool
	stdRSA, stdEC   stdtls.Certificate
}

const tlsServerName = "server.verif.example"

func newTLSPKI(r *mon.RNG, withOther bool) (*tlsPKI, error) {
	p := &tlsPKI{}
	p.rootKey = newSM2Key(r)
	var err error
	p.root, _, err = issueSM2(certSpec{cn: "Verif TLS Root", serial: 1, isCA: true}, &p.rootKey.PublicKey, nil, p.rootKey, r)
	if err != nil {
		return nil, err
	}
	p.pool = gx509.NewCertPool()
	p.pool.AddCert(p.root)
	mk := func(cn string, serial int64, ku gx509.KeyUsage, eku []gx509.ExtKeyUsage, dns []string) (*sm2.PrivateKey, *gx509.Certificate, gmtls.Certificate, error) {
		k := newSM2Key(r)
		c, der, err := issueSM2(certSpec{cn: cn, serial: serial, dns: dns, keyUsage: ku, eku: eku}, &k.PublicKey, p.root, p.rootKey, r)
		if err != nil {
			return nil, nil, gmtls.Certificate{}, err
		}
		return k, c, gmtls.Certificate{Certificate: [][]byte{der}, PrivateKey: k}, nil
	}
	both := []gx509.ExtKeyUsage{gx509.ExtKeyUsageServerAuth, gx509.ExtKeyUsageClientAuth}
	if p.sigKey, p.sigCert, p.sig, err = mk("server sign", 10, gx509.KeyUsageDigitalSignature, both, []string{tlsServerName}); err != nil {
		return nil, err
	}
	if p.encKey, p.encCert, p.enc, err = mk("server enc", 11, gx509.KeyUsageKeyEncipherment|gx509.KeyUsageDataEncipherment|gx509.KeyUsageKeyAgreement, both, []string{tlsServerName}); err != nil {
		return nil, err
	}
	if p.cliSigKey, p.cliSigCert, p.cliSig, err = mk("client sign", 20, gx509.KeyUsageDigitalSignature, both, nil); err != nil {
		return nil, err
	}
	if _, _, p.cliEnc, err = mk("client enc", 21, gx509.KeyUsageKeyEncipherment|gx509.KeyUsageDataEncipherment, both, nil); err != nil {
		return nil, err
	}
	// RSA and ECDSA self-signed server certificates for the TLS suites
	rk, _ := cachedRSA()
	_, rder, err := issueStd(tlsServerName, 30, true, []string{tlsServerName}, &rk.PublicKey, nil, rk, r)
	if err != nil {
		return nil, err
	}
	ek := newP256Key(r)
	_, eder, err := issueStd(tlsServerName, 31, true, []string{tlsServerName}, &ek.PublicKey, nil, ek, r)
	if err != nil {
		return nil, err
	}
	p.rsaCert = gmtls.Certificate{Certificate: [][]byte{rder}, PrivateKey: rk}
	p.ecCert = gmtls.Certificate{Certificate: [][]byte{eder}, PrivateKey: ek}
	p.stdRSA = stdtls.Certificate{Certificate: [][]byte{rder}, PrivateKey: rk}
	p.stdEC = stdtls.Certificate{Certificate: [][]byte{eder}, PrivateKey: ek}
	p.stdRootPool = stdx509.NewCertPool()
	p.gmStdPool = gx509.NewCertPool()
	for _, der := range [][]byte{rder, eder} {
		if c, e := stdx509.ParseCertificate(der); e == nil {
			p.stdRootPool.AddCert(c)
		}
		if c, e := gx509.ParseCertificate(der); e == nil {
			p.gmStdPool.AddCert(c)
		}
	}
	if withOther {
		p.other, err = newTLSPKI(r, false)
		if err != nil {
			return nil, err
		}
	}
	return p, nil
}

// ---------------------------------------------------------------- running a pair of endpoints

type endResult struct {
	err       error
	panicked  *mon.PanicInfo
	state     gmtls.ConnectionState
	completed bool
	ekm       map[string]string
	conn      *gmtls.Conn
}

type keyLog struct {
	mu  sync.Mutex
	buf bytes.Buffer
}

func (k *keyLog) Write(p []byte) (int, error) {
	k.mu.Lock()
	defer k.mu.Unlock()
	return k.buf.Write(p)
}

// masters parses CLIENT_RANDOM lines.
func (k *keyLog) masters() [][]byte {
	k.mu.Lock()
	defer k.mu.Unlock()
	var out [][]byte
	for _, l := range strings.Split(k.buf.String(), "\n") {
		f := strings.Fields(l)
		if len(f) == 3 && f[0] == "CLIENT_RANDOM" {
			if m, err := hex.DecodeString(f[2]); err == nil {
				out = append(out, m)
			}
		}
	}
	return out
}

var ekmProbes = []struct {
	label string
	ctx   []byte
	n     int
}{{"EXPORTER-verif-1", nil, 32}, {"EXPORTER-verif-2", []byte{}, 1}, {"EXPORTER-verif-3", bytes.Repeat([]byte{7}, 32), 100}}

func collectEKM(c *gmtls.Conn) map[string]string {
	out := map[string]string{}
	st := c.ConnectionState()
	for _, p := range ekmProbes {
		if v, err := st.ExportKeyingMaterial(p.label, p.ctx, p.n); err == nil {
			out[p.label] = hex.EncodeToString(v)
		} else {
			out[p.label] = "error:" + err.Error()
		}
	}
	return out
}

// handshakePair runs both handshakes concurrently on an in-memory connection and waits for both.
// A generous wall-clock guard (not a verdict) protects against a stuck pair: stuck is decided by quiescence.
type pairOutcome struct {
	cli, srv     endResult
	log          *wireLog
	orig         *wireLog // endpoint output before mutation (== log without a mutator)
	stuck        string
	oneSided     bool // one side completed while the other was still waiting for handshake input
	cconn, sconn *memConn
}

func handshakePair(ccfg, scfg *gmtls.Config, mut mutator) *pairOutcome {
	log := &wireLog{}
	cm, sm := newMemPair(log, mut)
	cc := gmtls.Client(cm, ccfg)
	sc := gmtls.Server(sm, scfg)
	out := &pairOutcome{log: log, cconn: cm, sconn: sm, orig: cm.orig}
	if out.orig == nil {
		out.orig = log
	}
	out.cli.conn, out.srv.conn = cc, sc
	var wg sync.WaitGroup
	var cliFin, srvFin int32
	run := func(c *gmtls.Conn, res *endResult, own *memConn) {
		defer wg.Done()
		defer func() {
			if own == cm {
				atomic.StoreInt32(&cliFin, 1)
			} else {
				atomic.StoreInt32(&srvFin, 1)
			}
		}()
		res.panicked = mon.Guard(func() { res.err = c.Handshake() })
		if res.panicked != nil || res.err != nil {
			// a failed endpoint closes its transport (as a real caller would), so the peer sees EOF
			own.Close()
			return
		}
		res.completed = true
		res.state = c.ConnectionState()
		res.ekm = collectEKM(c)
	}
	wg.Add(2)
	go run(cc, &out.cli, cm)
	go run(sc, &out.srv, sm)
	done := make(chan struct{})
	go func() { wg.Wait(); close(done) }()
	// quiescence sentinel (logical, not wall-clock): if the reader of *each* direction is parked on an empty open pipe,
	// both handshake goroutines are blocked waiting for input that nobody can produce any more — a deadlock by
	// construction, whatever the machine load. Three consecutive consistent observations are required.
	tick := time.NewTicker(10 * time.Millisecond)
	defer tick.Stop()
	idle, halfIdle := 0, 0
	// bounded progress: a handshake endpoint that is neither finished nor waiting for input, while nothing moves on the wire
	// for two minutes of wall-clock time, is spinning (a step of a handshake costs milliseconds). That is reported as "does
	// not return" for the running property; the pair is abandoned (its goroutine keeps a core busy until the process ends).
	lastMove, lastEvents := time.Now(), -1
	for {
		select {
		case <-done:
			return out
		case <-tick.C:
			if n := log.count() + int(atomic.LoadInt32(&cliFin)) + int(atomic.LoadInt32(&srvFin)); n != lastEvents {
				lastEvents, lastMove = n, time.Now()
			} else if time.Since(lastMove) > 2*time.Minute {
				who := "client"
				if atomic.LoadInt32(&cliFin) == 1 || (cm.in.parkedEmpty() && !sm.in.parkedEmpty()) {
					who = "server"
				}
				out.stuck = "the " + who + " endpoint neither returned nor waited for input for two minutes with nothing moving on the wire (spinning)"
				if curCtx != nil {
					curCtx.Rep.Violation(curCtx.Prop+"/Handshake/does-not-return/"+who+"-spins", out.stuck, map[string]interface{}{"wire_events": lastEvents})
				}
				cm.Close()
				sm.Close()
				time.Sleep(300 * time.Millisecond) // lets the endpoint that is not spinning see the closed pipe and return
				noteSpin()
				return out
			}
			if cm.in.parkedEmpty() && sm.in.parkedEmpty() && cm.in.parkedEmpty() {
				idle++
			} else {
				idle = 0
			}
			// one side returned successfully while the other still waits for handshake input that will never come:
			// end the finished side's transport (as its application eventually would) so the waiting side sees EOF
			cf, sf := atomic.LoadInt32(&cliFin) == 1, atomic.LoadInt32(&srvFin) == 1
			if cf && !sf && sm.in.parkedEmpty() {
				halfIdle++
			} else if sf && !cf && cm.in.parkedEmpty() {
				halfIdle++
			} else {
				halfIdle = 0
			}
			if halfIdle >= 3 {
				out.oneSided = true
				if cf {
					cm.Close()
				} else {
					sm.Close()
				}
				halfIdle = 0
			}
			if idle >= 3 {
				out.stuck = "both endpoints parked reading empty pipes (deadlock): nothing in flight and nobody left to write"
				cm.Close()
				sm.Close()
				<-done
				return out
			}
		}
	}
}

func sameStrings(a, b map[string]string) bool {
	if len(a) != len(b) {
		return false
	}
	for k, v := range a {
		if b[k] != v {
			return false
		}
	}
	return true
}

// patterned payload: byte i of direction d is f(seed, d, i) so the receiver can check any prefix online.
func patByte(seed uint64, dir int, i int) byte {
	x := seed + uint64(dir)*0x9e3779b97f4a7c15 + uint64(i)*0xbf58476d1ce4e5b9
	x ^= x >> 29
	x *= 0x94d049bb133111eb
	x ^= x >> 32
	return byte(x)
}

func patBytes(seed uint64, dir, off, n int) []byte {
	b := make([]byte, n)
	for i := range b {
		b[i] = patByte(seed, dir, off+i)
	}
	return b
}

// firstMismatch returns -1 if got is exactly the pattern prefix of its length.
func firstMismatch(seed uint64, dir int, got []byte) int {
	for i, v := range got {
		if v != patByte(seed, dir, i) {
			return i
		}
	}
	return -1
}

func errStr(e error) string {
	if e == nil {
		return "<nil>"
	}
	return e.Error()
}

func suiteName(id uint16) string {
	switch id {
	case gmtls.GMTLS_ECC_SM4_CBC_SM3:
		return "ECC_SM4_CBC_SM3"
	case gmtls.GMTLS_ECC_SM4_GCM_SM3:
		return "ECC_SM4_GCM_SM3"
	case gmtls.GMTLS_ECDHE_SM4_CBC_SM3:
		return "ECDHE_SM4_CBC_SM3"
	case gmtls.GMTLS_ECDHE_SM4_GCM_SM3:
		return "ECDHE_SM4_GCM_SM3"
	}
	return fmt.Sprintf("0x%04x", id)
}

var _ crypto.Signer = (*sm2.PrivateKey)(nil)

// noteSpin is called whenever an endpoint was found not to return (it is abandoned and keeps a core busy). After a few of
// them the machine is saturated by abandoned spinners and the rest of the workload would only time out: the run ends
// there, with the violations recorded so far (a run that found a hang has its verdict).
var spinCount int32

func noteSpin() {
	if atomic.AddInt32(&spinCount, 1) < 3 || curCtx == nil {
		return
	}
	curCtx.Rep.Note("run ended early: three endpoints were found spinning; the remaining cases were not executed")
	curCtx.Rep.Write(filepath.Join(curCtx.Out, "result.json"))
	os.Exit(0)
}
