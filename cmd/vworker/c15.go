package main

import (
	"bytes"
	"fmt"
	"io"
	"math/big"
	"sync"
	"time"

	"github.com/tjfoc/gmsm/gmtls"

	"verif/mon"
	"verif/ref"
)

func init() { registry["C15"] = runC15 }

// deviation describes how the scripted peer departs from the honest flow.
type deviation struct {
	step string // step of the peer's honest flow at which it applies
	kind string
	arg  int
	arg2 int
	and  *deviation // a second deviation at another step of the same handshake (compound scripts)
}

func (d deviation) String() string {
	if d.and != nil {
		return fmt.Sprintf("%s@%s(%d,%d) + %s", d.kind, d.step, d.arg, d.arg2, d.and.String())
	}
	return fmt.Sprintf("%s@%s(%d,%d)", d.kind, d.step, d.arg, d.arg2)
}

func hsSample(typ byte, r *mon.RNG, pki *tlsPKI) []byte {
	switch typ {
	case ref.HSHelloRequest, ref.HSServerHelloDone:
		return ref.HSMsg(typ, nil)
	case ref.HSClientHello:
		return (&ref.ClientHello{Version: ref.TLCPVersion, Random: r.Bytes(32), Suites: []uint16{ref.SuiteECCSM4CBC}, Compression: []byte{0}}).Marshal()
	case ref.HSServerHello:
		return (&ref.ServerHello{Version: ref.TLCPVersion, Random: r.Bytes(32), SessionID: r.Bytes(32), Suite: ref.SuiteECCSM4CBC}).Marshal()
	case ref.HSCertificate:
		return ref.MarshalCertificate([][]byte{pki.sigCert.Raw, pki.encCert.Raw})
	case ref.HSServerKeyExchange:
		return ref.MarshalSKE(r.Bytes(71))
	case ref.HSCertificateRequest:
		return ref.MarshalCertRequest([]byte{1, 64}, nil)
	case ref.HSCertificateVerify:
		return ref.MarshalCertVerify(r.Bytes(71))
	case ref.HSClientKeyExchange:
		return ref.MarshalCKX(r.Bytes(155))
	case ref.HSFinished:
		return ref.HSMsg(ref.HSFinished, r.Bytes(12))
	case ref.HSNewSessionTicket:
		return ref.HSMsg(ref.HSNewSessionTicket, append([]byte{0, 0, 0, 0, 0, 10}, r.Bytes(10)...))
	}
	return ref.HSMsg(typ, r.Bytes(5))
}

// apply installs the deviation on a peer.
func (d deviation) apply(p *ref.Peer, r *mon.RNG, pki *tlsPKI, changed *bool) {
	if d.kind == "eos" {
		p.CloseAfter = d.step
		*changed = true
		return
	}
	if d.kind == "coalesce-with-finished-and-skip-ccs" {
		// the message of this step travels in one record with the peer's Finished, no ChangeCipherSpec is ever sent (so the
		// correctly computed Finished goes out unprotected), and the peer stops sending right after it
		p.Hold = map[string]bool{d.step: true}
		p.CloseAfter = ref.StClientFinished
		p.Mutate = func(step string, def []ref.Item) []ref.Item {
			if step == ref.StClientCCS {
				return nil
			}
			return def
		}
		*changed = true
		return
	}
	if d.kind == "skip-ccs-and-put-a-handshake-record-in-front-of-finished" {
		// no ChangeCipherSpec is sent (so the peer's ciphers are never switched on), and the correctly computed Finished
		// goes out unprotected behind another handshake record: a second copy of itself (arg < 0) or a sample message of
		// type arg. An endpoint that merely skips the unexpected record would then see a valid Finished without any CCS.
		ccs, fin := ref.StClientCCS, ref.StClientFinished
		if d.step == ref.StServerCCS {
			ccs, fin = ref.StServerCCS, ref.StServerFinished
		}
		p.Mutate = func(step string, def []ref.Item) []ref.Item {
			switch step {
			case ccs:
				return nil
			case fin:
				if d.arg < 0 {
					return append(append([]ref.Item{}, def...), def...)
				}
				return append([]ref.Item{{RecType: ref.RecHandshake, Data: hsSample(byte(d.arg), r, pki)}}, def...)
			}
			return def
		}
		*changed = true
		return
	}
	inner := d.mutator(p, r, pki)
	if d.and != nil {
		first, second := inner, d.and.mutator(p, r, pki)
		inner = func(step string, def []ref.Item) []ref.Item { return second(step, first(step, def)) }
	}
	p.Mutate = func(step string, def []ref.Item) []ref.Item {
		out := inner(step, def)
		if step == d.step || (d.and != nil && step == d.and.step) {
			same := len(out) == len(def)
			for i := 0; same && i < len(out); i++ {
				if out[i].RecType != def[i].RecType || string(out[i].Data) != string(def[i].Data) || out[i].RawRecord != nil {
					same = false
				}
			}
			if !same {
				*changed = true
			}
		}
		return out
	}
}

func (d deviation) mutator(p *ref.Peer, r *mon.RNG, pki *tlsPKI) func(step string, def []ref.Item) []ref.Item {
	return func(step string, def []ref.Item) []ref.Item {
		if d.kind == "ecdhe-ske" {
			// the scripted server selects an ECDHE-SM2 suite (which the GM client offers by default) and sends an
			// ECDHE-style ServerKeyExchange: curve_type 3, curve id, point, then a signature part that is cut short,
			// mis-sized or garbage. The reference peer cannot finish such a handshake, so only error/no panic/return is judged.
			switch step {
			case ref.StServerHello:
				if len(def) == 1 && def[0].RecType == ref.RecHandshake && len(def[0].Data) > 4+2+32+1 {
					m := append([]byte{}, def[0].Data...)
					o := 4 + 2 + 32
					o += 1 + int(m[o])
					if o+2 <= len(m) {
						su := []uint16{ref.SuiteECDHECBC, 0xe051}[d.arg2%2]
						m[o], m[o+1] = byte(su>>8), byte(su)
					}
					return []ref.Item{{RecType: ref.RecHandshake, Data: m}}
				}
			case ref.StServerKeyExchange:
				var pt []byte
				q := ref.MulG(new(big.Int).SetBytes(r.Bytes(31)))
				switch (d.arg2 / 2) % 4 {
				case 0, 1:
					pt = append([]byte{4}, append(ref.Pad32(q.X), ref.Pad32(q.Y)...)...)
				case 2:
					pt = append([]byte{4}, append(ref.Pad32(q.X), ref.Pad32(new(big.Int).Add(q.Y, big.NewInt(1)))...)...) // off the curve
				default:
					pt = nil
				}
				body := append([]byte{3, 0, 23, byte(len(pt))}, pt...)
				sig := r.Bytes(70)
				var tail []byte
				switch {
				case d.arg <= 6:
					tail = append([]byte{0, 70}, sig...)[:d.arg] // 0..6 bytes of the signature part
				case d.arg == 7:
					tail = append([]byte{0, 70}, sig...) // well-formed length, garbage signature
				case d.arg == 8:
					tail = append([]byte{0xff, 0xff}, sig...)
				case d.arg == 9:
					tail = append([]byte{0, 0}, sig...)
				default:
					tail = append([]byte{0, 71}, sig...) // length one more than present
				}
				return []ref.Item{{RecType: ref.RecHandshake, Data: ref.HSMsg(ref.HSServerKeyExchange, append(body, tail...))}}
			}
			return def
		}
		if step != d.step {
			return def
		}
		hs := func(b []byte) ref.Item { return ref.Item{RecType: ref.RecHandshake, Data: b} }
		switch d.kind {
		case "omit":
			return nil
		case "repeat":
			return append(append([]ref.Item{}, def...), def...)
		case "replace-hs":
			return []ref.Item{hs(hsSample(byte(d.arg), r, pki))}
		case "prepend-hs":
			return append([]ref.Item{hs(hsSample(byte(d.arg), r, pki))}, def...)
		case "prepend-ccs":
			return append([]ref.Item{{RecType: ref.RecCCS, Data: []byte{1}}}, def...)
		case "replace-ccs":
			return []ref.Item{{RecType: ref.RecCCS, Data: []byte{1}}}
		case "prepend-alert":
			return append([]ref.Item{{RecType: ref.RecAlert, Data: []byte{byte(d.arg), byte(d.arg2)}}}, def...)
		case "prepend-warnings":
			var out []ref.Item
			for i := 0; i < d.arg; i++ {
				out = append(out, ref.Item{RecType: ref.RecAlert, Data: []byte{1, 100}})
			}
			return append(out, def...)
		case "prepend-appdata":
			return append([]ref.Item{{RecType: ref.RecAppData, Data: []byte("GET / HTTP/1.0\r\n\r\n")}}, def...)
		case "cke-asn1":
			// the ASN.1 SM2 ciphertext inside ClientKeyExchange after one structure-preserving edit (arg = index into the list of
			// DER tree edits: integers padded, negated, cut, enlarged by one or two significant octets, members dropped /
			// doubled / rotated, extra INTEGER members): the server must refuse it whatever its fixed-width helpers assume
			if len(def) == 0 || def[0].RecType != ref.RecHandshake || len(def[0].Data) < 7 || def[0].Data[0] != ref.HSClientKeyExchange {
				return def
			}
			body := def[0].Data[4:]
			blob := body[2:]
			edits := derTreeEdits(blob, nil, 0)
			if d.arg >= len(edits) {
				return def
			}
			nb := edits[d.arg]
			return []ref.Item{hs(ref.HSMsg(ref.HSClientKeyExchange, append([]byte{byte(len(nb) >> 8), byte(len(nb))}, nb...)))}
		case "prepend-empty-record-of-type":
			// a record of the given content type with NO content in front of the step's own records: application data has no
			// place in a handshake however little of it there is, and an empty alert or CCS is malformed
			return append([]ref.Item{{RecType: byte(d.arg), Data: []byte{}}}, def...)
		case "prepend-unknown-rectype":
			return append([]ref.Item{{RecType: byte(d.arg), Data: []byte{1, 2, 3}}}, def...)
		case "replace-sslv2":
			return []ref.Item{{RawRecord: []byte{0x80, 0x2e, 0x01, 0x01, 0x01, 0x00, 0x15, 0x00, 0x00, 0x00, 0x10, 0x00, 0xe0, 0x13, 0x00, 0xe0, 0x53}}}
		case "oversize-record":
			return append([]ref.Item{{RawRecord: append([]byte{ref.RecHandshake, 1, 1, 0x48, 0x01}, make([]byte, 0x4801)...)}}, def...)
		case "oversize-hs-length":
			if len(def) == 0 || def[0].RecType != ref.RecHandshake || len(def[0].Data) < 4 {
				return append([]ref.Item{hs([]byte{ref.HSFinished, 0xff, 0xff, 0xff, 1, 2, 3})}, def...)
			}
			return []ref.Item{hs(append([]byte{def[0].Data[0], 0xff, 0xff, 0xff}, def[0].Data[4:]...))}
		case "empty-record":
			return append([]ref.Item{{RawRecord: []byte{ref.RecHandshake, 1, 1, 0, 0}}}, def...)
		case "truncate":
			if len(def) == 0 || def[0].RecType != ref.RecHandshake {
				return def
			}
			m := def[0].Data
			body := m[4:]
			n := d.arg
			if n > len(body) {
				n = len(body)
			}
			return []ref.Item{hs(ref.HSMsg(m[0], body[:n]))}
		case "hs-length-field":
			// the handshake header claims len+delta while the body is unchanged
			if len(def) == 0 || def[0].RecType != ref.RecHandshake {
				return def
			}
			m := append([]byte{}, def[0].Data...)
			l := len(m) - 4 + d.arg
			if l < 0 {
				l = 0
			}
			m[1], m[2], m[3] = byte(l>>16), byte(l>>8), byte(l)
			return []ref.Item{hs(m)}
		case "byte":
			if len(def) == 0 || def[0].RecType != ref.RecHandshake {
				return def
			}
			m := append([]byte{}, def[0].Data...)
			pos := 4 + d.arg
			if pos >= len(m) {
				return def
			}
			switch d.arg2 {
			case 0:
				m[pos] = 0
			case 1:
				m[pos]--
			case 2:
				m[pos]++
			default:
				m[pos] = 0xff
			}
			return []ref.Item{hs(m)}
		case "honest":
			return def
		case "certs":
			var list [][]byte
			switch d.arg {
			case 0:
				list = [][]byte{pki.rsaCert.Certificate[0], pki.rsaCert.Certificate[0]}
			case 1:
				list = [][]byte{pki.sigCert.Raw}
			case 2:
				list = nil
			case 3:
				list = [][]byte{{0x30, 0x03, 0x02, 0x01, 0x01}, {0x30, 0x00}}
			case 4:
				list = [][]byte{pki.sigCert.Raw, pki.ecCert.Certificate[0]}
			default:
				list = [][]byte{pki.ecCert.Certificate[0], pki.encCert.Raw}
			}
			return []ref.Item{hs(ref.MarshalCertificate(list))}
		case "split":
			// legal fragmentation of the message into two records at an offset (not a deviation by itself)
			if len(def) == 0 || def[0].RecType != ref.RecHandshake || d.arg >= len(def[0].Data) || d.arg == 0 {
				return def
			}
			return []ref.Item{hs(def[0].Data[:d.arg]), hs(def[0].Data[d.arg:])}
		case "client-hello":
			// arg = version, arg2 = suite/compression variant
			suites, comp := c15HelloVariant(d.arg2)
			ch := &ref.ClientHello{Version: uint16(d.arg), Random: p.ClientRandom, Suites: suites, Compression: comp}
			return []ref.Item{hs(ch.Marshal())}
		}
		return def
	}
}

// c15HelloVariant maps a variant number to the (suite list, compression list) of a scripted ClientHello.
func c15HelloVariant(v int) ([]uint16, []byte) {
	lists := [][]uint16{{ref.SuiteECCSM4CBC, ref.SuiteECCSM4GCM}, {0x002f, 0xc02f}, {0x1234, 0xfefe}, {}, {ref.SuiteECDHECBC}, {0x5600, ref.SuiteECCSM4CBC}, {0x002f, ref.SuiteECCSM4CBC},
		{0x009c}, {0xc02f}, {0x003c, 0x009d}, {0xc02f, 0x002f}}
	comps := [][]byte{{0}, {1}, {}, {1, 0}}
	return lists[v%len(lists)], comps[(v/len(lists))%len(comps)]
}

const c15HelloVariants = 44

// tls12Only reports suites that may only be selected at TLS 1.2 (AEAD and SHA-256/384 MAC suites).
func tls12Only(su uint16) bool {
	switch su {
	case 0x009c, 0x009d, 0x003c, 0x003d, 0xc02f, 0xc02b, 0xc030, 0xc02c, 0xc027, 0xc023, 0xcca8, 0xcca9:
		return true
	}
	return false
}

// c15ServerHelloLegal checks the first message a server sent against the ClientHello it answered: a ServerHello is
// a refusal to abort, so whatever it selects must have been on offer and must be legal for the version it selects.
func c15ServerHelloLegal(events []ref.WireEvent, cliVersion uint16, offered []uint16, comp []byte) string {
	var ss []byte
	for _, e := range events {
		if !e.FromClient {
			ss = append(ss, e.Data...)
		}
	}
	recs, _ := ref.SplitRecords(ss)
	var hs []byte
	for _, rc := range recs {
		if rc.Type != ref.RecHandshake {
			break
		}
		hs = append(hs, rc.Body...)
	}
	if len(hs) < 4 || hs[0] != ref.HSServerHello {
		return ""
	}
	n := int(hs[1])<<16 | int(hs[2])<<8 | int(hs[3])
	if len(hs) < 4+n {
		return ""
	}
	sh, err := ref.ParseServerHello(hs[4 : 4+n])
	if err != nil {
		return ""
	}
	found := false
	for _, o := range offered {
		if o == sh.Suite {
			found = true
		}
	}
	switch {
	case !found:
		return fmt.Sprintf("ServerHello selects suite %04x which the ClientHello did not offer", sh.Suite)
	case sh.Version > cliVersion:
		return fmt.Sprintf("ServerHello version %04x above the ClientHello version %04x", sh.Version, cliVersion)
	case sh.Version != 0x0101 && (sh.Version < 0x0300 || sh.Version > 0x0303): // SSL 3.0 is a version this stack still speaks
		return fmt.Sprintf("ServerHello selects version %04x", sh.Version)
	case tls12Only(sh.Suite) && sh.Version != 0x0303:
		return fmt.Sprintf("ServerHello selects the TLS 1.2-only suite %04x at version %04x", sh.Suite, sh.Version)
	case (sh.Suite&0xff00 == 0xe000) != (sh.Version == 0x0101):
		return fmt.Sprintf("ServerHello pairs suite %04x with version %04x", sh.Suite, sh.Version)
	case sh.Compression != 0 || !bytes.Contains(comp, []byte{0}):
		return fmt.Sprintf("ServerHello answers compression list %x with method %d", comp, sh.Compression)
	}
	return ""
}

type c15Target struct {
	name         string
	peerIsClient bool
	mkCfg        func(r *mon.RNG) *gmtls.Config
	refModel     bool // the strict reference endpoint is a model of this target (GM handshake)
	auth         bool
	helloOnly    bool // configuration variant of another target: only the ClientHello catalogue is run against it
}

type c15Result struct {
	err        error
	completed  bool
	panic      *mon.PanicInfo
	noReturn   bool
	peerErr    error
	peerDone   bool
	harnessBug string
	devChanged bool // the deviation really altered what the peer sent in this run
	wire       []ref.WireEvent
}

// runScript runs one scripted peer against either gmtls (cfg != nil) or the strict reference endpoint.
func runScript(t c15Target, dev deviation, pki *tlsPKI, seed uint64, cfg *gmtls.Config, suite uint16) c15Result {
	var res c15Result
	log := &wireLog{}
	cm, sm := newMemPair(log, nil)
	rnd := mon.NewRNG(seed)
	peer := &ref.Peer{Rand: rnd.Bytes, Suites: []uint16{suite}}
	var peerConn, endConn *memConn
	if t.peerIsClient {
		peerConn, endConn = cm, sm
		if t.auth {
			peer.ClientSignKey, peer.ClientCerts = pki.cliSigKey.D, [][]byte{pki.cliSigCert.Raw}
		}
	} else {
		peerConn, endConn = sm, cm
		peer.SignKey, peer.EncKey, peer.SignCert, peer.EncCert = pki.sigKey.D, pki.encKey.D, pki.sigCert.Raw, pki.encCert.Raw
		peer.RequestClientCert = t.auth
	}
	peer.Conn = peerConn
	dev.apply(peer, mon.NewRNG(seed+7), pki, &res.devChanged)
	var wg sync.WaitGroup
	wg.Add(1)
	go func() {
		defer wg.Done()
		if pi := mon.Guard(func() {
			if t.peerIsClient {
				res.peerErr = peer.RunClient()
			} else {
				res.peerErr = peer.RunServer()
			}
		}); pi != nil {
			res.peerErr = fmt.Errorf("scripted peer panicked (harness bug): %s", pi.Value)
			res.harnessBug = pi.Value
		}
		res.peerDone = peer.Completed
		peerConn.Close() // the peer ends the connection when its script is over
	}()
	endDone := make(chan struct{})
	go func() {
		defer close(endDone)
		if cfg != nil {
			var c *gmtls.Conn
			if t.peerIsClient {
				c = gmtls.Server(endConn, cfg)
			} else {
				c = gmtls.Client(endConn, cfg)
			}
			res.panic = mon.Guard(func() { res.err = c.Handshake() })
			res.completed = res.err == nil && res.panic == nil
		} else {
			end := &ref.Peer{Conn: endConn, Rand: mon.NewRNG(seed + 99).Bytes, Suites: []uint16{ref.SuiteECCSM4CBC, ref.SuiteECCSM4GCM}, Strict: true}
			if t.peerIsClient {
				end.SignKey, end.EncKey, end.SignCert, end.EncCert = pki.sigKey.D, pki.encKey.D, pki.sigCert.Raw, pki.encCert.Raw
				end.RequestClientCert = t.auth
				res.err = end.RunServer()
			} else {
				if t.auth {
					end.ClientSignKey, end.ClientCerts = pki.cliSigKey.D, [][]byte{pki.cliSigCert.Raw}
				}
				res.err = end.RunClient()
			}
			res.completed = end.Completed
		}
		endConn.Close()
	}()
	// deadlock breaker: when both sides are parked on empty pipes, the scripted peer "closes mid-flight"
	tick := time.NewTicker(5 * time.Millisecond)
	defer tick.Stop()
	idle := 0
	deadline := time.After(60 * time.Second)
	for {
		select {
		case <-endDone:
			wg.Wait()
			res.wire = log.snapshot()
			return res
		case <-tick.C:
			if peerConn.in.parkedEmpty() && endConn.in.parkedEmpty() && peerConn.in.parkedEmpty() {
				idle++
			} else {
				idle = 0
			}
			if idle >= 3 {
				peerConn.Close()
				idle = 0
			}
		case <-deadline:
			// the endpoint's input has ended (or the peer is done) and it still has not returned
			res.noReturn = true
			peerConn.Close()
			endConn.Close()
			defer noteSpin()
			return res
		}
	}
}

func runC15(c *Ctx) {
	rep := c.Rep
	rep.Meta("cases: a scripted reference GM/T 0024 peer against a gmtls client (GMSSL) and gmtls servers (GMSSL-only, auto-switch, TLS-only) with one deviation applied at one step of its otherwise honest flow: omit / repeat the message, replace it by or prepend each handshake message type (12 types + unknown), ChangeCipherSpec, alerts (warning, fatal, close_notify, 6 warnings), application data, unknown record types, an SSLv2-style header, oversize record, oversize handshake length, empty record, every truncation of the message body, handshake-length field +-1/0/huge, each of the first 96 body bytes set to {0, b-1, b+1, 0xff}, end of stream after every step; ClientHello versions 0x0000..0x0400 x suite lists (GM, TLS, unknown, empty, ECDHE-only, SCSV) x compression lists. Oracle: differential — the same script is first run against a strict reference endpoint; whenever the reference endpoint refuses the script (or the target is a TLS-only server, which a GM peer can never satisfy) the gmtls endpoint must return an error: never complete, never panic, always return once its input has ended (logical deadlock breaker + 60 s watchdog on an endpoint whose input is closed). Distinct non-trivial = distinct (target, step, deviation kind, parameter class) the reference refuses.",
		1500, []string{"strict reference endpoint (ref TLCP peer) as the model of 'the script deviates from the protocol'"},
		[]string{"scripts the reference endpoint completes are not judged (counted as trivial)", "alerts written by the endpoint are recorded, not judged"})
	r := c.Rng("c15")
	pki, err := newTLSPKI(r, false)
	if err != nil {
		rep.Violation("C15/harness/pki", err.Error(), nil)
		return
	}
	base := func(rr *mon.RNG) *gmtls.Config {
		return &gmtls.Config{Time: func() timeT { return fixedNow }, Rand: mon.NewRNG(rr.U64()), SessionTicketsDisabled: true}
	}
	targets := []c15Target{
		{name: "gm-client", peerIsClient: false, refModel: true, mkCfg: func(rr *mon.RNG) *gmtls.Config {
			cfg := base(rr)
			cfg.GMSupport, cfg.ServerName, cfg.RootCAs = gmtls.NewGMSupport(), tlsServerName, pki.pool
			return cfg
		}},
		{name: "gm-client+clientcert", peerIsClient: false, refModel: true, auth: true, mkCfg: func(rr *mon.RNG) *gmtls.Config {
			cfg := base(rr)
			cfg.GMSupport, cfg.ServerName, cfg.RootCAs = gmtls.NewGMSupport(), tlsServerName, pki.pool
			cfg.Certificates = []gmtls.Certificate{pki.cliSig, pki.cliEnc}
			return cfg
		}},
		{name: "gm-server", peerIsClient: true, refModel: true, mkCfg: func(rr *mon.RNG) *gmtls.Config {
			cfg := base(rr)
			cfg.GMSupport, cfg.Certificates = gmtls.NewGMSupport(), []gmtls.Certificate{pki.sig, pki.enc}
			return cfg
		}},
		{name: "gm-server+clientauth", peerIsClient: true, refModel: true, auth: true, mkCfg: func(rr *mon.RNG) *gmtls.Config {
			cfg := base(rr)
			cfg.GMSupport, cfg.Certificates = gmtls.NewGMSupport(), []gmtls.Certificate{pki.sig, pki.enc}
			cfg.ClientAuth, cfg.ClientCAs = gmtls.RequireAndVerifyClientCert, pki.pool
			return cfg
		}},
		{name: "auto-server", peerIsClient: true, refModel: true, mkCfg: func(rr *mon.RNG) *gmtls.Config {
			cfg := base(rr)
			sup := gmtls.NewGMSupport()
			sup.EnableMixMode()
			cfg.GMSupport = sup
			cfg.GetCertificate = func(info *gmtls.ClientHelloInfo) (*gmtls.Certificate, error) {
				for _, v := range info.SupportedVersions {
					if v == gmtls.VersionGMSSL {
						return &pki.sig, nil
					}
				}
				return &pki.rsaCert, nil
			}
			cfg.GetKECertificate = func(*gmtls.ClientHelloInfo) (*gmtls.Certificate, error) { return &pki.enc, nil }
			return cfg
		}},
		{name: "tls-server", peerIsClient: true, refModel: false, mkCfg: func(rr *mon.RNG) *gmtls.Config {
			cfg := base(rr)
			cfg.Certificates = []gmtls.Certificate{pki.rsaCert}
			return cfg
		}},
	}
	// configuration variants of the server targets (suite preference, configuration callbacks): ClientHello catalogue only
	for _, bt := range append([]c15Target{}, targets...) {
		if !bt.peerIsClient || bt.auth {
			continue
		}
		bt := bt
		targets = append(targets, c15Target{name: bt.name + "+prefer-server-suites", peerIsClient: true, refModel: bt.refModel, helloOnly: true, mkCfg: func(rr *mon.RNG) *gmtls.Config {
			cfg := bt.mkCfg(rr)
			cfg.PreferServerCipherSuites = true
			return cfg
		}})
		targets = append(targets, c15Target{name: bt.name + "+GetConfigForClient", peerIsClient: true, refModel: bt.refModel, helloOnly: true, mkCfg: func(rr *mon.RNG) *gmtls.Config {
			cfg := bt.mkCfg(rr)
			cfg.GetConfigForClient = func(*gmtls.ClientHelloInfo) (*gmtls.Config, error) { return nil, nil }
			return cfg
		}})
		targets = append(targets, c15Target{name: bt.name + "+GetConfigForClient(new config)", peerIsClient: true, refModel: bt.refModel, helloOnly: true, mkCfg: func(rr *mon.RNG) *gmtls.Config {
			cfg := bt.mkCfg(rr)
			inner := bt.mkCfg(rr)
			cfg.GetConfigForClient = func(*gmtls.ClientHelloInfo) (*gmtls.Config, error) { return inner, nil }
			return cfg
		}})
	}
	clientSteps := []string{ref.StClientHello, ref.StClientCertificate, ref.StClientKeyExchange, ref.StCertificateVerify, ref.StClientCCS, ref.StClientFinished}
	serverSteps := []string{ref.StServerHello, ref.StCertificate, ref.StServerKeyExchange, ref.StCertificateRequest, ref.StServerHelloDone, ref.StServerCCS, ref.StServerFinished}
	hsTypes := []int{0, 1, 2, 4, 11, 12, 13, 14, 15, 16, 20, 99}
	type job struct {
		t   c15Target
		dev deviation
	}
	var jobs []job
	for _, t := range targets {
		steps := serverSteps
		if t.peerIsClient {
			steps = clientSteps
		}
		jobs = append(jobs, job{t, deviation{"-", "honest", 0, 0, nil}})
		for _, st := range steps {
			if t.helloOnly {
				break
			}
			if (st == ref.StClientCertificate || st == ref.StCertificateVerify || st == ref.StCertificateRequest) && !t.auth {
				continue
			}
			add := func(kind string, a, b int) { jobs = append(jobs, job{t, deviation{st, kind, a, b, nil}}) }
			add("omit", 0, 0)
			add("repeat", 0, 0)
			if st == ref.StClientKeyExchange || st == ref.StCertificateVerify {
				add("coalesce-with-finished-and-skip-ccs", 0, 0)
			}
			if st == ref.StCertificate || st == ref.StClientCertificate {
				for v := 0; v < 6; v++ {
					add("certs", v, 0)
				}
			}
			if st == ref.StClientKeyExchange {
				for v := 0; v < 64; v++ {
					add("cke-asn1", v, 0)
				}
			}
			for _, ht := range hsTypes {
				add("replace-hs", ht, 0)
				add("prepend-hs", ht, 0)
			}
			if st == ref.StClientCCS || st == ref.StServerCCS {
				for _, ht := range []int{-1, 0, 1, 2, 16, 20} {
					add("skip-ccs-and-put-a-handshake-record-in-front-of-finished", ht, 0)
				}
			}
			add("prepend-ccs", 0, 0)
			add("replace-ccs", 0, 0)
			add("prepend-alert", 1, 0)
			add("prepend-alert", 2, 40)
			add("prepend-alert", 2, 0)
			add("prepend-alert", 1, 100)
			add("prepend-warnings", 6, 0)
			add("prepend-warnings", 20, 0)
			add("prepend-appdata", 0, 0)
			for _, rt := range []int{int(ref.RecAppData), int(ref.RecAlert), int(ref.RecCCS)} {
				add("prepend-empty-record-of-type", rt, 0)
			}
			add("prepend-unknown-rectype", 24, 0)
			add("prepend-unknown-rectype", 0, 0)
			add("prepend-unknown-rectype", 255, 0)
			add("replace-sslv2", 0, 0)
			add("oversize-record", 0, 0)
			add("oversize-hs-length", 0, 0)
			add("empty-record", 0, 0)
			add("eos", 0, 0)
			for _, dl := range []int{-1, 1, -4, 256, -100000} {
				add("hs-length-field", dl, 0)
			}
			if st != ref.StClientCCS && st != ref.StServerCCS {
				maxT := 700
				stepT := 1
				if !c.Thorough {
					stepT = 9
				}
				for n := 0; n < maxT; n += stepT {
					add("truncate", n, 0)
					if !c.Thorough && n > 120 {
						n += 40
					}
				}
				for pos := 0; pos < 96; pos++ {
					if !c.Thorough && pos > 48 && pos%4 != 0 {
						continue
					}
					for v := 0; v < 4; v++ {
						if !c.Thorough && (pos+v)%2 != 0 {
							continue
						}
						add("byte", pos, v)
					}
				}
				for _, off := range []int{1, 3, 4, 5, 37} {
					add("split", off, 0)
				}
			}
		}
		// compound scripts: two simple deviations at two different steps of one handshake (what one step leaves out another
		// step may make up for in a way a lenient endpoint accepts: a skipped CCS and a doubled Finished, a dropped message
		// and a replayed one, ...). Sampled; the reference endpoint decides as for single deviations.
		if !t.helloOnly {
			rp := c.Rng("pairs/" + t.name)
			simple := []string{"omit", "repeat", "replace-hs", "prepend-hs", "prepend-ccs", "replace-ccs", "prepend-warnings", "empty-record"}
			var usable []string
			for _, st := range steps {
				if (st == ref.StClientCertificate || st == ref.StCertificateVerify || st == ref.StCertificateRequest) && !t.auth {
					continue
				}
				usable = append(usable, st)
			}
			for k := 0; k < c.Q(120, 4000) && len(usable) >= 2; k++ {
				a := rp.Intn(len(usable))
				b := rp.Intn(len(usable) - 1)
				if b >= a {
					b++
				}
				if k%3 == 0 { // bias towards the end of the flight, where the cipher state changes
					a = len(usable) - 1 - rp.Intn(2)
					b = rp.Intn(len(usable))
					if b == a {
						b = (a + len(usable) - 1) % len(usable)
					}
				}
				mk := func(st string) deviation {
					d := deviation{step: st, kind: simple[rp.Intn(len(simple))]}
					switch d.kind {
					case "replace-hs", "prepend-hs":
						d.arg = hsTypes[rp.Intn(len(hsTypes))]
					case "prepend-warnings":
						d.arg = 2
					}
					return d
				}
				d1, d2 := mk(usable[a]), mk(usable[b])
				d1.and = &d2
				jobs = append(jobs, job{t, d1})
			}
		}
		if !t.peerIsClient {
			for tail := 0; tail <= 10; tail++ {
				for pv := 0; pv < 8; pv++ {
					jobs = append(jobs, job{t, deviation{ref.StServerKeyExchange, "ecdhe-ske", tail, pv, nil}})
				}
			}
		}
		if t.peerIsClient {
			vstep := 1
			if !c.Thorough {
				vstep = 13
			}
			for v := 0; v <= 0x0400; v += vstep {
				for variant := 0; variant < c15HelloVariants; variant++ {
					if (v+variant)%7 != 0 && !(v == 0x0101 || v == 0x0303 || v == 0x0200 || v == 0x0100 || v == 0x0102) {
						continue
					}
					jobs = append(jobs, job{t, deviation{ref.StClientHello, "client-hello", v, variant, nil}})
				}
			}
			for _, v := range []int{0x0100, 0x0101, 0x0102, 0x0200, 0x02ff, 0x0300, 0x0301, 0x0302, 0x0303, 0x0304, 0x0400} {
				for variant := 0; variant < c15HelloVariants; variant++ {
					jobs = append(jobs, job{t, deviation{ref.StClientHello, "client-hello", v, variant, nil}})
				}
			}
		}
	}
	rep.Count("scripts", int64(len(jobs)))
	Par(len(jobs), func(i int) {
		j := jobs[i]
		seed := c.Rng(fmt.Sprintf("job%d", i)).U64()
		suite := []uint16{ref.SuiteECCSM4CBC, ref.SuiteECCSM4GCM}[i%2]
		w := map[string]interface{}{"target": j.t.name, "deviation": j.dev.String(), "suite": suiteName(suite), "seed": seed}
		mustErr := true
		if j.t.refModel {
			rr := runScript(j.t, j.dev, pki, seed, nil, suite)
			mustErr = !rr.completed
			w["reference_endpoint"] = fmt.Sprintf("completed=%v err=%v", rr.completed, rr.err)
		}
		res := runScript(j.t, j.dev, pki, seed, j.t.mkCfg(mon.NewRNG(seed)), suite)
		w["endpoint_error"], w["peer_error"] = errStr(res.err), errStr(res.peerErr)
		devCls := j.dev.kind
		if j.dev.and != nil {
			devCls = "compound/" + j.dev.kind + "+" + j.dev.and.kind + "@" + j.dev.and.step
		}
		switch j.dev.kind {
		case "replace-hs", "prepend-hs":
			devCls += fmt.Sprintf("/type=%d", j.dev.arg)
		case "client-hello":
			devCls += fmt.Sprintf("/ver=%s/variant=%d", verClass(j.dev.arg), j.dev.arg2)
		case "ecdhe-ske":
			devCls += fmt.Sprintf("/sigpart=%d/point=%d", j.dev.arg, j.dev.arg2/2)
		case "prepend-alert":
			devCls += fmt.Sprintf("/%d-%d", j.dev.arg, j.dev.arg2)
		case "certs":
			devCls += fmt.Sprintf("/%d", j.dev.arg)
		}
		cls := fmt.Sprintf("%s/%s/%s", j.t.name, j.dev.step, devCls)
		if res.harnessBug != "" {
			rep.Violation("C15/harness/scripted-peer-panicked", res.harnessBug+" "+j.dev.String(), w)
		}
		if res.panic != nil {
			rep.Violation("C15/Handshake/panic/"+j.t.name+"/"+res.panic.Func+"/"+panicCls(j.dev), fmt.Sprintf("%s: %s", j.dev, res.panic.Value), w)
		}
		if res.noReturn {
			rep.Violation("C15/Handshake/no-return-after-input-ended/"+j.t.name+"/"+j.dev.kind, j.dev.String(), w)
		}
		if j.dev.kind == "client-hello" && res.wire != nil {
			suites, comp := c15HelloVariant(j.dev.arg2)
			if why := c15ServerHelloLegal(res.wire, uint16(j.dev.arg), suites, comp); why != "" {
				rep.Violation("C15/ServerHello/answers-an-unacceptable-ClientHello/"+j.t.name+"/ver="+verClass(j.dev.arg), fmt.Sprintf("%s: %s (the server must abort instead)", j.dev, why), w)
			}
		}
		if j.dev.kind == "honest" {
			// control: an honest reference peer must be able to complete with the endpoint (and with the reference endpoint)
			if j.t.refModel && (!res.completed || mustErr) {
				rep.Violation("C15/control/honest-reference-peer-cannot-complete/"+j.t.name, fmt.Sprintf("gmtls completed=%v err=%v; reference endpoint refused=%v; peer err=%v", res.completed, res.err, mustErr, res.peerErr), w)
			}
			rep.Eval(j.t.name + "/honest-control")
			return
		}
		if !res.devChanged {
			mustErr = false // in this run the deviation was a no-op (e.g. the byte already had that value, truncation beyond the end)
		}
		if mustErr && res.completed {
			rep.Violation("C15/Handshake/completes-with-deviating-peer/"+j.t.name+"/"+j.dev.step+"/"+devCls, fmt.Sprintf("%s: the reference endpoint refuses this script, gmtls reports the handshake as complete", j.dev), w)
		}
		if mustErr {
			rep.Eval(cls)
		} else {
			rep.EvalTrivial(cls)
			rep.Count("scripts_the_reference_endpoint_accepts(not judged)", 1)
		}
		if i == 11 {
			rep.Sample(w)
		}
	})
	runC15TLS(c, pki)
	runC15Blind(c, pki)
	runC15Renegotiation(c, pki)
	runC15Dial(c, pki)
	runC15ResumeUnoffered(c, pki)
	runC15TLS12(c, pki)
}

func verClass(v int) string {
	switch {
	case v < 0x0101:
		return "<0101"
	case v == 0x0101:
		return "0101"
	case v < 0x0300:
		return "0102-02ff"
	case v <= 0x0303:
		return fmt.Sprintf("%04x", v)
	default:
		return ">0303"
	}
}

func panicCls(d deviation) string {
	if d.kind == "client-hello" {
		return "client-hello/ver=" + verClass(d.arg)
	}
	if d.kind == "truncate" || d.kind == "byte" {
		return d.kind + "@" + d.step
	}
	return d.kind + "@" + d.step
}

var _ = io.EOF
