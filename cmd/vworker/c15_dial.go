package main

import (
	"fmt"
	"io"
	"net"
	"sync"
	"time"

	"github.com/tjfoc/gmsm/gmtls"

	"verif/mon"
	"verif/ref"
)

// The dialing entry points over real (loopback) sockets: Dial and DialWithDialer run the handshake themselves and hand
// back either a connection or an error. With a peer that aborts, answers out of turn or just closes, they must hand
// back the error — a non-nil error and no usable connection — with and without a dialer timeout, in TLS and in GMSSL
// mode; and with an honest gmtls listener they must complete and carry data (Listen / NewListener / Accept).
func runC15Dial(c *Ctx, pki *tlsPKI) {
	rep := c.Rep
	ln, err := net.Listen("tcp", "127.0.0.1:0")
	if err != nil {
		rep.Note("C15 dial scenarios skipped: no loopback listener: " + err.Error())
		rep.Count("dial_scenarios_skipped(no loopback)", 1)
		return
	}
	ln.Close()
	behaviours := []string{"close-at-once", "close-after-hello", "appdata-instead-of-server-hello", "finished-instead-of-server-hello", "fatal-alert", "garbage", "server-hello-then-close"}
	type mode struct {
		name string
		cfg  func() *gmtls.Config
	}
	modes := []mode{
		{"tls", func() *gmtls.Config {
			return &gmtls.Config{ServerName: tlsServerName, RootCAs: pki.gmStdPool, Time: func() timeT { return fixedNow }}
		}},
		{"gmssl", func() *gmtls.Config {
			return &gmtls.Config{GMSupport: gmtls.NewGMSupport(), ServerName: tlsServerName, RootCAs: pki.pool, Time: func() timeT { return fixedNow }}
		}},
	}
	dialers := []struct {
		name string
		dial func(addr string, cfg *gmtls.Config) (*gmtls.Conn, error)
	}{
		{"Dial", func(addr string, cfg *gmtls.Config) (*gmtls.Conn, error) { return gmtls.Dial("tcp", addr, cfg) }},
		{"DialWithDialer(zero)", func(addr string, cfg *gmtls.Config) (*gmtls.Conn, error) {
			return gmtls.DialWithDialer(&net.Dialer{}, "tcp", addr, cfg)
		}},
		{"DialWithDialer(timeout)", func(addr string, cfg *gmtls.Config) (*gmtls.Conn, error) {
			return gmtls.DialWithDialer(&net.Dialer{Timeout: 20 * time.Second}, "tcp", addr, cfg)
		}},
		{"DialWithDialer(deadline)", func(addr string, cfg *gmtls.Config) (*gmtls.Conn, error) {
			return gmtls.DialWithDialer(&net.Dialer{Deadline: time.Now().Add(20 * time.Second)}, "tcp", addr, cfg)
		}},
	}
	type job struct {
		m  mode
		d  int
		bh string
	}
	var jobs []job
	for _, m := range modes {
		for d := range dialers {
			for _, bh := range behaviours {
				jobs = append(jobs, job{m, d, bh})
			}
			jobs = append(jobs, job{m, d, "honest"})
		}
	}
	Par(len(jobs), func(i int) {
		j := jobs[i]
		r := c.Rng(fmt.Sprintf("dial%d", i))
		w := map[string]interface{}{"mode": j.m.name, "entry_point": dialers[j.d].name, "peer": j.bh}
		var l net.Listener
		var lerr error
		if j.bh == "honest" {
			scfg := &gmtls.Config{Time: func() timeT { return fixedNow }, Rand: mon.NewRNG(r.U64())}
			if j.m.name == "gmssl" {
				scfg.GMSupport, scfg.Certificates = gmtls.NewGMSupport(), []gmtls.Certificate{pki.sig, pki.enc}
			} else {
				scfg.Certificates = []gmtls.Certificate{pki.rsaCert}
			}
			if i%2 == 0 {
				l, lerr = gmtls.Listen("tcp", "127.0.0.1:0", scfg)
			} else {
				var inner net.Listener
				if inner, lerr = net.Listen("tcp", "127.0.0.1:0"); lerr == nil {
					l = gmtls.NewListener(inner, scfg)
				}
			}
		} else {
			l, lerr = net.Listen("tcp", "127.0.0.1:0")
		}
		if lerr != nil {
			rep.Count("dial_scenarios_skipped(listen failed)", 1)
			return
		}
		defer l.Close()
		var wg sync.WaitGroup
		wg.Add(1)
		go func() {
			defer wg.Done()
			conn, err := l.Accept()
			if err != nil {
				return
			}
			defer conn.Close()
			conn.SetDeadline(time.Now().Add(30 * time.Second))
			if j.bh == "honest" {
				buf := make([]byte, 5)
				if _, err := io.ReadFull(conn, buf); err == nil {
					conn.Write([]byte("pong!"))
				}
				return
			}
			if j.bh == "close-at-once" {
				return
			}
			buf := make([]byte, 4096)
			conn.Read(buf) // the ClientHello (or its first part)
			ver := [2]byte{3, 1}
			if j.m.name == "gmssl" {
				ver = [2]byte{1, 1}
			}
			switch j.bh {
			case "appdata-instead-of-server-hello":
				conn.Write(wrapRec(ref.RecAppData, ver, []byte("HTTP/1.0 400 Bad Request\r\n\r\n")))
			case "finished-instead-of-server-hello":
				conn.Write(wrapRec(ref.RecHandshake, ver, ref.HSMsg(ref.HSFinished, r.Bytes(12))))
			case "fatal-alert":
				conn.Write(wrapRec(ref.RecAlert, ver, []byte{2, 40}))
			case "garbage":
				conn.Write(r.Bytes(200))
			case "server-hello-then-close":
				sh := (&ref.ServerHello{Version: uint16(ver[0])<<8 | uint16(ver[1]), Random: r.Bytes(32), SessionID: r.Bytes(32), Suite: map[bool]uint16{true: ref.SuiteECCSM4CBC, false: 0xc02f}[j.m.name == "gmssl"]}).Marshal()
				conn.Write(wrapRec(ref.RecHandshake, ver, sh))
			}
			// leave the client a moment to read what was sent, then close
			conn.(*net.TCPConn).CloseWrite()
			io.Copy(io.Discard, conn)
		}()
		cfg := j.m.cfg()
		cfg.Rand = mon.NewRNG(r.U64())
		var conn *gmtls.Conn
		var derr error
		done := make(chan *mon.PanicInfo, 1)
		go func() { done <- mon.Guard(func() { conn, derr = dialers[j.d].dial(l.Addr().String(), cfg) }) }()
		var pi *mon.PanicInfo
		select {
		case pi = <-done:
		case <-time.After(60 * time.Second):
			rep.Violation("C15/dial/no-return/"+dialers[j.d].name, fmt.Sprintf("%s peer %s", j.m.name, j.bh), w)
			l.Close()
			return
		}
		w["dial_error"] = errStr(derr)
		switch {
		case pi != nil:
			rep.Violation("C15/dial/panic/"+pi.Func, pi.Value, w)
		case j.bh == "honest":
			if derr != nil || conn == nil {
				rep.Violation("C15/control/dial-to-an-honest-gmtls-listener-fails/"+j.m.name+"/"+dialers[j.d].name, errStr(derr), w)
			} else {
				conn.SetDeadline(time.Now().Add(30 * time.Second))
				conn.Write([]byte("ping!"))
				buf := make([]byte, 5)
				if _, e := io.ReadFull(conn, buf); e != nil || string(buf) != "pong!" {
					rep.Violation("C15/control/dialled-connection-does-not-carry-data/"+j.m.name, fmt.Sprint(e), w)
				}
				conn.Close()
			}
		case derr == nil:
			rep.Violation("C15/dial/returns-a-connection-and-no-error-for-an-aborted-handshake/"+dialers[j.d].name+"/"+j.m.name, fmt.Sprintf("peer: %s; connection non-nil: %v", j.bh, conn != nil), w)
			if conn != nil {
				conn.Close()
			}
		}
		if conn != nil && derr != nil {
			conn.Close()
		}
		wg.Wait()
		rep.Count("dial_scenarios_run", 1)
		rep.Eval(fmt.Sprintf("dial/%s/%s/%s", j.m.name, dialers[j.d].name, j.bh))
	})
}
