package main

import (
	"bytes"
	"fmt"
	"sync"
	"time"

	"github.com/tjfoc/gmsm/gmtls"

	"verif/mon"
	"verif/ref"
)

// The independent GM/T 0024 implementation as a live peer (not only as a passive decoder): a reference client against the
// gmtls servers and a reference server against the gmtls client, both suites. Its records are legal but not what gmtls
// itself writes: for the GCM suite the explicit record nonce may run on its own counter (sequence number + offset),
// which a receiver must take from the record. The handshake must complete on both sides and data must arrive intact in
// both directions.
func runC06RefPeer(c *Ctx, pki *tlsPKI) {
	rep := c.Rep
	type job struct {
		suite      uint16
		peerClient bool
		offset     uint64
		auto       bool
	}
	var jobs []job
	for _, su := range []uint16{ref.SuiteECCSM4CBC, ref.SuiteECCSM4GCM} {
		for _, pc := range []bool{true, false} {
			for _, off := range []uint64{0, 1, 1 << 32, ^uint64(0) - 5} {
				if su == ref.SuiteECCSM4CBC && off != 0 {
					continue
				}
				jobs = append(jobs, job{su, pc, off, false})
				if pc {
					jobs = append(jobs, job{su, pc, off, true})
				}
			}
		}
	}
	Par(len(jobs), func(i int) {
		j := jobs[i]
		r := c.Rng(fmt.Sprintf("refpeer%d", i))
		w := map[string]interface{}{"suite": suiteName(j.suite), "reference_peer_is_client": j.peerClient, "explicit_nonce_offset": j.offset, "auto_switch_server": j.auto}
		cm, sm := newMemPair(&wireLog{}, nil)
		peer := &ref.Peer{Rand: mon.NewRNG(r.U64()).Bytes, Suites: []uint16{j.suite}, NonceOffset: j.offset}
		var end *gmtls.Conn
		if j.peerClient {
			peer.Conn = cm
			scfg := &gmtls.Config{GMSupport: gmtls.NewGMSupport(), Certificates: []gmtls.Certificate{pki.sig, pki.enc}, Time: func() timeT { return fixedNow }, Rand: mon.NewRNG(r.U64()), SessionTicketsDisabled: true}
			if j.auto {
				scfg.GMSupport.EnableMixMode()
				scfg.GetCertificate = func(*gmtls.ClientHelloInfo) (*gmtls.Certificate, error) { return &pki.sig, nil }
				scfg.GetKECertificate = func(*gmtls.ClientHelloInfo) (*gmtls.Certificate, error) { return &pki.enc, nil }
			}
			end = gmtls.Server(sm, scfg)
		} else {
			peer.Conn = sm
			peer.SignKey, peer.EncKey, peer.SignCert, peer.EncCert = pki.sigKey.D, pki.encKey.D, pki.sigCert.Raw, pki.encCert.Raw
			end = gmtls.Client(cm, &gmtls.Config{GMSupport: gmtls.NewGMSupport(), CipherSuites: []uint16{j.suite}, ServerName: tlsServerName, RootCAs: pki.pool, Time: func() timeT { return fixedNow }, Rand: mon.NewRNG(r.U64())})
		}
		seed := r.U64()
		toEnd, fromEnd := patBytes(seed, 0, 0, 3000), patBytes(seed, 1, 0, 3000)
		var perr error
		var peerGot []byte
		var wg sync.WaitGroup
		wg.Add(1)
		go func() {
			defer wg.Done()
			if pi := mon.Guard(func() {
				if j.peerClient {
					perr = peer.RunClient()
				} else {
					perr = peer.RunServer()
				}
				if perr != nil {
					return
				}
				for off := 0; off < len(toEnd); off += 1000 {
					if perr = peer.WriteApp(toEnd[off : off+1000]); perr != nil {
						return
					}
				}
				for len(peerGot) < len(fromEnd) {
					b, e := peer.ReadApp()
					if e != nil {
						perr = e
						return
					}
					peerGot = append(peerGot, b...)
				}
			}); pi != nil {
				perr = fmt.Errorf("reference peer panicked: %s", pi.Value)
			}
		}()
		var eerr error
		var endGot []byte
		var ep *mon.PanicInfo
		done := make(chan struct{})
		go func() {
			defer close(done)
			ep = mon.Guard(func() {
				if eerr = end.Handshake(); eerr != nil {
					return
				}
				buf := make([]byte, 4096)
				for len(endGot) < len(toEnd) {
					n, e := end.Read(buf)
					endGot = append(endGot, buf[:n]...)
					if e != nil {
						eerr = e
						return
					}
				}
				_, eerr = end.Write(fromEnd)
			})
			if eerr != nil || ep != nil {
				cm.Close()
				sm.Close()
			}
		}()
		select {
		case <-done:
		case <-time.After(60 * time.Second):
			rep.Violation("C06/reference-peer/no-return", "", w)
			cm.Close()
			sm.Close()
			<-done
		}
		wg.Wait()
		cm.Close()
		sm.Close()
		w["gmtls_error"], w["reference_peer_error"] = errStr(eerr), errStr(perr)
		switch {
		case ep != nil:
			rep.Violation("C06/reference-peer/panic/"+ep.Func, ep.Value, w)
		case eerr != nil || perr != nil:
			rep.Violation(fmt.Sprintf("C06/Handshake/supported-combination-fails/reference-peer(client=%v)/explicit-nonce-offset=%v", j.peerClient, j.offset != 0), fmt.Sprintf("gmtls: %v; reference peer: %v", eerr, perr), w)
		case !bytes.Equal(endGot, toEnd) || !bytes.Equal(peerGot, fromEnd):
			rep.Violation("C06/reference-peer/data-not-delivered-intact", fmt.Sprintf("gmtls received %d of %d, peer received %d of %d", len(endGot), len(toEnd), len(peerGot), len(fromEnd)), w)
		}
		rep.Count("sessions_with_a_live_reference_peer", 1)
		rep.Eval(fmt.Sprintf("reference-peer/client=%v/auto=%v/%s/nonce-offset=%v", j.peerClient, j.auto, suiteName(j.suite), j.offset != 0))
	})
}
