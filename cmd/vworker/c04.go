package main

import (
	"bytes"
	"crypto/hmac"
	"fmt"
	"hash"
	"strings"

	"github.com/tjfoc/gmsm/sm3"
	"golang.org/x/crypto/pbkdf2"

	"verif/mon"
	"verif/ref"
)

func init() { registry["C04"] = runC04 }

func lenClass(n int) string {
	switch {
	case n == 0:
		return "0"
	case n < 55:
		return "1-54"
	case n <= 56:
		return "55-56"
	case n < 63:
		return "57-62"
	case n <= 65:
		return "63-65"
	case n < 119:
		return "66-118"
	case n <= 120:
		return "119-120"
	case n <= 128:
		return "121-128"
	default:
		return fmt.Sprintf("blk%d+%d", minInt(n/64, 16), n%64)
	}
}

func minInt(a, b int) int {
	if a < b {
		return a
	}
	return b
}

func runC04(c *Ctx) {
	rep := c.Rep
	rep.Meta("cases: (a) digest of every length in the tier's list, one-shot and streaming, vs ref SM3; (b) random partitions into 1..8 writes incl. empty and aliasing writes; (c) model-based traces over {Write,Sum(nil),Sum(prefix),Sum(prefix+cap),Reset}: exhaustive to the tier's depth plus random to length 8; (d) HMAC/PBKDF2 over sm3.New vs over the reference. A case is non-trivial when it hashes >=1 byte or contains >=1 Sum after a state-changing op; distinct = distinct class key (length class / partition shape / op sequence).",
		5000, []string{"ref.SM3 (validated by GM/T 0004 vectors at start of run)", "crypto/hmac", "x/crypto/pbkdf2"},
		[]string{"unbounded input space sampled by length class; lengths listed as exhaustive are complete only in length, not content"})

	// (a) lengths
	var lens []int
	maxLen := c.Q(2100, 8192)
	for n := 0; n <= 300; n++ {
		lens = append(lens, n)
	}
	for n := 301; n <= maxLen; n++ {
		m := n % 64
		if c.Thorough || m <= 3 || m >= 61 || (m >= 53 && m <= 58) || n%97 == 0 {
			lens = append(lens, n)
		}
	}
	if c.Thorough {
		rep.Exhaustive("message lengths 0..8192 (one random content each)")
	} else {
		rep.Exhaustive("message lengths 0..300 (one random content each)")
	}
	Par(len(lens), func(i int) {
		n := lens[i]
		r := c.Rng(fmt.Sprintf("len%d", n))
		data := r.Bytes(n)
		want := ref.SM3(data)
		cls := "digest/" + lenClass(n)
		// one-shot
		cn := mon.NewCanary(data, 16)
		var got []byte
		if pi := mon.Guard(func() { got = keep("sm3.Sm3Sum", sm3.Sm3Sum(cn.Slice())) }); pi != nil {
			rep.Violation("C04/Sm3Sum/panic/"+pi.Func, pi.Value, map[string]interface{}{"len": n, "data": mon.Hex(data)})
		} else if !bytes.Equal(got, want) {
			rep.Violation("C04/Sm3Sum/digest-mismatch", fmt.Sprintf("len=%d got %x want %x", n, got, want), map[string]interface{}{"len": n, "data": mon.Hex(data)})
		}
		if s := cn.Check(); s != "" {
			rep.Violation("C04/Sm3Sum/caller-memory-written", s, map[string]interface{}{"len": n})
		}
		// streaming single write
		h := sm3.New()
		h.Write(data)
		if g := h.Sum(nil); !bytes.Equal(g, want) {
			rep.Violation("C04/Hash.Write+Sum/digest-mismatch", fmt.Sprintf("len=%d got %x want %x", n, g, want), map[string]interface{}{"len": n, "data": mon.Hex(data)})
		}
		if n == 0 {
			rep.EvalTrivial(cls)
		} else {
			rep.Eval(cls)
		}
		if i == 77 {
			rep.Sample(map[string]interface{}{"kind": "digest", "len": n, "data": mon.Hex(data), "digest": mon.Hex(got)})
		}
	})

	// (b) partitions
	nPart := c.Q(6000, 1500000)
	Par(nPart, func(i int) {
		r := c.Rng(fmt.Sprintf("part%d", i))
		var n int
		switch r.Intn(4) {
		case 0:
			n = r.Intn(200)
		case 1:
			n = 64*r.Intn(12) + r.Pick(-2, -1, 0, 1, 2, 55, 56, 57) // around block/padding boundaries
			if n < 0 {
				n = 0
			}
		case 2:
			n = r.Intn(1500)
		default:
			n = r.Intn(c.Q(4000, 8192))
		}
		data := r.Bytes(n)
		want := ref.SM3(data)
		k := 1 + r.Intn(8)
		cuts := make([]int, 0, k+1)
		cuts = append(cuts, 0)
		for j := 1; j < k; j++ {
			if r.Intn(5) == 0 {
				cuts = append(cuts, cuts[len(cuts)-1]) // empty write
			} else {
				lo := cuts[len(cuts)-1]
				cuts = append(cuts, lo+r.Intn(n-lo+1))
			}
		}
		cuts = append(cuts, n)
		alias := r.Bool()
		h := sm3.New()
		var shape []string
		scratch := make([]byte, 0, n+64)
		for j := 0; j+1 < len(cuts); j++ {
			part := data[cuts[j]:cuts[j+1]]
			if alias {
				// reuse one scratch buffer with spare capacity for every write (a caller that recycles its buffer)
				scratch = append(scratch[:0], part...)
				h.Write(scratch)
				for x := range scratch {
					scratch[x] = 0xEE // caller overwrites its buffer after the write returned
				}
			} else {
				h.Write(part)
			}
			shape = append(shape, lenClass(len(part)))
		}
		got := h.Sum(nil)
		cls := fmt.Sprintf("partition/k=%d/alias=%v/%s", k, alias, lenClass(n))
		if !bytes.Equal(got, want) {
			rep.Violation("C04/Hash.Write/chunking-dependent-digest", fmt.Sprintf("len=%d cuts=%v alias=%v got %x want %x", n, cuts, alias, got, want),
				map[string]interface{}{"data": mon.Hex(data), "cuts": cuts, "alias": alias})
		}
		if n == 0 {
			rep.EvalTrivial(cls)
		} else {
			rep.Eval(cls)
		}
		if i == 5 {
			rep.Sample(map[string]interface{}{"kind": "partition", "len": n, "cuts": cuts, "alias": alias, "shape": strings.Join(shape, ",")})
		}
	})

	// (c) model-based traces
	type op struct {
		name string
		wlen int // for writes
	}
	alphabet := []op{{"W0", 0}, {"W1", 1}, {"W63", 63}, {"W64", 64}, {"W65", 65}, {"Sn", 0}, {"Sp", 0}, {"Spc", 0}, {"R", 0}}
	runTrace := func(seq []int, r *mon.RNG, extra []op) {
		var names []string
		var model []byte
		h := sm3.New()
		stateChanged := false
		nontrivial := false
		fail := func(sym, detail string) {
			rep.Violation("C04/Hash/"+sym, fmt.Sprintf("after ops %v: %s", names, detail), map[string]interface{}{"ops": names})
		}
		ops := alphabet
		if extra != nil {
			ops = extra
		}
		for _, oi := range seq {
			o := ops[oi]
			names = append(names, o.name)
			switch {
			case o.name[0] == 'W':
				d := r.Bytes(o.wlen)
				n, err := h.Write(d)
				if n != len(d) || err != nil {
					fail("write-return", fmt.Sprintf("Write returned (%d,%v) for %d bytes", n, err, len(d)))
				}
				model = append(model, d...)
				if len(d) > 0 {
					stateChanged = true
				}
			case o.name == "R":
				h.Reset()
				model = model[:0]
				stateChanged = true
			default: // Sum variants
				var prefix []byte
				spare := 0
				switch o.name {
				case "Sp":
					prefix = []byte{0xde, 0xad, 0xbe}
				case "Spc":
					prefix = []byte{1, 2, 3, 4, 5}
					spare = 64
				}
				want := append(append([]byte{}, prefix...), ref.SM3(model)...)
				var got []byte
				if prefix == nil {
					got = keep("sm3.Sum(nil)", h.Sum(nil))
				} else {
					cn := mon.NewCanary(prefix, spare)
					got = h.Sum(cn.Slice())
					// the prefix bytes themselves must be intact (append may use spare capacity)
					if !bytes.Equal(cn.Slice(), prefix) {
						fail("Sum(prefix)/prefix-bytes-modified", "")
					}
				}
				if !bytes.Equal(got, want) {
					sym := "Sum(nil)/digest-mismatch"
					if prefix != nil {
						if len(got) == 32 && bytes.Equal(got, ref.SM3(model)) {
							sym = "Sum(prefix)/prefix-dropped-from-result"
						} else if len(got) == 32 && bytes.Equal(got, ref.SM3(append(append([]byte{}, model...), prefix...))) {
							sym = "Sum(prefix)/prefix-hashed-into-digest"
						} else {
							sym = "Sum(prefix)/result-mismatch"
						}
					}
					fail(sym, fmt.Sprintf("got %x want %x (model holds %d bytes)", got, want, len(model)))
					// resynchronise the model is impossible if state was corrupted; stop this trace
					goto done
				}
				if stateChanged {
					nontrivial = true
				}
			}
			if h.Size() != 32 || h.BlockSize() != 64 {
				fail("Size/BlockSize", fmt.Sprintf("%d/%d", h.Size(), h.BlockSize()))
			}
		}
		// closing observation: the state must still be the model's
		if g, w := h.Sum(nil), ref.SM3(model); !bytes.Equal(g, w) {
			fail("state-diverged-after-trace", fmt.Sprintf("final Sum(nil) got %x want %x", g, w))
		}
	done:
		cls := "trace/" + strings.Join(names, ".")
		if nontrivial {
			rep.Eval(cls)
		} else {
			rep.EvalTrivial(cls)
		}
	}
	depth := c.Q(4, 5)
	var seqs [][]int
	var gen func(cur []int)
	gen = func(cur []int) {
		if len(cur) > 0 {
			seqs = append(seqs, append([]int{}, cur...))
		}
		if len(cur) == depth {
			return
		}
		for i := range alphabet {
			gen(append(cur, i))
		}
	}
	gen(nil)
	rep.Exhaustive(fmt.Sprintf("all op sequences of length 1..%d over %d-op alphabet {W0,W1,W63,W64,W65,Sum(nil),Sum(prefix),Sum(prefix+cap),Reset}", depth, len(alphabet)))
	Par(len(seqs), func(i int) { runTrace(seqs[i], c.Rng(fmt.Sprintf("trace%d", i)), nil) })
	rep.Count("traces_exhaustive", int64(len(seqs)))
	// random longer traces with a wider write alphabet
	wide := []op{{"W0", 0}, {"W1", 1}, {"W7", 7}, {"W55", 55}, {"W56", 56}, {"W63", 63}, {"W64", 64}, {"W65", 65}, {"W119", 119}, {"W128", 128}, {"W1000", 1000},
		{"Sn", 0}, {"Sp", 0}, {"Spc", 0}, {"R", 0}}
	nRand := c.Q(3000, 600000)
	Par(nRand, func(i int) {
		r := c.Rng(fmt.Sprintf("rtrace%d", i))
		l := 5 + r.Intn(4)
		seq := make([]int, l)
		for j := range seq {
			seq[j] = r.Intn(len(wide))
		}
		runTrace(seq, r, wide)
	})
	rep.Count("traces_random", int64(nRand))
	rep.Sample(map[string]interface{}{"kind": "trace", "ops": []string{"W63", "Sp", "W1", "Sn"}, "oracle": "after every Sum: result == prefix ‖ refSM3(bytes written since last Reset); after trace: Sum(nil) == refSM3(model)"})

	// (d) HMAC / PBKDF2
	nH := c.Q(400, 60000)
	Par(nH, func(i int) {
		r := c.Rng(fmt.Sprintf("hmac%d", i))
		key := r.Bytes(r.Pick(0, 1, 31, 32, 33, 63, 64, 65, 100, 200, r.Intn(200)))
		msg := r.Bytes(r.Intn(300))
		a := hmac.New(sm3.New, key)
		b := hmac.New(ref.NewSM3, key)
		a.Write(msg)
		b.Write(msg)
		ga, gb := a.Sum(nil), b.Sum(nil)
		if !bytes.Equal(ga, gb) {
			rep.Violation("C04/HMAC-SM3/mismatch", fmt.Sprintf("keylen=%d msglen=%d got %x want %x", len(key), len(msg), ga, gb), map[string]interface{}{"key": mon.Hex(key), "msg": mon.Hex(msg)})
		}
		// reuse after Reset (hmac relies on Reset + Sum not disturbing state)
		a.Reset()
		b.Reset()
		a.Write(msg[:len(msg)/2])
		b.Write(msg[:len(msg)/2])
		_ = a.Sum(nil)
		_ = b.Sum(nil)
		a.Write(msg[len(msg)/2:])
		b.Write(msg[len(msg)/2:])
		if !bytes.Equal(a.Sum(nil), b.Sum(nil)) {
			rep.Violation("C04/HMAC-SM3/mismatch-after-intermediate-Sum", fmt.Sprintf("keylen=%d msglen=%d", len(key), len(msg)), map[string]interface{}{"key": mon.Hex(key), "msg": mon.Hex(msg)})
		}
		rep.Eval(fmt.Sprintf("hmac/key=%s", lenClass(len(key))))
		if i%8 == 0 {
			salt := r.Bytes(r.Intn(40))
			iter := 1 + r.Intn(5)
			kl := 1 + r.Intn(100)
			var pa []byte
			if pi := mon.Guard(func() { pa = pbkdf2.Key(key, salt, iter, kl, sm3.New) }); pi != nil {
				rep.Violation("C04/PBKDF2-SM3/panic", pi.Value, map[string]interface{}{"pw": mon.Hex(key), "salt": mon.Hex(salt), "iter": iter, "klen": kl})
				return
			}
			pb := pbkdf2.Key(key, salt, iter, kl, func() hash.Hash { return ref.NewSM3() })
			if !bytes.Equal(pa, pb) {
				rep.Violation("C04/PBKDF2-SM3/mismatch", fmt.Sprintf("pwlen=%d saltlen=%d iter=%d klen=%d", len(key), len(salt), iter, kl), map[string]interface{}{"pw": mon.Hex(key), "salt": mon.Hex(salt), "iter": iter, "klen": kl})
			}
			rep.Eval(fmt.Sprintf("pbkdf2/iter=%d/klen=%s", iter, lenClass(kl)))
		}
	})

	// (d2) one keyed HMAC object used for a whole series of messages with Reset in between (this is how PBKDF2, HKDF and
	// the TLS PRF use it, and where a hash that implements state marshalling gets its saved state restored): message
	// lengths sweep 0..140 so that every "bytes written since Reset" count around the block size occurs, in several
	// write splits; every MAC of the series must equal the reference's
	Par(c.Q(40, 1500), func(i int) {
		r := c.Rng(fmt.Sprintf("hmacseries%d", i))
		key := r.Bytes(r.Pick(0, 16, 32, 64, 65, 100))
		a, b := hmac.New(sm3.New, key), hmac.New(ref.NewSM3, key)
		start := r.Intn(141)
		for step := 0; step < 150; step++ {
			n := (start + step) % 141
			if step%10 == 9 {
				n = r.Pick(200, 1000, 4096)
			}
			msg := r.Bytes(n)
			cut := 0
			if n > 0 {
				cut = r.Intn(n + 1)
			}
			var ga []byte
			if pi := mon.Guard(func() {
				a.Write(msg[:cut])
				if step%3 == 0 {
					_ = a.Sum(nil) // an intermediate Sum must not disturb the running MAC
				}
				a.Write(msg[cut:])
				ga = a.Sum(nil)
				a.Reset()
			}); pi != nil {
				rep.Violation("C04/HMAC-SM3/panic-in-series/"+pi.Func, pi.Value, nil)
				return
			}
			b.Write(msg)
			gb := b.Sum(nil)
			b.Reset()
			if !bytes.Equal(ga, gb) {
				rep.Violation("C04/HMAC-SM3/mismatch-in-series-of-messages-on-one-object", fmt.Sprintf("message %d of the series (len %d, split at %d), keylen %d", step, n, cut, len(key)),
					map[string]interface{}{"key": mon.Hex(key), "series_start_len": start, "failing_step": step, "msg": mon.Hex(msg)})
				return
			}
		}
		rep.Eval(fmt.Sprintf("hmac-series/key=%s", lenClass(len(key))))
	})
	// PBKDF2 over salt lengths 0..100 and several output lengths (more than one block of output re-uses the keyed HMAC)
	Par(101, func(sl int) {
		r := c.Rng(fmt.Sprintf("pbkdf2salt%d", sl))
		pw, salt := r.Bytes(r.Pick(0, 8, 33)), r.Bytes(sl)
		for _, kl := range []int{16, 32, 33, 64, 96} {
			var pa []byte
			if pi := mon.Guard(func() { pa = pbkdf2.Key(pw, salt, 2, kl, sm3.New) }); pi != nil {
				rep.Violation("C04/PBKDF2-SM3/panic", pi.Value, map[string]interface{}{"pw": mon.Hex(pw), "salt": mon.Hex(salt), "klen": kl})
				return
			}
			if pb := pbkdf2.Key(pw, salt, 2, kl, func() hash.Hash { return ref.NewSM3() }); !bytes.Equal(pa, pb) {
				rep.Violation("C04/PBKDF2-SM3/mismatch", fmt.Sprintf("pwlen=%d saltlen=%d iter=2 klen=%d", len(pw), sl, kl), map[string]interface{}{"pw": mon.Hex(pw), "salt": mon.Hex(salt), "iter": 2, "klen": kl})
				return
			}
		}
		rep.Eval(fmt.Sprintf("pbkdf2/saltlen=%d", sl))
	})

	// (e) long streams: the bit-length trailer bytes are only exercised by long inputs
	//     (>= 2 MiB touches length>>24, >= 512 MiB touches length>>32); fed incrementally to gmsm and to the streaming reference
	// 520 MiB is the only way to see the upper word of the bit length, so it is in the quick tier too (about 20 s)
	sizes := []int{1<<20 + 13, 2<<20 + 5, 9<<20 + 77, 520<<20 + 3}
	if c.Thorough {
		sizes = append(sizes, 64<<20+1, 1100<<20+9)
	}
	Par(len(sizes), func(i int) {
		sz := sizes[i]
		r := c.Rng(fmt.Sprintf("stream%d", i))
		h, rh := sm3.New(), ref.NewSM3Stream()
		buf := make([]byte, 1<<16)
		for off := 0; off < sz; {
			n := 1 + r.Intn(len(buf))
			if off+n > sz {
				n = sz - off
			}
			r.Fill(buf[:n])
			h.Write(buf[:n])
			rh.Write(buf[:n])
			off += n
		}
		if g, w := h.Sum(nil), rh.Sum(nil); !bytes.Equal(g, w) {
			rep.Violation(fmt.Sprintf("C04/Hash.Write/long-stream-mismatch/bitlen>=2^%d", bitsLen(uint64(sz)*8)-1), fmt.Sprintf("size=%d got %x want %x", sz, g, w), map[string]interface{}{"size": sz, "seedstream": i})
		}
		rep.Eval(fmt.Sprintf("stream/%dMiB", sz>>20))
	})
	// (e2) very large *single* calls: one Write / one Sm3Sum of a megabyte and more (an implementation may treat a big
	// input differently from the same bytes fed in pieces)
	bigs := []int{1 << 20, 1<<20 + 1, 2<<20 + 5, 3<<20 + 64}
	if c.Thorough {
		bigs = append(bigs, 33<<20+7)
	}
	Par(len(bigs), func(i int) {
		sz := bigs[i]
		msg := make([]byte, sz)
		c.Rng(fmt.Sprintf("bigcall%d", i)).Fill(msg)
		rh := ref.NewSM3Stream()
		rh.Write(msg)
		want := rh.Sum(nil)
		w := map[string]interface{}{"size": sz}
		h := sm3.New()
		h.Write(msg)
		if g := h.Sum(nil); !bytes.Equal(g, want) {
			rep.Violation("C04/Hash.Write/single-large-write-mismatch", fmt.Sprintf("one Write of %d bytes: got %x want %x", sz, g, want), w)
		}
		if g := sm3.Sm3Sum(msg); !bytes.Equal(g, want) {
			rep.Violation("C04/Sm3Sum/large-input-mismatch", fmt.Sprintf("%d bytes: got %x want %x", sz, g, want), w)
		}
		// a large write after a few pending bytes, then a tail
		h2 := sm3.New()
		h2.Write(msg[:7])
		h2.Write(msg[7 : sz-3])
		h2.Write(msg[sz-3:])
		if g := h2.Sum(nil); !bytes.Equal(g, want) {
			rep.Violation("C04/Hash.Write/large-write-after-pending-bytes-mismatch", fmt.Sprintf("%d bytes as 7 + %d + 3", sz, sz-10), w)
		}
		rep.Eval(fmt.Sprintf("single-call/%dMiB+%d", sz>>20, sz&(1<<20-1)))
	})
	// (e3) a copy loop with one reused buffer of 100000 bytes (larger than any internal threshold one might pick, not a
	// multiple of the block size): every chunk is overwritten before the next Write; and a large Write from a slice with
	// spare capacity, after which the caller's bytes behind the slice must be untouched
	{
		r := c.Rng("copyloop")
		for _, bufSize := range []int{100000, 65536 + 1, 70000, 1<<17 + 9} {
			total := 3*bufSize + 12345
			h, rh := sm3.New(), ref.NewSM3Stream()
			buf := make([]byte, bufSize)
			for off := 0; off < total; {
				n := bufSize
				if off+n > total {
					n = total - off
				}
				r.Fill(buf[:n])
				h.Write(buf[:n])
				rh.Write(buf[:n])
				off += n
			}
			if g, w := h.Sum(nil), rh.Sum(nil); !bytes.Equal(g, w) {
				rep.Violation("C04/Hash.Write/copy-loop-with-reused-large-buffer-mismatch", fmt.Sprintf("buffer of %d bytes refilled between Writes, %d bytes in all: got %x want %x", bufSize, total, g, w), map[string]interface{}{"buffer": bufSize, "total": total})
			}
			backing := r.Bytes(bufSize + 4096)
			before := append([]byte{}, backing...)
			h2, rh2 := sm3.New(), ref.NewSM3Stream()
			h2.Write(backing[:bufSize])
			rh2.Write(before[:bufSize])
			h2.Write([]byte("tail"))
			rh2.Write([]byte("tail"))
			g, w := h2.Sum(nil), rh2.Sum(nil)
			if !bytes.Equal(backing, before) {
				rep.Violation("C04/Hash.Write/writes-caller-memory-behind-a-large-slice", fmt.Sprintf("Write(b[:%d]) of a %d-byte array, then a small Write and Sum: the caller's array changed", bufSize, len(backing)), map[string]interface{}{"buffer": bufSize})
			} else if !bytes.Equal(g, w) {
				rep.Violation("C04/Hash.Write/large-write-from-slice-with-spare-capacity-mismatch", fmt.Sprintf("%d bytes", bufSize), map[string]interface{}{"buffer": bufSize})
			}
			rep.Eval(fmt.Sprintf("copy-loop/buffer=%d", bufSize))
		}
	}
	// (e4) one long-lived hasher (and one long-lived HMAC object) asked for a digest several hundred times, every result
	// kept by the caller (a list of leaf hashes, a batch of tags): all of them are checked at the end, not when returned
	{
		r := c.Rng("many-sums")
		n := c.Q(400, 5000)
		h := sm3.New()
		key := r.Bytes(20)
		hm := hmac.New(sm3.New, key)
		var got, want, gotM, wantM [][]byte
		for i := 0; i < n; i++ {
			msg := r.Bytes(i % 150)
			if i%3 != 0 {
				h.Reset()
				h.Write(msg)
				want = append(want, ref.SM3(msg))
			} else {
				// no Reset: the digest of everything written since the last Reset
				h.Reset()
				h.Write(msg[:len(msg)/2])
				h.Sum(nil)
				h.Write(msg[len(msg)/2:])
				want = append(want, ref.SM3(msg))
			}
			got = append(got, h.Sum(nil))
			hm.Reset()
			hm.Write(msg)
			gotM = append(gotM, hm.Sum(nil))
			rm := hmac.New(func() hash.Hash { return ref.NewSM3Stream() }, key)
			rm.Write(msg)
			wantM = append(wantM, rm.Sum(nil))
		}
		bad, badM := 0, 0
		first := -1
		for i := range got {
			if !bytes.Equal(got[i], want[i]) {
				bad++
				if first < 0 {
					first = i
				}
			}
			if !bytes.Equal(gotM[i], wantM[i]) {
				badM++
			}
		}
		if bad > 0 {
			rep.Violation("C04/Hash.Sum/kept-results-changed-by-later-calls", fmt.Sprintf("%d of %d digests returned by one hasher no longer hold the value they were returned with (first: result %d)", bad, n, first), map[string]interface{}{"results_kept": n})
		}
		if badM > 0 {
			rep.Violation("C04/HMAC/kept-tags-changed-by-later-calls", fmt.Sprintf("%d of %d tags of one HMAC-SM3 object", badM, n), map[string]interface{}{"results_kept": n})
		}
		rep.Eval("many-sums-kept")
	}
	rep.Note("bit-length trailer bytes above length>>32 (inputs >= 128 GiB) are out of reach")
}

func bitsLen(v uint64) int {
	n := 0
	for ; v > 0; v >>= 1 {
		n++
	}
	return n
}
