package main

import (
	"fmt"
	"net"
	"sync"
	"time"

	"github.com/tjfoc/gmsm/gmtls"

	"verif/mon"
)

// (8) Close on a connection whose last Write failed: the peer has stopped reading, a Write ran into its deadline, another
// goroutine sits in Read — then Close is called. Close must return, and it must release the reader (Read returns), just
// as some sequential order of Write-fails / Close / Read would have it. Runs over net.Pipe, which honours deadlines.
func c20CloseAfterFailedWrite(c *Ctx) {
	rep := c.Rep
	r := c.Rng("close-after-failed-write")
	pki, err := newTLSPKI(r, false)
	if err != nil {
		return
	}
	for run := 0; run < c.Q(4, 40); run++ {
		suite := []uint16{gmtls.GMTLS_ECC_SM4_CBC_SM3, gmtls.GMTLS_ECC_SM4_GCM_SM3}[run%2]
		scfg := &gmtls.Config{GMSupport: gmtls.NewGMSupport(), Certificates: []gmtls.Certificate{pki.sig, pki.enc}, CipherSuites: []uint16{suite}, Time: func() timeT { return fixedNow }, Rand: mon.NewRNG(r.U64())}
		ccfg := &gmtls.Config{GMSupport: gmtls.NewGMSupport(), CipherSuites: []uint16{suite}, ServerName: tlsServerName, RootCAs: pki.pool, Time: func() timeT { return fixedNow }, Rand: mon.NewRNG(r.U64())}
		a, b := net.Pipe()
		cli, srv := gmtls.Client(a, ccfg), gmtls.Server(b, scfg)
		var hw sync.WaitGroup
		var he [2]error
		hw.Add(2)
		go func() { defer hw.Done(); he[0] = cli.Handshake() }()
		go func() { defer hw.Done(); he[1] = srv.Handshake() }()
		hw.Wait()
		if he[0] != nil || he[1] != nil {
			rep.Violation("C20/close-after-failed-write/handshake-failed", fmt.Sprint(he[0], he[1]), nil)
			a.Close()
			b.Close()
			continue
		}
		// which end stalls and which end is under test alternates
		under, stalled := cli, srv
		if run%4 >= 2 {
			under, stalled = srv, cli
		}
		_ = stalled // it simply never reads or writes again
		w := map[string]interface{}{"suite": suiteName(suite), "end_under_test": map[bool]string{true: "client", false: "server"}[under == cli]}
		readDone := make(chan error, 1)
		go func() {
			buf := make([]byte, 100)
			_, e := under.Read(buf)
			readDone <- e
		}()
		under.SetWriteDeadline(time.Now().Add(40 * time.Millisecond))
		_, werr := under.Write(make([]byte, 300000))
		w["write_error"] = errStr(werr)
		if werr == nil {
			rep.Note("close-after-failed-write: the large write to a stalled peer did not fail; run not judged")
			under.Close()
			a.Close()
			b.Close()
			<-readDone
			continue
		}
		closeDone := make(chan error, 1)
		go func() { closeDone <- under.Close() }()
		select {
		case <-closeDone:
		case <-time.After(20 * time.Second):
			rep.Violation("C20/close-after-failed-write/Close-does-not-return", "", w)
		}
		select {
		case e := <-readDone:
			w["read_error"] = errStr(e)
			if e == nil {
				rep.Violation("C20/close-after-failed-write/Read-returns-data-after-Close", "", w)
			}
		case <-time.After(20 * time.Second):
			rep.Violation("C20/close-after-failed-write/reader-not-released-by-Close", "a goroutine blocked in Read was still blocked 20 s after Close returned: the transport was not closed", w)
			a.Close()
			b.Close()
			<-readDone
		}
		// Close again: idempotent, returns
		again := make(chan struct{})
		go func() { under.Close(); close(again) }()
		select {
		case <-again:
		case <-time.After(20 * time.Second):
			rep.Violation("C20/close-after-failed-write/second-Close-does-not-return", "", w)
		}
		a.Close()
		b.Close()
		rep.Count("closes_after_a_failed_write", 1)
		rep.Eval(fmt.Sprintf("close-after-failed-write/%s/%s", w["end_under_test"], suiteName(suite)))
	}
}
