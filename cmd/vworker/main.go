// vworker links the real gmsm code (from /repo's working tree, build tag verif) and executes the
// workload + monitors of one property. It writes result.json into -out; the driver (vcheck)
// interprets it. Child stdout is never the check's stdout.
package main

import (
	"flag"
	"fmt"
	"os"
	"path/filepath"
	"runtime"
	"strings"
	"sync"
	"sync/atomic"

	"verif/mon"
	"verif/ref"
)

type Ctx struct {
	Rep      *mon.Reporter
	Prop     string
	Tier     string
	Thorough bool
	Seed     uint64
	Out      string
	Only     string // optional scenario filter
}

func (c *Ctx) Rng(name string) *mon.RNG {
	return mon.Sub(c.Seed*0x9e3779b97f4a7c15+1, c.Prop+"/"+c.Tier+"/"+name)
}

// Q returns q in the quick tier and t in the thorough tier.
func (c *Ctx) Q(q, t int) int {
	if c.Thorough {
		return t
	}
	return q
}

// Par runs f(i) for i in [0,n) on all cores.
func Par(n int, f func(i int)) {
	w := runtime.GOMAXPROCS(0)
	if w > n {
		w = n
	}
	if w < 1 {
		w = 1
	}
	var next int64 = -1
	var wg sync.WaitGroup
	for k := 0; k < w; k++ {
		wg.Add(1)
		go func() {
			defer wg.Done()
			for {
				i := int(atomic.AddInt64(&next, 1))
				if i >= n {
					return
				}
				if pi := mon.Guard(func() { f(i) }); pi != nil && curCtx != nil {
					curCtx.Rep.Violation(curCtx.Prop+"/unguarded-panic/"+pi.Func, pi.Value, map[string]interface{}{"index": i})
				}
			}
		}()
	}
	wg.Wait()
}

var curCtx *Ctx

var registry = map[string]func(*Ctx){}

func main() {
	prop := flag.String("p", "", "property id")
	tier := flag.String("tier", "quick", "quick|thorough")
	seed := flag.Uint64("seed", 1, "seed")
	out := flag.String("out", "", "output directory")
	only := flag.String("only", "", "scenario filter")
	flag.Parse()
	f := registry[*prop]
	if f == nil {
		fmt.Fprintln(os.Stderr, "unknown property", *prop)
		os.Exit(3)
	}
	if *out == "" {
		fmt.Fprintln(os.Stderr, "-out required")
		os.Exit(3)
	}
	os.MkdirAll(*out, 0o755)
	rep := mon.NewReporter(*prop, *tier, *seed)
	st, err := ref.SelfTest()
	if err != nil {
		fmt.Fprintln(os.Stderr, "reference self-test failed:", err)
		os.Exit(4)
	}
	rep.SetSelfTest(st)
	rep.OpenJournal(filepath.Join(*out, "journal.txt"))
	ctx := &Ctx{Rep: rep, Prop: *prop, Tier: *tier, Thorough: *tier == "thorough", Seed: *seed, Out: *out, Only: *only}
	curCtx = ctx
	if strings.HasPrefix(*only, "first-op:") {
		// child process of runFirstOps: exactly one operation, nothing else of the property's workload
		f = func(c *Ctx) { runFirstOpChild(c, strings.TrimPrefix(*only, "first-op:")) }
	}
	if pi := mon.Guard(func() { f(ctx) }); pi != nil {
		rep.Violation(*prop+"/unguarded-panic/"+pi.Func, pi.Value, nil)
	}
	checkHeld(ctx)
	if err := rep.Write(filepath.Join(*out, "result.json")); err != nil {
		fmt.Fprintln(os.Stderr, "write result:", err)
		os.Exit(5)
	}
}
