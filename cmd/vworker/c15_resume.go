package main

import (
	"fmt"
	"sync"
	"time"

	"github.com/tjfoc/gmsm/gmtls"

	"verif/mon"
	"verif/ref"
)

// A client that legitimately holds a session (ticket and master secret from an honest first connection) comes back with
// a ClientHello that offers the ticket but NOT the suite the session was made with: only unknown suite ids, only the
// other GM suite, or an empty list. A server may resume a session only with a suite the client offers now; whatever it
// answers, the suite in its ServerHello must be one the ClientHello lists, and a hello that lists nothing it supports
// gets an error, not a completed (resumed) handshake.
func runC15ResumeUnoffered(c *Ctx, pki *tlsPKI) {
	rep := c.Rep
	type srvKind struct {
		name string
		auto bool
	}
	offers := []struct {
		name   string
		suites func(sessionSuite uint16) []uint16
	}{
		{"unknown-suites-only", func(uint16) []uint16 { return []uint16{0x1301, 0xfafa} }},
		{"the-other-gm-suite-only", func(s uint16) []uint16 {
			if s == ref.SuiteECCSM4CBC {
				return []uint16{ref.SuiteECCSM4GCM}
			}
			return []uint16{ref.SuiteECCSM4CBC}
		}},
		{"tls-suites-only", func(uint16) []uint16 { return []uint16{0x002f, 0xc02f} }},
		{"scsv-only", func(uint16) []uint16 { return []uint16{0x00ff} }},
		{"control-same-suite", func(s uint16) []uint16 { return []uint16{s} }},
	}
	type job struct {
		k     srvKind
		suite uint16
		off   int
	}
	var jobs []job
	for _, k := range []srvKind{{"gm-server", false}, {"auto-server", true}} {
		for _, su := range []uint16{ref.SuiteECCSM4CBC, ref.SuiteECCSM4GCM} {
			for oi := range offers {
				jobs = append(jobs, job{k, su, oi})
			}
		}
	}
	Par(len(jobs), func(ji int) {
		j := jobs[ji]
		r := c.Rng(fmt.Sprintf("resume-unoffered/%d", ji))
		off := offers[j.off]
		scfg := &gmtls.Config{GMSupport: gmtls.NewGMSupport(), Certificates: []gmtls.Certificate{pki.sig, pki.enc},
			CipherSuites: []uint16{gmtls.GMTLS_ECC_SM4_CBC_SM3, gmtls.GMTLS_ECC_SM4_GCM_SM3}, Time: func() timeT { return fixedNow }, Rand: mon.NewRNG(r.U64())}
		if j.k.auto {
			scfg.GMSupport.EnableMixMode()
			scfg.Certificates = []gmtls.Certificate{pki.sig, pki.enc}
			scfg.GetCertificate = func(*gmtls.ClientHelloInfo) (*gmtls.Certificate, error) { return &pki.sig, nil }
			scfg.GetKECertificate = func(*gmtls.ClientHelloInfo) (*gmtls.Certificate, error) { return &pki.enc, nil }
		}
		var key [32]byte
		r.Fill(key[:])
		scfg.SetSessionTicketKeys([][32]byte{key})
		w := map[string]interface{}{"server": j.k.name, "session_suite": suiteName(j.suite), "second_hello_offers": off.name}
		run := func(peer *ref.Peer) (completed bool, state gmtls.ConnectionState, serr, perr error, pan *mon.PanicInfo, wire []ref.WireEvent, hung bool) {
			log := &wireLog{}
			cm, sm := newMemPair(log, nil)
			peer.Conn = cm
			var wg sync.WaitGroup
			wg.Add(1)
			go func() {
				defer wg.Done()
				if pi := mon.Guard(func() { perr = peer.RunClient() }); pi != nil {
					perr = fmt.Errorf("scripted client panicked: %s", pi.Value)
				}
				cm.Close()
			}()
			done := make(chan struct{})
			go func() {
				defer close(done)
				sc := gmtls.Server(sm, scfg)
				pan = mon.Guard(func() { serr = sc.Handshake() })
				if serr == nil && pan == nil {
					completed, state = true, sc.ConnectionState()
				}
				sm.Close()
			}()
			select {
			case <-done:
			case <-time.After(30 * time.Second):
				hung = true
				cm.Close()
				sm.Close()
				<-done
			}
			wg.Wait()
			return completed, state, serr, perr, pan, log.snapshot(), hung
		}
		first := &ref.Peer{Rand: mon.NewRNG(r.U64()).Bytes, Suites: []uint16{j.suite}, TicketExt: true}
		ok1, _, e1, pe1, p1, _, _ := run(first)
		if !ok1 || p1 != nil || first.Ticket == nil || first.Master == nil {
			rep.Count("resume_unoffered_scripts_skipped(no ticket from the first connection)", 1)
			rep.Note(fmt.Sprintf("C15 resume-unoffered %s: first connection gave no ticket (server err %v, peer err %v)", j.k.name, e1, pe1))
			return
		}
		offered := off.suites(j.suite)
		second := &ref.Peer{Rand: mon.NewRNG(r.U64()).Bytes, Suites: offered, OfferTicket: first.Ticket, ResumeMaster: first.Master, OfferSessionID: r.Bytes(32), TicketExt: true}
		ok2, st2, e2, pe2, p2, wire, hung := run(second)
		w["server_error"], w["peer_error"], w["server_completed"] = errStr(e2), errStr(pe2), ok2
		if ok2 {
			w["server_resumed"], w["server_suite"] = st2.DidResume, suiteName(st2.CipherSuite)
		}
		switch {
		case p2 != nil:
			rep.Violation("C15/Handshake/panic/"+j.k.name+"/"+p2.Func+"/ticket-offered-without-its-suite", p2.Value, w)
		case hung:
			rep.Violation("C15/Handshake/no-return-after-input-ended/"+j.k.name+"/ticket-offered-without-its-suite", off.name, w)
		}
		if why := c15ServerHelloLegal(wire, ref.TLCPVersion, offered, []byte{0}); why != "" {
			rep.Violation("C15/ServerHello/answers-an-unacceptable-ClientHello/"+j.k.name+"/ticket-offered-without-its-suite", fmt.Sprintf("%s: %s", off.name, why), w)
		}
		supported := false
		for _, s := range offered {
			if s == ref.SuiteECCSM4CBC || s == ref.SuiteECCSM4GCM {
				supported = true
			}
		}
		if ok2 && !supported {
			rep.Violation("C15/Handshake/completes-with-deviating-peer/"+j.k.name+"/ticket-offered-with-no-supported-suite", fmt.Sprintf("%s: the server completed (resumed=%v) with suite %s", off.name, st2.DidResume, suiteName(st2.CipherSuite)), w)
		}
		if ok2 && supported {
			in := false
			for _, s := range offered {
				if s == st2.CipherSuite {
					in = true
				}
			}
			if !in {
				rep.Violation("C15/Handshake/completes-with-a-suite-the-client-did-not-offer/"+j.k.name, fmt.Sprintf("%s: suite %s (resumed=%v)", off.name, suiteName(st2.CipherSuite), st2.DidResume), w)
			}
		}
		if off.name == "control-same-suite" && !ok2 {
			rep.Violation("C15/control/honest-reference-peer-cannot-complete/"+j.k.name+"/second-connection-with-ticket", fmt.Sprintf("%v / %v", e2, pe2), w)
		}
		if ok2 && st2.DidResume {
			rep.Count("scripted_resumptions_completed", 1)
		}
		rep.Eval(fmt.Sprintf("resume-with-changed-offer/%s/%s/%s", j.k.name, suiteName(j.suite), off.name))
	})
}
