package main

import (
	"encoding/hex"
	"math/big"
	"os"
	"path/filepath"
	"sync"

	"bytes"
	"crypto"
	"crypto/ecdsa"
	"crypto/elliptic"
	"crypto/rsa"
	stdx509 "crypto/x509"
	"fmt"
	"github.com/tjfoc/gmsm/sm2"

	"github.com/tjfoc/gmsm/pkcs12"
	gx509 "github.com/tjfoc/gmsm/x509"

	"verif/mon"
)

// PKCS#12 bundles for the other key types Encode accepts (RSA, ECDSA on P-224/256/384/521) and bundles that carry CA
// certificates: both decoders (Decode -> crypto/x509 certificate, DecodeAll -> gmsm certificates) must return the key
// and the certificates that were put in; wrong passwords and byte changes as for the SM2 bundles.
func runC17P12Std(c *Ctx) {
	rep := c.Rep
	r := c.Rng("p12std")
	rk1, rk2 := cachedRSA()
	type kc struct {
		name string
		key  crypto.Signer
	}
	keys := []kc{{"rsa-2048", rk1}}
	for _, cv := range []struct {
		n string
		c elliptic.Curve
	}{{"p224", elliptic.P224()}, {"p256", elliptic.P256()}, {"p384", elliptic.P384()}, {"p521", elliptic.P521()}} {
		k, err := ecdsa.GenerateKey(cv.c, mon.NewRNG(r.U64()))
		if err == nil {
			keys = append(keys, kc{"ecdsa-" + cv.n, k})
		}
	}
	// a CA (RSA) that issues the leaves, and a second CA above it, for the chain variants
	rootC, _, err := issueStd("p12 std root", 1, true, nil, rk2.Public(), nil, rk2, r)
	if err != nil {
		rep.Note("p12std: cannot issue root: " + err.Error())
		return
	}
	subKey, _ := ecdsa.GenerateKey(elliptic.P256(), mon.NewRNG(r.U64()))
	subC, _, err := issueStd("p12 std sub", 2, true, nil, subKey.Public(), rootC, rk2, r)
	if err != nil {
		rep.Note("p12std: cannot issue sub CA: " + err.Error())
		return
	}
	pwds := []struct{ cls, p string }{{"empty", ""}, {"ascii", "Passw0rd"}, {"non-ascii", "pässwörd-密码"}}
	sameKey := func(a interface{}, b crypto.Signer) bool {
		switch x := a.(type) {
		case *rsa.PrivateKey:
			y, ok := b.(*rsa.PrivateKey)
			return ok && x.N.Cmp(y.N) == 0 && x.D.Cmp(y.D) == 0 && x.E == y.E
		case *ecdsa.PrivateKey:
			y, ok := b.(*ecdsa.PrivateKey)
			return ok && x.D.Cmp(y.D) == 0 && x.X.Cmp(y.X) == 0 && x.Y.Cmp(y.Y) == 0 && x.Curve.Params().Name == y.Curve.Params().Name
		}
		return false
	}
	for ki, k := range keys {
		for chain := 0; chain < 3; chain++ { // 0: leaf only, 1: leaf + sub CA, 2: leaf + sub CA + root
			pw := pwds[(ki+chain)%len(pwds)]
			cls := fmt.Sprintf("pkcs12/%s/cas=%d/pw=%s", k.name, chain, pw.cls)
			w := map[string]interface{}{"key": k.name, "ca_certificates": chain, "password_class": pw.cls}
			_, leafDER, err := issueStd("p12 "+k.name, int64(10+ki), false, []string{"p12.example"}, k.key.Public(), subC, subKey, r)
			if err != nil {
				rep.Note("p12std: cannot issue leaf for " + k.name + ": " + err.Error())
				continue
			}
			leaf, err := gx509.ParseCertificate(leafDER)
			if err != nil {
				rep.Note("p12std: gmsm cannot parse the leaf for " + k.name + ": " + err.Error())
				continue
			}
			var cas []*stdx509.Certificate
			if chain >= 1 {
				cas = append(cas, subC)
			}
			if chain >= 2 {
				cas = append(cas, rootC)
			}
			var pfx []byte
			if pi := mon.Guard(func() { pfx, err = pkcs12.Encode(k.key, leaf, cas, pw.p) }); pi != nil || err != nil {
				rep.Violation("C17/pkcs12.Encode/fails/"+k.name, fmt.Sprint(pi, err), w)
				rep.Eval(cls)
				continue
			}
			w["pfx"] = mon.Hex(pfx)
			// DecodeAll: key + every certificate that was put in
			var pk interface{}
			var certs []*gx509.Certificate
			if pi := mon.Guard(func() { pk, certs, err = pkcs12.DecodeAll(pfx, pw.p) }); pi != nil || err != nil {
				rep.Violation("C17/pkcs12.DecodeAll/fails-on-own-output/"+k.name, fmt.Sprint(pi, err), w)
			} else {
				if !sameKey(pk, k.key) {
					rep.Violation("C17/pkcs12/round-trip-mismatch/key/"+k.name, fmt.Sprintf("got %T", pk), w)
				}
				want := [][]byte{leafDER}
				for _, ca := range cas {
					want = append(want, ca.Raw)
				}
				for _, wd := range want {
					found := false
					for _, g := range certs {
						if bytes.Equal(g.Raw, wd) {
							found = true
						}
					}
					if !found {
						rep.Violation("C17/pkcs12/round-trip-mismatch/certificate-missing/"+k.name, fmt.Sprintf("%d certificates returned, %d were put in", len(certs), len(want)), w)
						break
					}
				}
				if len(certs) != len(want) {
					rep.Violation("C17/pkcs12/round-trip-mismatch/certificate-count/"+k.name, fmt.Sprintf("%d certificates returned, %d were put in", len(certs), len(want)), w)
				}
			}
			// Decode (documented for bundles with exactly one certificate)
			if chain == 0 {
				var sc *stdx509.Certificate
				if pi := mon.Guard(func() { pk, sc, err = pkcs12.Decode(pfx, pw.p) }); pi != nil || err != nil {
					rep.Violation("C17/pkcs12.Decode/fails-on-own-output/"+k.name, fmt.Sprint(pi, err), w)
				} else if !sameKey(pk, k.key) || sc == nil || !bytes.Equal(sc.Raw, leafDER) {
					rep.Violation("C17/pkcs12.Decode/round-trip-mismatch/"+k.name, fmt.Sprintf("key %T", pk), w)
				}
			}
			// ToPEM: one block per certificate and one private key block
			if pi := mon.Guard(func() {
				blocks, e := pkcs12.ToPEM(pfx, pw.p)
				if e != nil {
					rep.Violation("C17/pkcs12.ToPEM/fails-on-own-output/"+k.name, e.Error(), w)
					return
				}
				nc, nk := 0, 0
				for _, b := range blocks {
					switch b.Type {
					case "CERTIFICATE":
						nc++
					case "PRIVATE KEY":
						nk++
					}
				}
				if nc != 1+len(cas) || nk != 1 {
					rep.Violation("C17/pkcs12.ToPEM/block-count/"+k.name, fmt.Sprintf("%d certificate and %d key blocks for %d certificates", nc, nk, 1+len(cas)), w)
				}
			}); pi != nil {
				rep.Violation("C17/pkcs12.ToPEM/panic/"+pi.Func, pi.Value, w)
			}
			// wrong passwords
			for wn, wp := range map[string]string{"appended": pw.p + "x", "other": "not the password", "case": "pASSW0RD"} {
				var e error
				if pi := mon.Guard(func() { _, _, e = pkcs12.DecodeAll(pfx, wp) }); pi != nil {
					rep.Violation("C17/pkcs12.DecodeAll/panic-on-wrong-password/"+pi.Func, pi.Value, w)
				} else if e == nil {
					rep.Violation("C17/pkcs12.DecodeAll/accepts-wrong-password/"+wn+"/"+k.name, fmt.Sprintf("right=%q wrong=%q", pw.p, wp), w)
				}
				if chain == 0 {
					if pi := mon.Guard(func() { _, _, e = pkcs12.Decode(pfx, wp) }); pi != nil {
						rep.Violation("C17/pkcs12.Decode/panic-on-wrong-password/"+pi.Func, pi.Value, w)
					} else if e == nil {
						rep.Violation("C17/pkcs12.Decode/accepts-wrong-password/"+wn+"/"+k.name, fmt.Sprintf("right=%q wrong=%q", pw.p, wp), w)
					}
				}
				rep.Eval("pkcs12/wrongpw/" + wn + "/" + k.name)
			}
			// byte substitutions: an error, or the same key and leaf certificate
			rr := c.Rng(cls)
			step := len(pfx)/c.Q(150, 4000) + 1
			for p := rr.Intn(step); p < len(pfx); p += step {
				m := append([]byte{}, pfx...)
				m[p] ^= byte(1 + rr.Intn(255))
				var pk2 interface{}
				var certs2 []*gx509.Certificate
				var e error
				if pi := mon.Guard(func() { pk2, certs2, e = pkcs12.DecodeAll(m, pw.p) }); pi != nil {
					rep.Violation("C17/pkcs12.DecodeAll/panic-on-mutated-bundle/"+pi.Func, pi.Value, map[string]interface{}{"position": p, "pfx": mon.Hex(m)})
				} else if e == nil {
					leafOK := false
					for _, g := range certs2 {
						if bytes.Equal(g.Raw, leafDER) {
							leafOK = true
						}
					}
					if !sameKey(pk2, k.key) || !leafOK {
						rep.Violation("C17/pkcs12/mutated-bundle-decodes-to-different-key-or-certificate/"+k.name, fmt.Sprintf("byte %d", p), map[string]interface{}{"position": p, "original": mon.Hex(pfx), "mutated": mon.Hex(m), "password": pw.p})
					}
				}
				rep.EvalN("pkcs12/mutate/"+k.name, 1, true)
			}
			rep.Eval(cls)
		}
	}
}

// The file-based helpers SM2P12Encrypt / SM2P12Decrypt: a bundle written to a path and read back from it is the bundle
// that was written — also when the path already held another (longer or shorter) bundle.
func runC17P12Files(c *Ctx) {
	rep := c.Rep
	r := c.Rng("p12files")
	dir := filepath.Join(c.Out, "p12files")
	os.MkdirAll(dir, 0o755)
	path := filepath.Join(dir, "bundle.p12")
	type item struct {
		k    *sm2.PrivateKey
		cert *gx509.Certificate
		pw   string
	}
	var items []item
	// certificates of clearly different sizes, written to the same path one after the other: big, small, big, small
	for i, extra := range []int{40, 0, 25, 0, 0, 60} {
		k := newSM2Key(r)
		var dns []string
		for j := 0; j < extra; j++ {
			dns = append(dns, fmt.Sprintf("name-%d-%d.p12files.example", i, j))
		}
		cert, _, err := issueSM2(certSpec{cn: fmt.Sprintf("p12 file %d", i), serial: int64(7000 + i), dns: dns}, &k.PublicKey, nil, k, r)
		if err != nil {
			continue
		}
		items = append(items, item{k, cert, []string{"pw", "", "pässwörd"}[i%3]})
	}
	for i, it := range items {
		w := map[string]interface{}{"step": i, "certificate_len": len(it.cert.Raw)}
		var err error
		if pi := mon.Guard(func() { err = pkcs12.SM2P12Encrypt(it.cert, it.pw, it.k, path) }); pi != nil || err != nil {
			rep.Violation("C17/pkcs12.SM2P12Encrypt/fails", fmt.Sprint(pi, err), w)
			continue
		}
		var gc *gx509.Certificate
		var gk *sm2.PrivateKey
		if pi := mon.Guard(func() { gc, gk, err = pkcs12.SM2P12Decrypt(path, it.pw) }); pi != nil || err != nil {
			rep.Violation("C17/pkcs12.SM2P12Decrypt/fails-on-the-file-just-written", fmt.Sprintf("write #%d to the same path: %v %v", i, pi, err), w)
		} else if gc == nil || gk == nil || !bytes.Equal(gc.Raw, it.cert.Raw) || gk.D.Cmp(it.k.D) != 0 {
			rep.Violation("C17/pkcs12.SM2P12Decrypt/returns-another-key-or-certificate", fmt.Sprintf("write #%d", i), w)
		}
		if pi := mon.Guard(func() { _, _, err = pkcs12.SM2P12Decrypt(path, it.pw+"x") }); pi != nil {
			rep.Violation("C17/pkcs12.SM2P12Decrypt/panic/"+pi.Func, pi.Value, w)
		} else if err == nil {
			rep.Violation("C17/pkcs12.SM2P12Decrypt/accepts-wrong-password", "", w)
		}
		rep.Eval(fmt.Sprintf("pkcs12/file-helpers/write=%d", i))
	}
	if pi := mon.Guard(func() { pkcs12.SM2P12Decrypt(filepath.Join(dir, "does-not-exist.p12"), "pw") }); pi != nil {
		rep.Violation("C17/pkcs12.SM2P12Decrypt/panic/"+pi.Func, "missing file: "+pi.Value, nil)
	}
	os.RemoveAll(dir)
}

// Several goroutines decoding and encoding different bundles (different passwords, hence different salts and derived
// keys) at the same time: each must get its own key and certificate back. The key derivation works on per-call buffers;
// anything it shares between calls shows up as a wrong key for somebody.
func runC17P12Concurrent(c *Ctx) {
	rep := c.Rep
	r := c.Rng("p12conc")
	type item struct {
		k    *sm2.PrivateKey
		cert *gx509.Certificate
		pw   string
		pfx  []byte
	}
	var items []item
	for i := 0; i < 8; i++ {
		k := newSM2Key(r)
		cert, _, err := issueSM2(certSpec{cn: fmt.Sprintf("p12 conc %d", i), serial: int64(7100 + i)}, &k.PublicKey, nil, k, r)
		if err != nil {
			continue
		}
		pw := fmt.Sprintf("password-%d-%s", i, []string{"", "ä", "long-long-long-long-long"}[i%3])
		pfx, err := pkcs12.Encode(k, cert, nil, pw)
		if err != nil {
			continue
		}
		items = append(items, item{k, cert, pw, pfx})
	}
	if len(items) < 4 {
		return
	}
	var mu sync.Mutex
	bad := map[string]int{}
	total := 0
	runConcurrently(16, func(g int) {
		rr := mon.NewRNG(uint64(g) + 99)
		for n := 0; n < c.Q(40, 400); n++ {
			it := items[rr.Intn(len(items))]
			var pk interface{}
			var certs []*gx509.Certificate
			var err error
			why := ""
			if n%4 == 3 {
				// encode afresh and decode that
				var pfx []byte
				if pi := mon.Guard(func() {
					if pfx, err = pkcs12.Encode(it.k, it.cert, nil, it.pw); err == nil {
						pk, certs, err = pkcs12.DecodeAll(pfx, it.pw)
					}
				}); pi != nil {
					why = "panic in " + pi.Func
				}
			} else if pi := mon.Guard(func() { pk, certs, err = pkcs12.DecodeAll(it.pfx, it.pw) }); pi != nil {
				why = "panic in " + pi.Func
			}
			if why == "" {
				switch kk := pk.(type) {
				case *sm2.PrivateKey:
					if err != nil || kk.D.Cmp(it.k.D) != 0 || len(certs) == 0 || !bytes.Equal(certs[0].Raw, it.cert.Raw) {
						why = fmt.Sprintf("wrong result: err=%v", err)
					}
				case *ecdsa.PrivateKey:
					if err != nil || kk.D.Cmp(it.k.D) != 0 || len(certs) == 0 || !bytes.Equal(certs[0].Raw, it.cert.Raw) {
						why = fmt.Sprintf("wrong result: err=%v", err)
					}
				default:
					why = fmt.Sprintf("err=%v key %T", err, pk)
				}
			}
			mu.Lock()
			total++
			if why != "" {
				bad[why]++
			}
			mu.Unlock()
		}
	})
	// the same with bundles whose iteration count is 1 (third-party fixtures): thousands of key derivations overlap
	if len(p12FastFixtures) > 0 {
		type fast struct {
			pfx, leaf []byte
			d         *big.Int
			pw        string
		}
		var fs []fast
		for i, fx := range p12FastFixtures {
			pfx, _ := hex.DecodeString(fx.pfx)
			leaf, _ := hex.DecodeString(fx.leafDER)
			kb, _ := hex.DecodeString(fx.keyInfo)
			fs = append(fs, fast{pfx, leaf, new(big.Int).SetBytes(kb), fmt.Sprintf("fast-pw-%d", i+1)})
		}
		// sequential control first: a fixture this library cannot open is left out
		var usable []fast
		for _, f := range fs {
			if _, _, err := pkcs12.DecodeAll(f.pfx, f.pw); err == nil {
				usable = append(usable, f)
			}
		}
		if len(usable) >= 2 {
			runConcurrently(16, func(g int) {
				rr := mon.NewRNG(uint64(g) + 7)
				for n := 0; n < c.Q(1500, 20000); n++ {
					f := usable[rr.Intn(len(usable))]
					var pk interface{}
					var certs []*gx509.Certificate
					var err error
					why := ""
					if pi := mon.Guard(func() { pk, certs, err = pkcs12.DecodeAll(f.pfx, f.pw) }); pi != nil {
						why = "panic in " + pi.Func
					} else if err != nil {
						why = "iteration-count-1 bundle: " + shortErr(err)
					} else {
						var d *big.Int
						switch kk := pk.(type) {
						case *sm2.PrivateKey:
							d = kk.D
						case *ecdsa.PrivateKey:
							d = kk.D
						}
						if d == nil || d.Cmp(f.d) != 0 || len(certs) == 0 || !bytes.Equal(certs[0].Raw, f.leaf) {
							why = "iteration-count-1 bundle: another key or certificate"
						}
					}
					mu.Lock()
					total++
					if why != "" {
						bad[why]++
					}
					mu.Unlock()
				}
			})
		}
	}
	for why, n := range bad {
		rep.Violation("C17/pkcs12/concurrent-use-with-the-right-passwords-fails", fmt.Sprintf("%d of %d concurrent decodes/encodes: %s", n, total, why), nil)
	}
	rep.Count("pkcs12_operations_run_concurrently", int64(total))
	rep.Eval("pkcs12/concurrent/16-goroutines")
}
