package main

import (
	"bytes"
	"crypto/ecdsa"
	"crypto/rsa"
	stdx509 "crypto/x509"
	"encoding/hex"
	"fmt"
	"math/big"
	"strings"

	"github.com/tjfoc/gmsm/pkcs12"
	"github.com/tjfoc/gmsm/sm2"
	gx509 "github.com/tjfoc/gmsm/x509"

	"verif/mon"
)

// Third-party bundles (p12fixtures.go). The statement's positive half speaks of bundles this library encoded, so whether
// a foreign bundle decodes at all is recorded, not judged. Its negative half holds for every bundle: no other password
// opens it, and no change of its bytes makes it decode to another key or certificate; nothing panics. When a bundle does
// decode, what comes out must be the key and certificate OpenSSL put in.
func runC17P12Fixtures(c *Ctx) {
	rep := c.Rep
	all := append(append([]p12Fixture{}, p12Fixtures...), p12JavaFixtures...)
	all = append(all, p12NullPwFixtures...)
	for _, fx := range all {
		pw := fx.password()
		pfx, _ := hex.DecodeString(fx.pfx)
		leaf, _ := hex.DecodeString(fx.leafDER)
		keyInfo, _ := hex.DecodeString(fx.keyInfo)
		w := map[string]interface{}{"fixture": fx.name}
		sameKey := func(v interface{}) bool {
			switch k := v.(type) {
			case *rsa.PrivateKey:
				want, err := stdx509.ParsePKCS8PrivateKey(keyInfo)
				wk, ok := want.(*rsa.PrivateKey)
				return err == nil && ok && wk.D.Cmp(k.D) == 0 && wk.N.Cmp(k.N) == 0
			case *ecdsa.PrivateKey:
				if want, err := stdx509.ParsePKCS8PrivateKey(keyInfo); err == nil {
					wk, ok := want.(*ecdsa.PrivateKey)
					return ok && wk.D.Cmp(k.D) == 0
				}
				return new(big.Int).SetBytes(keyInfo).Cmp(k.D) == 0 // the SM2 fixture, returned as an ecdsa key on the SM2 curve
			case *sm2.PrivateKey:
				return new(big.Int).SetBytes(keyInfo).Cmp(k.D) == 0
			}
			return false
		}
		hasLeaf := func(cs []*gx509.Certificate) bool {
			for _, x := range cs {
				if bytes.Equal(x.Raw, leaf) {
					return true
				}
			}
			return false
		}
		var pk interface{}
		var certs []*gx509.Certificate
		var err error
		if pi := mon.Guard(func() { pk, certs, err = pkcs12.DecodeAll(pfx, pw) }); pi != nil {
			rep.Violation("C17/pkcs12.DecodeAll/panic-on-third-party-bundle/"+pi.Func, pi.Value, w)
			continue
		}
		decodes := err == nil
		rep.Count(fmt.Sprintf("third_party_bundle/%s/decodes=%v", fx.name, decodes), 1)
		if decodes && (!sameKey(pk) || !hasLeaf(certs)) {
			rep.Violation("C17/pkcs12.DecodeAll/third-party-bundle-decodes-to-another-key-or-certificate/"+fx.name, fmt.Sprintf("key %T, %d certificates", pk, len(certs)), w)
		}
		if pi := mon.Guard(func() { pkcs12.ToPEM(pfx, pw) }); pi != nil {
			rep.Violation("C17/pkcs12.ToPEM/panic-on-third-party-bundle/"+pi.Func, pi.Value, w)
		}
		if pi := mon.Guard(func() { pkcs12.Decode(pfx, pw) }); pi != nil {
			rep.Violation("C17/pkcs12.Decode/panic-on-third-party-bundle/"+pi.Func, pi.Value, w)
		}
		if !decodes && fx.mustDecode {
			rep.Violation("C17/pkcs12.DecodeAll/bundle-in-implemented-algorithms-rejected-with-its-password/"+fx.name, shortErr(err), w)
		}
		for _, wp := range []string{"", "pW", "pw ", "pwx", "p", pw + "x", "\x00" + pw} {
			if wp == pw || (pw == "" && strings.Trim(wp, "\x00") == "") {
				continue
			}
			var e error
			if pi := mon.Guard(func() { _, _, e = pkcs12.DecodeAll(pfx, wp) }); pi != nil {
				rep.Violation("C17/pkcs12.DecodeAll/panic-on-wrong-password/"+pi.Func, pi.Value, w)
			} else if e == nil {
				rep.Violation("C17/pkcs12.DecodeAll/accepts-wrong-password/third-party-bundle/"+fx.name, fmt.Sprintf("wrong=%q", wp), w)
			}
			rep.Eval("pkcs12/third-party/" + fx.name + "/wrongpw")
		}
		if !decodes {
			rep.EvalTrivial("pkcs12/third-party/" + fx.name + "/not-decodable(" + shortErr(err) + ")")
			continue
		}
		rr := c.Rng("p12fix/" + fx.name)
		step := len(pfx)/c.Q(200, 5000) + 1
		for p := rr.Intn(step); p < len(pfx); p += step {
			m := append([]byte{}, pfx...)
			m[p] ^= byte(1 + rr.Intn(255))
			var pk2 interface{}
			var certs2 []*gx509.Certificate
			var e error
			if pi := mon.Guard(func() { pk2, certs2, e = pkcs12.DecodeAll(m, pw) }); pi != nil {
				rep.Violation("C17/pkcs12.DecodeAll/panic-on-mutated-bundle/"+pi.Func, pi.Value, map[string]interface{}{"fixture": fx.name, "position": p, "pfx": mon.Hex(m)})
			} else if e == nil && (!sameKey(pk2) || !hasLeaf(certs2)) {
				rep.Violation("C17/pkcs12/mutated-bundle-decodes-to-different-key-or-certificate/third-party/"+fx.name, fmt.Sprintf("byte %d", p), map[string]interface{}{"fixture": fx.name, "position": p, "mutated": mon.Hex(m)})
			}
			if pi := mon.Guard(func() { pkcs12.ToPEM(m, pw) }); pi != nil {
				rep.Violation("C17/pkcs12.ToPEM/panic-on-mutated-bundle/"+pi.Func, pi.Value, map[string]interface{}{"fixture": fx.name, "position": p, "pfx": mon.Hex(m)})
			}
			rep.EvalN("pkcs12/third-party/mutate/"+fx.name, 1, true)
		}
		rep.Eval("pkcs12/third-party/" + fx.name)
	}
}

// Many key derivations in one process, then the first bundles again: a bundle that opened with its password before a
// few thousand other (password, salt) pairs went through the key derivation must open with it afterwards, to the same key,
// and a password that was wrong before must still be wrong. Iteration-count-1 bundles keep this cheap.
func runC17P12ManyDerivations(c *Ctx) {
	rep := c.Rep
	type fast struct {
		name string
		pfx  []byte
		leaf []byte
		pw   string
	}
	var fs []fast
	for i, fx := range p12FastFixtures {
		pfx, _ := hex.DecodeString(fx.pfx)
		leaf, _ := hex.DecodeString(fx.leafDER)
		fs = append(fs, fast{fx.name, pfx, leaf, fmt.Sprintf("fast-pw-%d", i+1)})
	}
	opens := func(f fast, pw string) (bool, string) {
		var certs []*gx509.Certificate
		var err error
		if pi := mon.Guard(func() { _, certs, err = pkcs12.DecodeAll(f.pfx, pw) }); pi != nil {
			return false, "panic: " + pi.Value
		}
		if err != nil {
			return false, shortErr(err)
		}
		for _, x := range certs {
			if bytes.Equal(x.Raw, f.leaf) {
				return true, ""
			}
		}
		return false, "decoded, but to other certificates"
	}
	var usable []fast
	for _, f := range fs {
		if ok, _ := opens(f, f.pw); ok {
			usable = append(usable, f)
		}
	}
	if len(usable) == 0 {
		rep.Count("many_derivations_skipped(no usable fixture)", 1)
		return
	}
	n := c.Q(1500, 20000)
	for i := 0; i < n; i++ {
		f := usable[i%len(usable)]
		wp := fmt.Sprintf("not-the-password-%d", i)
		if ok, _ := opens(f, wp); ok {
			rep.Violation("C17/pkcs12.DecodeAll/accepts-wrong-password/after-many-derivations", fmt.Sprintf("fixture %s opened with %q", f.name, wp), map[string]interface{}{"fixture": f.name, "attempt": i})
			return
		}
	}
	for _, f := range usable {
		if ok, why := opens(f, f.pw); !ok {
			rep.Violation("C17/pkcs12.DecodeAll/right-password-refused-after-many-other-derivations", fmt.Sprintf("fixture %s, which opened before %d other derivations: %s", f.name, n, why), map[string]interface{}{"fixture": f.name, "derivations_in_between": n})
		}
		if ok, _ := opens(f, "not-the-password-0"); ok {
			rep.Violation("C17/pkcs12.DecodeAll/accepts-wrong-password/after-many-derivations", "fixture "+f.name, map[string]interface{}{"fixture": f.name})
		}
	}
	rep.Count("pkcs12_derivations_between_first_and_second_decode", int64(n))
	rep.Eval("pkcs12/many-derivations-then-first-bundles-again")
}

func shortErr(err error) string {
	if err == nil {
		return ""
	}
	s := err.Error()
	if len(s) > 60 {
		s = s[:60]
	}
	return s
}
