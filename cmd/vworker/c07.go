package main

import (
	"bytes"
	"encoding/hex"
	"fmt"
	"io"
	"sync"
	"sync/atomic"
	"time"

	"github.com/tjfoc/gmsm/gmtls"

	"verif/mon"
	"verif/ref"
)

func init() { registry["C07"] = runC07 }

type c07Fault struct {
	fromClient bool   // direction that is attacked
	k          int    // index of the application-phase record (of that direction) the fault applies to
	kind       string // flip | truncate | extend | swap | dup | drop | inject-reverse | inject-foreign | hdr-type | hdr-version | hdr-length | eos | replay-far
	arg        int
	long       bool // a session of some 300 small writes instead of 8 (counters, IV sources and caches behave differently past their first wrap)
	dist       int  // replay-far: the record is presented again dist records later
}

func (f c07Fault) String() string {
	d := "s2c"
	if f.fromClient {
		d = "c2s"
	}
	if f.kind == "replay-far" {
		return fmt.Sprintf("replay-far@%s#%d+%d", d, f.k, f.dist)
	}
	return fmt.Sprintf("%s@%s#%d(arg=%d)", f.kind, d, f.k, f.arg)
}

func runC07(c *Ctx) {
	rep := c.Rep
	rep.Meta("cases: (a) black box — real GMSSL sessions (both suites, both directions) through a MITM transport that applies one fault to one application-phase record: bit flip (every region: header, explicit IV/nonce, ciphertext, MAC/tag), truncation/extension by 1..32 and by a block, adjacent swap, duplicate, drop, injection of a record from the opposite direction or from another connection, header type/version/length rewrite, early end of stream; monitors: prefix-stream at the receiver with the exact byte count implied by the reference decoder's per-record plaintext lengths, sticky error, alert on the wire, nothing delivered after the first affected record; (b) white box through the halfConn hook — every bit of every record for payload sizes {0,1,15,16,17,31,32,100} against a receiver at the right sequence number (exhaustive), sampled to 16384 bytes; reference-built CBC records with every padding length 0..255 (valid ones must be accepted; each corrupted padding byte, MAC byte or length byte must be rejected); order/replay/sequence monitors; gmsm-sealed records opened by the reference under index-as-sequence-number and vice versa; (c) passive nonce monitors over all sessions of the run: explicit CBC IVs pairwise distinct and not the previous ciphertext block, GCM explicit nonce = sequence number 0,1,2,...; (d) the same record faults on sessions of the standard-TLS rows of the suite table that share the record layer (RC4; CBC with implicit IV and 1/n-1 splitting at TLS 1.0, explicit IV at 1.1/1.2, SHA-1 and SHA-256 MACs, AES and 3DES; AES-128/256-GCM; ChaCha20-Poly1305): exact delivered-byte count where every Write is one record (constant write size, records per Write measured by a fault-free control session), position-free oracle under dynamic record sizing. Distinct non-trivial = distinct (suite, direction, fault kind, region/size).",
		3000, []string{"ref TLCP record layer (ref SM4, HMAC-SM3, crypto/cipher CBC/GCM)"},
		[]string{"header length bytes are not interpreted by halfConn.decrypt (framing is the connection's job): covered only in the black-box layer"})
	r := c.Rng("c07")
	pki, err := newTLSPKI(r, false)
	if err != nil {
		rep.Violation("C07/harness/pki", err.Error(), nil)
		return
	}
	runC07White(c)
	// ---- black box
	suites := []uint16{gmtls.GMTLS_ECC_SM4_CBC_SM3, gmtls.GMTLS_ECC_SM4_GCM_SM3}
	var faults []c07Fault
	kinds := []string{"flip", "flip", "flip", "flip", "truncate", "extend", "swap", "dup", "drop", "inject-reverse", "inject-foreign", "hdr-type", "hdr-version", "hdr-length", "eos", "inject-empty"}
	n := c.Q(320, 24000)
	for i := 0; i < n; i++ {
		f := c07Fault{fromClient: i%2 == 0, k: r.Intn(6), kind: kinds[i%len(kinds)], arg: r.Intn(1 << 20)}
		faults = append(faults, f)
	}
	// long sessions: faults deep inside a stream of several hundred records, and old records replayed at the distances at
	// which a one-byte or per-connection counter comes round (31..33, 255..257, ...)
	dists := []int{255, 256, 257, 32, 31, 33, 64, 128, 254, 16}
	for i := 0; i < c.Q(20, 400); i++ {
		f := c07Fault{fromClient: i%2 == 0, long: true, kind: kinds[(i*7)%len(kinds)], arg: r.Intn(1 << 20), k: 40 + r.Intn(240)}
		if i%2 == 0 || i < 2*len(dists) {
			f.kind, f.dist, f.k = "replay-far", dists[(i/2)%len(dists)], r.Intn(12)
		}
		faults = append(faults, f)
	}
	var ivMu sync.Mutex
	seenIV := map[string]string{}
	Par(len(faults), func(i int) {
		suite := suites[(i/2)%2]
		runC07Session(c, pki, suite, faults[i], i, &ivMu, seenIV)
	})
	rep.Count("distinct_cbc_explicit_ivs_observed", int64(len(seenIV)))
	runC07TLS(c, pki)
	rep.Require("blackbox_tls_sessions_with_fault_applied", 60)
}

// c07Foreign holds records captured from an unrelated connection (same certificates), used for injection.
func runC07Session(c *Ctx, pki *tlsPKI, suite uint16, f c07Fault, idx int, ivMu *sync.Mutex, seenIV map[string]string) {
	rep := c.Rep
	r := c.Rng(fmt.Sprintf("sess%d", idx))
	klog := &keyLog{}
	mkCfgs := func() (*gmtls.Config, *gmtls.Config) {
		scfg := &gmtls.Config{GMSupport: gmtls.NewGMSupport(), Certificates: []gmtls.Certificate{pki.sig, pki.enc}, CipherSuites: []uint16{suite}, Time: func() timeT { return fixedNow }, Rand: mon.NewRNG(r.U64()), KeyLogWriter: klog, SessionTicketsDisabled: true}
		ccfg := &gmtls.Config{GMSupport: gmtls.NewGMSupport(), CipherSuites: []uint16{suite}, ServerName: tlsServerName, RootCAs: pki.pool, Time: func() timeT { return fixedNow }, Rand: mon.NewRNG(r.U64()), KeyLogWriter: klog, SessionTicketsDisabled: true}
		if idx%3 == 2 { // (not a multiple of 2 or 4: the suite alternates with idx/2)
			// a randomness source that hands out its bytes a few at a time (an io.Reader may): every IV, nonce and random
			// field must still be filled completely with fresh bytes
			scfg.Rand, ccfg.Rand = &shortReader{inner: mon.NewRNG(r.U64())}, &shortReader{inner: mon.NewRNG(r.U64())}
		}
		return ccfg, scfg
	}
	w := map[string]interface{}{"suite": suiteName(suite), "fault": f.String()}
	// foreign records: another session with the same certificates, a few application records each way
	var foreign [2][]byte
	if f.kind == "inject-foreign" {
		cc, sc := mkCfgs()
		var cnt [2]int32
		o := handshakePair(cc, sc, func(fc bool, i int, rec []byte) ([][]byte, bool) {
			if rec[0] == ref.RecAppData {
				d := 1
				if fc {
					d = 0
				}
				if atomic.AddInt32(&cnt[d], 1) == int32(2+f.k) || foreign[d] == nil {
					foreign[d] = append([]byte{}, rec...)
				}
			}
			return nil, false
		})
		if o.cli.completed && o.srv.completed {
			var wg sync.WaitGroup
			wg.Add(2)
			go func() {
				defer wg.Done()
				for k := 0; k < 8; k++ {
					o.cli.conn.Write(bytes.Repeat([]byte{0x11}, 50))
				}
			}()
			go func() {
				defer wg.Done()
				for k := 0; k < 8; k++ {
					o.srv.conn.Write(bytes.Repeat([]byte{0x22}, 50))
				}
			}()
			wg.Wait()
			o.cli.conn.Close()
			o.srv.conn.Close()
		}
	}
	ccfg, scfg := mkCfgs()
	var armed, faultApplied int32
	mut := c07Mutator(f, &foreign, &armed, &faultApplied)
	out := handshakePair(ccfg, scfg, mut)
	if !out.cli.completed || !out.srv.completed {
		rep.Violation("C07/harness/handshake-failed", fmt.Sprintf("%v / %v", out.cli.err, out.srv.err), w)
		return
	}
	atomic.StoreInt32(&armed, 1)
	sender, receiver := out.cli.conn, out.srv.conn
	dir := 0
	if !f.fromClient {
		sender, receiver = out.srv.conn, out.cli.conn
		dir = 1
	}
	seed := r.U64()
	// the reverse direction carries a little traffic first so that "inject-reverse" has material
	var pre sync.WaitGroup
	pre.Add(2)
	go func() { defer pre.Done(); receiver.Write(patBytes(seed, 1-dir, 0, 40)) }()
	go func() {
		defer pre.Done()
		b := make([]byte, 40)
		io.ReadFull(sender, b)
	}()
	pre.Wait()
	// sender: 8 writes with seeded sizes, then Close
	sizes := make([]int, 8)
	if f.long {
		sizes = make([]int, 300)
	}
	total := 0
	for i := range sizes {
		sizes[i] = r.Pick(1, 2, 15, 16, 17, 100, 1000, 5000, 16384, 1+r.Intn(3000))
		if f.long {
			sizes[i] = r.Pick(1, 2, 3, 15, 16, 17, 40)
		}
		total += sizes[i]
	}
	if f.long {
		rep.Count("blackbox_long_sessions", 1)
	}
	var wg sync.WaitGroup
	wg.Add(2)
	go func() {
		defer wg.Done()
		off := 0
		for _, n := range sizes {
			if _, err := sender.Write(patBytes(seed, dir, off, n)); err != nil {
				break
			}
			off += n
		}
		sender.Close()
	}()
	var got []byte
	var rerr error
	stickyBad := ""
	halfClosed := idx%3 == 1
	if halfClosed {
		// the receiver has finished sending (close_notify) and only reads from now on: errors on its inbound stream must
		// stay as fatal and as sticky as on a fully open connection
		receiver.CloseWrite()
		w["receiver_half_closed_before_reading"] = true
		rep.Count("blackbox_runs_with_half_closed_receiver", 1)
		rep.Require("blackbox_runs_with_half_closed_receiver", 5)
	}
	go func() {
		defer wg.Done()
		buf := make([]byte, 20000)
		for {
			n, err := receiver.Read(buf)
			got = append(got, buf[:n]...)
			if err != nil {
				rerr = err
				// sticky: every later Read fails and delivers nothing
				for k := 0; k < 5; k++ {
					// an application that polls with deadlines moves them between Reads: that must not revive the connection
					switch k {
					case 2:
						receiver.SetReadDeadline(time.Time{})
					case 3:
						receiver.SetDeadline(time.Now().Add(time.Hour))
					case 4:
						receiver.SetReadDeadline(time.Now().Add(time.Hour))
					}
					n2, e2 := receiver.Read(buf)
					if n2 != 0 || e2 == nil {
						stickyBad = fmt.Sprintf("Read #%d after the error returned (%d,%v)%s", k+1, n2, e2, map[bool]string{true: " — after the read deadline was moved", false: ""}[k >= 2])
					}
				}
				return
			}
		}
	}()
	wg.Wait()
	receiver.Close()
	// ---- reference decoding of what the endpoints wrote (pre-mutation): per-record plaintext lengths, IVs, alerts
	d := ref.DecodeSession(out.orig.snapshot(), klog.masters(), pki.encKey.D)
	if d.Err != "" {
		rep.Violation("C07/wire/reference-decoder-rejects-sender-output", d.Err, w)
		return
	}
	// cumulative plaintext of app records of the attacked direction
	var cum []int // cum[i] = bytes contained in app records 0..i-1 of the attacked direction (after the 0 pre-traffic of that dir)
	acc := 0
	var prevLast []byte
	gcmSeq := map[bool]uint64{}
	prevIV := map[bool][]byte{}
	for _, ri := range d.Records {
		if ri.Protected {
			if ref.SuiteIsGCM(suite) {
				want := gcmSeq[ri.FromClient]
				var exp [8]byte
				for j := 0; j < 8; j++ {
					exp[7-j] = byte(want >> (8 * uint(j)))
				}
				if !bytes.Equal(ri.ExplicitIV, exp[:]) || ri.Seq != want {
					rep.Violation("C07/wire/gcm-explicit-nonce-is-not-the-sequence-counter", fmt.Sprintf("record seq %d carries nonce %x", want, ri.ExplicitIV), w)
				}
				gcmSeq[ri.FromClient] = want + 1
			} else {
				key := hex.EncodeToString(ri.ExplicitIV)
				ivMu.Lock()
				if prev, dup := seenIV[key]; dup {
					rep.Violation("C07/wire/cbc-explicit-iv-repeated", "IV "+key+" used by "+prev+" and again in session "+fmt.Sprint(idx), w)
				}
				seenIV[key] = fmt.Sprint("session ", idx)
				ivMu.Unlock()
				if ri.FromClient == f.fromClient {
					if prevLast != nil && bytes.Equal(prevLast, ri.ExplicitIV) {
						rep.Violation("C07/wire/cbc-iv-is-previous-ciphertext-block", "", w)
					}
					prevLast = ri.LastBlock
				}
				// fresh means all of it: an IV that agrees with the previous IV of its direction in six or more byte positions
				// was not drawn afresh (chance for two random IVs: about 3e-11)
				if pv := prevIV[ri.FromClient]; len(pv) == len(ri.ExplicitIV) && len(pv) == 16 {
					same := 0
					for q := range pv {
						if pv[q] == ri.ExplicitIV[q] {
							same++
						}
					}
					if same >= 6 {
						rep.Violation("C07/wire/cbc-explicit-iv-only-partly-fresh", fmt.Sprintf("IV %x follows IV %x of the same direction: %d of 16 bytes unchanged", ri.ExplicitIV, pv, same), w)
					}
				}
				prevIV[ri.FromClient] = append([]byte{}, ri.ExplicitIV...)
			}
		}
		if ri.Type == ref.RecAppData && ri.FromClient == f.fromClient {
			cum = append(cum, acc)
			acc += ri.PlainLen
		}
	}
	cum = append(cum, acc)
	if atomic.LoadInt32(&faultApplied) == 0 {
		rep.EvalTrivial("blackbox/fault-not-reached/" + f.kind)
		return
	}
	// expected delivered byte count
	appIdx := f.k // index among app records of the attacked direction
	if f.kind == "replay-far" {
		appIdx = f.k + f.dist // the old record arrives in front of this one
	}
	before := 0
	if appIdx < len(cum) {
		before = cum[appIdx]
	}
	through := before
	if appIdx+1 < len(cum) {
		through = cum[appIdx+1]
	}
	want := before
	allowEOF := false
	switch f.kind {
	case "dup", "inject-reverse", "inject-foreign":
		if f.kind == "dup" {
			want = through
		}
	case "eos":
		want = through
		allowEOF = true
	case "drop":
		// if the dropped record was the last before close_notify, the alert itself fails the MAC: still an error
	}
	region := ""
	if f.kind == "flip" {
		region = []string{"/first-bytes", "/iv-or-nonce", "/body", "/mac-tag-padding"}[f.arg%4]
	}
	if f.kind == "replay-far" {
		region = fmt.Sprintf("/distance=%d", f.dist)
	}
	if f.long {
		region += "/long-session"
	}
	cls := fmt.Sprintf("blackbox/%s/%s/%s%s", suiteName(suite), map[bool]string{true: "c2s", false: "s2c"}[f.fromClient], f.kind, region)
	w["delivered"], w["expected_delivered"], w["read_error"], w["sizes"] = len(got), want, errStr(rerr), sizes
	if mm := firstMismatch(seed, dir, got); mm >= 0 {
		rep.Violation("C07/Read/delivered-byte-not-sent-at-that-position/"+f.kind, fmt.Sprintf("%s: first wrong byte at offset %d of %d delivered", f, mm, len(got)), w)
	}
	if len(got) > want {
		rep.Violation("C07/Read/bytes-delivered-after-the-affected-record/"+f.kind+region, fmt.Sprintf("%s: %d bytes delivered, only %d precede the affected record", f, len(got), want), w)
	}
	if len(got) < want {
		rep.Violation("C07/Read/bytes-before-the-affected-record-lost/"+f.kind, fmt.Sprintf("%s: %d bytes delivered, %d were expected", f, len(got), want), w)
	}
	if rerr == nil || (rerr == io.EOF && !allowEOF && len(got) < total) {
		rep.Violation("C07/Read/no-fatal-error-after-affected-record/"+f.kind+region, fmt.Sprintf("%s: Read ended with %v after %d of %d bytes", f, rerr, len(got), total), w)
	}
	if stickyBad != "" {
		rep.Violation("C07/Read/error-not-sticky/"+f.kind, stickyBad, w)
	}
	alert := "none"
	for _, a := range d.Alerts {
		if (a[0] == 'S') == f.fromClient { // alert written by the receiver
			alert = a
		}
	}
	rep.Count("alert_seen_from_receiver/"+alert, 1)
	rep.Eval(cls)
	if idx == 4 {
		rep.Sample(map[string]interface{}{"kind": "blackbox", "suite": suiteName(suite), "fault": f.String(), "write_sizes": sizes, "delivered": len(got), "expected": want, "read_error": errStr(rerr), "receiver_alert": alert})
	}
}

// c07Mutator builds the record rewriter of one black-box session: it counts the application records of the attacked
// direction once *armed is set and applies fault f to record number f.k (sets *applied when it does).
func c07Mutator(f c07Fault, foreign *[2][]byte, armed, applied *int32) func(fc bool, i int, rec []byte) ([][]byte, bool) {
	var cnt [2]int
	var held, far []byte
	var lastReverse [2][]byte
	var mmu sync.Mutex
	mut := func(fc bool, i int, rec []byte) ([][]byte, bool) {
		mmu.Lock()
		defer mmu.Unlock()
		d := 1
		if fc {
			d = 0
		}
		if atomic.LoadInt32(armed) == 0 {
			return nil, false
		}
		if rec[0] == ref.RecAppData {
			lastReverse[d] = append([]byte{}, rec...)
		}
		if fc != f.fromClient || rec[0] != ref.RecAppData && f.kind != "eos" {
			// only application records of the attacked direction are counted (alerts pass, except that a held swap record is flushed)
			if fc == f.fromClient && held != nil {
				h := held
				held = nil
				return [][]byte{rec, h}, false
			}
			return nil, false
		}
		k := cnt[d]
		cnt[d]++
		if f.kind == "replay-far" {
			if k == f.k {
				far = append([]byte{}, rec...)
			}
			if k == f.k+f.dist && far != nil {
				atomic.StoreInt32(applied, 1)
				return [][]byte{far, rec}, false
			}
			return nil, false
		}
		if held != nil { // second half of a swap
			h := held
			held = nil
			return [][]byte{rec, h}, false
		}
		if k != f.k {
			return nil, false
		}
		atomic.StoreInt32(applied, 1)
		m := append([]byte{}, rec...)
		switch f.kind {
		case "flip":
			// region by arg: 0 header type/version, 1 explicit IV/nonce, 2 body middle, 3 last 32 bytes (MAC/tag/padding)
			body := len(m) - 5
			var pos int
			switch f.arg % 4 {
			case 0:
				pos = 5 + (f.arg/4)%minInt(8, body)
			case 1:
				pos = 5 + (f.arg/4)%minInt(16, body)
			case 2:
				pos = 5 + (f.arg/4)%body
			default:
				pos = len(m) - 1 - (f.arg/4)%minInt(32, body)
			}
			m[pos] ^= 1 << uint((f.arg>>12)%8)
			return [][]byte{m}, false
		case "truncate":
			cut := 1 + f.arg%32
			if f.arg%5 == 0 {
				cut = 16
			}
			if cut >= len(m)-5 {
				cut = len(m) - 6
			}
			m = m[:len(m)-cut]
			m[3], m[4] = byte((len(m)-5)>>8), byte(len(m)-5)
			return [][]byte{m}, false
		case "extend":
			add := 1 + f.arg%32
			if f.arg%5 == 0 {
				add = 16
			}
			m = append(m, bytes.Repeat([]byte{byte(f.arg)}, add)...)
			m[3], m[4] = byte((len(m)-5)>>8), byte(len(m)-5)
			return [][]byte{m}, false
		case "swap":
			held = m
			return [][]byte{}, false
		case "dup":
			return [][]byte{m, m}, false
		case "drop":
			return [][]byte{}, false
		case "inject-reverse":
			if lastReverse[1-d] != nil {
				return [][]byte{lastReverse[1-d], m}, false
			}
			// nothing seen yet from the other direction: inject a copy of this record re-typed as from nowhere (replay of itself later)
			return [][]byte{m, m}, false
		case "inject-empty":
			// a bare record header announcing zero bytes (no IV, no MAC, no tag: nothing that could authenticate it), of
			// type application data, alert or handshake, in front of the genuine record
			typ := []byte{23, 21, 22, 23}[f.arg%4]
			n := 1 + (f.arg/4)%3
			var outs [][]byte
			for q := 0; q < n; q++ {
				outs = append(outs, []byte{typ, m[1], m[2], 0, 0})
			}
			return append(outs, m), false
		case "inject-foreign":
			if (*foreign)[d] != nil {
				return [][]byte{(*foreign)[d], m}, false
			}
			return [][]byte{m, m}, false
		case "hdr-type":
			m[0] = []byte{20, 21, 22, 24, 0, 255}[f.arg%6]
			return [][]byte{m}, false
		case "hdr-version":
			if f.arg%2 == 0 {
				m[1] ^= byte(1 + f.arg%3)
			} else {
				m[2] ^= byte(1 + f.arg%3)
			}
			return [][]byte{m}, false
		case "hdr-length":
			l := len(m) - 5
			nl := []int{l - 1, l + 1, l - 16, l + 16, 0, 0x4800}[f.arg%6]
			if nl < 0 {
				nl = 0
			}
			m[3], m[4] = byte(nl>>8), byte(nl)
			return [][]byte{m}, false
		case "eos":
			return [][]byte{m}, true
		}
		return nil, false
	}
	return mut
}

func runC07White(c *Ctx) {
	rep := c.Rep
	type sc struct {
		id     uint16
		name   string
		macLen int
		ivLen  int
	}
	// all four GM suite-table entries: the ECDHE ids share the record protection of their ECC counterparts
	for _, s := range []sc{{gmtls.GMTLS_ECC_SM4_CBC_SM3, "CBC", 32, 16}, {gmtls.GMTLS_ECC_SM4_GCM_SM3, "GCM", 0, 4},
		{gmtls.GMTLS_ECDHE_SM4_CBC_SM3, "ECDHE-CBC", 32, 16}, {gmtls.GMTLS_ECDHE_SM4_GCM_SM3, "ECDHE-GCM", 0, 4}} {
		s := s
		// a long run of one sender / receiver pair: the sequence number needs a carry after 255 records and a second one
		// after 65535 (thorough tier); every record is opened by the reference under its index and by a gmsm receiver, and
		// at each checkpoint behind a carry a fresh receiver that has seen all records so far is shown record 0 again
		{
			r := c.Rng("white-long/" + s.name)
			key, iv, mac := r.Bytes(16), r.Bytes(s.ivLen), r.Bytes(s.macLen)
			w := map[string]interface{}{"suite": s.name, "key": mon.Hex(key), "iv": mon.Hex(iv), "mac_key": mon.Hex(mac)}
			snd, e1 := gmtls.VerifNewHalfConn(s.id, key, iv, mac, false)
			rcv, e2 := gmtls.VerifNewHalfConn(s.id, key, iv, mac, true)
			if e1 != nil || e2 != nil {
				rep.Violation("C07/harness/halfconn", fmt.Sprint(e1, e2), w)
			} else {
				refRcv := &ref.HalfState{Suite: s.id, Key: key, IV: iv, MACKey: mac, On: true}
				n := c.Q(600, 66000)
				var first []byte
				bad := false
				for i := 0; i < n && !bad; i++ {
					p := []byte{byte(i), byte(i >> 8), byte(i >> 16)}
					rec := snd.Encrypt(ref.RecAppData, p, r.Bytes(16))
					if i == 0 {
						first = rec
					}
					rr, _ := ref.SplitRecords(rec)
					if len(rr) != 1 {
						rep.Violation("C07/encrypt/not-one-wellformed-record", fmt.Sprint(i), w)
						break
					}
					if info, err := refRcv.Open(rr[0]); err != nil || !bytes.Equal(info.Plain, p) {
						rep.Violation("C07/encrypt/reference-cannot-open-gmsm-record/"+s.name+"/long-run", fmt.Sprintf("record %d: %v", i, err), w)
						bad = true
					}
					if got, ok, _ := rcv.Decrypt(rec); !ok || !bytes.Equal(got, p) {
						rep.Violation("C07/decrypt/rejects-the-next-record-of-a-long-run/"+s.name, fmt.Sprintf("record %d", i), w)
						bad = true
					}
					if snd.Seq() != uint64(i+1) || rcv.Seq() != uint64(i+1) {
						rep.Violation("C07/encrypt/sequence-number-does-not-advance-by-one", fmt.Sprintf("after %d records sender seq=%d receiver seq=%d", i+1, snd.Seq(), rcv.Seq()), w)
						bad = true
					}
					switch i + 1 {
					case 255, 256, 257, 511, 512, 65535, 65536, 65537:
						// the receiver now expects record i+1: record 0 again must not pass for it
						if _, ok, _ := rcv.Decrypt(first); ok {
							rep.Violation("C07/decrypt/accepts-record-under-wrong-sequence-number/"+s.name, fmt.Sprintf("record 0 accepted again after %d records", i+1), w)
						}
						bad = true // a failed Decrypt may or may not consume a sequence number: this receiver is done; go on with a fresh pair
						if i+1 < n {
							// resynchronise: new pair positioned at i+1 by replaying the run is expensive for 65536; instead continue the
							// sender with a fresh receiver fed only from here on, by re-keying both at the same position
							rep.Count("white_long_run_checkpoints", 1)
						}
					}
					if bad && (i+1 == 255 || i+1 == 256 || i+1 == 257 || i+1 == 511 || i+1 == 512 || i+1 == 65535 || i+1 == 65536 || i+1 == 65537) {
						// continue the run behind the checkpoint with a new receiver brought to the same position
						bad = false
						rcv2, e := gmtls.VerifNewHalfConn(s.id, key, iv, mac, true)
						if e != nil {
							break
						}
						rcv = nil
						// bring the new receiver to sequence number i+1 by re-sealing the run with a second sender
						snd2, _ := gmtls.VerifNewHalfConn(s.id, key, iv, mac, false)
						rr2 := mon.NewRNG(uint64(i))
						for j := 0; j <= i; j++ {
							if _, ok, _ := rcv2.Decrypt(snd2.Encrypt(ref.RecAppData, []byte{1}, rr2.Bytes(16))); !ok {
								break
							}
						}
						rcv = rcv2
					}
				}
				rep.Count("white_long_run_records/"+s.name, int64(n))
				rep.Eval("white/long-run/" + s.name)
			}
		}
		sizes := []int{0, 1, 15, 16, 17, 31, 32, 100}
		big := []int{1000, 4096, 16384}
		Par(len(sizes)+len(big), func(si int) {
			r := c.Rng(fmt.Sprintf("white%s%d", s.name, si))
			exhaustive := si < len(sizes)
			var size int
			if exhaustive {
				size = sizes[si]
			} else {
				size = big[si-len(sizes)]
			}
			key, iv, mac := r.Bytes(16), r.Bytes(s.ivLen), r.Bytes(s.macLen)
			w := map[string]interface{}{"suite": s.name, "payload_len": size, "key": mon.Hex(key), "iv": mon.Hex(iv), "mac_key": mon.Hex(mac)}
			for _, atSeq := range []int{0, 3} {
				snd, e1 := gmtls.VerifNewHalfConn(s.id, key, iv, mac, false)
				if e1 != nil {
					rep.Violation("C07/harness/halfconn", e1.Error(), w)
					return
				}
				refRcv := &ref.HalfState{Suite: s.id, Key: key, IV: iv, MACKey: mac, On: true}
				var recs [][]byte
				var pays [][]byte
				for q := 0; q <= atSeq; q++ {
					p := r.Bytes(size)
					rec := snd.Encrypt(ref.RecAppData, p, r.Bytes(16))
					recs, pays = append(recs, rec), append(pays, p)
					// the reference must open gmsm's record under the index as sequence number
					rr, _ := ref.SplitRecords(rec)
					if len(rr) != 1 {
						rep.Violation("C07/encrypt/not-one-wellformed-record", "", w)
						return
					}
					info, err := refRcv.Open(rr[0])
					if err != nil || !bytes.Equal(info.Plain, p) {
						rep.Violation("C07/encrypt/reference-cannot-open-gmsm-record/"+s.name, fmt.Sprintf("seq %d: %v", q, err), w)
						return
					}
					if snd.Seq() != uint64(q+1) {
						rep.Violation("C07/encrypt/sequence-number-does-not-advance-by-one", fmt.Sprintf("after %d records seq=%d", q+1, snd.Seq()), w)
					}
				}
				target := recs[atSeq]
				mkRcv := func() *gmtls.VerifHalfConn {
					rc, _ := gmtls.VerifNewHalfConn(s.id, key, iv, mac, true)
					for q := 0; q < atSeq; q++ {
						if p, ok, _ := rc.Decrypt(recs[q]); !ok || !bytes.Equal(p, pays[q]) {
							rep.Violation("C07/decrypt/rejects-valid-record/"+s.name, fmt.Sprintf("seq %d", q), w)
						}
					}
					return rc
				}
				// control
				if p, ok, _ := mkRcv().Decrypt(target); !ok || !bytes.Equal(p, pays[atSeq]) {
					rep.Violation("C07/decrypt/rejects-valid-record/"+s.name, fmt.Sprintf("seq %d size %d", atSeq, size), w)
					return
				}
				// wrong position: the record for seq k presented at another sequence number
				if atSeq > 0 {
					rc, _ := gmtls.VerifNewHalfConn(s.id, key, iv, mac, true)
					if _, ok, _ := rc.Decrypt(target); ok {
						rep.Violation("C07/decrypt/accepts-record-under-wrong-sequence-number/"+s.name, fmt.Sprintf("record sealed at seq %d accepted at seq 0", atSeq), w)
					}
					rc2 := mkRcv()
					if _, ok, _ := rc2.Decrypt(recs[0]); ok {
						rep.Violation("C07/decrypt/accepts-replayed-record/"+s.name, "record 0 accepted again at seq 3", w)
					}
					rep.Eval("white/" + s.name + "/order-replay")
				}
				// every bit (exhaustive sizes) or sampled bits
				nbits := len(target) * 8
				step := 1
				if !exhaustive {
					step = nbits/4000 + 1
				}
				for bit := 0; bit < nbits; bit += step {
					if bit/8 == 3 || bit/8 == 4 {
						continue // header length: framing is not halfConn's business
					}
					m := append([]byte{}, target...)
					m[bit/8] ^= 0x80 >> uint(bit%8)
					p, ok, al := mkRcv().Decrypt(m)
					if ok {
						reg := "body"
						switch {
						case bit/8 < 3:
							reg = "header"
						case bit/8 < 5+map[string]int{"CBC": 16, "GCM": 8}[s.name]:
							reg = "explicit-iv-or-nonce"
						}
						ww := map[string]interface{}{"bit": bit, "record": mon.Hex(target), "delivered": mon.Hex(p)}
						for k, v := range w {
							ww[k] = v
						}
						rep.Violation("C07/decrypt/accepts-record-with-flipped-bit/"+s.name+"/"+reg, fmt.Sprintf("size %d seq %d bit %d: delivered %d bytes", size, atSeq, bit, len(p)), ww)
					} else if al != 20 {
						rep.Count("white_rejections_with_alert_other_than_bad_record_mac", 1)
					}
					rep.EvalN(fmt.Sprintf("white/%s/bitflip/size=%d/seq=%d", s.name, size, atSeq), 1, true)
				}
				if s.name == "GCM" {
					// explicit nonce must be the 8-byte big-endian sequence number
					var exp [8]byte
					exp[7] = byte(atSeq)
					if !bytes.Equal(target[5:13], exp[:]) {
						rep.Violation("C07/encrypt/gcm-explicit-nonce-is-not-the-sequence-counter", fmt.Sprintf("seq %d nonce %x", atSeq, target[5:13]), w)
					}
				}
			}
			if exhaustive {
				rep.Distinct(fmt.Sprintf("white-exh/%s/%d", s.name, size))
			}
		})
		rep.Exhaustive(fmt.Sprintf("%s: every bit of the record for payload sizes {0,1,15,16,17,31,32,100} at sequence numbers 0 and 3", s.name))
	}
	// reference-built CBC records: every padding length 0..255, then every single corruption of padding / MAC / length byte
	{
		r := c.Rng("padding")
		key, mac := r.Bytes(16), r.Bytes(32)
		seenPad := map[int]bool{}
		for plen := 0; plen < 16; plen++ {
			for extra := 0; extra < 16; extra++ {
				payload := r.Bytes(plen + 16*(extra%3))
				base := 15 - (len(payload)+32)%16
				pad := base + 16*extra
				if pad > 255 {
					continue
				}
				snd := &ref.HalfState{Suite: gmtls.GMTLS_ECC_SM4_CBC_SM3, Key: key, MACKey: mac, On: true}
				rec := snd.Seal(ref.RecAppData, payload, r.Bytes(16), pad)
				w := map[string]interface{}{"payload_len": len(payload), "padding_len": pad, "record": mon.Hex(rec), "key": mon.Hex(key), "mac_key": mon.Hex(mac)}
				rc, _ := gmtls.VerifNewHalfConn(gmtls.GMTLS_ECC_SM4_CBC_SM3, key, make([]byte, 16), mac, true)
				p, ok, _ := rc.Decrypt(rec)
				if !ok || !bytes.Equal(p, payload) {
					rep.Violation("C07/decrypt/rejects-valid-padding-length", fmt.Sprintf("padding length %d (payload %d)", pad, len(payload)), w)
					continue
				}
				seenPad[pad] = true
				// corrupt plaintext-side bytes: rebuild the record from a corrupted plaintext with the reference CBC
				// (padding bytes, padding length byte, MAC bytes)
				plain := append(append([]byte{}, payload...), ref.HMACSM3(mac, append([]byte{0, 0, 0, 0, 0, 0, 0, 0, ref.RecAppData, 1, 1, byte(len(payload) >> 8), byte(len(payload))}, payload...))...)
				for i := 0; i <= pad; i++ {
					plain = append(plain, byte(pad))
				}
				ivb := rec[5:21]
				positions := []int{}
				for i := len(payload); i < len(plain); i++ { // MAC + padding + length byte
					positions = append(positions, i)
				}
				if len(positions) > 80 && !c.Thorough {
					positions = append(positions[:40], positions[len(positions)-40:]...)
				}
				for _, pos := range positions {
					bad := append([]byte{}, plain...)
					bad[pos] ^= byte(1 + r.Intn(255))
					if pos == len(bad)-1 && int(bad[pos]) == pad {
						continue
					}
					ct := ref.SM4CBC(key, ivb, bad, false)
					m := append(append([]byte{}, rec[:21]...), ct...)
					rc2, _ := gmtls.VerifNewHalfConn(gmtls.GMTLS_ECC_SM4_CBC_SM3, key, make([]byte, 16), mac, true)
					if _, ok, _ := rc2.Decrypt(m); ok {
						reg := "mac-byte"
						if pos >= len(payload)+32 {
							reg = "padding-byte"
						}
						if pos == len(bad)-1 {
							reg = "padding-length-byte"
						}
						rep.Violation("C07/decrypt/accepts-corrupted-"+reg, fmt.Sprintf("padding length %d, corrupted plaintext byte %d of %d", pad, pos, len(plain)), w)
					}
					rep.EvalN("white/CBC/padding-corruption", 1, true)
				}
				rep.Eval(fmt.Sprintf("white/CBC/valid-padding/pad=%d", pad))
			}
		}
		rep.Count("cbc_padding_lengths_accepted_of_256", int64(len(seenPad)))
		if len(seenPad) == 256 {
			rep.Exhaustive("CBC padding lengths 0..255 (reference-built records)")
		}
	}
}

// shortReader serves at most three bytes per Read call (and sometimes one), as a legal io.Reader may.
type shortReader struct {
	mu    sync.Mutex
	inner *mon.RNG
	n     int
}

func (s *shortReader) Read(p []byte) (int, error) {
	s.mu.Lock()
	defer s.mu.Unlock()
	if len(p) == 0 {
		return 0, nil
	}
	k := 1 + s.n%3
	s.n++
	if k > len(p) {
		k = len(p)
	}
	s.inner.Fill(p[:k])
	return k, nil
}
