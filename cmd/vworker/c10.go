package main

import (
	"bytes"
	"crypto/x509/pkix"
	"encoding/asn1"
	"fmt"
	"math/big"
	"net"
	"sort"
	"strings"
	"time"

	"github.com/tjfoc/gmsm/sm2"
	gx509 "github.com/tjfoc/gmsm/x509"

	"verif/mon"
)

func init() { registry["C10"] = runC10 }

// ---- ground truth records (what the generator put into each certificate) ----

type gtCert struct {
	id         int
	role       string // root | inter | leaf
	subject    string // entity name
	keyID      int    // which key the certificate certifies
	issuerName string
	signerKey  int // key that really produced the signature (-1: signature corrupted)
	notBefore  time.Time
	notAfter   time.Time
	bcValid    bool
	manySANs   bool
	forgedSig  bool // the signature is made invalid on purpose (an attacker's certificate naming a genuine issuer)
	oldVersion int // 1 or 2: re-issued as an X.509 v1 / v2 certificate (no extensions at all)
	isCA       bool
	pathLen    int // -1 unset
	keyUsage   gx509.KeyUsage
	permitted  []string
	eku        []gx509.ExtKeyUsage
	foreign    int  // > 0: re-encoded as another encoder would (extensions rotated by this much) and re-signed by the reference signer
	extraExt   bool // carries a non-critical extension nobody knows (harmless by definition)
	ekuUnknown bool // the EKU extension also lists an OID no library knows (alone: a usage nobody can request by name)
	dns        []string
	ips        []net.IP
	cn         string
	critExt    bool
	inRoots    bool
	inInters   bool
	cert       *gx509.Certificate
}

func (g *gtCert) mayIssue() bool {
	return g.bcValid && g.isCA && (g.keyUsage == 0 || g.keyUsage&gx509.KeyUsageCertSign != 0)
}

func (g *gtCert) validAt(t time.Time) bool { return !t.Before(g.notBefore) && !t.After(g.notAfter) }

// interpretation knobs for the parts of the statement that do not determine the answer
type knobs struct {
	interEKU      bool // EKU restrictions on issuers count
	ncWithoutHost bool // name constraints are enforced against the requested name even when it is empty / an IP / has a trailing dot
	cnFallback    bool // CN is used when there are no DNS SANs
	allUsages     bool // every requested usage must be present (vs any)
	liberalWild   bool // wildcards other than a whole leftmost label are honoured
}

func hostIsIP(h string) (net.IP, bool) {
	c := h
	if len(h) >= 3 && h[0] == '[' && h[len(h)-1] == ']' {
		c = h[1 : len(h)-1]
	}
	ip := net.ParseIP(c)
	return ip, ip != nil
}

func lowerASCII(s string) string {
	b := []byte(s)
	for i, c := range b {
		if 'A' <= c && c <= 'Z' {
			b[i] = c + 32
		}
	}
	return string(b)
}

func refMatchHost(pattern, host string, k knobs) bool {
	p := strings.TrimSuffix(lowerASCII(pattern), ".")
	h := strings.TrimSuffix(lowerASCII(host), ".")
	if p == "" || h == "" {
		return false
	}
	pp, hp := strings.Split(p, "."), strings.Split(h, ".")
	if len(pp) != len(hp) {
		return false
	}
	for i := range pp {
		if i == 0 && pp[i] == "*" {
			continue
		}
		if k.liberalWild && strings.Contains(pp[i], "*") {
			// glob within a label
			parts := strings.SplitN(pp[i], "*", 2)
			if strings.HasPrefix(hp[i], parts[0]) && strings.HasSuffix(hp[i], parts[1]) && len(hp[i]) >= len(parts[0])+len(parts[1]) {
				continue
			}
			return false
		}
		if pp[i] != hp[i] {
			return false
		}
	}
	return true
}

func refLeafHostOK(l *gtCert, host string, k knobs) bool {
	if host == "" {
		return true
	}
	if ip, ok := hostIsIP(host); ok {
		for _, c := range l.ips {
			if c.Equal(ip) {
				return true
			}
		}
		return false
	}
	if len(l.dns) > 0 {
		for _, d := range l.dns {
			if refMatchHost(d, host, k) {
				return true
			}
		}
		return false
	}
	if k.cnFallback {
		return refMatchHost(l.cn, host, k)
	}
	return false
}

func refConstraintOK(g *gtCert, host string, k knobs) bool {
	if len(g.permitted) == 0 {
		return true
	}
	_, isIP := hostIsIP(host)
	odd := host == "" || isIP || strings.HasSuffix(host, ".")
	if odd && !k.ncWithoutHost {
		return true
	}
	for _, c := range g.permitted {
		if c == "" {
			return true
		}
		d := host
		if len(d) < len(c) {
			continue
		}
		pre := len(d) - len(c)
		if !strings.EqualFold(d[pre:], c) {
			continue
		}
		if pre == 0 {
			return true
		}
		if (d[pre-1] == '.') != (c[0] == '.') {
			return true
		}
	}
	return false
}

func ekuAllows(g *gtCert, requested []gx509.ExtKeyUsage, all bool) bool {
	set := g.eku
	if len(set) == 0 && !g.ekuUnknown {
		return true // no EKU extension
	}
	has := func(u gx509.ExtKeyUsage) bool {
		for _, s := range set {
			if s == u || s == gx509.ExtKeyUsageAny {
				return true
			}
		}
		return false
	}
	n := 0
	for _, r := range requested {
		if r == gx509.ExtKeyUsageAny {
			return true
		}
		if has(r) {
			n++
		}
	}
	if all {
		return n == len(requested)
	}
	return n > 0
}

// refChainOK applies the rules of the property to one concrete chain (leaf first).
func refChainOK(chain []*gtCert, at time.Time, host string, usages []gx509.ExtKeyUsage, k knobs, hard bool) (bool, string) {
	req := usages
	if len(req) == 0 {
		req = []gx509.ExtKeyUsage{gx509.ExtKeyUsageServerAuth}
	}
	for i, g := range chain {
		if !g.validAt(at) {
			return false, fmt.Sprintf("cert %d not valid at the verification time", g.id)
		}
		if i > 0 {
			child := chain[i-1]
			if child.signerKey != g.keyID || child.issuerName != g.subject {
				return false, fmt.Sprintf("cert %d is not signed by cert %d", child.id, g.id)
			}
			if !g.mayIssue() {
				return false, fmt.Sprintf("issuer cert %d is not a CA permitted to sign", g.id)
			}
			if g.pathLen >= 0 && i-1 > g.pathLen {
				return false, fmt.Sprintf("issuer cert %d path length %d exceeded (%d intermediates below)", g.id, g.pathLen, i-1)
			}
		}
		if hard {
			continue
		}
		if !refConstraintOK(g, host, k) {
			return false, "name constraint"
		}
	}
	if !hard && k.interEKU {
		// the reading that honours EKU restrictions on issuers does so cumulatively (as crypto/x509 of that time does): some
		// requested usage must be permitted by every certificate of the chain that carries an EKU extension
		okAny := false
		for _, r := range req {
			if r == gx509.ExtKeyUsageAny {
				okAny = true
				break
			}
			all := true
			for _, g := range chain {
				if !ekuAllows(g, []gx509.ExtKeyUsage{r}, false) {
					all = false
					break
				}
			}
			if all {
				okAny = true
				break
			}
		}
		if !okAny {
			return false, "eku (cumulative over the chain)"
		}
	}
	if hard {
		return true, ""
	}
	l := chain[0]
	if l.critExt {
		return false, "critical ext"
	}
	if !refLeafHostOK(l, host, k) {
		return false, "host"
	}
	if !ekuAllows(l, req, k.allUsages) {
		return false, "leaf eku"
	}
	return true, ""
}

// refExists enumerates all simple paths leaf -> ... -> root.
func refExists(leaf *gtCert, all []*gtCert, at time.Time, host string, usages []gx509.ExtKeyUsage, k knobs) bool {
	var rec func(chain []*gtCert) bool
	rec = func(chain []*gtCert) bool {
		cur := chain[len(chain)-1]
		if len(chain) > 8 {
			return false
		}
		for _, cand := range all {
			if !(cand.inRoots || cand.inInters) || cand.subject != cur.issuerName || cur.signerKey != cand.keyID {
				continue
			}
			dup := false
			for _, c := range chain {
				if c.id == cand.id {
					dup = true
				}
			}
			if dup {
				continue
			}
			next := append(append([]*gtCert{}, chain...), cand)
			if cand.inRoots {
				if ok, _ := refChainOK(next, at, host, usages, k, false); ok {
					return true
				}
			}
			if cand.inInters {
				if rec(next) {
					return true
				}
			}
		}
		return false
	}
	if leaf.inRoots {
		if ok, _ := refChainOK([]*gtCert{leaf}, at, host, usages, k, false); ok {
			return true
		}
	}
	return rec([]*gtCert{leaf})
}

func runC10(c *Ctx) {
	rep := c.Rep
	rep.Meta("cases: generated PKI topologies (<=3 roots, <=4 intermediate entities with re-issues, cross-signing, loops and same-name impostor keys, several leaves) with each certificate independently valid/expired/not-yet-valid, CA/non-CA/no basic constraints, path length {unset,0,1,2}, key usage {none, certSign, without certSign}, permitted DNS domains, good/corrupted signature, EKU sets, unhandled critical extension; queries = leaf x verification time (inside, boundaries +-1s, outside) x host (exact, case, trailing dot, wildcard, IP, bracketed IP, mismatch, empty) x requested usages x pool insertion order. Oracle: reference path validator over generator ground truth (no cryptography, none of gmsm's parser), two-sided inside the region the statement determines (32 interpretation variants must agree), every returned chain always checked link by link (ground-truth signer, validity, CA-ness, path length, pool membership, starts at leaf, ends at root). Distinct non-trivial = distinct (topology shape, query class, expected outcome).",
		1500, []string{"generator ground truth", "gmsm CreateCertificate/ParseCertificate only as a means of producing certificates (C09 checks them)"},
		[]string{"unspecified region (either outcome accepted): EKU restrictions on issuers, name constraints with empty/IP/trailing-dot host, CN fallback, several requested usages partially present, non-leftmost or partial wildcards, duplicate chains"})
	nTopo := c.Q(150, 4000)
	Par(nTopo, func(ti int) {
		r := c.Rng(fmt.Sprintf("topo%d", ti))
		runTopology(c, ti, r)
	})
	// the order-dependent cache witness of round 0, as a fixed regression case
	runC10CacheWitness(c)
	runC10Lookalikes(c)
	runC10Rekeyed(c)
}

type entity struct {
	name string
	keys []*sm2.PrivateKey // keys[0] genuine, keys[1] impostor
}

func runTopology(c *Ctx, ti int, r *mon.RNG) {
	rep := c.Rep
	base := fixedNow
	keyOf := map[int]*sm2.PrivateKey{}
	nextKey := 0
	newKey := func() int {
		k := newSM2Key(r)
		keyOf[nextKey] = k
		nextKey++
		return nextKey - 1
	}
	var all []*gtCert
	nextSerial := int64(1)
	// fault budget: most topologies are valid except for 0, 1 or 2 injected faults, so that each rule is
	// the *only* reason for rejection in many cases (a removed check then flips the outcome)
	budget := []int{0, 0, 0, 1, 1, 1, 1, 2, 2, 4}[r.Intn(10)]
	bad := func(oneIn int) bool {
		if budget > 0 && r.Intn(oneIn) == 0 {
			budget--
			return true
		}
		return false
	}
	// issue creates a certificate per ground truth g (signed by key signerKey of entity named issuerName)
	issue := func(g *gtCert, issuerTmpl *gtCert) bool {
		t := &gx509.Certificate{
			SerialNumber:        bigInt(nextSerial),
			Subject:             pkix.Name{CommonName: g.cn, Organization: []string{g.subject}},
			NotBefore:           g.notBefore,
			NotAfter:            g.notAfter,
			SignatureAlgorithm:  gx509.SM2WithSM3,
			KeyUsage:            g.keyUsage,
			ExtKeyUsage:         g.eku,
			DNSNames:            g.dns,
			IPAddresses:         g.ips,
			PermittedDNSDomains: g.permitted,
		}
		nextSerial++
		if g.bcValid {
			t.BasicConstraintsValid = true
			t.IsCA = g.isCA
			if g.pathLen >= 0 {
				t.MaxPathLen = g.pathLen
				t.MaxPathLenZero = g.pathLen == 0
			} else {
				t.MaxPathLen = -1
			}
		}
		if g.ekuUnknown {
			t.UnknownExtKeyUsage = []asn1.ObjectIdentifier{{1, 3, 6, 1, 4, 1, 99999, 7}}
		}
		if g.extraExt {
			t.ExtraExtensions = append(t.ExtraExtensions, pkix.Extension{Id: asn1.ObjectIdentifier{1, 3, 6, 1, 4, 1, 99999, 77}, Critical: false, Value: []byte{4, 2, 0xbe, 0xef}})
		}
		if g.critExt {
			t.ExtraExtensions = append(t.ExtraExtensions, pkix.Extension{Id: asn1.ObjectIdentifier{1, 3, 6, 1, 4, 1, 99999, 42}, Critical: true, Value: []byte{5, 0}})
		}
		parent := t
		if issuerTmpl != nil {
			parent = &gx509.Certificate{Subject: pkix.Name{CommonName: issuerTmpl.cn, Organization: []string{issuerTmpl.subject}}}
		}
		signKey := g.signerKey
		der, err := gx509.CreateCertificate(t, parent, &keyOf[g.keyID].PublicKey, keyOf[signKey])
		if err != nil {
			return false
		}
		if g.oldVersion > 0 {
			fd := c10ReissueOldVersion(der, keyOf[signKey], g.oldVersion, r)
			if fd == nil {
				return false
			}
			der = fd
			rep.Count(fmt.Sprintf("certificates_reissued_as_x509_v%d", g.oldVersion), 1)
		}
		if g.foreign > 0 {
			if fd := c10Reissue(der, keyOf[signKey], g.foreign, r); fd != nil {
				der = fd
				rep.Count("certificates_reissued_with_another_extension_order", 1)
			} else {
				g.foreign = 0
			}
		}
		if g.role != "root" && (g.forgedSig || bad(12)) { // corrupt the signature of a few certificates
			der = append([]byte{}, der...)
			der[len(der)-5] ^= 0x40
			g.signerKey = -1
		}
		cert, err := gx509.ParseCertificate(der)
		if err != nil {
			return false
		}
		g.cert = cert
		return true
	}
	randValidity := func() (time.Time, time.Time) {
		switch {
		case ti%4 == 1 && bad(6):
			// a window that lies wholly beyond what a signed 64-bit nanosecond count can express (after 2262): not yet valid
			rep.Count("certificates_valid_only_after_year_2262", 1)
			return time.Date(2300, 1, 1, 0, 0, 0, 0, time.UTC), time.Date(2700, 1, 1, 0, 0, 0, 0, time.UTC)
		case ti%4 == 1 && r.Intn(4) == 0:
			// RFC 5280 4.1.2.5: 99991231235959Z, "no well-defined expiration date" (benign)
			rep.Count("certificates_with_no_expiry_date_9999", 1)
			return base.Add(-time.Duration(1+r.Intn(100)) * time.Hour), time.Date(9999, 12, 31, 23, 59, 59, 0, time.UTC)
		case bad(12):
			return base.Add(-1000 * time.Hour), base.Add(-10 * time.Hour) // expired
		case bad(12):
			return base.Add(10 * time.Hour), base.Add(1000 * time.Hour) // not yet valid
		default:
			return base.Add(-time.Duration(1+r.Intn(100)) * time.Hour), base.Add(time.Duration(1+r.Intn(100)) * time.Hour)
		}
	}
	mkCA := func(role, name string, keyID int) *gtCert {
		g := &gtCert{id: len(all), role: role, subject: name, cn: name, keyID: keyID, pathLen: -1, bcValid: true, isCA: true}
		g.notBefore, g.notAfter = randValidity()
		switch {
		case bad(14):
			g.bcValid = false
			g.isCA = false
		case bad(14):
			g.isCA = false
		}
		switch {
		case bad(10):
			g.pathLen = 0
		case bad(10):
			g.pathLen = 1
		case r.Intn(3) == 0:
			g.pathLen = 2 + r.Intn(3) // benign for these depths (mostly)
		}
		switch {
		case bad(12):
			g.keyUsage = gx509.KeyUsageDigitalSignature // without certSign
		case r.Intn(2) == 0:
			g.keyUsage = gx509.KeyUsageCertSign | gx509.KeyUsageCRLSign
		}
		if r.Intn(6) == 0 {
			g.permitted = []string{"example.com"} // benign for the usual hosts
			switch {
			case bad(2):
				g.permitted = []string{"other.org", "sub.example.com"}
			case r.Intn(3) == 0:
				g.permitted = []string{".example.com"} // subdomains only: the bare domain itself is outside
			}
		}
		if r.Intn(4) == 0 {
			g.extraExt = true
			if r.Intn(2) == 0 {
				g.foreign = 1 + r.Intn(3)
			}
		}
		switch {
		case bad(14):
			g.eku = []gx509.ExtKeyUsage{gx509.ExtKeyUsageClientAuth}
		case bad(20):
			g.ekuUnknown = true // an EKU extension with only an unrecognised usage
		case r.Intn(5) == 0:
			g.eku = []gx509.ExtKeyUsage{gx509.ExtKeyUsageAny} // permissive issuer: must not shadow the leaf's own EKU
		case r.Intn(8) == 0:
			g.eku = []gx509.ExtKeyUsage{gx509.ExtKeyUsageServerAuth, gx509.ExtKeyUsageClientAuth}
		}
		return g
	}
	// roots
	nRoots := 1 + r.Intn(3)
	var ents []*gtCert  // CA certificates usable as issuers
	dotted := ti%7 == 3 // a root that permits ".example.com" (subdomains only) over leaves that are also valid for the bare domain
	for i := 0; i < nRoots; i++ {
		g := mkCA("root", fmt.Sprintf("Root%d-%d", ti, i), newKey())
		if dotted && i == 0 {
			g.permitted = []string{".example.com"}
			rep.Count("topologies_with_a_subdomains-only_name_constraint", 1)
		}
		g.issuerName = g.subject
		g.signerKey = g.keyID
		if !issue(g, nil) {
			continue
		}
		g.inRoots = true
		if r.Intn(6) == 0 {
			g.inInters = true
		}
		all = append(all, g)
		ents = append(ents, g)
	}
	if len(ents) == 0 {
		return
	}
	// every fifth topology: a CA entity that is present BOTH as a trusted root whose EKU restricts what may be verified
	// through it AND as a cross-certificate (same name and key) in the intermediates, leading to another, unrestricted
	// root. Whatever one thinks of EKU restrictions on issuers (unspecified), a leaf under that entity has a valid chain
	// for every usage: through the root where the usage is allowed, through the cross-certificate where it is not.
	dual := ti%5 == 2
	var dualCA *gtCert
	if dual {
		other := mkCA("root", fmt.Sprintf("RootO%d", ti), newKey())
		other.eku, other.ekuUnknown = nil, false
		other.issuerName, other.signerKey = other.subject, other.keyID
		kD := newKey()
		r0 := mkCA("root", fmt.Sprintf("Dual%d", ti), kD)
		r0.ekuUnknown = false
		switch r.Intn(4) {
		case 0:
			r0.eku = []gx509.ExtKeyUsage{gx509.ExtKeyUsageClientAuth}
		case 1:
			r0.eku = []gx509.ExtKeyUsage{gx509.ExtKeyUsageServerAuth}
		case 2:
			r0.eku, r0.ekuUnknown = nil, true
		default:
			r0.eku = []gx509.ExtKeyUsage{gx509.ExtKeyUsageEmailProtection}
		}
		r0.issuerName, r0.signerKey = r0.subject, r0.keyID
		x := mkCA("inter", r0.subject, kD)
		x.eku, x.ekuUnknown = nil, false
		if r.Intn(3) == 0 {
			x.eku = []gx509.ExtKeyUsage{gx509.ExtKeyUsageAny}
		}
		x.issuerName, x.signerKey = other.subject, other.keyID
		if issue(other, nil) && issue(r0, nil) && issue(x, other) {
			other.inRoots, r0.inRoots, x.inInters = true, true, true
			for _, g := range []*gtCert{other, r0, x} {
				g.id = len(all)
				all = append(all, g)
			}
			ents = append(ents, other, r0)
			dualCA = r0
			rep.Count("topologies_with_restricted_root_that_is_also_cross_certified", 1)
		}
	}
	// every fifth topology: a trusted "root" that says of itself that it is NOT a CA (basicConstraints present, cA=FALSE)
	// and has nevertheless signed a leaf: being in the roots pool does not make it a permitted issuer
	var nonCARoot *gtCert
	if ti%5 == 0 {
		g := mkCA("root", fmt.Sprintf("RootNotCA%d", ti), newKey())
		g.bcValid, g.isCA = true, false
		g.issuerName, g.signerKey = g.subject, g.keyID
		if issue(g, nil) {
			g.id = len(all)
			g.inRoots = true
			all = append(all, g)
			nonCARoot = g
			rep.Count("topologies_with_a_trusted_root_that_is_not_a_CA", 1)
		}
	}
	// intermediates: entities with possibly several certificates
	nInter := r.Intn(5)
	for i := 0; i < nInter; i++ {
		name := fmt.Sprintf("Inter%d-%d", ti, i)
		key := newKey()
		nCerts := 1 + r.Intn(2)
		for j := 0; j < nCerts; j++ {
			par := ents[r.Intn(len(ents))]
			g := mkCA("inter", name, key)
			if j > 0 && (r.Intn(3) == 0 || bad(3)) {
				g.keyID = newKey() // same name, another key: a re-keyed CA (legitimate) — both certificates may sit in one pool
			}
			g.issuerName = par.subject
			g.signerKey = par.keyID
			if !issue(g, par) {
				continue
			}
			g.inInters = !bad(10)
			if r.Intn(10) == 0 {
				g.inRoots = true
			}
			all = append(all, g)
			ents = append(ents, g)
		}
	}
	// every fifth topology: an intermediate as an older implementation would have written it — X.509 v1 or v2, no
	// extensions, hence no statement that it is a CA — with the first leaf under it. Not a permitted issuer.
	var oldInter *gtCert
	if ti%5 == 3 {
		par := ents[0]
		g := mkCA("inter", fmt.Sprintf("InterOld%d", ti), newKey())
		g.oldVersion = 1 + (ti/5)%2
		g.bcValid, g.isCA, g.pathLen, g.keyUsage, g.eku, g.ekuUnknown, g.permitted, g.extraExt, g.critExt, g.foreign = false, false, -1, 0, nil, false, nil, false, false, 0
		g.issuerName, g.signerKey = par.subject, par.keyID
		if issue(g, par) {
			g.inInters = true
			g.id = len(all)
			all = append(all, g)
			oldInter = g
			rep.Count("topologies_with_a_v1_or_v2_intermediate", 1)
		}
	}
	// one topology in fifty: a CA that was re-keyed 120 times — 120 certificates of one name, each a different key, all
	// properly issued by the first root and all in the intermediates pool — and (below) a first leaf that names this CA
	// as issuer but is signed by none of its keys. Every candidate has to be tried and refused, however many there are.
	var bulk, forged *gtCert
	if ti%50 == 7 {
		par := ents[0]
		for j := 0; j < 120; j++ {
			g := mkCA("inter", fmt.Sprintf("Rekeyed%d", ti), newKey())
			g.bcValid, g.isCA, g.pathLen, g.keyUsage, g.eku, g.ekuUnknown, g.permitted, g.extraExt, g.critExt, g.foreign = true, true, -1, 0, nil, false, nil, false, false, 0
			g.notBefore, g.notAfter = base.Add(-50*time.Hour), base.Add(50*time.Hour)
			g.issuerName, g.signerKey = par.subject, par.keyID
			if issue(g, par) {
				g.inInters = true
				g.id = len(all)
				all = append(all, g)
				bulk = g
			}
		}
		if bulk != nil {
			// and an attacker's certificate of the same name with the attacker's key, "issued" by the root with a signature
			// that does not verify; the first leaf is signed by the attacker's key
			f := mkCA("inter", bulk.subject, newKey())
			f.bcValid, f.isCA, f.pathLen, f.keyUsage, f.eku, f.ekuUnknown, f.permitted, f.extraExt, f.critExt, f.foreign = true, true, -1, 0, nil, false, nil, false, false, 0
			f.notBefore, f.notAfter = base.Add(-50*time.Hour), base.Add(50*time.Hour)
			f.issuerName, f.signerKey = par.subject, par.keyID
			f.forgedSig = true
			if issue(f, par) {
				f.inInters = true
				f.id = len(all)
				all = append(all, f)
				forged = f
			}
			rep.Count("topologies_with_a_120-times_re-keyed_CA", 1)
		}
	}
	// a loop: re-issue an earlier CA entity under a later one
	if len(ents) > 2 && r.Intn(3) == 0 {
		a, b := ents[r.Intn(len(ents))], ents[len(ents)-1]
		if a.subject != b.subject {
			g := mkCA("inter", a.subject, a.keyID)
			g.issuerName = b.subject
			g.signerKey = b.keyID
			if issue(g, b) {
				g.inInters = true
				all = append(all, g)
			}
		}
	}
	// leaves
	nLeaves := 1 + r.Intn(3)
	var leaves []*gtCert
	for i := 0; i < nLeaves; i++ {
		par := ents[r.Intn(len(ents))]
		if dualCA != nil && r.Intn(2) == 0 {
			par = dualCA
		}
		if nonCARoot != nil && i == 0 {
			par = nonCARoot
		}
		g := &gtCert{id: len(all), role: "leaf", subject: fmt.Sprintf("Leaf%d-%d", ti, i), keyID: newKey(), pathLen: -1}
		g.cn = fmt.Sprintf("leaf%d.example.com", i)
		g.notBefore, g.notAfter = randValidity()
		g.issuerName, g.signerKey = par.subject, par.keyID
		switch r.Intn(10) {
		case 0:
			g.dns = []string{"*.example.com"}
		case 1:
			g.dns = nil // CN only
		case 2, 3:
			g.dns = []string{fmt.Sprintf("Leaf%d.Example.COM", i), "alt.example.net"}
		case 4:
			g.dns = []string{"w*.example.com", "a.*.example.com"}
		case 5:
			g.dns = []string{fmt.Sprintf("leaf%d.example.com", i), "example.com"} // also valid for the bare domain (a host the queries ask for)
		default:
			g.dns = []string{fmt.Sprintf("leaf%d.example.com", i)}
		}
		if dotted && i == 0 {
			g.dns = []string{fmt.Sprintf("leaf%d.example.com", i), "example.com"}
			g.issuerName, g.signerKey = ents[0].subject, ents[0].keyID
			par = ents[0]
		}
		if i == 0 && ti%7 == 5 {
			// a certificate for a few hundred names, its own among them (position rotates with the topology)
			var many []string
			for j := 0; j < 300; j++ {
				many = append(many, fmt.Sprintf("h%d.bulk.example.net", j))
			}
			pos := (ti * 37) % len(many)
			g.dns = append(append(append([]string{}, many[:pos]...), fmt.Sprintf("leaf%d.example.com", i)), many[pos:]...)
			g.manySANs = true
			rep.Count("leaves_with_300_names", 1)
		}
		if bulk != nil && i == 0 {
			// names the many-times re-keyed CA as its issuer and is signed by a key none of its certificates carries
			g.issuerName, g.signerKey = bulk.subject, newKey()
			if forged != nil {
				g.signerKey = forged.keyID
			}
			par = bulk
		}
		if oldInter != nil && i == 0 && !dotted && bulk == nil {
			g.issuerName, g.signerKey = oldInter.subject, oldInter.keyID
			par = oldInter
		}
		if r.Intn(3) == 0 {
			g.ips = []net.IP{net.IPv4(10, 0, 0, byte(1+i)).To4(), net.ParseIP("2001:db8::7")}
		}
		switch r.Intn(5) {
		case 0:
			if bad(1) {
				if r.Intn(3) == 0 {
					g.ekuUnknown = true // EKU present, only an unrecognised usage: matches no usage requested by name
				} else {
					g.eku = []gx509.ExtKeyUsage{gx509.ExtKeyUsageClientAuth}
				}
			}
		case 1:
			g.eku = []gx509.ExtKeyUsage{gx509.ExtKeyUsageServerAuth}
		case 2:
			g.eku = []gx509.ExtKeyUsage{gx509.ExtKeyUsageAny}
		case 3:
			g.eku = []gx509.ExtKeyUsage{gx509.ExtKeyUsageServerAuth, gx509.ExtKeyUsageClientAuth}
		}
		if len(g.eku) > 0 && r.Intn(6) == 0 {
			g.ekuUnknown = true // a known usage next to an unrecognised one: the known one still counts
		}
		if r.Intn(3) == 0 {
			g.extraExt = true
			if r.Intn(2) == 0 {
				g.foreign = 1 + r.Intn(3)
			}
		}
		// forced, so that no seed goes without them: in every fifth topology the first leaf is a "foreign encoder" certificate
		// (unknown non-critical extension in front of a critical known one: the key usage below is written critical); in
		// another fifth its EKU extension lists only an OID nobody knows
		switch {
		case i == 0 && ti%5 == 1:
			g.extraExt, g.foreign, g.keyUsage = true, 1, gx509.KeyUsageDigitalSignature
			rep.Count("leaves_forced_to_foreign_extension_order", 1)
		case i == 0 && ti%5 == 4:
			g.eku, g.ekuUnknown = nil, true
			rep.Count("leaves_forced_to_unknown_only_eku", 1)
		}
		if g.foreign > 0 && g.keyUsage == 0 {
			g.keyUsage = gx509.KeyUsageDigitalSignature // a critical extension the parser knows, behind the unknown one after rotation
		}
		if bad(10) {
			g.critExt = true
		}
		if r.Intn(15) == 0 {
			g.bcValid, g.isCA = true, false
		}
		if !issue(g, par) {
			continue
		}
		if r.Intn(25) == 0 {
			g.inRoots = true
		}
		all = append(all, g)
		leaves = append(leaves, g)
	}
	if len(leaves) == 0 {
		return
	}
	byRaw := map[string]*gtCert{}
	for _, g := range all {
		byRaw[string(g.cert.Raw)] = g
	}
	shape := fmt.Sprintf("roots=%d/inters=%d/leaves=%d", nRoots, nInter, len(leaves))

	// queries
	nQ := c.Q(40, 60)
	var sharedRoots, sharedInters *gx509.CertPool
	for q := 0; q < nQ; q++ {
		leaf := leaves[r.Intn(len(leaves))]
		// pools in a random insertion order
		order := r.Intn(1 << 30)
		idx := make([]int, len(all))
		for i := range idx {
			idx[i] = i
		}
		rr := mon.NewRNG(uint64(order))
		for i := len(idx) - 1; i > 0; i-- {
			j := rr.Intn(i + 1)
			idx[i], idx[j] = idx[j], idx[i]
		}
		if forged != nil {
			// the attacker's certificate sits behind p of the genuine same-name certificates in the pool, p running through
			// 0..120 over the queries of the three such topologies: wherever a validator stops looking properly, one of
			// them has it there
			if q%4 != 3 {
				leaf = leaves[0]
			}
			p := (q + nQ*(ti/50)) % 121
			var slots []int
			for k, i := range idx {
				if all[i].subject == bulk.subject {
					slots = append(slots, k)
				}
			}
			var members []int
			for _, k := range slots {
				if idx[k] != forged.id {
					members = append(members, idx[k])
				}
			}
			if p > len(members) {
				p = len(members)
			}
			members = append(members[:p], append([]int{forged.id}, members[p:]...)...)
			for n, k := range slots {
				idx[k] = members[n]
			}
			rep.Count("queries_with_forged_same-name_certificate_at_a_chosen_pool_position", 1)
		}
		// every other topology keeps one pair of pools for all its queries (verification must not change a pool: what an
		// earlier Verify did on the same pools must not show in a later answer); the others build fresh pools per query
		roots, inters := sharedRoots, sharedInters
		if roots == nil || ti%2 == 1 {
			roots, inters = gx509.NewCertPool(), gx509.NewCertPool()
			for _, i := range idx {
				if all[i].inRoots {
					roots.AddCert(all[i].cert)
				}
				if all[i].inInters {
					inters.AddCert(all[i].cert)
				}
			}
			if ti%2 == 0 {
				sharedRoots, sharedInters = roots, inters
				rep.Count("topologies_with_pools_shared_by_all_queries", 1)
			}
		}
		// time
		var at time.Time
		tcls := "inside"
		dim := r.Intn(5) // which dimension of the query is perturbed (0: none)
		tsel := 7
		if dim == 1 {
			tsel = r.Intn(7)
		} else if r.Intn(10) == 0 {
			tsel = r.Intn(7)
		}
		switch tsel {
		case 0:
			at, tcls = base.Add(-5000*time.Hour), "before-all"
		case 1:
			at, tcls = base.Add(5000*time.Hour), "after-all"
		case 2:
			g := all[r.Intn(len(all))]
			at, tcls = g.notBefore, "at-notBefore"
		case 3:
			g := all[r.Intn(len(all))]
			at, tcls = g.notBefore.Add(-time.Second), "notBefore-1s"
		case 4:
			g := all[r.Intn(len(all))]
			at, tcls = g.notAfter, "at-notAfter"
		case 5:
			g := all[r.Intn(len(all))]
			at, tcls = g.notAfter.Add(time.Second), "notAfter+1s"
		default:
			at = base
		}
		if ti%4 == 1 && q%8 == 5 {
			// exactly 2^64 ns after the base instant (year 2614): whatever counts nanoseconds in 64 bits sees the base instant
			at, tcls = base.Add(1<<63-1).Add(1<<63-1).Add(2), "base+2^64ns"
		}
		// host
		host, hcls := "", "empty"
		li := leaf.subject[len(leaf.subject)-1:]
		hsel := 1
		if dim == 2 || r.Intn(8) == 0 {
			hsel = r.Intn(15)
		}
		if dotted && q%2 == 0 {
			hsel = 10 // the bare domain
		}
		if leaf.manySANs && q%2 == 1 {
			hsel = []int{3, 2, 13, 1}[(q/2)%4] // absolute form, other case, bracketed, exact
		}
		switch hsel {
		case 0:
		case 1:
			host, hcls = "leaf"+li+".example.com", "exact"
		case 2:
			host, hcls = "LEAF"+li+".EXAMPLE.com", "case"
		case 3:
			host, hcls = "leaf"+li+".example.com.", "trailing-dot"
		case 4:
			host, hcls = "anything.example.com", "wildcard-candidate"
		case 5:
			host, hcls = "a.b.example.com", "two-labels-under-wildcard"
		case 6:
			host, hcls = "10.0.0."+fmt.Sprint(1+int(li[0]-'0')), "ipv4"
		case 7:
			host, hcls = "[2001:db8::7]", "bracketed-ipv6"
		case 8:
			host, hcls = "nomatch.invalid", "mismatch"
		case 9:
			host, hcls = "www.example.com", "partial-wildcard-candidate"
		case 10:
			host, hcls = "example.com", "parent-domain"
		case 12:
			host, hcls = "[leaf"+li+".example.com]", "bracketed-dns-name" // brackets are for IP literals only
		case 13:
			host, hcls = "[LEAF"+li+".Example.com.]", "bracketed-dns-name-case-dot"
		case 14:
			host, hcls = "[anything.example.com]", "bracketed-wildcard-candidate"
		default:
			host, hcls = "alt.example.net", "second-san"
		}
		var usages []gx509.ExtKeyUsage
		ucls := "default"
		usel := 4
		if dim == 3 || r.Intn(8) == 0 || (dualCA != nil && r.Intn(2) == 0) {
			usel = r.Intn(5)
		}
		switch usel {
		case 0:
			usages, ucls = []gx509.ExtKeyUsage{gx509.ExtKeyUsageClientAuth}, "client"
		case 1:
			usages, ucls = []gx509.ExtKeyUsage{gx509.ExtKeyUsageAny}, "any"
		case 2:
			usages, ucls = []gx509.ExtKeyUsage{gx509.ExtKeyUsageClientAuth, gx509.ExtKeyUsageServerAuth}, "client+server"
		}
		// reference answer under every interpretation
		agree, first := true, false
		for m := 0; m < 32; m++ {
			k := knobs{m&1 != 0, m&2 != 0, m&4 != 0, m&8 != 0, m&16 != 0}
			a := refExists(leaf, all, at, host, usages, k)
			if m == 0 {
				first = a
			} else if a != first {
				agree = false
				break
			}
		}
		var chains [][]*gx509.Certificate
		var err error
		desc := func() map[string]interface{} {
			var cs []map[string]interface{}
			for _, g := range all {
				cs = append(cs, map[string]interface{}{"id": g.id, "role": g.role, "subject": g.subject, "key": g.keyID, "issuer": g.issuerName, "signed_by_key": g.signerKey,
					"valid": [2]string{g.notBefore.Format(time.RFC3339), g.notAfter.Format(time.RFC3339)}, "bc": g.bcValid, "ca": g.isCA, "pathlen": g.pathLen, "ku": int(g.keyUsage),
					"permitted": g.permitted, "reissued_extension_rotation": g.foreign, "eku": g.eku, "eku_unknown_oid": g.ekuUnknown, "dns": g.dns, "crit": g.critExt, "roots": g.inRoots, "inters": g.inInters, "der": mon.Hex(g.cert.Raw)})
			}
			return map[string]interface{}{"topology": ti, "certs": cs, "leaf": leaf.id, "time": at.Format(time.RFC3339), "host": host, "usages": usages, "pool_order": idx}
		}
		if pi := mon.Guard(func() {
			chains, err = leaf.cert.Verify(gx509.VerifyOptions{DNSName: host, Intermediates: inters, Roots: roots, CurrentTime: at, KeyUsages: usages})
		}); pi != nil {
			rep.Violation("C10/Verify/panic/"+pi.Func, pi.Value, desc())
			continue
		}
		// (1) every returned chain is checked link by link, always
		for _, ch := range chains {
			var gch []*gtCert
			bad := ""
			for _, cc := range ch {
				g := byRaw[string(cc.Raw)]
				if g == nil {
					bad = "chain contains a certificate that is in neither pool"
					break
				}
				gch = append(gch, g)
			}
			if bad == "" {
				if len(gch) == 0 || gch[0] != leaf {
					bad = "chain does not start at the leaf"
				} else if !gch[len(gch)-1].inRoots {
					bad = "chain does not end at a supplied root"
				} else {
					for i := 1; i < len(gch)-1; i++ {
						if !gch[i].inInters {
							bad = "chain uses a certificate that was not in the intermediates pool"
						}
					}
				}
			}
			if bad == "" {
				if ok, why := refChainOK(gch, at, host, usages, knobs{}, true); !ok {
					bad = why
				}
			}
			if bad == "" && agree {
				// in the determined region the soft rules (host, constraints, leaf EKU, critical ext) must hold too
				if ok, why := refChainOK(gch, at, host, usages, knobs{}, false); !ok {
					bad = "returned chain violates: " + why
				}
			}
			if bad != "" {
				d := desc()
				var ids []int
				for _, g := range gch {
					ids = append(ids, g.id)
				}
				d["returned_chain"] = ids
				rep.Violation("C10/Verify/returned-chain-invalid/"+strings.SplitN(bad, " ", 4)[0]+"-"+violWord(bad), bad, d)
			}
		}
		// (2) existence, two-sided in the determined region
		cls := fmt.Sprintf("%s/t=%s/h=%s/u=%s", shape, tcls, hcls, ucls)
		if !agree {
			rep.EvalN("unspecified/"+cls, 1, false)
			rep.Count("queries_in_unspecified_region", 1)
			continue
		}
		got := err == nil && len(chains) > 0
		if got != first {
			sym := "false-accept"
			if first {
				sym = "false-reject"
			}
			d := desc()
			d["gmsm_error"] = fmt.Sprint(err)
			rep.Violation("C10/Verify/"+sym+"/t="+tcls+"/h="+hcls, fmt.Sprintf("reference says chain exists=%v, Verify returned %d chain(s), err=%v", first, len(chains), err), d)
		}
		if err == nil && len(chains) == 0 {
			rep.Violation("C10/Verify/nil-error-without-chain", "", desc())
		}
		rep.Eval(fmt.Sprintf("%s/expect=%v", cls, first))
		if first {
			rep.Count("queries_expect_chain", 1)
		} else {
			rep.Count("queries_expect_error", 1)
		}
		if ti == 3 && q == 0 {
			rep.Sample(desc())
		}
		// what one verification established must not vouch for another certificate: right after a leaf was accepted on
		// these (long-lived) pools, the same certificate with other signature bytes — same TBSCertificate, so the same name,
		// key, serial and issuer — is verified on the same pools. Nobody signed it.
		if got && first && at.Equal(base) && q%3 == 0 {
			for _, variant := range []string{"last-signature-byte", "middle-signature-byte", "signature-of-another-certificate"} {
				forged := append([]byte{}, leaf.cert.Raw...)
				switch variant {
				case "last-signature-byte":
					forged[len(forged)-1] ^= 0x01
				case "middle-signature-byte":
					forged[len(forged)-20] ^= 0x80
				default:
					other := all[0].cert
					if other == leaf.cert || len(other.Signature) == 0 {
						continue
					}
					var outer struct {
						TBS asn1.RawValue
						Alg asn1.RawValue
						Sig asn1.BitString
					}
					if _, e := asn1.Unmarshal(leaf.cert.Raw, &outer); e != nil {
						continue
					}
					outer.Sig = asn1.BitString{Bytes: other.Signature, BitLength: 8 * len(other.Signature)}
					b, e := asn1.Marshal(struct {
						TBS asn1.RawValue
						Alg asn1.RawValue
						Sig asn1.BitString
					}{asn1.RawValue{FullBytes: outer.TBS.FullBytes}, asn1.RawValue{FullBytes: outer.Alg.FullBytes}, outer.Sig})
					if e != nil {
						continue
					}
					forged = b
				}
				fc, perr := gx509.ParseCertificate(forged)
				if perr != nil {
					continue
				}
				var fch [][]*gx509.Certificate
				var ferr error
				if pi := mon.Guard(func() {
					fch, ferr = fc.Verify(gx509.VerifyOptions{DNSName: host, Intermediates: inters, Roots: roots, CurrentTime: at, KeyUsages: usages})
				}); pi != nil {
					rep.Violation("C10/Verify/panic/"+pi.Func, pi.Value, desc())
				} else if ferr == nil && len(fch) > 0 && !leaf.inRoots {
					d := desc()
					d["forged"] = mon.Hex(forged)
					rep.Violation("C10/Verify/false-accept/same-TBS-other-signature-after-the-genuine-one-was-verified/"+variant, "a certificate nobody signed was accepted on the pools that had just verified the genuine one", d)
				}
				rep.Eval("forged-signature-after-genuine/" + variant)
			}
		}
	}
}

func violWord(s string) string {
	f := strings.Fields(s)
	sort.Strings(f[:0])
	if len(f) > 3 {
		return strings.Join(f[1:4], "-")
	}
	return strings.Join(f, "-")
}

func bigInt(v int64) *big.Int { return big.NewInt(v) }

// runC10CacheWitness replays the round-0 witness of the order-dependent false rejection:
// R (pathlen 2) -> S -> M -> Xa and S -> Xb with Xa, Xb the same name and key, leaf under X.
// leaf <- Xb <- S <- R is valid whatever the pool order.
func runC10CacheWitness(c *Ctx) {
	rep := c.Rep
	r := c.Rng("cachewitness")
	mk := func(name string) *sm2.PrivateKey { return newSM2Key(r) }
	kR, kS, kM, kX, kL := mk("R"), mk("S"), mk("M"), mk("X"), mk("L")
	ca := func(cn string, serial int64, pathLen int) *gx509.Certificate {
		t := &gx509.Certificate{SerialNumber: big.NewInt(serial), Subject: pkix.Name{CommonName: cn}, NotBefore: fixedNow.Add(-time.Hour), NotAfter: fixedNow.Add(time.Hour),
			BasicConstraintsValid: true, IsCA: true, MaxPathLen: -1, SignatureAlgorithm: gx509.SM2WithSM3}
		if pathLen >= 0 {
			t.MaxPathLen, t.MaxPathLenZero = pathLen, pathLen == 0
		}
		return t
	}
	must := func(t, p *gx509.Certificate, pub *sm2.PublicKey, k *sm2.PrivateKey) *gx509.Certificate {
		der, err := gx509.CreateCertificate(t, p, pub, k)
		if err != nil {
			return nil
		}
		cc, _ := gx509.ParseCertificate(der)
		return cc
	}
	tR := ca("W-Root", 1, 2)
	R := must(tR, tR, &kR.PublicKey, kR)
	S := must(ca("W-S", 2, -1), tR, &kS.PublicKey, kR)
	M := must(ca("W-M", 3, -1), ca("W-S", 2, -1), &kM.PublicKey, kS)
	Xa := must(ca("W-X", 4, -1), ca("W-M", 3, -1), &kX.PublicKey, kM)
	Xb := must(ca("W-X", 5, -1), ca("W-S", 2, -1), &kX.PublicKey, kS)
	lt := &gx509.Certificate{SerialNumber: big.NewInt(9), Subject: pkix.Name{CommonName: "w-leaf"}, NotBefore: fixedNow.Add(-time.Hour), NotAfter: fixedNow.Add(time.Hour), SignatureAlgorithm: gx509.SM2WithSM3, DNSNames: []string{"w.example"}}
	L := must(lt, ca("W-X", 4, -1), &kL.PublicKey, kX)
	if R == nil || S == nil || M == nil || Xa == nil || Xb == nil || L == nil {
		rep.Note("cache witness: could not build certificates")
		return
	}
	for oi, order := range [][]*gx509.Certificate{{S, M, Xa, Xb}, {S, M, Xb, Xa}, {Xa, Xb, M, S}, {Xb, Xa, S, M}} {
		roots, inters := gx509.NewCertPool(), gx509.NewCertPool()
		roots.AddCert(R)
		for _, x := range order {
			inters.AddCert(x)
		}
		var chains [][]*gx509.Certificate
		var err error
		if pi := mon.Guard(func() {
			chains, err = L.Verify(gx509.VerifyOptions{DNSName: "w.example", Intermediates: inters, Roots: roots, CurrentTime: fixedNow})
		}); pi != nil {
			rep.Violation("C10/Verify/panic/"+pi.Func, pi.Value, nil)
		} else if err != nil || len(chains) == 0 {
			rep.Violation("C10/Verify/false-reject/pool-order-dependent(re-issued-intermediate,pathlen)", fmt.Sprintf("order %d: R(pathlen 2)->S->M->Xa, S->Xb, leaf under X: valid chain leaf<-Xb<-S<-R exists but Verify says %v", oi, err),
				map[string]interface{}{"order": oi, "R": mon.Hex(R.Raw), "S": mon.Hex(S.Raw), "M": mon.Hex(M.Raw), "Xa": mon.Hex(Xa.Raw), "Xb": mon.Hex(Xb.Raw), "leaf": mon.Hex(L.Raw)})
		} else {
			for _, ch := range chains {
				if len(ch) > 4 {
					rep.Violation("C10/Verify/returned-chain-invalid/path-length", "chain longer than R's path length allows", nil)
				}
			}
		}
		rep.Eval(fmt.Sprintf("cache-witness/order=%d", oi))
	}
}

// runC10Lookalikes: certificates that share identifying fields with a trusted root or with a pool member but are other
// certificates (another key, self-signed or signed by an outsider). Pool membership is by certificate, not by name,
// serial number or key: none of them may be accepted as, or in place of, the certificate it imitates.
func runC10Lookalikes(c *Ctx) {
	rep := c.Rep
	r := c.Rng("lookalike")
	must := func(t, p *gx509.Certificate, pub *sm2.PublicKey, k *sm2.PrivateKey) *gx509.Certificate {
		der, err := gx509.CreateCertificate(t, p, pub, k)
		if err != nil {
			return nil
		}
		cc, _ := gx509.ParseCertificate(der)
		return cc
	}
	for trial := 0; trial < c.Q(6, 100); trial++ {
		kR, kI, kF, kL := newSM2Key(r), newSM2Key(r), newSM2Key(r), newSM2Key(r)
		serial := int64(1 + r.Intn(1000))
		tmpl := func(cn string, sn int64, ca bool, dns []string) *gx509.Certificate {
			return &gx509.Certificate{SerialNumber: big.NewInt(sn), Subject: pkix.Name{CommonName: cn, Organization: []string{"LA"}}, NotBefore: fixedNow.Add(-time.Hour), NotAfter: fixedNow.Add(time.Hour),
				BasicConstraintsValid: true, IsCA: ca, MaxPathLen: -1, SignatureAlgorithm: gx509.SM2WithSM3, DNSNames: dns, KeyUsage: gx509.KeyUsageCertSign | gx509.KeyUsageDigitalSignature}
		}
		tR := tmpl("LA-Root", serial, true, nil)
		R := must(tR, tR, &kR.PublicKey, kR)
		tI := tmpl("LA-Inter", serial+1, true, nil)
		I := must(tI, tR, &kI.PublicKey, kR)
		L := must(tmpl("la-leaf", serial+2, false, []string{"la.example"}), tI, &kL.PublicKey, kI)
		if R == nil || I == nil || L == nil {
			rep.Note("lookalike: could not build the genuine certificates")
			return
		}
		type forged struct {
			name string
			cert *gx509.Certificate
		}
		var fs []forged
		// (a) self-signed leaf with the root's subject and serial number, forger's key
		fa := tmpl("LA-Root", serial, false, []string{"la.example"})
		fs = append(fs, forged{"self-signed/root-subject+root-serial/forger-key", must(fa, fa, &kF.PublicKey, kF)})
		// (b) the same, but claiming to be a CA
		fb := tmpl("LA-Root", serial, true, []string{"la.example"})
		fs = append(fs, forged{"self-signed-ca/root-subject+root-serial/forger-key", must(fb, fb, &kF.PublicKey, kF)})
		// (c) self-signed with the intermediate's subject and serial
		fc := tmpl("LA-Inter", serial+1, true, []string{"la.example"})
		fs = append(fs, forged{"self-signed/intermediate-subject+serial/forger-key", must(fc, fc, &kF.PublicKey, kF)})
		// (d) root's subject and *key* but another serial and issued by an outsider (shares name and key only)
		tO := tmpl("Outsider", 77, true, nil)
		fd := tmpl("LA-Root", serial+50, false, []string{"la.example"})
		fs = append(fs, forged{"outsider-issued/root-subject+root-key", must(fd, tO, &kR.PublicKey, kF)})
		for _, f := range fs {
			if f.cert == nil {
				continue
			}
			for _, withInter := range []bool{false, true} {
				roots, inters := gx509.NewCertPool(), gx509.NewCertPool()
				roots.AddCert(R)
				inters.AddCert(I)
				if withInter {
					inters.AddCert(f.cert) // also offered as an intermediate
				}
				var chains [][]*gx509.Certificate
				var err error
				w := map[string]interface{}{"forged": f.name, "forged_der": mon.Hex(f.cert.Raw), "root": mon.Hex(R.Raw), "intermediate": mon.Hex(I.Raw), "also_in_intermediates": withInter}
				if pi := mon.Guard(func() {
					chains, err = f.cert.Verify(gx509.VerifyOptions{DNSName: "la.example", Intermediates: inters, Roots: roots, CurrentTime: fixedNow})
				}); pi != nil {
					rep.Violation("C10/Verify/panic/"+pi.Func, pi.Value, w)
				} else if err == nil || len(chains) > 0 {
					rep.Violation("C10/Verify/false-accept/lookalike/"+f.name, fmt.Sprintf("a certificate that is in no pool and is signed by nothing in the pools verified (%d chains)", len(chains)), w)
				}
				rep.Eval(fmt.Sprintf("lookalike/%s/inInters=%v", f.name, withInter))
			}
		}
		// the genuine leaf still verifies when look-alikes sit in the intermediates pool (any insertion order)
		for order := 0; order < 2; order++ {
			roots, inters := gx509.NewCertPool(), gx509.NewCertPool()
			roots.AddCert(R)
			list := []*gx509.Certificate{I}
			for _, f := range fs {
				if f.cert != nil {
					list = append(list, f.cert)
				}
			}
			if order == 1 {
				for i, j := 0, len(list)-1; i < j; i, j = i+1, j-1 {
					list[i], list[j] = list[j], list[i]
				}
			}
			for _, x := range list {
				inters.AddCert(x)
			}
			var chains [][]*gx509.Certificate
			var err error
			if pi := mon.Guard(func() {
				chains, err = L.Verify(gx509.VerifyOptions{DNSName: "la.example", Intermediates: inters, Roots: roots, CurrentTime: fixedNow})
			}); pi != nil {
				rep.Violation("C10/Verify/panic/"+pi.Func, pi.Value, nil)
			} else if err != nil || len(chains) == 0 {
				rep.Violation("C10/Verify/false-reject/lookalikes-in-intermediates", fmt.Sprintf("order %d: %v", order, err), map[string]interface{}{"leaf": mon.Hex(L.Raw)})
			} else {
				for _, ch := range chains {
					if len(ch) != 3 || !bytes.Equal(ch[1].Raw, I.Raw) || !bytes.Equal(ch[2].Raw, R.Raw) {
						rep.Violation("C10/Verify/returned-chain-invalid/lookalike-in-chain", fmt.Sprintf("chain of %d", len(ch)), nil)
					}
				}
			}
			rep.Eval(fmt.Sprintf("lookalike/genuine-leaf/order=%d", order))
		}
	}
}

// runC10Rekeyed: a CA that was re-keyed (same name, two certificates with different keys, with and without key identifiers)
// sits with both certificates in one pool — as two roots, or as two intermediates under one root — and leaves issued
// under either key are verified one after another *on the same pools*, in every order. Each answer must be what the
// ground truth says (every leaf chains to the certificate whose key signed it), whatever was verified before.
func runC10Rekeyed(c *Ctx) {
	rep := c.Rep
	r := c.Rng("rekeyed")
	must := func(t, p *gx509.Certificate, pub *sm2.PublicKey, k *sm2.PrivateKey) *gx509.Certificate {
		der, err := gx509.CreateCertificate(t, p, pub, k)
		if err != nil {
			return nil
		}
		cc, _ := gx509.ParseCertificate(der)
		return cc
	}
	for trial := 0; trial < c.Q(8, 200); trial++ {
		asRoots := trial%2 == 0
		withSKI := trial%4 >= 2
		kTop, kOld, kNew := newSM2Key(r), newSM2Key(r), newSM2Key(r)
		ca := func(cn string, sn int64, ski []byte) *gx509.Certificate {
			return &gx509.Certificate{SerialNumber: big.NewInt(sn), Subject: pkix.Name{CommonName: cn, Organization: []string{"RK"}}, NotBefore: fixedNow.Add(-time.Hour), NotAfter: fixedNow.Add(time.Hour),
				BasicConstraintsValid: true, IsCA: true, MaxPathLen: -1, SignatureAlgorithm: gx509.SM2WithSM3, KeyUsage: gx509.KeyUsageCertSign, SubjectKeyId: ski}
		}
		var skiOld, skiNew, skiTop []byte
		if withSKI {
			skiOld, skiNew, skiTop = []byte{1, 1, 1, byte(trial)}, []byte{2, 2, 2, byte(trial)}, []byte{3, 3, 3, byte(trial)}
		}
		tTop := ca("RK-Top", 1, skiTop)
		top := must(tTop, tTop, &kTop.PublicKey, kTop)
		tOld, tNew := ca("RK-CA", 2, skiOld), ca("RK-CA", 3, skiNew)
		var old, nw *gx509.Certificate
		if asRoots {
			old, nw = must(tOld, tOld, &kOld.PublicKey, kOld), must(tNew, tNew, &kNew.PublicKey, kNew)
		} else {
			old, nw = must(tOld, tTop, &kOld.PublicKey, kTop), must(tNew, tTop, &kNew.PublicKey, kTop)
		}
		leaf := func(cn string, sn int64, parent *gx509.Certificate, pk *sm2.PrivateKey) *gx509.Certificate {
			k := newSM2Key(r)
			t := &gx509.Certificate{SerialNumber: big.NewInt(sn), Subject: pkix.Name{CommonName: cn}, NotBefore: fixedNow.Add(-time.Hour), NotAfter: fixedNow.Add(time.Hour),
				SignatureAlgorithm: gx509.SM2WithSM3, DNSNames: []string{"rk.example"}, KeyUsage: gx509.KeyUsageDigitalSignature}
			return must(t, parent, &k.PublicKey, pk)
		}
		if top == nil || old == nil || nw == nil {
			rep.Note("rekeyed: could not build the CAs")
			return
		}
		lOld1, lOld2, lNew1, lNew2 := leaf("under-old-1", 10, tOld, kOld), leaf("under-old-2", 11, tOld, kOld), leaf("under-new-1", 12, tNew, kNew), leaf("under-new-2", 13, tNew, kNew)
		if lOld1 == nil || lOld2 == nil || lNew1 == nil || lNew2 == nil {
			continue
		}
		type q struct {
			name   string
			cert   *gx509.Certificate
			issuer *gx509.Certificate
		}
		qs := []q{{"under-old-1", lOld1, old}, {"under-new-1", lNew1, nw}, {"under-old-2", lOld2, old}, {"under-new-2", lNew2, nw}, {"old-ca-itself", old, nil}, {"new-ca-itself", nw, nil}}
		for _, addOldFirst := range []bool{true, false} {
			roots, inters := gx509.NewCertPool(), gx509.NewCertPool()
			pool := inters
			if asRoots {
				pool = roots
			} else {
				roots.AddCert(top)
			}
			if addOldFirst {
				pool.AddCert(old)
				pool.AddCert(nw)
			} else {
				pool.AddCert(nw)
				pool.AddCert(old)
			}
			// a seeded order of 12 verifications on the same pools
			var trace []string
			for step := 0; step < 12; step++ {
				x := qs[r.Intn(len(qs))]
				trace = append(trace, x.name)
				var chains [][]*gx509.Certificate
				var err error
				w := map[string]interface{}{"as_roots": asRoots, "with_key_identifiers": withSKI, "old_added_first": addOldFirst, "verifications_so_far_on_these_pools": append([]string{}, trace...)}
				if pi := mon.Guard(func() {
					chains, err = x.cert.Verify(gx509.VerifyOptions{DNSName: map[bool]string{true: "rk.example", false: ""}[x.issuer != nil], Intermediates: inters, Roots: roots, CurrentTime: fixedNow, KeyUsages: []gx509.ExtKeyUsage{gx509.ExtKeyUsageAny}})
				}); pi != nil {
					rep.Violation("C10/Verify/panic/"+pi.Func, pi.Value, w)
					break
				}
				if err != nil || len(chains) == 0 {
					rep.Violation("C10/Verify/false-reject/re-keyed-ca-in-one-pool(answer depends on earlier verifications)", fmt.Sprintf("%s after %v: %v", x.name, trace[:len(trace)-1], err), w)
					break
				}
				bad := false
				for _, ch := range chains {
					if x.issuer != nil && (len(ch) < 2 || !bytes.Equal(ch[1].Raw, x.issuer.Raw)) {
						bad = true
					}
					if x.issuer == nil && !bytes.Equal(ch[0].Raw, x.cert.Raw) {
						bad = true
					}
				}
				if bad {
					rep.Violation("C10/Verify/returned-chain-invalid/re-keyed-ca-wrong-issuer-in-chain", fmt.Sprintf("%s after %v", x.name, trace[:len(trace)-1]), w)
					break
				}
			}
			rep.Eval(fmt.Sprintf("rekeyed/roots=%v/ski=%v/oldFirst=%v", asRoots, withSKI, addOldFirst))
		}
	}
}
