package main

import (
	"fmt"
	"math/big"

	"github.com/tjfoc/gmsm/sm2"

	"verif/mon"
	"verif/ref"
)

// testKey is an SM2 key pair whose public point was computed by the reference.
type testKey struct {
	cls  string
	d    *big.Int
	x, y *big.Int
}

func (k testKey) priv() *sm2.PrivateKey {
	return &sm2.PrivateKey{PublicKey: sm2.PublicKey{Curve: sm2.P256Sm2(), X: new(big.Int).Set(k.x), Y: new(big.Int).Set(k.y)}, D: new(big.Int).Set(k.d)}
}
func (k testKey) pub() *sm2.PublicKey {
	return &sm2.PublicKey{Curve: sm2.P256Sm2(), X: new(big.Int).Set(k.x), Y: new(big.Int).Set(k.y)}
}

func mkKey(cls string, d *big.Int) testKey {
	q := ref.MulG(d)
	return testKey{cls, d, q.X, q.Y}
}

// keyClasses returns keys covering the quantifier's classes: d in {1,2,n-2}, d with leading zero
// bytes, public x / y with 1..3 leading zero bytes (searched with gmsm's fast arithmetic, confirmed
// by the reference), and nRandom random keys.
func keyClasses(r *mon.RNG, nRandom int, deep bool) []testKey {
	var out []testKey
	out = append(out, mkKey("d=1", big.NewInt(1)), mkKey("d=2", big.NewInt(2)), mkKey("d=n-2", new(big.Int).Sub(ref.N, big.NewInt(2))))
	for _, lz := range []int{1, 2, 3, 16} {
		b := r.Bytes(32)
		for i := 0; i < lz; i++ {
			b[i] = 0
		}
		b[lz] |= 0x80
		out = append(out, mkKey(fmt.Sprintf("d-lz=%d", lz), new(big.Int).SetBytes(b)))
	}
	// fixtures: candidates found once by search; class membership re-validated here with the reference
	lim := func(lz int) *big.Int { return new(big.Int).Lsh(big.NewInt(1), uint(256-8*lz)) }
	used := map[string]int{}
	for _, f := range loadKeyFixtures() {
		d, ok := new(big.Int).SetString(f.D, 16)
		if !ok || len(f.Cls) != 6 {
			continue
		}
		lz := int(f.Cls[5] - '0')
		k := mkKey(f.Cls, d)
		v := k.x
		if f.Cls[0] == 'y' {
			v = k.y
		}
		if lz < 1 || lz > 3 || v.Cmp(lim(lz)) >= 0 || v.Cmp(lim(lz+1)) < 0 {
			continue
		}
		max := 1
		if deep {
			max = 4
		}
		if used[f.Cls] >= max {
			continue
		}
		used[f.Cls]++
		out = append(out, k)
	}
	// coordinates whose first byte looks like a point-conversion marker (02, 03, 04): found once by search over small d,
	// membership re-validated here with the reference
	for _, f := range []struct {
		cls string
		d   int64
	}{{"x-top=04", 11}, {"y-top=04", 16}, {"x-top=03", 400}, {"x-top=02", 424}, {"y-top=02", 504}, {"y-top=03", 728}} {
		k := mkKey(f.cls, big.NewInt(f.d))
		v := k.x
		if f.cls[0] == 'y' {
			v = k.y
		}
		if top := v.FillBytes(make([]byte, 32))[0]; fmt.Sprintf("%02x", top) == f.cls[6:] {
			out = append(out, k)
		}
	}
	for i := 0; i < nRandom; i++ {
		d := new(big.Int).SetBytes(r.Bytes(32))
		d.Mod(d, new(big.Int).Sub(ref.N, big.NewInt(2)))
		d.Add(d, big.NewInt(1))
		out = append(out, mkKey("random", d))
	}
	return out
}
