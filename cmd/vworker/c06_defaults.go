package main

import (
	"fmt"

	"github.com/tjfoc/gmsm/gmtls"

	"verif/mon"
)

// Configurations that leave the suite lists to the library's defaults (Config.CipherSuites nil) on one side or both, in
// every server mode, with client and with server preference: the defaults of a GMSSL endpoint are the GM suites, those of
// a TLS endpoint the standard ones, and every such pair of a matching client and server completes and carries data.
func runC06Defaults(c *Ctx, pki *tlsPKI) {
	rep := c.Rep
	r := c.Rng("defaults")
	type variant struct {
		mode      string // gm | auto | tls
		gmClient  bool
		prefer    bool
		srvSuites []uint16
		cliSuites []uint16
	}
	var vs []variant
	for _, prefer := range []bool{false, true} {
		for _, mode := range []string{"gm", "auto"} {
			for _, cl := range [][]uint16{nil, {gmtls.GMTLS_ECC_SM4_CBC_SM3}, {gmtls.GMTLS_ECC_SM4_GCM_SM3, gmtls.GMTLS_ECC_SM4_CBC_SM3}} {
				vs = append(vs, variant{mode, true, prefer, nil, cl})
			}
			vs = append(vs, variant{mode, true, prefer, []uint16{gmtls.GMTLS_ECC_SM4_GCM_SM3}, nil})
		}
		for _, mode := range []string{"tls", "auto"} {
			for _, cl := range [][]uint16{nil, {gmtls.TLS_ECDHE_RSA_WITH_AES_128_GCM_SHA256}, {gmtls.TLS_RSA_WITH_AES_128_CBC_SHA}} {
				vs = append(vs, variant{mode, false, prefer, nil, cl})
			}
			vs = append(vs, variant{mode, false, prefer, []uint16{gmtls.TLS_ECDHE_RSA_WITH_AES_256_GCM_SHA384}, nil})
		}
	}
	for i, v := range vs {
		scfg := &gmtls.Config{CipherSuites: v.srvSuites, PreferServerCipherSuites: v.prefer, Time: func() timeT { return fixedNow }, Rand: mon.NewRNG(r.U64()), SessionTicketsDisabled: i%2 == 0}
		switch v.mode {
		case "gm":
			scfg.GMSupport, scfg.Certificates = gmtls.NewGMSupport(), []gmtls.Certificate{pki.sig, pki.enc}
		case "tls":
			scfg.Certificates = []gmtls.Certificate{pki.rsaCert}
		default:
			scfg.GMSupport = gmtls.NewGMSupport()
			scfg.GMSupport.EnableMixMode()
			rsa := pki.rsaCert
			scfg.GetCertificate = func(info *gmtls.ClientHelloInfo) (*gmtls.Certificate, error) {
				for _, ver := range info.SupportedVersions {
					if ver == gmtls.VersionGMSSL {
						return &pki.sig, nil
					}
				}
				return &rsa, nil
			}
			scfg.GetKECertificate = func(*gmtls.ClientHelloInfo) (*gmtls.Certificate, error) { return &pki.enc, nil }
		}
		ccfg := &gmtls.Config{CipherSuites: v.cliSuites, ServerName: tlsServerName, Time: func() timeT { return fixedNow }, Rand: mon.NewRNG(r.U64())}
		if v.gmClient {
			ccfg.GMSupport, ccfg.RootCAs = gmtls.NewGMSupport(), pki.pool
		} else {
			ccfg.RootCAs = pki.gmStdPool
		}
		out := handshakePair(ccfg, scfg, nil)
		w := map[string]interface{}{"server_mode": v.mode, "gm_client": v.gmClient, "prefer_server_suites": v.prefer, "server_suites": suiteNames(v.srvSuites), "client_suites": suiteNames(v.cliSuites),
			"client_error": errStr(out.cli.err), "server_error": errStr(out.srv.err)}
		for side, e := range map[string]*endResult{"client": &out.cli, "server": &out.srv} {
			if e.panicked != nil {
				rep.Violation("C06/defaults/panic/"+side+"/"+e.panicked.Func, e.panicked.Value, w)
			}
		}
		cls := fmt.Sprintf("default-suite-lists/srv=%s/gmclient=%v/prefSrv=%v/srvlist=%v/clilist=%v", v.mode, v.gmClient, v.prefer, v.srvSuites != nil, v.cliSuites != nil)
		if !out.cli.completed || !out.srv.completed {
			rep.Violation("C06/Handshake/supported-combination-fails/default-suite-lists/srv="+v.mode+fmt.Sprintf("/prefSrv=%v", v.prefer), fmt.Sprintf("server list %v, client list %v: %v / %v", suiteNames(v.srvSuites), suiteNames(v.cliSuites), out.cli.err, out.srv.err), w)
			rep.Eval(cls)
			continue
		}
		if out.cli.state.CipherSuite != out.srv.state.CipherSuite || out.cli.state.Version != out.srv.state.Version {
			rep.Violation("C06/ConnectionState/ends-disagree", fmt.Sprintf("suite %04x/%04x version %04x/%04x", out.cli.state.CipherSuite, out.srv.state.CipherSuite, out.cli.state.Version, out.srv.state.Version), w)
		}
		if gmSuite := out.cli.state.CipherSuite>>8 == 0xe0; gmSuite != v.gmClient {
			rep.Violation("C06/defaults/suite-of-the-other-protocol-family-negotiated", fmt.Sprintf("%04x", out.cli.state.CipherSuite), w)
		}
		c06Exchange(rep, out.cli.conn, out.srv.conn, r.U64(), 2000, r, w, "C06")
		out.cli.conn.Close()
		out.srv.conn.Close()
		rep.Eval(cls)
	}
}
