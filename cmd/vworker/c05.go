package main

import (
	"bytes"
	"crypto/cipher"
	"encoding/base64"
	"encoding/hex"
	"fmt"
	"strings"
	"sync"

	"github.com/tjfoc/gmsm/sm4"

	"verif/mon"
	"verif/ref"
)

func init() { registry["C05"] = runC05 }

func runC05(c *Ctx) {
	rep := c.Rep
	defer runFirstOps(c) // fresh child processes whose first gmsm call is one operation of this property
	rep.FineDistinct()
	rep.Meta("cases: (key, block) pairs — random, single-bit, all-zero/all-one — through sm4.NewCipher Encrypt/Decrypt vs the reference SM4 (computed S-box); generation continues until every S-box input value was seen in every byte lane of the data path and of the key schedule (instrumented reference reports lanes); histories = random Encrypt/Decrypt sequences on one cipher object with dst==src and disjoint canary buffers, each step compared with the stateless reference; key-buffer histories = ciphers built one after another from one key buffer edited in place or refilled in between (and other keys interleaved), each object checked against the key bytes it was built from; key lengths 0..64. Distinct non-trivial = distinct (class, key-digest/block-digest) for block cases, distinct history shapes for histories.",
		3000, []string{"ref SM4 (S-box computed from its algebraic definition; GM/T 0002 vectors at start of run)"},
		[]string{"2^256 (key,block) space sampled; S-box lane coverage measured, not assumed"})

	// coverage table: [kind][lane][value]
	var cov [2][4][256]bool
	var covMu sync.Mutex
	tr := func(local *[2][4][256]bool) ref.SM4Trace {
		return func(kind, lane int, in byte) { local[kind][lane][in] = true }
	}
	checkBlock := func(cls string, key, blk []byte, local *[2][4][256]bool) {
		want := ref.SM4EncryptBlock(key, blk, tr(local))
		var got, back, inplace []byte
		pi := mon.Guard(func() {
			b, err := sm4.NewCipher(key)
			if err != nil {
				panic("NewCipher rejected a 16-byte key: " + err.Error())
			}
			if b.BlockSize() != 16 {
				panic("BlockSize != 16")
			}
			src := mon.NewCanary(blk, 0)
			got = make([]byte, 16)
			b.Encrypt(got, src.Slice())
			if s := src.Check(); s != "" {
				rep.Violation("C05/Encrypt/source-modified", s, map[string]interface{}{"key": mon.Hex(key), "block": mon.Hex(blk)})
			}
			back = make([]byte, 16)
			b.Decrypt(back, got)
			inplace = append([]byte{}, blk...)
			b.Encrypt(inplace, inplace)
		})
		w := map[string]interface{}{"key": mon.Hex(key), "block": mon.Hex(blk)}
		if pi != nil {
			rep.Violation("C05/Block/panic/"+pi.Func, pi.Value, w)
		} else {
			if !bytes.Equal(got, want) {
				rep.Violation("C05/Encrypt/ciphertext-mismatch", fmt.Sprintf("key %x block %x got %x want %x", key, blk, got, want), w)
			}
			if !bytes.Equal(back, blk) {
				rep.Violation("C05/Decrypt/not-inverse", fmt.Sprintf("key %x block %x decrypt(encrypt)=%x", key, blk, back), w)
			}
			if !bytes.Equal(inplace, want) {
				rep.Violation("C05/Encrypt/in-place-differs", fmt.Sprintf("key %x block %x got %x want %x", key, blk, inplace, want), w)
			}
		}
		rep.Eval(cls)
		rep.DistinctBytes(key, blk)
	}

	// structured classes
	var structured [][2][]byte
	zero, ones := make([]byte, 16), bytes.Repeat([]byte{0xff}, 16)
	structured = append(structured, [2][]byte{zero, zero}, [2][]byte{ones, ones}, [2][]byte{zero, ones}, [2][]byte{ones, zero})
	for bit := 0; bit < 128; bit++ {
		k := make([]byte, 16)
		k[bit/8] = 0x80 >> uint(bit%8)
		structured = append(structured, [2][]byte{k, zero}, [2][]byte{zero, k}, [2][]byte{k, k})
	}
	{
		var local [2][4][256]bool
		for i, kb := range structured {
			cls := "structured/allzero-allone"
			if i >= 4 {
				cls = fmt.Sprintf("structured/single-bit/%s", []string{"key", "block", "both"}[(i-4)%3])
			}
			checkBlock(cls, kb[0], kb[1], &local)
		}
		for a := range cov {
			for b := range cov[a] {
				for v := range cov[a][b] {
					cov[a][b][v] = cov[a][b][v] || local[a][b][v]
				}
			}
		}
	}
	// random, in parallel chunks
	nRand := c.Q(30000, 16000000)
	chunks := 64
	Par(chunks, func(ci int) {
		var local [2][4][256]bool
		r := c.Rng(fmt.Sprintf("rand%d", ci))
		for i := 0; i < nRand/chunks; i++ {
			key, blk := r.Bytes(16), r.Bytes(16)
			// fresh key every 8 blocks only half of the time so that key-schedule coverage also grows
			checkBlock("random", key, blk, &local)
			if i == 0 && ci == 0 {
				rep.Sample(map[string]interface{}{"kind": "block", "key": mon.Hex(key), "block": mon.Hex(blk), "ciphertext": mon.Hex(ref.SM4EncryptBlock(key, blk, nil))})
			}
		}
		covMu.Lock()
		for a := range cov {
			for b := range cov[a] {
				for v := range cov[a][b] {
					cov[a][b][v] = cov[a][b][v] || local[a][b][v]
				}
			}
		}
		covMu.Unlock()
	})
	cnt := [2]int{}
	for a := range cov {
		for b := range cov[a] {
			for v := range cov[a][b] {
				if cov[a][b][v] {
					cnt[a]++
				}
			}
		}
	}
	rep.Count("sbox_lane_inputs_covered_datapath_of_1024", int64(cnt[0]))
	rep.Count("sbox_lane_inputs_covered_keyschedule_of_1024", int64(cnt[1]))
	if cnt[0] < 1024 || cnt[1] < 1024 {
		rep.Note("S-box lane coverage incomplete")
		rep.Count("coverage_incomplete", 1)
	}

	// histories on one object
	nHist := c.Q(600, 200000)
	Par(nHist, func(hi int) {
		r := c.Rng(fmt.Sprintf("hist%d", hi))
		key := r.Bytes(16)
		var b interface {
			Encrypt(dst, src []byte)
			Decrypt(dst, src []byte)
		}
		if pi := mon.Guard(func() {
			x, err := sm4.NewCipher(key)
			if err != nil {
				panic(err)
			}
			b = x
		}); pi != nil {
			rep.Violation("C05/NewCipher/panic/"+pi.Func, pi.Value, map[string]interface{}{"key": mon.Hex(key)})
			return
		}
		steps := 2 + r.Intn(14)
		shape := make([]byte, 0, steps)
		var hist []map[string]interface{}
		prev := r.Bytes(16)
		for s := 0; s < steps; s++ {
			dec := r.Bool()
			inplace := r.Intn(3) == 0
			var in []byte
			switch r.Intn(3) {
			case 0:
				in = r.Bytes(16)
			case 1:
				in = append([]byte{}, prev...) // feed previous output back (chaining)
			default:
				in = bytes.Repeat([]byte{byte(r.Intn(256))}, 16)
			}
			var want []byte
			if dec {
				want = ref.SM4DecryptBlock(key, in, nil)
			} else {
				want = ref.SM4EncryptBlock(key, in, nil)
			}
			var got []byte
			var srcC, dstC *mon.Canary
			pi := mon.Guard(func() {
				if inplace {
					srcC = mon.NewCanary(in, 0)
					buf := srcC.Slice()
					if dec {
						b.Decrypt(buf, buf)
					} else {
						b.Encrypt(buf, buf)
					}
					got = append([]byte{}, buf...)
				} else {
					srcC = mon.NewCanary(in, 0)
					dstC = mon.NewCanary(make([]byte, 16), 16)
					if dec {
						b.Decrypt(dstC.Slice(), srcC.Slice())
					} else {
						b.Encrypt(dstC.Slice(), srcC.Slice())
					}
					got = append([]byte{}, dstC.Slice()...)
				}
			})
			op := map[bool]string{false: "E", true: "D"}[dec] + map[bool]string{false: "", true: "i"}[inplace]
			shape = append(shape, op...)
			hist = append(hist, map[string]interface{}{"op": op, "in": mon.Hex(in)})
			w := map[string]interface{}{"key": mon.Hex(key), "history": hist}
			if pi != nil {
				rep.Violation("C05/Block/history-panic/"+pi.Func, pi.Value, w)
				break
			}
			if !bytes.Equal(got, want) {
				rep.Violation("C05/Block/result-depends-on-history-or-aliasing", fmt.Sprintf("step %d op %s got %x want %x", s, op, got, want), w)
				break
			}
			if !inplace {
				if sc := srcC.Check(); sc != "" {
					rep.Violation("C05/Block/source-modified", sc, w)
				}
				// dst beyond 16 bytes must be untouched
				if dstC != nil {
					full := dstC.Slice()[:32]
					for _, v := range full[16:] {
						if v != 0xA5 {
							rep.Violation("C05/Block/wrote-beyond-block", "bytes after dst[16] written", w)
							break
						}
					}
				}
			}
			prev = got
		}
		rep.Eval("history/" + string(shape))
		if hi == 3 {
			rep.Sample(map[string]interface{}{"kind": "history", "key": mon.Hex(key), "ops": hist})
		}
	})

	// key-buffer histories (serial): ciphers built one after another from the *same* key buffer whose contents change in
	// between, interleaved with ciphers for other keys; every object must keep encrypting under the key bytes it was
	// built from, whatever is done to the buffer or built afterwards
	{
		rk := c.Rng("keybuf")
		for h := 0; h < c.Q(60, 3000); h++ {
			buf := rk.Bytes(16)
			type made struct {
				blk cipher.Block
				key []byte
			}
			var objs []made
			steps := 2 + rk.Intn(5)
			var trace []string
			for st := 0; st < steps; st++ {
				switch rk.Intn(4) {
				case 0: // flip a few bits in place
					buf[rk.Intn(16)] ^= 1 << uint(rk.Intn(8))
					trace = append(trace, "edit-in-place")
				case 1: // refill completely
					rk.Fill(buf)
					trace = append(trace, "refill")
				case 2: // another key in a fresh buffer in between
					k2 := rk.Bytes(16)
					if b, err := sm4.NewCipher(k2); err == nil {
						objs = append(objs, made{b, append([]byte{}, k2...)})
					}
					trace = append(trace, "other-key")
				default:
					trace = append(trace, "same-contents")
				}
				b, err := sm4.NewCipher(buf)
				if err != nil {
					rep.Violation("C05/NewCipher/rejects-16-byte-key", err.Error(), nil)
					continue
				}
				objs = append(objs, made{b, append([]byte{}, buf...)})
			}
			blkIn := rk.Bytes(16)
			for oi, o := range objs {
				got := make([]byte, 16)
				if pi := mon.Guard(func() { o.blk.Encrypt(got, blkIn) }); pi != nil {
					rep.Violation("C05/keybuf-history/panic/"+pi.Func, pi.Value, nil)
					continue
				}
				if want := ref.SM4EncryptBlock(o.key, blkIn, nil); !bytes.Equal(got, want) {
					rep.Violation("C05/NewCipher/cipher-does-not-use-the-key-bytes-it-was-built-from", fmt.Sprintf("object %d of history %v", oi, trace),
						map[string]interface{}{"history": trace, "object": oi, "key_at_construction": mon.Hex(o.key), "block": mon.Hex(blkIn), "got": mon.Hex(got), "want": mon.Hex(want)})
					break
				}
			}
			rep.Eval(fmt.Sprintf("keybuf-history/steps=%d", steps))
		}
	}

	// key lengths
	for n := 0; n <= 64; n++ {
		key := c.Rng(fmt.Sprintf("kl%d", n)).Bytes(n)
		var err error
		var blk interface{}
		pi := mon.Guard(func() { blk, err = sm4.NewCipher(key) })
		switch {
		case pi != nil:
			rep.Violation("C05/NewCipher/panic/"+pi.Func, fmt.Sprintf("key length %d: %s", n, pi.Value), map[string]interface{}{"keylen": n})
		case n == 16 && err != nil:
			rep.Violation("C05/NewCipher/rejects-16-byte-key", err.Error(), map[string]interface{}{"keylen": n})
		case n != 16 && err == nil:
			rep.Violation("C05/NewCipher/accepts-wrong-key-length", fmt.Sprintf("key length %d accepted (%T)", n, blk), map[string]interface{}{"keylen": n})
		}
		rep.Eval(fmt.Sprintf("keylen/%d", n))
	}
	// wrong-length keys right after a valid key they are related to (an extension of it, a prefix of it, the same bytes
	// once zero-padded): length validation must not depend on what the previous call was given
	{
		rk := c.Rng("keylen-after-valid")
		for trial := 0; trial < c.Q(6, 200); trial++ {
			K := rk.Bytes(16)
			if trial%3 == 0 {
				K = make([]byte, 16) // the all-zero key: every shorter all-zero key equals it once zero-padded
			}
			for n := 0; n <= 64; n++ {
				if n == 16 {
					continue
				}
				if _, err := sm4.NewCipher(K); err != nil {
					rep.Violation("C05/NewCipher/rejects-16-byte-key", err.Error(), nil)
					break
				}
				var bad []byte
				if n < 16 {
					bad = append([]byte{}, K[:n]...)
				} else {
					bad = append(append([]byte{}, K...), rk.Bytes(n-16)...)
				}
				var err error
				var blk interface{}
				if pi := mon.Guard(func() { blk, err = sm4.NewCipher(bad) }); pi != nil {
					rep.Violation("C05/NewCipher/panic/"+pi.Func, fmt.Sprintf("key length %d after a valid key: %s", n, pi.Value), nil)
				} else if err == nil {
					rep.Violation("C05/NewCipher/accepts-wrong-key-length/after-a-related-valid-key", fmt.Sprintf("key of %d bytes (prefix/extension of the key of the previous call) accepted (%T)", n, blk), map[string]interface{}{"previous_key": mon.Hex(K), "key": mon.Hex(bad)})
				}
			}
			rep.Eval("keylen-after-related-valid-key")
		}
	}
	// an error return must leave nothing behind: valid key K1, then a REFUSED key that contains another key K2 (K2 plus a
	// tail, or a prefix of K2), then K2 itself (and the mix a half-written buffer would hold) — the cipher built last must
	// be the cipher of the key it was given
	{
		rk := c.Rng("refused-then-valid")
		blockIn := rk.Bytes(16)
		for trial := 0; trial < c.Q(40, 2000); trial++ {
			K1, K2 := rk.Bytes(16), rk.Bytes(16)
			n := []int{17, 18, 24, 32, 64, 15, 8, 1, 0}[trial%9]
			var refused []byte
			if n > 16 {
				refused = append(append([]byte{}, K2...), rk.Bytes(n-16)...)
			} else {
				refused = append([]byte{}, K2[:n]...)
			}
			mixed := append(append([]byte{}, K2[:minInt(n, 16)]...), K1[minInt(n, 16):]...)
			w := map[string]interface{}{"K1": mon.Hex(K1), "refused": mon.Hex(refused), "K2": mon.Hex(K2)}
			bad := false
			if pi := mon.Guard(func() {
				if _, err := sm4.NewCipher(K1); err != nil {
					bad = true
				}
				if _, err := sm4.NewCipher(refused); err == nil {
					bad = true
				}
			}); pi != nil || bad {
				rep.Violation("C05/NewCipher/wrong-answer-on-key-length", fmt.Sprint(pi, " K1 refused or wrong-length key accepted"), w)
				continue
			}
			for _, k := range [][]byte{K2, mixed, K1} {
				var got []byte
				var err error
				if pi := mon.Guard(func() {
					var b cipher.Block
					if b, err = sm4.NewCipher(k); err == nil {
						got = make([]byte, 16)
						b.Encrypt(got, blockIn)
					}
				}); pi != nil || err != nil {
					rep.Violation("C05/NewCipher/fails-after-a-refused-key", fmt.Sprint(pi, err), w)
					break
				}
				if want := ref.SM4EncryptBlock(k, blockIn, nil); !bytes.Equal(got, want) {
					rep.Violation("C05/NewCipher/cipher-built-after-a-refused-key-is-not-the-cipher-of-its-key", fmt.Sprintf("key %x: got %x want %x (a key of %d bytes was refused just before)", k, got, want, len(refused)), w)
					break
				}
			}
			rep.Eval(fmt.Sprintf("refused-then-valid/refused-len=%d", n))
		}
	}
	// wrong-length keys whose CONTENT is special: a textual encoding of a valid key (hex, base64, with prefix, separators
	// or a terminator), printable text of every length, all-equal bytes. Length validation is about the byte count only.
	{
		rk := c.Rng("keylen-content")
		K := rk.Bytes(16)
		hexl := hex.EncodeToString(K)
		var colon []string
		for _, b := range K {
			colon = append(colon, fmt.Sprintf("%02x", b))
		}
		named := map[string][]byte{
			"hex-lower": []byte(hexl), "hex-upper": []byte(strings.ToUpper(hexl)), "hex-0x": []byte("0x" + hexl),
			"hex-colon": []byte(strings.Join(colon, ":")), "hex-space": []byte(strings.Join(colon, " ")),
			"base64-std": []byte(base64.StdEncoding.EncodeToString(K)), "base64-raw": []byte(base64.RawStdEncoding.EncodeToString(K)),
			"base64-url":  []byte(base64.RawURLEncoding.EncodeToString(K)),
			"key+newline": append(append([]byte{}, K...), '\n'), "key+crlf": append(append([]byte{}, K...), '\r', '\n'), "key+nul": append(append([]byte{}, K...), 0),
			"hex-digits-only-32": []byte("0123456789abcdef0123456789abcdef"), "decimal-32": []byte("01234567890123456789012345678901"),
			"hex-half-8": []byte(hexl[:8]),
		}
		alphabets := map[string]string{"hexdigits": "0123456789abcdef", "HEXDIGITS": "0123456789ABCDEF", "digits": "0123456789", "base64": "ABCDEFGHIJKLMNOPQRSTUVWXYZabcdefghijklmnopqrstuvwxyz0123456789+/", "printable": " !#$%&()*+,-./0123456789:;<=>?@ABCDEFGHIJKLMNOPQRSTUVWXYZ[]^_abcdefghijklmnopqrstuvwxyz{|}~", "zero": "\x00", "ff": "\xff", "space": " ", "equals": "="}
		try := func(class string, key []byte) {
			var err error
			var blk interface{}
			if pi := mon.Guard(func() { blk, err = sm4.NewCipher(key) }); pi != nil {
				rep.Violation("C05/NewCipher/panic/"+pi.Func, fmt.Sprintf("%s key of %d bytes: %s", class, len(key), pi.Value), map[string]interface{}{"key": mon.Hex(key)})
			} else if len(key) != 16 && err == nil {
				rep.Violation("C05/NewCipher/accepts-wrong-key-length/content="+class, fmt.Sprintf("key of %d bytes (%q) accepted (%T)", len(key), key, blk), map[string]interface{}{"key": mon.Hex(key)})
			} else if len(key) == 16 && err != nil {
				rep.Violation("C05/NewCipher/rejects-16-byte-key/content="+class, err.Error(), map[string]interface{}{"key": mon.Hex(key)})
			}
			rep.Eval("keylen-content/" + class)
		}
		for _, name := range sortedKeys(named) {
			try(name, named[name])
		}
		for _, name := range sortedKeys(alphabets) {
			al := alphabets[name]
			for n := 0; n <= 64; n++ {
				k := make([]byte, n)
				for i := range k {
					k[i] = al[rk.Intn(len(al))]
				}
				try("alphabet-"+name, k)
			}
		}
	}
	// many keys, then the first ones again (serial): whatever NewCipher remembers per key is bounded somewhere; the cipher
	// it builds for a key seen thousands of keys ago must still be the cipher of that key
	{
		rk := c.Rng("many-keys")
		nKeys := c.Q(3000, 80000)
		keys := make([][]byte, nKeys)
		blk := rk.Bytes(16)
		check := func(i int, phase string) bool {
			want := ref.SM4EncryptBlock(keys[i], blk, nil)
			got := make([]byte, 16)
			var err error
			if pi := mon.Guard(func() {
				var b cipher.Block
				if b, err = sm4.NewCipher(keys[i]); err == nil {
					b.Encrypt(got, blk)
				}
			}); pi != nil || err != nil || !bytes.Equal(got, want) {
				rep.Violation("C05/NewCipher/many-keys/wrong-cipher/"+phase, fmt.Sprintf("key %d of %d: %v %v", i, nKeys, pi, err), map[string]interface{}{"key": mon.Hex(keys[i]), "block": mon.Hex(blk), "key_index": i, "keys_in_this_process": nKeys})
				return false
			}
			return true
		}
		ok := true
		for i := 0; i < nKeys && ok; i++ {
			keys[i] = rk.Bytes(16)
			ok = check(i, "first-use")
		}
		for i := 0; i < nKeys && ok; i += 1 + i/16 {
			ok = check(i, "revisit-after-all-other-keys")
		}
		rep.Eval("many-keys/then-revisit")
	}
	rep.Exhaustive("key lengths 0..64 (random content, and per content alphabet); all 384 single-bit key/block patterns")
}
