package main

import (
	"bytes"
	"encoding/hex"
	"encoding/json"
	"fmt"
	"math/big"
	"os"
	"os/exec"
	"strings"

	"github.com/tjfoc/gmsm/sm2"
	"github.com/tjfoc/gmsm/sm4"
	gx509 "github.com/tjfoc/gmsm/x509"

	"verif/mon"
	"verif/ref"
)

// First operation in a fresh process: behaviour that differs between the first and later uses of package-level state
// (lazily built tables, caches, pools) is only visible when an operation is the very first thing the process does with
// the package. Each entry below is run as the first gmsm call of a child process (same worker binary, "-only first-op:NAME")
// and compared with the reference; the parent collects the child's violations.

type firstOp struct {
	name string
	f    func() string // "" = fine, otherwise what differs
}

var firstOps = map[string][]firstOp{
	"C05": {
		{"sm4.Decrypt", func() string {
			key, ct := []byte("0123456789abcdef"), bytes.Repeat([]byte{0x5a}, 16)
			b, err := sm4.NewCipher(key)
			if err != nil {
				return err.Error()
			}
			got := make([]byte, 16)
			b.Decrypt(got, ct)
			if want := ref.SM4DecryptBlock(key, ct, nil); !bytes.Equal(got, want) {
				return fmt.Sprintf("Decrypt as the first SM4 operation of the process: got %x want %x", got, want)
			}
			return ""
		}},
		{"sm4.Encrypt", func() string {
			key, pt := []byte("0123456789abcdef"), bytes.Repeat([]byte{0x3c}, 16)
			b, err := sm4.NewCipher(key)
			if err != nil {
				return err.Error()
			}
			got := make([]byte, 16)
			b.Encrypt(got, pt)
			if want := ref.SM4EncryptBlock(key, pt, nil); !bytes.Equal(got, want) {
				return fmt.Sprintf("Encrypt as the first SM4 operation of the process: got %x want %x", got, want)
			}
			return ""
		}},
	},
	"C11": {
		{"Sm4Ecb-decrypt", func() string { return firstHelper("ECB", sm4.Sm4Ecb) }},
		{"Sm4Cbc-decrypt", func() string { return firstHelper("CBC", sm4.Sm4Cbc) }},
		{"Sm4CFB-decrypt", func() string { return firstHelper("CFB", sm4.Sm4CFB) }},
		{"Sm4OFB-decrypt", func() string { return firstHelper("OFB", sm4.Sm4OFB) }},
	},
	"C12": {
		{"GCMDecrypt", func() string {
			key, iv, a, p := []byte("0123456789abcdef"), []byte("abcdefghijkl"), []byte("aad"), []byte("first operation of the process!!x")
			c, tg, _ := ref.SM4GCMSeal(key, iv, p, a)
			got, t2 := sm4.GCMDecrypt(key, iv, c, a)
			if !bytes.Equal(got, p) || !bytes.Equal(t2, tg) {
				return fmt.Sprintf("GCMDecrypt as the first operation of the process: plaintext %x tag %x, want %x / %x", got, t2, p, tg)
			}
			return ""
		}},
		{"Sm4GCM-decrypt", func() string {
			key, iv, a, p := []byte("0123456789abcdef"), []byte("abcdefghijkl"), []byte("aad"), []byte("first operation of the process!!x")
			c, tg, _ := ref.SM4GCMSeal(key, iv, p, a)
			got, t2, err := sm4.Sm4GCM(key, iv, c, a, false)
			if err != nil || !bytes.Equal(got, p) || !bytes.Equal(t2, tg) {
				return fmt.Sprintf("Sm4GCM(decrypt) as the first operation of the process: %v plaintext %x tag %x", err, got, t2)
			}
			return ""
		}},
	},
}

func init() {
	// decoders as the first thing a process does (inputs come from the reference only)
	d := big.NewInt(424242)
	q := ref.MulG(d)
	comp := append([]byte{2 + byte(q.Y.Bit(0))}, ref.Pad32(q.X)...)
	comp2 := append([]byte{byte(q.Y.Bit(0))}, ref.Pad32(q.X)...)
	raw := append([]byte{4}, append(ref.Pad32(q.X), ref.Pad32(q.Y)...)...)
	firstOps["C18"] = []firstOp{
		{"sm2.Decompress", func() string {
			for _, in := range [][]byte{comp2, comp} {
				p := sm2.Decompress(in)
				// the prefix convention is C14's business; here: whatever comes back for this x must be one of the two
				// curve points with that abscissa
				if p != nil && p.X != nil && p.X.Cmp(q.X) == 0 && p.Y.Cmp(q.Y) != 0 && p.Y.Cmp(new(big.Int).Sub(ref.P, q.Y)) != 0 {
					return "Decompress as the first SM2 operation of the process returns a point that is not on the curve"
				}
			}
			return ""
		}},
		{"sm2.Decrypt(garbage)", func() string {
			sm2.Decrypt(&sm2.PrivateKey{D: d, PublicKey: sm2.PublicKey{Curve: sm2.P256Sm2(), X: q.X, Y: q.Y}}, append(append([]byte{}, raw...), make([]byte, 40)...), sm2.C1C3C2)
			return ""
		}},
		{"sm2.CipherUnmarshal", func() string { sm2.CipherUnmarshal([]byte{0x30, 0x03, 0x02, 0x01, 0x01}); return "" }},
		{"sm2.SignDataToSignDigit", func() string {
			sm2.SignDataToSignDigit([]byte{0x30, 0x06, 0x02, 0x01, 0x01, 0x02, 0x01, 0x01})
			return ""
		}},
		{"x509.ReadPublicKeyFromHex", func() string { gx509.ReadPublicKeyFromHex(hex.EncodeToString(raw)); return "" }},
		{"x509.ReadPrivateKeyFromHex", func() string { gx509.ReadPrivateKeyFromHex(d.Text(16)); return "" }},
		{"x509.ParsePKCS7", func() string { gx509.ParsePKCS7([]byte{0x30, 0x80, 0x06, 0x01, 0x01, 0x00, 0x00}); return "" }},
		{"x509.ParseCertificate", func() string { gx509.ParseCertificate([]byte{0x30, 0x03, 0x02, 0x01, 0x01}); return "" }},
	}
}

// Zero-valued inputs as the very first operation: a cache, table or pool whose zero-initialised state happens to "match"
// an all-zero key, IV or message only shows while that state is still untouched. Each op also repeats the zero input
// after an unrelated one (the answer for the same input must not change within a process).
func init() {
	zeroKey, otherKey := make([]byte, 16), []byte("0123456789abcdef")
	blk := func(key, in []byte, enc bool) ([]byte, error) {
		b, err := sm4.NewCipher(key)
		if err != nil {
			return nil, err
		}
		out := make([]byte, 16)
		if enc {
			b.Encrypt(out, in)
		} else {
			b.Decrypt(out, in)
		}
		return out, nil
	}
	firstOps["C05"] = append(firstOps["C05"],
		firstOp{"sm4.Encrypt(all-zero key)", func() string {
			pt := bytes.Repeat([]byte{0x11}, 16)
			want := ref.SM4EncryptBlock(zeroKey, pt, nil)
			for step, k := range [][]byte{zeroKey, otherKey, zeroKey} {
				got, err := blk(k, pt, true)
				if w := ref.SM4EncryptBlock(k, pt, nil); err != nil || !bytes.Equal(got, w) {
					return fmt.Sprintf("step %d (key %x) of [zero key, other key, zero key] from a fresh process: %v got %x want %x (zero-key ciphertext should be %x)", step, k, err, got, w, want)
				}
			}
			return ""
		}},
		firstOp{"sm4.Decrypt(all-zero key, all-zero block)", func() string {
			ct := make([]byte, 16)
			got, err := blk(zeroKey, ct, false)
			if w := ref.SM4DecryptBlock(zeroKey, ct, nil); err != nil || !bytes.Equal(got, w) {
				return fmt.Sprintf("%v got %x want %x", err, got, w)
			}
			return ""
		}})
	type hf struct {
		mode string
		f    func(key, in []byte, enc bool) ([]byte, error)
	}
	for _, h := range []hf{{"ECB", sm4.Sm4Ecb}, {"CBC", sm4.Sm4Cbc}, {"CFB", sm4.Sm4CFB}, {"OFB", sm4.Sm4OFB}} {
		h := h
		firstOps["C11"] = append(firstOps["C11"], firstOp{"Sm4" + h.mode + "-encrypt(all-zero key)", func() string {
			pt := []byte("zero key as the first key of the process")
			iv := make([]byte, 16)
			refEnc := func(k []byte) []byte {
				padded := ref.PKCS7Pad(pt, 16)
				switch h.mode {
				case "ECB":
					return ref.SM4ECB(k, padded, false)
				case "CBC":
					return ref.SM4CBC(k, iv, padded, false)
				case "CFB":
					return ref.SM4CFB(k, iv, padded, false)
				}
				return ref.SM4OFB(k, iv, padded)
			}
			for step, k := range [][]byte{zeroKey, otherKey, zeroKey} {
				got, err := h.f(k, pt, true)
				if w := refEnc(k); err != nil || !bytes.Equal(got, w) {
					return fmt.Sprintf("%s, step %d (key %x) of [zero key, other key, zero key] from a fresh process: %v got %x want %x", h.mode, step, k, err, got, w)
				}
			}
			return ""
		}})
	}
	firstOps["C12"] = append(firstOps["C12"], firstOp{"GCMEncrypt(all-zero key, all-zero IV, empty AAD)", func() string {
		iv, p := make([]byte, 12), make([]byte, 20)
		for step, k := range [][]byte{zeroKey, otherKey, zeroKey} {
			wc, wt, _ := ref.SM4GCMSeal(k, iv, p, nil)
			c, tg := sm4.GCMEncrypt(k, iv, p, nil)
			if !bytes.Equal(c, wc) || !bytes.Equal(tg, wt) {
				return fmt.Sprintf("step %d (key %x): ciphertext %x tag %x, want %x / %x", step, k, c, tg, wc, wt)
			}
		}
		return ""
	}})
}

func firstHelper(mode string, f func(key, in []byte, enc bool) ([]byte, error)) string {
	key, pt := []byte("0123456789abcdef"), []byte("twenty-three bytes here")
	iv := make([]byte, 16) // the package's default IV
	padded := ref.PKCS7Pad(pt, 16)
	var ct []byte
	switch mode {
	case "ECB":
		ct = ref.SM4ECB(key, padded, false)
	case "CBC":
		ct = ref.SM4CBC(key, iv, padded, false)
	case "CFB":
		ct = ref.SM4CFB(key, iv, padded, false)
	default:
		ct = ref.SM4OFB(key, iv, padded)
	}
	got, err := f(key, ct, false)
	if err != nil || !bytes.Equal(got, pt) {
		return fmt.Sprintf("%s decryption as the first SM4 operation of the process: err=%v got %x want %x", mode, err, got, pt)
	}
	return ""
}

// runFirstOpChild is the child side: run exactly one operation and report.
func runFirstOpChild(c *Ctx, name string) {
	for _, op := range firstOps[c.Prop] {
		if op.name == name {
			var why string
			if pi := mon.Guard(func() { why = op.f() }); pi != nil {
				why = "panic in " + pi.Func + ": " + pi.Value
			}
			if why != "" {
				c.Rep.Violation(c.Prop+"/first-operation-of-a-process/"+name, why, nil)
			}
			c.Rep.EvalN("first-op-child/"+name, 1, true)
			c.Rep.Distinct("first-op/" + name)
			return
		}
	}
}

// runFirstOps is the parent side: one fresh child per operation (and per trial).
func runFirstOps(c *Ctx) {
	exe, err := os.Executable()
	if err != nil {
		return
	}
	for _, op := range firstOps[c.Prop] {
		dir := fmt.Sprintf("%s/firstop-%s", c.Out, strings.ReplaceAll(op.name, "/", "_"))
		os.MkdirAll(dir, 0o755)
		cmd := exec.Command(exe, "-p", c.Prop, "-only", "first-op:"+op.name, "-tier", c.Tier, "-seed", fmt.Sprint(c.Seed), "-out", dir)
		cmd.Env = os.Environ()
		out, err := cmd.CombinedOutput()
		if err != nil {
			c.Rep.Violation(c.Prop+"/first-operation-of-a-process/"+op.name+"/child-failed", fmt.Sprintf("%v: %s", err, tailStr(string(out), 1200)), nil)
			continue
		}
		var res struct {
			Violations []struct {
				Key    string `json:"key"`
				Detail string `json:"detail"`
			} `json:"violations"`
		}
		if b, e := os.ReadFile(dir + "/result.json"); e == nil && json.Unmarshal(b, &res) == nil {
			for _, v := range res.Violations {
				c.Rep.Violation(v.Key, v.Detail, map[string]interface{}{"first_operation": op.name, "note": "observed in a fresh child process whose first gmsm call was this operation"})
			}
		} else {
			c.Rep.Violation(c.Prop+"/first-operation-of-a-process/"+op.name+"/no-result", fmt.Sprint(e), nil)
		}
		c.Rep.Eval("first-operation-of-a-process/" + op.name)
	}
}
