// vcheck is the driver: it rebuilds the worker against /repo's current working tree (build tag
// verif), runs the property's workload in a child process, matches violations against
// KNOWN_FINDINGS.txt, writes evidence/<id>.json and prints the verdict lines.
//
// exit 0: property held on everything explored (KNOWN-FINDING lines allowed)
// exit 1: at least one unlisted violation (VIOLATION property=<id> replay=<path>)
// exit 2: inconclusive (build failure, watchdog, too few events) — never on a healthy tree
package main

import (
	"bufio"
	"crypto/sha256"
	"encoding/json"
	"flag"
	"fmt"
	"os"
	"os/exec"
	"path/filepath"
	"sort"
	"strconv"
	"strings"
	"syscall"
	"time"
)

type violation struct {
	Key     string      `json:"key"`
	Count   int         `json:"count"`
	Detail  string      `json:"detail"`
	Witness interface{} `json:"witness,omitempty"`
}

type result struct {
	Property    string                 `json:"property"`
	Tier        string                 `json:"tier"`
	Seed        uint64                 `json:"seed"`
	Evaluations int64                  `json:"evaluations"`
	Classes     map[string]int64       `json:"classes"`
	Nontrivial  int                    `json:"distinct_nontrivial"`
	Rule        string                 `json:"rule"`
	Floor       int64                  `json:"floor"`
	Required    map[string]int64       `json:"required_counters"`
	Exhaustive  []string               `json:"exhaustive_subspaces"`
	Violations  []*violation           `json:"violations"`
	Counters    map[string]int64       `json:"counters"`
	Samples     []interface{}          `json:"samples"`
	SelfTest    []string               `json:"ref_selftest"`
	Notes       []string               `json:"notes"`
	Trusted     []string               `json:"trusted_base"`
	Assumptions []string               `json:"assumptions"`
	Extra       map[string]interface{} `json:"extra"`
	Done        bool                   `json:"done"`
}

type propInfo struct {
	level string
	race  bool
}

var props = map[string]propInfo{
	"C01": {"exploration", false}, "C02": {"exploration", false}, "C03": {"exploration", false},
	"C04": {"exploration", false}, "C05": {"exploration", false}, "C06": {"exploration", false},
	"C07": {"fault_enumeration", false}, "C08": {"fault_enumeration", false}, "C09": {"exploration", false},
	"C10": {"exploration", false}, "C11": {"exploration", false}, "C12": {"exploration", false},
	"C13": {"exploration", false}, "C14": {"exploration", false}, "C15": {"fault_enumeration", false},
	"C16": {"fault_enumeration", false}, "C17": {"exploration", false}, "C18": {"fault_enumeration", false},
	"C19": {"exploration", false}, "C20": {"exploration", true},
}

func root() string {
	if _, err := os.Stat("properties.jsonl"); err == nil {
		d, _ := os.Getwd()
		return d
	}
	return "/verif"
}

var cleanupDir string

func exit(code int) {
	if cleanupDir != "" {
		os.RemoveAll(cleanupDir)
	}
	os.Exit(code)
}

func goEnv() []string {
	env := os.Environ()
	env = append(env, "GOFLAGS=-mod=mod", "GOPROXY=off", "GOSUMDB=off", "GOTOOLCHAIN=local", "CGO_ENABLED=1")
	return env
}

type known struct {
	prop, key, text string
	seen            bool
}

func loadKnown(path string) []*known {
	f, err := os.Open(path)
	if err != nil {
		return nil
	}
	defer f.Close()
	var out []*known
	sc := bufio.NewScanner(f)
	sc.Buffer(make([]byte, 1<<20), 1<<20)
	for sc.Scan() {
		l := strings.TrimSpace(sc.Text())
		if !strings.HasPrefix(l, "known:") {
			continue
		}
		k := &known{}
		for _, f := range strings.Fields(l[len("known:"):]) {
			if strings.HasPrefix(f, "property=") && k.prop == "" {
				k.prop = f[len("property="):]
			} else if strings.HasPrefix(f, "key=") && k.key == "" {
				k.key = f[len("key="):]
			}
		}
		if i := strings.Index(l, "key="+k.key); i >= 0 {
			k.text = strings.TrimSpace(l[i+len("key="+k.key):])
		}
		if k.prop != "" && k.key != "" {
			out = append(out, k)
		}
	}
	return out
}

func tail(path string, n int) string {
	b, err := os.ReadFile(path)
	if err != nil {
		return ""
	}
	if len(b) > n {
		b = b[len(b)-n:]
	}
	return string(b)
}

func main() {
	prop := flag.String("p", "", "property id")
	tier := flag.String("tier", "", "quick|thorough")
	replay := flag.String("replay", "", "witness file to replay")
	seedF := flag.String("seed", "", "seed (default $VERIF_SEED or 1)")
	only := flag.String("only", "", "scenario filter passed to the worker (diagnostic)")
	flag.Parse()
	info, ok := props[*prop]
	if !ok {
		fmt.Fprintln(os.Stderr, "usage: vcheck -p C01..C20 -tier quick|thorough [-replay file]")
		os.Exit(2)
	}
	R := root()
	t := *tier
	if t == "" {
		t = os.Getenv("VERIF_TIER")
	}
	if t != "thorough" {
		t = "quick"
	}
	seed := uint64(1)
	if s := os.Getenv("VERIF_SEED"); s != "" {
		if v, err := strconv.ParseUint(s, 10, 64); err == nil {
			seed = v
		}
	}
	if *seedF != "" {
		if v, err := strconv.ParseUint(*seedF, 10, 64); err == nil {
			seed = v
		}
	}
	replayKey := ""
	if *replay != "" {
		b, err := os.ReadFile(*replay)
		if err != nil {
			fmt.Fprintln(os.Stderr, "replay:", err)
			os.Exit(2)
		}
		var w struct {
			Key  string `json:"key"`
			Tier string `json:"tier"`
			Seed uint64 `json:"seed"`
		}
		if json.Unmarshal(b, &w) != nil || w.Key == "" {
			fmt.Fprintln(os.Stderr, "replay: not a witness file")
			os.Exit(2)
		}
		replayKey, t, seed = w.Key, w.Tier, w.Seed
	}
	start := time.Now()

	// ---- build the worker from /repo's current tree
	bin := filepath.Join(R, ".build", "bin", "vworker")
	args := []string{"build", "-tags", "verif"}
	if info.race {
		bin += "-race"
		args = append(args, "-race")
	}
	// Developer tooling only (seeded-change confirmation, never set by a registered command): build against a scratch
	// copy of the repository instead of /repo and keep evidence/witness files of that run apart from the real ones.
	outRoot := R
	if alt := os.Getenv("VERIF_ALT_REPO"); alt != "" {
		tag := fmt.Sprintf("%x", sha256.Sum256([]byte(alt)))[:10]
		gm, err := os.ReadFile(filepath.Join(R, "go.mod"))
		if err != nil {
			fmt.Println("INCONCLUSIVE cannot read go.mod")
			os.Exit(2)
		}
		mf := filepath.Join(R, ".build", "alt-"+tag+".mod")
		os.MkdirAll(filepath.Dir(mf), 0o755)
		os.WriteFile(mf, []byte(strings.Replace(string(gm), "=> /repo", "=> "+alt, 1)), 0o644)
		if gs, err := os.ReadFile(filepath.Join(R, "go.sum")); err == nil {
			os.WriteFile(strings.TrimSuffix(mf, ".mod")+".sum", gs, 0o644)
		}
		args = append(args, "-modfile="+mf)
		bin += "-alt-" + tag
		outRoot = filepath.Join(R, ".build", "alt", tag)
		fmt.Printf("NOTE: building against %s (VERIF_ALT_REPO); evidence and witnesses under %s\n", alt, outRoot)
	}
	args = append(args, "-o", bin, "./cmd/vworker")
	os.MkdirAll(filepath.Dir(bin), 0o755)
	cmd := exec.Command("go", args...)
	cmd.Dir = R
	cmd.Env = goEnv()
	if out, err := cmd.CombinedOutput(); err != nil {
		fmt.Printf("INCONCLUSIVE property=%s build of worker against /repo failed\n%s\n", *prop, out)
		os.Exit(2)
	}

	// ---- run it
	runDir := filepath.Join(R, ".build", "run", fmt.Sprintf("%s-%s-%d-%d", *prop, t, seed, os.Getpid()))
	os.RemoveAll(runDir)
	os.MkdirAll(runDir, 0o755)
	defer os.RemoveAll(runDir)
	cleanupDir = runDir // os.Exit skips deferred calls: exit() removes the run directory (journals are large) itself
	wargs := []string{"-p", *prop, "-tier", t, "-seed", strconv.FormatUint(seed, 10), "-out", runDir}
	if *only != "" {
		wargs = append(wargs, "-only", *only)
	}
	w := exec.Command(bin, wargs...)
	w.Dir = R
	so, _ := os.Create(filepath.Join(runDir, "stdout.txt"))
	se, _ := os.Create(filepath.Join(runDir, "stderr.txt"))
	w.Stdout, w.Stderr = so, se
	w.Env = append(goEnv(), "VERIF_ROOT="+R, "GOTRACEBACK=all")
	if info.race {
		os.MkdirAll(filepath.Join(runDir, "race"), 0o755)
		w.Env = append(w.Env, "GORACE=halt_on_error=0 history_size=2 log_path="+filepath.Join(runDir, "race", "r"))
	}
	w.SysProcAttr = &syscall.SysProcAttr{Setpgid: true}
	watchdog := 25 * time.Minute
	if t == "thorough" {
		watchdog = 4 * time.Hour
	}
	if err := w.Start(); err != nil {
		fmt.Printf("INCONCLUSIVE property=%s cannot start worker: %v\n", *prop, err)
		exit(2)
	}
	done := make(chan error, 1)
	go func() { done <- w.Wait() }()
	var werr error
	timedOut := false
	select {
	case werr = <-done:
	case <-time.After(watchdog):
		timedOut = true
		syscall.Kill(-w.Process.Pid, syscall.SIGQUIT)
		select {
		case <-done:
		case <-time.After(10 * time.Second):
			syscall.Kill(-w.Process.Pid, syscall.SIGKILL)
			<-done
		}
	}
	so.Close()
	se.Close()
	if timedOut {
		keep := filepath.Join(outRoot, "witness", *prop)
		os.MkdirAll(keep, 0o755)
		os.WriteFile(filepath.Join(keep, "watchdog-stderr.txt"), []byte(tail(filepath.Join(runDir, "stderr.txt"), 200000)), 0o644)
		fmt.Printf("INCONCLUSIVE property=%s wall-clock watchdog (%v) fired; goroutine dump in witness/%s/watchdog-stderr.txt\n", *prop, watchdog, *prop)
		exit(2)
	}

	var res result
	rb, rerr := os.ReadFile(filepath.Join(runDir, "result.json"))
	if rerr == nil {
		rerr = json.Unmarshal(rb, &res)
	}
	if rerr != nil || !res.Done {
		// worker died: a fatal runtime error or os.Exit inside gmsm — witness is the last journalled case
		code := -1
		if ee, ok := werr.(*exec.ExitError); ok {
			code = ee.ExitCode()
		}
		if code == 4 {
			fmt.Printf("INCONCLUSIVE property=%s reference self-test failed: %s\n", *prop, tail(filepath.Join(runDir, "stderr.txt"), 2000))
			exit(2)
		}
		jl := tail(filepath.Join(runDir, "journal.txt"), 9000)
		if i := strings.LastIndex(strings.TrimRight(jl, "\n"), "\n"); i >= 0 {
			jl = jl[i+1:]
		}
		res = result{Property: *prop, Tier: t, Seed: seed}
		res.Violations = []*violation{{Key: *prop + "/worker-died", Count: 1,
			Detail:  fmt.Sprintf("worker process ended without a result (exit %d): unrecovered fatal error while executing gmsm", code),
			Witness: map[string]interface{}{"last_journalled_case": strings.TrimSpace(jl), "stderr_tail": tail(filepath.Join(runDir, "stderr.txt"), 6000)}}}
		res.Evaluations = 1
		res.Rule = "worker died"
	}

	// ---- race reports (C20): parsed by the worker's post-pass? No: by us, from the log files.
	if info.race {
		collectRaces(filepath.Join(runDir, "race"), &res)
	}

	// ---- findings
	kn := loadKnown(filepath.Join(R, "KNOWN_FINDINGS.txt"))
	var unlisted []*violation
	var knownHit []string
	for _, v := range res.Violations {
		if replayKey != "" && v.Key != replayKey {
			continue
		}
		matched := false
		for _, k := range kn {
			if k.prop == *prop && k.key == v.Key {
				k.seen = true
				matched = true
				fmt.Printf("KNOWN-FINDING: property=%s key=%s %s (observed %d×)\n", *prop, k.key, k.text, v.Count)
				knownHit = append(knownHit, k.key)
			}
		}
		if !matched {
			unlisted = append(unlisted, v)
		}
	}
	var stale []string
	for _, k := range kn {
		if k.prop == *prop && !k.seen {
			stale = append(stale, k.key)
		}
	}
	sort.Strings(stale)
	wdir := filepath.Join(outRoot, "witness", *prop)
	for i, v := range unlisted {
		os.MkdirAll(wdir, 0o755)
		p := filepath.Join(wdir, fmt.Sprintf("%s-%d-%d.json", t, seed, i))
		b, _ := json.MarshalIndent(map[string]interface{}{"property": *prop, "key": v.Key, "tier": t, "seed": seed, "count": v.Count,
			"detail": v.Detail, "witness": v.Witness, "replay": fmt.Sprintf("./bin/vcheck -p %s -replay %s", *prop, p)}, "", " ")
		os.WriteFile(p, b, 0o644)
		fmt.Printf("VIOLATION property=%s replay=%s key=%s %s\n", *prop, p, v.Key, oneLine(v.Detail))
	}

	inconclusive := ""
	if len(unlisted) == 0 && replayKey == "" && *only == "" {
		if res.Evaluations < res.Floor {
			inconclusive = fmt.Sprintf("monitors observed %d evaluations, floor is %d", res.Evaluations, res.Floor)
		} else if res.Nontrivial < 2 {
			inconclusive = "fewer than 2 distinct non-trivial cases observed"
		}
		for name, min := range res.Required {
			if res.Counters[name] < min {
				inconclusive = fmt.Sprintf("the path counted by %q was observed %d times, the run needs at least %d", name, res.Counters[name], min)
			}
		}
	}

	// ---- evidence
	if replayKey == "" && *only == "" {
		cov := map[string]interface{}{
			"evaluations":          res.Evaluations,
			"distinct_nontrivial":  res.Nontrivial,
			"rule":                 res.Rule,
			"samples":              res.Samples,
			"classes":              res.Classes,
			"counters":             res.Counters,
			"trusted_base":         res.Trusted,
			"ref_selftest":         res.SelfTest,
			"exhaustive":           false,
			"exhaustive_subspaces": res.Exhaustive,
			"known_findings_seen":  knownHit,
			"stale_known":          stale,
			"notes":                res.Notes,
			"floor":                res.Floor,
			"required_counters":    res.Required,
		}
		for k, v := range res.Extra {
			cov[k] = v
		}
		if len(res.Samples) == 0 {
			cov["samples"] = []interface{}{"(none recorded)"}
		}
		var vk []string
		for _, v := range unlisted {
			vk = append(vk, v.Key)
		}
		cov["unlisted_violation_keys"] = vk
		ev := map[string]interface{}{
			"property_id": *prop, "tier": t, "seed": seed, "level": info.level,
			"coverage": cov, "assumptions": res.Assumptions,
			"wall_s": time.Since(start).Seconds(), "violations": len(unlisted),
		}
		if len(res.Assumptions) == 0 {
			ev["assumptions"] = []string{}
		}
		if len(res.Trusted) == 0 {
			cov["trusted_base"] = []string{}
		}
		if inconclusive != "" {
			ev["inconclusive"] = inconclusive
		}
		os.MkdirAll(filepath.Join(outRoot, "evidence"), 0o755)
		b, _ := json.MarshalIndent(ev, "", " ")
		os.WriteFile(filepath.Join(outRoot, "evidence", *prop+".json"), b, 0o644)
	}

	fmt.Printf("SUMMARY property=%s tier=%s seed=%d evaluations=%d distinct_nontrivial=%d violations=%d known=%d stale_known=%d wall=%.1fs\n",
		*prop, t, seed, res.Evaluations, res.Nontrivial, len(unlisted), len(knownHit), len(stale), time.Since(start).Seconds())
	if len(unlisted) > 0 {
		exit(1)
	}
	if inconclusive != "" {
		fmt.Printf("INCONCLUSIVE property=%s %s\n", *prop, inconclusive)
		exit(2)
	}
	if replayKey != "" {
		fmt.Printf("REPLAY property=%s key=%s did not reproduce (or is a listed known finding)\n", *prop, replayKey)
	}
}

func oneLine(s string) string {
	s = strings.ReplaceAll(s, "\n", " ")
	if len(s) > 300 {
		s = s[:300] + "…"
	}
	return s
}
