package main

import (
	"fmt"
	"os"
	"path/filepath"
	"regexp"
	"sort"
	"strings"
)

var frameRe = regexp.MustCompile(`^\s+([^\s(]+(?:\([^)]*\))?[^\s(]*)\(.*\)$`)

// collectRaces parses race-detector logs: each "WARNING: DATA RACE" block has two (or more) stacks.
// A report is attributed to gmsm when any stack has a gmsm frame; its key is the pair of
// innermost gmsm functions (line numbers stripped), which is stable across runs.
func collectRaces(dir string, res *result) {
	files, _ := filepath.Glob(filepath.Join(dir, "r.*"))
	raw := 0
	sig := map[string]int{}
	sample := map[string]string{}
	harnessOnly := 0
	for _, f := range files {
		b, err := os.ReadFile(f)
		if err != nil {
			continue
		}
		blocks := strings.Split(string(b), "WARNING: DATA RACE")
		for _, blk := range blocks[1:] {
			raw++
			if i := strings.Index(blk, "=================="); i >= 0 {
				blk = blk[:i]
			}
			// split into stacks at blank lines; take the first gmsm frame of the first two stacks
			var tops []string
			for _, st := range strings.Split(blk, "\n\n") {
				lines := strings.Split(st, "\n")
				if len(lines) == 0 {
					continue
				}
				head := strings.TrimSpace(lines[0])
				if !(strings.HasPrefix(head, "Read at") || strings.HasPrefix(head, "Write at") || strings.HasPrefix(head, "Previous read") || strings.HasPrefix(head, "Previous write") ||
					strings.HasPrefix(head, "Atomic") || strings.HasPrefix(head, "Previous atomic")) {
					continue
				}
				top := ""
				for _, l := range lines[1:] {
					t := strings.TrimSpace(l)
					if strings.Contains(t, "tjfoc/gmsm/") && !strings.HasPrefix(t, "/") {
						fn := t[strings.Index(t, "tjfoc/gmsm/")+len("tjfoc/gmsm/"):]
						if j := strings.LastIndex(fn, "("); j > 0 {
							fn = fn[:j]
						}
						top = fn
						break
					}
				}
				tops = append(tops, top)
			}
			gm := false
			for _, t := range tops {
				if t != "" {
					gm = true
				}
			}
			if !gm {
				harnessOnly++
				continue
			}
			sort.Strings(tops)
			k := strings.Join(tops, "|")
			sig[k]++
			if _, ok := sample[k]; !ok {
				if len(blk) > 3000 {
					blk = blk[:3000]
				}
				sample[k] = blk
			}
		}
	}
	if res.Counters == nil {
		res.Counters = map[string]int64{}
	}
	res.Counters["race_reports_raw"] = int64(raw)
	res.Counters["race_reports_distinct_gmsm"] = int64(len(sig))
	res.Counters["race_reports_harness_only"] = int64(harnessOnly)
	for k, n := range sig {
		res.Violations = append(res.Violations, &violation{Key: "C20/race/" + k, Count: n,
			Detail: fmt.Sprintf("race detector: %d report(s) between gmsm functions %s", n, k), Witness: map[string]interface{}{"report": sample[k]}})
	}
	if harnessOnly > 0 {
		res.Violations = append(res.Violations, &violation{Key: "C20/race/harness-only", Count: harnessOnly,
			Detail: "race reports without any gmsm frame (harness bug?)"})
	}
}
