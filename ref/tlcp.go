package ref

import (
	"bytes"
	"crypto/cipher"
	"crypto/hmac"
	"encoding/binary"
	"errors"
	"fmt"
	"math/big"
)

// ---- GM/T 0024 (TLCP) reference pieces: PRF, key block, record protection, message codecs ----
// Written from the standard's description (which follows TLS 1.1 record layout with SM3/SM4 and a
// TLS 1.2-style PRF over HMAC-SM3); uses only the reference SM2/SM3/SM4 of this package.

const (
	TLCPVersion    = 0x0101
	SuiteECCSM4CBC = 0xe013
	SuiteECCSM4GCM = 0xe053
	SuiteECDHECBC  = 0xe011
	SuiteECDHEGCM  = 0xe051

	RecCCS       = 20
	RecAlert     = 21
	RecHandshake = 22
	RecAppData   = 23

	HSHelloRequest       = 0
	HSClientHello        = 1
	HSServerHello        = 2
	HSNewSessionTicket   = 4
	HSCertificate        = 11
	HSServerKeyExchange  = 12
	HSCertificateRequest = 13
	HSServerHelloDone    = 14
	HSCertificateVerify  = 15
	HSClientKeyExchange  = 16
	HSFinished           = 20
)

func HMACSM3(key, msg []byte) []byte {
	m := hmac.New(NewSM3, key)
	m.Write(msg)
	return m.Sum(nil)
}

// PHash is P_SM3(secret, seed) of RFC 5246 §5 with HMAC-SM3.
func PHash(secret, seed []byte, n int) []byte {
	var out []byte
	a := HMACSM3(secret, seed)
	for len(out) < n {
		out = append(out, HMACSM3(secret, append(append([]byte{}, a...), seed...))...)
		a = HMACSM3(secret, a)
	}
	return out[:n]
}

func PRF(secret []byte, label string, seed []byte, n int) []byte {
	return PHash(secret, append([]byte(label), seed...), n)
}

func MasterSecret(pms, clientRandom, serverRandom []byte) []byte {
	return PRF(pms, "master secret", append(append([]byte{}, clientRandom...), serverRandom...), 48)
}

type KeyBlock struct {
	ClientMAC, ServerMAC, ClientKey, ServerKey, ClientIV, ServerIV []byte
}

func SuiteIsGCM(s uint16) bool { return s == SuiteECCSM4GCM || s == SuiteECDHEGCM }

func DeriveKeyBlock(master, clientRandom, serverRandom []byte, suite uint16) KeyBlock {
	macLen, keyLen, ivLen := 32, 16, 16
	if SuiteIsGCM(suite) {
		macLen, ivLen = 0, 4
	}
	kb := PRF(master, "key expansion", append(append([]byte{}, serverRandom...), clientRandom...), 2*macLen+2*keyLen+2*ivLen)
	take := func(n int) []byte { v := kb[:n]; kb = kb[n:]; return v }
	return KeyBlock{take(macLen), take(macLen), take(keyLen), take(keyLen), take(ivLen), take(ivLen)}
}

func FinishedVerify(master []byte, client bool, transcript []byte) []byte {
	label := "server finished"
	if client {
		label = "client finished"
	}
	return PRF(master, label, SM3(transcript), 12)
}

// ---- records ----

type Record struct {
	Type    byte
	Version uint16
	Body    []byte // as on the wire (protected after CCS)
	Raw     []byte // header + body
}

// SplitRecords frames a byte stream; rest holds an incomplete trailing record.
func SplitRecords(stream []byte) (recs []Record, rest []byte) {
	for len(stream) >= 5 {
		n := int(stream[3])<<8 | int(stream[4])
		if len(stream) < 5+n {
			break
		}
		recs = append(recs, Record{Type: stream[0], Version: uint16(stream[1])<<8 | uint16(stream[2]), Body: stream[5 : 5+n], Raw: stream[:5+n]})
		stream = stream[5+n:]
	}
	return recs, stream
}

// HalfState is the protection state of one direction.
type HalfState struct {
	Suite  uint16
	Key    []byte
	IV     []byte // implicit nonce part for GCM; unused for CBC (explicit IV per record)
	MACKey []byte
	Seq    uint64
	On     bool
	// NonceOffset (sender, GCM): the 8 explicit nonce bytes written into a record are Seq+NonceOffset instead of Seq — what
	// a sender with its own nonce counter or a random starting point does; the additional data still carries Seq.
	NonceOffset uint64
}

func (h *HalfState) seqBytes() []byte {
	var b [8]byte
	binary.BigEndian.PutUint64(b[:], h.Seq)
	return b[:]
}

// OpenInfo describes a successfully opened record.
type OpenInfo struct {
	Plain      []byte
	ExplicitIV []byte
	PadLen     int
	Seq        uint64
}

// Open verifies and decrypts one record under the state's current sequence number and advances it.
func (h *HalfState) Open(r Record) (*OpenInfo, error) {
	if !h.On {
		return &OpenInfo{Plain: r.Body}, nil
	}
	blk, _ := NewSM4(h.Key)
	info := &OpenInfo{Seq: h.Seq}
	if SuiteIsGCM(h.Suite) {
		if len(r.Body) < 8+16 {
			return nil, errors.New("tlcp: GCM record too short")
		}
		g, _ := cipher.NewGCM(blk)
		nonce := append(append([]byte{}, h.IV...), r.Body[:8]...)
		n := len(r.Body) - 8 - 16
		aad := append(h.seqBytes(), r.Type, byte(r.Version>>8), byte(r.Version), byte(n>>8), byte(n))
		pt, err := g.Open(nil, nonce, r.Body[8:], aad)
		if err != nil {
			return nil, errors.New("tlcp: GCM tag mismatch under seq " + fmt.Sprint(h.Seq))
		}
		info.Plain, info.ExplicitIV = pt, append([]byte{}, r.Body[:8]...)
		h.Seq++
		return info, nil
	}
	if len(r.Body)%16 != 0 || len(r.Body) < 16+48 {
		return nil, errors.New("tlcp: CBC record length")
	}
	iv := r.Body[:16]
	pt := make([]byte, len(r.Body)-16)
	cipher.NewCBCDecrypter(blk, iv).CryptBlocks(pt, r.Body[16:])
	pad := int(pt[len(pt)-1])
	if pad+1+32 > len(pt) {
		return nil, errors.New("tlcp: bad padding length")
	}
	for _, b := range pt[len(pt)-pad-1:] {
		if int(b) != pad {
			return nil, errors.New("tlcp: bad padding bytes")
		}
	}
	data := pt[:len(pt)-pad-1-32]
	mac := pt[len(pt)-pad-1-32 : len(pt)-pad-1]
	hdr := append(h.seqBytes(), r.Type, byte(r.Version>>8), byte(r.Version), byte(len(data)>>8), byte(len(data)))
	if !hmac.Equal(mac, HMACSM3(h.MACKey, append(hdr, data...))) {
		return nil, errors.New("tlcp: MAC mismatch under seq " + fmt.Sprint(h.Seq))
	}
	info.Plain, info.ExplicitIV, info.PadLen = data, append([]byte{}, iv...), pad
	h.Seq++
	return info, nil
}

// Seal protects one record. iv is the explicit IV for CBC (16 bytes); padLen < 0 picks the minimal padding.
func (h *HalfState) Seal(typ byte, data, iv []byte, padLen int) []byte {
	ver := []byte{TLCPVersion >> 8, TLCPVersion & 0xff}
	if !h.On {
		out := []byte{typ, ver[0], ver[1], byte(len(data) >> 8), byte(len(data))}
		return append(out, data...)
	}
	blk, _ := NewSM4(h.Key)
	var body []byte
	if SuiteIsGCM(h.Suite) {
		g, _ := cipher.NewGCM(blk)
		var explicit [8]byte
		binary.BigEndian.PutUint64(explicit[:], h.Seq+h.NonceOffset)
		nonce := append(append([]byte{}, h.IV...), explicit[:]...)
		aad := append(h.seqBytes(), typ, ver[0], ver[1], byte(len(data)>>8), byte(len(data)))
		body = append(append([]byte{}, explicit[:]...), g.Seal(nil, nonce, data, aad)...)
	} else {
		hdr := append(h.seqBytes(), typ, ver[0], ver[1], byte(len(data)>>8), byte(len(data)))
		pt := append(append([]byte{}, data...), HMACSM3(h.MACKey, append(hdr, data...))...)
		if padLen < 0 {
			padLen = 15 - len(pt)%16
		}
		for i := 0; i <= padLen; i++ {
			pt = append(pt, byte(padLen))
		}
		ct := make([]byte, len(pt))
		cipher.NewCBCEncrypter(blk, iv).CryptBlocks(ct, pt)
		body = append(append([]byte{}, iv...), ct...)
	}
	h.Seq++
	out := []byte{typ, ver[0], ver[1], byte(len(body) >> 8), byte(len(body))}
	return append(out, body...)
}

// ---- handshake message codecs ----

func HSMsg(typ byte, body []byte) []byte {
	return append([]byte{typ, byte(len(body) >> 16), byte(len(body) >> 8), byte(len(body))}, body...)
}

type ClientHello struct {
	Version      uint16
	Random       []byte
	SessionID    []byte
	Suites       []uint16
	Compression  []byte
	Extensions   []byte // raw extensions block (without its length), may be nil
	Ticket       []byte // parsed session ticket extension, if any
	HasTicketExt bool
}

func (c *ClientHello) Marshal() []byte {
	b := []byte{byte(c.Version >> 8), byte(c.Version)}
	b = append(b, c.Random...)
	b = append(b, byte(len(c.SessionID)))
	b = append(b, c.SessionID...)
	b = append(b, byte(len(c.Suites)*2>>8), byte(len(c.Suites)*2))
	for _, s := range c.Suites {
		b = append(b, byte(s>>8), byte(s))
	}
	b = append(b, byte(len(c.Compression)))
	b = append(b, c.Compression...)
	if c.Extensions != nil {
		b = append(b, byte(len(c.Extensions)>>8), byte(len(c.Extensions)))
		b = append(b, c.Extensions...)
	}
	return HSMsg(HSClientHello, b)
}

type cursor struct {
	b   []byte
	err bool
}

func (c *cursor) take(n int) []byte {
	if c.err || n < 0 || len(c.b) < n {
		c.err = true
		return nil
	}
	v := c.b[:n]
	c.b = c.b[n:]
	return v
}
func (c *cursor) u8() int {
	v := c.take(1)
	if v == nil {
		return 0
	}
	return int(v[0])
}
func (c *cursor) u16() int {
	v := c.take(2)
	if v == nil {
		return 0
	}
	return int(v[0])<<8 | int(v[1])
}
func (c *cursor) u24() int {
	v := c.take(3)
	if v == nil {
		return 0
	}
	return int(v[0])<<16 | int(v[1])<<8 | int(v[2])
}

func ParseClientHello(body []byte) (*ClientHello, error) {
	c := &cursor{b: body}
	h := &ClientHello{}
	h.Version = uint16(c.u16())
	h.Random = c.take(32)
	h.SessionID = c.take(c.u8())
	sl := c.take(c.u16())
	for i := 0; i+1 < len(sl); i += 2 {
		h.Suites = append(h.Suites, uint16(sl[i])<<8|uint16(sl[i+1]))
	}
	h.Compression = c.take(c.u8())
	if c.err {
		return nil, errors.New("tlcp: malformed ClientHello")
	}
	if len(c.b) > 0 {
		ext := c.take(c.u16())
		if c.err {
			return nil, errors.New("tlcp: malformed ClientHello extensions")
		}
		h.Extensions = ext
		e := &cursor{b: ext}
		for len(e.b) > 0 && !e.err {
			t := e.u16()
			d := e.take(e.u16())
			if t == 35 {
				h.HasTicketExt = true
				h.Ticket = d
			}
		}
	}
	return h, nil
}

type ServerHello struct {
	Version     uint16
	Random      []byte
	SessionID   []byte
	Suite       uint16
	Compression byte
	Extensions  []byte
	TicketExt   bool
}

func (s *ServerHello) Marshal() []byte {
	b := []byte{byte(s.Version >> 8), byte(s.Version)}
	b = append(b, s.Random...)
	b = append(b, byte(len(s.SessionID)))
	b = append(b, s.SessionID...)
	b = append(b, byte(s.Suite>>8), byte(s.Suite), s.Compression)
	if s.Extensions != nil {
		b = append(b, byte(len(s.Extensions)>>8), byte(len(s.Extensions)))
		b = append(b, s.Extensions...)
	}
	return HSMsg(HSServerHello, b)
}

func ParseServerHello(body []byte) (*ServerHello, error) {
	c := &cursor{b: body}
	s := &ServerHello{}
	s.Version = uint16(c.u16())
	s.Random = c.take(32)
	s.SessionID = c.take(c.u8())
	s.Suite = uint16(c.u16())
	s.Compression = byte(c.u8())
	if c.err {
		return nil, errors.New("tlcp: malformed ServerHello")
	}
	if len(c.b) > 0 {
		s.Extensions = c.take(c.u16())
		e := &cursor{b: s.Extensions}
		for len(e.b) > 0 && !e.err {
			t := e.u16()
			e.take(e.u16())
			if t == 35 {
				s.TicketExt = true
			}
		}
	}
	return s, nil
}

func MarshalCertificate(certs [][]byte) []byte {
	var l []byte
	for _, c := range certs {
		l = append(l, byte(len(c)>>16), byte(len(c)>>8), byte(len(c)))
		l = append(l, c...)
	}
	b := append([]byte{byte(len(l) >> 16), byte(len(l) >> 8), byte(len(l))}, l...)
	return HSMsg(HSCertificate, b)
}

func ParseCertificate(body []byte) ([][]byte, error) {
	c := &cursor{b: body}
	l := &cursor{b: c.take(c.u24())}
	var out [][]byte
	for len(l.b) > 0 && !l.err {
		out = append(out, l.take(l.u24()))
	}
	if c.err || l.err || len(c.b) != 0 {
		return nil, errors.New("tlcp: malformed Certificate")
	}
	return out, nil
}

// SKEParams returns the bytes the ECC-suite ServerKeyExchange signature covers:
// client_random ‖ server_random ‖ uint24(len) ‖ encryption certificate (DER).
func SKEParams(clientRandom, serverRandom, encCert []byte) []byte {
	b := append(append([]byte{}, clientRandom...), serverRandom...)
	b = append(b, byte(len(encCert)>>16), byte(len(encCert)>>8), byte(len(encCert)))
	return append(b, encCert...)
}

func MarshalSKE(sig []byte) []byte {
	return HSMsg(HSServerKeyExchange, append([]byte{byte(len(sig) >> 8), byte(len(sig))}, sig...))
}

func ParseSKE(body []byte) ([]byte, error) {
	c := &cursor{b: body}
	s := c.take(c.u16())
	if c.err || len(c.b) != 0 {
		return nil, errors.New("tlcp: malformed ServerKeyExchange")
	}
	return s, nil
}

func MarshalCKX(encPMS []byte) []byte {
	return HSMsg(HSClientKeyExchange, append([]byte{byte(len(encPMS) >> 8), byte(len(encPMS))}, encPMS...))
}

func ParseCKX(body []byte) ([]byte, error) {
	c := &cursor{b: body}
	s := c.take(c.u16())
	if c.err || len(c.b) != 0 {
		return nil, errors.New("tlcp: malformed ClientKeyExchange")
	}
	return s, nil
}

func MarshalCertVerify(sig []byte) []byte {
	return HSMsg(HSCertificateVerify, append([]byte{byte(len(sig) >> 8), byte(len(sig))}, sig...))
}

func MarshalCertRequest(types []byte, cas [][]byte) []byte {
	b := append([]byte{byte(len(types))}, types...)
	var l []byte
	for _, ca := range cas {
		l = append(l, byte(len(ca)>>8), byte(len(ca)))
		l = append(l, ca...)
	}
	b = append(b, byte(len(l)>>8), byte(len(l)))
	return HSMsg(HSCertificateRequest, append(b, l...))
}

// ---- DER helpers for the SM2 ciphertext and signature used inside TLCP messages ----

func derLen(n int) []byte {
	switch {
	case n < 0x80:
		return []byte{byte(n)}
	case n < 0x100:
		return []byte{0x81, byte(n)}
	default:
		return []byte{0x82, byte(n >> 8), byte(n)}
	}
}

func derTLV(tag byte, v []byte) []byte { return append(append([]byte{tag}, derLen(len(v))...), v...) }

func derInteger(v *big.Int) []byte {
	b := v.Bytes()
	if len(b) == 0 || b[0]&0x80 != 0 {
		b = append([]byte{0}, b...)
	}
	return derTLV(0x02, b)
}

// SM2SigDER encodes SEQUENCE{r,s}.
func SM2SigDER(r, s *big.Int) []byte { return derTLV(0x30, append(derInteger(r), derInteger(s)...)) }

// SM2CipherDER encodes the GM/T 0009 SM2Cipher structure SEQUENCE{x INTEGER, y INTEGER, hash OCTET STRING, cipher OCTET STRING}.
func SM2CipherDER(c *Ciphertext) []byte {
	b := append(derInteger(c.X1), derInteger(c.Y1)...)
	b = append(b, derTLV(0x04, c.C3)...)
	b = append(b, derTLV(0x04, c.C2)...)
	return derTLV(0x30, b)
}

func readTLV(b []byte) (tag byte, val, rest []byte, ok bool) {
	if len(b) < 2 {
		return 0, nil, nil, false
	}
	tag = b[0]
	n := int(b[1])
	off := 2
	if n >= 0x80 {
		k := n & 0x7f
		if k == 0 || k > 3 || len(b) < 2+k {
			return 0, nil, nil, false
		}
		n = 0
		for i := 0; i < k; i++ {
			n = n<<8 | int(b[2+i])
		}
		off = 2 + k
	}
	if len(b) < off+n {
		return 0, nil, nil, false
	}
	return tag, b[off : off+n], b[off+n:], true
}

// ParseSM2CipherDER decodes the SM2Cipher structure.
func ParseSM2CipherDER(b []byte) (*Ciphertext, error) {
	tag, seq, rest, ok := readTLV(b)
	if !ok || tag != 0x30 || len(rest) != 0 {
		return nil, errors.New("tlcp: SM2Cipher not a SEQUENCE")
	}
	c := &Ciphertext{}
	var v []byte
	if tag, v, seq, ok = readTLV(seq); !ok || tag != 0x02 {
		return nil, errors.New("tlcp: SM2Cipher x")
	}
	c.X1 = new(big.Int).SetBytes(v)
	if tag, v, seq, ok = readTLV(seq); !ok || tag != 0x02 {
		return nil, errors.New("tlcp: SM2Cipher y")
	}
	c.Y1 = new(big.Int).SetBytes(v)
	if tag, v, seq, ok = readTLV(seq); !ok || tag != 0x04 {
		return nil, errors.New("tlcp: SM2Cipher hash")
	}
	c.C3 = append([]byte{}, v...)
	if tag, v, seq, ok = readTLV(seq); !ok || tag != 0x04 || len(seq) != 0 {
		return nil, errors.New("tlcp: SM2Cipher cipher")
	}
	c.C2 = append([]byte{}, v...)
	return c, nil
}

// ParseSM2SigDER decodes SEQUENCE{r,s}.
func ParseSM2SigDER(b []byte) (r, s *big.Int, err error) {
	tag, seq, rest, ok := readTLV(b)
	if !ok || tag != 0x30 || len(rest) != 0 {
		return nil, nil, errors.New("tlcp: signature not a SEQUENCE")
	}
	var v []byte
	if tag, v, seq, ok = readTLV(seq); !ok || tag != 0x02 {
		return nil, nil, errors.New("tlcp: signature r")
	}
	r = new(big.Int).SetBytes(v)
	if tag, v, seq, ok = readTLV(seq); !ok || tag != 0x02 || len(seq) != 0 {
		return nil, nil, errors.New("tlcp: signature s")
	}
	s = new(big.Int).SetBytes(v)
	return r, s, nil
}

// CertSPKIPoint extracts the uncompressed EC point of the subject public key from a certificate
// (DER walk: tbs -> subjectPublicKeyInfo -> BIT STRING). Independent of any X.509 library.
func CertSPKIPoint(cert []byte) (x, y *big.Int, err error) {
	_, c, _, ok := readTLV(cert)
	if !ok {
		return nil, nil, errors.New("cert")
	}
	_, tbs, _, ok := readTLV(c)
	if !ok {
		return nil, nil, errors.New("tbs")
	}
	// fields: [0] version, serial, sigalg, issuer, validity, subject, spki
	rest := tbs
	var tag byte
	var v []byte
	idx := 0
	for len(rest) > 0 {
		tag, v, rest, ok = readTLV(rest)
		if !ok {
			return nil, nil, errors.New("tbs field")
		}
		if idx == 0 && tag == 0xa0 {
			continue // explicit version, does not count
		}
		idx++
		if idx == 6 { // spki
			_, _, r2, ok := readTLV(v) // algorithm
			if !ok {
				return nil, nil, errors.New("spki alg")
			}
			t, bits, _, ok := readTLV(r2)
			if !ok || t != 0x03 || len(bits) != 66 || bits[1] != 4 {
				return nil, nil, errors.New("spki point")
			}
			return new(big.Int).SetBytes(bits[2:34]), new(big.Int).SetBytes(bits[34:66]), nil
		}
	}
	return nil, nil, errors.New("spki not found")
}

var _ = bytes.Equal
