package ref

import (
	"crypto/cipher"
	"encoding/binary"
	"errors"
	"math/bits"
)

// ---- SM4 (GM/T 0002-2012) ----
//
// The S-box is computed from its algebraic definition instead of being transcribed:
//   S(x) = A·inv(A·x ⊕ c) ⊕ c   over GF(2^8) modulo x^8+x^7+x^6+x^5+x^4+x^2+1 (0x1F5),
// A the circulant bit matrix whose i-th row is 0xD3 rotated right by i (bits MSB first), c = 0xD3.
// FK is the constant of the standard, CK[i] bytes are (4i+j)*7 mod 256.

var sm4Sbox [256]byte
var sm4CK [32]uint32
var sm4FK = [4]uint32{0xa3b1bac6, 0x56aa3350, 0x677d9197, 0xb27022dc}

func gfMul(a, b byte) byte {
	var r uint16
	aa, bb := uint16(a), uint16(b)
	for i := 0; i < 8; i++ {
		if bb&1 != 0 {
			r ^= aa
		}
		bb >>= 1
		aa <<= 1
		if aa&0x100 != 0 {
			aa ^= 0x1F5
		}
	}
	return byte(r)
}

func gfInv(a byte) byte {
	if a == 0 {
		return 0
	}
	// a^254
	r := byte(1)
	for i := 0; i < 254; i++ {
		r = gfMul(r, a)
	}
	return r
}

func sm4Affine(x byte) byte {
	var y byte
	for i := 0; i < 8; i++ {
		row := bits.RotateLeft8(0xD3, -i)
		if bits.OnesCount8(row&x)&1 == 1 {
			y |= 1 << (7 - uint(i))
		}
	}
	return y ^ 0xD3
}

func init() {
	for x := 0; x < 256; x++ {
		sm4Sbox[x] = sm4Affine(gfInv(sm4Affine(byte(x))))
	}
	for i := 0; i < 32; i++ {
		var b [4]byte
		for j := 0; j < 4; j++ {
			b[j] = byte((4*i + j) * 7)
		}
		sm4CK[i] = binary.BigEndian.Uint32(b[:])
	}
}

// SM4SboxTable exposes the computed S-box (for coverage accounting by monitors).
func SM4SboxTable() [256]byte { return sm4Sbox }

func sm4Tau(a uint32) uint32 {
	return uint32(sm4Sbox[a>>24])<<24 | uint32(sm4Sbox[a>>16&0xff])<<16 | uint32(sm4Sbox[a>>8&0xff])<<8 | uint32(sm4Sbox[a&0xff])
}
func sm4L(b uint32) uint32 {
	return b ^ bits.RotateLeft32(b, 2) ^ bits.RotateLeft32(b, 10) ^ bits.RotateLeft32(b, 18) ^ bits.RotateLeft32(b, 24)
}
func sm4Lp(b uint32) uint32 { return b ^ bits.RotateLeft32(b, 13) ^ bits.RotateLeft32(b, 23) }

// SM4Trace, when non-nil, receives every S-box input seen: kind 0 = data path, 1 = key schedule;
// lane 0..3 is the byte position in the word (0 = most significant).
type SM4Trace func(kind, lane int, in byte)

func sm4TauTraced(a uint32, kind int, tr SM4Trace) uint32 {
	if tr != nil {
		tr(kind, 0, byte(a>>24))
		tr(kind, 1, byte(a>>16))
		tr(kind, 2, byte(a>>8))
		tr(kind, 3, byte(a))
	}
	return sm4Tau(a)
}

// SM4ExpandKey returns the 32 round keys.
func SM4ExpandKey(key []byte, tr SM4Trace) [32]uint32 {
	var k [36]uint32
	for i := 0; i < 4; i++ {
		k[i] = binary.BigEndian.Uint32(key[4*i:]) ^ sm4FK[i]
	}
	var rk [32]uint32
	for i := 0; i < 32; i++ {
		k[i+4] = k[i] ^ sm4Lp(sm4TauTraced(k[i+1]^k[i+2]^k[i+3]^sm4CK[i], 1, tr))
		rk[i] = k[i+4]
	}
	return rk
}

func sm4Crypt(rk *[32]uint32, dst, src []byte, dec bool, tr SM4Trace) {
	var x [36]uint32
	for i := 0; i < 4; i++ {
		x[i] = binary.BigEndian.Uint32(src[4*i:])
	}
	for i := 0; i < 32; i++ {
		k := rk[i]
		if dec {
			k = rk[31-i]
		}
		x[i+4] = x[i] ^ sm4L(sm4TauTraced(x[i+1]^x[i+2]^x[i+3]^k, 0, tr))
	}
	for i := 0; i < 4; i++ {
		binary.BigEndian.PutUint32(dst[4*i:], x[35-i])
	}
}

// SM4EncryptBlock / SM4DecryptBlock are stateless block functions.
func SM4EncryptBlock(key, src []byte, tr SM4Trace) []byte {
	rk := SM4ExpandKey(key, tr)
	out := make([]byte, 16)
	sm4Crypt(&rk, out, src, false, tr)
	return out
}
func SM4DecryptBlock(key, src []byte, tr SM4Trace) []byte {
	rk := SM4ExpandKey(key, tr)
	out := make([]byte, 16)
	sm4Crypt(&rk, out, src, true, tr)
	return out
}

type sm4Block struct{ rk [32]uint32 }

// NewSM4 returns a reference cipher.Block.
func NewSM4(key []byte) (cipher.Block, error) {
	if len(key) != 16 {
		return nil, errors.New("ref: SM4 key must be 16 bytes")
	}
	return &sm4Block{rk: SM4ExpandKey(key, nil)}, nil
}
func (b *sm4Block) BlockSize() int { return 16 }
func (b *sm4Block) Encrypt(dst, src []byte) {
	var in [16]byte
	copy(in[:], src[:16])
	sm4Crypt(&b.rk, dst[:16], in[:], false, nil)
}
func (b *sm4Block) Decrypt(dst, src []byte) {
	var in [16]byte
	copy(in[:], src[:16])
	sm4Crypt(&b.rk, dst[:16], in[:], true, nil)
}

// PKCS7Pad returns src ‖ pad (always 1..bs bytes of padding) in a fresh slice.
func PKCS7Pad(src []byte, bs int) []byte {
	n := bs - len(src)%bs
	out := make([]byte, 0, len(src)+n)
	out = append(out, src...)
	for i := 0; i < n; i++ {
		out = append(out, byte(n))
	}
	return out
}

// PKCS7Unpad validates and strips a PKCS#7 pad.
func PKCS7Unpad(src []byte, bs int) ([]byte, bool) {
	if len(src) == 0 || len(src)%bs != 0 {
		return nil, false
	}
	n := int(src[len(src)-1])
	if n == 0 || n > bs || n > len(src) {
		return nil, false
	}
	for _, b := range src[len(src)-n:] {
		if int(b) != n {
			return nil, false
		}
	}
	return src[:len(src)-n], true
}

// SM4ECB encrypts/decrypts whole blocks in ECB mode with the reference cipher.
func SM4ECB(key, in []byte, dec bool) []byte {
	b, _ := NewSM4(key)
	out := make([]byte, len(in))
	for i := 0; i+16 <= len(in); i += 16 {
		if dec {
			b.Decrypt(out[i:], in[i:])
		} else {
			b.Encrypt(out[i:], in[i:])
		}
	}
	return out
}

func SM4CBC(key, iv, in []byte, dec bool) []byte {
	b, _ := NewSM4(key)
	out := make([]byte, len(in))
	if dec {
		cipher.NewCBCDecrypter(b, iv).CryptBlocks(out, in)
	} else {
		cipher.NewCBCEncrypter(b, iv).CryptBlocks(out, in)
	}
	return out
}

func SM4CFB(key, iv, in []byte, dec bool) []byte {
	b, _ := NewSM4(key)
	out := make([]byte, len(in))
	if dec {
		cipher.NewCFBDecrypter(b, iv).XORKeyStream(out, in)
	} else {
		cipher.NewCFBEncrypter(b, iv).XORKeyStream(out, in)
	}
	return out
}

func SM4OFB(key, iv, in []byte) []byte {
	b, _ := NewSM4(key)
	out := make([]byte, len(in))
	cipher.NewOFB(b, iv).XORKeyStream(out, in)
	return out
}

// SM4GCMSeal computes standard GCM (SP 800-38D) over the reference SM4; returns ciphertext and tag.
func SM4GCMSeal(key, iv, plaintext, aad []byte) (ct, tag []byte, err error) {
	b, _ := NewSM4(key)
	var g cipher.AEAD
	if len(iv) == 12 {
		g, err = cipher.NewGCM(b)
	} else {
		g, err = cipher.NewGCMWithNonceSize(b, len(iv))
	}
	if err != nil {
		return nil, nil, err
	}
	out := g.Seal(nil, iv, plaintext, aad)
	return out[:len(plaintext)], out[len(plaintext):], nil
}

// ---- GF(2^128) helpers (GCM bit order), used only to construct IVs with a chosen pre-counter block ----

func gf128Mul(x, y [16]byte) [16]byte {
	var z [16]byte
	v := x
	for i := 0; i < 128; i++ {
		if y[i/8]&(0x80>>uint(i%8)) != 0 {
			for j := range z {
				z[j] ^= v[j]
			}
		}
		lsb := v[15] & 1
		for j := 15; j > 0; j-- {
			v[j] = v[j]>>1 | v[j-1]<<7
		}
		v[0] >>= 1
		if lsb != 0 {
			v[0] ^= 0xe1
		}
	}
	return z
}

func gf128Inv(a [16]byte) [16]byte {
	// a^(2^128-2) = prod_{i=1..127} a^(2^i)
	var r [16]byte
	r[0] = 0x80 // the element 1
	s := a
	for i := 1; i < 128; i++ {
		s = gf128Mul(s, s)
		r = gf128Mul(r, s)
	}
	return r
}

// GCMIV16ForJ0 returns the 16-byte IV for which GCM's pre-counter block J0 (SP 800-38D §7.1, the
// non-96-bit path: J0 = GHASH_H(IV ‖ 0^64 ‖ [128]_64)) equals j0 under the given key.
func GCMIV16ForJ0(key []byte, j0 [16]byte) []byte {
	var h [16]byte
	copy(h[:], SM4EncryptBlock(key, make([]byte, 16), nil))
	hinv := gf128Inv(h)
	var l [16]byte
	l[15] = 128 // len(IV) in bits, 64-bit big endian in the low half
	t := gf128Mul(j0, hinv)
	for i := range t {
		t[i] ^= l[i]
	}
	iv := gf128Mul(t, hinv)
	return iv[:]
}
