package ref

// A scriptable TLS 1.2 client written against RFC 5246 only (RSA key exchange, TLS_RSA_WITH_AES_128_CBC_SHA, the
// draft-agl-tls-nextprotoneg extension): the counterpart of Peer for the non-GM branch of the server. It shares no code with
// the library under test; the standard library supplies SHA-1/SHA-256, HMAC, AES and RSA encryption.

import (
	"bytes"
	"crypto/aes"
	"crypto/cipher"
	"crypto/hmac"
	"crypto/rsa"
	"crypto/sha1"
	"crypto/sha256"
	"crypto/x509"
	"errors"
	"fmt"
	"io"
)

// steps of the TLS 1.2 client script
const (
	T12ClientHello       = "t12-client-hello"
	T12ClientKeyExchange = "t12-client-key-exchange"
	T12CCS               = "t12-client-ccs"
	T12NextProtocol      = "t12-next-protocol"
	T12Finished          = "t12-client-finished"
)

const (
	hsNextProtocol     = 67
	extNextProtoNeg    = 13172
	extALPN            = 16
	suiteRSAAES128SHA  = 0x002f
	hsNewSessionTicket = 4
)

type TLS12Client struct {
	Conn io.ReadWriter
	Rand func(n int) []byte
	// OfferNPN puts the next_protocol_negotiation extension in the ClientHello; Proto is what NextProtocol will select.
	OfferNPN bool
	Proto    string
	// Mutate replaces what is sent at a step (nil = honest). Handshake items enter the transcript as sent.
	Mutate func(step string, def []Item) []Item

	// results
	ServerNPN    bool // the ServerHello carried the NPN extension
	ServerProtos []string
	Master       []byte
	Completed    bool

	clientRandom, serverRandom []byte
	transcript                 []byte
	out, in                    *t12Half
	rbuf                       []byte
	hbuf                       []byte
}

type t12Half struct {
	key, mac []byte
	seq      uint64
}

func tls12PRF(secret []byte, label string, seed []byte, n int) []byte {
	ls := append([]byte(label), seed...)
	var out []byte
	a := ls
	for len(out) < n {
		h := hmac.New(sha256.New, secret)
		h.Write(a)
		a = h.Sum(nil)
		h = hmac.New(sha256.New, secret)
		h.Write(a)
		h.Write(ls)
		out = append(out, h.Sum(nil)...)
	}
	return out[:n]
}

func (h *t12Half) macOf(typ byte, payload []byte) []byte {
	m := hmac.New(sha1.New, h.mac)
	var hdr [13]byte
	for i := 0; i < 8; i++ {
		hdr[i] = byte(h.seq >> (56 - 8*uint(i)))
	}
	hdr[8], hdr[9], hdr[10], hdr[11], hdr[12] = typ, 3, 3, byte(len(payload)>>8), byte(len(payload))
	m.Write(hdr[:])
	m.Write(payload)
	return m.Sum(nil)
}

func (p *TLS12Client) writeRecord(typ byte, data []byte) error {
	body := data
	if p.out != nil {
		pt := append(append([]byte{}, data...), p.out.macOf(typ, data)...)
		pad := 16 - len(pt)%16
		for i := 0; i < pad; i++ {
			pt = append(pt, byte(pad-1))
		}
		iv := p.Rand(16)
		blk, _ := aes.NewCipher(p.out.key)
		ct := make([]byte, len(pt))
		cipher.NewCBCEncrypter(blk, iv).CryptBlocks(ct, pt)
		body = append(append([]byte{}, iv...), ct...)
		p.out.seq++
	}
	rec := append([]byte{typ, 3, 3, byte(len(body) >> 8), byte(len(body))}, body...)
	_, err := p.Conn.Write(rec)
	return err
}

func (p *TLS12Client) readRecord() (byte, []byte, error) {
	hdr := make([]byte, 5)
	if _, err := io.ReadFull(p.Conn, hdr); err != nil {
		return 0, nil, err
	}
	n := int(hdr[3])<<8 | int(hdr[4])
	if n > 16384+2048 {
		return 0, nil, errors.New("tls12 client: oversized record")
	}
	body := make([]byte, n)
	if _, err := io.ReadFull(p.Conn, body); err != nil {
		return 0, nil, err
	}
	if p.in != nil {
		if len(body) < 32 || len(body)%16 != 0 {
			return 0, nil, errors.New("tls12 client: bad ciphertext length")
		}
		blk, _ := aes.NewCipher(p.in.key)
		pt := make([]byte, len(body)-16)
		cipher.NewCBCDecrypter(blk, body[:16]).CryptBlocks(pt, body[16:])
		pad := int(pt[len(pt)-1]) + 1
		if pad > len(pt)-20 {
			return 0, nil, errors.New("tls12 client: bad padding")
		}
		pt = pt[:len(pt)-pad]
		data, mac := pt[:len(pt)-20], pt[len(pt)-20:]
		if !hmac.Equal(mac, p.in.macOf(hdr[0], data)) {
			return 0, nil, errors.New("tls12 client: bad record MAC")
		}
		p.in.seq++
		body = data
	}
	return hdr[0], body, nil
}

// recvHandshake returns the next handshake message (header included); typ 0xff stands for a ChangeCipherSpec record.
func (p *TLS12Client) recvHandshake() (byte, []byte, error) {
	for {
		if len(p.hbuf) >= 4 {
			n := int(p.hbuf[1])<<16 | int(p.hbuf[2])<<8 | int(p.hbuf[3])
			if len(p.hbuf) >= 4+n {
				msg := append([]byte{}, p.hbuf[:4+n]...)
				p.hbuf = p.hbuf[4+n:]
				return msg[0], msg, nil
			}
		}
		typ, body, err := p.readRecord()
		if err != nil {
			return 0, nil, err
		}
		switch typ {
		case RecHandshake:
			p.hbuf = append(p.hbuf, body...)
		case RecCCS:
			return 0xff, body, nil
		case RecAlert:
			return 0, nil, fmt.Errorf("tls12 client: alert %v", body)
		default:
			return 0, nil, fmt.Errorf("tls12 client: unexpected record type %d", typ)
		}
	}
}

func (p *TLS12Client) send(step string, def []Item) error {
	items := def
	if p.Mutate != nil {
		items = p.Mutate(step, def)
	}
	for _, it := range items {
		if it.RawRecord != nil {
			if _, err := p.Conn.Write(it.RawRecord); err != nil {
				return err
			}
			continue
		}
		if it.RecType == RecHandshake {
			p.transcript = append(p.transcript, it.Data...)
		}
		if err := p.writeRecord(it.RecType, it.Data); err != nil {
			return err
		}
		if it.RecType == RecCCS {
			p.activateOut()
		}
	}
	return nil
}

func (p *TLS12Client) keys() (cm, sm, ck, sk []byte) {
	kb := tls12PRF(p.Master, "key expansion", append(append([]byte{}, p.serverRandom...), p.clientRandom...), 2*20+2*16)
	return kb[0:20], kb[20:40], kb[40:56], kb[56:72]
}

func (p *TLS12Client) activateOut() {
	if p.Master == nil || p.out != nil {
		return
	}
	cm, _, ck, _ := p.keys()
	p.out = &t12Half{key: ck, mac: cm}
}

// Transcript returns the handshake messages sent and received so far.
func (p *TLS12Client) Transcript() []byte { return append([]byte{}, p.transcript...) }

// FinishedData computes the verify_data of a Finished message over the transcript so far.
func (p *TLS12Client) FinishedData(client bool) []byte {
	label := "server finished"
	if client {
		label = "client finished"
	}
	h := sha256.Sum256(p.transcript)
	return tls12PRF(p.Master, label, h[:], 12)
}

// NextProtocolMsg builds a NextProtocol handshake message selecting proto.
func NextProtocolMsg(proto string) []byte {
	pad := 32 - (len(proto)+2)%32
	b := append([]byte{byte(len(proto))}, proto...)
	b = append(b, byte(pad))
	b = append(b, make([]byte, pad)...)
	return HSMsg(hsNextProtocol, b)
}

func (p *TLS12Client) Run() error {
	p.clientRandom = p.Rand(32)
	var ext []byte
	if p.OfferNPN {
		ext = append(ext, byte(extNextProtoNeg>>8), byte(extNextProtoNeg&0xff), 0, 0)
	}
	ch := []byte{3, 3}
	ch = append(ch, p.clientRandom...)
	ch = append(ch, 0)                                                              // session id
	ch = append(ch, 0, 2, byte(suiteRSAAES128SHA>>8), byte(suiteRSAAES128SHA&0xff)) // suites
	ch = append(ch, 1, 0)                                                           // compression
	ch = append(append(ch, byte(len(ext)>>8), byte(len(ext))), ext...)              // extensions (possibly empty)
	if err := p.send(T12ClientHello, []Item{{RecType: RecHandshake, Data: HSMsg(HSClientHello, ch)}}); err != nil {
		return err
	}
	// ServerHello
	t, msg, err := p.recvHandshake()
	if err != nil {
		return err
	}
	if t != HSServerHello {
		return fmt.Errorf("tls12 client: expected ServerHello, got %d", t)
	}
	p.transcript = append(p.transcript, msg...)
	c := &cursor{b: msg[4:]}
	vers := c.u16()
	p.serverRandom = append([]byte{}, c.take(32)...)
	c.take(int(c.u8()))
	suite := c.u16()
	c.u8()
	if c.err || vers != 0x0303 || suite != suiteRSAAES128SHA {
		return fmt.Errorf("tls12 client: ServerHello version %04x suite %04x", vers, suite)
	}
	if len(c.b) > 0 {
		ex := &cursor{b: c.take(c.u16())}
		for len(ex.b) > 0 && !ex.err {
			et := ex.u16()
			ed := ex.take(ex.u16())
			if et == extNextProtoNeg {
				p.ServerNPN = true
				pc := &cursor{b: ed}
				for len(pc.b) > 0 && !pc.err {
					p.ServerProtos = append(p.ServerProtos, string(pc.take(int(pc.u8()))))
				}
			}
		}
	}
	// Certificate
	if t, msg, err = p.recvHandshake(); err != nil {
		return err
	}
	if t != HSCertificate {
		return fmt.Errorf("tls12 client: expected Certificate, got %d", t)
	}
	p.transcript = append(p.transcript, msg...)
	certs, err := ParseCertificate(msg[4:])
	if err != nil || len(certs) == 0 {
		return errors.New("tls12 client: no certificate")
	}
	leaf, err := x509.ParseCertificate(certs[0])
	if err != nil {
		return err
	}
	pub, ok := leaf.PublicKey.(*rsa.PublicKey)
	if !ok {
		return errors.New("tls12 client: server key is not RSA")
	}
	// [CertificateRequest] ServerHelloDone
	for {
		if t, msg, err = p.recvHandshake(); err != nil {
			return err
		}
		p.transcript = append(p.transcript, msg...)
		if t == HSServerHelloDone {
			break
		}
		if t != HSCertificateRequest {
			return fmt.Errorf("tls12 client: unexpected message %d before ServerHelloDone", t)
		}
	}
	pre := append([]byte{3, 3}, p.Rand(46)...)
	enc, err := rsa.EncryptPKCS1v15(byteReader{p.Rand}, pub, pre)
	if err != nil {
		return err
	}
	p.Master = tls12PRF(pre, "master secret", append(append([]byte{}, p.clientRandom...), p.serverRandom...), 48)
	ckx := append([]byte{byte(len(enc) >> 8), byte(len(enc))}, enc...)
	if err := p.send(T12ClientKeyExchange, []Item{{RecType: RecHandshake, Data: HSMsg(HSClientKeyExchange, ckx)}}); err != nil {
		return err
	}
	if err := p.send(T12CCS, []Item{{RecType: RecCCS, Data: []byte{1}}}); err != nil {
		return err
	}
	var np []Item
	if p.ServerNPN {
		np = []Item{{RecType: RecHandshake, Data: NextProtocolMsg(p.Proto)}}
	}
	if err := p.send(T12NextProtocol, np); err != nil {
		return err
	}
	// the Finished value is computed when the step is reached, over what was really sent
	if err := p.send(T12Finished, []Item{{RecType: RecHandshake, Data: HSMsg(HSFinished, p.FinishedData(true))}}); err != nil {
		return err
	}
	// server: [NewSessionTicket] CCS Finished
	for {
		if t, msg, err = p.recvHandshake(); err != nil {
			return err
		}
		if t == 0xff {
			break
		}
		if t != hsNewSessionTicket {
			return fmt.Errorf("tls12 client: unexpected message %d before the server's ChangeCipherSpec", t)
		}
		p.transcript = append(p.transcript, msg...)
	}
	_, sm, _, sk := p.keys()
	p.in = &t12Half{key: sk, mac: sm}
	want := p.FinishedData(false)
	if t, msg, err = p.recvHandshake(); err != nil {
		return err
	}
	if t != HSFinished || !bytes.Equal(msg[4:], want) {
		return errors.New("tls12 client: server Finished wrong")
	}
	p.Completed = true
	return nil
}

// WriteApp sends application data under the current write state.
func (p *TLS12Client) WriteApp(data []byte) error { return p.writeRecord(RecAppData, data) }

// ReadApp returns the next application-data record.
func (p *TLS12Client) ReadApp() ([]byte, error) {
	typ, body, err := p.readRecord()
	if err != nil {
		return nil, err
	}
	if typ != RecAppData {
		return nil, fmt.Errorf("tls12 client: record type %d", typ)
	}
	return body, nil
}

type byteReader struct{ f func(int) []byte }

func (b byteReader) Read(p []byte) (int, error) { copy(p, b.f(len(p))); return len(p), nil }
