package ref

import "testing"

func TestSelf(t *testing.T) {
	p, err := SelfTest()
	for _, s := range p {
		t.Log("ok", s)
	}
	if err != nil {
		t.Fatal(err)
	}
}

func TestSM4Million(t *testing.T) {
	if testing.Short() {
		t.Skip()
	}
	key := unhex("0123456789abcdeffedcba9876543210")
	b, _ := NewSM4(key)
	x := append([]byte{}, key...)
	for i := 0; i < 1000000; i++ {
		b.Encrypt(x, x)
	}
	if g := hx2(x); g != "595298c7c6fd271f0402f804c33d3f66" {
		t.Fatal(g)
	}
}
func hx2(b []byte) string { const h = "0123456789abcdef"; o := make([]byte, 0, 2*len(b)); for _, v := range b { o = append(o, h[v>>4], h[v&15]) }; return string(o) }
