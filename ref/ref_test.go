package ref

import (
	"bytes"
	"io"
	"math/big"
	"testing"
)

func TestSelf(t *testing.T) {
	p, err := SelfTest()
	for _, s := range p {
		t.Log("ok", s)
	}
	if err != nil {
		t.Fatal(err)
	}
}

func TestSM4Million(t *testing.T) {
	if testing.Short() {
		t.Skip()
	}
	key := unhex("0123456789abcdeffedcba9876543210")
	b, _ := NewSM4(key)
	x := append([]byte{}, key...)
	for i := 0; i < 1000000; i++ {
		b.Encrypt(x, x)
	}
	if g := hx2(x); g != "595298c7c6fd271f0402f804c33d3f66" {
		t.Fatal(g)
	}
}
func hx2(b []byte) string {
	const h = "0123456789abcdef"
	o := make([]byte, 0, 2*len(b))
	for _, v := range b {
		o = append(o, h[v>>4], h[v&15])
	}
	return string(o)
}

type pipeEnd struct {
	r *io.PipeReader
	w *io.PipeWriter
}

func (p pipeEnd) Read(b []byte) (int, error)  { return p.r.Read(b) }
func (p pipeEnd) Write(b []byte) (int, error) { return p.w.Write(b) }

func TestPeerSelfConsistency(t *testing.T) {
	for _, suite := range []uint16{SuiteECCSM4CBC, SuiteECCSM4GCM} {
		for _, auth := range []bool{false, true} {
			ar, bw := io.Pipe()
			br, aw := io.Pipe()
			seed := byte(1)
			rnd := func(n int) []byte {
				b := make([]byte, n)
				for i := range b {
					seed = seed*77 + 13
					b[i] = seed
				}
				return b
			}
			sk, ek, ck := big.NewInt(12345), big.NewInt(67890), big.NewInt(424242)
			// minimal "certificates": the peer only walks the DER to the SPKI, so build a skeleton
			mkCert := func(d *big.Int) []byte {
				q := MulG(d)
				pt := append([]byte{0, 4}, append(Pad32(q.X), Pad32(q.Y)...)...)
				spki := derTLV(0x30, append(derTLV(0x30, []byte{6, 1, 1}), derTLV(0x03, pt)...))
				f := derTLV(0x02, []byte{1})
				tbs := derTLV(0x30, bytes.Join([][]byte{derTLV(0xa0, derTLV(0x02, []byte{2})), f, derTLV(0x30, nil), derTLV(0x30, nil), derTLV(0x30, nil), derTLV(0x30, nil), spki}, nil))
				return derTLV(0x30, tbs)
			}
			cl := &Peer{Conn: pipeEnd{ar, aw}, Rand: rnd, Suites: []uint16{suite}}
			sv := &Peer{Conn: pipeEnd{br, bw}, Rand: rnd, Suites: []uint16{suite}, SignKey: sk, EncKey: ek, SignCert: mkCert(sk), EncCert: mkCert(ek), RequestClientCert: auth}
			if auth {
				cl.ClientSignKey, cl.ClientCerts = ck, [][]byte{mkCert(ck)}
			}
			errc := make(chan error, 1)
			go func() { errc <- sv.RunServer() }()
			if err := cl.RunClient(); err != nil {
				t.Fatalf("suite %x auth %v client: %v", suite, auth, err)
			}
			if err := <-errc; err != nil {
				t.Fatalf("suite %x auth %v server: %v", suite, auth, err)
			}
			if !bytes.Equal(cl.Master, sv.Master) || !cl.Completed || !sv.Completed {
				t.Fatal("masters differ")
			}
			go cl.WriteApp([]byte("hello"))
			if d, err := sv.ReadApp(); err != nil || string(d) != "hello" {
				t.Fatal("app data", err)
			}
		}
	}
}
