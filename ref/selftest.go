package ref

import (
	"bytes"
	"crypto/hmac"
	"encoding/hex"
	"fmt"
	"math/big"
	"strings"
)

func unhex(s string) []byte {
	b, err := hex.DecodeString(strings.ReplaceAll(s, " ", ""))
	if err != nil {
		panic(err)
	}
	return b
}

func hx(s string) *big.Int { return new(big.Int).SetBytes(unhex(s)) }

// SelfTest validates the reference models against published vectors, independent of gmsm.
// It returns the list of checks passed and an error on the first failure.
func SelfTest() (passed []string, err error) {
	fail := func(name string, got, want interface{}) error {
		return fmt.Errorf("ref self-test %s: got %v want %v", name, got, want)
	}
	// SM3 (GM/T 0004 Annex A)
	if g := hex.EncodeToString(SM3([]byte("abc"))); g != "66c7f0f462eeedd9d1f2d46bdc10e4e24167c4875cf2f7a2297da02b8f4ba8e0" {
		return passed, fail("sm3-abc", g, "66c7f0f4…")
	}
	passed = append(passed, "sm3:abc")
	if g := hex.EncodeToString(SM3(bytes.Repeat([]byte("abcd"), 16))); g != "debe9ff92275b8a138604889c18e5a4d6fdb70e5387e5765293dcba39c0c5732" {
		return passed, fail("sm3-abcd16", g, "debe9ff9…")
	}
	passed = append(passed, "sm3:abcd*16")
	{ // streaming form == one-shot form
		st := NewSM3Stream()
		var all []byte
		for i := 0; i < 40; i++ {
			chunk := bytes.Repeat([]byte{byte(i*7 + 1)}, (i*37)%131)
			st.Write(chunk)
			all = append(all, chunk...)
			if !bytes.Equal(st.Sum(nil), SM3(all)) {
				return passed, fail("sm3-stream", i, "equal to one-shot")
			}
		}
		passed = append(passed, "sm3:stream==oneshot")
	}
	// SM4 (GM/T 0002 Annex A)
	key := unhex("0123456789abcdeffedcba9876543210")
	ct := SM4EncryptBlock(key, key, nil)
	if g := hex.EncodeToString(ct); g != "681edf34d206965e86b3e94f536e4246" {
		return passed, fail("sm4-vec1", g, "681edf34…")
	}
	if g := SM4DecryptBlock(key, ct, nil); !bytes.Equal(g, key) {
		return passed, fail("sm4-vec1-dec", hex.EncodeToString(g), "key")
	}
	passed = append(passed, "sm4:vector1")
	// SM4 S-box is a permutation with the standard's first row
	sb := SM4SboxTable()
	var seen [256]bool
	for _, v := range sb {
		seen[v] = true
	}
	for _, s := range seen {
		if !s {
			return passed, fail("sm4-sbox-perm", "not a permutation", "permutation")
		}
	}
	if g := hex.EncodeToString(sb[:16]); g != "d690e9fecce13db716b614c228fb2c05" {
		return passed, fail("sm4-sbox-row0", g, "d690e9fe…")
	}
	passed = append(passed, "sm4:sbox-computed-row0+perm")
	// SM4-GCM (RFC 8998 A.1)
	{
		k := unhex("0123456789ABCDEFFEDCBA9876543210")
		iv := unhex("00001234567800000000ABCD")
		aad := unhex("FEEDFACEDEADBEEFFEEDFACEDEADBEEFABADDAD2")
		p := unhex("AAAAAAAAAAAAAAAABBBBBBBBBBBBBBBBCCCCCCCCCCCCCCCCDDDDDDDDDDDDDDDDEEEEEEEEEEEEEEEEFFFFFFFFFFFFFFFFEEEEEEEEEEEEEEEEAAAAAAAAAAAAAAAA")
		c, tag, e := SM4GCMSeal(k, iv, p, aad)
		if e != nil {
			return passed, e
		}
		if g := strings.ToUpper(hex.EncodeToString(tag)); g != "83DE3541E4C2B58177E065A9BF7B62EC" {
			return passed, fail("sm4-gcm-tag", g, "83DE3541…")
		}
		if g := strings.ToUpper(hex.EncodeToString(c[:16])); g != "17F399F08C67D5EE19D0DC9969C4BB7D" {
			return passed, fail("sm4-gcm-ct", g, "17F399F0…")
		}
		passed = append(passed, "sm4-gcm:rfc8998-A.1")
	}
	// SM2 parameters
	if !P.ProbablyPrime(32) || !N.ProbablyPrime(32) {
		return passed, fail("sm2-primes", "composite", "prime")
	}
	if !OnCurve(Gx, Gy) {
		return passed, fail("sm2-G-on-curve", false, true)
	}
	if !MulG(N).Inf {
		return passed, fail("sm2-[n]G", "finite", "infinity")
	}
	if q := MulG(new(big.Int).Sub(N, big.NewInt(1))); !q.Equal(Neg(G())) {
		return passed, fail("sm2-[n-1]G", "≠ -G", "-G")
	}
	passed = append(passed, "sm2:params(p,n prime; G on curve; [n]G=O; [n-1]G=-G)")
	// GM/T 0003.5 signature example
	{
		d := hx("3945208F7B2144B13F36E38AC6D39F9588939369 2860B51A42FB81EF4DF7C5B8")
		xa := hx("09F9DF311E5421A150DD7D161E4BC5C672179FAD1833FC076BB08FF356F35020")
		ya := hx("CCEA490CE26775A52DC6EA718CC1AA600AED05FBF35E084A6632F6072DA9AD13")
		pa := MulG(d)
		if pa.X.Cmp(xa) != 0 || pa.Y.Cmp(ya) != 0 {
			return passed, fail("sm2-sign-pub", pa.X.Text(16), xa.Text(16))
		}
		za := ZA(xa, ya, DefaultUID)
		if g := strings.ToUpper(hex.EncodeToString(za)); g != "B2E14C5C79C6DF5B85F4FE7ED8DB7A262B9DA7E07CCB0EA9F4747B8CCDA8A4F3" {
			return passed, fail("sm2-ZA", g, "B2E14C5C…")
		}
		k := hx("59276E27D506861A16680F3AD9C02DCCEF3CC1FA3CDBE4CE6D54B80DEAC1BC21")
		r, s, ok := SignWithK(d, k, xa, ya, DefaultUID, []byte("message digest"))
		wr := hx("F5A03B0648D2C4630EEAC513E1BB81A15944DA3827D5B74143AC7EACEEE720B3")
		ws := hx("B1B6AA29DF212FD8763182BC0D421CA1BB9038FD1F7F42D4840B69C485BBC1AA")
		if !ok || r.Cmp(wr) != 0 || s.Cmp(ws) != 0 {
			return passed, fail("sm2-sign", fmt.Sprintf("%x,%x", r, s), "F5A03B06…,B1B6AA29…")
		}
		if !Verify(xa, ya, DefaultUID, []byte("message digest"), r, s) {
			return passed, fail("sm2-verify", false, true)
		}
		if RecoverK(d, r, s).Cmp(k) != 0 {
			return passed, fail("sm2-recoverk", "≠k", "k")
		}
		passed = append(passed, "sm2:GM/T0003.5-sign-example")
		// encryption example, same key
		c, ok := EncryptWithK(xa, ya, k, []byte("encryption standard"))
		if !ok {
			return passed, fail("sm2-enc", "rejected", "ok")
		}
		if g := strings.ToUpper(hex.EncodeToString(c.C3)); g != "59983C18F809E262923C53AEC295D30383B54E39D609D160AFCB1908D0BD8766" {
			return passed, fail("sm2-enc-C3", g, "59983C18…")
		}
		if g := strings.ToUpper(hex.EncodeToString(c.C2)); g != "21886CA989CA9C7D58087307CA93092D651EFA" {
			return passed, fail("sm2-enc-C2", g, "21886CA9…")
		}
		m, e := Decrypt(d, c)
		if e != nil || string(m) != "encryption standard" {
			return passed, fail("sm2-dec", e, "plaintext")
		}
		passed = append(passed, "sm2:GM/T0003.5-encrypt-example")
	}
	// GM/T 0003.5 key exchange example
	{
		dA := hx("81EB26E941BB5AF16DF116495F90695272AE2CD63D6C4AE1678418BE48230029")
		dB := hx("785129917D45A9EA5437A59356B82338EAADDA6CEB199088F14AE10DEFA229B5")
		rA := hx("D4DE15474DB74D06491C440D305E012400990F3E390C7E87153C12DB2EA60BB3")
		rB := hx("7E07124814B309489125EAED101113164EBF0F3458C5BD88335C1F9D596243D6")
		pA, pB, RA, RB := MulG(dA), MulG(dB), MulG(rA), MulG(rB)
		if pA.X.Cmp(hx("160E12897DF4EDB61DD812FEB96748FBD3CCF4FFE26AA6F6DB9540AF49C94232")) != 0 {
			return passed, fail("kx-pA", pA.X.Text(16), "160E1289…")
		}
		a, e1 := KeyExchange(16, DefaultUID, DefaultUID, dA, pA, rA, RA, pB, RB, true)
		b, e2 := KeyExchange(16, DefaultUID, DefaultUID, dB, pB, rB, RB, pA, RA, false)
		if e1 != nil || e2 != nil {
			return passed, fail("kx-err", fmt.Sprint(e1, e2), nil)
		}
		if g := strings.ToUpper(hex.EncodeToString(a.K)); g != "6C89347354DE2484C60B4AB1FDE4C6E5" {
			return passed, fail("kx-K", g, "6C893473…")
		}
		if !bytes.Equal(a.K, b.K) || !bytes.Equal(a.S1, b.S1) || !bytes.Equal(a.S2, b.S2) {
			return passed, fail("kx-agree", "A≠B", "A=B")
		}
		if g := strings.ToUpper(hex.EncodeToString(a.S1)); g != "D3A0FE15DEE185CEAE907A6B595CC32A266ED7B3367E9983A896DC32FA20F8EB" {
			return passed, fail("kx-S1", g, "D3A0FE15…")
		}
		if g := strings.ToUpper(hex.EncodeToString(a.S2)); g != "18C7894B3816DF16CF07B05C5EC0BEF5D655D58F779CC1B400A4F3884644DB88" {
			return passed, fail("kx-S2", g, "18C7894B…")
		}
		passed = append(passed, "sm2:GM/T0003.5-keyexchange-example(K,S1,S2)")
	}
	// HMAC over the two SM3 forms agree
	{
		m := hmac.New(NewSM3, []byte("key"))
		m.Write([]byte("msg"))
		if len(m.Sum(nil)) != 32 {
			return passed, fail("hmac-sm3", "len", 32)
		}
		passed = append(passed, "hmac-sm3:builds")
	}
	return passed, nil
}
