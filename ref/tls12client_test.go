package ref

import (
	"crypto/rand"
	"crypto/rsa"
	"crypto/tls"
	"crypto/x509"
	"crypto/x509/pkix"
	"io"
	"math/big"
	"net"
	"testing"
	"time"
)

// The scriptable TLS 1.2 client is validated against the standard library's TLS server (no gmsm code involved): the honest
// script completes, application data flows both ways, and a wrong Finished is refused.
func TestTLS12ClientAgainstStdlib(t *testing.T) {
	key, err := rsa.GenerateKey(rand.Reader, 2048)
	if err != nil {
		t.Fatal(err)
	}
	tmpl := &x509.Certificate{SerialNumber: big.NewInt(1), Subject: pkix.Name{CommonName: "t"}, NotBefore: time.Now().Add(-time.Hour), NotAfter: time.Now().Add(time.Hour),
		KeyUsage: x509.KeyUsageKeyEncipherment | x509.KeyUsageDigitalSignature, ExtKeyUsage: []x509.ExtKeyUsage{x509.ExtKeyUsageServerAuth}}
	der, err := x509.CreateCertificate(rand.Reader, tmpl, tmpl, &key.PublicKey, key)
	if err != nil {
		t.Fatal(err)
	}
	cfg := &tls.Config{Certificates: []tls.Certificate{{Certificate: [][]byte{der}, PrivateKey: key}}, CipherSuites: []uint16{tls.TLS_RSA_WITH_AES_128_CBC_SHA}, MinVersion: tls.VersionTLS12, MaxVersion: tls.VersionTLS12}
	rnd := func(n int) []byte { b := make([]byte, n); rand.Read(b); return b }
	for _, bad := range []bool{false, true} {
		cc, sc := net.Pipe()
		srv := tls.Server(sc, cfg)
		done := make(chan error, 1)
		go func() {
			err := srv.Handshake()
			if err == nil {
				buf := make([]byte, 5)
				if _, e := io.ReadFull(srv, buf); e == nil {
					srv.Write(append([]byte("re:"), buf...))
				}
			}
			done <- err
			sc.Close()
		}()
		p := &TLS12Client{Conn: cc, Rand: rnd}
		if bad {
			p.Mutate = func(step string, def []Item) []Item {
				if step == T12Finished {
					return []Item{{RecType: RecHandshake, Data: HSMsg(HSFinished, make([]byte, 12))}}
				}
				return def
			}
		}
		perr := p.Run()
		if !bad {
			if perr != nil || !p.Completed {
				t.Fatalf("honest script: %v", perr)
			}
			if err := p.WriteApp([]byte("hello")); err != nil {
				t.Fatal(err)
			}
			got, err := p.ReadApp()
			if err != nil || string(got) != "re:hello" {
				// stdlib may send an empty or 1-byte first record (1/n-1 split is TLS 1.0 only); accept a second read
				t.Fatalf("echo: %q %v", got, err)
			}
		}
		cc.Close()
		serr := <-done
		if bad && (serr == nil || p.Completed) {
			t.Fatalf("wrong Finished accepted: %v", serr)
		}
		if !bad && serr != nil {
			t.Fatalf("server: %v", serr)
		}
	}
}
