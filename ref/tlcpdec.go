package ref

import (
	"bytes"
	"fmt"
	"math/big"
)

// WireEvent is one chunk written on the transport, in global write order.
type WireEvent struct {
	FromClient bool
	Data       []byte
}

// RecInfo describes one record seen on the wire.
type RecInfo struct {
	FromClient bool
	Type       byte
	Version    uint16
	Protected  bool
	Seq        uint64
	ExplicitIV []byte
	PlainLen   int
	PadLen     int
	BodyLen    int
	FirstBlock []byte // first ciphertext block after the explicit IV (CBC)
	LastBlock  []byte // last ciphertext block (CBC)
}

// Decoded is what the passive GM/T 0024 decoder reconstructs from a capture.
type Decoded struct {
	Version, Suite             uint16
	ClientRandom, ServerRandom []byte
	ClientHelloVersion         uint16
	ServerCerts, ClientCerts   [][]byte
	Resumed                    bool
	Master                     []byte
	SKEPresent, SKESigOK       bool
	PMSChecked, PMSOK          bool
	CertVerifyPresent          bool
	CertVerifyOK               bool
	ClientFinishedSeen         bool
	ClientFinishedOK           bool
	ServerFinishedSeen         bool
	ServerFinishedOK           bool
	TicketIssued               []byte
	TicketOffered              []byte
	AppC2S, AppS2C             []byte
	Records                    []RecInfo
	Alerts                     []string
	Messages                   []string
	Problems                   []string // protocol violations the decoder observed
	Err                        string   // fatal decoding error (wire not decodable by the reference)
}

type dirState struct {
	buf  []byte
	hs   []byte
	half HalfState
	ccs  bool
}

// DecodeSession replays a capture. masters are candidate master secrets (from the key log); encKey is the
// private key of the server's encryption certificate (optional, enables the pre-master check).
func DecodeSession(events []WireEvent, masters [][]byte, encKey *big.Int) *Decoded {
	d := &Decoded{}
	var cs, ss dirState
	var transcript []byte
	var transcriptAtCKX []byte
	fail := func(f string, a ...interface{}) *Decoded {
		if d.Err == "" {
			d.Err = fmt.Sprintf(f, a...)
		}
		return d
	}
	activate := func(st *dirState, client bool) bool {
		if d.Master == nil {
			return false
		}
		kb := DeriveKeyBlock(d.Master, d.ClientRandom, d.ServerRandom, d.Suite)
		st.half = HalfState{Suite: d.Suite, On: true}
		if client {
			st.half.Key, st.half.IV, st.half.MACKey = kb.ClientKey, kb.ClientIV, kb.ClientMAC
		} else {
			st.half.Key, st.half.IV, st.half.MACKey = kb.ServerKey, kb.ServerIV, kb.ServerMAC
		}
		return true
	}
	handleHS := func(client bool, msg []byte) {
		typ, body := msg[0], msg[4:]
		who := "S"
		if client {
			who = "C"
		}
		d.Messages = append(d.Messages, fmt.Sprintf("%s:%d", who, typ))
		switch typ {
		case HSClientHello:
			if ch, err := ParseClientHello(body); err == nil {
				d.ClientRandom, d.ClientHelloVersion = ch.Random, ch.Version
				d.TicketOffered = ch.Ticket
			} else {
				d.Problems = append(d.Problems, err.Error())
			}
		case HSServerHello:
			if sh, err := ParseServerHello(body); err == nil {
				d.ServerRandom, d.Version, d.Suite = sh.Random, sh.Version, sh.Suite
			} else {
				d.Problems = append(d.Problems, err.Error())
			}
		case HSCertificate:
			certs, err := ParseCertificate(body)
			if err != nil {
				d.Problems = append(d.Problems, err.Error())
			} else if client {
				d.ClientCerts = certs
			} else {
				d.ServerCerts = certs
			}
		case HSServerKeyExchange:
			d.SKEPresent = true
			if sig, err := ParseSKE(body); err == nil && len(d.ServerCerts) >= 2 {
				if r, s, e := ParseSM2SigDER(sig); e == nil {
					if x, y, e := CertSPKIPoint(d.ServerCerts[0]); e == nil {
						d.SKESigOK = Verify(x, y, DefaultUID, SKEParams(d.ClientRandom, d.ServerRandom, d.ServerCerts[1]), r, s)
					}
				}
			}
		case HSClientKeyExchange:
			transcriptAtCKX = append(append([]byte{}, transcript...), msg...)
			// choose the master: the candidate consistent with the pre-master (if we can open it), else tried at Finished
			if enc, err := ParseCKX(body); err == nil && encKey != nil {
				if ct, e := ParseSM2CipherDER(enc); e == nil {
					d.PMSChecked = true
					if pms, e := Decrypt(encKey, ct); e == nil && len(pms) == 48 {
						m := MasterSecret(pms, d.ClientRandom, d.ServerRandom)
						for _, c := range masters {
							if bytes.Equal(c, m) {
								d.PMSOK = true
								d.Master = m
							}
						}
					}
				}
			}
		case HSCertificateVerify:
			d.CertVerifyPresent = true
			c := &cursor{b: body}
			sig := c.take(c.u16())
			if !c.err && len(d.ClientCerts) > 0 {
				if r, s, e := ParseSM2SigDER(sig); e == nil {
					if x, y, e := CertSPKIPoint(d.ClientCerts[0]); e == nil {
						d.CertVerifyOK = Verify(x, y, DefaultUID, SM3(transcriptAtCKX), r, s)
					}
				}
			}
		case HSNewSessionTicket:
			c := &cursor{b: body}
			c.take(4)
			d.TicketIssued = c.take(c.u16())
		case HSFinished:
			want := FinishedVerify(d.Master, client, transcript)
			ok := bytes.Equal(want, body)
			if client {
				d.ClientFinishedSeen, d.ClientFinishedOK = true, ok
			} else {
				d.ServerFinishedSeen, d.ServerFinishedOK = true, ok
			}
		}
		transcript = append(transcript, msg...)
	}
	for _, ev := range events {
		st := &ss
		if ev.FromClient {
			st = &cs
		}
		st.buf = append(st.buf, ev.Data...)
		recs, rest := SplitRecords(st.buf)
		st.buf = append([]byte{}, rest...)
		for _, r := range recs {
			ri := RecInfo{FromClient: ev.FromClient, Type: r.Type, Version: r.Version, Protected: st.half.On, BodyLen: len(r.Body)}
			if st.half.On && !SuiteIsGCM(st.half.Suite) && len(r.Body) >= 32 {
				ri.FirstBlock = append([]byte{}, r.Body[16:32]...)
				ri.LastBlock = append([]byte{}, r.Body[len(r.Body)-16:]...)
			}
			if st.half.On && d.Master == nil {
				return fail("protected record but no master secret known")
			}
			var info *OpenInfo
			var err error
			info, err = st.half.Open(r)
			if err != nil && st.half.On && st.half.Seq == 0 {
				// first protected record of this direction: the master secret may be another candidate (resumption)
				for _, m := range masters {
					d.Master = m
					activate(st, ev.FromClient)
					if info, err = st.half.Open(r); err == nil {
						break
					}
				}
			}
			if err != nil {
				d.Records = append(d.Records, ri)
				return fail("record %d from client=%v (type %d): %v", len(d.Records), ev.FromClient, r.Type, err)
			}
			ri.Seq, ri.ExplicitIV, ri.PlainLen, ri.PadLen = info.Seq, info.ExplicitIV, len(info.Plain), info.PadLen
			d.Records = append(d.Records, ri)
			switch r.Type {
			case RecCCS:
				if len(info.Plain) != 1 || info.Plain[0] != 1 {
					d.Problems = append(d.Problems, "malformed ChangeCipherSpec")
				}
				if d.Master == nil && len(masters) > 0 {
					d.Master = masters[0]
				}
				if !ev.FromClient && len(d.ServerCerts) == 0 {
					d.Resumed = true
				}
				if !activate(st, ev.FromClient) {
					return fail("ChangeCipherSpec without a usable master secret")
				}
			case RecAlert:
				if len(info.Plain) == 2 {
					who := "S"
					if ev.FromClient {
						who = "C"
					}
					d.Alerts = append(d.Alerts, fmt.Sprintf("%s:%d/%d", who, info.Plain[0], info.Plain[1]))
				}
			case RecHandshake:
				st.hs = append(st.hs, info.Plain...)
				for len(st.hs) >= 4 {
					n := int(st.hs[1])<<16 | int(st.hs[2])<<8 | int(st.hs[3])
					if len(st.hs) < 4+n {
						break
					}
					handleHS(ev.FromClient, append([]byte{}, st.hs[:4+n]...))
					st.hs = st.hs[4+n:]
				}
			case RecAppData:
				if ev.FromClient {
					d.AppC2S = append(d.AppC2S, info.Plain...)
				} else {
					d.AppS2C = append(d.AppS2C, info.Plain...)
				}
			default:
				d.Problems = append(d.Problems, fmt.Sprintf("unknown record type %d", r.Type))
			}
		}
	}
	return d
}
