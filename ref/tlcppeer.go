package ref

import (
	"bytes"
	"errors"
	"fmt"
	"io"
	"math/big"
)

// ---- an active, scriptable GM/T 0024 peer (client or server) built on the reference pieces ----

// Item is something the peer puts on the wire: one record payload of the given type
// (handshake messages, the ChangeCipherSpec byte, an alert, application data).
type Item struct {
	RecType   byte
	Data      []byte
	RawRecord []byte // if set, these bytes are written as they are (header included), unprotected
}

// Step names of the honest flows.
const (
	StClientHello        = "ClientHello"
	StServerHello        = "ServerHello"
	StCertificate        = "Certificate"
	StServerKeyExchange  = "ServerKeyExchange"
	StCertificateRequest = "CertificateRequest"
	StServerHelloDone    = "ServerHelloDone"
	StClientCertificate  = "ClientCertificate"
	StClientKeyExchange  = "ClientKeyExchange"
	StCertificateVerify  = "CertificateVerify"
	StClientCCS          = "ClientChangeCipherSpec"
	StClientFinished     = "ClientFinished"
	StNewSessionTicket   = "NewSessionTicket"
	StServerCCS          = "ServerChangeCipherSpec"
	StServerFinished     = "ServerFinished"
)

// Peer holds identity and state.
type Peer struct {
	Conn io.ReadWriter
	Rand func(n int) []byte

	Suites []uint16
	// server identity
	SignKey, EncKey   *big.Int
	SignCert, EncCert []byte
	RequestClientCert bool
	// client identity (optional)
	ClientSignKey *big.Int
	ClientCerts   [][]byte
	// client: offer a ticket / session id
	OfferTicket    []byte
	OfferSessionID []byte
	ResumeMaster   []byte // master secret belonging to the offered ticket
	TicketExt      bool   // client: send an (empty or filled) session_ticket extension
	NonceOffset    uint64 // GCM: explicit record nonces are sequence number + this (a sender with its own nonce counter)

	// Strict: also validate the peer's hello parameters (used when the reference plays the endpoint under comparison).
	Strict bool
	// Mutate lets a script replace what is sent at a step (nil = honest). It receives the default items.
	Mutate func(step string, def []Item) []Item
	// CloseAfter: end the script (caller closes the transport) right after sending this step ("" = never).
	CloseAfter string
	// Hold: handshake messages of these steps are not written when their step comes; they are put in front of the next
	// handshake message that is written, in the same record (a legal coalescing of handshake messages).
	Hold map[string]bool
	held []byte

	// results
	Version      uint16
	Suite        uint16
	ClientRandom []byte
	ServerRandom []byte
	Master       []byte
	PeerCerts    [][]byte
	Resumed      bool
	Ticket       []byte // NewSessionTicket received (client)
	Completed    bool
	SentSteps    []string
	AlertsSeen   []string

	transcript []byte
	in, out    HalfState
	rbuf       []byte
	hsbuf      []byte
	pendingRec []Record
}

var ErrScriptEnded = errors.New("tlcp peer: script ended by CloseAfter")

type AlertError struct{ Level, Desc byte }

func (a AlertError) Error() string {
	return fmt.Sprintf("tlcp peer: received alert %d/%d", a.Level, a.Desc)
}

func (p *Peer) send(step string, def []Item) error {
	items := def
	if p.Mutate != nil {
		items = p.Mutate(step, def)
	}
	for _, it := range items {
		if it.RawRecord != nil {
			if _, err := p.Conn.Write(it.RawRecord); err != nil {
				return err
			}
			continue
		}
		if it.RecType == RecHandshake {
			p.transcript = append(p.transcript, it.Data...)
			if p.Hold[step] {
				p.held = append(p.held, it.Data...)
				continue
			}
		}
		// fragment at 16384
		data := it.Data
		if it.RecType == RecHandshake && len(p.held) > 0 {
			data = append(append([]byte{}, p.held...), it.Data...)
			p.held = nil
		}
		for first := true; first || len(data) > 0; first = false {
			n := len(data)
			if n > 16384 {
				n = 16384
			}
			rec := p.out.Seal(it.RecType, data[:n], p.Rand(16), -1)
			if _, err := p.Conn.Write(rec); err != nil {
				return err
			}
			data = data[n:]
		}
		if it.RecType == RecCCS {
			p.activateOut()
		}
	}
	p.SentSteps = append(p.SentSteps, step)
	if p.CloseAfter == step {
		return ErrScriptEnded
	}
	return nil
}

func (p *Peer) keys() KeyBlock {
	return DeriveKeyBlock(p.Master, p.ClientRandom, p.ServerRandom, p.Suite)
}

func (p *Peer) isClient() bool { return p.SignCert == nil }

func (p *Peer) activateOut() {
	if p.Master == nil {
		return
	}
	kb := p.keys()
	p.out = HalfState{Suite: p.Suite, On: true, NonceOffset: p.NonceOffset}
	if p.isClient() {
		p.out.Key, p.out.IV, p.out.MACKey = kb.ClientKey, kb.ClientIV, kb.ClientMAC
	} else {
		p.out.Key, p.out.IV, p.out.MACKey = kb.ServerKey, kb.ServerIV, kb.ServerMAC
	}
}

func (p *Peer) activateIn() {
	kb := p.keys()
	p.in = HalfState{Suite: p.Suite, On: true}
	if p.isClient() {
		p.in.Key, p.in.IV, p.in.MACKey = kb.ServerKey, kb.ServerIV, kb.ServerMAC
	} else {
		p.in.Key, p.in.IV, p.in.MACKey = kb.ClientKey, kb.ClientIV, kb.ClientMAC
	}
}

// nextRecord reads one record (opened under the inbound state).
func (p *Peer) nextRecord() (byte, []byte, error) {
	for {
		recs, rest := SplitRecords(p.rbuf)
		if len(recs) > 0 {
			r := recs[0]
			p.rbuf = append([]byte{}, p.rbuf[len(r.Raw):]...)
			_ = rest
			if p.Strict && len(r.Body) > 16384+2048 {
				return 0, nil, errors.New("tlcp peer: record overflow")
			}
			info, err := p.in.Open(r)
			if err != nil {
				return 0, nil, err
			}
			return r.Type, info.Plain, nil
		}
		buf := make([]byte, 20000)
		n, err := p.Conn.Read(buf)
		p.rbuf = append(p.rbuf, buf[:n]...)
		if n == 0 && err != nil {
			return 0, nil, err
		}
	}
}

// recvHandshake returns the next handshake message (type, body, raw). A ChangeCipherSpec is returned as type 0xff.
func (p *Peer) recvHandshake() (byte, []byte, error) {
	for {
		if len(p.hsbuf) >= 4 {
			n := int(p.hsbuf[1])<<16 | int(p.hsbuf[2])<<8 | int(p.hsbuf[3])
			if p.Strict && n > 65536 {
				return 0, nil, errors.New("tlcp peer: handshake message too long")
			}
			if len(p.hsbuf) >= 4+n {
				msg := append([]byte{}, p.hsbuf[:4+n]...)
				p.hsbuf = p.hsbuf[4+n:]
				return msg[0], msg, nil
			}
		}
		typ, data, err := p.nextRecord()
		if err != nil {
			return 0, nil, err
		}
		switch typ {
		case RecHandshake:
			p.hsbuf = append(p.hsbuf, data...)
		case RecCCS:
			return 0xff, data, nil
		case RecAlert:
			if len(data) == 2 {
				p.AlertsSeen = append(p.AlertsSeen, fmt.Sprintf("%d/%d", data[0], data[1]))
				if data[0] == 1 && data[1] != 0 {
					continue // a warning other than close_notify does not end a handshake
				}
				return 0, nil, AlertError{data[0], data[1]}
			}
			return 0, nil, errors.New("tlcp peer: malformed alert")
		default:
			return 0, nil, fmt.Errorf("tlcp peer: unexpected record type %d during handshake", typ)
		}
	}
}

func (p *Peer) expect(typ byte) ([]byte, error) {
	t, msg, err := p.recvHandshake()
	if err != nil {
		return nil, err
	}
	if t != typ {
		return nil, fmt.Errorf("tlcp peer: expected handshake type %d, got %d", typ, t)
	}
	if typ != 0xff {
		p.transcript = append(p.transcript, msg...)
		return msg[4:], nil
	}
	return msg, nil
}

func (p *Peer) signSM2(key *big.Int, msg []byte) []byte {
	pub := MulG(key)
	for {
		k := new(big.Int).SetBytes(p.Rand(32))
		k.Mod(k, N)
		if k.Sign() == 0 {
			continue
		}
		if r, s, ok := SignWithK(key, k, pub.X, pub.Y, DefaultUID, msg); ok {
			return SM2SigDER(r, s)
		}
	}
}

func (p *Peer) encryptSM2(x, y *big.Int, msg []byte) []byte {
	for {
		k := new(big.Int).SetBytes(p.Rand(32))
		k.Mod(k, N)
		if k.Sign() == 0 {
			continue
		}
		if c, ok := EncryptWithK(x, y, k, msg); ok {
			return SM2CipherDER(c)
		}
	}
}

// RunClient executes the client flow.
func (p *Peer) RunClient() error {
	p.Version = TLCPVersion
	p.ClientRandom = p.Rand(32)
	ch := &ClientHello{Version: TLCPVersion, Random: p.ClientRandom, SessionID: p.OfferSessionID, Suites: p.Suites, Compression: []byte{0}}
	if p.TicketExt || p.OfferTicket != nil {
		ext := []byte{0, 35, byte(len(p.OfferTicket) >> 8), byte(len(p.OfferTicket))}
		ch.Extensions = append(ext, p.OfferTicket...)
	}
	if err := p.send(StClientHello, []Item{{RecType: RecHandshake, Data: ch.Marshal()}}); err != nil {
		return err
	}
	body, err := p.expect(HSServerHello)
	if err != nil {
		return err
	}
	sh, err := ParseServerHello(body)
	if err != nil {
		return err
	}
	p.ServerRandom, p.Suite = sh.Random, sh.Suite
	if sh.Version != TLCPVersion {
		return fmt.Errorf("tlcp peer: server chose version %04x", sh.Version)
	}
	if p.Strict {
		offered := false
		for _, s := range p.Suites {
			if s == sh.Suite {
				offered = true
			}
		}
		if !offered || sh.Compression != 0 {
			return errors.New("tlcp peer: server chose a suite or compression that was not offered")
		}
	}
	// resumption?
	t, msg, err := p.recvHandshake()
	if err != nil {
		return err
	}
	if (t == 0xff || t == HSNewSessionTicket) && p.ResumeMaster != nil && bytes.Equal(sh.SessionID, p.OfferSessionID) && len(p.OfferSessionID) > 0 {
		p.Resumed = true
		p.Master = p.ResumeMaster
		if t == HSNewSessionTicket {
			p.transcript = append(p.transcript, msg...)
			c := &cursor{b: msg[4:]}
			c.take(4)
			p.Ticket = c.take(c.u16())
			if _, err = p.expect(0xff); err != nil {
				return err
			}
		}
		p.activateIn()
		wantFin := FinishedVerify(p.Master, false, p.transcript)
		fin, err := p.expect(HSFinished)
		if err != nil {
			return err
		}
		if !bytes.Equal(fin, wantFin) {
			return errors.New("tlcp peer: server Finished wrong (resumption)")
		}
		if err := p.send(StClientCCS, []Item{{RecType: RecCCS, Data: []byte{1}}}); err != nil {
			return err
		}
		if err := p.send(StClientFinished, []Item{{RecType: RecHandshake, Data: HSMsg(HSFinished, FinishedVerify(p.Master, true, p.transcript))}}); err != nil {
			return err
		}
		p.Completed = true
		return nil
	}
	if t != HSCertificate {
		return fmt.Errorf("tlcp peer: expected Certificate, got %d", t)
	}
	p.transcript = append(p.transcript, msg...)
	if p.PeerCerts, err = ParseCertificate(msg[4:]); err != nil || len(p.PeerCerts) < 2 {
		return fmt.Errorf("tlcp peer: server certificate list: %v", err)
	}
	if body, err = p.expect(HSServerKeyExchange); err != nil {
		return err
	}
	sig, err := ParseSKE(body)
	if err != nil {
		return err
	}
	sx, sy, err := CertSPKIPoint(p.PeerCerts[0])
	if err != nil {
		return err
	}
	r, s, err := ParseSM2SigDER(sig)
	if err != nil || !Verify(sx, sy, DefaultUID, SKEParams(p.ClientRandom, p.ServerRandom, p.PeerCerts[1]), r, s) {
		return errors.New("tlcp peer: ServerKeyExchange signature invalid")
	}
	t, msg, err = p.recvHandshake()
	if err != nil {
		return err
	}
	certRequested := false
	if t == HSCertificateRequest {
		certRequested = true
		p.transcript = append(p.transcript, msg...)
		if t, msg, err = p.recvHandshake(); err != nil {
			return err
		}
	}
	if t != HSServerHelloDone {
		return fmt.Errorf("tlcp peer: expected ServerHelloDone, got %d", t)
	}
	p.transcript = append(p.transcript, msg...)
	if certRequested {
		if err := p.send(StClientCertificate, []Item{{RecType: RecHandshake, Data: MarshalCertificate(p.ClientCerts)}}); err != nil {
			return err
		}
	}
	pms := append([]byte{TLCPVersion >> 8, TLCPVersion & 0xff}, p.Rand(46)...)
	ex, ey, err := CertSPKIPoint(p.PeerCerts[1])
	if err != nil {
		return err
	}
	p.Master = MasterSecret(pms, p.ClientRandom, p.ServerRandom)
	if err := p.send(StClientKeyExchange, []Item{{RecType: RecHandshake, Data: MarshalCKX(p.encryptSM2(ex, ey, pms))}}); err != nil {
		return err
	}
	if certRequested && len(p.ClientCerts) > 0 && p.ClientSignKey != nil {
		sig := p.signSM2(p.ClientSignKey, SM3(p.transcript))
		if err := p.send(StCertificateVerify, []Item{{RecType: RecHandshake, Data: MarshalCertVerify(sig)}}); err != nil {
			return err
		}
	}
	if err := p.send(StClientCCS, []Item{{RecType: RecCCS, Data: []byte{1}}}); err != nil {
		return err
	}
	if err := p.send(StClientFinished, []Item{{RecType: RecHandshake, Data: HSMsg(HSFinished, FinishedVerify(p.Master, true, p.transcript))}}); err != nil {
		return err
	}
	t, msg, err = p.recvHandshake()
	if err != nil {
		return err
	}
	if t == HSNewSessionTicket {
		p.transcript = append(p.transcript, msg...)
		c := &cursor{b: msg[4:]}
		c.take(4)
		p.Ticket = c.take(c.u16())
		if t, msg, err = p.recvHandshake(); err != nil {
			return err
		}
	}
	if t != 0xff {
		return fmt.Errorf("tlcp peer: expected ChangeCipherSpec, got %d", t)
	}
	p.activateIn()
	want := FinishedVerify(p.Master, false, p.transcript)
	fin, err := p.expect(HSFinished)
	if err != nil {
		return err
	}
	if !bytes.Equal(fin, want) {
		return errors.New("tlcp peer: server Finished wrong")
	}
	p.Completed = true
	return nil
}

// RunServer executes the server flow (full handshakes only).
func (p *Peer) RunServer() error {
	body, err := p.expect(HSClientHello)
	if err != nil {
		return err
	}
	ch, err := ParseClientHello(body)
	if err != nil {
		return err
	}
	p.ClientRandom = ch.Random
	p.Version = TLCPVersion
	if p.Strict {
		if ch.Version != TLCPVersion {
			return fmt.Errorf("tlcp peer: client version %04x", ch.Version)
		}
		if !bytes.Contains(ch.Compression, []byte{0}) {
			return errors.New("tlcp peer: client does not offer null compression")
		}
		common := false
		for _, s := range p.Suites {
			for _, c := range ch.Suites {
				if s == c {
					common = true
				}
			}
		}
		if !common {
			return errors.New("tlcp peer: no common cipher suite")
		}
	}
	for _, s := range p.Suites {
		for _, c := range ch.Suites {
			if s == c && p.Suite == 0 {
				p.Suite = s
			}
		}
	}
	if p.Suite == 0 {
		p.Suite = p.Suites[0] // a misbehaving server may pick anything; honest scripts are only run with overlap
	}
	p.ServerRandom = p.Rand(32)
	sh := &ServerHello{Version: TLCPVersion, Random: p.ServerRandom, SessionID: p.Rand(32), Suite: p.Suite}
	if err := p.send(StServerHello, []Item{{RecType: RecHandshake, Data: sh.Marshal()}}); err != nil {
		return err
	}
	if err := p.send(StCertificate, []Item{{RecType: RecHandshake, Data: MarshalCertificate([][]byte{p.SignCert, p.EncCert})}}); err != nil {
		return err
	}
	sig := p.signSM2(p.SignKey, SKEParams(p.ClientRandom, p.ServerRandom, p.EncCert))
	if err := p.send(StServerKeyExchange, []Item{{RecType: RecHandshake, Data: MarshalSKE(sig)}}); err != nil {
		return err
	}
	if p.RequestClientCert {
		if err := p.send(StCertificateRequest, []Item{{RecType: RecHandshake, Data: MarshalCertRequest([]byte{1, 64}, nil)}}); err != nil {
			return err
		}
	}
	if err := p.send(StServerHelloDone, []Item{{RecType: RecHandshake, Data: HSMsg(HSServerHelloDone, nil)}}); err != nil {
		return err
	}
	t, msg, err := p.recvHandshake()
	if err != nil {
		return err
	}
	if p.RequestClientCert {
		if t != HSCertificate {
			return fmt.Errorf("tlcp peer: expected client Certificate, got %d", t)
		}
		p.transcript = append(p.transcript, msg...)
		p.PeerCerts, _ = ParseCertificate(msg[4:])
		if t, msg, err = p.recvHandshake(); err != nil {
			return err
		}
	}
	if t != HSClientKeyExchange {
		return fmt.Errorf("tlcp peer: expected ClientKeyExchange, got %d", t)
	}
	p.transcript = append(p.transcript, msg...)
	enc, err := ParseCKX(msg[4:])
	if err != nil {
		return err
	}
	ct, err := ParseSM2CipherDER(enc)
	if err != nil {
		return err
	}
	pms, err := Decrypt(p.EncKey, ct)
	if err != nil || len(pms) != 48 {
		return fmt.Errorf("tlcp peer: pre-master: %v", err)
	}
	p.Master = MasterSecret(pms, p.ClientRandom, p.ServerRandom)
	if len(p.PeerCerts) > 0 {
		beforeCV := append([]byte{}, p.transcript...)
		cv, err := p.expect(HSCertificateVerify)
		if err != nil {
			return err
		}
		c := &cursor{b: cv}
		sg := c.take(c.u16())
		x, y, e := CertSPKIPoint(p.PeerCerts[0])
		r, s, e2 := ParseSM2SigDER(sg)
		if e != nil || e2 != nil || !Verify(x, y, DefaultUID, SM3(beforeCV), r, s) {
			return errors.New("tlcp peer: CertificateVerify invalid")
		}
	}
	if _, err := p.expect(0xff); err != nil {
		return err
	}
	p.activateIn()
	want := FinishedVerify(p.Master, true, p.transcript)
	fin, err := p.expect(HSFinished)
	if err != nil {
		return err
	}
	if !bytes.Equal(fin, want) {
		return errors.New("tlcp peer: client Finished wrong")
	}
	if err := p.send(StServerCCS, []Item{{RecType: RecCCS, Data: []byte{1}}}); err != nil {
		return err
	}
	if err := p.send(StServerFinished, []Item{{RecType: RecHandshake, Data: HSMsg(HSFinished, FinishedVerify(p.Master, false, p.transcript))}}); err != nil {
		return err
	}
	p.Completed = true
	return nil
}

// WriteApp / ReadApp exchange application data after a completed handshake.
func (p *Peer) WriteApp(data []byte) error {
	_, err := p.Conn.Write(p.out.Seal(RecAppData, data, p.Rand(16), -1))
	return err
}

func (p *Peer) ReadApp() ([]byte, error) {
	for {
		typ, data, err := p.nextRecord()
		if err != nil {
			return nil, err
		}
		switch typ {
		case RecAppData:
			return data, nil
		case RecAlert:
			if len(data) == 2 {
				return nil, AlertError{data[0], data[1]}
			}
		}
	}
}

// Transcript returns a copy of the handshake transcript so far.
func (p *Peer) Transcript() []byte { return append([]byte{}, p.transcript...) }

// WriteRecord seals one record of any content type under the current write state (after a completed handshake: the
// session keys) and sends it — for scripts that go on after the handshake (HelloRequest, stray handshake messages).
func (p *Peer) WriteRecord(typ byte, data []byte) error {
	_, err := p.Conn.Write(p.out.Seal(typ, data, p.Rand(16), -1))
	return err
}
