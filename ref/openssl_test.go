package ref

import (
	"bytes"
	"encoding/asn1"
	"encoding/hex"
	"encoding/pem"
	"math/big"
	"os"
	"os/exec"
	"path/filepath"
	"strings"
	"testing"
)

// Optional cross-check of the reference models against openssl (3.x has SM2/SM3/SM4). Independent of gmsm.
// Skipped when openssl is missing or lacks the algorithms; no check's verdict depends on it.

func osslRun(t *testing.T, stdin []byte, args ...string) ([]byte, error) {
	cmd := exec.Command("openssl", args...)
	cmd.Stdin = bytes.NewReader(stdin)
	var out, errb bytes.Buffer
	cmd.Stdout, cmd.Stderr = &out, &errb
	err := cmd.Run()
	if err != nil {
		return errb.Bytes(), err
	}
	return out.Bytes(), nil
}

func haveOpenssl(t *testing.T) {
	if _, err := exec.LookPath("openssl"); err != nil {
		t.Skip("openssl not present")
	}
	o, err := osslRun(t, []byte("abc"), "dgst", "-sm3", "-r")
	if err != nil || !strings.HasPrefix(string(o), "66c7f0f4") {
		t.Skip("openssl without SM3")
	}
}

type tRng struct{ s uint64 }

func (r *tRng) next() uint64 {
	r.s += 0x9e3779b97f4a7c15
	z := r.s
	z = (z ^ (z >> 30)) * 0xbf58476d1ce4e5b9
	z = (z ^ (z >> 27)) * 0x94d049bb133111eb
	return z ^ (z >> 31)
}
func (r *tRng) bytes(n int) []byte {
	b := make([]byte, n)
	for i := range b {
		b[i] = byte(r.next())
	}
	return b
}

func TestOpensslSM3(t *testing.T) {
	haveOpenssl(t)
	r := &tRng{s: 3}
	lens := []int{0, 1, 55, 56, 57, 63, 64, 65, 119, 120, 127, 128, 1000, 4096, 70001}
	for i := 0; i < 40; i++ {
		lens = append(lens, int(r.next()%3000))
	}
	for _, n := range lens {
		m := r.bytes(n)
		o, err := osslRun(t, m, "dgst", "-sm3", "-r")
		if err != nil {
			t.Fatal(err)
		}
		want := strings.Fields(string(o))[0]
		got := SM3(m)
		if hex.EncodeToString(got) != want {
			t.Fatalf("len %d: ref %x openssl %s", n, got, want)
		}
	}
}

func TestOpensslSM4(t *testing.T) {
	haveOpenssl(t)
	r := &tRng{s: 4}
	for i := 0; i < 30; i++ {
		key, iv := r.bytes(16), r.bytes(16)
		data := r.bytes(16 * (1 + int(r.next()%40))) // many blocks per call: every S-box entry is hit quickly
		o, err := osslRun(t, data, "enc", "-sm4-ecb", "-nopad", "-K", hex.EncodeToString(key))
		if err != nil {
			t.Skip("openssl without SM4")
		}
		b, _ := NewSM4(key)
		got := make([]byte, len(data))
		for j := 0; j < len(data); j += 16 {
			b.Encrypt(got[j:], data[j:])
		}
		if !bytes.Equal(got, o) {
			t.Fatalf("sm4-ecb differs for key %x", key)
		}
		back := make([]byte, len(data))
		for j := 0; j < len(data); j += 16 {
			b.Decrypt(back[j:], got[j:])
		}
		if !bytes.Equal(back, data) {
			t.Fatal("ref decrypt")
		}
		o, err = osslRun(t, data, "enc", "-sm4-cbc", "-nopad", "-K", hex.EncodeToString(key), "-iv", hex.EncodeToString(iv))
		if err == nil {
			if g := SM4CBC(key, iv, data, false); !bytes.Equal(g, o) {
				t.Fatalf("sm4-cbc differs")
			}
		}
		for _, mode := range []string{"cfb", "ofb"} {
			o, err = osslRun(t, data, "enc", "-sm4-"+mode, "-K", hex.EncodeToString(key), "-iv", hex.EncodeToString(iv))
			if err == nil {
				var g []byte
				if mode == "cfb" {
					g = SM4CFB(key, iv, data, false)
				} else {
					g = SM4OFB(key, iv, data)
				}
				if !bytes.Equal(g, o) {
					t.Fatalf("sm4-%s differs", mode)
				}
			}
		}
	}
}

var oidSM2Curve = asn1.ObjectIdentifier{1, 2, 156, 10197, 1, 301}
var oidECPub = asn1.ObjectIdentifier{1, 2, 840, 10045, 2, 1}

func sm2PubPEM(q Point) []byte {
	type algo struct {
		A asn1.ObjectIdentifier
		P asn1.ObjectIdentifier
	}
	type spki struct {
		A algo
		K asn1.BitString
	}
	pt := append([]byte{4}, append(Pad32(q.X), Pad32(q.Y)...)...)
	der, _ := asn1.Marshal(spki{algo{oidECPub, oidSM2Curve}, asn1.BitString{Bytes: pt, BitLength: len(pt) * 8}})
	return pem.EncodeToMemory(&pem.Block{Type: "PUBLIC KEY", Bytes: der})
}

func sm2PrivPEM(d *big.Int, q Point) []byte {
	type ecPriv struct {
		V   int
		D   []byte
		OID asn1.ObjectIdentifier `asn1:"optional,explicit,tag:0"`
		Pub asn1.BitString        `asn1:"optional,explicit,tag:1"`
	}
	pt := append([]byte{4}, append(Pad32(q.X), Pad32(q.Y)...)...)
	der, _ := asn1.Marshal(ecPriv{1, Pad32(d), oidSM2Curve, asn1.BitString{Bytes: pt, BitLength: len(pt) * 8}})
	return pem.EncodeToMemory(&pem.Block{Type: "EC PRIVATE KEY", Bytes: der})
}

func TestOpensslSM2Sign(t *testing.T) {
	haveOpenssl(t)
	dir := t.TempDir()
	r := &tRng{s: 2}
	id := []byte("1234567812345678")
	for i := 0; i < 12; i++ {
		d := new(big.Int).SetBytes(r.bytes(32))
		d.Mod(d, new(big.Int).Sub(N, big.NewInt(2))).Add(d, big.NewInt(1))
		if i == 0 {
			d = big.NewInt(1)
		}
		q := MulG(d)
		msg := r.bytes(int(r.next() % 200))
		pubf, privf, msgf, sigf := filepath.Join(dir, "pub.pem"), filepath.Join(dir, "priv.pem"), filepath.Join(dir, "msg"), filepath.Join(dir, "sig")
		os.WriteFile(pubf, sm2PubPEM(q), 0600)
		os.WriteFile(privf, sm2PrivPEM(d, q), 0600)
		os.WriteFile(msgf, msg, 0600)
		// ref signs, openssl verifies
		k := new(big.Int).SetBytes(r.bytes(32))
		k.Mod(k, new(big.Int).Sub(N, big.NewInt(1))).Add(k, big.NewInt(1))
		rr, ss, ok := SignWithK(d, k, q.X, q.Y, id, msg)
		if !ok {
			continue
		}
		sig, _ := asn1.Marshal(struct{ R, S *big.Int }{rr, ss})
		os.WriteFile(sigf, sig, 0600)
		o, err := osslRun(t, nil, "pkeyutl", "-verify", "-pubin", "-inkey", pubf, "-in", msgf, "-rawin", "-sigfile", sigf, "-digest", "sm3", "-pkeyopt", "distid:"+string(id))
		if err != nil {
			if i == 0 {
				t.Skipf("openssl cannot verify SM2 here: %s", o)
			}
			t.Fatalf("openssl rejects a reference signature (d=%x): %s", d, o)
		}
		// a changed message must be rejected by openssl too (sanity of the command line)
		os.WriteFile(msgf, append(msg, 1), 0600)
		if _, err := osslRun(t, nil, "pkeyutl", "-verify", "-pubin", "-inkey", pubf, "-in", msgf, "-rawin", "-sigfile", sigf, "-digest", "sm3", "-pkeyopt", "distid:"+string(id)); err == nil {
			t.Fatal("openssl accepted a signature over another message: the cross-check is vacuous")
		}
		os.WriteFile(msgf, msg, 0600)
		// openssl signs, ref verifies
		o, err = osslRun(t, nil, "pkeyutl", "-sign", "-inkey", privf, "-in", msgf, "-rawin", "-digest", "sm3", "-pkeyopt", "distid:"+string(id))
		if err != nil {
			t.Fatalf("openssl sign: %v", err)
		}
		var rs struct{ R, S *big.Int }
		if _, err := asn1.Unmarshal(o, &rs); err != nil {
			t.Fatal(err)
		}
		if !Verify(q.X, q.Y, id, msg, rs.R, rs.S) {
			t.Fatalf("reference rejects an openssl signature (d=%x)", d)
		}
	}
}

func TestOpensslSM2Encrypt(t *testing.T) {
	haveOpenssl(t)
	dir := t.TempDir()
	r := &tRng{s: 22}
	for i := 0; i < 12; i++ {
		d := new(big.Int).SetBytes(r.bytes(32))
		d.Mod(d, new(big.Int).Sub(N, big.NewInt(2))).Add(d, big.NewInt(1))
		q := MulG(d)
		msg := r.bytes(1 + int(r.next()%100))
		pubf, privf, msgf, ctf := filepath.Join(dir, "pub.pem"), filepath.Join(dir, "priv.pem"), filepath.Join(dir, "msg"), filepath.Join(dir, "ct")
		os.WriteFile(pubf, sm2PubPEM(q), 0600)
		os.WriteFile(privf, sm2PrivPEM(d, q), 0600)
		os.WriteFile(msgf, msg, 0600)
		// openssl encrypts (ASN.1 SM2Cipher: x, y, hash, ciphertext), ref decrypts
		o, err := osslRun(t, nil, "pkeyutl", "-encrypt", "-pubin", "-inkey", pubf, "-in", msgf)
		if err != nil {
			t.Skip("openssl cannot SM2-encrypt here")
		}
		var c struct {
			X, Y *big.Int
			H, C []byte
		}
		if _, err := asn1.Unmarshal(o, &c); err != nil {
			t.Fatal(err)
		}
		pt, err := Decrypt(d, &Ciphertext{X1: c.X, Y1: c.Y, C3: c.H, C2: c.C})
		if err != nil || !bytes.Equal(pt, msg) {
			t.Fatalf("reference cannot open an openssl ciphertext: %v", err)
		}
		// ref encrypts, openssl decrypts
		k := new(big.Int).SetBytes(r.bytes(32))
		k.Mod(k, new(big.Int).Sub(N, big.NewInt(1))).Add(k, big.NewInt(1))
		ct, ok := EncryptWithK(q.X, q.Y, k, msg)
		if !ok {
			continue
		}
		der, _ := asn1.Marshal(struct {
			X, Y *big.Int
			H, C []byte
		}{ct.X1, ct.Y1, ct.C3, ct.C2})
		os.WriteFile(ctf, der, 0600)
		o, err = osslRun(t, nil, "pkeyutl", "-decrypt", "-inkey", privf, "-in", ctf)
		if err != nil || !bytes.Equal(o, msg) {
			t.Fatalf("openssl cannot open a reference ciphertext: %v", err)
		}
	}
}
