package ref

import (
	"encoding/binary"
	"errors"
	"math/big"
)

// ---- SM2 (GM/T 0003-2012, parameters of GM/T 0003.5) ----

func hexInt(s string) *big.Int {
	v, ok := new(big.Int).SetString(s, 16)
	if !ok {
		panic("bad hex")
	}
	return v
}

var (
	P  = hexInt("FFFFFFFEFFFFFFFFFFFFFFFFFFFFFFFFFFFFFFFF00000000FFFFFFFFFFFFFFFF")
	A  = hexInt("FFFFFFFEFFFFFFFFFFFFFFFFFFFFFFFFFFFFFFFF00000000FFFFFFFFFFFFFFFC")
	B  = hexInt("28E9FA9E9D9F5E344D5A9E4BCF6509A7F39789F515AB8F92DDBCBD414D940E93")
	N  = hexInt("FFFFFFFEFFFFFFFFFFFFFFFFFFFFFFFF7203DF6B21C6052B53BBF40939D54123")
	Gx = hexInt("32C4AE2C1F1981195F9904466A39C9948FE30BBFF2660BE1715A4589334C74C7")
	Gy = hexInt("BC3736A2F4F6779C59BDCEE36B692153D0A9877CC62A474002DF32E52139F0A0")
)

// DefaultUID is the conventional default user identity "1234567812345678".
var DefaultUID = []byte("1234567812345678")

// Point is an affine point; Inf=true is the point at infinity (gmsm represents it as (0,0)).
type Point struct {
	X, Y *big.Int
	Inf  bool
}

func Infinity() Point { return Point{X: new(big.Int), Y: new(big.Int), Inf: true} }
func G() Point        { return Point{X: new(big.Int).Set(Gx), Y: new(big.Int).Set(Gy)} }

// FromXY interprets (0,0) as infinity, as the elliptic.Curve convention does.
func FromXY(x, y *big.Int) Point {
	if x.Sign() == 0 && y.Sign() == 0 {
		return Infinity()
	}
	return Point{X: new(big.Int).Set(x), Y: new(big.Int).Set(y)}
}

// XY returns the coordinates with infinity as (0,0).
func (p Point) XY() (*big.Int, *big.Int) {
	if p.Inf {
		return new(big.Int), new(big.Int)
	}
	return new(big.Int).Set(p.X), new(big.Int).Set(p.Y)
}

func (p Point) Equal(q Point) bool {
	if p.Inf || q.Inf {
		return p.Inf == q.Inf
	}
	return p.X.Cmp(q.X) == 0 && p.Y.Cmp(q.Y) == 0
}

func mod(x *big.Int) *big.Int { return x.Mod(x, P) }

// OnCurveB reports whether (x,y) with 0<=x,y<p satisfies y^2 = x^3 + a x + b' (mod p).
func OnCurveB(x, y, b *big.Int) bool {
	if x.Sign() < 0 || y.Sign() < 0 || x.Cmp(P) >= 0 || y.Cmp(P) >= 0 {
		return false
	}
	l := new(big.Int).Mul(y, y)
	mod(l)
	r := new(big.Int).Mul(x, x)
	r.Mul(r, x)
	ax := new(big.Int).Mul(A, x)
	r.Add(r, ax)
	r.Add(r, b)
	mod(r)
	return l.Cmp(r) == 0
}

// OnCurve is membership in the SM2 curve for coordinates in [0,p).
func OnCurve(x, y *big.Int) bool { return OnCurveB(x, y, B) }

func Neg(p Point) Point {
	if p.Inf {
		return p
	}
	y := new(big.Int).Sub(P, p.Y)
	mod(y)
	return Point{X: new(big.Int).Set(p.X), Y: y}
}

// Add is the affine group law (formulas depend only on a, not b, so they also serve
// for invalid-curve points y^2 = x^3+ax+b').
func Add(p, q Point) Point {
	if p.Inf {
		return q
	}
	if q.Inf {
		return p
	}
	var lam *big.Int
	if p.X.Cmp(q.X) == 0 {
		s := new(big.Int).Add(p.Y, q.Y)
		mod(s)
		if s.Sign() == 0 {
			return Infinity() // P = -Q (includes y=0 doubling)
		}
		// doubling: lam = (3x^2 + a) / (2y)
		num := new(big.Int).Mul(p.X, p.X)
		num.Mul(num, big.NewInt(3))
		num.Add(num, A)
		mod(num)
		den := new(big.Int).Lsh(p.Y, 1)
		mod(den)
		den.ModInverse(den, P)
		lam = num.Mul(num, den)
		mod(lam)
	} else {
		num := new(big.Int).Sub(q.Y, p.Y)
		mod(num)
		den := new(big.Int).Sub(q.X, p.X)
		mod(den)
		den.ModInverse(den, P)
		lam = num.Mul(num, den)
		mod(lam)
	}
	x3 := new(big.Int).Mul(lam, lam)
	x3.Sub(x3, p.X)
	x3.Sub(x3, q.X)
	mod(x3)
	y3 := new(big.Int).Sub(p.X, x3)
	y3.Mul(y3, lam)
	y3.Sub(y3, p.Y)
	mod(y3)
	return Point{X: x3, Y: y3}
}

func Double(p Point) Point { return Add(p, p) }

// Mul computes [k]P by left-to-right double-and-add on the integer k >= 0 (k is NOT reduced;
// callers reduce mod n when the point has order n).
func Mul(k *big.Int, p Point) Point {
	r := Infinity()
	for i := k.BitLen() - 1; i >= 0; i-- {
		r = Double(r)
		if k.Bit(i) == 1 {
			r = Add(r, p)
		}
	}
	return r
}

func MulG(k *big.Int) Point { return Mul(k, G()) }

// Pad32 returns the fixed-width 32-byte big-endian encoding.
func Pad32(x *big.Int) []byte {
	b := x.Bytes()
	if len(b) >= 32 {
		return b
	}
	out := make([]byte, 32)
	copy(out[32-len(b):], b)
	return out
}

// ZA = SM3(ENTL ‖ ID ‖ a ‖ b ‖ xG ‖ yG ‖ xA ‖ yA), all field elements 32 bytes.
func ZA(px, py *big.Int, id []byte) []byte {
	var m []byte
	var l [2]byte
	binary.BigEndian.PutUint16(l[:], uint16(len(id)*8))
	m = append(m, l[:]...)
	m = append(m, id...)
	m = append(m, Pad32(A)...)
	m = append(m, Pad32(B)...)
	m = append(m, Pad32(Gx)...)
	m = append(m, Pad32(Gy)...)
	m = append(m, Pad32(px)...)
	m = append(m, Pad32(py)...)
	return SM3(m)
}

// E = SM3(ZA ‖ M) as an integer.
func E(px, py *big.Int, id, msg []byte) *big.Int {
	za := ZA(px, py, id)
	return new(big.Int).SetBytes(SM3(append(append([]byte{}, za...), msg...)))
}

// SignWithK computes the GM/T 0003.2 signature for nonce k; ok=false if this k must be rejected.
func SignWithK(d, k *big.Int, px, py *big.Int, id, msg []byte) (r, s *big.Int, ok bool) {
	e := E(px, py, id, msg)
	kg := MulG(k)
	if kg.Inf {
		return nil, nil, false
	}
	r = new(big.Int).Add(e, kg.X)
	r.Mod(r, N)
	if r.Sign() == 0 {
		return nil, nil, false
	}
	if new(big.Int).Add(r, k).Cmp(N) == 0 {
		return nil, nil, false
	}
	d1 := new(big.Int).Add(d, big.NewInt(1))
	d1.ModInverse(d1, N)
	s = new(big.Int).Mul(r, d)
	s.Sub(k, s)
	s.Mul(s, d1)
	s.Mod(s, N)
	if s.Sign() == 0 {
		return nil, nil, false
	}
	return r, s, true
}

// RecoverK returns the nonce k' = s(1+d) + r d mod n that a signature (r,s) by key d must have used.
func RecoverK(d, r, s *big.Int) *big.Int {
	k := new(big.Int).Add(d, big.NewInt(1))
	k.Mul(k, s)
	rd := new(big.Int).Mul(r, d)
	k.Add(k, rd)
	return k.Mod(k, N)
}

// Verify implements GM/T 0003.2 verification literally.
func Verify(px, py *big.Int, id, msg []byte, r, s *big.Int) bool {
	return VerifyE(px, py, E(px, py, id, msg), r, s)
}

// VerifyE verifies against a precomputed e.
func VerifyE(px, py, e, r, s *big.Int) bool {
	one := big.NewInt(1)
	nm1 := new(big.Int).Sub(N, one)
	if r.Cmp(one) < 0 || r.Cmp(nm1) > 0 || s.Cmp(one) < 0 || s.Cmp(nm1) > 0 {
		return false
	}
	if !OnCurve(px, py) {
		return false
	}
	t := new(big.Int).Add(r, s)
	t.Mod(t, N)
	if t.Sign() == 0 {
		return false
	}
	pt := Add(MulG(s), Mul(t, Point{X: px, Y: py}))
	if pt.Inf {
		return false
	}
	R := new(big.Int).Add(e, pt.X)
	R.Mod(R, N)
	return R.Cmp(r) == 0
}

// KDF of GM/T 0003.4 §5.4.3 over SM3.
func KDF(z []byte, klen int) []byte {
	var out []byte
	for ct := uint32(1); len(out) < klen; ct++ {
		var c [4]byte
		binary.BigEndian.PutUint32(c[:], ct)
		out = append(out, SM3(append(append([]byte{}, z...), c[:]...))...)
	}
	return out[:klen]
}

func allZero(b []byte) bool {
	for _, v := range b {
		if v != 0 {
			return false
		}
	}
	return true
}

// Ciphertext parts of GM/T 0003.4.
type Ciphertext struct {
	X1, Y1 *big.Int
	C3     []byte
	C2     []byte
}

// SplitRaw parses 0x04‖x1‖y1‖… in either ordering (c1c2c3=false means C1‖C3‖C2).
func SplitRaw(ct []byte, c1c2c3 bool) (*Ciphertext, error) {
	if len(ct) < 1+64+32 {
		return nil, errors.New("ref: ciphertext too short")
	}
	if ct[0] != 0x04 {
		return nil, errors.New("ref: bad point format")
	}
	c := &Ciphertext{X1: new(big.Int).SetBytes(ct[1:33]), Y1: new(big.Int).SetBytes(ct[33:65])}
	rest := ct[65:]
	if c1c2c3 {
		c.C2 = append([]byte{}, rest[:len(rest)-32]...)
		c.C3 = append([]byte{}, rest[len(rest)-32:]...)
	} else {
		c.C3 = append([]byte{}, rest[:32]...)
		c.C2 = append([]byte{}, rest[32:]...)
	}
	return c, nil
}

// Decrypt implements GM/T 0003.4 decryption (B1–B7) literally, including the on-curve check of C1.
func Decrypt(d *big.Int, c *Ciphertext) ([]byte, error) {
	if !OnCurve(c.X1, c.Y1) {
		return nil, errors.New("ref: C1 not on curve")
	}
	q := Mul(d, Point{X: c.X1, Y: c.Y1})
	if q.Inf {
		return nil, errors.New("ref: [d]C1 is infinity")
	}
	x2, y2 := Pad32(q.X), Pad32(q.Y)
	t := KDF(append(append([]byte{}, x2...), y2...), len(c.C2))
	if len(c.C2) > 0 && allZero(t) {
		return nil, errors.New("ref: KDF output all zero")
	}
	m := make([]byte, len(c.C2))
	for i := range m {
		m[i] = c.C2[i] ^ t[i]
	}
	u := SM3(append(append(append([]byte{}, x2...), m...), y2...))
	if string(u) != string(c.C3) {
		return nil, errors.New("ref: C3 mismatch")
	}
	return m, nil
}

// EncryptWithK implements GM/T 0003.4 encryption (A1–A8) for nonce k.
func EncryptWithK(px, py, k *big.Int, msg []byte) (*Ciphertext, bool) {
	c1 := MulG(k)
	q := Mul(k, Point{X: px, Y: py})
	if c1.Inf || q.Inf {
		return nil, false
	}
	x2, y2 := Pad32(q.X), Pad32(q.Y)
	t := KDF(append(append([]byte{}, x2...), y2...), len(msg))
	if len(msg) > 0 && allZero(t) {
		return nil, false
	}
	c2 := make([]byte, len(msg))
	for i := range c2 {
		c2[i] = msg[i] ^ t[i]
	}
	c3 := SM3(append(append(append([]byte{}, x2...), msg...), y2...))
	return &Ciphertext{X1: c1.X, Y1: c1.Y, C3: c3, C2: c2}, true
}

// Raw serialises 0x04‖C1‖C3‖C2 (or C1‖C2‖C3).
func (c *Ciphertext) Raw(c1c2c3 bool) []byte {
	out := []byte{0x04}
	out = append(out, Pad32(c.X1)...)
	out = append(out, Pad32(c.Y1)...)
	if c1c2c3 {
		out = append(out, c.C2...)
		out = append(out, c.C3...)
	} else {
		out = append(out, c.C3...)
		out = append(out, c.C2...)
	}
	return out
}

// ---- key exchange, GM/T 0003.3 ----

// XBar computes x̄ = 2^w + (x & (2^w − 1)), w = 127.
func XBar(x *big.Int) *big.Int {
	w := uint(127)
	m := new(big.Int).Lsh(big.NewInt(1), w)
	r := new(big.Int).Sub(m, big.NewInt(1))
	r.And(r, x)
	return r.Add(r, m)
}

// KXResult holds the outputs of one party.
type KXResult struct {
	K      []byte
	S1, S2 []byte // S1 = Hash(0x02‖…) (= SB = S1), S2 = Hash(0x03‖…) (= SA = S2)
}

// KeyExchange computes one side of GM/T 0003.3. self* are this party's long-term and ephemeral
// keys, peer* the other's public values. initiator=true for user A. idA/idB are always A's and B's.
func KeyExchange(klen int, idA, idB []byte, dSelf *big.Int, selfPub Point, rSelf *big.Int, selfEph Point,
	peerPub, peerEph Point, initiator bool) (*KXResult, error) {
	if peerEph.Inf || !OnCurve(peerEph.X, peerEph.Y) {
		return nil, errors.New("ref: peer ephemeral not on curve")
	}
	xs := XBar(selfEph.X)
	t := new(big.Int).Mul(xs, rSelf)
	t.Add(t, dSelf)
	t.Mod(t, N)
	xp := XBar(peerEph.X)
	u := Add(peerPub, Mul(xp, peerEph))
	v := Mul(t, u) // cofactor h = 1
	if v.Inf {
		return nil, errors.New("ref: V is infinity")
	}
	var za, zb []byte
	var ra, rb Point
	if initiator {
		za, zb = ZA(selfPub.X, selfPub.Y, idA), ZA(peerPub.X, peerPub.Y, idB)
		ra, rb = selfEph, peerEph
	} else {
		za, zb = ZA(peerPub.X, peerPub.Y, idA), ZA(selfPub.X, selfPub.Y, idB)
		ra, rb = peerEph, selfEph
	}
	xv, yv := Pad32(v.X), Pad32(v.Y)
	z := append(append(append(append([]byte{}, xv...), yv...), za...), zb...)
	k := KDF(z, klen)
	inner := append([]byte{}, xv...)
	inner = append(inner, za...)
	inner = append(inner, zb...)
	inner = append(inner, Pad32(ra.X)...)
	inner = append(inner, Pad32(ra.Y)...)
	inner = append(inner, Pad32(rb.X)...)
	inner = append(inner, Pad32(rb.Y)...)
	h := SM3(inner)
	s1 := SM3(append(append([]byte{0x02}, yv...), h...))
	s2 := SM3(append(append([]byte{0x03}, yv...), h...))
	return &KXResult{K: k, S1: s1, S2: s2}, nil
}
