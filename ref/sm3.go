// Package ref holds the trusted reference models. Everything here is written from the
// standards (GM/T 0002/0003/0004, GM/T 0024, SP 800-38D via the Go standard library) for
// obviousness, uses only the Go standard library, and never imports gmsm.
package ref

import (
	"encoding/binary"
	"hash"
	"math/bits"
)

// ---- SM3 (GM/T 0004-2012) ----

var sm3IV = [8]uint32{0x7380166f, 0x4914b2b9, 0x172442d7, 0xda8a0600, 0xa96f30bc, 0x163138aa, 0xe38dee4d, 0xb0fb0e4e}

func sm3P0(x uint32) uint32 { return x ^ bits.RotateLeft32(x, 9) ^ bits.RotateLeft32(x, 17) }
func sm3P1(x uint32) uint32 { return x ^ bits.RotateLeft32(x, 15) ^ bits.RotateLeft32(x, 23) }

func sm3FF(j int, x, y, z uint32) uint32 {
	if j < 16 {
		return x ^ y ^ z
	}
	return (x & y) | (x & z) | (y & z)
}

func sm3GG(j int, x, y, z uint32) uint32 {
	if j < 16 {
		return x ^ y ^ z
	}
	return (x & y) | (^x & z)
}

func sm3T(j int) uint32 {
	if j < 16 {
		return 0x79cc4519
	}
	return 0x7a879d8a
}

// sm3CF is the compression function CF(V, B).
func sm3CF(v *[8]uint32, blk []byte) {
	var w [68]uint32
	var w1 [64]uint32
	for i := 0; i < 16; i++ {
		w[i] = binary.BigEndian.Uint32(blk[4*i:])
	}
	for j := 16; j < 68; j++ {
		w[j] = sm3P1(w[j-16]^w[j-9]^bits.RotateLeft32(w[j-3], 15)) ^ bits.RotateLeft32(w[j-13], 7) ^ w[j-6]
	}
	for j := 0; j < 64; j++ {
		w1[j] = w[j] ^ w[j+4]
	}
	a, b, c, d, e, f, g, h := v[0], v[1], v[2], v[3], v[4], v[5], v[6], v[7]
	for j := 0; j < 64; j++ {
		ss1 := bits.RotateLeft32(bits.RotateLeft32(a, 12)+e+bits.RotateLeft32(sm3T(j), j%32), 7)
		ss2 := ss1 ^ bits.RotateLeft32(a, 12)
		tt1 := sm3FF(j, a, b, c) + d + ss2 + w1[j]
		tt2 := sm3GG(j, e, f, g) + h + ss1 + w[j]
		d = c
		c = bits.RotateLeft32(b, 9)
		b = a
		a = tt1
		h = g
		g = bits.RotateLeft32(f, 19)
		f = e
		e = sm3P0(tt2)
	}
	v[0] ^= a
	v[1] ^= b
	v[2] ^= c
	v[3] ^= d
	v[4] ^= e
	v[5] ^= f
	v[6] ^= g
	v[7] ^= h
}

// SM3 returns the GM/T 0004 digest of msg (one-shot, explicit padding).
func SM3(msg []byte) []byte {
	l := uint64(len(msg)) * 8
	m := make([]byte, 0, len(msg)+72)
	m = append(m, msg...)
	m = append(m, 0x80)
	for len(m)%64 != 56 {
		m = append(m, 0)
	}
	var lb [8]byte
	binary.BigEndian.PutUint64(lb[:], l)
	m = append(m, lb[:]...)
	v := sm3IV
	for i := 0; i < len(m); i += 64 {
		sm3CF(&v, m[i:i+64])
	}
	out := make([]byte, 32)
	for i := 0; i < 8; i++ {
		binary.BigEndian.PutUint32(out[4*i:], v[i])
	}
	return out
}

// sm3Hash is a correct hash.Hash over SM3, deliberately trivial: it buffers everything.
type sm3Hash struct{ buf []byte }

// NewSM3 returns a reference hash.Hash (buffers the whole message; obviously correct).
func NewSM3() hash.Hash                        { return &sm3Hash{} }
func (h *sm3Hash) Write(p []byte) (int, error) { h.buf = append(h.buf, p...); return len(p), nil }
func (h *sm3Hash) Sum(b []byte) []byte         { return append(b, SM3(h.buf)...) }
func (h *sm3Hash) Reset()                      { h.buf = h.buf[:0] }
func (h *sm3Hash) Size() int                   { return 32 }
func (h *sm3Hash) BlockSize() int              { return 64 }

// sm3Stream is a streaming reference hasher (block buffering only), for inputs too large to hold.
// It is cross-checked against the one-shot SM3 in the self-test.
type sm3Stream struct {
	v   [8]uint32
	buf []byte
	n   uint64
}

// NewSM3Stream returns a streaming reference hash.Hash.
func NewSM3Stream() hash.Hash { h := &sm3Stream{}; h.Reset(); return h }

func (h *sm3Stream) Reset()         { h.v = sm3IV; h.buf = h.buf[:0]; h.n = 0 }
func (h *sm3Stream) Size() int      { return 32 }
func (h *sm3Stream) BlockSize() int { return 64 }
func (h *sm3Stream) Write(p []byte) (int, error) {
	h.n += uint64(len(p))
	h.buf = append(h.buf, p...)
	i := 0
	for ; i+64 <= len(h.buf); i += 64 {
		sm3CF(&h.v, h.buf[i:i+64])
	}
	h.buf = append(h.buf[:0], h.buf[i:]...)
	return len(p), nil
}
func (h *sm3Stream) Sum(b []byte) []byte {
	v := h.v
	m := append([]byte{}, h.buf...)
	m = append(m, 0x80)
	for len(m)%64 != 56 {
		m = append(m, 0)
	}
	var lb [8]byte
	binary.BigEndian.PutUint64(lb[:], h.n*8)
	m = append(m, lb[:]...)
	for i := 0; i < len(m); i += 64 {
		sm3CF(&v, m[i:i+64])
	}
	out := make([]byte, 32)
	for i := 0; i < 8; i++ {
		binary.BigEndian.PutUint32(out[4*i:], v[i])
	}
	return append(b, out...)
}
