#!/bin/sh
# usage: run_all_seeds_alt.sh [jobs]  — re-runs the quick check of every kept seeded change against a scratch worktree of
# /repo with the change applied (VERIF_ALT_REPO; /repo itself is not touched), several properties in parallel, and lists
# every seed whose change is NOT reported. Developer tooling: nothing registered in MANIFEST.json calls it.
J=${1:-4}
cd "$(dirname "$0")/.."
OUT=.build/seedrun
rm -rf $OUT; mkdir -p $OUT
one() {
  P=$1
  for d in seeded/$P-m*; do
    [ -f $d/patch.diff ] || continue
    if [ "$(jq -r '.neutralised_by_repo_fix // false' $d/meta.json)" = "true" ]; then echo "SKIP $d (neutralised by a repo fix)"; continue; fi
    R=$(sh scripts/try_seed_alt.sh $P $d/patch.diff quick 60 2>&1)
    N=$(echo "$R" | grep -c '^VIOLATION')
    if echo "$R" | grep -q 'patch does not apply'; then echo "NOAPPLY $d"; elif [ "$N" -gt 0 ]; then echo "caught $d $N"; else echo "MISSED $d $(echo "$R" | tail -1 | cut -c1-120)"; fi
  done > $OUT/$P.txt 2>&1
}
N=0
for P in ${PROPS:-C15 C20 C17 C01 C09 C07 C02 C18 C08 C10 C13 C16 C06 C14 C03 C12 C11 C05 C04 C19}; do
  one $P &
  N=$((N+1))
  if [ $((N % J)) -eq 0 ]; then wait; fi   # POSIX sh has no "jobs -r": run in batches of J
done
wait
cat $OUT/*.txt | grep -v '^caught' ; echo "caught: $(cat $OUT/*.txt | grep -c '^caught')  of $(ls -d seeded/*/ | wc -l)"
for P in C01 C02 C03 C04 C05 C06 C07 C08 C09 C10 C11 C12 C13 C14 C15 C16 C17 C18 C19 C20; do git -C /repo worktree remove --force /tmp/wt/$P 2>/dev/null; done
git -C /repo worktree prune
