#!/usr/bin/env python3
"""Regenerates the seeded-change table in DESIGN.md (between the SEEDTABLE markers) from seeded/*/meta.json."""
import json,glob,os,re
root=os.path.dirname(os.path.dirname(os.path.abspath(__file__)))
rows=[]
for d in sorted(glob.glob(root+'/seeded/*/')):
    m=json.load(open(d+'meta.json'))
    name=os.path.basename(d.rstrip('/'))
    desc=(m.get('description') or m.get('summary') or m.get('title') or '').replace('\n',' ').replace('|','/')
    desc=re.sub(r'\s+',' ',desc)
    if len(desc)>230: desc=desc[:227]+'…'
    keys=[]
    for src in [m.get('recheck') or {}, (m.get('confirmation') or {}).get('check') or {}]:
        for line in src.get('first') or []:
            for k in re.findall(r'key=(\S+)', line) or re.findall(r'(C\d\d/\S+)', line):
                if k not in keys: keys.append(k)
    k='; '.join(keys[:3]).replace('|','/')
    if len(keys)>3: k+=' (+%d more)'%(len(keys)-3)
    st=(m.get('strengthening') or '').replace('\n',' ').replace('|','/')
    det='yes' if m.get('detected_by_quick_check') else 'NO'
    if st: det+=' (after strengthening)'
    rows.append('| %s | %s | %s | %s | %s |'%(name,desc,det,k,st))
tab='| seed | change (sub-agent\'s description) | caught by quick check | finding keys raised | strengthening |\n|---|---|---|---|---|\n'+'\n'.join(rows)+'\n'
p=root+'/DESIGN.md'
s=open(p).read()
a='<!-- SEEDTABLE BEGIN -->\n'; b='<!-- SEEDTABLE END -->'
i=s.index(a)+len(a); j=s.index(b)
open(p,'w').write(s[:i]+tab+s[j:])
print(len(rows),'rows')
