#!/bin/sh
# usage: [PROPS="C01 C02"] sweep.sh <tier> <seed...>   — runs every registered check at the given tier and seeds; prints one line per run.
TIER=${1:-quick}; shift
SEEDS=${*:-1}
cd "$(dirname "$0")/.."
sh scripts/setup.sh >/dev/null 2>&1 || { echo "setup failed"; exit 2; }
RC=0
for S in $SEEDS; do
  for P in ${PROPS:-C01 C02 C03 C04 C05 C06 C07 C08 C09 C10 C11 C12 C13 C14 C15 C16 C17 C18 C19 C20}; do
    OUT=$(VERIF_SEED=$S ./bin/vcheck -p $P -tier $TIER 2>&1); E=$?
    echo "$OUT" | grep -E "^(VIOLATION|KNOWN-FINDING|INCONCLUSIVE)" | cut -c1-300
    echo "$OUT" | tail -1 | cut -c1-200 | sed "s/^/[exit=$E] /"
    [ $E -ne 0 ] && RC=1
  done
done
exit $RC
