#!/bin/sh
# usage: try_seed.sh <property> <patch.diff> [tier]   — applies a seeded change to /repo, runs the check, reverts.
P=$1; PATCH=$2; TIER=${3:-quick}
cd /repo || exit 9
if ! git diff --quiet; then echo "repo dirty"; exit 9; fi
git apply "$PATCH" || { echo "patch does not apply"; exit 8; }
cd /verif && ./bin/vcheck -p $P -tier $TIER > /tmp/try_seed_$P.out 2>&1; RC=$?
git -C /repo checkout -- . 
grep -c '^VIOLATION' /tmp/try_seed_$P.out | sed "s/^/violations: /"
grep '^VIOLATION' /tmp/try_seed_$P.out | head -4 | cut -c1-330
tail -1 /tmp/try_seed_$P.out | cut -c1-200
echo "exit=$RC"
