#!/bin/sh
# Runs the repository's pinned suite with the verif build tag OFF and checks that every test of the
# pinned stable list (scripts/baseline_tests.txt, copied from BASELINE.json) passes.
# Prints the go test -json stream to stdout; exit 0 iff all pinned tests passed.
export GOFLAGS=-mod=mod GOPROXY=off GOSUMDB=off GOTOOLCHAIN=local
HERE=$(cd "$(dirname "$0")" && pwd)
OUT=$(mktemp)
(cd /repo && go build ./... && go test -json -vet=off -count=1 -timeout 25m ./...) > "$OUT" 2>&1
cat "$OUT"
python3 - "$OUT" "$HERE/baseline_tests.txt" >&2 <<'PY'
import json,sys
passed=set()
for l in open(sys.argv[1],errors='replace'):
    try: e=json.loads(l)
    except Exception: continue
    if e.get('Action')=='pass' and e.get('Test'):
        passed.add(e['Package']+'::'+e['Test'])
want=[l.strip() for l in open(sys.argv[2]) if l.strip()]
missing=[t for t in want if t not in passed]
print('baseline: %d/%d pinned tests passed'%(len(want)-len(missing),len(want)))
for m in missing: print('  NOT PASSED:',m)
sys.exit(1 if missing else 0)
PY
RC=$?
rm -f "$OUT"
exit $RC
