#!/usr/bin/env python3
"""Regenerates the table of repaired defects in DESIGN.md (between the FIXTABLE markers) from KNOWN_FINDINGS.txt."""
import re,os
root=os.path.dirname(os.path.dirname(os.path.abspath(__file__)))
rows=[]
for l in open(root+'/KNOWN_FINDINGS.txt'):
    m=re.match(r'(fixed|known): property=(C\d\d) (\S+) (.*)',l.strip())
    if m:
        rows.append('| %s | %s | `%s` | %s |'%(m.group(2),m.group(1),m.group(3),m.group(4).replace('|','/')))
tab='| property | status | repo commit / key | what failed (witness class) |\n|---|---|---|---|\n'+'\n'.join(rows)+'\n'
p=root+'/DESIGN.md'
s=open(p).read()
a='<!-- FIXTABLE BEGIN -->\n'; b='<!-- FIXTABLE END -->'
i=s.index(a)+len(a); j=s.index(b)
open(p,'w').write(s[:i]+tab+s[j:])
print(len(rows),'rows')
