#!/bin/sh
# usage: confirm_round2.sh <prop> — confirms /tmp/wt/out2_<prop>/m1..3 as <prop>-m4..6
P=$1
for i in 1 2 3; do
  echo "== $P m$i -> $P-m$((i+3))"
  python3 /verif/scripts/confirm_seed.py $P /tmp/wt/out2_$P/m$i --worktree /tmp/wt/r2_$P --keep-as $P-m$((i+3)) 2>&1 | tail -4 | cut -c1-330
done
