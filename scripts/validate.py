#!/usr/bin/env python3
"""Validates MANIFEST.json and every evidence/*.json against the schemas (needs jsonschema: run with python3-vt)."""
import json, glob, sys, jsonschema
ok = True
m = json.load(open('/verif/MANIFEST.json'))
jsonschema.validate(m, json.load(open('/root/.vp/MANIFEST.schema.json')))
sch = json.load(open('/root/.vp/EVIDENCE.schema.json'))
for c in m['checks']:
    p = c['evidence_file']
    try:
        e = json.load(open(p))
        jsonschema.validate(e, sch)
        lvl_ok = e['level'] == c['level_claimed']['category']
        print('ok  ' if lvl_ok else 'LVL ', p, e['tier'], 'evals', e['coverage'].get('evaluations'), 'distinct', e['coverage'].get('distinct_nontrivial'), 'viol', e.get('violations'), 'wall %.1f' % e['wall_s'])
        ok &= lvl_ok
    except Exception as ex:
        ok = False
        print('BAD ', p, str(ex)[:300])
sys.exit(0 if ok else 1)
