#!/bin/sh
# Run once in /verif after a fresh restore, offline: builds the driver, runs the reference self-tests
# (independent of gmsm) and warms the build caches for the plain and -race workers.
set -e
export GOFLAGS=-mod=mod GOPROXY=off GOSUMDB=off GOTOOLCHAIN=local
cd "$(dirname "$0")/.."
mkdir -p bin .build/bin evidence
go build -o bin/vcheck ./cmd/vcheck
go test -count=1 ./ref/ ./mon/ 2>&1 | tail -5
go build -tags verif -o .build/bin/vworker ./cmd/vworker
go build -tags verif -race -o .build/bin/vworker-race ./cmd/vworker
echo setup-ok
