#!/usr/bin/env python3
"""confirm_seed.py <property> <mutant dir> [--keep-as NAME]

Independently confirms a seeded change produced by a sub-agent, in the agent's scratch worktree
(/tmp/wt/<property>): demo passes without the patch, patch applies and builds, the repository's
pinned suite still passes with it, demo fails with it. Then runs our quick (and optionally thorough)
check against /repo with the patch applied and records everything in /verif/seeded/<NAME>/.
"""
import json, os, re, shutil, subprocess, sys, time

ENV = dict(os.environ, GOFLAGS="-mod=mod", GOPROXY="off", GOSUMDB="off", GOTOOLCHAIN="local")
WT = None
SUITE = "go test -vet=off -count=1 ./sm2/ ./sm3/ ./sm4/... ./x509/ ./pkcs12/ ./gmtls/ ./gmtls/websvr/"


def sh(cmd, cwd, timeout=1500):
    p = subprocess.run(cmd, shell=True, cwd=cwd, env=ENV, capture_output=True, text=True, timeout=timeout)
    return p.returncode, (p.stdout + p.stderr)


def main():
    prop, mdir = sys.argv[1], os.path.abspath(sys.argv[2])
    name = "%s-%s" % (prop, os.path.basename(mdir))
    if "--keep-as" in sys.argv:
        name = sys.argv[sys.argv.index("--keep-as") + 1]
    wt = "/tmp/wt/" + prop
    if "--worktree" in sys.argv:
        wt = sys.argv[sys.argv.index("--worktree") + 1]
    global WT
    WT = wt
    patch = os.path.join(mdir, "patch.diff")
    demos = [f for f in os.listdir(mdir) if f.endswith(".go")]
    if not demos and os.path.isdir(os.path.join(mdir, "demo")):
        demos = ["demo/" + f for f in os.listdir(os.path.join(mdir, "demo")) if f.endswith(".go")]
    if not demos:
        print("no demo"); return 2
    demo = os.path.join(mdir, demos[0])
    head = open(demo).read(3000)
    m = re.search(r"(%s/\S+\.go)" % re.escape(wt), head)
    runm = re.search(r"(go (?:test|run) [^\n]*)", head)
    rel = None
    if not m:
        rel = re.search(r"cp\s+\S+\s+([\w./-]+\.go)", head)
    if (not m and not rel) or not runm:
        print("cannot parse demo header; dest=%s run=%s" % (m, runm)); return 2
    dest = m.group(1).rstrip(".,;)") if m else os.path.join(wt, rel.group(1))
    runcmd = runm.group(1).strip()
    runcmd = re.sub(r"^\s*//\s*", "", runcmd)
    runcmd = re.sub(r"\s+#.*$", "", runcmd)
    rec = {"property": prop, "mutant": name, "demo_dest": dest, "demo_cmd": runcmd, "steps": []}

    def step(label, ok, out):
        rec["steps"].append({"step": label, "ok": ok, "tail": out[-600:]})
        print("%-34s %s" % (label, "OK" if ok else "FAILED"))
        return ok

    sh("git checkout -- . && git clean -fdq", wt)
    os.makedirs(os.path.dirname(dest), exist_ok=True)
    shutil.copy(demo, dest)
    rc, out = sh(runcmd, wt)
    step("demo passes without patch", rc == 0, out)
    ok_nopatch = rc == 0
    os.remove(dest)
    rc, out = sh("git apply %s" % patch, wt)
    if not step("patch applies", rc == 0, out):
        return finish(rec, name, mdir, False)
    rc, out = sh("go build ./...", wt)
    ok_build = step("builds", rc == 0, out)
    ok_suite = False
    for attempt in range(4):
        rc, out = sh("flock /tmp/wt/suite.lock " + SUITE, wt)
        if "address already in use" in out:
            time.sleep(5)
            continue
        ok_suite = rc == 0
        break
    step("pinned suite passes with patch", ok_suite, "\n".join(l for l in out.splitlines() if l.startswith(("ok", "FAIL", "---", "panic"))))
    shutil.copy(demo, dest)
    rc, out = sh(runcmd, wt)
    ok_demo = step("demo fails with patch", rc != 0, out)
    os.remove(dest)
    sh("git checkout -- . && git clean -fdq", wt)
    confirmed = ok_nopatch and ok_build and ok_suite and ok_demo
    return finish(rec, name, mdir, confirmed)


def finish(rec, name, mdir, confirmed):
    rec["confirmed"] = confirmed
    if not confirmed:
        print("NOT CONFIRMED"); print(json.dumps(rec["steps"], indent=1)[-1500:])
        return 1
    # run our check against /repo with the patch
    prop = rec["property"]
    patch = os.path.join(mdir, "patch.diff")
    # The check is run against the scratch worktree (same commit as /repo HEAD) with the patch applied, through
    # VERIF_ALT_REPO, so that /repo itself is never touched while other runs may be rebuilding from it.
    # scripts/run_all_seeds.sh later re-runs every kept seed against /repo itself (apply, check, undo).
    wt = WT
    _, h1 = sh("git rev-parse HEAD", "/repo")
    sh("git checkout -- . && git clean -fdq", wt)
    sh("git checkout -q --detach %s" % h1.strip(), wt)  # the check runs against the current /repo commit + the patch
    _, h2 = sh("git rev-parse HEAD", wt)
    rc, out = sh("git apply %s" % patch, wt)
    if rc != 0 or h1.strip() != h2.strip():
        rec["check"] = {"applies_to_repo_head": False, "note": out[-300:] + " head %s vs %s" % (h1.strip()[:8], h2.strip()[:8])}
        print("patch does not apply / worktree not at /repo HEAD:", out[-200:])
    else:
        try:
            rc, out = sh("VERIF_ALT_REPO=%s ./bin/vcheck -p %s -tier quick" % (wt, prop), "/verif", timeout=3000)
        finally:
            sh("git checkout -- . && git clean -fdq", wt)
        viol = [l for l in out.splitlines() if l.startswith("VIOLATION")]
        rec["check"] = {"applies_to_repo_head": True, "tier": "quick", "exit": rc, "violations": len(viol), "first": [v[:300] for v in viol[:3]]}
        print("check: exit=%d violations=%d" % (rc, len(viol)))
        for v in viol[:2]:
            print("   ", v[:260])
    out_dir = os.path.join("/verif/seeded", name)
    os.makedirs(out_dir, exist_ok=True)
    shutil.copy(patch, os.path.join(out_dir, "patch.diff"))
    for f in os.listdir(mdir):
        if f.endswith(".go"):
            shutil.copy(os.path.join(mdir, f), os.path.join(out_dir, f + ".txt" if not f.endswith(".txt") else f))
    meta = {}
    try:
        meta = json.load(open(os.path.join(mdir, "meta.json")))
    except Exception:
        pass
    meta["breaks_property"] = prop
    meta["confirmation"] = rec
    meta["detected_by_quick_check"] = bool(rec.get("check", {}).get("violations"))
    json.dump(meta, open(os.path.join(out_dir, "meta.json"), "w"), indent=1)
    print("kept as", out_dir, "detected:", meta["detected_by_quick_check"])
    return 0


if __name__ == "__main__":
    sys.exit(main())
