#!/usr/bin/env python3
"""usage: seed_note.py <seed name> <strengthening text> — re-runs the quick check against the seed (scratch worktree,
VERIF_ALT_REPO) and records the outcome plus the note in seeded/<name>/meta.json."""
import json,sys,subprocess,os
name,note=sys.argv[1],sys.argv[2]
prop=name.split('-')[0]
d='/verif/seeded/'+name
out=subprocess.run(['sh','/verif/scripts/try_seed_alt.sh',prop,d+'/patch.diff','quick','40'],capture_output=True,text=True).stdout
viol=[l for l in out.splitlines() if l.startswith('VIOLATION')]
m=json.load(open(d+'/meta.json'))
if 'detected_by_quick_check_initially' not in m:
    m['detected_by_quick_check_initially']=bool(m.get('detected_by_quick_check'))
m['detected_by_quick_check']=bool(viol)
m['strengthening']=note
m['recheck']={'violations':len(viol),'first':[v[:300] for v in viol[:3]]}
json.dump(m,open(d+'/meta.json','w'),indent=1)
print(name,'detected:',bool(viol),len(viol))
