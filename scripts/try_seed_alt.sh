#!/bin/sh
# usage: try_seed_alt.sh <prop> <patch> [tier] — applies the patch in the scratch worktree /tmp/wt/<prop> (same commit as /repo)
# and runs the check against it through VERIF_ALT_REPO; /repo is not touched.
P=$1; PATCH=$(readlink -f $2); T=${3:-quick}; WT=/tmp/wt/$P
cd "$(dirname "$0")/.."
[ -d $WT ] || git -C /repo worktree add --detach $WT HEAD >/dev/null 2>&1
git -C $WT checkout -q --detach $(git -C /repo rev-parse HEAD) 2>/dev/null
git -C $WT checkout -- . ; git -C $WT clean -fdq
git -C $WT apply $PATCH || { echo "patch does not apply"; exit 3; }
VERIF_ALT_REPO=$WT ./bin/vcheck -p $P -tier $T 2>&1 | grep -E "^(VIOLATION|SUMMARY|INCONCLUSIVE|KNOWN)" | cut -c1-330 | head -${4:-8}
git -C $WT checkout -- . ; git -C $WT clean -fdq
TAG=$(printf %s "$WT" | sha256sum | cut -c1-10)
rm -f .build/bin/vworker*-alt-$TAG .build/alt-$TAG.mod .build/alt-$TAG.sum   # only this worktree's files: other properties may be running in parallel
