#!/bin/sh
# Developer tooling (not registered in MANIFEST): which gmsm functions does the whole quick workload never reach?
# Builds the worker with -cover over the gmsm packages, runs every property once, merges the counters and prints
# per-function coverage below a threshold. The answer feeds DESIGN.md's "paths the workload never drives" list.
set -e
cd "$(dirname "$0")/.."
export GOFLAGS=-mod=mod GOPROXY=off GOSUMDB=off GOTOOLCHAIN=local
TIER=${1:-quick}
OUT=$(mktemp -d /tmp/vcov.XXXXXX)
trap 'rm -rf "$OUT"' EXIT
go build -tags verif -cover -coverpkg=github.com/tjfoc/gmsm/...,verif/cmd/vworker -o "$OUT/vworker" ./cmd/vworker
mkdir -p "$OUT/cov"
for p in ${PROPS:-C01 C02 C03 C04 C05 C06 C07 C08 C09 C10 C11 C12 C13 C14 C15 C16 C17 C18 C19 C20}; do
  mkdir -p "$OUT/run/$p"
  GOCOVERDIR="$OUT/cov" VERIF_ROOT=$PWD "$OUT/vworker" -p $p -tier $TIER -seed 1 -out "$OUT/run/$p" >/dev/null 2>&1 || echo "worker $p exit $?"
  rm -rf "$OUT/run/$p"
done
go tool covdata func -i="$OUT/cov" | grep -v "^verif/" > "$OUT/func.txt"
mkdir -p .build
cp "$OUT/func.txt" .build/coverage_func.txt
awk '{gsub("%","",$NF); if ($NF+0 < '"${THRESH:-50}"') print}' "$OUT/func.txt" | grep -v '^total' | sort -k1,1
grep '^total' "$OUT/func.txt" || true
