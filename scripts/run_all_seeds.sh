#!/bin/sh
# Re-runs every kept seeded change against /repo itself: apply, run the property's quick check, undo.
# Prints one line per seed; exit 1 if any seed is not detected. Do not run while another run rebuilds from /repo.
cd "$(dirname "$0")/.."
git -C /repo diff --quiet || { echo "/repo has uncommitted changes"; exit 2; }
RC=0
for D in seeded/${1:-*}/; do
  N=$(basename $D); P=${N%%-*}
  if grep -q '"neutralised_by_repo_fix": true' $D/meta.json; then echo "$N skipped (no longer a break after a later fix: commit)"; continue; fi
  if ! git -C /repo apply $D/patch.diff 2>/dev/null; then echo "$N patch does not apply"; RC=1; continue; fi
  OUT=$(./bin/vcheck -p $P -tier quick 2>&1); E=$?
  git -C /repo checkout -- .
  V=$(echo "$OUT" | grep -c '^VIOLATION')
  echo "$N exit=$E violations=$V $(echo "$OUT" | grep '^VIOLATION' | head -1 | sed 's/.*key=//' | cut -c1-120)"
  [ "$E" -eq 1 ] && [ "$V" -gt 0 ] || RC=1
done
exit $RC
