#!/bin/sh
# usage: confirm_round.sh <round> <prop> — confirms /tmp/wt/out<round>_<prop>/m1..3 as <prop>-m(3*(round-1)+1..3)
R=$1; P=$2; OFF=$(( (R-1)*3 ))
for i in 1 2 3; do
  echo "== $P m$i -> $P-m$((i+OFF))"
  python3 /verif/scripts/confirm_seed.py $P /tmp/wt/out${R}_$P/m$i --worktree /tmp/wt/r${R}_$P --keep-as $P-m$((i+OFF)) 2>&1 | grep -E "check:|detected|VIOL|cannot|NOT CONF|FAILED" | cut -c1-300
done
