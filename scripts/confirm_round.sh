#!/bin/sh
# usage: confirm_round.sh <round> <prop> [<name-round>] — confirms /tmp/wt/out<round>_<prop>/m1..3 as
# <prop>-m(3*(name-round-1)+1..3); name-round defaults to round (the second half of round 8 ran in directories named r9_/out9_)
R=$1; P=$2; NR=${3:-$R}; OFF=$(( (NR-1)*3 ))
for i in 1 2 3; do
  echo "== $P m$i -> $P-m$((i+OFF))"
  python3 /verif/scripts/confirm_seed.py $P /tmp/wt/out${R}_$P/m$i --worktree /tmp/wt/r${R}_$P --keep-as $P-m$((i+OFF)) 2>&1 | grep -E "check:|detected|VIOL|cannot|NOT CONF|FAILED" | cut -c1-300
done
