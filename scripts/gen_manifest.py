#!/usr/bin/env python3
"""Generates /verif/MANIFEST.json from the table below (kept in one place so the file stays valid)."""
import json, os, subprocess, sys

HERE = os.path.dirname(os.path.abspath(__file__))
ROOT = os.path.dirname(HERE)

# property -> (level category, technique, level text, level note, design ref)
CHECKS = {
    "C04": ("exploration",
            "model-based trace monitor + differential reference model (SM3 transcribed from GM/T 0004) over generated inputs and op sequences",
            "Runs the real sm3 package over every message length of the tier's grid, random partitions into 1..8 writes (incl. empty and buffer-recycling writes), exhaustively enumerated op sequences over {Write,Sum(nil),Sum(prefix),Sum(prefix+cap),Reset} to depth 4 (quick) / 5 (thorough) plus random traces to length 8, HMAC/PBKDF2 instantiations and multi-MiB streams; a monitor compares every observable result with a model that remembers the bytes written since Reset and an independent SM3. Held = no divergence on the executions produced.",
            "Trusted: /verif/ref SM3 (validated at start of every run against the GM/T 0004 vectors), Go crypto/hmac and x/crypto/pbkdf2. Sampling by length class, not all contents.",
            "DESIGN.md §5 C04"),
    "C05": ("exploration",
            "differential reference-model monitor (SM4 with S-box computed from its algebraic definition) with measured S-box lane coverage; history monitor on one cipher object with canary buffers",
            "Runs sm4.NewCipher Encrypt/Decrypt on structured (single-bit, all-zero/one) and random (key, block) pairs until every S-box input value was observed in every byte lane of data path and key schedule; random Encrypt/Decrypt histories on one object with dst==src and disjoint canary buffers, each step compared with the stateless reference; key lengths 0..64. Held = no divergence on the executions produced.",
            "Trusted: /verif/ref SM4 (GM/T 0002 vector and 1e6-iteration vector in setup). (key,block) space is sampled.",
            "DESIGN.md §5 C05"),
    "C11": ("exploration",
            "differential monitor against crypto/cipher modes over the reference SM4 + canary-buffer memory-ownership monitor",
            "Every plaintext length 0..1024 x {ECB,CBC,CFB,OFB} x (key,IV) groups (default zero IV and SetIV), inputs inside canary arrays with spare capacity {0,1,15,16,64}; ciphertext must equal the stdlib mode over the reference cipher of the PKCS#7-padded plaintext, obey the length rule, decrypt back, and no caller memory (input, key, IV, spare capacity, guard zones) may change.",
            "Trusted: ref SM4, crypto/cipher CBC/CFB/OFB, ref PKCS#7 pad. Lengths exhaustive; keys/IVs sampled.",
            "DESIGN.md §5 C11"),
    "C12": ("exploration",
            "differential monitor against crypto/cipher GCM over the reference SM4 (and over gmsm's block / the TLS suite construction), tag-sensitivity sweep, canary buffers",
            "Exhaustive |A|x|P| grid 0..80 at |IV|=12, IV lengths 1..64, IVs with 0xff bytes, algebraically constructed IVs whose pre-counter block sits at the 32-bit wrap, inputs to 64 KiB, and a single-bit authentication sweep over key/IV/A/C; ciphertext and tag must equal standard GCM, decryption must return the plaintext of the reference ciphertext, caller memory must be untouched.",
            "Trusted: crypto/cipher generic GCM over ref SM4, pinned by the RFC 8998 A.1 vector at start of run.",
            "DESIGN.md §5 C12"),
}

NOT_YET = {}

ALL = ["C%02d" % i for i in range(1, 21)]


def main():
    hooks_commits = []
    try:
        out = subprocess.run(["git", "-C", "/repo", "log", "--format=%H %s"], capture_output=True, text=True).stdout
        for l in out.splitlines():
            h, _, s = l.partition(" ")
            if s.startswith("verif-hooks:"):
                hooks_commits.append(h)
    except Exception:
        pass
    checks = []
    for pid in ALL:
        if pid not in CHECKS:
            continue
        cat, tech, text, note, ref = CHECKS[pid]
        checks.append({
            "property_id": pid,
            "quick_cmd": "./bin/vcheck -p %s -tier quick" % pid,
            "thorough_cmd": "./bin/vcheck -p %s -tier thorough" % pid,
            "evidence_file": "/verif/evidence/%s.json" % pid,
            "replay_cmd_template": "./bin/vcheck -p %s -replay {path}" % pid,
            "engine": "vcheck/vworker",
            "level_claimed": {"category": cat, "text": text, "design_ref": ref},
            "level_note": note,
            "technique": tech,
        })
    na = []
    for pid in ALL:
        if pid not in CHECKS:
            na.append({"property_id": pid, "reason": NOT_YET.get(pid, "check not built yet in this round (runtime monitoring applies; see DESIGN.md §5)")})
    m = {
        "version": 1,
        "setup_cmd": "sh scripts/setup.sh",
        "hooks": {
            "guard": "verif",
            "enable": "go build -tags verif (the driver builds cmd/vworker with -tags verif against /repo via a replace directive)",
            "baseline_off_cmd": "sh /verif/scripts/baseline_off.sh",
            "source_commits": hooks_commits,
            "add_only": True,
        },
        "engines": [
            {"name": "vcheck/vworker", "path": "/verif/cmd", "serves_properties": sorted(CHECKS.keys()),
             "kind_free_text": "runtime monitoring: driver rebuilds a worker linked against /repo's working tree (tag verif), the worker drives generated/hostile/concurrent workloads through the real gmsm code while reference-model, invariant, history and sanitizer monitors observe; findings are matched against KNOWN_FINDINGS.txt"},
        ],
        "checks": checks,
        "not_applicable": na,
        "notes": "Technique family: runtime monitoring and sanitizers. exit 0 held / exit 1 VIOLATION / exit 2 INCONCLUSIVE (build failure, watchdog, too few observed events). VERIF_SEED selects the seed (default 1).",
    }
    with open(os.path.join(ROOT, "MANIFEST.json"), "w") as f:
        json.dump(m, f, indent=1)
        f.write("\n")
    # validate when jsonschema is available
    try:
        import jsonschema
        sch = json.load(open("/root/.vp/MANIFEST.schema.json"))
        jsonschema.validate(m, sch)
        print("MANIFEST.json valid;", len(checks), "checks,", len(na), "not_applicable")
    except ImportError:
        print("MANIFEST.json written (jsonschema not importable here)")


if __name__ == "__main__":
    main()
